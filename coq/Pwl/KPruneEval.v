(* Pwl/KPruneEval.v -- the pruned generic composition for ANY branching factor (KPrune.kprune) leads every input x to
   the same terminal function -- hence to the same value and the same definedness -- as the unpruned lifting
   (PTree.lift), for every schema that keeps the number of rows of a decision, every oracle whose Infeasible answers
   exclude x, every receiver whose Infeasible marks exclude x, and every lhs whose decisions have K child slots with
   2^rows <= K (AffTree<K>: evaluate_decision asserts label < K).

   Why it holds: an input lies in the closed region of the edge it takes (EdgeRegion.takes_edge_in_region), so an edge
   that was dropped because the oracle / a cached mark said Infeasible is not the one x takes; keep_last only ever ADDS
   an edge; a node is forwarded only when ALL K slots of the lhs node exist and all but one were dropped -- so x takes
   the kept one; an EMPTY slot of lhs is never bridged: when the lhs node has an empty slot, created + skipped < K and
   the decision stays, with that slot empty. *)
From AT Require Import Num Vec Aff PTree Cells Abs Cache Elim ElimEval CPrune Ops CPruneEval EdgeRegion KPrune.

(* ---------- shapes ---------- *)
Definition nrows (p : aff) (r : nat) : Prop := length (a_mat p) = r /\ length (a_bias p) = r.
(* schemas under which a decision keeps its number of rows (function composition, the operator schemas) *)
Definition keeps_nrows (s : schema) (tf : aff) : Prop := forall p r, nrows p r -> nrows (s_dec s p tf) r.
Lemma keeps_nrows_op fo tf : keeps_nrows (op_schema fo) tf.
Proof. intros p r H. exact H. Qed.
Lemma keeps_nrows_comp tf : length (a_bias tf) = length (a_mat tf) -> keeps_nrows comp_schema tf.
Proof.
  intros Htf p r [H1 H2]. unfold nrows, comp_schema, upd_dec; cbn [s_dec a_mat a_bias]. split.
  - rewrite length_matmul. exact H1.
  - unfold vadd. rewrite length_vzip, length_vopp, length_matvec. rewrite H1, H2. apply Nat.min_id.
Qed.
(* the one-row case is CPruneEval.keeps_rows *)
Lemma keeps_nrows_one s tf : keeps_nrows s tf -> keeps_rows s tf.
Proof. intros H p Hp. exact (H p 1%nat Hp). Qed.

(* lhs as AffTree<K> holds it: K child slots per decision, a predicate with r rows where 2^r <= K *)
Inductive kary (K : nat) : ptree -> Prop :=
| kary_U : kary K U
| kary_T f : kary K (T f)
| kary_D p ch r : nrows p r -> (2 ^ r <= K)%nat -> length ch = K -> Forall (kary K) ch -> kary K (D p ch).
Fixpoint karyb (K : nat) (t : ptree) : bool :=
  match t with
  | D p ch => Nat.eqb (length (a_bias p)) (length (a_mat p)) && Nat.leb (2 ^ length (a_mat p)) K &&
              Nat.eqb (length ch) K && forallb (karyb K) ch
  | _ => true
  end.
Lemma karyb_sound K : forall t, karyb K t = true -> kary K t.
Proof.
  induction t as [|f|p ch IH] using ptree_ind'; intros H; [constructor|constructor|].
  cbn [karyb] in H. apply andb_true_iff in H as [H H4]. apply andb_true_iff in H as [H H3].
  apply andb_true_iff in H as [H1 H2]. apply Nat.eqb_eq in H1, H3. apply Nat.leb_le in H2.
  apply (kary_D K p ch (length (a_mat p))); auto; [split; auto|].
  rewrite forallb_forall in H4. rewrite Forall_forall in *. intros c Hc. apply IH; auto.
Qed.

(* the receiver: decisions have as many bias entries as rows; terminal functions keep rows *)
Inductive kok (s : schema) : ktree -> Prop :=
| kok_U : kok s KU
| kok_N i leaf f st ch : (leaf = false -> length (a_bias f) = length (a_mat f)) -> (leaf = true -> keeps_nrows s f) ->
    Forall (kok s) ch -> kok s (KN i leaf f st ch).

(* Infeasible marks of the receiver exclude x (ElimEval.marks_ok with the per-row edge regions) *)
Definition forall_lab {A} (P : nat -> A -> Prop) : list A -> nat -> Prop :=
  fix go (cs : list A) (l : nat) {struct cs} : Prop :=
    match cs with [] => True | c :: cs' => P l c /\ go cs' (S l) end.
Fixpoint kmarks (x : vec) (q : rows) (t : ktree) {struct t} : Prop :=
  match t with
  | KU => True
  | KN _ _ p st ch =>
      (st = Infeas -> ~ in_rows q x) /\ forall_lab (fun l c => kmarks x (q ++ label_rows p l) c) ch 0
  end.
Lemma forall_lab_nth {A} (P : nat -> A -> Prop) d : forall cs l j, forall_lab P cs l -> (j < length cs)%nat ->
  P (l + j)%nat (nth j cs d).
Proof.
  induction cs as [|c cs IH]; intros l j H Hj; cbn [length] in Hj; [lia|]. destruct H as [H0 H].
  destruct j as [|j]; cbn [nth].
  - rewrite Nat.add_0_r. exact H0.
  - replace (l + S j)%nat with (S l + j)%nat by lia. apply IH; auto. lia.
Qed.

(* ---------- observables ---------- *)
Lemma kev_kterm t x : kev t x = option_map (fun f => apply f x) (kterm t x).
Proof.
  induction t as [|i leaf f st ch IH] using ktree_ind'; [reflexivity|]. cbn [kev kterm]. destruct leaf; [reflexivity|].
  generalize (decide f x). intros k. revert k. induction ch as [|c ch IHch]; intros [|k]; cbn [map nth]; auto.
  - apply Forall_cons_iff in IH as [H _]; auto.
  - apply Forall_cons_iff in IH as [_ H]; auto.
Qed.
Lemma kterm_kerase t x : kterm t x = term (kerase t) x.
Proof.
  induction t as [|i leaf f st ch IH] using ktree_ind'; [reflexivity|]. cbn [kterm kerase]. destruct leaf; [reflexivity|].
  cbn [term]. rewrite map_map.
  generalize (decide f x). intros k. revert k. induction ch as [|c ch IHch]; intros [|k]; cbn [map nth]; auto.
  - apply Forall_cons_iff in IH as [H _]; auto.
  - apply Forall_cons_iff in IH as [_ H]; auto.
Qed.
Lemma kev_kerase t x : kev t x = eval (kerase t) x.
Proof. rewrite kev_kterm, eval_term, kterm_kerase. reflexivity. Qed.

(* ---------- arithmetic of labels ---------- *)
Lemma label_of_lt : forall bs, (label_of bs < 2 ^ length bs)%nat.
Proof.
  induction bs as [|b bs IH]; cbn [label_of length Nat.pow]; [lia|]. destruct b; lia.
Qed.
Lemma decide_lt p x r : nrows p r -> (decide p x < 2 ^ r)%nat.
Proof.
  intros [H1 H2]. unfold decide. pose proof (label_of_lt (bits (a_mat p) (a_bias p) x)) as H.
  rewrite length_bits in H by congruence. rewrite H1 in H. exact H.
Qed.
Lemma in_rows_edge p x q r : nrows p r -> in_rows q x -> in_rows (q ++ label_rows p (decide p x)) x.
Proof.
  intros [H1 H2] Hq. unfold in_rows. apply Forall_app. split; [exact Hq|].
  apply takes_edge_in_region. congruence.
Qed.

(* ---------- lists of flags ---------- *)
Lemma count_true_zero : forall ks j, count_true ks = 0%nat -> nth j ks false = false.
Proof.
  induction ks as [|b ks IH]; intros [|j] H; cbn [nth]; auto.
  - destruct b; [discriminate H | reflexivity].
  - apply IH. destruct b; [discriminate H | exact H].
Qed.
Lemma count_true_one : forall ks d, count_true ks = 1%nat -> nth d ks false = true ->
  forall j, j <> d -> nth j ks false = false.
Proof.
  induction ks as [|b ks IH]; intros d H Hd j Hj.
  - destruct j; reflexivity.
  - destruct b.
    + assert (H0 : count_true ks = 0%nat) by (unfold count_true in *; cbn [filter length] in H; lia).
      destruct d as [|d]; [|cbn [nth] in Hd; rewrite (count_true_zero ks d H0) in Hd; discriminate].
      destruct j as [|j]; [congruence|]. cbn [nth]. apply count_true_zero. exact H0.
    + assert (H1 : count_true ks = 1%nat) by (unfold count_true in *; cbn [filter length] in H; exact H).
      destruct d as [|d]; [discriminate Hd|]. cbn [nth] in Hd.
      destruct j as [|j]; [reflexivity|]. cbn [nth]. apply (IH d); auto.
Qed.
Lemma filter_len_le {A} (f : A -> bool) : forall l, (length (filter f l) <= length l)%nat.
Proof. induction l as [|a l IH]; cbn [filter length]; [lia|]. destruct (f a); cbn [length]; lia. Qed.
Lemma filter_full {A} (f : A -> bool) d : forall l, length (filter f l) = length l ->
  forall j, (j < length l)%nat -> f (nth j l d) = true.
Proof.
  induction l as [|a l IH]; intros H j Hj; cbn [length] in Hj; [lia|]. cbn [filter] in H.
  pose proof (filter_len_le f l) as Hle.
  destruct (f a) eqn:Ea; cbn [length] in H; [|lia].
  destruct j as [|j]; cbn [nth]; [exact Ea|]. apply IH; lia.
Qed.

(* ---------- the loop over the edges: what a cleared flag means ---------- *)
Lemma kedges_spec o tol top st q p' x : osound o x -> (st = Infeas -> ~ in_rows q x) -> in_rows q x ->
  forall ch l created k ks k', kedges o tol top st q p' ch l created k = (ks, k') ->
    length ks = length ch /\
    (forall j, pexists (nth j ch U) = true -> nth j ks false = false -> ~ in_rows (q ++ label_rows p' (l + j)) x) /\
    (forall j, pexists (nth j ch U) = false -> nth j ks false = false).
Proof.
  intros Ho Hm Hq. induction ch as [|c ch IH]; intros l created k ks k' H.
  - cbn [kedges] in H. inversion H; subst. split; [reflexivity|]. split; intros [|j]; cbn [nth pexists]; auto; discriminate.
  - cbn [kedges] in H. destruct (pexists c) eqn:Ec.
    + destruct (explore o tol top st (q ++ label_rows p' l) k) as [b k1] eqn:Ex.
      destruct (kedges o tol top st q p' ch (S l)
                  (if b || Nat.eqb created 0 && negb (existsb pexists ch) then S created else created) k1) as [ks1 k2] eqn:Er.
      inversion H; subst ks k'. destruct (IH _ _ _ _ _ Er) as [I1 [I2 I3]].
      split; [cbn [length]; lia|]. split.
      * intros [|j] He Hf; cbn [nth] in He, Hf.
        -- apply orb_false_iff in Hf as [Hb _]. subst b. rewrite Nat.add_0_r.
           eapply explore_false; eauto.
        -- replace (l + S j)%nat with (S l + j)%nat by lia. apply I2; auto.
      * intros [|j] He; cbn [nth] in *; [congruence|]. apply I3; auto.
    + destruct (kedges o tol top st q p' ch (S l) created k) as [ks1 k2] eqn:Er.
      inversion H; subst ks k'. destruct (IH _ _ _ _ _ Er) as [I1 [I2 I3]].
      split; [cbn [length]; lia|]. split.
      * intros [|j] He Hf; cbn [nth] in He, Hf; [congruence|].
        replace (l + S j)%nat with (S l + j)%nat by lia. apply I2; auto.
      * intros [|j] He; cbn [nth] in *; [reflexivity|]. apply I3; auto.
Qed.

(* ---------- the descent ---------- *)
Lemma kdesc_nth g : forall cs ks l k j, (j < length cs)%nat ->
  exists k', nth j (fst (kdesc g cs ks l k)) KU = if nth j ks false then fst (g (nth j cs U) (l + j)%nat k') else KU.
Proof.
  induction cs as [|c cs IH]; intros ks l k j Hj; cbn [length] in Hj; [lia|].
  cbn [kdesc]. fold (kdesc g). destruct (kdesc g cs (tl ks) (S l) k) as [rs k1] eqn:Er.
  destruct (if hd false ks then g c l k1 else (KU, k1)) as [r k2] eqn:Eh. cbn [fst].
  destruct j as [|j]; cbn [nth].
  - exists k1. rewrite Nat.add_0_r. destruct ks as [|b ks]; cbn [hd nth] in *.
    + inversion Eh; reflexivity.
    + destruct b; [rewrite Eh; reflexivity | inversion Eh; reflexivity].
  - destruct (IH (tl ks) (S l) k j ltac:(lia)) as [k' Hk']. rewrite Er in Hk'. cbn [fst] in Hk'.
    exists k'. rewrite Hk'. replace (S l + j)%nat with (l + S j)%nat by lia.
    destruct ks as [|b ks]; cbn [tl nth]; [destruct j; reflexivity | reflexivity].
Qed.
Lemma kdesc_length g : forall cs ks l k, length (fst (kdesc g cs ks l k)) = length cs.
Proof.
  induction cs as [|c cs IH]; intros ks l k; [reflexivity|]. cbn [kdesc]. fold (kdesc g).
  specialize (IH (tl ks) (S l) k). destruct (kdesc g cs (tl ks) (S l) k) as [rs k1].
  destruct (if hd false ks then g c l k1 else (KU, k1)) as [r k2]. cbn [fst length] in *. lia.
Qed.
Lemma kpick_at g dflt : forall cs ks j, (j < length cs)%nat -> nth j ks false = true ->
  (forall j', (j' < j)%nat -> nth j' ks false = false) -> kpick g dflt cs ks = g (nth j cs U).
Proof.
  induction cs as [|c cs IH]; intros ks j Hj Ht Hf; cbn [length] in Hj; [lia|].
  destruct ks as [|b ks]; [destruct j; discriminate Ht|]. cbn [kpick]. fold (kpick g dflt).
  destruct j as [|j]; cbn [nth] in *.
  - subst b. reflexivity.
  - pose proof (Hf 0%nat ltac:(lia)) as H0. cbn [nth] in H0. subst b. apply IH; auto; [lia|].
    intros j' Hj'. apply (Hf (S j')). lia.
Qed.
Lemma kasc_nth g : forall cs l k j, (j < length cs)%nat ->
  exists k', nth j (fst (kasc g cs l k)) KU = fst (g (nth j cs KU) (l + j)%nat k').
Proof.
  induction cs as [|c cs IH]; intros l k j Hj; cbn [length] in Hj; [lia|].
  cbn [kasc]. fold (kasc g). destruct (g c l k) as [r k1] eqn:Eg.
  destruct (kasc g cs (S l) k1) as [rs k2] eqn:Er. cbn [fst].
  destruct j as [|j]; cbn [nth].
  - exists k. rewrite Nat.add_0_r, Eg. reflexivity.
  - destruct (IH (S l) k1 j ltac:(lia)) as [k' Hk']. rewrite Er in Hk'. cbn [fst] in Hk'.
    exists k'. rewrite Hk'. replace (S l + j)%nat with (l + S j)%nat by lia. reflexivity.
Qed.
Lemma kasc_length g : forall cs l k, length (fst (kasc g cs l k)) = length cs.
Proof.
  induction cs as [|c cs IH]; intros l k; [reflexivity|]. cbn [kasc]. fold (kasc g).
  destruct (g c l k) as [r k1]. specialize (IH (S l) k1). destruct (kasc g cs (S l) k1) as [rs k2].
  cbn [fst length] in *. lia.
Qed.

(* ---------- one terminal of the receiver ---------- *)
Theorem kgraft_kterm o tol s K tf x : osound o x -> keeps_nrows s tf ->
  forall L, kary K L -> forall top st i q k, (st = Infeas -> ~ in_rows q x) -> in_rows q x ->
  kterm (fst (kgraft o tol s K tf L top st i q k)) x = term (graft s L tf) x.
Proof.
  intros Ho Hk. induction L as [|f|p ch IH] using ptree_ind'; intros HK top st i q k Hm Hq.
  - reflexivity.
  - reflexivity.
  - inversion HK as [| |p0 ch0 r Hr Hpow Hlen Hch]; subst p0 ch0.
    cbn [kgraft graft]. set (p' := s_dec s p tf). pose proof (Hk p r Hr) as Hr'. fold p' in Hr'.
    destruct (kedges o tol top st q p' ch 0 0 k) as [keeps k1] eqn:Ek.
    destruct (kedges_spec o tol top st q p' x Ho Hm Hq ch 0%nat 0%nat k keeps k1 Ek) as [S1 [S2 S3]].
    set (d := decide p' x).
    assert (Hd : (d < length ch)%nat) by (pose proof (decide_lt p' x r Hr'); unfold d; lia).
    pose proof (in_rows_edge p' x q r Hr' Hq) as Hreg. fold d in Hreg.
    (* the right-hand side *)
    cbn [term]. fold d. rewrite map_map.
    change (@None aff) with ((fun c => term (graft s c tf) x) U). rewrite map_nth.
    (* induction hypothesis for the slot x takes *)
    assert (IHd : forall top' st' i' q' k', (st' = Infeas -> ~ in_rows q' x) -> in_rows q' x ->
              kterm (fst (kgraft o tol s K tf (nth d ch U) top' st' i' q' k')) x = term (graft s (nth d ch U) tf) x).
    { rewrite Forall_forall in IH, Hch. intros top' st' i' q' k' A B.
      apply IH; [apply nth_In; exact Hd | apply Hch; apply nth_In; exact Hd | exact A | exact B]. }
    destruct (pexists (nth d ch U)) eqn:Ee.
    + (* the slot exists on lhs: its edge was kept *)
      assert (Kd : nth d keeps false = true).
      { destruct (nth d keeps false) eqn:E; [reflexivity|]. exfalso. apply (S2 d Ee E). exact Hreg. }
      destruct (Nat.eqb (count_true keeps) 1 && Nat.eqb (n_exist ch) K) eqn:Ef.
      * apply andb_true_iff in Ef as [Ec _]. apply Nat.eqb_eq in Ec.
        rewrite (kpick_at _ _ ch keeps d Hd Kd).
        2:{ intros j' Hj'. apply (count_true_one keeps d Ec Kd). lia. }
        apply IHd; [discriminate | exact Hq].
      * destruct (kdesc (fun c l k' => kgraft o tol s K tf c false Indet new_idx (q ++ label_rows p' l) k') ch keeps 0 k1)
          as [cs k2] eqn:Ed.
        cbn [fst kterm]. fold d.
        change (@None aff) with ((fun c => kterm c x) KU). rewrite map_nth.
        destruct (kdesc_nth (fun c l k' => kgraft o tol s K tf c false Indet new_idx (q ++ label_rows p' l) k')
                            ch keeps 0%nat k1 d Hd) as [k' Hk'].
        rewrite Ed in Hk'. cbn [fst] in Hk'. rewrite Hk', Kd. cbn [Nat.add].
        apply IHd; [discriminate | exact Hreg].
    + (* an empty slot of lhs stays undefined *)
      assert (EU : nth d ch U = U) by (destruct (nth d ch U); [reflexivity | discriminate Ee | discriminate Ee]).
      rewrite EU. cbn [graft term].
      pose proof (S3 d Ee) as Kd.
      destruct (Nat.eqb (count_true keeps) 1 && Nat.eqb (n_exist ch) K) eqn:Ef.
      * exfalso. apply andb_true_iff in Ef as [_ En]. apply Nat.eqb_eq in En.
        assert (Hfull : length (filter pexists ch) = length ch) by (unfold n_exist in En; lia).
        rewrite (filter_full pexists U ch Hfull d Hd) in Ee. discriminate.
      * destruct (kdesc (fun c l k' => kgraft o tol s K tf c false Indet new_idx (q ++ label_rows p' l) k') ch keeps 0 k1)
          as [cs k2] eqn:Ed.
        cbn [fst kterm]. fold d.
        change (@None aff) with ((fun c => kterm c x) KU). rewrite map_nth.
        destruct (kdesc_nth (fun c l k' => kgraft o tol s K tf c false Indet new_idx (q ++ label_rows p' l) k')
                            ch keeps 0%nat k1 d Hd) as [k' Hk'].
        rewrite Ed in Hk'. cbn [fst] in Hk'. rewrite Hk', Kd. reflexivity.
Qed.

(* ---------- all terminals of the receiver ---------- *)
Theorem kprune_kterm o tol s K L x : osound o x -> kary K L ->
  forall t q k, kok s t -> kmarks x q t -> in_rows q x ->
  kterm (fst (kprune o tol s K L t q k)) x = term (lift s (kerase t) L) x.
Proof.
  intros Ho HL. induction t as [|i leaf f st ch IH] using ktree_ind'; intros q k Hok Hm Hq; [reflexivity|].
  inversion Hok as [|i0 leaf0 f0 st0 ch0 Hdec Hterm Hch]; subst i0 leaf0 f0 st0 ch0.
  destruct Hm as [Hst Hm]. cbn [kprune kerase]. destruct leaf.
  - cbn [lift]. apply kgraft_kterm; auto.
  - destruct (kasc (fun c l k' => kprune o tol s K L c (q ++ label_rows f l) k') ch 0 k) as [cs k1] eqn:Ea.
    cbn [fst kterm lift term]. set (d := decide f x). rewrite !map_map.
    change (@None aff) with ((fun c => kterm c x) KU) at 1. rewrite map_nth.
    change (@None aff) with ((fun c => term (lift s (kerase c) L) x) KU). rewrite map_nth.
    pose proof (kasc_length (fun c l k' => kprune o tol s K L c (q ++ label_rows f l) k') ch 0%nat k) as Hlen.
    rewrite Ea in Hlen. cbn [fst] in Hlen.
    destruct (Nat.lt_ge_cases d (length ch)) as [Hd|Hd].
    + destruct (kasc_nth (fun c l k' => kprune o tol s K L c (q ++ label_rows f l) k') ch 0%nat k d Hd) as [k' Hk'].
      rewrite Ea in Hk'. cbn [fst] in Hk'. rewrite Hk'. cbn [Nat.add].
      rewrite Forall_forall in IH, Hch. apply IH.
      * apply nth_In; exact Hd.
      * apply Hch. apply nth_In; exact Hd.
      * exact (forall_lab_nth _ KU ch 0%nat d Hm Hd).
      * apply (in_rows_edge f x q (length (a_mat f))); [split; auto|exact Hq].
    + rewrite (nth_overflow cs) by lia. rewrite (nth_overflow ch) by lia. reflexivity.
Qed.

(* value and definedness *)
Theorem kprune_kev o tol s K L x : osound o x -> kary K L ->
  forall t q k, kok s t -> kmarks x q t -> in_rows q x ->
  kev (fst (kprune o tol s K L t q k)) x = eval (lift s (kerase t) L) x.
Proof. intros. rewrite kev_kterm, eval_term. f_equal. apply kprune_kterm; auto. Qed.

(* pruned composition = unpruned composition, any K *)
Theorem kcompose_prune_kterm o tol K t L x : osound o x -> kary K L -> kok comp_schema t -> kmarks x [] t ->
  kterm (fst (kcompose_prune o tol K t L)) x = term (compose (kerase t) L) x.
Proof. intros. unfold kcompose_prune, compose. apply kprune_kterm; auto. constructor. Qed.
Theorem kcompose_prune_kev o tol K t L x : osound o x -> kary K L -> kok comp_schema t -> kmarks x [] t ->
  kev (fst (kcompose_prune o tol K t L)) x = eval (compose (kerase t) L) x.
Proof. intros. unfold kcompose_prune, compose. apply kprune_kev; auto. constructor. Qed.

(* pruned operators = the point-wise lifting, any K: every receiver with well-shaped decisions qualifies *)
Inductive kdecs : ktree -> Prop :=
| kdecs_U : kdecs KU
| kdecs_N i leaf f st ch : (leaf = false -> length (a_bias f) = length (a_mat f)) -> Forall kdecs ch -> kdecs (KN i leaf f st ch).
Lemma kok_op fo : forall t, kdecs t -> kok (op_schema fo) t.
Proof.
  induction t as [|i leaf f st ch IH] using ktree_ind'; intros H; [constructor|].
  inversion H as [|i0 l0 f0 s0 c0 Hd Hc]; subst. constructor; auto.
  - intros _. apply keeps_nrows_op.
  - rewrite Forall_forall in *. intros c Hin. apply IH; auto.
Qed.
Theorem ktop_prune_kterm o tol K fo t L x : osound o x -> kary K L -> kdecs t -> kmarks x [] t ->
  kterm (fst (kprune o tol (op_schema fo) K L t [] k0)) x = term (top fo (kerase t) L) x.
Proof. intros. unfold top. apply kprune_kterm; auto. apply kok_op; auto. constructor. Qed.
Theorem ktop_prune_kev o tol K fo t L x : osound o x -> kary K L -> kdecs t -> kmarks x [] t ->
  kev (fst (kprune o tol (op_schema fo) K L t [] k0)) x = eval (top fo (kerase t) L) x.
Proof. intros. unfold top. apply kprune_kev; auto. apply kok_op; auto. constructor. Qed.

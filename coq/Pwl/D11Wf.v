(* Pwl/D11Wf.v -- the two pruning loops AS FOUND (before /repo 73c1a4e and c6b3980), i.e. without the rule
   "never remove the last remaining child": the deferred removal of infeasible_elimination removes every queued child,
   the prune branch of generic_composition_inplace drops every edge that explore rejects, and Tree::try_remove_child
   flags a node that lost its last child as a leaf.  The well-formedness theorems of C04 are REFUTED for these
   variants: a decision that loses all children becomes a terminal that holds its predicate. *)
From AT Require Import Num Vec Aff PTree Ops Cells Abs Cache Reduce Elim CPrune Schema WfC.

(* infeasible_elimination as found: Pwl/Elim.elim_sub with the two `&& c_exists ..` guards of the deferred removal
   dropped and the leaf flag set when no child is left *)
Fixpoint elim_sub_v0 (o : oracle) (tol : Qc) (isroot : bool) (q : rows) (st : nstate) (t : ctree) (k : cnt) {struct t}
  : ctree * cnt :=
  match t with
  | CU => (CU, k)
  | CN i leaf p _ c0 c1 =>
      if leaf then (CN i leaf p st c0 c1, k) else
      let q0 := q ++ [row0 p] in
      let q1 := q ++ [row1 p] in
      let '(sub0, k2, fresh0) :=
        match c0 with
        | CU => (CU, k, false)
        | _ =>
            let '(s0, k1, fr0, skip0) := visit o tol st q0 (row0 p) c0 k in
            if skip0 then (set_st s0 c0, k1, fr0)
            else let '(r0, k2) := elim_sub_v0 o tol false q0 s0 c0 k1 in (r0, k2, fr0)
        end in
      match c1 with
      | CU =>
          let slot0 := if fresh0 && is_infeas (c_state sub0) then CU else sub0 in
          (CN i (negb (c_exists slot0)) p st slot0 CU, k2)
      | _ =>
          let '(s1, k3, fr1, skip1) := visit o tol st q1 (row1 p) c1 k2 in
          let s0now := c_state sub0 in
          let fwd := fr1 && c_exists sub0 &&
                     ((is_feas s0now && is_infeas s1) || (is_infeas s0now && is_feas s1)) in
          if fwd then
            if is_feas s1 then
              let '(r1, k4) := elim_sub_v0 o tol false q1 s1 c1 k3 in
              if isroot then (CN i leaf p st CU r1, k4) else (r1, k4)
            else
              if isroot then (CN i leaf p st sub0 CU, k3) else (sub0, k3)
          else
            let '(sub1, k4) :=
              if skip1 then (set_st s1 c1, k3) else elim_sub_v0 o tol false q1 s1 c1 k3 in
            let slot0 := if fresh0 && is_infeas (c_state sub0) then CU else sub0 in
            let slot1 := if fr1 && is_infeas s1 then CU else sub1 in
            (CN i (negb (c_exists slot0 || c_exists slot1)) p st slot0 slot1, k4)
      end
  end.
Definition elim_v0 (o : oracle) (tol : Qc) (t : ctree) : ctree * cnt := elim_sub_v0 o tol true [] (c_state t) t k0.

(* the prune branch of the composition as found: Pwl/CPrune.graftp without `|| keep_last` *)
Fixpoint graftp_v0 (o : oracle) (tol : Qc) (s : schema) (tf : aff) (L : ptree) (top : bool) (st : nstate) (i : nat)
                   (q : rows) (k : cnt) {struct L} : ctree * cnt :=
  match L with
  | U => (CU, k)
  | T f => (CN i true (s_term s f tf) st CU CU, k)
  | D p (l0 :: l1 :: nil) =>
      let p' := s_dec s p tf in
      let q0 := q ++ [row0 p'] in
      let q1 := q ++ [row1 p'] in
      let e0 := pexists l0 in
      let e1 := pexists l1 in
      let '(keep0, k1) := if e0 then explore o tol top st q0 k else (false, k) in
      let '(keep1, k2) := if e1 then explore o tol top st q1 k1 else (false, k1) in
      if e0 && e1 && xorb keep0 keep1 then
        graftp_v0 o tol s tf (if keep1 then l1 else l0) false Indet 1 q k2
      else
        let '(c1, k3) := if keep1 then graftp_v0 o tol s tf l1 false Indet 1 q1 k2 else (CU, k2) in
        let '(c0, k4) := if keep0 then graftp_v0 o tol s tf l0 false Indet 1 q0 k3 else (CU, k3) in
        (CN i (negb (c_exists c0 || c_exists c1)) p' st c0 c1, k4)
  | D p _ => (CU, k)
  end.

(* witnesses: the empty precondition {x <= 0, -x <= -1} with a 2-row main branch (from_poly without else-branch);
   a solver that (correctly) answers Infeasible *)
Definition d11_o : oracle := {| o_lp := fun _ _ => LInf; o_mir := fun _ _ _ => None |}.
Definition d11_f : aff := {| a_in := 1; a_mat := [[1]; [1 + 1]]; a_bias := [0; 1] |}.
Definition d11_P : aff := {| a_in := 1; a_mat := [[1]; [- (1)]]; a_bias := [0; - (1)] |}.
Definition d11_t : ctree :=
  CN 0 false (sc_rowf 1 [1] 0) Indet CU
     (CN 1 false (sc_rowf 1 [- (1)] (- (1))) Indet CU (CN 2 true d11_f Indet CU CU)).

Theorem elim_as_found_refuted :
  erase d11_t = from_poly d11_P d11_f None /\ cwft 1 2 d11_t /\
  fst (elim_v0 d11_o 0 d11_t) = CN 0 true (sc_rowf 1 [1] 0) Indet CU CU /\
  ~ cwft 1 2 (fst (elim_v0 d11_o 0 d11_t)) /\
  cwft 1 2 (fst (elim d11_o 0 d11_t)).
Proof.
  split; [vm_compute; reflexivity|]. split; [apply cwftb_spec; vm_compute; reflexivity|].
  split; [vm_compute; reflexivity|]. split.
  - intros H. apply cwftb_spec in H. vm_compute in H. discriminate.
  - apply cwftb_spec. vm_compute. reflexivity.
Qed.

(* composition: a terminal below the root (arena index 1) receives the partial tree from_poly(d11_P, id, None)
   lifted to R^1 -> R^1; both edges are infeasible, the grafted decision ends as a terminal holding a predicate.
   With terminals of two rows the shapes differ as well. *)
Definition d11_id2 : aff := {| a_in := 1; a_mat := [[1]; [1]]; a_bias := [0; 0] |}.
Definition d11_g : ptree := D (sc_rowf 2 [1; 0] 0) [U; D (sc_rowf 2 [- (1); 0] (- (1))) [U; T (sc_identity 2)]].
Theorem compose_as_found_refuted :
  pwf 2 2 d11_g /\
  fst (graftp_v0 d11_o 0 comp_schema d11_id2 d11_g false Indet 1 [] k0) = CN 1 true (sc_rowf 1 [1] 0) Indet CU CU /\
  cwfb 1 2 (fst (graftp_v0 d11_o 0 comp_schema d11_id2 d11_g false Indet 1 [] k0)) = false /\
  cwfb 1 2 (fst (graftp d11_o 0 comp_schema d11_id2 d11_g false Indet 1 [] k0)) = true.
Proof.
  split; [apply pwfb_spec; vm_compute; reflexivity|].
  repeat split; vm_compute; reflexivity.
Qed.

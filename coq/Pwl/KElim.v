(* Pwl/KElim.v -- infeasible_elimination (pwl/impl_infeasible_elim.rs:237-320 with forward_if_redundant :193-228,
   phase_inh :325-351, phase_one :355-416, phase_two :419-476; iterator pwl/iter.rs PolyhedraGen over tree/iter.rs DfsPre)
   for EVERY branching factor K, as a structural recursion on the arena-shaped tree with a LIST of child slots
   (KPrune.ktree) that makes the same oracle calls in the same order as the code.  Pwl/Elim.v is the binary instance
   (KElimBin.v proves it).

   The code, per node popped from the DfsPre stack (children were pushed in DEScending label order, so they are popped in
   AScending label order; n_remaining = 0 marks the child with the HIGHEST existing label):
     - the root is never classified (:249)
     - cached Infeasible: skip_subtree, continue (:258); cached Feasible / FeasibleWitness: continue (:264) -- in both
       cases the `continue` also skips the forward call of :301, even when the node is the last sibling
     - otherwise (Indeterminate) the node is classified: `hyperplane` = polyhedra.last() = halfspaces_of_label(parent
       predicate, label) = EdgeRegion.label_rows (one half-space PER ROW of the predicate, since /repo 96041ed), `poly` =
       all path rows;  phase_inh: the parent's witnesses that lie in `hyperplane` (Polytope::contains, tolerance);
       phase_one: mirror oracle on `poly` with the parent's witnesses;  phase_two: LP oracle on `poly`, witness
       re-checked, repaired through the mirror oracle
     - Infeasible: (label, parent) is queued in to_remove, skip_subtree (:290)
     - the state is stored (:297)
     - n_remaining == 0: forward_if_redundant(parent) (:301): exactly ONE child whose state is_feasible and K - 1
       children whose state is Infeasible -- so all K slots are occupied -- : the infeasible children are removed
       (remove_child, cached marks included) and merge_child_with_parent puts the feasible child in the parent's place.
       At the root the merge fails (NodeError::RootNode, discarded by .ok()) AFTER the children were removed.
       The states that are read are the CURRENT ones: an earlier sibling has been traversed completely (its slot may hold
       a node that was forwarded into it), the last sibling has just been classified and its subtree not yet entered.
     - the traversal goes on with the children of the node just visited (pushed when it was popped): for a child that
       was moved up these are visited with the path rows that still contain the rows of the removed parent (the
       predicates stack of PolyhedraGen is driven by the depth recorded on the DfsPre stack).
   Final loop (:306): the queued (label, parent) pairs in queue order; a child is removed only while its parent has more
   than one child left; a parent that was merged away is no longer in the arena (nothing to do), the root after a
   failed merge has one child (nothing to do).  Entries of different parents do not interact (a removed subtree was
   skipped, so it holds no queued node), so the queue order is, per parent, the ascending label order.

   The LP solver and the mirror heuristic are ORACLES indexed by call number and query (Elim.oracle). *)
From AT Require Import Num Vec Aff PTree Cells Abs Cache Elim EdgeRegion KPrune.

Definition k_state (t : ktree) : nstate := match t with KU => Indet | KN _ _ _ st _ => st end.
Definition k_exists (t : ktree) : bool := match t with KU => false | _ => true end.
Definition kset_st (s : nstate) (t : ktree) : ktree :=
  match t with KU => KU | KN i l f _ ch => KN i l f s ch end.

(* classification of a node whose state is Indeterminate: parent state stP, path rows q, rows h of the last edge.
   Elim.classify with a LIST of rows for the last edge; phase_two is Elim.phase_two *)
Definition kclassify (o : oracle) (tol : Qc) (stP : nstate) (q : rows) (h : rows) (k : cnt) : nstate * cnt :=
  match stP with
  | FeasW ws =>
      let inh := filter (fun w => contains_tol tol h w) ws in
      match inh with
      | _ :: _ => (FeasW inh, k)
      | [] =>
          match o_mir o (k_mir k) q ws with
          | Some pts => (FeasW pts, mir_inc k)
          | None => phase_two o tol q (mir_inc k)
          end
      end
  | _ => phase_two o tol q k
  end.

(* visiting a child: (new state, counters, freshly classified?, skip its subtree?) *)
Definition kvisit (o : oracle) (tol : Qc) (stP : nstate) (q : rows) (h : rows) (c : ktree) (k : cnt)
  : nstate * cnt * bool * bool :=
  match k_state c with
  | Infeas => (Infeas, k, false, true)
  | Feas => (Feas, k, false, false)
  | FeasW ws => (FeasW ws, k, false, false)
  | Indet => let '(s, k') := kclassify o tol stP q h k in (s, k', true, is_infeas s)
  end.

(* one entry per child slot: (what the slot holds after the visit of the child and the traversal of its subtree,
   freshly classified?, the state that forward_if_redundant and the removal loop read for it) *)
Definition kentry : Type := (ktree * bool * nstate)%type.
Definition e_sub (e : kentry) : ktree := fst (fst e).
Definition e_fresh (e : kentry) : bool := snd (fst e).
Definition e_st (e : kentry) : nstate := snd e.

(* the child slots in ascending label order, each child followed by its whole subtree; vis = the visit of a child at
   label l, g = the traversal below it *)
Definition kkids (vis : nat -> ktree -> cnt -> nstate * cnt * bool * bool)
                 (g : ktree -> nat -> nstate -> cnt -> ktree * cnt)
  : list ktree -> nat -> cnt -> list kentry * cnt :=
  fix go (cs : list ktree) (l : nat) (k : cnt) {struct cs} : list kentry * cnt :=
    match cs with
    | [] => ([], k)
    | c :: rest =>
        if k_exists c then
          let '(s, k1, fr, skip) := vis l c k in
          let '(r, k2) := if skip then (kset_st s c, k1) else g c l s k1 in
          (* an earlier sibling is read after its subtree was traversed, the last one right after its classification *)
          let sd := if existsb k_exists rest then k_state r else s in
          let '(es, k3) := go rest (S l) k2 in
          ((r, fr, sd) :: es, k3)
        else
          let '(es, k1) := go rest (S l) k in
          ((KU, false, Indet) :: es, k1)
    end.

Definition count_st (f : nstate -> bool) (es : list kentry) : nat := length (filter (fun e => f (e_st e)) es).
Definition n_kids (es : list kentry) : nat := length (filter (fun e => k_exists (e_sub e)) es).
(* was the child with the highest existing label freshly classified?  (only then is forward_if_redundant called) *)
Fixpoint last_fresh (es : list kentry) (acc : bool) : bool :=
  match es with
  | [] => acc
  | e :: rest => last_fresh rest (if k_exists (e_sub e) then e_fresh e else acc)
  end.
(* forward_if_redundant: its test, the child that moves up, the slots of the root after the failed merge *)
Definition kfwd (K : nat) (es : list kentry) : bool :=
  last_fresh es false && Nat.eqb (count_st is_feas es) 1 && Nat.eqb (count_st is_infeas es) (K - 1).
Fixpoint kfeas_pick (es : list kentry) : ktree :=
  match es with
  | [] => KU
  | e :: rest => if is_feas (e_st e) then e_sub e else kfeas_pick rest
  end.
Definition kfeas_only (es : list kentry) : list ktree := map (fun e => if is_feas (e_st e) then e_sub e else KU) es.
(* the final loop restricted to one parent: n = number of children it still has *)
Fixpoint kremove (es : list kentry) (n : nat) : list ktree :=
  match es with
  | [] => []
  | e :: rest =>
      if e_fresh e && is_infeas (e_st e) && Nat.ltb 1 n then KU :: kremove rest (pred n)
      else e_sub e :: kremove rest n
  end.

(* processes the children of t (whose own current state is st); returns what ends up in t's slot *)
Fixpoint kelim_sub (o : oracle) (tol : Qc) (K : nat) (isroot : bool) (q : rows) (st : nstate) (t : ktree) (k : cnt)
  {struct t} : ktree * cnt :=
  match t with
  | KU => (KU, k)
  | KN i leaf p _ ch =>
      if leaf then (KN i leaf p st ch, k) else
      let '(es, k1) :=
        kkids (fun l c k' => kvisit o tol st (q ++ label_rows p l) (label_rows p l) c k')
              (fun c l s k' => kelim_sub o tol K false (q ++ label_rows p l) s c k') ch 0 k in
      if kfwd K es then
        if isroot then (KN i leaf p st (kfeas_only es), k1) else (kfeas_pick es, k1)
      else (KN i leaf p st (kremove es (n_kids es)), k1)
  end.

Definition kelim (o : oracle) (tol : Qc) (K : nat) (t : ktree) : ktree * cnt :=
  kelim_sub o tol K true [] (k_state t) t k0.

(* structural equality incl. arena indices and states (mirror comparison: elimination keeps the index of every node) *)
Fixpoint ktree_eqb (a b : ktree) : bool :=
  match a, b with
  | KU, KU => true
  | KN i l f s ca, KN j m g r cb =>
      Nat.eqb i j && Bool.eqb l m && aff_eqb f g && st_eqb s r &&
      (fix go (xs ys : list ktree) : bool :=
         match xs, ys with
         | [], [] => true
         | x :: xs', y :: ys' => ktree_eqb x y && go xs' ys'
         | _, _ => false
         end) ca cb
  | _, _ => false
  end.

(* ---------- the one-row case of the classification is Elim.classify ---------- *)
Lemma kclassify_one o tol stP q h k : kclassify o tol stP q [h] k = classify o tol stP q h k.
Proof. reflexivity. Qed.
Lemma k_state_kemb t : k_state (kemb t) = c_state t.
Proof. destruct t; reflexivity. Qed.
Lemma k_exists_kemb t : k_exists (kemb t) = c_exists t.
Proof. destruct t; reflexivity. Qed.
Lemma kset_st_kemb s t : kset_st s (kemb t) = kemb (set_st s t).
Proof. destruct t; reflexivity. Qed.
Lemma kvisit_one o tol stP q h c k : kvisit o tol stP q [h] (kemb c) k = visit o tol stP q h c k.
Proof. unfold kvisit, visit. rewrite k_state_kemb. reflexivity. Qed.

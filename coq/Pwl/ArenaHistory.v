(* Pwl/ArenaHistory.v -- histories executed by the ARENA-LEVEL machines (apply_func as a loop of update_node over
   terminal_indices, AElim.aelim, ACPrune.acompose_prune, ArenaCompose.arena_compose) against the structural histories
   of Pwl/History.v.  Continued in ArenaHistoryMore.v / ArenaHistoryRel.v (one pruned composition at any position).

   AInv a t: ONE invariant that implies the preconditions of the refinement theorems of all machines
   (AElimRefine.aelim_refines, ACPruneMono.acompose_prune_refines_any_fuel, ArenaComposeAbs.arena_compose_abs): the
   arena holds t at root 0 with mirrored links, two child slots, childless terminals, no index twice
   (AElimBase.arena_tree), no FeasibleWitness state with an empty list (wne), and no terminal cell outside the tree.
   It is re-established by apply_func and by the elimination.

   PROVED HERE: arena_step_apply_refines, arena_step_elim_refines (index-exact: the arena holds the very tree the
   structural step returns, AInv re-established), arena_run_refines_exact for every history of these two operations,
   arena_step_compose_prune_partial / arena_step_compose_partial for the two compositions (the machine completes with
   the fuels of arena_step, counters of compose_prune, the arena holds a tree of the shape of the structural result
   resp. abstracts to its erasure), and these compositions at the end of an exact history.
   NOT PROVED: AInv after a composition from the machines' theorems alone -- the published postconditions of
   acompose_prune / arena_compose do not say that no terminal cell is left outside the tree, which the NEXT
   composition needs (its loop runs over all terminal cells of the slab).  ArenaHistoryRel.v covers histories with one
   pruned composition at any position unconditionally; ArenaHistoryGen.v covers every history of apply_func /
   elimination / pruned compositions modulo the executable check strayb after each composition (with the congruence
   of the structural models for cshz: ShapeZ.v, ElimShapeZ.v, CPruneShapeZ.v).  The un-pruned machine is related to
   the inductive tree only (arena_step_compose_partial). *)
From AT Require Import Num Vec Aff PTree Ops Cells Abs Tree TreeLemmas Cache Reduce Elim CPrune Schema WfC OpsWf History.
From AT Require Import ArenaCompose AElim AElimBase AElimRefine ElimWne.
From AT Require ArenaComposeAbs ACPrune ACPruneOps ACPruneRefine ACPruneAll ACPruneCor ACPruneMono.

(* ================================================================ the machine for apply_func *)
(* AffTree::apply_func: for idx in terminal_indices() { update_node(idx, f.compose(old)) } *)
Definition upd_cell (g : aff) (c : cell acont) : cell acont :=
  mkcell (mkcont (acompose g (ac_aff (c_val c))) (ac_state (c_val c))) (c_parent c) (c_children c) (c_leaf c).
Definition apply_at (g : aff) (a : arena acont) (i : nat) : option (arena acont) :=
  match aget a i with None => None | Some c => update_fun a i (acompose g (ac_aff (c_val c))) end.
Fixpoint arena_apply_list (g : aff) (ts : list nat) (a : arena acont) : option (arena acont) :=
  match ts with [] => Some a | i :: r => obnd (apply_at g a i) (arena_apply_list g r) end.
Definition arena_apply_func (g : aff) (a : arena acont) : option (arena acont) :=
  arena_apply_list g (terminal_keys a) a.

(* ================================================================ operations, steps, runs *)
Inductive aop :=
| AApply (g : aff)
| ACompose (prune : bool) (L : ptree)
| AElim.
Definition op_of (x : aop) : op :=
  match x with AApply g => OApply g | ACompose pr L => OCompose pr L | AElim => OElim end.

(* fuels as the refinement theorems allow: path fuel above (number of cells) + depth of lhs, stack fuel above size lhs;
   aelim chooses its own (length a + 1) *)
Definition arena_step (alloc : arena acont -> nat) (tol : Qc) (o : oracle) (x : aop) (a : arena acont)
  : option (arena acont) :=
  match x with
  | AApply g => arena_apply_func g a
  | ACompose true L =>
      option_map fst (ACPrune.acompose_prune alloc o tol (S (length a + ACPruneRefine.pdepth L)) 0 (S (size L)) L a)
  | ACompose false L => arena_compose alloc 2 comp_schema L a
  | AElim => option_map fst (aelim o tol a 0)
  end.
Fixpoint arena_run (alloc : arena acont -> nat) (tol : Qc) (ops : list (oracle * aop)) (a : arena acont)
  : option (arena acont) :=
  match ops with
  | [] => Some a
  | ox :: r => obnd (arena_step alloc tol (fst ox) (snd ox) a) (arena_run alloc tol r)
  end.

(* ================================================================ the invariant *)
Definition AInv (a : arena acont) (t : ctree) : Prop :=
  arena_tree a 0 t /\ wne t /\ (forall j, In j (terminal_keys a) -> In j (idxs t)).

(* ---------------------------------------------------------------- terminal cells *)
Lemma terminal_keys_iff a j : In j (terminal_keys a) <-> exists c, aget a j = Some c /\ c_leaf c = true.
Proof.
  split; [apply terminal_keys_spec|]. intros [c [Hc Hl]]. unfold terminal_keys. apply filter_In.
  split; [eapply ArenaComposeAbs.akeys_in; eauto | rewrite Hc; exact Hl].
Qed.
Lemma cleaves_idxs t : forall j, In j (ACPruneAll.cleaves t) -> In j (idxs t).
Proof.
  induction t as [|i lf f s c0 IH0 c1 IH1]; intros j Hj; cbn [ACPruneAll.cleaves idxs] in *; [contradiction|].
  destruct lf.
  - destruct Hj as [<-|[]]. left; reflexivity.
  - right. apply in_or_app. apply in_app_or in Hj as [Hj|Hj]; auto.
Qed.
Lemma wfn_leaf_cell a : forall t par j, wfn a par t -> In j (ACPruneAll.cleaves t) ->
  exists c, aget a j = Some c /\ c_leaf c = true.
Proof.
  induction t as [|i lf f s c0 IH0 c1 IH1]; intros par j H Hj; [contradiction|].
  cbn [wfn ACPruneAll.cleaves] in *. destruct H as [Hc [Hl [H0 H1]]]. destruct lf.
  - destruct Hj as [<-|[]]. eexists. split; [exact Hc | reflexivity].
  - apply in_app_or in Hj as [Hj|Hj]; eauto.
Qed.
Lemma wfn_cell_leaf a : forall t par j c, wfn a par t -> In j (idxs t) -> aget a j = Some c -> c_leaf c = true ->
  In j (ACPruneAll.cleaves t).
Proof.
  induction t as [|i lf f s c0 IH0 c1 IH1]; intros par j c H Hj Hg Hlf; [contradiction|].
  cbn [wfn idxs ACPruneAll.cleaves] in *. destruct H as [Hc [Hl [H0 H1]]].
  destruct Hj as [<-|Hj].
  - rewrite Hc in Hg. inversion Hg; subst c. cbn [ae_cell c_leaf] in Hlf. subst lf. left; reflexivity.
  - destruct lf.
    + destruct (Hl eq_refl) as [-> ->]. cbn [idxs app] in Hj. contradiction.
    + apply in_or_app. apply in_app_or in Hj as [Hj|Hj]; [left; eapply IH0 | right; eapply IH1]; eauto.
Qed.
Lemma AInv_terminals a t : AInv a t -> forall j, In j (terminal_keys a) <-> In j (ACPruneAll.cleaves t).
Proof.
  intros [[Hr [Hw Hnd]] [Hne Hout]] j. split.
  - intros Hj. destruct (terminal_keys_spec a j Hj) as [c [Hc Hl]]. eapply wfn_cell_leaf; eauto.
  - intros Hj. apply terminal_keys_iff. eapply wfn_leaf_cell; eauto.
Qed.

(* ---------------------------------------------------------------- bridges to the hypotheses of the composition theorems *)
Lemma idxs_cidx t : ACPruneRefine.cidx t = idxs t.
Proof. induction t as [|i lf f s c0 IH0 c1 IH1]; cbn [ACPruneRefine.cidx idxs]; congruence. Qed.
Lemma wfn_cparents a : forall t par, wfn a par t -> ACPruneAll.cparents a par t.
Proof.
  induction t as [|i lf f s c0 IH0 c1 IH1]; intros par H; [exact I|].
  cbn [wfn ACPruneAll.cparents] in *. destruct H as [Hc [Hl [H0 H1]]]. split; [|split; auto].
  eexists. split; [exact Hc|]. split; reflexivity.
Qed.
Lemma wfn_cwf a : forall t par, wfn a par t -> ACPruneAll.cwf t.
Proof.
  induction t as [|i lf f s c0 IH0 c1 IH1]; intros par H; [exact I|].
  cbn [wfn ACPruneAll.cwf] in *. destruct H as [Hc [Hl [H0 H1]]]. destruct lf; [apply Hl; reflexivity | split; eauto].
Qed.
Lemma cdepth_csize t : (ACPruneAll.cdepth t <= csize t)%nat.
Proof.
  induction t as [|i lf f s c0 IH0 c1 IH1]; cbn [ACPruneAll.cdepth csize]; [lia|]. destruct lf; lia.
Qed.
(* AInv gives every hypothesis of C03_arena_compose_prune_refines about the arena *)
Theorem AInv_compose_pre a t : AInv a t ->
  cabs (AElimBase.cdepth t) a 0%nat = Some t /\ ACPruneAll.cparents a None t /\ NoDup (ACPruneRefine.cidx t) /\
  ACPruneAll.cwf t /\ (forall j, In j (terminal_keys a) <-> In j (ACPruneAll.cleaves t)) /\
  (ACPruneAll.cdepth t <= length a)%nat.
Proof.
  intros H. pose proof (AInv_terminals a t H) as Ht. destruct H as [[Hr [Hw Hnd]] [Hne Hout]].
  split; [apply arena_tree_cabs; repeat split; auto|]. split; [apply wfn_cparents; exact Hw|].
  split; [rewrite idxs_cidx; exact Hnd|]. split; [eapply wfn_cwf; eauto|]. split; [exact Ht|].
  pose proof (cdepth_csize t). pose proof (wfn_size_bound a t None Hw Hnd). lia.
Qed.
(* ... and of C03_arena_elim_refines *)
Lemma AInv_elim_pre a t : AInv a t -> arena_tree a 0 t /\ wne t.
Proof. intros [H [Hn _]]. auto. Qed.
(* the decidable check of AElimRefine establishes the invariant (arena_okb reads the whole tree; the clause about
   terminal cells outside the tree is a separate executable check) *)
Definition ainvb (a : arena acont) : bool :=
  arena_okb a 0 &&
  match cabs (S (length a)) a 0 with
  | Some t => forallb (fun j => existsb (Nat.eqb j) (idxs t)) (terminal_keys a)
  | None => false
  end.
Theorem ainvb_sound a : ainvb a = true -> exists t, cabs (S (length a)) a 0 = Some t /\ AInv a t.
Proof.
  unfold ainvb. intros H. apply andb_true_iff in H as [Hok Hts].
  destruct (arena_okb_sound a 0 Hok) as [t [Hc [Ht Hw]]]. rewrite Hc in Hts. exists t. split; [exact Hc|].
  split; [exact Ht|]. split; [exact Hw|]. intros j Hj. rewrite forallb_forall in Hts. specialize (Hts j Hj).
  apply existsb_exists in Hts as [k [Hk E]]. apply Nat.eqb_eq in E. subst k. exact Hk.
Qed.

(* ================================================================ apply_func: the loop computes capply_func *)
Lemma apply_at_some g a i c : aget a i = Some c -> apply_at g a i = Some (aset a i (Some (upd_cell g c))).
Proof. intros H. unfold apply_at, update_fun. rewrite H. reflexivity. Qed.
Lemma arena_apply_list_spec g : forall ts a, NoDup ts -> (forall j, In j ts -> aget a j <> None) ->
  exists a', arena_apply_list g ts a = Some a' /\
    forall j, aget a' j = if in_dec Nat.eq_dec j ts then option_map (upd_cell g) (aget a j) else aget a j.
Proof.
  induction ts as [|i r IH]; intros a Hnd Hocc; cbn [arena_apply_list].
  - exists a. split; [reflexivity|]. intros j. destruct (in_dec Nat.eq_dec j []) as [[]|_]. reflexivity.
  - inversion Hnd as [|x l Hni Hr]; subst x l.
    destruct (aget a i) as [c|] eqn:Ec; [|exfalso; apply (Hocc i); [left; reflexivity | exact Ec]].
    rewrite (apply_at_some g a i c Ec). cbn [obnd].
    set (a1 := aset a i (Some (upd_cell g c))).
    destruct (IH a1 Hr) as [a' [Hrun Hget]].
    { intros j Hj. unfold a1. rewrite ACPruneOps.aget_aset_eq. destruct (Nat.eqb i j) eqn:E; [discriminate|].
      apply Hocc. right; exact Hj. }
    exists a'. split; [exact Hrun|]. intros j. rewrite Hget. unfold a1. rewrite ACPruneOps.aget_aset_eq.
    destruct (Nat.eqb i j) eqn:E.
    + apply Nat.eqb_eq in E. subst j. destruct (in_dec Nat.eq_dec i r) as [C|_]; [contradiction|].
      destruct (in_dec Nat.eq_dec i (i :: r)) as [_|C]; [|exfalso; apply C; left; reflexivity].
      rewrite Ec. reflexivity.
    + apply Nat.eqb_neq in E.
      destruct (in_dec Nat.eq_dec j r) as [A|A]; destruct (in_dec Nat.eq_dec j (i :: r)) as [B|B]; try reflexivity.
      * exfalso. apply B. right; exact A.
      * exfalso. destruct B as [B|B]; [apply E; exact B | apply A; exact B].
Qed.
(* the machine never fails, and maps upd_cell over exactly the terminal cells *)
Theorem arena_apply_func_spec g a : exists a', arena_apply_func g a = Some a' /\
  forall j, aget a' j = match aget a j with
                        | Some c => Some (if c_leaf c then upd_cell g c else c)
                        | None => None
                        end.
Proof.
  unfold arena_apply_func.
  destruct (arena_apply_list_spec g (terminal_keys a) a (terminal_keys_nodup a)) as [a' [Hrun Hget]].
  { intros j Hj. destruct (terminal_keys_spec a j Hj) as [c [Hc _]]. congruence. }
  exists a'. split; [exact Hrun|]. intros j. rewrite Hget.
  destruct (in_dec Nat.eq_dec j (terminal_keys a)) as [Hin|Hout].
  - destruct (terminal_keys_spec a j Hin) as [c [Hc Hl]]. rewrite Hc, Hl. reflexivity.
  - destruct (aget a j) as [c|] eqn:Ec; [|reflexivity]. destruct (c_leaf c) eqn:El; [|reflexivity].
    exfalso. apply Hout. apply terminal_keys_iff. eauto.
Qed.

Lemma cidx_cmap h t : cidx (cmap_terms h t) = cidx t.
Proof. destruct t as [|i [|] f s c0 c1]; reflexivity. Qed.
Lemma idxs_cmap h t : idxs (cmap_terms h t) = idxs t.
Proof. induction t as [|i lf f s c0 IH0 c1 IH1]; cbn [cmap_terms idxs]; auto. destruct lf; cbn [idxs]; congruence. Qed.
Lemma wne_cmap h t : wne t -> wne (cmap_terms h t).
Proof.
  induction t as [|i lf f s c0 IH0 c1 IH1]; cbn [cmap_terms wne]; auto. intros [A [B C]]. destruct lf; cbn [wne]; auto.
Qed.
Lemma wfn_apply g a a' :
  (forall j, aget a' j = match aget a j with Some c => Some (if c_leaf c then upd_cell g c else c) | None => None end) ->
  forall t par, wfn a par t -> wfn a' par (capply_func g t).
Proof.
  intros Hget. unfold capply_func.
  induction t as [|i lf f s c0 IH0 c1 IH1]; intros par H; [exact I|].
  cbn [wfn cmap_terms] in *. destruct H as [Hc [Hl [H0 H1]]]. destruct lf.
  - destruct (Hl eq_refl) as [-> ->]. cbn [wfn]. split; [|split; auto].
    rewrite Hget, Hc. reflexivity.
  - cbn [wfn]. split; [|split; [intros C; discriminate | split; auto]].
    rewrite Hget, Hc, !cidx_cmap. reflexivity.
Qed.

Theorem arena_step_apply_refines alloc tol o g a t t1 : AInv a t -> step tol o (OApply g) t = HOk t1 ->
  exists a', arena_step alloc tol o (AApply g) a = Some a' /\ AInv a' t1.
Proof.
  intros [[Hr [Hw Hnd]] [Hne Hout]] Hs. cbn [step] in Hs.
  destruct (terms_all _ t); [|discriminate]. inversion Hs; subst t1. clear Hs.
  cbn [arena_step]. destruct (arena_apply_func_spec g a) as [a' [Hrun Hget]]. exists a'. split; [exact Hrun|].
  unfold capply_func in *. split; [|split].
  - split; [rewrite cidx_cmap; exact Hr|]. split; [apply (wfn_apply g a a' Hget); exact Hw | rewrite idxs_cmap; exact Hnd].
  - apply wne_cmap. exact Hne.
  - intros j Hj. rewrite idxs_cmap. apply Hout. apply terminal_keys_iff. apply terminal_keys_spec in Hj as [c' [Hc' Hl']].
    rewrite Hget in Hc'. destruct (aget a j) as [c|] eqn:Ec; [|discriminate]. exists c. split; [reflexivity|].
    inversion Hc'; subst c'. destruct (c_leaf c) eqn:El; [reflexivity | congruence].
Qed.

(* ================================================================ infeasible_elimination *)
Theorem arena_step_elim_refines alloc tol o a t t1 : mir_ne o -> AInv a t -> step tol o OElim t = HOk t1 ->
  exists a', arena_step alloc tol o AElim a = Some a' /\ AInv a' t1 /\ aelim o tol a 0 = Some (a', snd (elim o tol t)).
Proof.
  intros Hm [Ht [Hne Hout]] Hs. cbn [step] in Hs. inversion Hs; subst t1. clear Hs.
  destruct (aelim_refines o tol a 0 t Hm Ht Hne) as [a' [Hrun [Ht' [Hfr Hdel]]]].
  exists a'. cbn [arena_step]. rewrite Hrun. cbn [option_map fst]. split; [reflexivity|]. split; [|reflexivity].
  split; [exact Ht'|]. split; [apply elim_wne; assumption|].
  intros j Hj. apply terminal_keys_spec in Hj as [c [Hc Hl]].
  destruct (in_dec Nat.eq_dec j (idxs t)) as [Hin|Hnin].
  - destruct (in_dec Nat.eq_dec j (idxs (fst (elim o tol t)))) as [H1|H1]; [exact H1|].
    rewrite (Hdel j Hin H1) in Hc. discriminate.
  - exfalso. apply Hnin. apply Hout. apply terminal_keys_iff. exists c. rewrite <- (Hfr j Hnin). auto.
Qed.

(* ================================================================ the pruned composition (partial: see the header) *)
Lemma pshape_karity L : pshape L -> ArenaComposeAbs.karity 2 L.
Proof.
  induction 1 as [| f | p l0 l1 He H0 IH0 H1 IH1]; [constructor | constructor |].
  constructor; [reflexivity | | repeat constructor; assumption].
  destruct l0 as [| f0 | p0 ch0].
  - destruct l1 as [| f1 | p1 ch1]; [discriminate | |]; eexists; (split; [right; left; reflexivity | discriminate]).
  - eexists. split; [left; reflexivity | discriminate].
  - eexists. split; [left; reflexivity | discriminate].
Qed.
Lemma step_compose_guard tol o pr L t t1 : step tol o (OCompose pr L) t = HOk t1 ->
  pshape L /\ t1 = (if pr then fst (compose_prune o tol t L) else ccompose t L).
Proof.
  cbn [step]. destruct (pshapeb L && binb L) eqn:E; cbn [negb]; [|discriminate].
  destruct (terms_all _ t); [|discriminate]. intros H. inversion H. split; [|reflexivity].
  apply andb_true_iff in E as [E _]. apply pshapeb_spec. exact E.
Qed.
(* the machine completes with the fuels arena_step chooses, the arena it returns holds a tree of the shape of the
   structural result (same leaf flags, functions, cached states; fresh nodes may carry other indices), the
   decisions of t keep index, value and cache.  NOT shown: AInv a' t' (no terminal cell outside t', wne t'). *)
Theorem arena_step_compose_prune_partial alloc tol o L a t t1 :
  fresh_alloc alloc -> ACPruneAll.lp_index_free o -> L <> U ->
  AInv a t -> step tol o (OCompose true L) t = HOk t1 ->
  exists a' t',
    arena_step alloc tol o (ACompose true L) a = Some a' /\
    ACPrune.acompose_prune alloc o tol (S (length a + ACPruneRefine.pdepth L)) 0 (S (size L)) L a
      = Some (a', snd (compose_prune o tol t L)) /\
    (forall F, (ACPruneAll.cheight t' <= F)%nat -> cabs F a' 0%nat = Some t') /\
    ACPruneAll.cparents a' None t' /\ NoDup (ACPruneRefine.cidx t') /\
    ACPruneRefine.cshape t' t1 /\ ACPruneAll.cframe t t' /\
    (forall k, In k (ACPruneRefine.cidx t') -> In k (ACPruneRefine.cidx t) \/ aget a k = None) /\
    (forall x, cev t' x = cev t1 x).
Proof.
  intros Hf Ho HnU Hinv Hs. destruct (step_compose_guard _ _ _ _ _ _ Hs) as [Hsh ->].
  destruct (AInv_compose_pre a t Hinv) as [Hc [Hp [Hnd [Hw [Hts Hd]]]]].
  destruct (ACPruneMono.acompose_prune_refines_any_fuel alloc o tol L a t _ Hf Ho (pshape_karity L Hsh) HnU Hc Hp Hnd Hw Hts)
    as [a' [t' [Hrun [Hab [Hp' [Hnd' [Hcs [Hfr Hidx]]]]]]]].
  assert (R : ACPrune.acompose_prune alloc o tol (S (length a + ACPruneRefine.pdepth L)) 0 (S (size L)) L a
              = Some (a', snd (compose_prune o tol t L))) by (apply Hrun; lia).
  exists a', t'. cbn [arena_step]. rewrite R. cbn [option_map fst].
  repeat (split; [first [reflexivity | assumption]|]). intros x. apply ACPruneAll.cshape_cev. exact Hcs.
Qed.

(* ---------------------------------------------------------------- bridges to abs_at / leaves_empty (un-pruned machine) *)
Lemma wfn_abs_at a : forall t par i, wfn a par t -> cidx t = Some i -> abs_at (AElimBase.cdepth t) a i = Some (erase t).
Proof.
  induction t as [|i0 lf f s c0 IH0 c1 IH1]; intros par i H Hi; [discriminate|].
  cbn [cidx] in Hi. inversion Hi; subst i0. cbn [wfn] in H. destruct H as [Hc [Hl [H0 H1]]].
  cbn [AElimBase.cdepth abs_at erase]. rewrite Hc. cbn [ae_cell c_leaf c_val ac_aff c_children map].
  destruct lf; [reflexivity|].
  assert (S0 : match cidx c0 with None => Some U | Some j => abs_at (Nat.max (AElimBase.cdepth c0) (AElimBase.cdepth c1)) a j end
               = Some (erase c0)).
  { destruct c0 as [|j0 l0 f0 s0 x0 y0]; [reflexivity|]. cbn [cidx].
    eapply ArenaComposeAbs.abs_at_mono; [|eapply IH0; [exact H0 | reflexivity]]. lia. }
  assert (S1 : match cidx c1 with None => Some U | Some j => abs_at (Nat.max (AElimBase.cdepth c0) (AElimBase.cdepth c1)) a j end
               = Some (erase c1)).
  { destruct c1 as [|j1 l1 f1 s1 x1 y1]; [reflexivity|]. cbn [cidx].
    eapply ArenaComposeAbs.abs_at_mono; [|eapply IH1; [exact H1 | reflexivity]]. lia. }
  rewrite S0, S1. reflexivity.
Qed.
Lemma wfn_leaf_children a : forall t par j c, wfn a par t -> In j (idxs t) -> aget a j = Some c -> c_leaf c = true ->
  c_children c = [None; None].
Proof.
  induction t as [|i lf f s c0 IH0 c1 IH1]; intros par j c H Hj Hg Hlf; [contradiction|].
  cbn [wfn idxs] in *. destruct H as [Hc [Hl [H0 H1]]]. destruct Hj as [<-|Hj].
  - rewrite Hc in Hg. inversion Hg; subst c. cbn [ae_cell c_leaf c_children] in *. subst lf.
    destruct (Hl eq_refl) as [-> ->]. reflexivity.
  - apply in_app_or in Hj as [Hj|Hj]; eauto.
Qed.
Lemma AInv_leaves_empty a t : AInv a t -> ArenaComposeAbs.leaves_empty 2 a.
Proof.
  intros [[Hr [Hw Hnd]] [Hne Hout]] i c Hc Hl. cbn [repeat].
  eapply wfn_leaf_children; eauto. apply Hout. apply terminal_keys_iff. eauto.
Qed.
Lemma arena_run_app alloc tol : forall ops1 ops2 a,
  arena_run alloc tol (ops1 ++ ops2) a = obnd (arena_run alloc tol ops1 a) (arena_run alloc tol ops2).
Proof.
  induction ops1 as [|ox r IH]; intros ops2 a; cbn [app arena_run obnd]; [reflexivity|].
  destruct (arena_step alloc tol (fst ox) (snd ox) a) as [a1|]; cbn [obnd]; auto.
Qed.

(* ================================================================ histories *)
(* the operations whose machines keep every arena index (apply_func, infeasible_elimination) *)
Definition exact_op (x : aop) : bool := match x with AApply _ | AElim => true | ACompose _ _ => false end.
Definition hist_ok (ops : list (oracle * aop)) : Prop := Forall (fun ox => mir_ne (fst ox) /\ exact_op (snd ox) = true) ops.
Definition ops_of (ops : list (oracle * aop)) : list (oracle * op) := map (fun ox => (fst ox, op_of (snd ox))) ops.

Theorem arena_step_refines_exact alloc tol o x a t t1 : mir_ne o -> exact_op x = true ->
  AInv a t -> step tol o (op_of x) t = HOk t1 -> exists a', arena_step alloc tol o x a = Some a' /\ AInv a' t1.
Proof.
  intros Hm Hx Hinv Hs. destruct x as [g | pr L |]; [ | discriminate | ]; cbn [op_of] in Hs.
  - eapply arena_step_apply_refines; eauto.
  - destruct (arena_step_elim_refines alloc tol o a t t1 Hm Hinv Hs) as [a' [A [B _]]]. eauto.
Qed.

Lemma run_cons tol t ox r : run tol t (ox :: r) =
  match step tol (fst ox) (snd ox) t with HOk t1 => run tol t1 r | HPanic => HPanic end.
Proof.
  unfold run. cbn [fold_left]. destruct (step tol (fst ox) (snd ox) t) as [t1|]; [reflexivity|].
  induction r as [|y r IH]; cbn [fold_left]; auto.
Qed.

(* every history of apply_func / infeasible_elimination steps (each with its own oracle): when the structural run
   completes with t, the arena-level run completes and the arena it returns holds t itself -- every index, function,
   leaf flag and cached state -- and satisfies the invariant again *)
Theorem arena_run_refines_exact alloc tol : forall ops a0 t0 t, hist_ok ops -> AInv a0 t0 ->
  run tol t0 (ops_of ops) = HOk t -> exists a, arena_run alloc tol ops a0 = Some a /\ AInv a t.
Proof.
  induction ops as [|[o x] r IH]; intros a0 t0 t Hok Hinv Hrun.
  - cbn in Hrun. inversion Hrun; subst t. exists a0. split; [reflexivity | exact Hinv].
  - inversion Hok as [|y l [Hm Hx] Hr]; subst y l. cbn [fst snd] in Hm, Hx.
    cbn [ops_of map fst snd] in Hrun. rewrite run_cons in Hrun. cbn [fst snd] in Hrun.
    destruct (step tol o (op_of x) t0) as [t1|] eqn:Es; [|discriminate].
    destruct (arena_step_refines_exact alloc tol o x a0 t0 t1 Hm Hx Hinv Es) as [a1 [Ha1 Hinv1]].
    destruct (IH a1 t1 t Hr Hinv1 Hrun) as [a [Ha Hi]]. exists a. split; [|exact Hi].
    cbn [arena_run fst snd]. rewrite Ha1. exact Ha.
Qed.
Corollary arena_run_value alloc tol ops a0 t0 t : hist_ok ops -> AInv a0 t0 -> run tol t0 (ops_of ops) = HOk t ->
  exists a, arena_run alloc tol ops a0 = Some a /\ cabs (AElimBase.cdepth t) a 0%nat = Some t /\
            exists F, abs_at F a 0%nat = Some (erase t).
Proof.
  intros Hok Hinv Hrun. destruct (arena_run_refines_exact alloc tol ops a0 t0 t Hok Hinv Hrun) as [a [Ha Hi]].
  exists a. split; [exact Ha|]. destruct (AInv_compose_pre a t Hi) as [Hc _]. split; [exact Hc|].
  destruct Hi as [[Hr [Hw _]] _]. exists (AElimBase.cdepth t). eapply wfn_abs_at; eauto.
Qed.

(* ================================================================ the un-pruned composition (partial) *)
(* the arena the machine returns abstracts (abs_at, the reading of C01/C02) to the inductive tree of the structural
   result, and extends the old arena (C02 frame).  NOT shown: a ctree t' with AInv a' t' and cshape t' (ccompose t L)
   (the theorem of ArenaComposeAbs speaks about ptree, i.e. modulo indices and cached states). *)
Theorem arena_step_compose_partial alloc tol o L a t t1 :
  fresh_alloc alloc -> L <> U -> AInv a t -> step tol o (OCompose false L) t = HOk t1 ->
  exists a', arena_step alloc tol o (ACompose false L) a = Some a' /\ extends a a' /\
             ArenaComposeAbs.leaves_empty 2 a' /\ exists F, abs_at F a' 0%nat = Some (erase t1).
Proof.
  intros Hf HnU Hinv Hs. destruct (step_compose_guard _ _ _ _ _ _ Hs) as [Hsh ->].
  pose proof (AInv_leaves_empty a t Hinv) as Hle. pose proof (pshape_karity L Hsh) as HK.
  destruct (ArenaComposeAbs.arena_compose_some alloc 2 comp_schema L a Hf HK HnU Hle) as [a' Hrun].
  exists a'. cbn [arena_step]. split; [exact Hrun|]. split; [eapply arena_compose_extends; eauto|].
  split; [eapply ArenaComposeAbs.arena_compose_leaves_empty; eauto|].
  destruct Hinv as [[Hr [Hw _]] _].
  destruct (ArenaComposeAbs.arena_compose_abs alloc 2 comp_schema L a a' Hf HK HnU Hle Hrun _ 0%nat (erase t)
              (wfn_abs_at a t None 0%nat Hw Hr)) as [F HF].
  exists F. rewrite erase_ccompose by exact Hsh. exact HF.
Qed.

(* ================================================================ an exact history followed by ONE composition *)
Theorem arena_history_then_compose_prune alloc tol ops o L a0 t0 t1 :
  fresh_alloc alloc -> ACPruneAll.lp_index_free o -> L <> U -> hist_ok ops -> AInv a0 t0 ->
  run tol t0 (ops_of ops ++ [(o, OCompose true L)]) = HOk t1 ->
  exists a' t',
    arena_run alloc tol (ops ++ [(o, ACompose true L)]) a0 = Some a' /\
    (forall F, (ACPruneAll.cheight t' <= F)%nat -> cabs F a' 0%nat = Some t') /\
    ACPruneAll.cparents a' None t' /\ NoDup (ACPruneRefine.cidx t') /\
    ACPruneRefine.cshape t' t1 /\ (forall x, cev t' x = cev t1 x).
Proof.
  intros Hf Ho HnU Hok Hinv Hrun. unfold run in Hrun. rewrite fold_left_app in Hrun. cbn [fold_left fst snd] in Hrun.
  fold (run tol t0 (ops_of ops)) in Hrun. destruct (run tol t0 (ops_of ops)) as [t|] eqn:Er; [|discriminate].
  destruct (arena_run_refines_exact alloc tol ops a0 t0 t Hok Hinv Er) as [a [Ha Hi]].
  destruct (arena_step_compose_prune_partial alloc tol o L a t t1 Hf Ho HnU Hi Hrun)
    as [a' [t' [Hs [_ [Hab [Hp [Hnd [Hcs [_ [_ Hev]]]]]]]]]].
  exists a', t'. split; [|auto]. rewrite arena_run_app, Ha. cbn [obnd arena_run fst snd]. rewrite Hs. reflexivity.
Qed.
Theorem arena_history_then_compose alloc tol ops o L a0 t0 t1 :
  fresh_alloc alloc -> L <> U -> hist_ok ops -> AInv a0 t0 ->
  run tol t0 (ops_of ops ++ [(o, OCompose false L)]) = HOk t1 ->
  exists a', arena_run alloc tol (ops ++ [(o, ACompose false L)]) a0 = Some a' /\
             exists F, abs_at F a' 0%nat = Some (erase t1).
Proof.
  intros Hf HnU Hok Hinv Hrun. unfold run in Hrun. rewrite fold_left_app in Hrun. cbn [fold_left fst snd] in Hrun.
  fold (run tol t0 (ops_of ops)) in Hrun. destruct (run tol t0 (ops_of ops)) as [t|] eqn:Er; [|discriminate].
  destruct (arena_run_refines_exact alloc tol ops a0 t0 t Hok Hinv Er) as [a [Ha Hi]].
  destruct (arena_step_compose_partial alloc tol o L a t t1 Hf HnU Hi Hrun) as [a' [Hs [_ [_ HF]]]].
  exists a'. split; [|exact HF]. rewrite arena_run_app, Ha. cbn [obnd arena_run fst snd]. rewrite Hs. reflexivity.
Qed.

(* Pwl/ElimFault.v -- pruning under a misbehaving LP backend (C11): the pruning theorems instantiated for an
   arbitrarily corrupted oracle (Error / Unbounded / Optimal with any point at any calls), and the fact that a
   corrupted answer can only lead to less pruning. *)
From AT Require Import Num Vec Aff PTree Cells Abs Cache Elim ElimEval ElimCache CPrune CPruneEval CPruneCache ElimExample.

(* a fault plan: at the calls selected by [hit] the answer is replaced by an Error, an Unbounded, or an Optimal
   with an arbitrary point -- never by Infeasible *)
Definition faulty (o : oracle) (hit : nat -> bool) (bad : nat -> lpans) : oracle :=
  {| o_lp := fun k q => if hit k then bad k else o_lp o k q; o_mir := o_mir o |}.
Definition not_inf (a : lpans) : Prop := a <> LInf.

Lemma faulty_osound o hit bad x : osound o x -> (forall k, not_inf (bad k)) -> osound (faulty o hit bad) x.
Proof.
  intros Ho Hb k q H. cbn [faulty o_lp] in H. destruct (hit k).
  - exfalso. exact (Hb k H).
  - exact (Ho k q H).
Qed.
Lemma faulty_mir o hit bad tol : mir_sound o tol -> mir_sound (faulty o hit bad) tol.
Proof. intros H k q ws pts E. exact (H k q ws pts E). Qed.

(* the represented function is unchanged under any fault plan *)
Theorem fault_elim_function : forall o hit bad tol t x,
  osound o x -> (forall k, not_inf (bad k)) -> marks_kids x [] t ->
  cev (fst (elim (faulty o hit bad) tol t)) x = cev t x.
Proof. intros o hit bad tol t x Ho Hb Hm. apply elim_cev; [apply faulty_osound; assumption | exact Hm]. Qed.
Theorem fault_compose_function : forall o hit bad tol t L x,
  osound o x -> (forall k, not_inf (bad k)) -> bin2 L -> cbin t -> terms_ok comp_schema t -> marks_ok x [] t ->
  cev (fst (compose_prune (faulty o hit bad) tol t L)) x = eval (compose (erase t) L) x.
Proof. intros o hit bad tol t L x Ho Hb H1 H2 H3 H4. apply compose_prune_eval; try assumption. apply faulty_osound; assumption. Qed.

(* no unsound witness or verdict is cached under any fault plan: a bogus Optimal point is re-checked with
   contains() before it is stored, the repaired point likewise *)
Theorem fault_no_unsound_witness : forall o hit bad tol t,
  mir_sound o tol -> wit_ok tol [] t -> wit_ok tol [] (fst (elim (faulty o hit bad) tol t)).
Proof. intros o hit bad tol t Hm Hw. apply elim_wit; [apply faulty_mir; exact Hm | exact Hw]. Qed.
Theorem fault_no_unsound_verdict : forall o hit bad tol t x,
  osound o x -> (forall k, not_inf (bad k)) -> marks_kids x [] t ->
  marks_kids x [] (fst (elim (faulty o hit bad) tol t)).
Proof. intros o hit bad tol t x Ho Hb Hm. apply elim_marks; [apply faulty_osound; assumption | exact Hm]. Qed.
Theorem fault_compose_caches : forall o hit bad tol s L t q k x,
  wit_ok tol q t -> marks_ok x q t ->
  wit_ok tol q (fst (cprune (faulty o hit bad) tol s L t q k)) /\
  marks_ok x q (fst (cprune (faulty o hit bad) tol s L t q k)).
Proof. intros o hit bad tol s L t q k x Hw Hm. split; [apply cprune_wit | apply cprune_marks]; auto. Qed.

(* the only permitted effect is less pruning: a faulty answer never produces an Infeasible verdict, so it never
   removes an edge nor forwards a decision -- a corrupted call classifies as Feasible or Indeterminate *)
Theorem fault_never_prunes : forall o tol q k s k',
  phase_two o tol q k = (s, k') -> o_lp o (k_lp k) q <> LInf -> is_infeas s = false.
Proof.
  unfold phase_two. intros o tol q k s k' H Hn. destruct (o_lp o (k_lp k) q) eqn:E; try congruence.
  - inversion H; subst; reflexivity.
  - destruct (contains_tol tol q w); [inversion H; subst; reflexivity|].
    destruct (o_mir o (k_mir k) q [w]) as [[|pt l]|]; try (inversion H; subst; reflexivity).
    destruct (contains_tol tol q pt); inversion H; subst; reflexivity.
  - inversion H; subst; reflexivity.
Qed.
Theorem fault_keeps_edge : forall o tol top st q k,
  o_lp o (k_lp k) q <> LInf -> st <> Infeas -> fst (explore o tol top st q k) = true.
Proof.
  unfold explore. intros o tol top st q k Hn Hs. destruct top; [reflexivity|].
  assert (L : lp_keeps (o_lp o (k_lp k) q) = true) by (destruct (o_lp o (k_lp k) q); try reflexivity; congruence).
  destruct st as [| | |ws]; try (cbn [fst]; exact L); try congruence.
  destruct (existsb (contains_tol tol q) ws); [reflexivity| cbn [fst]; exact L].
Qed.

Lemma fault_example :
  let o := faulty ex_o (fun k => Nat.eqb k 3) (fun _ => LErr) in
  (forall x, osound o x) /\ (forall x, cev (fst (elim o 0 ex_t)) x = cev ex_t x) /\
  (* the Error at the call that would have found the infeasible path: nothing is pruned *)
  erase (fst (elim o 0 ex_t)) = erase ex_t.
Proof.
  cbv zeta. split; [|split].
  - intros x. apply faulty_osound; [apply ex_osound|]. intros k. unfold not_inf. discriminate.
  - intros x. apply elim_cev; [|apply ex_marks]. apply faulty_osound; [apply ex_osound|]. intros k; unfold not_inf; discriminate.
  - vm_compute. reflexivity.
Qed.


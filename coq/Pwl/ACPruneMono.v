(* Pwl/ACPruneMono.v -- surplus path fuel is immaterial: a run of the machine of Pwl/ACPrune.v that returns Ok with path
   fuel pf returns the same with any larger path fuel; with ACPruneAll: one result for all fuels above the bounds. *)
From AT Require Import Num Vec Aff PTree Cells Abs Cache Elim CPrune Tree TreeLemmas ArenaCompose ArenaComposeAbs
  ACPrune ACPruneOps ACPruneRefine ACPruneAll.

Lemma path_up_mono a : forall pf cur acc r, path_up pf a cur acc = Some r -> forall pf', (pf <= pf')%nat -> path_up pf' a cur acc = Some r.
Proof.
  induction pf as [|pf IH]; intros cur acc r H pf' Hle; [discriminate|]. destruct pf' as [|pf']; [lia|].
  cbn [path_up] in *. destruct (a_parent a cur) as [|g l|]; auto. apply IH; auto. lia.
Qed.
Lemma path_to_node_mono a pf i r pf' : path_to_node pf a i = Some r -> (pf <= pf')%nat -> path_to_node pf' a i = Some r.
Proof. unfold path_to_node. destruct (acontains a i); [|discriminate]. intros H Hle. eapply path_up_mono; eauto. Qed.
Lemma is_edge_feasible_mono o tol a p n k pf r pf' : is_edge_feasible o tol pf a p n k = Some r -> (pf <= pf')%nat ->
  is_edge_feasible o tol pf' a p n k = Some r.
Proof.
  unfold is_edge_feasible. intros H Hle. destruct (Nat.eqb p 0); [exact H|]. destruct (aget a n) as [nc|]; [|discriminate].
  destruct (ac_state (c_val nc)); try exact H.
  destruct (path_to_node pf a p) as [path|] eqn:E; [|discriminate]. rewrite (path_to_node_mono a pf p path pf' E Hle). exact H.
Qed.

Lemma acp_edges_mono alloc o tol K s tf p1 n pf pf' : (pf <= pf')%nat ->
  forall es pos e r, acp_edges alloc o tol pf K s tf p1 n es pos e = Some r -> acp_edges alloc o tol pf' K s tf p1 n es pos e = Some r.
Proof.
  intros Hle. induction es as [|[l c] es IH]; intros pos e r H; [exact H|]. rewrite acp_edges_cons in *.
  destruct (add_child K (e_a e) p1 l (mkcont (node_val s tf c) Indet) (alloc (e_a e))) as [a1|]; [|discriminate]. cbn [obnd] in *.
  destruct (is_edge_feasible o tol pf a1 p1 (alloc (e_a e)) (e_k e)) as [bk|] eqn:E; [|discriminate].
  rewrite (is_edge_feasible_mono o tol a1 p1 _ _ pf bk pf' E Hle). cbn [obnd] in *.
  destruct (fst bk || (Nat.eqb (e_created e) 0 && Nat.eqb (S pos) n)); [apply IH; exact H|].
  destruct (a_remove_child a1 p1 l) as [a2|]; [|discriminate]. cbn [obnd] in *. apply IH; exact H.
Qed.
Lemma acp_node_mono alloc o tol K root s tf L p1 a stk k pf pf' r : (pf <= pf')%nat ->
  acp_node alloc o tol pf K root s tf L p1 a stk k = Some r -> acp_node alloc o tol pf' K root s tf L p1 a stk k = Some r.
Proof.
  intros Hle. unfold acp_node. destruct L as [|f|p ch]; auto.
  destruct (acp_edges alloc o tol pf K s tf p1 (length (edges_from 0 ch)) (edges_from 0 ch) 0 (mkE a stk k 0 0 None)) as [e|] eqn:E; [|discriminate].
  rewrite (acp_edges_mono alloc o tol K s tf p1 _ pf pf' Hle _ _ _ _ E). auto.
Qed.
Lemma acp_loop_mono alloc o tol K root s tf pf pf' : (pf <= pf')%nat ->
  forall fuel stk a k r, acp_loop alloc o tol pf K root s tf fuel stk a k = Some r -> acp_loop alloc o tol pf' K root s tf fuel stk a k = Some r.
Proof.
  intros Hle. induction fuel as [|fuel IH]; intros stk a k r H; [discriminate|]. cbn [acp_loop] in *.
  destruct stk as [|[L p1] rest]; [exact H|].
  destruct (acp_node alloc o tol pf K root s tf L p1 a rest k) as [x|] eqn:E; [|discriminate].
  rewrite (acp_node_mono alloc o tol K root s tf L p1 a rest k pf pf' x Hle E). cbn [obnd] in *. apply IH; exact H.
Qed.
Lemma acp_at_mono alloc o tol K root s fuel L a i k pf pf' r : (pf <= pf')%nat ->
  acp_at alloc o tol pf K root s fuel L a i k = Some r -> acp_at alloc o tol pf' K root s fuel L a i k = Some r.
Proof.
  intros Hle. unfold acp_at. destruct (aget a i) as [c|]; [|discriminate]. destruct (negb (c_leaf c)); [discriminate|].
  destruct L as [|f|p ch]; [discriminate| |];
    (destruct (update_fun a i _) as [a1|]; [|discriminate]; cbn [obnd]; apply acp_loop_mono; exact Hle).
Qed.
Lemma acp_list_mono alloc o tol K root s fuel L pf pf' : (pf <= pf')%nat ->
  forall ts a k r, acp_list alloc o tol pf K root s fuel L ts a k = Some r -> acp_list alloc o tol pf' K root s fuel L ts a k = Some r.
Proof.
  intros Hle. induction ts as [|i ts IH]; intros a k r H; [exact H|]. cbn [acp_list] in *.
  destruct (acp_at alloc o tol pf K root s fuel L a i k) as [x|] eqn:E; [|discriminate].
  rewrite (acp_at_mono alloc o tol K root s fuel L a i k pf pf' x Hle E). cbn [obnd] in *. apply IH; exact H.
Qed.

(* the refinement theorem with ONE result for all fuels above the bounds *)
Theorem acompose_prune_refines_any_fuel alloc o tol L a t fa :
  fresh_alloc alloc -> lp_index_free o -> karity 2 L -> L <> U ->
  cabs fa a 0%nat = Some t -> cparents a None t -> NoDup (cidx t) -> cwf t ->
  (forall j, In j (terminal_keys a) <-> In j (cleaves t)) ->
  exists a' t',
    (forall pf fuel, (cdepth t + pdepth L < pf)%nat -> (size L < fuel)%nat ->
       acompose_prune alloc o tol pf 0 fuel L a = Some (a', snd (compose_prune o tol t L))) /\
    (forall F, (cheight t' <= F)%nat -> cabs F a' 0%nat = Some t') /\ cparents a' None t' /\ NoDup (cidx t') /\
    cshape t' (fst (compose_prune o tol t L)) /\ cframe t t' /\
    (forall k, In k (cidx t') -> In k (cidx t) \/ aget a k = None).
Proof.
  intros Hf Ho HL HnU Ha Hp Hnd Hw Hts.
  destruct (acompose_prune_refines_index_free_oracle alloc o tol (S (cdepth t + pdepth L)) L a t fa Hf Ho HL HnU Ha Hp Hnd Hw Hts)
    as [a' [t' [Hrun Hrest]]]; [lia|].
  exists a', t'. split; [|exact Hrest]. intros pf fuel Hpf Hfu. unfold acompose_prune.
  eapply acp_list_mono; [|exact (Hrun fuel Hfu)]. lia.
Qed.

(* Pwl/AElimRun.v -- the big-step statement about the traversal of Pwl/AElim.v (TLP: the machine, started with the
   children of a node on top of its stack, processes exactly that node's sub-tree and leaves the arena holding the
   u-component of AElimTwo.elim2 in the node's place) and the step from a sub-tree to its parent's child slot
   (kid_run): visit one child, then -- unless it is skipped -- its sub-tree. *)
From AT Require Import Num Vec Aff PTree Cells Abs Tree TreeLemmas Cache Elim ElimEval ElimEff AElim AElimBase AElimOps AElimTwo AElimStep.

Definition gcell_upd (gc : cell acont) (lg : nat) (x : option nat) : cell acont :=
  mkcell (c_val gc) (c_parent gc) (set_nth (c_children gc) lg x) (c_leaf gc).

(* where the sub-tree t with root index i hangs: it is the whole tree (i = root), or it occupies slot lg of the cell gc
   at index g, which lies outside t and has no other slot that points into t *)
Definition ctx_ok (root : nat) (A : arena acont) (i : nat) (par : option nat) (og : option (nat * cell acont * nat))
                  (t : ctree) : Prop :=
  match og with
  | None => i = root /\ par = None
  | Some (g, gc, lg) =>
      ~ In root (idxs t) /\ par = Some g /\ aget A g = Some gc /\ find_label (c_children gc) i = Some lg /\
      ~ In g (idxs t) /\
      (forall m x, nth_error (c_children gc) m = Some (Some x) -> In x (idxs t) -> m = lg)
  end.
Definition isroot_of (og : option (nat * cell acont * nat)) : bool := match og with None => true | Some _ => false end.
Definition post_ctx (A A' : arena acont) (og : option (nat * cell acont * nat)) (t u : ctree) : Prop :=
  match og with
  | None => forall j, ~ In j (idxs t) -> aget A' j = aget A j
  | Some (g, gc, lg) =>
      aget A' g = Some (gcell_upd gc lg (cidx u)) /\ (forall j, ~ In j (idxs t) -> j <> g -> aget A' j = aget A j)
  end.

Definition TLP (o : oracle) (tol : Qc) (root : nat) (t : ctree) : Prop :=
  forall i lf p s' c0 c1, t = CN i lf p s' c0 c1 ->
  forall og q st k u r k' es, elim2 o tol (isroot_of og) q st t k = (u, r, k', es) ->
  forall A par rest lp rem,
    wfn A par (CN i lf p st c0 c1) -> NoDup (idxs t) -> wne c0 -> wne c1 -> st_ne st -> ctx_ok root A i par og t ->
    exists n A' ps' lp',
      steps o tol root n (mk A (rev q) (kstack (length q) c0 c1 rest) lp (length q) k rem)
                         (mk A' ps' rest lp' (length ps') k' (rem ++ es)) /\
      (n <= csize c0 + csize c1)%nat /\
      (exists junk, rev ps' = q ++ junk) /\
      wfn A' par u /\
      (forall j, In j (idxs t) -> ~ In j (idxs u) -> aget A' j = None) /\
      post_ctx A A' og t u.

(* ---------------------------------------------------------------- small facts *)
Lemma set_nth_same {X} (l : list X) n x : nth_error l n = Some x -> set_nth l n x = l.
Proof. revert n. induction l as [|h t IH]; intros [|n] H; cbn in *; try discriminate; [congruence | f_equal; auto]. Qed.
Lemma set_nth_twice {X} (l : list X) n x y : set_nth (set_nth l n x) n y = set_nth l n y.
Proof. revert n. induction l as [|h t IH]; intros [|n]; cbn; auto. f_equal. apply IH. Qed.
Lemma gcell_upd_same gc lg x : nth_error (c_children gc) lg = Some x -> gcell_upd gc lg x = gc.
Proof. intros H. unfold gcell_upd. rewrite set_nth_same by exact H. destruct gc; reflexivity. Qed.
Lemma gcell_upd_twice gc lg x y : gcell_upd (gcell_upd gc lg x) lg y = gcell_upd gc lg y.
Proof. unfold gcell_upd. cbn [c_val c_parent c_children c_leaf]. rewrite set_nth_twice. reflexivity. Qed.

Lemma visit_cached o tol stP q h c k s k1 skip : visit o tol stP q h c k = (s, k1, false, skip) -> s = c_state c /\ k1 = k.
Proof.
  unfold visit. destruct (c_state c) as [| | |ws].
  - destruct (classify o tol stP q h k). intros H; inversion H.
  - intros H; inversion H; auto.
  - intros H; inversion H; auto.
  - intros H; inversion H; auto.
Qed.

Lemma wfn_set_state A par j lf f s a b s2 : wfn A par (CN j lf f s a b) -> NoDup (idxs (CN j lf f s a b)) ->
  wfn (aset A j (Some (ae_cell f s2 par [cidx a; cidx b] lf))) par (CN j lf f s2 a b).
Proof.
  intros [Hc [Hl [Ha Hb]]] Hnd. destruct (nodup_cn _ _ _ Hnd) as [Ja [Jb _]]. cbn [wfn].
  split; [apply aget_aset_same|]. split; [exact Hl|]. split.
  - eapply wfn_frame; [|exact Ha]. intros x Hx. apply aget_aset_other. intros ->. contradiction.
  - eapply wfn_frame; [|exact Hb]. intros x Hx. apply aget_aset_other. intros ->. contradiction.
Qed.

(* the root cell of a laid-out tree *)
Lemma wfn_root A par u ju : wfn A par u -> cidx u = Some ju ->
  exists f ch lf, aget A ju = Some (ae_cell f (c_state u) par ch lf).
Proof. destruct u as [|j l f s a b]; [discriminate|]. intros [Hc _] Hj. cbn in Hj. inversion Hj; subst. cbn [c_state]. eauto. Qed.
(* only the root cell carries the parent pointer *)
Lemma wfn_reroot A A' par par' u ju f s ch lf : wfn A par u -> cidx u = Some ju -> NoDup (idxs u) ->
  aget A ju = Some (ae_cell f s par ch lf) -> aget A' ju = Some (ae_cell f s par' ch lf) ->
  (forall x, In x (idxs u) -> x <> ju -> aget A' x = aget A x) -> wfn A' par' u.
Proof.
  destruct u as [|j l f0 s0 a b]; [discriminate|]. intros [Hc [Hl [Ha Hb]]] Hj Hnd H1 H2 Hf. cbn in Hj. inversion Hj; subst j.
  destruct (nodup_cn _ _ _ Hnd) as [Ja [Jb _]]. rewrite Hc in H1. inversion H1; subst. cbn [wfn].
  split; [exact H2|]. split; [exact Hl|]. split.
  - eapply wfn_frame; [|exact Ha]. intros x Hx. apply Hf; [right; apply in_or_app; auto | intros ->; contradiction].
  - eapply wfn_frame; [|exact Hb]. intros x Hx. apply Hf; [right; apply in_or_app; auto | intros ->; contradiction].
Qed.

Lemma find_label_set_nth l lg j : (lg < length l)%nat ->
  (forall m, nth_error l m = Some (Some j) -> m = lg) -> find_label (set_nth l lg (Some j)) j = Some lg.
Proof.
  revert lg. induction l as [|h t IH]; intros [|lg] Hlt Hu; cbn [length] in Hlt; try lia.
  - cbn [set_nth find_label]. rewrite Nat.eqb_refl. reflexivity.
  - cbn [set_nth find_label]. assert (Hh : h <> Some j) by (intros ->; specialize (Hu 0%nat eq_refl); discriminate).
    rewrite (IH lg) by (try lia; intros m Hm; specialize (Hu (S m) Hm); lia). cbn [option_map].
    destruct h as [x|]; [|reflexivity]. destruct (Nat.eqb_spec x j) as [->|]; [congruence | reflexivity].
Qed.
Lemma find_label_lt l j n : find_label l j = Some n -> (n < length l)%nat.
Proof. intros H. apply find_label_sound in H. apply nth_error_Some. congruence. Qed.

(* ---------------------------------------------------------------- one child and its sub-tree *)
Definition two_kid (o : oracle) (tol : Qc) (l i : nat) (st : nstate) (ql : rows) (h : vec * Qc) (c : ctree) (k : cnt)
  : ctree * ctree * cnt * list (nat * nat) * bool :=
  let '(s, k1, fr, skip) := visit o tol st ql h c k in
  if skip then (set_st s c, set_st s c, k1, (if fr then [(l, i)] else []), fr)
  else let '(u, r, k', e) := elim2 o tol false ql s c k1 in (u, r, k', e, fr).

Lemma two_child0_kid o tol i st q0 h c0 k : c0 <> CU -> two_child0 o tol i st q0 h c0 k = two_kid o tol 0 i st q0 h c0 k.
Proof. destruct c0; [congruence | reflexivity]. Qed.

Lemma kid_run o tol root : mir_ne o -> forall j lfj fj sj a b, TLP o tol root (CN j lfj fj sj a b) ->
  forall l i p st pari chi lfi q A rest nrem lp ps junk k rem ul rl k' el fr,
  let c := CN j lfj fj sj a b in
  (l = 0 \/ l = 1)%nat ->
  two_kid o tol l i st (q ++ [lrow l p]) (lrow l p) c k = (ul, rl, k', el, fr) ->
  rev ps = q ++ junk ->
  aget A i = Some (ae_cell p st pari chi lfi) -> find_label chi j = Some l ->
  (forall m x, nth_error chi m = Some (Some x) -> In x (idxs c) -> m = l) ->
  wfn A (Some i) c -> NoDup (idxs c) -> wne c -> st_ne st -> ~ In root (idxs c) -> ~ In i (idxs c) ->
  (nrem = 0%nat -> forall s k1 skip, visit o tol st (q ++ [lrow l p]) (lrow l p) c k = (s, k1, true, skip) ->
     ae_forward root (aset A j (Some (ae_cell fj s (Some i) [cidx a; cidx b] lfj))) i =
     Some (aset A j (Some (ae_cell fj s (Some i) [cidx a; cidx b] lfj)))) ->
  exists n A' ps' lp',
    steps o tol root n (mk A ps ((S (length q), j, nrem) :: rest) lp (length ps) k rem)
                       (mk A' ps' rest lp' (length ps') k' (rem ++ el)) /\
    (n <= csize c)%nat /\
    (exists junk', rev ps' = (q ++ [lrow l p]) ++ junk') /\
    wfn A' (Some i) ul /\
    (forall x, In x (idxs c) -> ~ In x (idxs ul) -> aget A' x = None) /\
    aget A' i = Some (ae_cell p st pari (set_nth chi l (cidx ul)) lfi) /\
    (forall x, ~ In x (idxs c) -> x <> i -> aget A' x = aget A x).
Proof.
  intros Hm j lfj fj sj a b IH l i p st pari chi lfi q A rest nrem lp ps junk k rem ul rl k' el fr c
         Hl01 H2 Hr Hi Hfl Hslots Hw Hnd Hwne Hst Hroot Hic Hnoop.
  unfold two_kid in H2.
  destruct (visit o tol st (q ++ [lrow l p]) (lrow l p) c k) as [[[s k1] fr'] skip] eqn:Ev.
  pose proof (visit_skip _ _ _ _ _ _ _ _ _ _ _ Ev) as Hsk.
  pose proof Hw as Hw0. cbn [c wfn] in Hw. destruct Hw as [Hcj [Hlf [Wa Wb]]].
  assert (Hjr : j <> root) by (intros ->; apply Hroot; left; reflexivity).
  assert (Hij : i <> j) by (intros ->; apply Hic; left; reflexivity).
  pose proof (step_child o tol root A ps q junk (length q) j nrem rest lp k rem fj c [cidx a; cidx b] lfj i p st pari chi lfi l
                s k1 fr' skip Hr eq_refl Hcj Hi Hfl Hl01 Hjr Hst (num_nodes_ok A (Some i) j lfj fj sj a b Hw0 Hnd) Ev) as Hstep.
  assert (Hnth : nth_error chi l = Some (Some j)) by (apply find_label_sound; exact Hfl).
  assert (Hsame : set_nth chi l (Some j) = chi) by (apply set_nth_same; exact Hnth).
  (* the arena after the visit, whether fresh or cached *)
  set (A1 := if fr' then aset A j (Some (ae_cell fj s (Some i) [cidx a; cidx b] lfj)) else A).
  assert (Hstep' : ae_step o tol root (mk A ps ((S (length q), j, nrem) :: rest) lp (length ps) k rem) =
                   SNext (mk A1 (lrow l p :: rev q)
                             (if skip then rest else kstack (S (length q)) a b rest)
                             (if skip then 0%nat else nkids a b) (S (length q)) k1
                             (if fr' && is_infeas s then rem ++ [(l, i)] else rem))).
  { rewrite Hstep. unfold A1. destruct fr'; [|reflexivity].
    assert (E : (if Nat.eqb nrem 0 then ae_forward root (aset A j (Some (ae_cell fj s (Some i) [cidx a; cidx b] lfj))) i
                 else Some (aset A j (Some (ae_cell fj s (Some i) [cidx a; cidx b] lfj)))) =
                Some (aset A j (Some (ae_cell fj s (Some i) [cidx a; cidx b] lfj)))).
    { destruct (Nat.eqb_spec nrem 0) as [E0|]; [|reflexivity]. eapply Hnoop; eauto. }
    rewrite E. reflexivity. }
  assert (Ws : wfn A1 (Some i) (CN j lfj fj s a b)).
  { unfold A1. destruct fr'.
    - apply (wfn_set_state A (Some i) j lfj fj sj a b s); [exact Hw0 | exact Hnd].
    - destruct (visit_cached _ _ _ _ _ _ _ _ _ _ Ev) as [-> _]. exact Hw0. }
  assert (Fr1 : forall x, x <> j -> aget A1 x = aget A x).
  { intros x Hx. unfold A1. destruct fr'; [apply aget_aset_other; congruence | reflexivity]. }
  assert (Hi1 : aget A1 i = Some (ae_cell p st pari chi lfi)) by (rewrite Fr1 by exact Hij; exact Hi).
  destruct skip.
  - (* the sub-tree is skipped *)
    inversion H2; subst ul rl k' el fr. clear H2.
    exists 1%nat, A1, (lrow l p :: rev q), 0%nat.
    split; [|split; [|split; [|split; [|split; [|split]]]]].
    + apply steps_one. rewrite Hstep'. cbn [length]. rewrite rev_length.
      destruct fr'; cbn [andb]; rewrite <- ?Hsk; rewrite ?app_nil_r; reflexivity.
    + cbn [c csize]. lia.
    + exists []. cbn [rev]. rewrite rev_involutive, app_nil_r. reflexivity.
    + exact Ws.
    + intros x Hx Hnx. exfalso. apply Hnx. exact Hx.
    + rewrite Hi1. cbn [c set_st cidx]. rewrite Hsame. reflexivity.
    + intros x Hx _. apply Fr1. intros ->. apply Hx. left; reflexivity.
  - (* its children are processed *)
    destruct (elim2 o tol false (q ++ [lrow l p]) s c k1) as [[[u r] k''] e] eqn:E2.
    inversion H2; subst ul rl k' el fr. clear H2.
    assert (Hinf : is_infeas s = false) by (symmetry; exact Hsk).
    assert (Hstc : st_ne (c_state c) /\ wne a /\ wne b) by exact Hwne. destruct Hstc as [Hstc [Wna Wnb]].
    assert (Hsne : st_ne s) by (eapply visit_ne; eauto).
    destruct (IH j lfj fj sj a b eq_refl (Some (i, ae_cell p st pari chi lfi, l)) (q ++ [lrow l p]) s k1 u r k'' e E2
                 A1 (Some i) rest (nkids a b) (if fr' && is_infeas s then rem ++ [(l, i)] else rem) Ws Hnd Wna Wnb Hsne)
      as [n [A' [ps' [lp' [Hrun [Hn [Hj' [Wu [Hdead Hpost]]]]]]]]].
    { cbn [ctx_ok]. split; [exact Hroot|]. split; [reflexivity|]. split; [exact Hi1|]. cbn [ae_cell c_children].
      split; [exact Hfl|]. split; [exact Hic|]. exact Hslots. }
    destruct Hpost as [Hg' Hfr'].
    exists (1 + n)%nat, A', ps', lp'.
    split; [|split; [|split; [|split; [|split; [|split]]]]].
    + eapply steps_trans; [apply steps_one; exact Hstep'|]. cbn [length rev] in Hrun |- *.
      rewrite app_length, Nat.add_comm in Hrun. cbn [length Nat.add] in Hrun. rewrite Hinf, andb_false_r in Hrun.
      rewrite rev_app_distr in Hrun. cbn [rev app] in Hrun.
      rewrite Hinf, andb_false_r. exact Hrun.
    + cbn [c csize]. lia.
    + exact Hj'.
    + exact Wu.
    + exact Hdead.
    + rewrite Hg'. reflexivity.
    + intros x Hx Hxi. rewrite Hfr' by assumption. apply Fr1. intros ->. apply Hx. left; reflexivity.
Qed.

(* Pwl/Elim.v -- infeasible_elimination (pwl/impl_infeasible_elim.rs) for binary trees as a structural recursion
   that makes the same oracle calls in the same order as the code:
   DFS pre-order, per non-root node: cached state | phase_inh | phase_one (mirror oracle) | phase_two (LP oracle,
   witness re-checked, repair through the mirror oracle); forwarding after the last sibling; deferred removal
   (never of the last remaining child).  The LP solver and the repair heuristic are ORACLES indexed by call number. *)
From AT Require Import Num Vec Aff PTree Cells Abs Cache.

Inductive ctree :=
| CU
| CN (idx : nat) (leaf : bool) (f : aff) (st : nstate) (c0 c1 : ctree).

Definition c_state (t : ctree) : nstate := match t with CU => Indet | CN _ _ _ st _ _ => st end.
Definition c_exists (t : ctree) : bool := match t with CU => false | _ => true end.

(* the single row of a binary decision *)
Definition prow (p : aff) : vec * Qc := (hd [] (a_mat p), hd 0 (a_bias p)).
Definition row1 (p : aff) : vec * Qc := prow p.                                  (* label 1: a.x <= b *)
Definition row0 (p : aff) : vec * Qc := (vopp (fst (prow p)), - snd (prow p)).   (* label 0: -a.x <= -b *)

Fixpoint cev (t : ctree) (x : vec) : option vec :=
  match t with
  | CU => None
  | CN _ leaf f _ c0 c1 =>
      if leaf then Some (apply f x)
      else if qleb (dot (fst (prow f)) x) (snd (prow f)) then cev c1 x else cev c0 x
  end.
Fixpoint erase (t : ctree) : ptree :=
  match t with
  | CU => U
  | CN _ leaf f _ c0 c1 => if leaf then T f else D f [erase c0; erase c1]
  end.

(* from the arena (isleaf flag as stored; children beyond the second slot are ignored: AffTree<2>) *)
Fixpoint cabs (fuel : nat) (a : arena acont) (i : nat) : option ctree :=
  match fuel with
  | O => None
  | S fuel' =>
      match aget a i with
      | None => None
      | Some c =>
          let sub oc := match oc with None => Some CU | Some j => cabs fuel' a j end in
          match sub (nth 0 (c_children c) None), sub (nth 1 (c_children c) None) with
          | Some c0, Some c1 => Some (CN i (c_leaf c) (ac_aff (c_val c)) (ac_state (c_val c)) c0 c1)
          | _, _ => None
          end
      end
  end.

(* ---------- oracles ---------- *)
Inductive lpans := LInf | LUnb | LOpt (w : vec) | LErr.
Record oracle := { o_lp : nat -> rows -> lpans;                       (* k-th LP call, on the queried polytope *)
                   o_mir : nat -> rows -> list vec -> option (list vec) (* k-th mirror_points call *) }.
Record cnt := { k_lp : nat; k_mir : nat }.
Definition lp_inc (k : cnt) := {| k_lp := S (k_lp k); k_mir := k_mir k |}.
Definition mir_inc (k : cnt) := {| k_lp := k_lp k; k_mir := S (k_mir k) |}.

Definition is_feas (s : nstate) : bool := match s with Feas | FeasW _ => true | _ => false end.
Definition is_infeas (s : nstate) : bool := match s with Infeas => true | _ => false end.
Definition is_indet (s : nstate) : bool := match s with Indet => true | _ => false end.

(* phase_two *)
Definition phase_two (o : oracle) (tol : Qc) (q : rows) (k : cnt) : nstate * cnt :=
  match o_lp o (k_lp k) q with
  | LInf => (Infeas, lp_inc k)
  | LUnb => (Feas, lp_inc k)
  | LErr => (Indet, lp_inc k)
  | LOpt w =>
      if contains_tol tol q w then (FeasW [w], lp_inc k)
      else match o_mir o (k_mir k) q [w] with
           | Some (p :: _) => if contains_tol tol q p then (FeasW [p], mir_inc (lp_inc k)) else (Indet, mir_inc (lp_inc k))
           | _ => (Indet, mir_inc (lp_inc k))
           end
  end.
(* classification of a node whose state is Indeterminate: parent state stP, path rows q, last half-space h *)
Definition classify (o : oracle) (tol : Qc) (stP : nstate) (q : rows) (h : vec * Qc) (k : cnt) : nstate * cnt :=
  match stP with
  | FeasW ws =>
      let inh := filter (fun w => contains_tol tol [h] w) ws in
      match inh with
      | _ :: _ => (FeasW inh, k)
      | [] =>
          match o_mir o (k_mir k) q ws with
          | Some pts => (FeasW pts, mir_inc k)
          | None => phase_two o tol q (mir_inc k)
          end
      end
  | _ => phase_two o tol q k
  end.

(* visiting a child: (new state, counters, freshly classified?, skip its subtree?) *)
Definition visit (o : oracle) (tol : Qc) (stP : nstate) (q : rows) (h : vec * Qc) (c : ctree) (k : cnt)
  : nstate * cnt * bool * bool :=
  match c_state c with
  | Infeas => (Infeas, k, false, true)
  | Feas => (Feas, k, false, false)
  | FeasW ws => (FeasW ws, k, false, false)
  | Indet => let '(s, k') := classify o tol stP q h k in (s, k', true, is_infeas s)
  end.

Definition set_st (s : nstate) (t : ctree) : ctree :=
  match t with CU => CU | CN i l f _ c0 c1 => CN i l f s c0 c1 end.

(* processes the children of t (whose own current state is st); returns what ends up in t's slot *)
Fixpoint elim_sub (o : oracle) (tol : Qc) (isroot : bool) (q : rows) (st : nstate) (t : ctree) (k : cnt) {struct t}
  : ctree * cnt :=
  match t with
  | CU => (CU, k)
  | CN i leaf p _ c0 c1 =>
      if leaf then (CN i leaf p st c0 c1, k) else
      let q0 := q ++ [row0 p] in
      let q1 := q ++ [row1 p] in
      (* child 0 and its subtree *)
      let '(sub0, k2, fresh0) :=
        match c0 with
        | CU => (CU, k, false)
        | _ =>
            let '(s0, k1, fr0, skip0) := visit o tol st q0 (row0 p) c0 k in
            if skip0 then (set_st s0 c0, k1, fr0)
            else let '(r0, k2) := elim_sub o tol false q0 s0 c0 k1 in (r0, k2, fr0)
        end in
      match c1 with
      | CU => (CN i leaf p st sub0 CU, k2)
      | _ =>
          let '(s1, k3, fr1, skip1) := visit o tol st q1 (row1 p) c1 k2 in
          let s0now := c_state sub0 in
          (* forward_if_redundant after the last sibling, only when it was freshly classified *)
          let fwd := fr1 && c_exists sub0 &&
                     ((is_feas s0now && is_infeas s1) || (is_infeas s0now && is_feas s1)) in
          if fwd then
            if is_feas s1 then
              (* the last sibling moves up; its subtree is still traversed with the old path rows *)
              let '(r1, k4) := elim_sub o tol false q1 s1 c1 k3 in
              if isroot then (CN i leaf p st CU r1, k4) else (r1, k4)
            else
              if isroot then (CN i leaf p st sub0 CU, k3) else (sub0, k3)
          else
            let '(sub1, k4) :=
              if skip1 then (set_st s1 c1, k3) else elim_sub o tol false q1 s1 c1 k3 in
            (* deferred removal of freshly classified infeasible children, never of the last remaining child *)
            let m0 := fresh0 && is_infeas (c_state sub0) in
            let m1 := fr1 && is_infeas s1 in
            let slot0 := if m0 && c_exists sub0 then CU else sub0 in
            let slot1 := if m1 && c_exists slot0 then CU else sub1 in
            (CN i leaf p st slot0 slot1, k4)
      end
  end.

Definition k0 : cnt := {| k_lp := 0; k_mir := 0 |}.
Definition elim (o : oracle) (tol : Qc) (t : ctree) : ctree * cnt := elim_sub o tol true [] (c_state t) t k0.

(* replay oracles from logged answer lists *)
Definition oracle_of_logs (lps : list lpans) (mirs : list (option (list vec))) : oracle :=
  {| o_lp := fun k _ => nth k lps LErr; o_mir := fun k _ _ => nth k mirs None |}.

(* structural equality of trees incl. states (mirror comparison) *)
Definition st_eqb (a b : nstate) : bool :=
  match a, b with
  | Indet, Indet | Infeas, Infeas | Feas, Feas => true
  | FeasW u, FeasW v => Nat.eqb (length u) (length v) && forallb (fun p => veqb (fst p) (snd p)) (combine u v)
  | _, _ => false
  end.
Fixpoint ctree_eqb (a b : ctree) : bool :=
  match a, b with
  | CU, CU => true
  | CN i l f s a0 a1, CN j m g r b0 b1 =>
      Nat.eqb i j && Bool.eqb l m && aff_eqb f g && st_eqb s r && ctree_eqb a0 b0 && ctree_eqb a1 b1
  | _, _ => false
  end.

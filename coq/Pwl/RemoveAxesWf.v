(* Pwl/RemoveAxesWf.v -- AffTree::remove_axes keeps a tree well-formed (C04): every node function gets the input
   dimension "number of kept axes", terminals keep their output dimension, decisions stay one-row decisions. *)
From AT Require Import Num Vec Aff PTree Cells Abs Cache Elim WfC RemoveAxesCache.

Definition kept (mask : list bool) : nat := length (filter (fun b => b) mask).
Lemma sel_length (mask : list bool) : forall (r : vec), length r = length mask ->
  length (map snd (filter (fun p : bool * Qc => fst p) (combine mask r))) = kept mask.
Proof.
  unfold kept. induction mask as [|b mask IH]; intros [|x r] H; cbn [length] in H; try discriminate; [reflexivity|].
  cbn [combine filter fst]. destruct b; cbn [map length]; rewrite IH by lia; reflexivity.
Qed.
Lemma keep_cols_wf mask f : wf_aff f -> a_in f = length mask ->
  wf_aff (keep_cols mask f) /\ a_in (keep_cols mask f) = kept mask /\ outdim (keep_cols mask f) = outdim f.
Proof.
  intros [Hc Hl] Hi. unfold keep_cols, wf_aff, outdim, cols in *. cbn [a_in a_mat a_bias]. rewrite map_length.
  split; [split; [|exact Hl]|split; reflexivity].
  apply Forall_forall. intros r Hr. apply in_map_iff in Hr as [r0 [<- Hr0]].
  rewrite Forall_forall in Hc. apply sel_length. rewrite (Hc r0 Hr0). exact Hi.
Qed.
Lemma c_exists_creset h t : c_exists (creset h t) = c_exists t.
Proof. destruct t; reflexivity. Qed.
Theorem cremove_axes_cwf mask n m t : length mask = n -> cwf n m t -> cwf (kept mask) m (cremove_axes mask t).
Proof.
  intros Hm. induction 1 as [| i f st Hw Hi Ho | i p st c0 c1 Hw Hi Ho He H0 IH0 H1 IH1]; cbn [cremove_axes creset].
  - constructor.
  - destruct (keep_cols_wf mask f Hw) as [A [B C]]; [congruence|]. constructor; auto. congruence.
  - destruct (keep_cols_wf mask p Hw) as [A [B C]]; [congruence|].
    constructor; auto; [congruence | rewrite !c_exists_creset; exact He].
Qed.
Theorem cremove_axes_cwft mask n m t : length mask = n -> cwft n m t -> cwft (kept mask) m (cremove_axes mask t).
Proof.
  intros Hm [He Hw]. split; [unfold cremove_axes; rewrite c_exists_creset; exact He | apply (cremove_axes_cwf mask n); auto].
Qed.

(* Pwl/AElimBase.v -- the arena invariant of the refinement proof for Pwl/AElim.v: a ctree laid out in the slab arena
   with mirrored parent / child links (wfn), the index set of a ctree, frame lemmas, the pigeonhole bound that makes
   the fuel of the machine sufficient, and the link back to cabs. *)
From AT Require Import Num Vec Aff PTree Cells Abs Tree TreeLemmas Cache Elim AElim.

Definition cidx (t : ctree) : option nat := match t with CU => None | CN i _ _ _ _ _ => Some i end.
Fixpoint idxs (t : ctree) : list nat :=
  match t with CU => [] | CN i _ _ _ c0 c1 => i :: idxs c0 ++ idxs c1 end.
Fixpoint csize (t : ctree) : nat :=
  match t with CU => 0%nat | CN _ _ _ _ c0 c1 => S (csize c0 + csize c1) end.
Fixpoint cdepth (t : ctree) : nat :=
  match t with CU => 0%nat | CN _ _ _ _ c0 c1 => S (Nat.max (cdepth c0) (cdepth c1)) end.

(* t is laid out in a below the parent pointer par: every node is the cell at its index, with exactly K = 2 child
   slots that hold the indices of its sub-trees, the parent pointer of every child points back, terminals (isleaf)
   have no children *)
Fixpoint wfn (a : arena acont) (par : option nat) (t : ctree) : Prop :=
  match t with
  | CU => True
  | CN i lf f s c0 c1 =>
      aget a i = Some (ae_cell f s par [cidx c0; cidx c1] lf) /\
      (lf = true -> c0 = CU /\ c1 = CU) /\
      wfn a (Some i) c0 /\ wfn a (Some i) c1
  end.

(* the hypothesis of the refinement theorem: the arena holds the tree t at root r, and no index occurs twice *)
Definition arena_tree (a : arena acont) (r : nat) (t : ctree) : Prop :=
  cidx t = Some r /\ wfn a None t /\ NoDup (idxs t).

Lemma csize_idxs t : length (idxs t) = csize t.
Proof. induction t as [|i lf f s c0 IH0 c1 IH1]; cbn [idxs csize length]; auto. rewrite app_length. lia. Qed.
Lemma cidx_in t i : cidx t = Some i -> In i (idxs t).
Proof. destruct t; cbn; intros H; [discriminate|]. inversion H. auto. Qed.
Lemma cidx_exists t : c_exists t = true <-> exists i, cidx t = Some i.
Proof. destruct t; cbn; split; intros H; eauto; try discriminate. destruct H; discriminate. Qed.
Lemma cidx_none t : cidx t = None <-> t = CU.
Proof. destruct t; cbn; split; intros H; auto; discriminate. Qed.

(* ---------------------------------------------------------------- frame *)
Lemma wfn_frame a a' : forall t par, (forall j, In j (idxs t) -> aget a' j = aget a j) -> wfn a par t -> wfn a' par t.
Proof.
  induction t as [|i lf f s c0 IH0 c1 IH1]; intros par Hf H; [exact I|].
  cbn [wfn idxs] in *. destruct H as [Hc [Hl [H0 H1]]].
  split; [rewrite Hf by (left; reflexivity); exact Hc|]. split; [exact Hl|]. split.
  - apply IH0; [|exact H0]. intros j Hj. apply Hf. right. apply in_or_app. left; exact Hj.
  - apply IH1; [|exact H1]. intros j Hj. apply Hf. right. apply in_or_app. right; exact Hj.
Qed.
Lemma wfn_alloc a : forall t par j, wfn a par t -> In j (idxs t) -> exists c, aget a j = Some c.
Proof.
  induction t as [|i lf f s c0 IH0 c1 IH1]; intros par j H Hj; [contradiction|].
  cbn [wfn idxs] in *. destruct H as [Hc [_ [H0 H1]]]. destruct Hj as [<-|Hj]; [eauto|].
  apply in_app_or in Hj as [Hj|Hj]; eauto.
Qed.
Lemma aget_lt {V} (a : arena V) j c : aget a j = Some c -> (j < length a)%nat.
Proof. unfold aget. intros H. apply nth_error_Some. destruct (nth_error a j); congruence. Qed.

(* re-rooting: the root cell carries the parent pointer, nothing else does *)
Lemma wfn_root_cell a par i lf f s c0 c1 : wfn a par (CN i lf f s c0 c1) ->
  aget a i = Some (ae_cell f s par [cidx c0; cidx c1] lf).
Proof. intros H. apply H. Qed.

(* ---------------------------------------------------------------- pigeonhole *)
Lemma nodup_bound (l : list nat) n : NoDup l -> (forall x, In x l -> (x < n)%nat) -> (length l <= n)%nat.
Proof.
  intros Hn Hb. rewrite <- (seq_length n 0). apply NoDup_incl_length; [exact Hn|].
  intros x Hx. apply in_seq. specialize (Hb x Hx). lia.
Qed.
Lemma wfn_size_bound a t par : wfn a par t -> NoDup (idxs t) -> (csize t <= length a)%nat.
Proof.
  intros H Hn. rewrite <- csize_idxs. apply nodup_bound; [exact Hn|].
  intros x Hx. destruct (wfn_alloc a t par x H Hx) as [c Hc]. eapply aget_lt; eauto.
Qed.

(* ---------------------------------------------------------------- NoDup bookkeeping *)
Lemma nodup_app {A} (l1 l2 : list A) : NoDup (l1 ++ l2) ->
  NoDup l1 /\ NoDup l2 /\ (forall x, In x l1 -> ~ In x l2).
Proof.
  induction l1 as [|x l1 IH]; cbn [app]; intros H.
  - split; [constructor|]. split; [exact H|]. intros x [].
  - inversion H as [|y m Hx Hm]; subst. destruct (IH Hm) as [N1 [N2 Hd]].
    split; [constructor; [intros C; apply Hx; apply in_or_app; auto | exact N1]|]. split; [exact N2|].
    intros z [<-|Hz]; [intros C; apply Hx; apply in_or_app; auto | apply Hd; exact Hz].
Qed.
Lemma nodup_app_intro {A} (l1 l2 : list A) : NoDup l1 -> NoDup l2 -> (forall x, In x l1 -> ~ In x l2) -> NoDup (l1 ++ l2).
Proof.
  induction l1 as [|x l1 IH]; cbn [app]; intros N1 N2 Hd; [exact N2|].
  inversion N1 as [|y m Hx Hm]; subst. constructor.
  - intros C. apply in_app_or in C as [C|C]; [contradiction | exact (Hd x (or_introl eq_refl) C)].
  - apply IH; auto. intros z Hz. apply Hd. right; exact Hz.
Qed.
Lemma nodup_cn i c0 c1 : NoDup (i :: idxs c0 ++ idxs c1) ->
  ~ In i (idxs c0) /\ ~ In i (idxs c1) /\ NoDup (idxs c0) /\ NoDup (idxs c1) /\
  (forall j, In j (idxs c0) -> ~ In j (idxs c1)).
Proof.
  intros H. inversion H as [|x l Hni Hnd]; subst. destruct (nodup_app _ _ Hnd) as [N0 [N1 Hd]].
  split; [intros C; apply Hni; apply in_or_app; auto|]. split; [intros C; apply Hni; apply in_or_app; auto|]. auto.
Qed.

(* ---------------------------------------------------------------- back to cabs *)
Lemma cabs_mono : forall fuel fuel' a i t, (fuel <= fuel')%nat -> cabs fuel a i = Some t -> cabs fuel' a i = Some t.
Proof.
  induction fuel as [|fuel IH]; intros fuel' a i t Hle H; [discriminate|].
  destruct fuel' as [|fuel']; [lia|]. cbn [cabs] in *.
  destruct (aget a i) as [c|]; [|discriminate].
  destruct (nth 0 (c_children c) None) as [j0|].
  - destruct (cabs fuel a j0) as [t0|] eqn:E0; [|discriminate]. rewrite (IH fuel' a j0 t0) by (auto; lia).
    destruct (nth 1 (c_children c) None) as [j1|].
    + destruct (cabs fuel a j1) as [t1|] eqn:E1; [|discriminate]. rewrite (IH fuel' a j1 t1) by (auto; lia). exact H.
    + exact H.
  - destruct (nth 1 (c_children c) None) as [j1|].
    + destruct (cabs fuel a j1) as [t1|] eqn:E1; [|discriminate]. rewrite (IH fuel' a j1 t1) by (auto; lia). exact H.
    + exact H.
Qed.
Lemma wfn_cabs a : forall t par i, wfn a par t -> cidx t = Some i -> cabs (cdepth t) a i = Some t.
Proof.
  induction t as [|i0 lf f s c0 IH0 c1 IH1]; intros par i H Hi; [discriminate|].
  cbn [cidx] in Hi. inversion Hi; subst i0. cbn [wfn] in H. destruct H as [Hc [_ [H0 H1]]].
  cbn [cdepth cabs]. rewrite Hc. cbn [ae_cell c_children nth c_leaf c_val ac_aff ac_state].
  assert (S0 : match cidx c0 with None => Some CU | Some j => cabs (Nat.max (cdepth c0) (cdepth c1)) a j end = Some c0).
  { destruct c0 as [|j0 l0 f0 s0 a0 b0]; [reflexivity|]. cbn [cidx].
    eapply cabs_mono; [|eapply IH0; [exact H0|reflexivity]]. lia. }
  assert (S1 : match cidx c1 with None => Some CU | Some j => cabs (Nat.max (cdepth c0) (cdepth c1)) a j end = Some c1).
  { destruct c1 as [|j1 l1 f1 s1 a1 b1]; [reflexivity|]. cbn [cidx].
    eapply cabs_mono; [|eapply IH1; [exact H1|reflexivity]]. lia. }
  rewrite S0, S1. reflexivity.
Qed.
Theorem arena_tree_cabs a r t : arena_tree a r t -> cabs (cdepth t) a r = Some t.
Proof. intros [Hi [Hw _]]. eapply wfn_cabs; eauto. Qed.

(* ---------------------------------------------------------------- states that make phase_inh's assert! hold *)
Definition st_ne (s : nstate) : Prop := s <> FeasW [].
Fixpoint wne (t : ctree) : Prop :=
  match t with CU => True | CN _ _ _ s c0 c1 => st_ne s /\ wne c0 /\ wne c1 end.
Definition mir_ne (o : oracle) : Prop := forall k q ws, o_mir o k q ws <> Some [].

Lemma phase_two_ne o tol q k s k' : phase_two o tol q k = (s, k') -> st_ne s.
Proof.
  unfold phase_two. destruct (o_lp o (k_lp k) q) as [| |w|]; try (intros H; inversion H; discriminate).
  destruct (contains_tol tol q w); [intros H; inversion H; discriminate|].
  destruct (o_mir o (k_mir k) q [w]) as [[|p r]|]; try (intros H; inversion H; discriminate).
  destruct (contains_tol tol q p); intros H; inversion H; discriminate.
Qed.
Lemma classify_ne o tol stP q h k s k' : mir_ne o -> classify o tol stP q h k = (s, k') -> st_ne s.
Proof.
  intros Hm. unfold classify. destruct stP as [| | |ws]; try apply phase_two_ne.
  destruct (filter (fun w => contains_tol tol [h] w) ws) as [|w r] eqn:Ef.
  - destruct (o_mir o (k_mir k) q ws) as [pts|] eqn:Em; [|apply phase_two_ne].
    intros H; inversion H; subst. intros C. inversion C; subst. eapply Hm; eauto.
  - intros H; inversion H; discriminate.
Qed.
Lemma visit_ne o tol stP q h c k s k' fr sk : mir_ne o -> st_ne (c_state c) ->
  visit o tol stP q h c k = (s, k', fr, sk) -> st_ne s.
Proof.
  intros Hm Hc. unfold visit. destruct (c_state c) as [| | |ws] eqn:Es.
  - destruct (classify o tol stP q h k) as [s1 k1] eqn:Ec. intros H; inversion H; subst. eapply classify_ne; eauto.
  - intros H; inversion H; discriminate.
  - intros H; inversion H; discriminate.
  - intros H; inversion H; subst. exact Hc.
Qed.

(* Pwl/ArenaCompose.v -- generic_composition_inplace WITHOUT pruning at the level of the slab arena
   (pwl/impl_composition.rs:231-327 with explore = true), and the frame clause of C02:
   the nodes of the modified tree ("rhs" in the code, the receiver of compose / apply_func / the operators) keep
   their arena indices, their parents, their children under the labels they had, and -- for decisions -- their
   values; a terminal keeps its index and its cached state and receives the new function; nothing is removed.

   The arena operations are those of tree/graph.rs (add_child_node after the D1 repair, update_node) over cells
   whose payload is AffContent; the slab allocator is an oracle `alloc` that returns an unoccupied key.  lhs is
   borrowed immutably by the code (&AffTree), so "the right operand is left unchanged" holds by construction; it
   enters the model as the inductive tree it abstracts to.  The order in which the code's explicit stack visits
   the new nodes only influences which fresh key goes where, which the allocator oracle subsumes. *)
From AT Require Import Num Vec Aff PTree Cells Abs Tree TreeLemmas.

Definition mkcont (f : aff) (st : nstate) : acont := {| ac_aff := f; ac_state := st |}.

(* Tree::add_child_node (after the D1 repair).  None = the call does not return Ok (the code unwraps: panic):
   parent missing, label >= K, slot occupied.  The key comes from the allocator. *)
Definition add_child (K : nat) (a : arena acont) (p l : nat) (v : acont) (key : nat) : option (arena acont) :=
  match aget a p with
  | None => None
  | Some pc =>
      match nth_error (c_children pc) l with
      | Some None =>
          let a1 := aset a key (Some (mkcell v (Some p) (repeat None K) true)) in
          Some (aset a1 p (Some (mkcell (c_val pc) (c_parent pc) (set_nth (c_children pc) l (Some key)) false)))
      | _ => None
      end
  end.
(* AffTree::update_node: new function, cache kept *)
Definition update_fun (a : arena acont) (i : nat) (f : aff) : option (arena acont) :=
  match aget a i with
  | None => None
  | Some c => Some (aset a i (Some (mkcell (mkcont f (ac_state (c_val c))) (c_parent c) (c_children c) (c_leaf c))))
  end.

Definition obnd {A B} (o : option A) (f : A -> option B) : option B := match o with Some x => f x | None => None end.

(* the copy of lhs below node p1, child by child in ascending label order *)
Fixpoint agraft_node (alloc : arena acont -> nat) (K : nat) (s : schema) (tf : aff) (L : ptree)
                     (a : arena acont) (p1 l : nat) {struct L} : option (arena acont) :=
  match L with
  | U => Some a
  | T f => add_child K a p1 l (mkcont (s_term s f tf) Indet) (alloc a)
  | D p ch =>
      let key := alloc a in
      obnd (add_child K a p1 l (mkcont (s_dec s p tf) Indet) key) (fun a1 =>
      (fix kids (chs : list ptree) (a : arena acont) (l : nat) {struct chs} : option (arena acont) :=
         match chs with
         | [] => Some a
         | c :: r => obnd (agraft_node alloc K s tf c a key l) (fun a' => kids r a' (S l))
         end) ch a1 0%nat)
  end.
Fixpoint agraft_kids (alloc : arena acont -> nat) (K : nat) (s : schema) (tf : aff) (chs : list ptree)
                     (a : arena acont) (p1 l : nat) : option (arena acont) :=
  match chs with
  | [] => Some a
  | c :: r => obnd (agraft_node alloc K s tf c a p1 l) (fun a' => agraft_kids alloc K s tf r a' p1 (S l))
  end.
Lemma agraft_node_D alloc K s tf p ch a p1 l :
  agraft_node alloc K s tf (D p ch) a p1 l =
  obnd (add_child K a p1 l (mkcont (s_dec s p tf) Indet) (alloc a))
       (fun a1 => agraft_kids alloc K s tf ch a1 (alloc a) 0).
Proof.
  cbn [agraft_node]. destruct (add_child K a p1 l (mkcont (s_dec s p tf) Indet) (alloc a)) as [a1|]; [|reflexivity].
  cbn [obnd]. generalize 0%nat. revert a1. induction ch as [|c r IH]; intros a0 l0; cbn [agraft_kids]; auto.
  destruct (agraft_node alloc K s tf c a0 (alloc a) l0); cbn [obnd]; auto.
Qed.

(* one terminal of rhs *)
Definition arena_compose_at (alloc : arena acont -> nat) (K : nat) (s : schema) (L : ptree) (a : arena acont) (i : nat)
  : option (arena acont) :=
  match aget a i with
  | None => None
  | Some c =>
      let tf := ac_aff (c_val c) in
      match L with
      | U => None
      | T f => update_fun a i (s_term s f tf)
      | D p ch => obnd (update_fun a i (s_dec s p tf)) (fun a1 => agraft_kids alloc K s tf ch a1 i 0)
      end
  end.
(* all terminals, in the order of terminal_indices() taken before the loop *)
Definition terminal_keys (a : arena acont) : list nat :=
  filter (fun i => match aget a i with Some c => c_leaf c | None => false end) (akeys a).
Fixpoint arena_compose_list (alloc : arena acont -> nat) (K : nat) (s : schema) (L : ptree) (ts : list nat) (a : arena acont)
  : option (arena acont) :=
  match ts with
  | [] => Some a
  | i :: r => obnd (arena_compose_at alloc K s L a i) (arena_compose_list alloc K s L r)
  end.
Definition arena_compose (alloc : arena acont -> nat) (K : nat) (s : schema) (L : ptree) (a : arena acont) : option (arena acont) :=
  arena_compose_list alloc K s L (terminal_keys a) a.

(* ---------------------------------------------------------------- the frame relation *)
(* a' extends a: every cell of a is still there, under the same index, with the same parent and arity, its
   children under the labels they had, its cached state; a decision keeps its value and stays a decision *)
Definition extends (a a' : arena acont) : Prop :=
  forall i c, aget a i = Some c ->
    exists c', aget a' i = Some c' /\
      c_parent c' = c_parent c /\ length (c_children c') = length (c_children c) /\
      (forall l j, nth_error (c_children c) l = Some (Some j) -> nth_error (c_children c') l = Some (Some j)) /\
      ac_state (c_val c') = ac_state (c_val c) /\
      (c_leaf c = false -> c_val c' = c_val c /\ c_leaf c' = false).

Lemma extends_refl a : extends a a.
Proof. intros i c H. exists c. repeat split; auto. Qed.
Lemma extends_trans a b c : extends a b -> extends b c -> extends a c.
Proof.
  intros H1 H2 i x Hx. destruct (H1 i x Hx) as [y [Hy [P1 [L1 [C1 [S1 D1]]]]]].
  destruct (H2 i y Hy) as [z [Hz [P2 [L2 [C2 [S2 D2]]]]]].
  exists z. split; [exact Hz|]. split; [congruence|]. split; [congruence|]. split; [auto|]. split; [congruence|].
  intros Hl. destruct (D1 Hl) as [V1 F1]. destruct (D2 F1) as [V2 F2]. split; congruence.
Qed.

(* update_node on a terminal *)
Lemma extends_update a i f a' c : aget a i = Some c -> c_leaf c = true -> update_fun a i f = Some a' -> extends a a'.
Proof.
  unfold update_fun. intros Hc Hl H. rewrite Hc in H. inversion H; subst a'. clear H.
  intros j x Hx. destruct (Nat.eq_dec i j) as [<-|Hn].
  - rewrite aget_aset_same. rewrite Hc in Hx. inversion Hx; subst x.
    eexists. split; [reflexivity|]. cbn. repeat split; auto; congruence.
  - rewrite aget_aset_other by exact Hn. exists x. repeat split; auto.
Qed.
(* add_child_node with a key the allocator hands out *)
Lemma extends_add_child K a p l v key a' : aget a key = None -> add_child K a p l v key = Some a' -> extends a a'.
Proof.
  unfold add_child. intros Hk H. destruct (aget a p) as [pc|] eqn:Ep; [|discriminate].
  destruct (nth_error (c_children pc) l) as [[j|]|] eqn:El; try discriminate. inversion H; subst a'. clear H.
  assert (Hkp : key <> p) by (intros ->; congruence).
  intros i x Hx. destruct (Nat.eq_dec p i) as [<-|Hn].
  - rewrite aget_aset_same. rewrite Ep in Hx. inversion Hx; subst x.
    eexists. split; [reflexivity|]. cbn. split; [reflexivity|]. split; [apply length_set_nth|].
    split; [|split; [reflexivity | auto]].
    intros l' j Hj. destruct (Nat.eq_dec l l') as [<-|Hl].
    + congruence.
    + rewrite nth_error_set_nth_other by exact Hl. exact Hj.
  - rewrite aget_aset_other by exact Hn.
    assert (Hki : key <> i) by (intros ->; congruence).
    rewrite aget_aset_other by exact Hki. exists x. repeat split; auto.
Qed.

Definition fresh_alloc (alloc : arena acont -> nat) : Prop := forall a, aget a (alloc a) = None.

Theorem agraft_node_extends alloc K s tf : fresh_alloc alloc ->
  forall L a p1 l a', agraft_node alloc K s tf L a p1 l = Some a' -> extends a a'.
Proof.
  intros Hf. induction L as [| f | p ch IH] using ptree_ind'; intros a p1 l a' H.
  - inversion H; subst. apply extends_refl.
  - cbn [agraft_node] in H. eapply extends_add_child; eauto.
  - rewrite agraft_node_D in H.
    destruct (add_child K a p1 l (mkcont (s_dec s p tf) Indet) (alloc a)) as [a1|] eqn:Ea; [|discriminate].
    cbn [obnd] in H. apply extends_trans with a1; [eapply extends_add_child; eauto|].
    clear Ea. revert a1 a' H. generalize 0%nat. generalize (alloc a). clear a.
    induction ch as [|c r IHr]; intros key l0 a1 a' H; cbn [agraft_kids] in H.
    + inversion H; subst. apply extends_refl.
    + apply Forall_cons_iff in IH as [IHc IHrest].
      destruct (agraft_node alloc K s tf c a1 key l0) as [a2|] eqn:E2; [|discriminate]. cbn [obnd] in H.
      apply extends_trans with a2; [eapply IHc; eauto | eapply IHr; eauto].
Qed.
Lemma agraft_kids_extends alloc K s tf : fresh_alloc alloc ->
  forall ch a p1 l a', agraft_kids alloc K s tf ch a p1 l = Some a' -> extends a a'.
Proof.
  intros Hf. induction ch as [|c r IH]; intros a p1 l a' H; cbn [agraft_kids] in H.
  - inversion H; subst. apply extends_refl.
  - destruct (agraft_node alloc K s tf c a p1 l) as [a2|] eqn:E2; [|discriminate]. cbn [obnd] in H.
    apply extends_trans with a2; [eapply agraft_node_extends; eauto | eapply IH; eauto].
Qed.

Theorem arena_compose_at_extends alloc K s L a i c a' : fresh_alloc alloc ->
  aget a i = Some c -> c_leaf c = true -> arena_compose_at alloc K s L a i = Some a' -> extends a a'.
Proof.
  intros Hf Hc Hl H. unfold arena_compose_at in H. rewrite Hc in H. destruct L as [| f | p ch]; [discriminate| |].
  - eapply extends_update; eauto.
  - destruct (update_fun a i (s_dec s p (ac_aff (c_val c)))) as [a1|] eqn:Eu; [|discriminate]. cbn [obnd] in H.
    apply extends_trans with a1; [eapply extends_update; eauto | eapply agraft_kids_extends; eauto].
Qed.

(* a terminal of the original arena that has not been processed yet is still a terminal of the current arena:
   extends keeps leaf-ness of ... (not in general: a leaf may become a decision) -- the composition only turns the
   terminal it is processing into a decision, every other old cell keeps its leaf flag *)
Definition keeps_other_leaves (a a' : arena acont) (i : nat) : Prop :=
  forall j c, j <> i -> aget a j = Some c -> exists c', aget a' j = Some c' /\ c_leaf c' = c_leaf c.

(* ---------------------------------------------------------------- nothing but the processed terminal and new cells is written *)
Definition untouched (a a' : arena acont) (p : nat) : Prop :=
  forall j c, j <> p -> aget a j = Some c -> aget a' j = Some c.
Lemma untouched_refl a p : untouched a a p.
Proof. intros j c _ H. exact H. Qed.
Lemma untouched_add_child K a p l v key a' : aget a key = None -> add_child K a p l v key = Some a' -> untouched a a' p.
Proof.
  unfold add_child. intros Hk H. destruct (aget a p) as [pc|] eqn:Ep; [|discriminate].
  destruct (nth_error (c_children pc) l) as [[j|]|]; try discriminate. inversion H; subst a'. clear H.
  intros j c Hj Hc. rewrite aget_aset_other by congruence.
  assert (key <> j) by (intros ->; congruence). rewrite aget_aset_other by assumption. exact Hc.
Qed.
Lemma add_child_key K a p l v key a' : add_child K a p l v key = Some a' -> key <> p -> exists c, aget a' key = Some c.
Proof.
  unfold add_child. intros H Hkp. destruct (aget a p) as [pc|]; [|discriminate].
  destruct (nth_error (c_children pc) l) as [[j|]|]; try discriminate. inversion H; subst a'.
  rewrite aget_aset_other by congruence. rewrite aget_aset_same. eauto.
Qed.

Theorem agraft_node_untouched alloc K s tf : fresh_alloc alloc ->
  forall L a p1 l a', agraft_node alloc K s tf L a p1 l = Some a' -> untouched a a' p1.
Proof.
  intros Hf. induction L as [| f | p ch IH] using ptree_ind'; intros a p1 l a' H.
  - inversion H; subst. apply untouched_refl.
  - cbn [agraft_node] in H. eapply untouched_add_child; eauto.
  - rewrite agraft_node_D in H.
    destruct (add_child K a p1 l (mkcont (s_dec s p tf) Indet) (alloc a)) as [a1|] eqn:Ea; [|discriminate].
    cbn [obnd] in H. pose proof (untouched_add_child _ _ _ _ _ _ _ (Hf a) Ea) as U1.
    intros j c Hj Hc. specialize (U1 j c Hj Hc).
    assert (Hjk : j <> alloc a) by (intros ->; rewrite (Hf a) in Hc; discriminate).
    clear Ea Hc. revert a1 a' H U1. generalize 0%nat.
    induction ch as [|c0 r IHr]; intros l0 a1 a' H U1; cbn [agraft_kids] in H.
    + inversion H; subst. exact U1.
    + apply Forall_cons_iff in IH as [IHc IHrest].
      destruct (agraft_node alloc K s tf c0 a1 (alloc a) l0) as [a2|] eqn:E2; [|discriminate]. cbn [obnd] in H.
      eapply (IHr IHrest); eauto. eapply IHc; eauto.
Qed.
Lemma agraft_kids_untouched alloc K s tf : fresh_alloc alloc ->
  forall ch a p1 l a', agraft_kids alloc K s tf ch a p1 l = Some a' -> untouched a a' p1.
Proof.
  intros Hf. induction ch as [|c r IH]; intros a p1 l a' H; cbn [agraft_kids] in H.
  - inversion H; subst. apply untouched_refl.
  - destruct (agraft_node alloc K s tf c a p1 l) as [a2|] eqn:E2; [|discriminate]. cbn [obnd] in H.
    intros j x Hj Hx. eapply IH; eauto. eapply agraft_node_untouched; eauto.
Qed.
Lemma arena_compose_at_untouched alloc K s L a i a' : fresh_alloc alloc ->
  arena_compose_at alloc K s L a i = Some a' -> untouched a a' i.
Proof.
  intros Hf H. unfold arena_compose_at in H. destruct (aget a i) as [c|] eqn:Ec; [|discriminate].
  assert (Uu : forall f a1, update_fun a i f = Some a1 -> untouched a a1 i).
  { intros f a1 Hu. unfold update_fun in Hu. rewrite Ec in Hu. inversion Hu; subst a1.
    intros j x Hj Hx. rewrite aget_aset_other by congruence. exact Hx. }
  destruct L as [| f | p ch]; [discriminate| eapply Uu; eauto |].
  destruct (update_fun a i (s_dec s p (ac_aff (c_val c)))) as [a1|] eqn:Eu; [|discriminate]. cbn [obnd] in H.
  intros j x Hj Hx. eapply agraft_kids_untouched; eauto. eapply Uu; eauto.
Qed.

(* ---------------------------------------------------------------- the whole composition *)
Theorem arena_compose_list_extends alloc K s L : fresh_alloc alloc ->
  forall ts a a', NoDup ts -> (forall i, In i ts -> exists c, aget a i = Some c /\ c_leaf c = true) ->
  arena_compose_list alloc K s L ts a = Some a' -> extends a a'.
Proof.
  intros Hf. induction ts as [|i r IH]; intros a a' Hnd Hts H; cbn [arena_compose_list] in H.
  - inversion H; subst. apply extends_refl.
  - destruct (arena_compose_at alloc K s L a i) as [a1|] eqn:E1; [|discriminate]. cbn [obnd] in H.
    destruct (Hts i (or_introl eq_refl)) as [c [Hc Hl]].
    apply extends_trans with a1; [eapply arena_compose_at_extends; eauto|].
    inversion Hnd as [|i' r' Hni Hndr]; subst.
    eapply IH; eauto. intros j Hj. destruct (Hts j (or_intror Hj)) as [cj [Hcj Hlj]].
    exists cj. split; [|exact Hlj]. eapply arena_compose_at_untouched; eauto. intros ->. contradiction.
Qed.

Lemma akeys_nodup {V} (a : arena V) : NoDup (akeys a).
Proof.
  unfold akeys. generalize 0%nat. induction a as [|o a IH]; intros k; cbn [length seq combine filter map].
  - constructor.
  - assert (Hlt : forall i, In i (map fst (filter (fun p : nat * option (cell V) => match snd p with Some _ => true | None => false end)
                                            (combine (seq (S k) (length a)) a))) -> (k < i)%nat).
    { intros i Hi. apply in_map_iff in Hi as [[i' o'] [E Hi]]. cbn in E. subst i'. apply filter_In in Hi as [Hi _].
      apply in_combine_l in Hi. apply in_seq in Hi. lia. }
    destruct o as [c|]; cbn [snd fst map].
    + constructor; [|apply IH]. intros Hin. specialize (Hlt k Hin). lia.
    + apply IH.
Qed.
Lemma terminal_keys_spec a i : In i (terminal_keys a) -> exists c, aget a i = Some c /\ c_leaf c = true.
Proof.
  unfold terminal_keys. intros H. apply filter_In in H as [_ H]. destruct (aget a i) as [c|]; [|discriminate]. eauto.
Qed.
Lemma terminal_keys_nodup a : NoDup (terminal_keys a).
Proof. unfold terminal_keys. apply NoDup_filter. apply akeys_nodup. Qed.

(* C02, frame clause: whatever fresh keys the allocator hands out, every node of the receiver survives the
   composition under its index, with its parent, its children under their labels, its cached state, and -- if it
   is a decision -- its value *)
Theorem arena_compose_extends alloc K s L a a' : fresh_alloc alloc -> arena_compose alloc K s L a = Some a' -> extends a a'.
Proof.
  intros Hf H. unfold arena_compose in H. eapply arena_compose_list_extends; eauto.
  - apply terminal_keys_nodup.
  - apply terminal_keys_spec.
Qed.

(* ---------------------------------------------------------------- non-vacuity: a run that returns Ok, and what it builds *)
Definition next_key (a : arena acont) : nat := length a.
Lemma next_key_fresh : fresh_alloc next_key.
Proof. intros a. unfold next_key, aget. rewrite (proj2 (nth_error_None a (length a))); auto. Qed.

Definition exa_f (a b : Qc) : aff := {| a_in := 1; a_mat := [[a]]; a_bias := [b] |}.
(* receiver: x <= 0 ? (label 1) 2x : (label 0) missing child at 0; a hole at key 1 (freed slot) *)
Definition exa_arena : arena acont :=
  [ Some (mkcell (mkcont (exa_f 1 0) Indet) None [None; Some 2%nat] false);
    None;
    Some (mkcell (mkcont (exa_f (1 + 1) 0) Feas) (Some 0%nat) [None; None] true) ].
Definition exa_L : ptree := D (exa_f 1 1) [T (exa_f 0 1); U].
Lemma exa_run :
  option_map (fun a' => (abs_at 5 a' 0%nat, map (fun o => option_map (fun c => (c_parent c, c_children c, c_leaf c, ac_state (c_val c))) o) a'))
             (arena_compose next_key 2%nat comp_schema exa_L exa_arena)
  = Some (Some (lift comp_schema (D (exa_f 1 0) [U; T (exa_f (1 + 1) 0)]) exa_L),
          [ Some (None, [None; Some 2%nat], false, Indet);
            None;
            Some (Some 0%nat, [Some 3%nat; None], false, Feas);
            Some (Some 2%nat, [None; None], true, Indet) ]).
Proof. vm_compute. reflexivity. Qed.

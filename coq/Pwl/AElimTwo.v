(* Pwl/AElimTwo.v -- the two phases of infeasible_elimination on ctrees: `elim2` follows the control flow of
   Elim.elim_sub and returns, besides elim_sub's result r, the tree u as it is when the traversal ends (nodes that
   were freshly classified infeasible are still there) and the to_remove queue (label, parent index) in push order.
   elim2_sub: its r-component IS elim_sub.  Shape facts used by the refinement proof. *)
From AT Require Import Num Vec Aff PTree Cells Abs Tree TreeLemmas Cache Elim ElimEval ElimCache AElim AElimBase.

Fixpoint elim2 (o : oracle) (tol : Qc) (isroot : bool) (q : rows) (st : nstate) (t : ctree) (k : cnt) {struct t}
  : ctree * ctree * cnt * list (nat * nat) :=
  match t with
  | CU => (CU, CU, k, [])
  | CN i leaf p _ c0 c1 =>
      if leaf then (CN i leaf p st c0 c1, CN i leaf p st c0 c1, k, []) else
      let q0 := q ++ [row0 p] in
      let q1 := q ++ [row1 p] in
      let '(u0, r0, k2, e0, fresh0) :=
        match c0 with
        | CU => (CU, CU, k, [], false)
        | _ =>
            let '(s0, k1, fr0, skip0) := visit o tol st q0 (row0 p) c0 k in
            if skip0 then (set_st s0 c0, set_st s0 c0, k1, (if fr0 then [(0%nat, i)] else []), fr0)
            else let '(u, r, k', e) := elim2 o tol false q0 s0 c0 k1 in (u, r, k', e, fr0)
        end in
      match c1 with
      | CU => (CN i leaf p st u0 CU, CN i leaf p st r0 CU, k2, e0)
      | _ =>
          let '(s1, k3, fr1, skip1) := visit o tol st q1 (row1 p) c1 k2 in
          let s0now := c_state u0 in
          let fwd := fr1 && c_exists u0 &&
                     ((is_feas s0now && is_infeas s1) || (is_infeas s0now && is_feas s1)) in
          let e1 := if fr1 && is_infeas s1 then [(1%nat, i)] else [] in
          if fwd then
            if is_feas s1 then
              let '(u1, r1, k4, e1') := elim2 o tol false q1 s1 c1 k3 in
              ((if isroot then CN i leaf p st CU u1 else u1), (if isroot then CN i leaf p st CU r1 else r1), k4, e0 ++ e1')
            else
              ((if isroot then CN i leaf p st u0 CU else u0), (if isroot then CN i leaf p st r0 CU else r0), k3, e0 ++ e1)
          else
            let '(u1, r1, k4, e1') :=
              if skip1 then (set_st s1 c1, set_st s1 c1, k3, []) else elim2 o tol false q1 s1 c1 k3 in
            let m0 := fresh0 && is_infeas (c_state u0) in
            let m1 := fr1 && is_infeas s1 in
            let slot0 := if m0 && c_exists r0 then CU else r0 in
            let slot1 := if m1 && c_exists slot0 then CU else r1 in
            (CN i leaf p st u0 u1, CN i leaf p st slot0 slot1, k4, e0 ++ e1 ++ e1')
      end
  end.

(* the child-0 step, named *)
Definition two_child0 (o : oracle) (tol : Qc) (i : nat) (st : nstate) (q0 : rows) (h : vec * Qc) (c0 : ctree) (k : cnt)
  : ctree * ctree * cnt * list (nat * nat) * bool :=
  match c0 with
  | CU => (CU, CU, k, [], false)
  | _ =>
      let '(s0, k1, fr0, skip0) := visit o tol st q0 h c0 k in
      if skip0 then (set_st s0 c0, set_st s0 c0, k1, (if fr0 then [(0%nat, i)] else []), fr0)
      else let '(u, r, k', e) := elim2 o tol false q0 s0 c0 k1 in (u, r, k', e, fr0)
  end.
Lemma elim2_unfold o tol isroot q st i p s' c0 c1 k :
  elim2 o tol isroot q st (CN i false p s' c0 c1) k =
  let q0 := q ++ [row0 p] in
  let q1 := q ++ [row1 p] in
  let '(u0, r0, k2, e0, fresh0) := two_child0 o tol i st q0 (row0 p) c0 k in
  match c1 with
  | CU => (CN i false p st u0 CU, CN i false p st r0 CU, k2, e0)
  | _ =>
      let '(s1, k3, fr1, skip1) := visit o tol st q1 (row1 p) c1 k2 in
      let s0now := c_state u0 in
      let fwd := fr1 && c_exists u0 &&
                 ((is_feas s0now && is_infeas s1) || (is_infeas s0now && is_feas s1)) in
      let e1 := if fr1 && is_infeas s1 then [(1%nat, i)] else [] in
      if fwd then
        if is_feas s1 then
          let '(u1, r1, k4, e1') := elim2 o tol false q1 s1 c1 k3 in
          ((if isroot then CN i false p st CU u1 else u1), (if isroot then CN i false p st CU r1 else r1), k4, e0 ++ e1')
        else
          ((if isroot then CN i false p st u0 CU else u0), (if isroot then CN i false p st r0 CU else r0), k3, e0 ++ e1)
      else
        let '(u1, r1, k4, e1') :=
          if skip1 then (set_st s1 c1, set_st s1 c1, k3, []) else elim2 o tol false q1 s1 c1 k3 in
        let m0 := fresh0 && is_infeas (c_state u0) in
        let m1 := fr1 && is_infeas s1 in
        let slot0 := if m0 && c_exists r0 then CU else r0 in
        let slot1 := if m1 && c_exists slot0 then CU else r1 in
        (CN i false p st u0 u1, CN i false p st slot0 slot1, k4, e0 ++ e1 ++ e1')
  end.
Proof. reflexivity. Qed.

Definition u_of (x : ctree * ctree * cnt * list (nat * nat)) : ctree := fst (fst (fst x)).
Definition r_of (x : ctree * ctree * cnt * list (nat * nat)) : ctree := snd (fst (fst x)).
Definition k_of (x : ctree * ctree * cnt * list (nat * nat)) : cnt := snd (fst x).
Definition e_of (x : ctree * ctree * cnt * list (nat * nat)) : list (nat * nat) := snd x.

(* ---------------------------------------------------------------- the r-component is elim_sub *)
Lemma cidx_set_st s t : cidx (set_st s t) = cidx t.
Proof. destruct t; reflexivity. Qed.
Lemma idxs_set_st s t : idxs (set_st s t) = idxs t.
Proof. destruct t; reflexivity. Qed.

Theorem elim2_sub o tol : forall t isroot q st k u r k' es,
  elim2 o tol isroot q st t k = (u, r, k', es) ->
  elim_sub o tol isroot q st t k = (r, k') /\ c_state r = c_state u /\ cidx r = cidx u.
Proof.
  induction t as [|i leaf p s' c0 IH0 c1 IH1]; intros isroot q st k u r k' es H.
  - cbn in H. inversion H; subst. auto.
  - destruct leaf; [cbn in H; inversion H; subst; auto|].
    rewrite elim2_unfold in H. rewrite elim_sub_unfold. cbv zeta in *.
    (* child 0 *)
    assert (C0 : forall u0 r0 k2 e0 f0, two_child0 o tol i st (q ++ [row0 p]) (row0 p) c0 k = (u0, r0, k2, e0, f0) ->
                 do_child0 o tol st (q ++ [row0 p]) (row0 p) c0 k = (r0, k2, f0) /\
                 c_state r0 = c_state u0 /\ cidx r0 = cidx u0).
    { intros u0 r0 k2 e0 f0 E. unfold two_child0 in E. unfold do_child0.
      destruct c0 as [|j0 l0 p0 s0' a0 b0]; [inversion E; subst; auto|].
      destruct (visit o tol st (q ++ [row0 p]) (row0 p) (CN j0 l0 p0 s0' a0 b0) k) as [[[s0 k1] fr0] skip0].
      destruct skip0; [inversion E; subst; auto|].
      destruct (elim2 o tol false (q ++ [row0 p]) s0 (CN j0 l0 p0 s0' a0 b0) k1) as [[[u' r'] k''] e'] eqn:E2.
      inversion E; subst. destruct (IH0 _ _ _ _ _ _ _ _ E2) as [I1 [I2 I3]]. rewrite I1. auto. }
    destruct (two_child0 o tol i st (q ++ [row0 p]) (row0 p) c0 k) as [[[[u0 r0] k2] e0] fresh0] eqn:E0.
    destruct (C0 _ _ _ _ _ eq_refl) as [D0 [S0 X0]]. rewrite D0. clear C0.
    assert (Ex0 : c_exists r0 = c_exists u0) by (destruct r0, u0; cbn in X0 |- *; congruence).
    destruct c1 as [|j1 l1 p1 s1' a1 b1]; [inversion H; subst; auto|].
    destruct (visit o tol st (q ++ [row1 p]) (row1 p) (CN j1 l1 p1 s1' a1 b1) k2) as [[[s1 k3] fr1] skip1].
    rewrite S0, Ex0.
    destruct (fr1 && c_exists u0 && (is_feas (c_state u0) && is_infeas s1 || is_infeas (c_state u0) && is_feas s1)).
    + destruct (is_feas s1).
      * destruct (elim2 o tol false (q ++ [row1 p]) s1 (CN j1 l1 p1 s1' a1 b1) k3) as [[[u1 r1] k4] e1'] eqn:E1.
        destruct (IH1 _ _ _ _ _ _ _ _ E1) as [I1 [I2 I3]]. rewrite I1.
        destruct isroot; inversion H; subst; auto.
      * destruct isroot; inversion H; subst; auto.
    + destruct skip1.
      * inversion H; subst. rewrite Ex0. auto.
      * destruct (elim2 o tol false (q ++ [row1 p]) s1 (CN j1 l1 p1 s1' a1 b1) k3) as [[[u1 r1] k4] e1'] eqn:E1.
        destruct (IH1 _ _ _ _ _ _ _ _ E1) as [I1 [I2 I3]]. rewrite I1.
        inversion H; subst. rewrite Ex0. auto.
Qed.

Corollary elim2_elim o tol t : elim o tol t = (r_of (elim2 o tol true [] (c_state t) t k0), k_of (elim2 o tol true [] (c_state t) t k0)).
Proof.
  unfold elim. destruct (elim2 o tol true [] (c_state t) t k0) as [[[u r] k'] es] eqn:E.
  destruct (elim2_sub o tol _ _ _ _ _ _ _ _ _ E) as [H _]. exact H.
Qed.

(* ---------------------------------------------------------------- shape: indices only disappear *)
Definition sub_idx (u t : ctree) : Prop := incl (idxs u) (idxs t) /\ (NoDup (idxs t) -> NoDup (idxs u)).
Lemma sub_idx_refl t : sub_idx t t.
Proof. split; [apply incl_refl | auto]. Qed.
Lemma sub_idx_trans r u t : sub_idx r u -> sub_idx u t -> sub_idx r t.
Proof. intros [I1 N1] [I2 N2]. split; [eapply incl_tran; eauto | auto]. Qed.
Lemma sub_idx_CU t : sub_idx CU t.
Proof. split; [intros x [] | intros _; constructor]. Qed.
Lemma sub_idx_set_st s t : sub_idx (set_st s t) t.
Proof. unfold sub_idx. rewrite idxs_set_st. apply sub_idx_refl. Qed.
Lemma sub_idx_cn i l f s l' f' s' u0 u1 c0 c1 : sub_idx u0 c0 -> sub_idx u1 c1 ->
  sub_idx (CN i l f s u0 u1) (CN i l' f' s' c0 c1).
Proof.
  intros [I0 N0] [I1 N1]. split.
  - cbn [idxs]. intros x [<-|Hx]; [left; reflexivity|]. right. apply in_app_or in Hx. apply in_or_app. destruct Hx; auto.
  - cbn [idxs]. intros H. destruct (nodup_cn _ _ _ H) as [A0 [A1 [B0 [B1 D]]]]. constructor.
    + intros C. apply in_app_or in C as [C|C]; auto.
    + apply nodup_app_intro; auto. intros x X0 X1. exact (D x (I0 x X0) (I1 x X1)).
Qed.
Lemma sub_idx_left i l f s u0 c0 c1 : sub_idx u0 c0 -> sub_idx u0 (CN i l f s c0 c1).
Proof.
  intros [I0 N0]. split.
  - cbn [idxs]. intros x Hx. right. apply in_or_app. auto.
  - cbn [idxs]. intros H. destruct (nodup_cn _ _ _ H) as [A0 [A1 [B0 [B1 D]]]]. auto.
Qed.
Lemma sub_idx_right i l f s u1 c0 c1 : sub_idx u1 c1 -> sub_idx u1 (CN i l f s c0 c1).
Proof.
  intros [I1 N1]. split.
  - cbn [idxs]. intros x Hx. right. apply in_or_app. auto.
  - cbn [idxs]. intros H. destruct (nodup_cn _ _ _ H) as [A0 [A1 [B0 [B1 D]]]]. auto.
Qed.

Lemma c_exists_cidx a b : cidx a = cidx b -> c_exists a = c_exists b.
Proof. destruct a, b; cbn; congruence. Qed.

Theorem elim2_shape o tol : forall t isroot q st k u r k' es,
  elim2 o tol isroot q st t k = (u, r, k', es) ->
  sub_idx u t /\ sub_idx r u /\ (forall l n, In (l, n) es -> In n (idxs t)) /\ (c_exists t = true -> c_exists u = true).
Proof.
  induction t as [|i leaf p s' c0 IH0 c1 IH1]; intros isroot q st k u r k' es H.
  - cbn in H. inversion H; subst. split; [apply sub_idx_refl|]. split; [apply sub_idx_refl|]. split; [intros l n []|auto].
  - destruct leaf.
    { cbn in H; inversion H; subst. split; [apply sub_idx_cn; apply sub_idx_refl|]. split; [apply sub_idx_refl|].
      split; [intros l n []|auto]. }
    rewrite elim2_unfold in H. cbv zeta in H.
    assert (C0 : forall u0 r0 k2 e0 f0, two_child0 o tol i st (q ++ [row0 p]) (row0 p) c0 k = (u0, r0, k2, e0, f0) ->
                 sub_idx u0 c0 /\ sub_idx r0 u0 /\ (forall l n, In (l, n) e0 -> n = i \/ In n (idxs c0))).
    { intros u0 r0 k2 e0 f0 E. unfold two_child0 in E.
      destruct c0 as [|j0 l0 p0 s0' a0 b0].
      { inversion E; subst. split; [apply sub_idx_refl|]. split; [apply sub_idx_refl|]. intros l n []. }
      destruct (visit o tol st (q ++ [row0 p]) (row0 p) (CN j0 l0 p0 s0' a0 b0) k) as [[[s0 k1] fr0] skip0].
      destruct skip0.
      - inversion E; subst. split; [apply sub_idx_cn; apply sub_idx_refl|]. split; [apply sub_idx_refl|].
        intros l n Hn. destruct f0; [destruct Hn as [Hn|[]]; inversion Hn; auto | destruct Hn].
      - destruct (elim2 o tol false (q ++ [row0 p]) s0 (CN j0 l0 p0 s0' a0 b0) k1) as [[[u' r'] k''] e'] eqn:E2.
        inversion E; subst. destruct (IH0 _ _ _ _ _ _ _ _ E2) as [I1 [I2 [I3 _]]]. split; [exact I1|]. split; [exact I2|].
        intros l n Hn. right. eapply I3; eauto. }
    destruct (two_child0 o tol i st (q ++ [row0 p]) (row0 p) c0 k) as [[[[u0 r0] k2] e0] fresh0] eqn:E0.
    destruct (C0 _ _ _ _ _ eq_refl) as [SU0 [SR0 EN0]]. clear C0.
    assert (EN0' : forall l n, In (l, n) e0 -> In n (idxs (CN i false p s' c0 c1))).
    { intros l n Hn. cbn [idxs]. destruct (EN0 l n Hn) as [->|Hc]; [left; reflexivity | right; apply in_or_app; auto]. }
    destruct c1 as [|j1 l1 p1 s1' a1 b1].
    { inversion H; subst. split; [apply sub_idx_cn; [exact SU0 | apply sub_idx_refl]|].
      split; [apply sub_idx_cn; [exact SR0 | apply sub_idx_refl]|]. split; [exact EN0' | reflexivity]. }
    set (c1 := CN j1 l1 p1 s1' a1 b1) in *.
    destruct (visit o tol st (q ++ [row1 p]) (row1 p) c1 k2) as [[[s1 k3] fr1] skip1].
    assert (EN1 : forall l n, In (l, n) (if fr1 && is_infeas s1 then [(1%nat, i)] else []) -> In n (idxs (CN i false p s' c0 c1))).
    { intros l n Hn. destruct (fr1 && is_infeas s1); [destruct Hn as [Hn|[]]; inversion Hn; left; reflexivity | destruct Hn]. }
    assert (ENC1 : forall l n (e : list (nat * nat)), (forall l n, In (l, n) e -> In n (idxs c1)) -> In (l, n) e -> In n (idxs (CN i false p s' c0 c1))).
    { intros l n e He Hn. cbn [idxs]. right. apply in_or_app. right. eapply He; eauto. }
    destruct (fr1 && c_exists u0 && (is_feas (c_state u0) && is_infeas s1 || is_infeas (c_state u0) && is_feas s1)) eqn:Efwd.
    + destruct (is_feas s1).
      * destruct (elim2 o tol false (q ++ [row1 p]) s1 c1 k3) as [[[u1 r1] k4] e1'] eqn:E1.
        destruct (IH1 _ _ _ _ _ _ _ _ E1) as [I1 [I2 [I3 I4]]].
        destruct isroot; inversion H; subst.
        -- split; [apply sub_idx_cn; [apply sub_idx_CU | exact I1]|].
           split; [apply sub_idx_cn; [apply sub_idx_CU | exact I2]|]. split; [|reflexivity].
           intros l n Hn. apply in_app_or in Hn as [Hn|Hn]; [eauto | eapply ENC1; eauto].
        -- split; [apply sub_idx_right; exact I1|]. split; [exact I2|]. split; [|intros _; apply I4; reflexivity].
           intros l n Hn. apply in_app_or in Hn as [Hn|Hn]; [eauto | eapply ENC1; eauto].
      * assert (Hex : c_exists u0 = true).
        { apply andb_true_iff in Efwd as [Ef _]. apply andb_true_iff in Ef as [_ Ef]. exact Ef. }
        destruct isroot; inversion H; subst.
        -- split; [apply sub_idx_cn; [exact SU0 | apply sub_idx_CU]|].
           split; [apply sub_idx_cn; [exact SR0 | apply sub_idx_CU]|]. split; [|reflexivity].
           intros l n Hn. apply in_app_or in Hn as [Hn|Hn]; eauto.
        -- split; [apply sub_idx_left; exact SU0|]. split; [exact SR0|]. split; [|intros _; exact Hex].
           intros l n Hn. apply in_app_or in Hn as [Hn|Hn]; eauto.
    + assert (K1 : forall u1 r1 k4 e1',
               (if skip1 then (set_st s1 c1, set_st s1 c1, k3, []) else elim2 o tol false (q ++ [row1 p]) s1 c1 k3) = (u1, r1, k4, e1') ->
               sub_idx u1 c1 /\ sub_idx r1 u1 /\ (forall l n, In (l, n) e1' -> In n (idxs c1))).
      { intros u1 r1 k4 e1' E. destruct skip1.
        - inversion E; subst. split; [exact (sub_idx_set_st s1 c1)|]. split; [apply sub_idx_refl|]. intros l n [].
        - destruct (IH1 _ _ _ _ _ _ _ _ E) as [I1 [I2 [I3 _]]]. auto. }
      destruct (if skip1 then (set_st s1 c1, set_st s1 c1, k3, []) else elim2 o tol false (q ++ [row1 p]) s1 c1 k3)
        as [[[u1 r1] k4] e1'] eqn:E1.
      destruct (K1 _ _ _ _ eq_refl) as [SU1 [SR1 EN1']]. clear K1.
      inversion H; subst. split; [apply sub_idx_cn; assumption|]. split; [|split; [|reflexivity]].
      * apply sub_idx_cn.
        -- destruct (fresh0 && is_infeas (c_state u0) && c_exists r0); [apply sub_idx_CU | exact SR0].
        -- destruct (fr1 && is_infeas s1 && c_exists (if fresh0 && is_infeas (c_state u0) && c_exists r0 then CU else r0));
             [apply sub_idx_CU | exact SR1].
      * intros l n Hn. apply in_app_or in Hn as [Hn|Hn]; [eauto|]. apply in_app_or in Hn as [Hn|Hn]; [eauto | eapply ENC1; eauto].
Qed.

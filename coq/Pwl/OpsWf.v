(* Pwl/OpsWf.v -- C04: the operations that do not prune, on arena-shaped trees: maps over the terminals
   (apply_func, negation, tree (op) affine in both orders), generic_composition_inplace without pruning
   (compose::<false>), reduce.  Each with its well-formedness lemma and the link to the ptree operation
   (PTree.apply_func / Ops.map_terms / PTree.lift / Reduce.reduce) through erase. *)
From AT Require Import Num Vec Aff PTree Ops Cells Abs Cache Reduce Elim CPrune WfC CPruneWf.

(* ---- maps over the terminals (AffTree::apply_func, unary_op_inplace) ---- *)
Fixpoint cmap_terms (h : aff -> aff) (t : ctree) : ctree :=
  match t with
  | CU => CU
  | CN i leaf f st c0 c1 =>
      if leaf then CN i leaf (h f) st c0 c1 else CN i leaf f st (cmap_terms h c0) (cmap_terms h c1)
  end.
Definition capply_func (a : aff) : ctree -> ctree := cmap_terms (acompose a).
Definition cneg : ctree -> ctree := cmap_terms aneg.
Definition cop_r (fo : Qc -> Qc -> Qc) (g : aff) : ctree -> ctree := cmap_terms (fun f => aop fo f g).  (* tree (op) g *)
Definition cop_l (fo : Qc -> Qc -> Qc) (g : aff) : ctree -> ctree := cmap_terms (fun f => aop fo g f).  (* g (op) tree *)

Lemma c_exists_cmap h t : c_exists (cmap_terms h t) = c_exists t.
Proof. destruct t as [|i [|] f st c0 c1]; reflexivity. Qed.
Theorem cmap_terms_cwf n m m' h t :
  (forall f, wf_aff f -> a_in f = n -> outdim f = m -> wf_aff (h f) /\ a_in (h f) = n /\ outdim (h f) = m') ->
  cwf n m t -> cwf n m' (cmap_terms h t).
Proof.
  intros Hh. induction 1 as [| i f st Hw Hi Ho | i p st c0 c1 Hw Hi Ho He H0 IH0 H1 IH1]; cbn [cmap_terms].
  - constructor.
  - destruct (Hh f Hw Hi Ho) as [A [B C]]. constructor; auto.
  - constructor; auto. rewrite !c_exists_cmap. exact He.
Qed.
Lemma erase_cmap h t : erase (cmap_terms h t) = map_terms h (erase t).
Proof.
  induction t as [|i leaf f st c0 IH0 c1 IH1]; cbn [cmap_terms erase map_terms]; auto.
  destruct leaf; cbn [erase map_terms map]; congruence.
Qed.
Lemma erase_capply_func a t : erase (capply_func a t) = apply_func a (erase t).
Proof.
  unfold capply_func. induction t as [|i leaf f st c0 IH0 c1 IH1]; cbn [cmap_terms erase apply_func]; auto.
  destruct leaf; cbn [erase apply_func map]; congruence.
Qed.

Lemma wf_aneg f : wf_aff f -> wf_aff (aneg f) /\ a_in (aneg f) = a_in f /\ outdim (aneg f) = outdim f.
Proof.
  intros [Hc Hl]. unfold wf_aff, aneg, outdim, mopp. cbn [a_in a_mat a_bias]. rewrite map_length, length_vopp.
  repeat split; auto. unfold cols in *. rewrite Forall_map. eapply Forall_impl; [|exact Hc].
  intros r Hr. cbn. rewrite length_vopp. exact Hr.
Qed.
Lemma outdim_aop fo f g : outdim f = outdim g -> outdim (aop fo f g) = outdim f.
Proof. unfold outdim, aop. cbn [a_mat]. rewrite mzip_length. lia. Qed.

Theorem capply_func_cwft n m a t : wf_aff a -> a_in a = m -> cwft n m t -> cwft n (outdim a) (capply_func a t).
Proof.
  intros Ha Hi [He Hw]. split; [unfold capply_func; rewrite c_exists_cmap; exact He|].
  apply cmap_terms_cwf with (m := m); auto. intros f Hf Hfi Hfo.
  split; [apply wf_acompose; auto; congruence | split; [exact Hfi | apply outdim_acompose]].
Qed.
Theorem cneg_cwft n m t : cwft n m t -> cwft n m (cneg t).
Proof.
  intros [He Hw]. split; [unfold cneg; rewrite c_exists_cmap; exact He|].
  apply cmap_terms_cwf with (m := m); auto. intros f Hf Hfi Hfo.
  destruct (wf_aneg f Hf) as [A [B C]]. repeat split; try apply A; congruence.
Qed.
Theorem cop_r_cwft fo n m g t : wf_aff g -> a_in g = n -> outdim g = m -> cwft n m t -> cwft n m (cop_r fo g t).
Proof.
  intros Hg Hgi Hgo [He Hw]. split; [unfold cop_r; rewrite c_exists_cmap; exact He|].
  apply cmap_terms_cwf with (m := m); auto. intros f Hf Hfi Hfo.
  split; [apply wf_aop; auto; split; congruence | split; [exact Hfi | rewrite outdim_aop; congruence]].
Qed.
Theorem cop_l_cwft fo n m g t : wf_aff g -> a_in g = n -> outdim g = m -> cwft n m t -> cwft n m (cop_l fo g t).
Proof.
  intros Hg Hgi Hgo [He Hw]. split; [unfold cop_l; rewrite c_exists_cmap; exact He|].
  apply cmap_terms_cwf with (m := m); auto. intros f Hf Hfi Hfo.
  split; [apply wf_aop; auto; split; congruence | split; [exact Hgi | rewrite outdim_aop; congruence]].
Qed.

(* ---- generic_composition_inplace with explore = true (FunctionComposition): nothing is tested, removed or merged ---- *)
(* new nodes get the dummy arena index 1: any non-zero value, because index 0 is the root's index in every AffTree
   and is_edge_feasible treats edges below index 0 specially (CPrune.cprune: top := Nat.eqb i 0); the node that
   receives the root of L keeps its index i *)
Fixpoint cgraft (s : schema) (tf : aff) (L : ptree) (st : nstate) (i : nat) {struct L} : ctree :=
  match L with
  | U => CU
  | T f => CN i true (s_term s f tf) st CU CU
  | D p (l0 :: l1 :: nil) => CN i false (s_dec s p tf) st (cgraft s tf l0 Indet 1) (cgraft s tf l1 Indet 1)
  | D p _ => CU   (* not a binary decision: outside the model *)
  end.
Fixpoint clift (s : schema) (L : ptree) (t : ctree) : ctree :=
  match t with
  | CU => CU
  | CN i leaf f st c0 c1 =>
      if leaf then cgraft s f L st i else CN i leaf f st (clift s L c0) (clift s L c1)
  end.
Definition ccompose (t : ctree) (L : ptree) : ctree := clift comp_schema L t.

Theorem cgraft_cwf s tf kk mL n m : schema_ok s tf kk mL n m ->
  forall L st i, pwf kk mL L -> cwf n m (cgraft s tf L st i) /\ c_exists (cgraft s tf L st i) = pexists L.
Proof.
  intros [Hdec Hterm]. induction L as [| f | p ch IH] using ptree_ind'; intros st i HL.
  - cbn [cgraft]. split; [constructor | reflexivity].
  - cbn [cgraft]. apply pwf_T in HL as [Hw [Hi Ho]]. destruct (Hterm f Hw Hi Ho) as [A [B C]].
    split; [constructor; auto | reflexivity].
  - destruct HL as [HLw [HLo [HLb HLs]]].
    inversion HLs as [| | p' l0 l1 He Hs0 Hs1]; subst p' ch.
    assert (HL : pwf kk mL (D p [l0; l1])) by (repeat split; auto).
    apply pwf_D in HL as [Hp [Hi [Ho [_ [P0 P1]]]]].
    apply Forall_cons_iff in IH as [IH0 IH]. apply Forall_cons_iff in IH as [IH1 _].
    destruct (Hdec p Hp Hi Ho) as [A [B C]].
    destruct (IH0 Indet 1%nat P0) as [W0 X0]. destruct (IH1 Indet 1%nat P1) as [W1 X1].
    cbn [cgraft]. split; [ | reflexivity]. constructor; auto. rewrite X0, X1. exact He.
Qed.
Theorem clift_cwf s L kk mL n m m' :
  (forall tf, wf_aff tf -> a_in tf = n -> outdim tf = m -> schema_ok s tf kk mL n m') ->
  pwf kk mL L -> pexists L = true ->
  forall t, cwf n m t -> cwf n m' (clift s L t) /\ c_exists (clift s L t) = c_exists t.
Proof.
  intros Hs HL HeL. induction t as [|i leaf f st c0 IH0 c1 IH1]; intros Hw; cbn [clift].
  - split; [constructor | reflexivity].
  - destruct leaf.
    + inversion Hw as [| i' f' st' Hf Hi Ho | ]; subst i' f' st'.
      destruct (cgraft_cwf s f kk mL n m' (Hs f Hf Hi Ho) L st i HL) as [W X].
      split; [exact W | rewrite X; exact HeL].
    + inversion Hw as [| | i' p' st' a b Hp Hi Ho He H0 H1]; subst i' p' st' a b.
      destruct (IH0 H0) as [W0 X0]. destruct (IH1 H1) as [W1 X1].
      split; [ | reflexivity]. constructor; auto. rewrite X0, X1. exact He.
Qed.
Theorem ccompose_cwft n m m' t L :
  cwft n m t -> pwf m m' L -> pexists L = true -> cwft n m' (ccompose t L).
Proof.
  intros [He Hw] HL HeL. unfold ccompose.
  destruct (clift_cwf comp_schema L m m' n m m') with (t := t) as [W X]; auto.
  - intros tf Hf Hi Ho. subst n m. apply comp_schema_ok; auto.
  - split; [rewrite X; exact He | exact W].
Qed.
Theorem clift_op_cwft fo n m t L :
  cwft n m t -> pwf n m L -> pexists L = true -> cwft n m (clift (op_schema fo) L t).
Proof.
  intros [He Hw] HL HeL.
  destruct (clift_cwf (op_schema fo) L n m n m m) with (t := t) as [W X]; auto.
  - intros tf Hf Hi Ho. subst n m. apply op_schema_ok; auto.
  - split; [rewrite X; exact He | exact W].
Qed.

(* link to PTree.lift: the arena-shaped result denotes the lifted ptree (C02 / C07 speak about it) *)
Lemma erase_cgraft s tf L st i : pshape L -> erase (cgraft s tf L st i) = graft s L tf.
Proof.
  intros H. revert st i. induction H as [| f | p l0 l1 He H0 IH0 H1 IH1]; intros st i; cbn [cgraft erase graft map]; auto.
  rewrite IH0, IH1. reflexivity.
Qed.
Theorem erase_clift s L t : pshape L -> erase (clift s L t) = lift s (erase t) L.
Proof.
  intros HL. induction t as [|i leaf f st c0 IH0 c1 IH1]; cbn [clift erase lift]; auto.
  destruct leaf; cbn [erase lift map].
  - apply erase_cgraft; auto.
  - rewrite IH0, IH1. reflexivity.
Qed.
Corollary erase_ccompose t L : pshape L -> erase (ccompose t L) = compose (erase t) L.
Proof. apply erase_clift. Qed.

(* ---- reduce (impl_reduction.rs): bottom-up, terminal-ness judged by the child count as the code does;
        the merged decision is replaced by its child 0 (remove_child(.., 1); merge_child_with_parent(.., 0)) ---- *)
Definition childless (t : ctree) : bool :=
  match t with CN _ _ _ _ CU CU => true | _ => false end.
Definition c_fun (t : ctree) : option aff := match t with CU => None | CN _ _ f _ _ _ => Some f end.
Fixpoint creduce_in (t : ctree) : ctree :=
  match t with
  | CU => CU
  | CN i leaf f st c0 c1 =>
      let c0' := creduce_in c0 in
      let c1' := creduce_in c1 in
      match c_fun c0', c_fun c1' with
      | Some f0, Some f1 =>
          if childless c0' && childless c1' && aff_eqb f0 f1 then c0' else CN i leaf f st c0' c1'
      | _, _ => CN i leaf f st c0' c1'
      end
  end.
(* the root itself is never merged *)
Definition creduce (t : ctree) : ctree :=
  match t with CU => CU | CN i leaf f st c0 c1 => CN i leaf f st (creduce_in c0) (creduce_in c1) end.

Lemma creduce_in_exists t : c_exists (creduce_in t) = c_exists t.
Proof.
  destruct t as [|i leaf f st c0 c1]; cbn [creduce_in]; auto.
  destruct (creduce_in c0) as [|i0 l0 f0 s0 a0 b0] eqn:E0; cbn [c_fun]; auto.
  destruct (creduce_in c1) as [|i1 l1 f1 s1 a1 b1] eqn:E1; cbn [c_fun]; auto.
  destruct (childless _ && childless _ && aff_eqb f0 f1); reflexivity.
Qed.
Theorem creduce_in_cwf n m t : cwf n m t -> cwf n m (creduce_in t).
Proof.
  induction 1 as [| i f st Hw Hi Ho | i p st c0 c1 Hw Hi Ho He H0 IH0 H1 IH1]; cbn [creduce_in c_fun].
  - constructor.
  - constructor; auto.
  - assert (HD : cwf n m (CN i false p st (creduce_in c0) (creduce_in c1))).
    { constructor; auto. rewrite !creduce_in_exists. exact He. }
    destruct (creduce_in c0) as [|i0 l0 f0 s0 a0 b0]; cbn [c_fun]; auto.
    destruct (creduce_in c1) as [|i1 l1 f1 s1 a1 b1]; cbn [c_fun]; auto.
    destruct (childless _ && childless _ && aff_eqb f0 f1); auto.
Qed.
Theorem creduce_cwft n m t : cwft n m t -> cwft n m (creduce t).
Proof.
  intros [He Hw]. destruct Hw as [| i f st Hw Hi Ho | i p st c0 c1 Hw Hi Ho Hex H0 H1]; cbn [creduce].
  - discriminate.
  - split; [reflexivity | constructor; auto].
  - split; [reflexivity|]. constructor; auto using creduce_in_cwf. rewrite !creduce_in_exists. exact Hex.
Qed.

(* on well-formed trees this is Reduce.reduce of the denoted ptree *)
Lemma childless_cwf n m t : cwf n m t -> childless t = true -> exists i f st, t = CN i true f st CU CU.
Proof.
  destruct 1 as [| i f st Hw Hi Ho | i p st c0 c1 Hw Hi Ho He H0 H1]; cbn [childless]; try discriminate.
  - intros _. eauto.
  - destruct c0; try discriminate. destruct c1; discriminate.
Qed.
Lemma childless_D i l p s a b : c_exists a || c_exists b = true -> childless (CN i l p s a b) = false.
Proof. intros H. destruct a, b; try reflexivity; discriminate. Qed.
Lemma erase_creduce_in n m t : cwf n m t -> erase (creduce_in t) = reduce_in (erase t).
Proof.
  induction 1 as [| i f st Hw Hi Ho | i p st c0 c1 Hw Hi Ho He H0 IH0 H1 IH1]; cbn [creduce_in erase reduce_in c_fun]; auto.
  cbv zeta. cbn [map]. rewrite <- IH0, <- IH1.
  pose proof (creduce_in_cwf n m c0 H0) as W0. pose proof (creduce_in_cwf n m c1 H1) as W1.
  destruct W0 as [| i0 f0 s0 Hw0 Hi0 Ho0 | i0 p0 s0 a0 b0 Hw0 Hi0 Ho0 He0 Ha0 Hb0]; cbn [c_fun erase]; auto.
  - destruct W1 as [| i1 f1 s1 Hw1 Hi1 Ho1 | i1 p1 s1 a1 b1 Hw1 Hi1 Ho1 He1 Ha1 Hb1]; cbn [c_fun erase]; auto.
    + cbn [childless andb]. destruct (aff_eqb f0 f1); reflexivity.
    + rewrite (childless_D i1 false p1 s1 a1 b1 He1), andb_false_r. reflexivity.
  - destruct W1 as [| i1 f1 s1 Hw1 Hi1 Ho1 | i1 p1 s1 a1 b1 Hw1 Hi1 Ho1 He1 Ha1 Hb1]; cbn [c_fun erase]; auto;
      rewrite (childless_D i0 false p0 s0 a0 b0 He0); reflexivity.
Qed.
Theorem erase_creduce n m t : cwf n m t -> erase (creduce t) = reduce (erase t).
Proof.
  destruct 1 as [| i f st Hw Hi Ho | i p st c0 c1 Hw Hi Ho He H0 H1]; cbn [creduce erase reduce map]; auto.
  rewrite (erase_creduce_in n m c0 H0), (erase_creduce_in n m c1 H1). reflexivity.
Qed.

(* the arena-shaped operations denote the ptree operations the function-level properties (C02, C07, C08) speak about *)
Theorem ops_denote :
  (forall a t, erase (capply_func a t) = apply_func a (erase t)) /\
  (forall h t, erase (cmap_terms h t) = map_terms h (erase t)) /\
  (forall s L t, pshape L -> erase (clift s L t) = lift s (erase t) L) /\
  (forall n m t, cwf n m t -> erase (creduce t) = reduce (erase t)).
Proof.
  split; [exact erase_capply_func | split; [exact erase_cmap | split; [exact erase_clift | exact erase_creduce]]].
Qed.

(* Pwl/ArenaHistoryEx.v -- non-vacuity of Pwl/ArenaHistory.v: the five-cell arena of AElimExample (the tree of
   C03_nonvacuous) meets the invariant (executable check ainvb); the history apply_func(x) ; infeasible_elimination
   (certified query-keyed oracle ex_o) ; compose::<true>(y <= 1 ? .. : ..) (replay oracle that ignores the call number)
   runs on the arena-level machines; after the first two steps the arena holds exactly the structural result, after the
   pruned composition a tree of its shape. *)
From AT Require Import Num Vec Aff PTree Ops Cells Abs Tree Cache Elim ElimEval ElimExample CPrune History.
From AT Require Import ArenaCompose AElim AElimBase AElimRefine AElimExample ArenaHistory ArenaHistoryMore ArenaHistoryRel.
From AT Require ACPrune ACPruneAll ACPruneCor.

Definition ahx_ops : list (oracle * aop) := [(ex_o, AApply (ex_f 1 0)); (ex_o, AElim)].
Definition ahx_o2 : oracle := oracle_by_rows [].
Definition ahx_L : ptree := ACPrune.exp_L.

Example ahx_run :
  ainvb exa_arena = true /\ AInv exa_arena ex_t /\ hist_ok ahx_ops /\
  ACPruneAll.lp_index_free ahx_o2 /\ fresh_alloc next_key /\ ahx_L <> U /\
  (* the exact part: the arena holds the very tree of the structural run *)
  match run 0 ex_t (ops_of ahx_ops), arena_run next_key 0 ahx_ops exa_arena with
  | HOk t, Some a => option_map (ctree_eqb t) (cabs 6 a 0%nat) = Some true /\ ainvb a = true
  | _, _ => False
  end /\
  (* then the pruned composition: same shape *)
  match run 0 ex_t (ops_of ahx_ops ++ [(ahx_o2, OCompose true ahx_L)]),
        arena_run next_key 0 (ahx_ops ++ [(ahx_o2, ACompose true ahx_L)]) exa_arena with
  | HOk t1, Some a' => option_map (fun t' => ctree_eqb_shape t' t1) (cabs 8 a' 0%nat) = Some true /\
                       (2 < AElimBase.csize t1)%nat
  | _, _ => False
  end.
Proof.
  assert (Hb : ainvb exa_arena = true) by (vm_compute; reflexivity).
  split; [exact Hb|]. split.
  { destruct (ainvb_sound _ Hb) as [t [Hc Hi]]. assert (Et : t = ex_t) by (vm_compute in Hc; inversion Hc; reflexivity).
    subst t. exact Hi. }
  split. { repeat constructor; apply exa_mir_ne. }
  split; [apply ACPruneAll.oracle_by_rows_index_free|]. split; [exact next_key_fresh|]. split; [discriminate|].
  split; vm_compute; split; try reflexivity; lia.
Qed.

(* the shape of arena_history_refines: apply_func ; elimination ; compose::<true> ; elimination ; apply_func.
   The theorem applies (its hypotheses are the first six conjuncts of ahx_run) and the computed runs agree:
   the arena returned by the machines holds a tree of the shape of the structural result, links mirrored. *)
Definition ahx_ops2 : list (oracle * aop) := [(ex_o, AElim); (ex_o, AApply (ex_f (1 + 1) 1))].
Example ahx_run_full :
  hist_ok ahx_ops2 /\
  match run 0 ex_t (ops_of ahx_ops ++ (ahx_o2, OCompose true ahx_L) :: ops_of ahx_ops2),
        arena_run next_key 0 (ahx_ops ++ (ahx_o2, ACompose true ahx_L) :: ahx_ops2) exa_arena with
  | HOk tf, Some a' => option_map (fun t' => ctree_eqb_shape t' tf) (cabs 8 a' 0%nat) = Some true /\
                       arena_okb a' 0 = true /\ (2 < AElimBase.csize tf)%nat
  | _, _ => False
  end /\
  exists a' tf', arena_run next_key 0 (ahx_ops ++ (ahx_o2, ACompose true ahx_L) :: ahx_ops2) exa_arena = Some a' /\
                 AInvW a' tf' /\ forall x, Some (cev tf' x) =
                   match run 0 ex_t (ops_of ahx_ops ++ (ahx_o2, OCompose true ahx_L) :: ops_of ahx_ops2) with
                   | HOk tf => Some (cev tf x) | HPanic => None end.
Proof.
  assert (Hok2 : hist_ok ahx_ops2) by (repeat constructor; apply exa_mir_ne).
  split; [exact Hok2|]. split; [vm_compute; repeat split; try reflexivity; lia|].
  destruct ahx_run as [_ [Hi [Hok1 [Ho [Hf [HnU _]]]]]].
  destruct (run 0 ex_t (ops_of ahx_ops ++ (ahx_o2, OCompose true ahx_L) :: ops_of ahx_ops2)) as [tf|] eqn:Er;
    [|vm_compute in Er; discriminate].
  destruct (arena_history_refines next_key 0 ahx_ops ahx_o2 ahx_L ahx_ops2 exa_arena ex_t tf Hf Ho HnU Hok1 Hok2 Hi Er)
    as [a' [tf' [Ha [Hw [_ [_ Hev]]]]]].
  exists a', tf'. split; [exact Ha|]. split; [exact Hw|]. intros x. rewrite Hev. reflexivity.
Qed.

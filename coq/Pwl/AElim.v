(* Pwl/AElim.v -- infeasible_elimination (pwl/impl_infeasible_elim.rs:234-317) as the imperative machine it is, over
   the slab arena: DfsPre (tree/iter.rs: explicit stack, last_push, skip_subtree), PolyhedraGen (pwl/iter.rs: the
   predicates stack maintained through last_depth, the row of the edge read from the node's CURRENT parent pointer),
   the deferred to_remove queue, forward_if_redundant (remove_child + merge_child_with_parent in the middle of the
   traversal), the final removal loop that never removes a last remaining child; the arena operations are those of
   tree/graph.rs (try_remove_child, remove_child, remove_all_descendants, merge_child_with_parent) over cells whose
   payload is AffContent.  K = 2.  Pwl/AElimRefine.v proves that this machine computes Pwl/Elim.v's `elim`.

   None / XPanic = the code panics (unwrap / expect / assert! / index out of bounds) or the fuel is exhausted.
   Vec-as-stack = list whose head is the top (DfsPre::stack, PolyhedraGen::predicates); to_remove is in push order.
   The LP solver and mirror_points are the oracles of Elim.v, indexed by call number; phase_inh / phase_one /
   phase_two are `classify` / `phase_two` of Elim.v, plus the assert!(!solution.is_empty()) of phase_inh.
   Not modelled: the values of the PerformanceCounter (but the traversal num_nodes(node) that feeds skipped_nodes is run,
   because its expect can panic), debug_assert!s, size_lb / size_ub of DfsPre, shape checks of ndarray. *)
From AT Require Import Num Vec Aff PTree Cells Abs Tree Cache Elim.

Definition ae_K : nat := 2%nat.

(* Result<_, NodeError> of the arena operations: XErr = Err(_) (which error is never inspected), XPanic = unwinding *)
Inductive xres (A : Type) := XOk (x : A) | XErr | XPanic.
Arguments XOk {A}. Arguments XErr {A}. Arguments XPanic {A}.

Definition ae_cell (f : aff) (s : nstate) (p : option nat) (ch : list (option nat)) (lf : bool) : cell acont :=
  mkcell {| ac_aff := f; ac_state := s |} p ch lf.

(* ---------------------------------------------------------------- tree/graph.rs over AffContent cells *)
Definition a_del (a : arena acont) (i : nat) : arena acont := aset a i None.          (* Slab::remove *)

(* Tree::child *)
Definition ae_child (a : arena acont) (i l : nat) : xres nat :=
  match aget a i with
  | None => XErr
  | Some c =>
    match nth_error (c_children c) l with
    | None => XPanic                                  (* children[label], label >= K *)
    | Some None => XErr
    | Some (Some j) => match aget a j with None => XErr | Some _ => XOk j end
    end
  end.
(* Tree::parent: the edge (parent index, label found by linear search) *)
Definition ae_parent (a : arena acont) (i : nat) : xres (nat * nat) :=
  match aget a i with
  | None => XErr
  | Some c =>
    match c_parent c with
    | None => XErr
    | Some p =>
      match aget a p with
      | None => XErr
      | Some pc => match find_label (c_children pc) i with Some l => XOk (p, l) | None => XPanic end
      end
    end
  end.

(* Tree::children(p): (label, child index, stored state of the child); None = tree_node(p).unwrap() or
   node_value(child).unwrap() fails *)
Fixpoint lsomes (n : nat) (l : list (option nat)) : list (nat * nat) :=
  match l with
  | [] => []
  | Some j :: t => (n, j) :: lsomes (S n) t
  | None :: t => lsomes (S n) t
  end.
Definition ae_children (a : arena acont) (p : nat) : option (list (nat * nat * nstate)) :=
  match aget a p with
  | None => None
  | Some pc =>
      opt_all (map (fun lj => match aget a (snd lj) with
                              | Some cj => Some (fst lj, snd lj, ac_state (c_val cj))
                              | None => None
                              end) (lsomes 0%nat (c_children pc)))
  end.

(* remove_all_descendants: the loop removes one occupied cell per iteration *)
Fixpoint ae_rad_loop (fuel : nat) (stack : list nat) (a : arena acont) : option (arena acont) :=
  match stack with
  | [] => Some a
  | j :: rest =>
    match fuel with
    | O => None
    | S f =>
      match aget a j with
      | None => None                                   (* expect("data structure corrupted ...") *)
      | Some cj => ae_rad_loop f (rev (somes (c_children cj)) ++ rest) (a_del a j)
      end
    end
  end.
Definition ae_remove_all_descendants (a : arena acont) (x : nat) : xres (arena acont) :=
  match aget a x with
  | None => XErr
  | Some cx =>
    let kids := somes (c_children cx) in
    if forallb (acontains a) kids then                 (* children(): node_value(child).unwrap() *)
      match ae_rad_loop (length a) (rev kids) a with
      | None => XPanic
      | Some a1 =>
        match aget a1 x with
        | None => XPanic
        | Some c => XOk (aset a1 x (Some (mkcell (c_val c) (c_parent c) (map (fun _ => None) (c_children c)) true)))
        end
      end
    else XPanic
  end.

Definition ae_try_remove_child (a : arena acont) (parent label : nat) : xres (arena acont) :=
  match ae_child a parent label with
  | XErr => XErr
  | XPanic => XPanic
  | XOk child =>
    match ae_remove_all_descendants a child with
    | XErr => XErr
    | XPanic => XPanic
    | XOk a1 =>
      match aget a1 parent with
      | None => XPanic
      | Some pc =>
        match nth_error (c_children pc) label with
        | None => XPanic
        | Some _ =>
          let ch := set_nth (c_children pc) label None in
          let a2 := aset a1 parent (Some (mkcell (c_val pc) (c_parent pc) ch (if all_none ch then true else c_leaf pc))) in
          match aget a2 child with
          | None => XPanic
          | Some _ => XOk (a_del a2 child)
          end
        end
      end
    end
  end.
(* remove_child = try_remove_child(..).expect("invalid index") *)
Definition ae_remove_child (a : arena acont) (parent label : nat) : option (arena acont) :=
  match ae_try_remove_child a parent label with XOk a' => Some a' | _ => None end.

Definition ae_merge (root : nat) (a : arena acont) (p label : nat) : xres (arena acont) :=
  match aget a p with
  | None => XPanic                                     (* self.arena[node] in num_children *)
  | Some pc =>
    if Nat.eqb (count_some (c_children pc)) 1%nat then
      if Nat.eqb root p then XErr
      else
        match ae_child a p label with
        | XErr => XErr
        | XPanic => XPanic
        | XOk c =>
          match ae_parent a p with
          | XErr => XErr
          | XPanic => XPanic
          | XOk (g, gl) =>
            match aget a g with
            | None => XPanic
            | Some gc =>
              let a1 := aset a g (Some (mkcell (c_val gc) (c_parent gc) (set_nth (c_children gc) gl (Some c)) (c_leaf gc))) in
              match aget a1 c with
              | None => XPanic
              | Some cc =>
                let a2 := aset a1 c (Some (mkcell (c_val cc) (Some g) (c_children cc) (c_leaf cc))) in
                match aget a2 p with
                | None => XPanic
                | Some _ => XOk (a_del a2 p)
                end
              end
            end
          end
        end
    else XPanic                                        (* assert!(num_children == 1) *)
  end.

(* node_value_mut(i).unwrap().state = s *)
Definition ae_set_state (a : arena acont) (i : nat) (s : nstate) : option (arena acont) :=
  match aget a i with
  | None => None
  | Some c => Some (aset a i (Some (ae_cell (ac_aff (c_val c)) s (c_parent c) (c_children c) (c_leaf c))))
  end.

(* ---------------------------------------------------------------- forward_if_redundant *)
Fixpoint ae_remove_children (a : arena acont) (p : nat) (ls : list nat) : option (arena acont) :=
  match ls with
  | [] => Some a
  | l :: r => match ae_remove_child a p l with Some a1 => ae_remove_children a1 p r | None => None end
  end.
Definition ae_forward (root : nat) (a : arena acont) (p : nat) : option (arena acont) :=
  match ae_children a p with
  | None => None
  | Some ch =>
    match filter (fun x => is_feas (snd x)) ch with
    | [fc] =>                                                            (* feasible_children.len() == 1 *)
      let inf := filter (fun x => is_infeas (snd x)) ch in
      if Nat.eqb (length inf) (ae_K - 1)%nat then
        match ae_remove_children a p (map (fun x => fst (fst x)) inf) with
        | None => None
        | Some a1 =>
          match ae_merge root a1 p (fst (fst fc)) with                   (* .ok() *)
          | XOk a2 => Some a2
          | XErr => Some a1
          | XPanic => None
          end
        end
      else Some a
    | _ => Some a
    end
  end.

(* ---------------------------------------------------------------- DfsPre *)
Record dfs := mkdfs { d_stack : list (nat * nat * nat);    (* (depth, index, n_remaining), head = top *)
                      d_last_push : nat }.
(* for (n_remaining, child) in kids.enumerate() { stack.push(..) } *)
Fixpoint push_kids (d : nat) (kids : list nat) (n : nat) (st : list (nat * nat * nat)) : list (nat * nat * nat) :=
  match kids with
  | [] => st
  | j :: r => push_kids d r (S n) ((d, j, n) :: st)
  end.
(* None = expect("node indicies should stay valid ...") fails; Some None = stack empty *)
Definition dfs_next (a : arena acont) (s : dfs) : option (option ((nat * nat * nat) * dfs)) :=
  match d_stack s with
  | [] => Some None
  | (d, i, r) :: rest =>
    match aget a i with
    | None => None
    | Some c =>
      let kids := somes (rev (c_children c)) in                         (* children.iter().rev().flatten() *)
      Some (Some ((d, i, r), mkdfs (push_kids (S d) kids 0%nat rest) (length kids)))
    end
  end.
Definition dfs_skip (s : dfs) : dfs := mkdfs (skipn (d_last_push s) (d_stack s)) 0%nat.
(* Tree::num_nodes(i) = DfsPre::iter(self, i).count(); None = the expect of DfsPre::next fails *)
Fixpoint dfs_count (fuel : nat) (a : arena acont) (s : dfs) (n : nat) : option nat :=
  match fuel with
  | O => None
  | S f =>
    match dfs_next a s with
    | None => None
    | Some None => Some n
    | Some (Some (_, s')) => dfs_count f a s' (S n)
    end
  end.
Definition ae_num_nodes (a : arena acont) (i : nat) : option nat :=
  dfs_count (S (length a)) a (mkdfs [(0%nat, i, 0%nat)] 0%nat) 0%nat.

(* ---------------------------------------------------------------- PolyhedraGen *)
Record pgen := mkpgen { g_preds : list (vec * Qc);   (* head = last pushed *)
                        g_iter : dfs;
                        g_last_depth : nat }.
Definition pg_skip (g : pgen) : pgen := mkpgen (g_preds g) (dfs_skip (g_iter g)) (g_last_depth g).
Definition pg_next (a : arena acont) (g : pgen) : option (option ((nat * nat * nat) * pgen)) :=
  match dfs_next a (g_iter g) with
  | None => None
  | Some None => Some None
  | Some (Some ((d, i, r), it)) =>
    let ps := if Nat.leb d (g_last_depth g) then skipn (1 + g_last_depth g - d)%nat (g_preds g) else g_preds g in
    match ae_parent a i with
    | XPanic => None
    | XErr => Some (Some ((d, i, r), mkpgen ps it d))
    | XOk (p, l) =>
      match aget a p with
      | None => Some None                               (* node_value(..).ok()? *)
      | Some pc =>
        match l with
        | O => Some (Some ((d, i, r), mkpgen (row0 (ac_aff (c_val pc)) :: ps) it d))
        | S O => Some (Some ((d, i, r), mkpgen (row1 (ac_aff (c_val pc)) :: ps) it d))
        | _ => None                                     (* panic!("label should be 0 or 1 ...") *)
        end
      end
    end
  end.

(* ---------------------------------------------------------------- the main loop *)
Record mcfg := mkcfg { m_ar : arena acont; m_gen : pgen; m_k : cnt; m_rem : list (nat * nat) (* (label, parent) *) }.
Inductive sres := SPanic | SDone | SNext (c : mcfg).

Definition ae_step (o : oracle) (tol : Qc) (root : nat) (c : mcfg) : sres :=
  let a := m_ar c in
  match pg_next a (m_gen c) with
  | None => SPanic
  | Some None => SDone
  | Some (Some ((d, i, nrem), g1)) =>
    if Nat.eqb i root then SNext (mkcfg a g1 (m_k c) (m_rem c)) else
    match aget a i with
    | None => SPanic                                                     (* node_value(node_idx).unwrap() *)
    | Some ci =>
      match ac_state (c_val ci) with
      | Infeas =>
        match ae_num_nodes a i with                                      (* skipped_nodes += num_nodes(node_idx) - 1 *)
        | None => SPanic
        | Some _ => SNext (mkcfg a (pg_skip g1) (m_k c) (m_rem c))
        end
      | Feas | FeasW _ => SNext (mkcfg a g1 (m_k c) (m_rem c))
      | Indet =>
        match ae_parent a i with                                         (* self.tree.parent(node_idx).unwrap() *)
        | XOk (p, l) =>
          match g_preds g1, aget a p with
          | h :: _, Some pc =>                                           (* polyhedra.last().unwrap() *)
            match ac_state (c_val pc) with
            | FeasW [] => SPanic                                         (* assert!(!solution.is_empty()) *)
            | stP =>
              let '(s, k') := classify o tol stP (rev (g_preds g1)) h (m_k c) in
              let rem' := if is_infeas s then m_rem c ++ [(l, p)] else m_rem c in
              let g2 := if is_infeas s then pg_skip g1 else g1 in
              match (if is_infeas s then ae_num_nodes a i else Some 0%nat) with   (* skipped_nodes += num_nodes(node_idx) - 1 *)
              | None => SPanic
              | Some _ =>
                match ae_set_state a i s with
                | None => SPanic
                | Some a1 =>
                  if Nat.eqb nrem 0%nat then
                    match ae_forward root a1 p with
                    | None => SPanic
                    | Some a2 => SNext (mkcfg a2 g2 k' rem')
                    end
                  else SNext (mkcfg a1 g2 k' rem')
                end
              end
            end
          | _, _ => SPanic
          end
        | _ => SPanic
        end
      end
    end
  end.

Fixpoint ae_loop (fuel : nat) (o : oracle) (tol : Qc) (root : nat) (c : mcfg) : option mcfg :=
  match fuel with
  | O => None
  | S f =>
    match ae_step o tol root c with
    | SPanic => None
    | SDone => Some c
    | SNext c' => ae_loop f o tol root c'
    end
  end.

(* for (label, node) in to_remove { if n_children(node) > 1 { let _ = try_remove_child(node, label); } } *)
Fixpoint ae_final (es : list (nat * nat)) (a : arena acont) : option (arena acont) :=
  match es with
  | [] => Some a
  | (l, n) :: r =>
    let nch := match aget a n with Some c => count_some (c_children c) | None => 0%nat end in
    if Nat.ltb 1%nat nch then
      match ae_try_remove_child a n l with
      | XPanic => None
      | XErr => ae_final r a
      | XOk a' => ae_final r a'
      end
    else ae_final r a
  end.

Definition ae_init (a : arena acont) (root : nat) : mcfg :=
  mkcfg a (mkpgen [] (mkdfs [(0, root, 0)%nat] 0%nat) 0%nat) k0 [].

(* every iteration but the last pops one node, and no node is pushed twice: length a + 1 iterations suffice *)
Definition aelim (o : oracle) (tol : Qc) (a : arena acont) (root : nat) : option (arena acont * cnt) :=
  match ae_loop (S (length a)) o tol root (ae_init a root) with
  | None => None
  | Some c => match ae_final (m_rem c) (m_ar c) with Some a' => Some (a', m_k c) | None => None end
  end.

(* ---------------------------------------------------------------- cell-by-cell comparison of two arenas (mirror) *)
Definition oeqb (x y : option nat) : bool :=
  match x, y with Some i, Some j => Nat.eqb i j | None, None => true | _, _ => false end.
Fixpoint ochs_eqb (x y : list (option nat)) : bool :=
  match x, y with
  | [], [] => true
  | u :: x', v :: y' => oeqb u v && ochs_eqb x' y'
  | _, _ => false
  end.
Definition acell_eqb (x y : cell acont) : bool :=
  aff_eqb (ac_aff (c_val x)) (ac_aff (c_val y)) && st_eqb (ac_state (c_val x)) (ac_state (c_val y)) &&
  oeqb (c_parent x) (c_parent y) && ochs_eqb (c_children x) (c_children y) && Bool.eqb (c_leaf x) (c_leaf y).
Definition arena_eqb (a b : arena acont) : bool :=
  forallb (fun i => match aget a i, aget b i with
                    | Some x, Some y => acell_eqb x y
                    | None, None => true
                    | _, _ => false
                    end) (seq 0%nat (Nat.max (length a) (length b))).

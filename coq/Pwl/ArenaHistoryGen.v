(* Pwl/ArenaHistoryGen.v -- EVERY history of apply_func / infeasible_elimination / compose::<true> steps on the
   arena-level machines, any number of pruned compositions, modulo ONE executable check after each composition:
   strayb a' = "every terminal cell of the slab a' belongs to the tree at root 0" (what the published postcondition of
   acompose_prune leaves open, and what the next composition -- whose loop runs over all terminal cells -- needs).
   arena_run_chk performs the steps of arena_run and evaluates the check after each composition:
     RFail  : a machine returned None (panic path / fuel)      -- proved impossible when the structural run completes
     RStray : a check failed                                   -- not excluded here (it is by the code: remove_child /
                                                                  merge_child_with_parent free what they unlink)
     ROk a' : a' = the arena arena_run returns; it satisfies AInv with a tree tf' that equals the structural result up
              to node indices (cshz: up to indices, agreeing on which node carries index 0).
   The structural models read node indices only through "index = 0" (cprune: the terminal that is the root), hence
   respect cshz (ElimShapeZ, CPruneShapeZ); trees in an arena with root 0 carry 0 at the root only. *)
From AT Require Import Num Vec Aff PTree Ops Cells Abs Tree TreeLemmas Cache Reduce Elim CPrune Schema WfC OpsWf History.
From AT Require Import ArenaCompose AElim AElimBase AElimRefine ElimWne CPruneWne ShapeZ ElimShapeZ CPruneShapeZ.
From AT Require Import ArenaHistory ArenaHistoryMore.
From AT Require ArenaComposeAbs ACPrune ACPruneOps ACPruneRefine ACPruneAll ACPruneCor ACPruneMono.

(* ---------------------------------------------------------------- the executable check *)
Definition strayb (a : arena acont) : bool :=
  match cabs (S (length a)) a 0 with
  | Some t => forallb (fun j => existsb (Nat.eqb j) (idxs t)) (terminal_keys a)
  | None => false
  end.
Lemma cdepth_le_csize t : (AElimBase.cdepth t <= csize t)%nat.
Proof. induction t as [|i lf f s c0 IH0 c1 IH1]; cbn [AElimBase.cdepth csize]; lia. Qed.
Lemma AInvW_strayb a t : AInvW a t -> strayb a = true -> AInv a t.
Proof.
  intros [Ht Hne] Hs. split; [exact Ht|]. split; [exact Hne|]. intros j Hj. unfold strayb in Hs.
  pose proof (arena_tree_cabs a 0 t Ht) as Hc. destruct Ht as [_ [Hw Hnd]].
  pose proof (wfn_size_bound a t None Hw Hnd) as Hb. pose proof (cdepth_le_csize t) as Hd.
  rewrite (cabs_mono (AElimBase.cdepth t) (S (length a)) a 0 t) in Hs by (auto; lia).
  rewrite forallb_forall in Hs. specialize (Hs j Hj). apply existsb_exists in Hs as [k [Hk E]].
  apply Nat.eqb_eq in E. subst k. exact Hk.
Qed.

Inductive cres := ROk (a : arena acont) | RStray | RFail.
Definition chk (x : aop) (a : arena acont) : bool := match x with ACompose _ _ => strayb a | _ => true end.
Fixpoint arena_run_chk (alloc : arena acont -> nat) (tol : Qc) (ops : list (oracle * aop)) (a : arena acont) : cres :=
  match ops with
  | [] => ROk a
  | ox :: r =>
      match arena_step alloc tol (fst ox) (snd ox) a with
      | None => RFail
      | Some a' => if chk (snd ox) a' then arena_run_chk alloc tol r a' else RStray
      end
  end.
Lemma arena_run_chk_run alloc tol : forall ops a a', arena_run_chk alloc tol ops a = ROk a' -> arena_run alloc tol ops a = Some a'.
Proof.
  induction ops as [|ox r IH]; intros a a' H; cbn [arena_run_chk arena_run] in *; [inversion H; reflexivity|].
  destruct (arena_step alloc tol (fst ox) (snd ox) a) as [a1|]; [|discriminate]. cbn [obnd].
  destruct (chk (snd ox) a1); [apply IH; exact H | discriminate].
Qed.

(* admissible steps: apply_func, elimination, pruned composition with a tree; every oracle satisfies mir_ne and
   answers LP queries independently of the call number *)
Definition gop_ok (x : aop) : Prop := match x with ACompose pr L => pr = true /\ L <> U | _ => True end.
Definition hist_okG (ops : list (oracle * aop)) : Prop :=
  Forall (fun ox => mir_ne (fst ox) /\ ACPruneAll.lp_index_free (fst ox) /\ gop_ok (snd ox)) ops.

(* ---------------------------------------------------------------- one step, general *)
Theorem arena_step_refines_gen alloc tol o x a t' t t1 :
  fresh_alloc alloc -> mir_ne o -> ACPruneAll.lp_index_free o -> gop_ok x ->
  AInv a t' -> cshz t' t -> step tol o (op_of x) t = HOk t1 ->
  exists a' t1', arena_step alloc tol o x a = Some a' /\ AInvW a' t1' /\ cshz t1' t1 /\
                 (exact_op x = true -> AInv a' t1').
Proof.
  intros Hf Hm Ho Hx Hinv Hz Hs. pose proof (cshz_cshape _ _ Hz) as Hc.
  destruct x as [g | pr L |]; cbn [op_of] in Hs.
  - assert (Hs' : step tol o (OApply g) t' = HOk (capply_func g t')).
    { cbn [step] in *. rewrite (terms_all_cshape _ _ _ Hc). destruct (terms_all _ t); [reflexivity | discriminate]. }
    assert (E : t1 = capply_func g t) by (cbn [step] in Hs; destruct (terms_all _ t); [inversion Hs; reflexivity | discriminate]).
    destruct (arena_step_apply_refines alloc tol o g a t' _ Hinv Hs') as [a' [Hrun Hi]].
    exists a', (capply_func g t'). split; [exact Hrun|]. split; [apply AInv_weak; exact Hi|].
    split; [subst t1; apply cmap_terms_cshz; exact Hz | intros _; exact Hi].
  - destruct Hx as [-> HnU].
    destruct (step_compose_guard _ _ _ _ _ _ Hs) as [Hsh E]. cbn iota in E.
    assert (Hs' : step tol o (OCompose true L) t' = HOk (fst (compose_prune o tol t' L))).
    { cbn [step] in *. rewrite (terms_all_cshape _ _ _ Hc).
      destruct (negb (pshapeb L && binb L)); [discriminate|]. destruct (terms_all _ t); [reflexivity | discriminate]. }
    destruct (arena_step_compose_prune_weak alloc tol o L a t' _ Hf Ho HnU Hinv Hs') as [a' [t1' [Hrun [Hi [Hcs _]]]]].
    exists a', t1'. split; [exact Hrun|]. split; [exact Hi|]. split; [|discriminate].
    apply cshz_trans with (y := fst (compose_prune o tol t' L)).
    + apply cshape_onlyroot0_cshz; [exact Hcs | eapply arena_tree_onlyroot0; apply Hi |].
      apply compose_prune_onlyroot0. eapply arena_tree_onlyroot0. apply Hinv.
    + subst t1. apply compose_prune_cshz. exact Hz.
  - assert (E : t1 = fst (elim o tol t)) by (cbn [step] in Hs; inversion Hs; reflexivity).
    destruct (arena_step_elim_refines alloc tol o a t' (fst (elim o tol t')) Hm Hinv eq_refl) as [a' [Hrun [Hi _]]].
    exists a', (fst (elim o tol t')). split; [exact Hrun|]. split; [apply AInv_weak; exact Hi|].
    split; [subst t1; apply elim_cshz; exact Hz | intros _; exact Hi].
Qed.

(* ---------------------------------------------------------------- histories *)
Theorem arena_run_chk_refines alloc tol : fresh_alloc alloc -> forall ops a t' t tf,
  hist_okG ops -> AInv a t' -> cshz t' t -> run tol t (ops_of ops) = HOk tf ->
  match arena_run_chk alloc tol ops a with
  | ROk a' => arena_run alloc tol ops a = Some a' /\ exists tf', AInv a' tf' /\ cshz tf' tf
  | RStray => True
  | RFail => False
  end.
Proof.
  intros Hf. induction ops as [|[o x] r IH]; intros a t' t tf Hok Hinv Hz Hrun.
  - cbn in Hrun. inversion Hrun; subst tf. cbn [arena_run_chk arena_run]. split; [reflexivity|]. eauto.
  - inversion Hok as [|y l [Hm [Ho Hx]] Hr]; subst y l. cbn [fst snd] in Hm, Ho, Hx.
    cbn [ops_of map fst snd] in Hrun. rewrite run_cons in Hrun. cbn [fst snd] in Hrun.
    destruct (step tol o (op_of x) t) as [t1|] eqn:Es; [|discriminate].
    destruct (arena_step_refines_gen alloc tol o x a t' t t1 Hf Hm Ho Hx Hinv Hz Es) as [a1 [t1' [Ha1 [Hw1 [Hz1 Hex]]]]].
    cbn [arena_run_chk arena_run fst snd]. rewrite Ha1. cbn [obnd].
    destruct (chk x a1) eqn:Ec; [|exact I].
    assert (Hi1 : AInv a1 t1').
    { destruct x as [g | pr L |]; cbn [chk] in Ec; [apply Hex; reflexivity | apply AInvW_strayb; assumption | apply Hex; reflexivity]. }
    apply (IH a1 t1' t1 tf Hr Hi1 Hz1 Hrun).
Qed.

(* from an arena that meets the invariant: the machines never fail while the structural run completes, and unless a
   stray-terminal check fires the returned arena holds the structural result up to node indices *)
Theorem arena_history_refines_checked alloc tol ops a0 t0 tf :
  fresh_alloc alloc -> hist_okG ops -> AInv a0 t0 -> run tol t0 (ops_of ops) = HOk tf ->
  match arena_run_chk alloc tol ops a0 with
  | ROk a' => arena_run alloc tol ops a0 = Some a' /\
              exists tf', AInv a' tf' /\ cabs (AElimBase.cdepth tf') a' 0%nat = Some tf' /\
                          ACPruneRefine.cshape tf' tf /\ forall x, cev tf' x = cev tf x
  | RStray => True
  | RFail => False
  end.
Proof.
  intros Hf Hok Hinv Hrun.
  pose proof (arena_run_chk_refines alloc tol Hf ops a0 t0 t0 tf Hok Hinv (cshz_refl t0) Hrun) as H.
  destruct (arena_run_chk alloc tol ops a0) as [a'| |]; auto.
  destruct H as [Ha [tf' [Hi Hz]]]. split; [exact Ha|]. exists tf'. split; [exact Hi|].
  split; [apply arena_tree_cabs; apply Hi|]. pose proof (cshz_cshape _ _ Hz) as Hc. split; [exact Hc|].
  intros x. apply ACPruneAll.cshape_cev. exact Hc.
Qed.

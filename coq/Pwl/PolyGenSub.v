(* Pwl/PolyGenSub.v -- PolyhedraGen::with_root(tree, r) for ANY start node r (pwl/iter.rs).
   The coded machine of PolyGen.v (pgen_new r / pgen_next / pgen_skip / pgen_run) already models the code for every r;
   PolyGenProofs.v proves the refinement only for a parent-less r (ginv.gi_root).  Here: for a start node r that HAS a
   parent pi (label l, rows0 = edge_rows (predicate of pi) l) the first next() pushes rows0, depth counts from r, the
   predicate stack holds depth+1 groups and the pop count 1 + last_depth - depth still fits:

     pgen_run a (pgen_new r) script = f_run (f_new_sub rows0 dt) script          (pgen_run_sub_spec)

   where f_new_sub rows0 dt is the specification forest machine whose single pending item is the subtree dt of r with
   the closed rows rows0 (f_new_sub [] dt = f_new dt: the root case, then this is pgen_run_spec).
   Hypotheses: ginv_sub = the cell conditions of ginv (everything except "r has no parent"); executable form gsubb.
   Relation to the root traversal (f_run_lift / sub_stream_lift): a specification machine that holds r's subtree with
   depth d0 and closed rows pre ++ rows0 (what the root traversal holds when it reaches r: mk_pending appends the edge
   rows to the rows of the parent) yields the stream of the sub-tree traversal with d0 added to every depth and pre
   prepended to every reported row list. *)
From Coq Require Import List Arith Lia Bool.
Import ListNotations.
From AT Require Import Num Vec Aff PTree Cells Abs PolyGen PolyGenProofs PolyGenUpd.
Local Open Scope nat_scope.

(* ---------------------------------------------------------------- specification machine for a sub-tree traversal *)
Definition f_new_sub (rows0 : list (vec * Qc)) (t : dtree) : fstate :=
  {| f_pending := [ {| pd_depth := 0; pd_nrem := 0; pd_rows := rows0; pd_tree := t |} ]; f_last := 0 |}.

Lemma f_new_sub_nil t : f_new_sub [] t = f_new t.
Proof. reflexivity. Qed.

(* the rows of the edge that enters r ([] for a parent-less r); None = dangling link / label outside {0,1} *)
Definition start_rows (a : arena acont) (r : nat) : option (list (vec * Qc)) :=
  match aget a r with
  | None => None
  | Some c =>
      match c_parent c with
      | None => Some []
      | Some pi =>
          match aget a pi with
          | None => None
          | Some pc =>
              match find_label (c_children pc) r with
              | None => None
              | Some l => edge_rows (ac_aff (c_val pc)) l
              end
          end
      end
  end.

Lemma start_rows_root a r c : aget a r = Some c -> c_parent c = None -> start_rows a r = Some [].
Proof. intros Hc Hp. unfold start_rows. rewrite Hc, Hp. reflexivity. Qed.
Lemma start_rows_parent a r c pi pc l rows0 : aget a r = Some c -> c_parent c = Some pi -> aget a pi = Some pc ->
  find_label (c_children pc) r = Some l -> edge_rows (ac_aff (c_val pc)) l = Some rows0 -> start_rows a r = Some rows0.
Proof. intros Hc Hp Hpc Hl He. unfold start_rows. rewrite Hc, Hp, Hpc, Hl. exact He. Qed.

(* the specification stream of with_root(r), as the runner evaluates it *)
Definition sub_spec_run (fuel : nat) (a : arena acont) (r : nat) (script : list cmd) : option (list out) :=
  match dabs fuel a r, start_rows a r with
  | Some dt, Some rows0 => Some (f_run (f_new_sub rows0 dt) script)
  | _, _ => None
  end.

(* ---------------------------------------------------------------- the cell conditions of ginv *)
Record ginv_sub (a : arena acont) : Prop := {
  gs_down : forall i c l j, aget a i = Some c -> nth_error (c_children c) l = Some (Some j) ->
            exists cj, aget a j = Some cj /\ c_parent cj = Some i;
  gs_slot : forall i c l l' j, aget a i = Some c -> nth_error (c_children c) l = Some (Some j) ->
            nth_error (c_children c) l' = Some (Some j) -> l = l';
  gs_bin : forall i c, aget a i = Some c -> length (c_children c) <= 2;
  gs_row : forall i c l j, aget a i = Some c -> nth_error (c_children c) l = Some (Some j) ->
           length (a_mat (ac_aff (c_val c))) = 1 /\ length (a_bias (ac_aff (c_val c))) = 1
}.

Lemma ginv_ginv_sub a r : ginv a r -> ginv_sub a.
Proof. intros G. constructor; [exact (gi_down a r G) | exact (gi_slot a r G) | exact (gi_bin a r G) | exact (gi_row a r G)]. Qed.
Lemma ginv_sub_ginv a r c : ginv_sub a -> aget a r = Some c -> c_parent c = None -> ginv a r.
Proof.
  intros G Hc Hp. constructor; [exists c; auto | exact (gs_down a G) | exact (gs_slot a G) | exact (gs_bin a G) | exact (gs_row a G)].
Qed.

(* ---------------------------------------------------------------- small facts *)
Lemma find_label_go_sound os j : forall k l,
  (fix go (l0 : list (option nat)) (k0 : nat) : option nat :=
     match l0 with
     | [] => None
     | Some j0 :: l' => if Nat.eqb j0 j then Some k0 else go l' (S k0)
     | None :: l' => go l' (S k0)
     end) os k = Some l -> k <= l /\ nth_error os (l - k) = Some (Some j).
Proof.
  induction os as [|o os IH]; intros k l H; [discriminate|].
  destruct o as [x|].
  - destruct (Nat.eqb_spec x j) as [->|Hne].
    + injection H as <-. rewrite Nat.sub_diag. split; [lia | reflexivity].
    + apply IH in H as [Hle Hn]. split; [lia|]. replace (l - k) with (S (l - S k)) by lia. exact Hn.
  - apply IH in H as [Hle Hn]. split; [lia|]. replace (l - k) with (S (l - S k)) by lia. exact Hn.
Qed.
Lemma find_label_sound os j l : find_label os j = Some l -> nth_error os l = Some (Some j).
Proof. unfold find_label. intros H. apply find_label_go_sound in H as [_ H]. rewrite Nat.sub_0_r in H. exact H. Qed.

Lemma edge_rows_len p l rows : edge_rows p l = Some rows -> length (a_mat p) = 1 -> length (a_bias p) = 1 -> length rows = 1.
Proof.
  intros H Hm Hb. destruct l as [|[|l]]; simpl in H; [| |discriminate]; injection H as <-;
    rewrite combine_length, ?map_length, ?length_vopp, Hm, Hb; reflexivity.
Qed.

(* ---------------------------------------------------------------- the simulation invariant (start node with a parent) *)
(* every stack entry has a parent; its closed rows are the first depth groups of the predicate stack (one row each,
   the group at position 0 is the edge into r) followed by the rows of the edge that enters it *)
Definition entry_ok_sub (a : arena acont) (preds : list (vec * Qc)) (it : dfs_item) (p : pend) : Prop :=
  di_depth it = pd_depth p /\ di_index it = dt_idx (pd_tree p) /\ di_nrem it = pd_nrem p /\
  drep a (dt_idx (pd_tree p)) (pd_tree p) /\
  exists c pi pc l row, aget a (dt_idx (pd_tree p)) = Some c /\ c_parent c = Some pi /\ aget a pi = Some pc /\
    find_label (c_children pc) (dt_idx (pd_tree p)) = Some l /\
    edge_rows (ac_aff (c_val pc)) l = Some row /\ length row = 1 /\
    pd_rows p = firstn (pd_depth p) preds ++ row.

(* after the first next() the predicate stack holds last_depth + 1 rows; before it, it is empty *)
Definition pinv_sub (a : arena acont) (s : pgen) (fs : fstate) : Prop :=
  Forall2 (entry_ok_sub a (pg_preds s)) (d_stack (pg_iter s)) (f_pending fs) /\
  d_last_push (pg_iter s) = f_last fs /\
  (length (pg_preds s) = S (pg_last_depth s) \/ (pg_preds s = [] /\ pg_last_depth s = 0)) /\
  desc (map pd_depth (f_pending fs)) /\
  Forall (fun p => pd_depth p <= length (pg_preds s)) (f_pending fs).

Lemma entry_ok_sub_ext a preds preds' it p : entry_ok_sub a preds it p ->
  firstn (pd_depth p) preds' = firstn (pd_depth p) preds -> entry_ok_sub a preds' it p.
Proof.
  intros (H1 & H2 & H3 & H4 & c & pi & pc & l & row & Hc & Ha & Hb & Hf & He & Hl & Hr) Hx.
  repeat split; auto. exists c, pi, pc, l, row. repeat split; auto. rewrite Hx. exact Hr.
Qed.

Lemma pinv_sub_skip a s fs : pinv_sub a s fs -> pinv_sub a (pgen_skip s) (f_skip fs).
Proof.
  intros (HF & Hl & Hlen & Hd & Hb). unfold pinv_sub, pgen_skip, f_skip, dfs_skip; simpl.
  rewrite Hl. split; [|split; [|split; [|split]]].
  - apply Forall2_skipn. exact HF.
  - reflexivity.
  - exact Hlen.
  - rewrite map_skipn. apply desc_skipn. exact Hd.
  - apply Forall_skipn. exact Hb.
Qed.

Lemma children_ok_sub a (G : ginv_sub a) i c d rows : aget a i = Some c -> length rows = S d ->
  forall os ts, drep_slots a os ts -> forall pre, c_children c = pre ++ os ->
  exists new, mk_pending (S d) rows (ac_aff (c_val c)) (label_children (length pre) ts) = Some new /\
    Forall2 (entry_ok_sub a rows) (push_children (S d) (somes os)) new /\
    Forall (fun q => pd_depth q = S d) new.
Proof.
  intros Hc Hrows. induction 1 as [|os ts Hs IH|k t os ts Hk Hs IH]; intros pre Hsplit.
  - exists []. repeat split; constructor.
  - destruct (IH (pre ++ [None])) as (new & Hm & HF & Hdep).
    { rewrite <- app_assoc. exact Hsplit. }
    rewrite app_length in Hm. simpl in Hm. rewrite Nat.add_1_r in Hm.
    exists new. simpl. auto.
  - destruct (IH (pre ++ [Some k])) as (new & Hm & HF & Hdep).
    { rewrite <- app_assoc. exact Hsplit. }
    rewrite app_length in Hm. simpl in Hm. rewrite Nat.add_1_r in Hm.
    assert (Hn : nth_error (c_children c) (length pre) = Some (Some k)).
    { rewrite Hsplit, nth_error_app2, Nat.sub_diag by lia. reflexivity. }
    assert (Hlt : length pre < 2).
    { pose proof (gs_bin a G i c Hc) as Hb. rewrite Hsplit, app_length in Hb. simpl in Hb. lia. }
    destruct (gs_row a G i c _ k Hc Hn) as [Hm1 Hb1].
    destruct (edge_rows_one (ac_aff (c_val c)) (length pre) Hlt Hm1 Hb1) as (row & Hrow & Hrl).
    destruct (gs_down a G i c _ k Hc Hn) as (ck & Hck & Hpar).
    simpl label_children. simpl mk_pending. rewrite Hrow, Hm.
    eexists. split; [reflexivity|]. simpl somes. simpl push_children. split.
    + constructor; [|exact HF].
      unfold entry_ok_sub. cbn [pd_depth pd_nrem pd_rows pd_tree di_depth di_index di_nrem]. rewrite (drep_idx a k t Hk).
      split; [reflexivity|]. split; [reflexivity|]. split; [symmetry; apply (drep_slots_len a os ts Hs)|].
      split; [exact Hk|].
      exists ck, i, c, (length pre), row.
      split; [exact Hck|]. split; [exact Hpar|]. split; [exact Hc|].
      split; [apply find_label_unique; [exact Hn|]; intros l' Hl'; exact (gs_slot a G i c l' (length pre) k Hc Hl' Hn)|].
      split; [exact Hrow|]. split; [exact Hrl|].
      rewrite <- Hrows, firstn_all. reflexivity.
    + constructor; [reflexivity | exact Hdep].
Qed.

Lemma pinv_sub_next a (G : ginv_sub a) s fs : pinv_sub a s fs ->
  match pgen_next a s, f_next fs with
  | PgItem it rows s', FItem oi fs' => oi = item_of it rows /\ pinv_sub a s' fs'
  | PgEnd, FEnd => True
  | _, _ => False
  end.
Proof.
  intros (HF & Hl & Hlen & Hd & Hb). unfold pgen_next, f_next.
  destruct (f_pending fs) as [|p rest] eqn:Hp; inversion HF as [|it p' srest rest' Hit HFr Hs1 Hs2]; subst.
  - exact I.
  - unfold dfs_next. rewrite <- Hs1.
    destruct Hit as (E1 & E2 & E3 & Hrep & c & pi & pc & lb & row & Hc & Hpar & Hpc & Hfl & Her & Hrl & Hr).
    destruct (pd_tree p) as [i f ch] eqn:Ht. simpl dt_idx in *.
    inversion Hrep as [i0 c0 ch0 Hc0 Hslots]; subst i0 ch0. rewrite Hc in Hc0. injection Hc0 as <-. subst f.
    rewrite E2, Hc.
    simpl in Hd. destruct Hd as [Hle Hdr]. inversion Hb as [|x l0 Hbp Hbr]; subst x l0.
    set (d := pd_depth p) in *.
    assert (Hpre : (if di_depth it <=? pg_last_depth s
                    then firstn (length (pg_preds s) - (1 + pg_last_depth s - di_depth it)) (pg_preds s)
                    else pg_preds s) = firstn d (pg_preds s)).
    { rewrite E1. fold d. destruct Hlen as [Hlen|[Hnil H0]].
      - destruct (Nat.leb_spec d (pg_last_depth s)) as [Hle'|Hgt].
        + f_equal. lia.
        + replace d with (length (pg_preds s)) by lia. symmetry. apply firstn_all.
      - rewrite Hnil. destruct (d <=? pg_last_depth s); rewrite ?firstn_nil; reflexivity. }
    rewrite Hpre.
    remember (firstn d (pg_preds s) ++ row) as rows eqn:Hrows_def.
    assert (Hrows_len : length rows = S d).
    { rewrite Hrows_def, app_length, firstn_length, Nat.min_l, Hrl by exact Hbp. lia. }
    destruct (children_ok_sub a G i c d rows Hc Hrows_len (c_children c) ch Hslots [] eq_refl) as (new & Hnew & HFnew & Hdnew).
    simpl length in Hnew. rewrite Hr, Hnew.
    cbv beta iota. rewrite ?E2, ?Hc. rewrite Hpar, Hpc, Hfl, Her. rewrite <- Hrows_def.
    split; [unfold item_of; rewrite E1, E2, E3; reflexivity|].
    apply Forall_map in Hle.
    unfold pinv_sub; simpl. rewrite E1. fold d. split; [|split; [|split; [|split]]].
    + apply Forall2_app; [exact HFnew|].
      eapply Forall2_impl_r; [| exact HFr | exact Hle].
      intros x q Hxq Hq. eapply entry_ok_sub_ext; [exact Hxq|]. simpl in Hq. fold d in Hq.
      rewrite Hrows_def. apply firstn_firstn_app; [exact Hq | exact Hbp].
    + symmetry. apply (drep_slots_len a _ _ Hslots).
    + left. exact Hrows_len.
    + rewrite map_app. apply (desc_app_same d).
      * apply Forall_map. exact Hdnew.
      * apply Forall_map. exact Hle.
      * exact Hdr.
    + apply Forall_app. split.
      * eapply Forall_impl; [|exact Hdnew]. intros q Hq. simpl in Hq. lia.
      * eapply Forall_impl; [|exact Hle]. intros q Hq. simpl in Hq. fold d in Hq. lia.
Qed.

Lemma pinv_sub_init a r dt c pi pc l rows0 : ginv_sub a -> drep a r dt ->
  aget a r = Some c -> c_parent c = Some pi -> aget a pi = Some pc ->
  find_label (c_children pc) r = Some l -> edge_rows (ac_aff (c_val pc)) l = Some rows0 ->
  pinv_sub a (pgen_new r) (f_new_sub rows0 dt).
Proof.
  intros G Hrep Hc Hpar Hpc Hfl Her.
  pose proof (find_label_sound _ _ _ Hfl) as Hn.
  destruct (gs_row a G pi pc l r Hpc Hn) as [Hm1 Hb1].
  pose proof (edge_rows_len _ _ _ Her Hm1 Hb1) as Hrl.
  unfold pinv_sub, pgen_new, f_new_sub, dfs_new; simpl. split; [|split; [|split; [|split]]].
  - constructor; [|constructor]. unfold entry_ok_sub; simpl. rewrite (drep_idx a r dt Hrep).
    split; [reflexivity|]. split; [reflexivity|]. split; [reflexivity|]. split; [exact Hrep|].
    exists c, pi, pc, l, rows0. repeat split; auto.
  - reflexivity.
  - right. split; reflexivity.
  - split; [constructor | exact I].
  - constructor; [simpl; lia | constructor].
Qed.

Theorem pgen_refines_sub a (G : ginv_sub a) : forall script s fs, pinv_sub a s fs -> pgen_run a s script = f_run fs script.
Proof.
  induction script as [|cm script IH]; intros s fs Hinv; [reflexivity|]. destruct cm; simpl.
  - pose proof (pinv_sub_next a G s fs Hinv) as H.
    destruct (pgen_next a s) as [it rows s'| |], (f_next fs) as [oi fs'| |]; try contradiction.
    + destruct H as [-> H]. unfold item_of. f_equal. apply IH. exact H.
    + f_equal. apply IH. exact Hinv.
  - f_equal. apply IH. apply pinv_sub_skip. exact Hinv.
Qed.

(* start node with a parent: the statement with the parent edge spelled out *)
Theorem pgen_run_sub_parent a r fuel dt c pi pc l rows0 script : ginv_sub a -> dabs fuel a r = Some dt ->
  aget a r = Some c -> c_parent c = Some pi -> aget a pi = Some pc ->
  find_label (c_children pc) r = Some l -> edge_rows (ac_aff (c_val pc)) l = Some rows0 ->
  pgen_run a (pgen_new r) script = f_run (f_new_sub rows0 dt) script.
Proof.
  intros G Hd Hc Hpar Hpc Hfl Her. apply (pgen_refines_sub a G).
  exact (pinv_sub_init a r dt c pi pc l rows0 G (dabs_sound a fuel r dt Hd) Hc Hpar Hpc Hfl Her).
Qed.

(* any start node: parent-less (rows0 = [], f_new_sub [] dt = f_new dt: pgen_run_spec) or inner *)
Theorem pgen_run_sub_spec a r fuel dt rows0 script : ginv_sub a -> dabs fuel a r = Some dt -> start_rows a r = Some rows0 ->
  pgen_run a (pgen_new r) script = f_run (f_new_sub rows0 dt) script.
Proof.
  intros G Hd Hs. unfold start_rows in Hs.
  destruct (aget a r) as [c|] eqn:Hc; [|discriminate].
  destruct (c_parent c) as [pi|] eqn:Hpar.
  - destruct (aget a pi) as [pc|] eqn:Hpc; [|discriminate].
    destruct (find_label (c_children pc) r) as [l|] eqn:Hfl; [|discriminate].
    exact (pgen_run_sub_parent a r fuel dt c pi pc l rows0 script G Hd Hc Hpar Hpc Hfl Hs).
  - injection Hs as <-. rewrite f_new_sub_nil.
    exact (pgen_run_spec a r fuel dt script (ginv_sub_ginv a r c G Hc Hpar) Hd).
Qed.

Theorem sub_spec_run_correct a r fuel script spec : ginv_sub a -> sub_spec_run fuel a r script = Some spec ->
  pgen_run a (pgen_new r) script = spec.
Proof.
  unfold sub_spec_run. intros G H.
  destruct (dabs fuel a r) as [dt|] eqn:Hd; [|discriminate].
  destruct (start_rows a r) as [rows0|] eqn:Hs; [|discriminate].
  injection H as <-. exact (pgen_run_sub_spec a r fuel dt rows0 script G Hd Hs).
Qed.

(* ---------------------------------------------------------------- executable form of ginv_sub *)
Definition gsubb (a : arena acont) : bool :=
  forallb (fun i => match aget a i with Some c => gcell_okb a i c | None => true end) (seq 0 (length a)).

Theorem gsubb_sound a : gsubb a = true -> ginv_sub a.
Proof.
  unfold gsubb. intros Hcells.
  assert (Hcell : forall i c, aget a i = Some c -> gcell_okb a i c = true).
  { intros i c Hc. rewrite forallb_forall in Hcells. specialize (Hcells i).
    rewrite Hc in Hcells. apply Hcells. apply in_seq. pose proof (aget_lt a i c Hc). lia. }
  constructor.
  - intros i c l j Hc Hn. specialize (Hcell i c Hc). unfold gcell_okb in Hcell.
    apply andb_prop in Hcell as [Hcell _]. apply andb_prop in Hcell as [Hcell _]. apply andb_prop in Hcell as [_ Hd].
    rewrite forallb_forall in Hd. specialize (Hd (Some j) (nth_error_In _ _ Hn)). simpl in Hd.
    destruct (aget a j) as [cj|]; [|discriminate]. exists cj. split; [reflexivity|].
    destruct (c_parent cj) as [p|]; [|discriminate]. apply Nat.eqb_eq in Hd. congruence.
  - intros i c l l' j Hc H1 H2. specialize (Hcell i c Hc). unfold gcell_okb in Hcell.
    apply andb_prop in Hcell as [Hcell _]. apply andb_prop in Hcell as [_ Hs]. apply gnodupb_NoDup in Hs.
    exact (nodup_somes_slot _ Hs l l' j H1 H2).
  - intros i c Hc. specialize (Hcell i c Hc). unfold gcell_okb in Hcell.
    apply andb_prop in Hcell as [Hcell _]. apply andb_prop in Hcell as [Hcell _]. apply andb_prop in Hcell as [Hb _].
    apply Nat.leb_le. exact Hb.
  - intros i c l j Hc Hn. specialize (Hcell i c Hc). unfold gcell_okb in Hcell.
    apply andb_prop in Hcell as [_ Hrow]. pose proof (nth_in_somes _ l j Hn) as Hin.
    destruct (somes (c_children c)); [contradiction|].
    apply andb_prop in Hrow as [H1 H2]. split; apply Nat.eqb_eq; assumption.
Qed.

(* ---------------------------------------------------------------- relation to a traversal that started higher up *)
(* d0 added to every depth, pre prepended to every closed row list *)
Definition lift_item (d0 : nat) (pre : list (vec * Qc)) (i : out_item) : out_item :=
  {| o_depth := d0 + o_depth i; o_index := o_index i; o_nrem := o_nrem i; o_rows := pre ++ o_rows i |}.
Definition lift_out (d0 : nat) (pre : list (vec * Qc)) (o : out) : out :=
  match o with OItem i => OItem (lift_item d0 pre i) | OEnd => OEnd | OPanic => OPanic | OSkip => OSkip end.
Definition lift_pend (d0 : nat) (pre : list (vec * Qc)) (p : pend) : pend :=
  {| pd_depth := d0 + pd_depth p; pd_nrem := pd_nrem p; pd_rows := pre ++ pd_rows p; pd_tree := pd_tree p |}.
Definition lift_state (d0 : nat) (pre : list (vec * Qc)) (fs : fstate) : fstate :=
  {| f_pending := map (lift_pend d0 pre) (f_pending fs); f_last := f_last fs |}.

Lemma mk_pending_lift d0 pre depth rows p : forall lcs,
  mk_pending (S (d0 + depth)) (pre ++ rows) p lcs = option_map (map (lift_pend d0 pre)) (mk_pending (S depth) rows p lcs).
Proof.
  induction lcs as [|[l c] lcs IH]; [reflexivity|]. simpl mk_pending. rewrite IH.
  destruct (edge_rows p l) as [r|]; [|reflexivity].
  destruct (mk_pending (S depth) rows p lcs) as [rest|]; [|reflexivity].
  simpl. unfold lift_pend at 2. cbn [pd_depth pd_nrem pd_rows pd_tree].
  rewrite app_assoc, Nat.add_succ_r. reflexivity.
Qed.

Lemma f_next_lift d0 pre fs :
  f_next (lift_state d0 pre fs) =
  match f_next fs with
  | FItem i fs' => FItem (lift_item d0 pre i) (lift_state d0 pre fs')
  | FEnd => FEnd
  | FPanic => FPanic
  end.
Proof.
  unfold f_next, lift_state. cbn [f_pending f_last].
  destruct (f_pending fs) as [|p rest]; [reflexivity|]. cbn [map].
  unfold lift_pend at 1 2 3 4 5 6. cbn [pd_depth pd_nrem pd_rows pd_tree].
  destruct (pd_tree p) as [i f ch].
  rewrite mk_pending_lift.
  destruct (mk_pending (S (pd_depth p)) (pd_rows p) f (label_children 0 ch)) as [new|]; [|reflexivity].
  cbn [option_map]. unfold lift_item. cbn [o_depth o_index o_nrem o_rows f_pending f_last].
  rewrite map_app. reflexivity.
Qed.

Lemma f_skip_lift d0 pre fs : f_skip (lift_state d0 pre fs) = lift_state d0 pre (f_skip fs).
Proof. unfold f_skip, lift_state. cbn [f_pending f_last]. rewrite map_skipn. reflexivity. Qed.

Theorem f_run_lift d0 pre : forall script fs,
  f_run (lift_state d0 pre fs) script = map (lift_out d0 pre) (f_run fs script).
Proof.
  induction script as [|cm script IH]; intros fs; [reflexivity|]. destruct cm; cbn [f_run].
  - rewrite f_next_lift. destruct (f_next fs) as [i fs'| |]; cbn [map lift_out].
    + rewrite IH. reflexivity.
    + rewrite IH. reflexivity.
    + reflexivity.
  - rewrite f_skip_lift, IH. reflexivity.
Qed.

(* the machine that holds r's subtree at depth d0 with the rows pre ++ rows0 (the pending item the traversal from an
   ancestor creates for r: mk_pending appends the edge rows rows0 to the rows pre reported for r's parent) *)
Theorem sub_stream_lift d0 pre rows0 dt script :
  f_run {| f_pending := [ {| pd_depth := d0; pd_nrem := 0; pd_rows := pre ++ rows0; pd_tree := dt |} ]; f_last := 0 |} script
  = map (lift_out d0 pre) (f_run (f_new_sub rows0 dt) script).
Proof.
  rewrite <- f_run_lift. unfold lift_state, f_new_sub, lift_pend. cbn [f_pending f_last map pd_depth pd_nrem pd_rows pd_tree].
  rewrite Nat.add_0_r. reflexivity.
Qed.

(* rows of the sub-tree traversal versus rows of a traversal from above, on the coded machine:
   with_root(r) reports rows0 ++ (rows of the edges from r down to n); a traversal that reaches r with the rows pre
   reported for r's parent reports pre ++ rows0 ++ (rows from r to n), i.e. the sub-tree rows are its last depth+1 groups *)
Theorem pgen_sub_rows a r fuel dt rows0 script d0 pre : ginv_sub a -> dabs fuel a r = Some dt -> start_rows a r = Some rows0 ->
  f_run {| f_pending := [ {| pd_depth := d0; pd_nrem := 0; pd_rows := pre ++ rows0; pd_tree := dt |} ]; f_last := 0 |} script
  = map (lift_out d0 pre) (pgen_run a (pgen_new r) script).
Proof.
  intros G Hd Hs. rewrite (pgen_run_sub_spec a r fuel dt rows0 script G Hd Hs). apply sub_stream_lift.
Qed.

(* ---------------------------------------------------------------- what a traversal from above holds for a child *)
(* the pending items the specification machine creates when it reports a node: one per existing child, one level
   deeper, closed rows = the rows just reported ++ the rows of the edge to that child.  Hence, when a traversal that
   started at an ancestor reaches r, its pending item for r is the one of sub_stream_lift with pre = the rows reported
   for r's parent and rows0 = the edge rows (= start_rows) *)
Lemma mk_pending_rows depth rows p : forall lcs new, mk_pending depth rows p lcs = Some new ->
  Forall (fun q => pd_depth q = depth /\ exists l r0, In (l, pd_tree q) lcs /\ edge_rows p l = Some r0 /\ pd_rows q = rows ++ r0) new.
Proof.
  induction lcs as [|[l c] lcs IH]; intros new H; simpl in H.
  - injection H as <-. constructor.
  - destruct (edge_rows p l) as [r0|] eqn:He; [|discriminate].
    destruct (mk_pending depth rows p lcs) as [rest|]; [|discriminate]. injection H as <-.
    constructor.
    + split; [reflexivity|]. exists l, r0. repeat split; auto. left. reflexivity.
    + eapply Forall_impl; [|exact (IH rest eq_refl)]. intros q (Hd & l' & r' & Hin & He' & Hr).
      split; [exact Hd|]. exists l', r'. repeat split; auto. right. exact Hin.
Qed.

Theorem f_next_children_rows fs oi fs' : f_next fs = FItem oi fs' ->
  exists p rest i f ch new, f_pending fs = p :: rest /\ pd_tree p = DN i f ch /\ o_index oi = i /\
    f_pending fs' = new ++ rest /\ f_last fs' = length new /\
    Forall (fun q => pd_depth q = S (o_depth oi) /\
                     exists l r0, In (l, pd_tree q) (label_children 0 ch) /\ edge_rows f l = Some r0 /\
                                  pd_rows q = o_rows oi ++ r0) new.
Proof.
  unfold f_next. destruct (f_pending fs) as [|p rest]; [discriminate|].
  destruct (pd_tree p) as [i f ch] eqn:Ht.
  destruct (mk_pending (S (pd_depth p)) (pd_rows p) f (label_children 0 ch)) as [new|] eqn:Hm; [|discriminate].
  intros H. injection H as <- <-. exists p, rest, i, f, ch, new. cbn [f_pending f_last o_index o_depth o_rows].
  repeat split; auto.
  - clear -Hm. revert new Hm. generalize (label_children 0 ch). generalize (S (pd_depth p)).
    intros n lcs. induction lcs as [|[l c] lcs IH]; intros new H; simpl in H.
    + injection H as <-. reflexivity.
    + destruct (edge_rows f l); [|discriminate]. destruct (mk_pending n (pd_rows p) f lcs) as [r|]; [|discriminate].
      injection H as <-. simpl. f_equal. apply IH. reflexivity.
  - exact (mk_pending_rows _ _ _ _ _ Hm).
Qed.

(* ---------------------------------------------------------------- non-vacuity *)
(* root 0 = decision over leaf 1 and decision 2; 2 = decision over the leaves 3 and 4.  with_root(2): node 4 is at
   depth 1 off the left-most chain of 2; it carries the row of the edge 0 -1-> 2 followed by the row of 2 -1-> 4 *)
Local Open Scope Qc_scope.
Definition pgs_arena : arena acont :=
  [ Some (mkcell {| ac_aff := pgu_p 1 0; ac_state := Indet |} None [Some 1%nat; Some 2%nat] false);
    pgu_leaf 0;
    Some (mkcell {| ac_aff := pgu_p 1 1; ac_state := Indet |} (Some 0%nat) [Some 3%nat; Some 4%nat] false);
    pgu_leaf 2; pgu_leaf 2 ].
Definition pgs_key (o : out) : nat :=
  match o with OItem i => (100 * o_depth i + 10 * o_index i + o_nrem i)%nat | OSkip => 777%nat | _ => 999%nat end.
Example pgen_run_sub_example :
  gsubb pgs_arena = true /\
  option_map (fun r => rows_eqb r [([1], 0)]) (start_rows pgs_arena 2) = Some true /\
  map pgs_key (pgen_run pgs_arena (pgen_new 2) [Next; Next; Next; Next]) = [20%nat; 131%nat; 140%nat; 999%nat] /\
  map (fun o => rows_eqb (out_rows o) [([1], 0)]) (pgen_run pgs_arena (pgen_new 2) [Next; Next; Next; Next])
    = [true; false; false; false] /\
  map (fun o => rows_eqb (out_rows o) [([1], 0); ([- (1)], - (1))]) (pgen_run pgs_arena (pgen_new 2) [Next; Next; Next; Next])
    = [false; true; false; false] /\
  map (fun o => rows_eqb (out_rows o) [([1], 0); ([1], 1)]) (pgen_run pgs_arena (pgen_new 2) [Next; Next; Next; Next])
    = [false; false; true; false] /\
  (* skip_subtree after the report of 2: the traversal is over *)
  map pgs_key (pgen_run pgs_arena (pgen_new 2) [Next; Skip; Next]) = [20%nat; 777%nat; 999%nat].
Proof. repeat split; vm_compute; reflexivity. Qed.

(* Pwl/WfC.v -- C04: well-formedness of the arena-shaped binary trees (ctree) in the property's words,
   boolean version, link to the ptree predicates wf / outs / bin through erase, embedding of ptrees. *)
From AT Require Import Num Vec Aff PTree Cells Abs Cache Reduce Elim CPrune.

(* every node function is a well-shaped map on R^n; terminals (leaf flag set, as find_terminal reads it) hold a
   function with m rows and have no children; decisions (leaf flag clear) hold a one-row predicate and have at
   least one child -- a childless decision is what find_terminal treats as a terminal holding a predicate *)
Inductive cwf (n m : nat) : ctree -> Prop :=
| cwf_U : cwf n m CU
| cwf_T i f st : wf_aff f -> a_in f = n -> outdim f = m -> cwf n m (CN i true f st CU CU)
| cwf_D i p st c0 c1 : wf_aff p -> a_in p = n -> outdim p = 1%nat ->
    c_exists c0 || c_exists c1 = true -> cwf n m c0 -> cwf n m c1 -> cwf n m (CN i false p st c0 c1).
(* a tree: the root exists *)
Definition cwft (n m : nat) (t : ctree) : Prop := c_exists t = true /\ cwf n m t.

Fixpoint cwfb (n m : nat) (t : ctree) : bool :=
  match t with
  | CU => true
  | CN _ leaf f _ c0 c1 =>
      wf_affb f && Nat.eqb (a_in f) n &&
      (if leaf then Nat.eqb (outdim f) m && negb (c_exists c0) && negb (c_exists c1)
       else Nat.eqb (outdim f) 1 && (c_exists c0 || c_exists c1) && cwfb n m c0 && cwfb n m c1)
  end.
Definition cwftb (n m : nat) (t : ctree) : bool := c_exists t && cwfb n m t.

Lemma cwfb_spec n m t : cwfb n m t = true <-> cwf n m t.
Proof.
  induction t as [|i leaf f st c0 IH0 c1 IH1]; cbn [cwfb].
  - split; auto. constructor.
  - destruct leaf.
    + rewrite !andb_true_iff, wf_affb_spec, !Nat.eqb_eq, !negb_true_iff. split.
      * intros [[Hw Hi] [[Ho H0] H1]]. destruct c0; try discriminate. destruct c1; try discriminate. constructor; auto.
      * intros H. inversion H; subst. auto.
    + rewrite !andb_true_iff, wf_affb_spec, !Nat.eqb_eq, IH0, IH1. split.
      * intros [[Hw Hi] [[[Ho He] H0] H1]]. constructor; auto.
      * intros H. inversion H; subst. auto 10.
Qed.
Lemma cwftb_spec n m t : cwftb n m t = true <-> cwft n m t.
Proof. unfold cwftb, cwft. rewrite andb_true_iff, cwfb_spec. tauto. Qed.

(* ---- the same on ptrees (operands of compositions and operators; the predefined trees) ---- *)
(* binary arena shape: exactly two child slots, at least one child *)
Inductive pshape : ptree -> Prop :=
| ps_U : pshape U
| ps_T f : pshape (T f)
| ps_D p l0 l1 : pexists l0 || pexists l1 = true -> pshape l0 -> pshape l1 -> pshape (D p [l0; l1]).
Fixpoint pshapeb (t : ptree) : bool :=
  match t with
  | D p (l0 :: l1 :: nil) => (pexists l0 || pexists l1) && pshapeb l0 && pshapeb l1
  | D _ _ => false
  | _ => true
  end.
Lemma pshapeb_spec t : pshapeb t = true <-> pshape t.
Proof.
  induction t as [| f | p ch IH] using ptree_ind'.
  - split; auto. constructor.
  - split; auto. constructor.
  - destruct ch as [|l0 [|l1 [|l2 ch]]]; cbn [pshapeb]; try (split; [discriminate | intros H; inversion H]).
    apply Forall_cons_iff in IH as [I0 IH]. apply Forall_cons_iff in IH as [I1 _].
    rewrite !andb_true_iff, I0, I1. split.
    + intros [[He H0] H1]. constructor; auto.
    + intros H. inversion H; subst. auto.
Qed.

Definition pwf (n m : nat) (t : ptree) : Prop := wf n t /\ outs m t /\ bin t /\ pshape t.
Definition pwfb (n m : nat) (t : ptree) : bool := wfb n t && outsb m t && binb t && pshapeb t.
Lemma pwfb_spec n m t : pwfb n m t = true <-> pwf n m t.
Proof. unfold pwfb, pwf. rewrite !andb_true_iff, wfb_spec, outsb_spec, binb_spec, pshapeb_spec. tauto. Qed.

Lemma pwf_T n m f : pwf n m (T f) <-> wf_aff f /\ a_in f = n /\ outdim f = m.
Proof.
  unfold pwf. split.
  - intros [Hw [Ho _]]. inversion Hw; inversion Ho; subst; auto.
  - intros [Hw [Hi Ho]]. repeat split; constructor; auto.
Qed.
Lemma pwf_D n m p l0 l1 : pwf n m (D p [l0; l1]) <->
  wf_aff p /\ a_in p = n /\ outdim p = 1%nat /\ pexists l0 || pexists l1 = true /\ pwf n m l0 /\ pwf n m l1.
Proof.
  unfold pwf. split.
  - intros [Hw [Ho [Hb Hs]]].
    inversion Hw as [| | p1 ch1 Hp Hin Hch]; inversion Ho as [| | p2 ch2 Hoch]; inversion Hb as [| | p3 ch3 Hm Hbi Hbch];
      inversion Hs as [| | p4 a b He Hs0 Hs1]; subst.
    apply Forall_cons_iff in Hch as [W0 Hch]. apply Forall_cons_iff in Hch as [W1 _].
    apply Forall_cons_iff in Hoch as [O0 Hoch]. apply Forall_cons_iff in Hoch as [O1 _].
    apply Forall_cons_iff in Hbch as [B0 Hbch]. apply Forall_cons_iff in Hbch as [B1 _].
    unfold outdim. auto 12.
  - intros [Hp [Hin [Hod [He [[W0 [O0 [B0 S0]]] [W1 [O1 [B1 S1]]]]]]]]. destruct Hp as [Hc Hl]. unfold outdim in Hod.
    repeat split; constructor; auto; try (split; auto); try congruence.
Qed.
Lemma pwf_U n m : pwf n m U.
Proof. repeat split; constructor. Qed.

(* ---- link through erase ---- *)
(* nodes flagged as leaves have empty child slots (the debug_assert of find_terminal) *)
Inductive cleafok : ctree -> Prop :=
| cl_U : cleafok CU
| cl_T i f st : cleafok (CN i true f st CU CU)
| cl_D i p st c0 c1 : cleafok c0 -> cleafok c1 -> cleafok (CN i false p st c0 c1).

Lemma pexists_erase t : pexists (erase t) = c_exists t.
Proof. destruct t as [|i [|] f st c0 c1]; reflexivity. Qed.

Theorem cwf_erase n m t : cwf n m t <-> cleafok t /\ pwf n m (erase t).
Proof.
  induction t as [|i leaf f st c0 IH0 c1 IH1].
  - split; [intros _; split; [constructor | apply pwf_U] | intros _; constructor].
  - destruct leaf; cbn [erase].
    + rewrite pwf_T. split.
      * intros H. inversion H; subst. split; [constructor | auto].
      * intros [Hl [Hw [Hi Ho]]]. inversion Hl; subst. constructor; auto.
    + rewrite pwf_D, !pexists_erase. split.
      * intros H. inversion H as [| | i' p' st' a b Hw Hi Ho He H0 H1]; subst.
        apply IH0 in H0 as [L0 P0]. apply IH1 in H1 as [L1 P1].
        split; [constructor; auto | auto 10].
      * intros [Hl [Hw [Hi [Ho [He [P0 P1]]]]]]. inversion Hl; subst. constructor; auto; [apply IH0 | apply IH1]; auto.
Qed.
Corollary cwf_erase_wf n m t : cwf n m t -> wf n (erase t) /\ outs m (erase t) /\ bin (erase t).
Proof. intros H. apply cwf_erase in H as [_ [Hw [Ho [Hb _]]]]. auto. Qed.

(* evaluation of a well-formed ctree is evaluation of the erased tree *)
Lemma cev_erase n m t x : cwf n m t -> cev t x = eval (erase t) x.
Proof.
  induction 1 as [| i f st Hw Hi Ho | i p st c0 c1 Hw Hi Ho He H0 IH0 H1 IH1]; cbn [cev erase eval]; auto.
  destruct Hw as [_ Hl]. unfold outdim in Ho. unfold decide, prow.
  destruct (a_mat p) as [|r [|r' A]]; try discriminate. destruct (a_bias p) as [|b [|b' B]]; try discriminate.
  cbn [bits label_of hd fst snd]. destruct (qleb (dot r x) b); cbn; auto.
Qed.

(* ---- embedding of (binary) ptrees: fresh nodes without cached state; the root gets arena index 0 (the root's
        index in every AffTree), every other node the dummy index 1 (any non-zero value: is_edge_feasible treats
        edges below index 0 specially) ---- *)
Fixpoint cof_at (i : nat) (t : ptree) : ctree :=
  match t with
  | U => CU
  | T f => CN i true f Indet CU CU
  | D p (l0 :: l1 :: nil) => CN i false p Indet (cof_at 1 l0) (cof_at 1 l1)
  | D _ _ => CU
  end.
Definition cof (t : ptree) : ctree := cof_at 0 t.
Lemma c_exists_cof_at i t : pshape t -> c_exists (cof_at i t) = pexists t.
Proof. destruct 1; reflexivity. Qed.
Lemma erase_cof_at t : pshape t -> forall i, erase (cof_at i t) = t.
Proof. induction 1 as [| f | p l0 l1 He H0 IH0 H1 IH1]; intros i; cbn [cof_at erase]; auto. rewrite IH0, IH1. reflexivity. Qed.
Lemma cleafok_cof_at t : forall i, cleafok (cof_at i t).
Proof.
  induction t as [| f | p ch IH] using ptree_ind'; intros i; cbn [cof_at]; try constructor.
  destruct ch as [|l0 [|l1 [|l2 ch]]]; try constructor.
  - apply Forall_cons_iff in IH as [I0 _]. apply I0.
  - apply Forall_cons_iff in IH as [_ IH]. apply Forall_cons_iff in IH as [I1 _]. apply I1.
Qed.
Lemma c_exists_cof t : pshape t -> c_exists (cof t) = pexists t.
Proof. apply c_exists_cof_at. Qed.
Lemma erase_cof t : pshape t -> erase (cof t) = t.
Proof. intros H. apply erase_cof_at. exact H. Qed.
Lemma cleafok_cof t : cleafok (cof t).
Proof. apply cleafok_cof_at. Qed.
Theorem cwf_cof n m t : pwf n m t -> cwf n m (cof t).
Proof.
  intros H. apply cwf_erase. split; [apply cleafok_cof|]. rewrite erase_cof; auto. apply H.
Qed.
Theorem cwft_cof n m t : pwf n m t -> pexists t = true -> cwft n m (cof t).
Proof. intros H He. split; [rewrite c_exists_cof; auto; apply H | apply cwf_cof; auto]. Qed.

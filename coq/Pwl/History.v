(* Pwl/History.v -- C04: operation histories.  The library's constructors yield well-formed trees; every
   transformation with a dimension-compatible argument completes (no Panic) and yields a well-formed tree, for
   every LP / mirror oracle; hence every finite history does. *)
From AT Require Import Num Vec Aff PTree Ops Cells Abs Cache Reduce Elim CPrune Schema WfC ElimWf CPruneWf OpsWf.

(* ================================================================ constructors *)
Lemma pwf_T_intro n m f : wf_aff f /\ a_in f = n /\ outdim f = m -> pwf n m (T f).
Proof. apply pwf_T. Qed.
Lemma pwf_D_intro n m p l0 l1 : wf_aff p /\ a_in p = n /\ outdim p = 1%nat ->
  pexists l0 || pexists l1 = true -> pwf n m l0 -> pwf n m l1 -> pwf n m (D p [l0; l1]).
Proof. intros [A [B C]] He H0 H1. apply pwf_D. auto 10. Qed.

Lemma sh_rowf n r b : length r = n -> wf_aff (sc_rowf n r b) /\ a_in (sc_rowf n r b) = n /\ outdim (sc_rowf n r b) = 1%nat.
Proof. intros H. unfold wf_aff, sc_rowf, outdim, cols. cbn. repeat split; auto. Qed.
Lemma sh_unit n i : wf_aff (sc_unit n i) /\ a_in (sc_unit n i) = n /\ outdim (sc_unit n i) = 1%nat.
Proof. apply sh_rowf. apply length_unitv. Qed.
Lemma sh_constant n v : wf_aff (sc_constant n v) /\ a_in (sc_constant n v) = n /\ outdim (sc_constant n v) = 1%nat.
Proof. apply sh_rowf. apply length_vzero. Qed.
Lemma length_subrow n l r : length (sc_subrow n l r) = n.
Proof. unfold sc_subrow. rewrite map_length, seq_length. reflexivity. Qed.
Lemma sh_subtraction n l r : wf_aff (sc_subtraction n l r) /\ a_in (sc_subtraction n l r) = n /\ outdim (sc_subtraction n l r) = 1%nat.
Proof. apply sh_rowf. apply length_subrow. Qed.
Lemma sh_identity n : wf_aff (sc_identity n) /\ a_in (sc_identity n) = n /\ outdim (sc_identity n) = n.
Proof.
  unfold wf_aff, sc_identity, outdim, cols, eye. cbn. rewrite map_length, seq_length, length_vzero. repeat split; auto.
  rewrite Forall_map. apply Forall_forall. intros j _. apply length_unitv.
Qed.
Lemma sh_patch n i r b : length r = n -> wf_aff (sc_patch n i r b) /\ a_in (sc_patch n i r b) = n /\ outdim (sc_patch n i r b) = n.
Proof.
  intros H. unfold wf_aff, sc_patch, outdim, cols. cbn. rewrite !map_length, seq_length. repeat split; auto.
  rewrite Forall_map. apply Forall_forall. intros j _. destruct (Nat.eqb j i); [exact H | apply length_unitv].
Qed.
Lemma sh_zero_idx n i : wf_aff (sc_zero_idx n i) /\ a_in (sc_zero_idx n i) = n /\ outdim (sc_zero_idx n i) = n.
Proof. apply sh_patch. apply length_vzero. Qed.
Lemma sh_slice r : wf_aff (sc_slice r) /\ a_in (sc_slice r) = length r /\ outdim (sc_slice r) = length r.
Proof.
  unfold wf_aff, sc_slice, outdim, cols. cbn. rewrite !map_length, seq_length. repeat split; auto.
  rewrite Forall_map. apply Forall_forall. intros j _. destruct (nth j r (Some 0)); [apply length_vzero | apply length_unitv].
Qed.

Ltac shapes :=
  repeat first
    [ apply pwf_T_intro | apply pwf_D_intro | reflexivity
    | apply sh_identity | apply sh_zero_idx | apply sh_unit | apply sh_constant | apply sh_subtraction
    | apply sh_patch | apply sh_rowf
    | rewrite length_vopp | rewrite length_vscale | apply length_unitv | apply length_vzero ].

Lemma pwf_partial_relu n i : pwf n n (partial_relu n i).
Proof. unfold partial_relu. shapes. Qed.
Lemma pwf_partial_leaky_relu n i alpha : pwf n n (partial_leaky_relu n i alpha).
Proof. unfold partial_leaky_relu. shapes. Qed.
Lemma pwf_partial_hard_tanh n i lo hi : pwf n n (partial_hard_tanh n i lo hi).
Proof. unfold partial_hard_tanh. shapes. Qed.
Lemma pwf_partial_hard_shrink n i lam : pwf n n (partial_hard_shrink n i lam).
Proof. unfold partial_hard_shrink. shapes. Qed.
Lemma pwf_partial_hard_sigmoid n i s : pwf n n (partial_hard_sigmoid n i s).
Proof. unfold partial_hard_sigmoid. shapes. Qed.
Lemma pwf_partial_threshold n i theta v : pwf n n (partial_threshold n i theta v).
Proof. unfold partial_threshold. shapes. Qed.

Lemma pwf_argmax_node n : forall fuel j c, pwf n 1 (argmax_node n fuel j c) /\ pexists (argmax_node n fuel j c) = true.
Proof.
  induction fuel as [|f IH]; intros j c; cbn [argmax_node].
  - split; [shapes | reflexivity].
  - destruct (IH (S j) j) as [A X]. destruct (IH (S j) c) as [B Y]. split; [ | reflexivity].
    apply pwf_D_intro; auto; [apply sh_subtraction | rewrite X; reflexivity].
Qed.
Lemma pwf_argmax n : pwf n 1 (argmax n).
Proof. apply pwf_argmax_node. Qed.

Lemma pwf_chain n m rows no yes : pwf n m no -> pwf n m yes -> pexists yes = true ->
  Forall (fun rb : vec * Qc => length (fst rb) = n) rows ->
  pwf n m (chain n rows no yes) /\ pexists (chain n rows no yes) = true.
Proof.
  intros Hno Hyes He. induction 1 as [|rb rows Hr Hrows IH]; cbn [chain].
  - auto.
  - destruct IH as [A X]. split; [ | reflexivity]. apply pwf_D_intro; auto; [apply sh_rowf; exact Hr|].
    rewrite X. apply orb_true_r.
Qed.
Lemma pwf_class_characterization n c : pwf n 1 (class_characterization n c) /\ pexists (class_characterization n c) = true.
Proof.
  unfold class_characterization. apply pwf_chain; try (shapes; fail).
  unfold class_rows. rewrite Forall_map. apply Forall_forall. intros k _. apply length_subrow.
Qed.
Lemma pwf_inf_norm n lo hi : pwf n 1 (inf_norm n lo hi) /\ pexists (inf_norm n lo hi) = true.
Proof.
  unfold inf_norm. apply pwf_chain; try (shapes; fail).
  unfold inf_norm_rows. apply Forall_app. split.
  - destruct lo; [ | constructor]. unfold min_rows. rewrite Forall_map. apply Forall_forall. intros k _. cbn. rewrite length_vopp. apply length_unitv.
  - destruct hi; [ | constructor]. unfold max_rows. rewrite Forall_map. apply Forall_forall. intros k _. apply length_unitv.
Qed.
Lemma pwf_from_poly P f g : wf_aff P -> a_in P = a_in f -> wf_aff f ->
  match g with Some g' => wf_aff g' /\ a_in g' = a_in f /\ outdim g' = outdim f | None => True end ->
  pwf (a_in f) (outdim f) (from_poly P f g) /\ pexists (from_poly P f g) = true.
Proof.
  intros [HP _] HPi Hf Hg. unfold from_poly. apply pwf_chain.
  - destruct g as [g'|]; [ | apply pwf_U]. destruct Hg as [A [B C]]. apply pwf_T_intro; auto.
  - apply pwf_T_intro; auto.
  - reflexivity.
  - unfold poly_rows. apply Forall_forall. intros [r b] Hin. apply in_combine_l in Hin. cbn [fst].
    unfold cols in HP. rewrite Forall_forall in HP. rewrite <- HPi. apply HP. exact Hin.
Qed.

(* the trees the library's constructors produce (as ptrees: Distill/Schema.v models them node for node), under the
   conditions under which the constructor returns a tree at all (otherwise it panics or returns Err), with
   dimension-compatible arguments (from_poly: the else-branch has the output dimension of the main branch) *)
Inductive lib_tree : nat -> nat -> ptree -> Prop :=
| L_new dim : lib_tree dim dim (T (sc_identity dim))
| L_from_aff f : wf_aff f -> lib_tree (a_in f) (outdim f) (T f)
| L_from_slice r : lib_tree (length r) (length r) (from_slice r)
| L_from_poly P f g t : wf_aff P -> wf_aff f ->
    match g with Some g' => wf_aff g' /\ outdim g' = outdim f | None => True end ->
    from_poly_res P f g = SOk t -> lib_tree (a_in f) (outdim f) t
| L_relu n i : act_defined n i = true -> lib_tree n n (partial_relu n i)
| L_leaky_relu n i alpha : act_defined n i = true -> lib_tree n n (partial_leaky_relu n i alpha)
| L_hard_tanh n i lo hi : hard_tanh_defined n i lo hi = true -> lib_tree n n (partial_hard_tanh n i lo hi)
| L_hard_shrink n i lam : act_defined n i = true -> lib_tree n n (partial_hard_shrink n i lam)
| L_hard_sigmoid n i s : act_defined n i = true -> lib_tree n n (partial_hard_sigmoid n i s)
| L_threshold n i theta v : act_defined n i = true -> lib_tree n n (partial_threshold n i theta v)
| L_argmax n : argmax_defined n = true -> lib_tree n 1 (argmax n)
| L_class n c : class_defined n c = true -> lib_tree n 1 (class_characterization n c)
| L_inf_norm n lo hi : inf_norm_defined n lo hi = true -> lib_tree n 1 (inf_norm n lo hi).

Theorem lib_tree_pwf n m p : lib_tree n m p -> pwf n m p /\ pexists p = true.
Proof.
  destruct 1 as [dim | f Hf | r | P f g t HP Hf Hg Hres | n i Hd | n i alpha Hd | n i lo hi Hd | n i lam Hd | n i s Hd
                | n i theta v Hd | n Hd | n c Hd | n lo hi Hd].
  - split; [shapes | reflexivity].
  - split; [apply pwf_T_intro; auto | reflexivity].
  - split; [apply pwf_T_intro; apply sh_slice | reflexivity].
  - unfold from_poly_res in Hres.
    destruct (Nat.eqb (a_in P) (a_in f)) eqn:E1; cbn [negb] in Hres; try discriminate.
    destruct (Nat.eqb (length (a_mat P)) 0); try discriminate.
    apply Nat.eqb_eq in E1.
    destruct g as [g'|].
    + destruct (Nat.eqb (a_in P) (a_in g')) eqn:E2; cbn [negb] in Hres; try discriminate.
      apply Nat.eqb_eq in E2. inversion Hres; subst t. destruct Hg as [Hg1 Hg2]. apply pwf_from_poly; auto.
      split; [exact Hg1 | split; [congruence | exact Hg2]].
    + inversion Hres; subst t. apply pwf_from_poly; auto.
  - split; [apply pwf_partial_relu | reflexivity].
  - split; [apply pwf_partial_leaky_relu | reflexivity].
  - split; [apply pwf_partial_hard_tanh | reflexivity].
  - split; [apply pwf_partial_hard_shrink | reflexivity].
  - split; [apply pwf_partial_hard_sigmoid | reflexivity].
  - split; [apply pwf_partial_threshold | reflexivity].
  - split; [apply pwf_argmax | apply pwf_argmax_node].
  - apply pwf_class_characterization.
  - apply pwf_inf_norm.
Qed.

(* an arena-shaped tree produced by a constructor: any assignment of arena indices and cached states to the
   nodes of a library tree, leaf flags set exactly at the nodes without children *)
Definition constructed (n m : nat) (t : ctree) : Prop := cleafok t /\ lib_tree n m (erase t).
Theorem constructed_cwft n m t : constructed n m t -> cwft n m t.
Proof.
  intros [Hl Ht]. apply lib_tree_pwf in Ht as [Hp He]. split.
  - rewrite <- pexists_erase. exact He.
  - apply cwf_erase. auto.
Qed.
Corollary constructed_cof n m p : lib_tree n m p -> constructed n m (cof p).
Proof.
  intros H. pose proof (lib_tree_pwf n m p H) as [[_ [_ [_ Hs]]] _]. split; [apply cleafok_cof|]. rewrite erase_cof; auto.
Qed.

(* ================================================================ transformations *)
Inductive bop := BAdd | BSub | BMul | BDiv.
Definition bop_fun (b : bop) : Qc -> Qc -> Qc :=
  match b with BAdd => Qcplus | BSub => Qcminus | BMul => Qcmult | BDiv => Qcdiv end.

Inductive op :=
| OApply (a : aff)                      (* apply_func(a) *)
| OCompose (prune : bool) (g : ptree)   (* compose::<prune, _>(g), g a predefined tree or any other tree *)
| OElim                                 (* infeasible_elimination *)
| OReduce                               (* reduce *)
| OTree (b : bop) (g : ptree)           (* self (b) g: lifted operator, pruning on the fly *)
| ONeg                                  (* -self *)
| OAffR (b : bop) (g : aff)             (* self (b) g *)
| OAffL (b : bop) (g : aff).            (* g (b) self *)

Inductive hres := HOk (t : ctree) | HPanic.

(* every node flagged as a terminal satisfies P (what terminal_indices / terminals_mut iterate over) *)
Fixpoint terms_all (P : aff -> bool) (t : ctree) : bool :=
  match t with
  | CU => true
  | CN _ leaf f _ c0 c1 => if leaf then P f else terms_all P c0 && terms_all P c1
  end.
Fixpoint pterms_all (P : aff -> bool) (t : ptree) : bool :=
  match t with
  | U => true
  | T f => P f
  | D _ ch => forallb (pterms_all P) ch
  end.
(* input dimension of the function at the root of an operand *)
Definition pin (g : ptree) : nat := match g with U => 0%nat | T f => a_in f | D p _ => a_in p end.
(* output dimension of the first terminal of an operand *)
Fixpoint pout (g : ptree) : nat :=
  match g with
  | U => 0%nat
  | T f => outdim f
  | D _ ch => (fix go (l : list ptree) : nat :=
                 match l with [] => 0%nat | c :: l' => if pexists c then pout c else go l' end) ch
  end.

(* One transformation as the code performs it.  Panic = the dimension asserts of the code:
   - AffFunc::compose (apply_func; update_terminal of the composition) asserts indim == outdim,
     update_decision multiplies the predicate matrix with the terminal matrix (ndarray shape check);
   - the coefficient-wise operators go through from_mats on matrices/biases of equal shape.
   Operands that are not binary trees are outside the K = 2 model (the code would panic on a label >= 2). *)
Definition step (tol : Qc) (o : oracle) (x : op) (t : ctree) : hres :=
  match x with
  | OApply a =>
      if terms_all (fun f => Nat.eqb (outdim f) (a_in a)) t then HOk (capply_func a t) else HPanic
  | OCompose pr g =>
      if negb (pshapeb g && binb g) then HPanic
      else if terms_all (fun f => Nat.eqb (outdim f) (pin g)) t
      then HOk (if pr then fst (compose_prune o tol t g) else ccompose t g) else HPanic
  | OElim => HOk (fst (elim o tol t))
  | OReduce => HOk (creduce t)
  | OTree b g =>
      if negb (pshapeb g && binb g) then HPanic
      else if terms_all (fun f => pterms_all (fun h => same_shapeb f h) g) t
      then HOk (fst (cprune o tol (op_schema (bop_fun b)) g t [] k0)) else HPanic
  | ONeg => HOk (cneg t)
  | OAffR b g => if terms_all (fun f => same_shapeb f g) t then HOk (cop_r (bop_fun b) g t) else HPanic
  | OAffL b g => if terms_all (fun f => same_shapeb g f) t then HOk (cop_l (bop_fun b) g t) else HPanic
  end.

(* dimension compatibility of the argument with a tree on R^n whose terminals have m rows (decidable);
   argument trees are themselves well-formed library trees *)
Definition compat (x : op) (n m : nat) : bool :=
  match x with
  | OApply a => wf_affb a && Nat.eqb (a_in a) m
  | OCompose _ g => pexists g && pwfb m (pout g) g
  | OTree _ g => pexists g && pwfb n m g
  | OAffR _ g | OAffL _ g => wf_affb g && Nat.eqb (a_in g) n && Nat.eqb (outdim g) m
  | OElim | OReduce | ONeg => true
  end.
(* dimensions of the tree after the transformation *)
Definition next_dims (x : op) (nm : nat * nat) : nat * nat :=
  match x with
  | OApply a => (fst nm, outdim a)
  | OCompose _ g => (fst nm, pout g)
  | _ => nm
  end.

Lemma terms_all_cwf P n m t : cwf n m t ->
  (forall f, wf_aff f -> a_in f = n -> outdim f = m -> P f = true) -> terms_all P t = true.
Proof.
  intros Hw HP. induction Hw as [| i f st Hf Hi Ho | i p st c0 c1 Hf Hi Ho He H0 IH0 H1 IH1]; cbn [terms_all]; auto.
  rewrite IH0, IH1. reflexivity.
Qed.
Lemma pterms_all_pwf P n m g : pwf n m g ->
  (forall f, wf_aff f -> a_in f = n -> outdim f = m -> P f = true) -> pterms_all P g = true.
Proof.
  intros Hg HP. induction g as [| f | p ch IH] using ptree_ind'; cbn [pterms_all]; auto.
  - apply pwf_T in Hg as [A [B C]]. auto.
  - destruct Hg as [Hw [Ho [Hb Hs]]]. inversion Hs as [| | p' l0 l1 He Hs0 Hs1]; subst p' ch.
    assert (HL : pwf n m (D p [l0; l1])) by (repeat split; auto).
    apply pwf_D in HL as [_ [_ [_ [_ [P0 P1]]]]].
    apply Forall_cons_iff in IH as [IH0 IH]. apply Forall_cons_iff in IH as [IH1 _].
    cbn [forallb]. rewrite IH0, IH1; auto.
Qed.
Lemma pin_pwf n m g : pwf n m g -> pexists g = true -> pin g = n.
Proof.
  intros [Hw _] He. destruct g as [| f | p ch]; try discriminate; inversion Hw; auto.
Qed.
Lemma pwf_shape n m g : pwf n m g -> pshapeb g && binb g = true.
Proof. intros [_ [_ [Hb Hs]]]. apply binb_spec in Hb. apply pshapeb_spec in Hs. rewrite Hb, Hs. reflexivity. Qed.

(* ---- one step: a compatible argument never panics and the result is well-formed, whatever the oracle says ---- *)
Theorem step_ok tol o x n m t : cwft n m t -> compat x n m = true ->
  exists t', step tol o x t = HOk t' /\ cwft (fst (next_dims x (n, m))) (snd (next_dims x (n, m))) t'.
Proof.
  intros Ht Hc. pose proof Ht as [He Hw]. destruct x as [a | pr g | | | b g | | b g | b g]; cbn [step compat next_dims fst snd] in *.
  - apply andb_true_iff in Hc as [Ha Hi]. apply wf_affb_spec in Ha. apply Nat.eqb_eq in Hi.
    rewrite (terms_all_cwf _ n m t Hw). 2:{ intros f _ _ Ho. apply Nat.eqb_eq. congruence. }
    eexists. split; [reflexivity|]. apply capply_func_cwft with (m := m); auto.
  - apply andb_true_iff in Hc as [Hg Hp]. apply pwfb_spec in Hp.
    rewrite (pwf_shape _ _ _ Hp). cbn [negb].
    rewrite (terms_all_cwf _ n m t Hw). 2:{ intros f _ _ Ho. apply Nat.eqb_eq. rewrite (pin_pwf _ _ _ Hp Hg). exact Ho. }
    eexists. split; [reflexivity|]. destruct pr.
    + apply compose_prune_cwft with (m := m); auto.
    + apply ccompose_cwft with (m := m); auto.
  - eexists. split; [reflexivity|]. apply elim_cwft. exact Ht.
  - eexists. split; [reflexivity|]. apply creduce_cwft. exact Ht.
  - apply andb_true_iff in Hc as [Hg Hp]. apply pwfb_spec in Hp.
    rewrite (pwf_shape _ _ _ Hp). cbn [negb].
    rewrite (terms_all_cwf _ n m t Hw).
    2:{ intros f _ Hi Ho. apply (pterms_all_pwf _ n m g Hp). intros h _ Hhi Hho.
        unfold same_shapeb. rewrite Hi, Hhi, Ho, Hho, !Nat.eqb_refl. reflexivity. }
    eexists. split; [reflexivity|]. apply op_prune_cwft; auto.
  - eexists. split; [reflexivity|]. apply cneg_cwft. exact Ht.
  - apply andb_true_iff in Hc as [Hc Ho]. apply andb_true_iff in Hc as [Hg Hi].
    apply wf_affb_spec in Hg. apply Nat.eqb_eq in Hi. apply Nat.eqb_eq in Ho.
    rewrite (terms_all_cwf _ n m t Hw).
    2:{ intros f _ Hfi Hfo. unfold same_shapeb. rewrite Hi, Hfi, Ho, Hfo, !Nat.eqb_refl. reflexivity. }
    eexists. split; [reflexivity|]. apply cop_r_cwft; auto.
  - apply andb_true_iff in Hc as [Hc Ho]. apply andb_true_iff in Hc as [Hg Hi].
    apply wf_affb_spec in Hg. apply Nat.eqb_eq in Hi. apply Nat.eqb_eq in Ho.
    rewrite (terms_all_cwf _ n m t Hw).
    2:{ intros f _ Hfi Hfo. unfold same_shapeb. rewrite Hi, Hfi, Ho, Hfo, !Nat.eqb_refl. reflexivity. }
    eexists. split; [reflexivity|]. apply cop_l_cwft; auto.
Qed.

(* ---- histories: every step has its own, arbitrary, oracle ---- *)
Definition run (tol : Qc) (init : ctree) (ops : list (oracle * op)) : hres :=
  fold_left (fun acc ox => match acc with HOk t => step tol (fst ox) (snd ox) t | HPanic => HPanic end) ops (HOk init).
Fixpoint compat_hist (nm : nat * nat) (ops : list (oracle * op)) : bool :=
  match ops with
  | [] => true
  | ox :: rest => compat (snd ox) (fst nm) (snd nm) && compat_hist (next_dims (snd ox) nm) rest
  end.
Definition final_dims (nm : nat * nat) (ops : list (oracle * op)) : nat * nat :=
  fold_left (fun d ox => next_dims (snd ox) d) ops nm.

Theorem history_ok tol : forall ops n m init,
  cwft n m init -> compat_hist (n, m) ops = true ->
  exists t, run tol init ops = HOk t /\ cwft (fst (final_dims (n, m) ops)) (snd (final_dims (n, m) ops)) t.
Proof.
  unfold run, final_dims. induction ops as [|[o x] rest IH]; intros n m init Hi Hc; cbn [fold_left compat_hist fst snd] in *.
  - exists init. auto.
  - apply andb_true_iff in Hc as [Hc Hr].
    destruct (step_ok tol o x n m init Hi Hc) as [t' [Es Ht']]. rewrite Es.
    destruct (next_dims x (n, m)) as [n' m'] eqn:Ed. cbn [fst snd] in *.
    apply (IH n' m' t' Ht' Hr).
Qed.
Theorem history_from_constructor tol ops n m init :
  constructed n m init -> compat_hist (n, m) ops = true ->
  exists t, run tol init ops = HOk t /\ cwft (fst (final_dims (n, m) ops)) (snd (final_dims (n, m) ops)) t.
Proof. intros Hc. apply history_ok. apply constructed_cwft. exact Hc. Qed.

(* a further compatible operation of any kind completes on the result of a history *)
Corollary history_then_usable tol ops n m init o x :
  constructed n m init -> compat_hist (n, m) ops = true ->
  compat x (fst (final_dims (n, m) ops)) (snd (final_dims (n, m) ops)) = true ->
  exists t t', run tol init ops = HOk t /\ step tol o x t = HOk t'.
Proof.
  intros Hc Hh Hx. destruct (history_from_constructor tol ops n m init Hc Hh) as [t [Er Ht]].
  destruct (step_ok tol o x _ _ t Ht Hx) as [t' [Es _]]. eauto.
Qed.

(* results of histories can serve as arguments of later transformations *)
Lemma cwft_operand n m t : cwft n m t -> pexists (erase t) = true /\ pwf n m (erase t).
Proof. intros [He Hw]. rewrite pexists_erase. split; [exact He | apply cwf_erase; exact Hw]. Qed.

(* ---- the Panic outcomes of the model are the dimension mismatches (read with the mirror comparison of outcomes) ---- *)
Lemma terms_all_cwf_false P n m t : cwf n m t -> c_exists t = true ->
  (forall f, wf_aff f -> a_in f = n -> outdim f = m -> P f = false) -> terms_all P t = false.
Proof.
  intros Hw He HP. revert He.
  induction Hw as [| i f st Hf Hi Ho | i p st c0 c1 Hf Hi Ho Hex H0 IH0 H1 IH1]; cbn [terms_all c_exists]; intros He; auto; try discriminate.
  destruct (c_exists c0) eqn:X0.
  - rewrite IH0; auto.
  - cbn [orb] in Hex. rewrite IH1; auto. apply andb_false_r.
Qed.
Theorem step_apply_panics tol o n m t a : cwft n m t -> a_in a <> m -> step tol o (OApply a) t = HPanic.
Proof.
  intros [He Hw] Hne. cbn [step]. rewrite (terms_all_cwf_false _ n m t Hw He); auto.
  intros f _ _ Ho. apply Nat.eqb_neq. congruence.
Qed.
Theorem step_compose_panics tol o n m t pr g kk m' : cwft n m t -> pwf kk m' g -> pexists g = true -> kk <> m ->
  step tol o (OCompose pr g) t = HPanic.
Proof.
  intros [He Hw] Hg Hx Hne. cbn [step]. rewrite (pwf_shape _ _ _ Hg). cbn [negb].
  rewrite (terms_all_cwf_false _ n m t Hw He); auto.
  intros f _ _ Ho. apply Nat.eqb_neq. rewrite (pin_pwf _ _ _ Hg Hx). congruence.
Qed.
Theorem step_aff_panics tol o n m t b g : cwft n m t -> (a_in g <> n \/ outdim g <> m) ->
  step tol o (OAffR b g) t = HPanic /\ step tol o (OAffL b g) t = HPanic.
Proof.
  intros [He Hw] Hne. cbn [step]. rewrite !(terms_all_cwf_false _ n m t Hw He); auto.
  - intros f _ Hi Ho. unfold same_shapeb. apply andb_false_iff. destruct Hne as [Hne | Hne]; [left | right]; apply Nat.eqb_neq; congruence.
  - intros f _ Hi Ho. unfold same_shapeb. apply andb_false_iff. destruct Hne as [Hne | Hne]; [left | right]; apply Nat.eqb_neq; congruence.
Qed.

(* Pwl/AElimFinal.v -- the final removal loop of infeasible_elimination (AElim.ae_final over the to_remove queue):
   run on an arena that holds the tree as the traversal leaves it (the u-component of AElimTwo.elim2) it yields an
   arena that holds Elim.elim_sub's result (the r-component), i.e. it realises slot0 / slot1 of Elim.v, including
   "never the last remaining child", and the queue entries whose node was merged away or removed do nothing. *)
From AT Require Import Num Vec Aff PTree Cells Abs Tree TreeLemmas Cache Elim ElimEval ElimCache AElim AElimBase AElimOps AElimTwo.

Lemma final_app es1 : forall es2 a,
  ae_final (es1 ++ es2) a = match ae_final es1 a with Some a1 => ae_final es2 a1 | None => None end.
Proof.
  induction es1 as [|[l n] es1 IH]; intros es2 a; cbn [app ae_final]; [reflexivity|].
  destruct (Nat.ltb 1 (match aget a n with Some c => count_some (c_children c) | None => 0%nat end)); [|apply IH].
  destruct (ae_try_remove_child a n l); auto.
Qed.
Lemma final_skip_none l n a : aget a n = None -> ae_final [(l, n)] a = Some a.
Proof. intros H. cbn [ae_final]. rewrite H. reflexivity. Qed.
Lemma final_skip_one l n a c : aget a n = Some c -> (count_some (c_children c) <= 1)%nat -> ae_final [(l, n)] a = Some a.
Proof.
  intros H Hc. cbn [ae_final]. rewrite H. destruct (Nat.ltb_spec 1 (count_some (c_children c))); [lia | reflexivity].
Qed.
Lemma final_noop es : forall a,
  (forall l n, In (l, n) es -> aget a n = None \/ exists c, aget a n = Some c /\ (count_some (c_children c) <= 1)%nat) ->
  ae_final es a = Some a.
Proof.
  induction es as [|[l n] es IH]; intros a H; [reflexivity|].
  change ((l, n) :: es) with ([(l, n)] ++ es). rewrite final_app.
  destruct (H l n (or_introl eq_refl)) as [Hn|[c [Hn Hc]]].
  - rewrite final_skip_none by exact Hn. apply IH. intros l' n' Hn'. apply (H l' n'). right; exact Hn'.
  - rewrite (final_skip_one _ _ _ _ Hn Hc). apply IH. intros l' n' Hn'. apply (H l' n'). right; exact Hn'.
Qed.

(* an entry whose node has both children: the child under the label goes, with its sub-tree *)
Lemma final_remove a i l f s par j0 j1 t j :
  aget a i = Some (ae_cell f s par [Some j0; Some j1] false) ->
  nth_error [Some j0; Some j1] l = Some (Some j) -> cidx t = Some j -> wfn a (Some i) t -> NoDup (idxs t) -> ~ In i (idxs t) ->
  exists a', ae_final [(l, i)] a = Some a' /\
    aget a' i = Some (ae_cell f s par (set_nth [Some j0; Some j1] l None) false) /\
    (forall x, In x (idxs t) -> aget a' x = None) /\
    (forall x, ~ In x (idxs t) -> x <> i -> aget a' x = aget a x).
Proof.
  intros Hi Hl Hj Hw Hnd Hni.
  destruct (try_remove_child_spec a i l f s par (Some j0) (Some j1) false t j Hi Hl Hj Hw Hnd Hni) as [a' [Hr [Hi' [Hg Ho]]]].
  exists a'. cbn [ae_final]. rewrite Hi. cbn [ae_cell c_children count_some somes length Nat.ltb Nat.leb]. rewrite Hr.
  split; [reflexivity|]. split; [|split; assumption].
  rewrite Hi'. destruct l as [|[|l]]; cbn in Hl |- *; try discriminate; reflexivity.
Qed.

Definition dead (A : arena acont) (t u : ctree) : Prop :=
  forall j, In j (idxs t) -> ~ In j (idxs u) -> aget A j = None.
Definition FLP (t u r : ctree) (es : list (nat * nat)) : Prop :=
  forall A par, wfn A par u -> dead A t u ->
    exists A', ae_final es A = Some A' /\ wfn A' par r /\
      (forall j, ~ In j (idxs u) -> aget A' j = aget A j) /\
      (forall j, In j (idxs u) -> ~ In j (idxs r) -> aget A' j = None).

Lemma FLP_triv t u : FLP t u u [].
Proof. intros A par Hw _. exists A. split; [reflexivity|]. split; [exact Hw|]. split; [auto|]. intros j Hj Hn. contradiction. Qed.

Lemma sub_in u t j : sub_idx u t -> In j (idxs u) -> In j (idxs t).
Proof. intros [H _]. apply H. Qed.

Lemma in_cn j i l f s c0 c1 : In j (idxs (CN i l f s c0 c1)) <-> j = i \/ In j (idxs c0) \/ In j (idxs c1).
Proof. cbn [idxs In]. rewrite in_app_iff. intuition. Qed.

Lemma count_le1_l o : (count_some [o; None] <= 1)%nat.
Proof. destruct o; cbn; lia. Qed.
Lemma count_le1_r o : (count_some [None; o] <= 1)%nat.
Proof. destruct o; cbn; lia. Qed.

Ltac wfin := repeat split; auto; try congruence.

Theorem final_realises o tol : forall t isroot q st k u r k' es,
  elim2 o tol isroot q st t k = (u, r, k', es) -> NoDup (idxs t) -> FLP t u r es.
Proof.
  induction t as [|i leaf p s' c0 IH0 c1 IH1]; intros isroot q st k u r k' es H Hnd.
  - cbn in H. inversion H; subst. apply FLP_triv.
  - destruct leaf; [cbn in H; inversion H; subst; apply FLP_triv|].
    rewrite elim2_unfold in H. cbv zeta in H.
    destruct (nodup_cn _ _ _ Hnd) as [Hi0 [Hi1 [N0 [N1 D01]]]].
    (* child 0: either its entries are those of its own sub-tree (or none), or it is marked *)
    assert (C0 : forall u0 r0 k2 e0 f0, two_child0 o tol i st (q ++ [row0 p]) (row0 p) c0 k = (u0, r0, k2, e0, f0) ->
                 sub_idx u0 c0 /\ sub_idx r0 u0 /\ cidx r0 = cidx u0 /\ (forall l n, In (l, n) e0 -> n = i \/ In n (idxs c0)) /\
                 ((FLP c0 u0 r0 e0 /\ f0 && is_infeas (c_state u0) = false) \/
                  (f0 = true /\ r0 = u0 /\ e0 = [(0%nat, i)] /\ c_exists u0 = true /\ is_infeas (c_state u0) = true))).
    { intros u0 r0 k2 e0 f0 E. unfold two_child0 in E.
      destruct c0 as [|j0 l0 p0 s0' a0 b0].
      { inversion E; subst. split; [apply sub_idx_refl|]. split; [apply sub_idx_refl|]. split; [reflexivity|]. split; [intros l n []|].
        left. split; [apply FLP_triv | reflexivity]. }
      set (c0 := CN j0 l0 p0 s0' a0 b0) in *.
      destruct (visit o tol st (q ++ [row0 p]) (row0 p) c0 k) as [[[s0 k1] fr0] skip0] eqn:Ev.
      pose proof (visit_skip _ _ _ _ _ _ _ _ _ _ _ Ev) as Hsk.
      destruct skip0.
      - inversion E; subst u0 r0 k2 e0 f0. split; [exact (sub_idx_set_st s0 c0)|]. split; [apply sub_idx_refl|]. split; [reflexivity|].
        split; [intros l n Hn; destruct fr0; [destruct Hn as [Hn|[]]; inversion Hn; auto | destruct Hn]|].
        destruct fr0.
        + right. split; [reflexivity|]. split; [reflexivity|]. split; [reflexivity|]. split; [reflexivity|].
          cbn [c0 set_st c_state]. symmetry. exact Hsk.
        + left. split; [apply FLP_triv | reflexivity].
      - destruct (elim2 o tol false (q ++ [row0 p]) s0 c0 k1) as [[[u' r'] k''] e'] eqn:E2.
        inversion E; subst u' r' k'' e' f0.
        destruct (elim2_shape o tol _ _ _ _ _ _ _ _ _ E2) as [I1 [I2 [I3 _]]].
        destruct (elim2_sub o tol _ _ _ _ _ _ _ _ _ E2) as [Es [Ss Sc]].
        split; [exact I1|]. split; [exact I2|]. split; [exact Sc|]. split; [intros l n Hn; right; eapply I3; eauto|].
        left. split; [eapply IH0; eauto|].
        destruct fr0; [|reflexivity]. cbn [andb].
        pose proof (elim_sub_state o tol c0 false (q ++ [row0 p]) s0 k1 eq_refl) as St. rewrite Es in St. cbn [fst] in St.
        rewrite <- Ss. destruct St as [->|Sf]; [symmetry in Hsk; exact Hsk | apply feas_not_infeas; exact Sf]. }
    destruct (two_child0 o tol i st (q ++ [row0 p]) (row0 p) c0 k) as [[[[u0 r0] k2] e0] fresh0] eqn:E0.
    destruct (C0 _ _ _ _ _ eq_refl) as [SU0 [SR0 [X0 [EN0 K0]]]]. clear C0.
    assert (Hu0c : forall j, In j (idxs u0) -> In j (idxs c0)) by (intros j; apply sub_in; exact SU0).
    assert (Hr0c : forall j, In j (idxs r0) -> In j (idxs c0)) by (intros j Hj; apply Hu0c; eapply sub_in; eauto).
    assert (Nu0 : NoDup (idxs u0)) by (apply SU0; exact N0).
    assert (Hiu0 : ~ In i (idxs u0)) by (intros C; apply Hi0; auto).
    destruct c1 as [|j1 l1 p1 s1' a1 b1].
    { (* only child 0 *)
      inversion H; subst u r k' es. clear H. intros A par Hw Hd. cbn [wfn] in Hw. destruct Hw as [Hc [Hlf [W0 _]]].
      destruct K0 as [[F0 _]|[_ [-> [-> [Hex _]]]]].
      - destruct (F0 A (Some i) W0) as [A1 [Hf [W1 [Fr Gn]]]].
        { intros j Hj Hnj. apply Hd; [apply in_cn; auto|]. rewrite in_cn. intros [->|[C|[]]]; contradiction. }
        exists A1. split; [exact Hf|]. split; [|split].
        + cbn [wfn]. rewrite Fr by exact Hiu0. rewrite X0. wfin.
        + intros j Hj. apply Fr. intros C. apply Hj. apply in_cn; auto.
        + intros j Hj Hnj. rewrite in_cn in Hj. rewrite in_cn in Hnj. destruct Hj as [->|[Hj|[]]]; [exfalso; apply Hnj; auto|].
          apply Gn; [exact Hj | intros C; apply Hnj; auto].
      - exists A. split; [|split; [cbn [wfn]; wfin | split; [auto | intros j Hj Hn; contradiction]]].
        eapply final_skip_one; [exact Hc|]. apply count_le1_l. }
    set (c1 := CN j1 l1 p1 s1' a1 b1) in *.
    destruct (visit o tol st (q ++ [row1 p]) (row1 p) c1 k2) as [[[s1 k3] fr1] skip1] eqn:Ev1.
    pose proof (visit_skip _ _ _ _ _ _ _ _ _ _ _ Ev1) as Hsk1.
    destruct (fr1 && c_exists u0 && (is_feas (c_state u0) && is_infeas s1 || is_infeas (c_state u0) && is_feas s1)) eqn:Efwd.
    + apply andb_true_iff in Efwd as [Efa Efb]. apply andb_true_iff in Efa as [Efr Eex]. subst fr1.
      destruct (is_feas s1) eqn:Ef1.
      * (* c1 moves up *)
        destruct (elim2 o tol false (q ++ [row1 p]) s1 c1 k3) as [[[u1 r1] k4] e1'] eqn:E1.
        pose proof (IH1 _ _ _ _ _ _ _ _ E1 N1) as F1.
        destruct (elim2_shape o tol _ _ _ _ _ _ _ _ _ E1) as [SU1 [SR1 _]].
        destruct (elim2_sub o tol _ _ _ _ _ _ _ _ _ E1) as [_ [_ X1]].
        assert (Hu1c : forall j, In j (idxs u1) -> In j (idxs c1)) by (intros j; apply sub_in; exact SU1).
        destruct isroot; inversion H; subst u r k' es; clear H; intros A par Hw Hd; rewrite final_app.
        -- cbn [wfn] in Hw. destruct Hw as [Hc [Hlf [_ W1]]].
           rewrite (final_noop e0 A).
           2:{ intros l n Hn. destruct (EN0 l n Hn) as [->|Hn0].
               - right. eexists. split; [exact Hc|]. apply count_le1_r.
               - left. apply Hd; [apply in_cn; auto|]. rewrite in_cn. intros [->|[[]|C]]; [contradiction|].
                 exact (D01 n Hn0 (Hu1c n C)). }
           destruct (F1 A (Some i) W1) as [A2 [Hf [W2 [Fr Gn]]]].
           { intros j Hj Hnj. apply Hd; [apply in_cn; auto|]. rewrite in_cn. intros [->|[[]|C]]; contradiction. }
           assert (Hiu1 : ~ In i (idxs u1)) by (intros C; apply Hi1; auto).
           exists A2. split; [exact Hf|]. split; [|split].
           ++ cbn [wfn]. rewrite Fr by exact Hiu1. rewrite X1. wfin.
           ++ intros j Hj. apply Fr. intros C. apply Hj. apply in_cn; auto.
           ++ intros j Hj Hnj. rewrite in_cn in Hj. rewrite in_cn in Hnj. destruct Hj as [->|[[]|Hj]]; [exfalso; apply Hnj; auto|].
              apply Gn; [exact Hj | intros C; apply Hnj; auto].
        -- rewrite (final_noop e0 A).
           2:{ intros l n Hn. left. destruct (EN0 l n Hn) as [->|Hn0].
               - apply Hd; [apply in_cn; auto|]. intros C. apply Hi1. apply Hu1c. exact C.
               - apply Hd; [apply in_cn; auto|]. intros C. exact (D01 n Hn0 (Hu1c n C)). }
           destruct (F1 A par Hw) as [A2 [Hf [W2 [Fr Gn]]]].
           { intros j Hj Hnj. apply Hd; [apply in_cn; auto | exact Hnj]. }
           exists A2. split; [exact Hf|]. split; [exact W2|]. split; [exact Fr | exact Gn].
      * (* c1 is infeasible, child 0 moves up *)
        rewrite andb_false_r, orb_false_r in Efb. apply andb_true_iff in Efb as [Ef0 Ei1].
        destruct K0 as [[F0 _]|[_ [_ [_ [_ Hinf]]]]]; [|rewrite (feas_not_infeas _ Ef0) in Hinf; discriminate].
        rewrite Ei1 in H. cbn [andb] in H.
        destruct isroot; inversion H; subst u r k' es; clear H; intros A par Hw Hd; rewrite final_app.
        -- cbn [wfn] in Hw. destruct Hw as [Hc [Hlf [W0 _]]].
           destruct (F0 A (Some i) W0) as [A1 [Hf [W1 [Fr Gn]]]].
           { intros j Hj Hnj. apply Hd; [apply in_cn; auto|]. rewrite in_cn. intros [->|[C|[]]]; contradiction. }
           rewrite Hf. assert (Hc1 : aget A1 i = Some (ae_cell p st par [cidx u0; cidx CU] false)) by (rewrite Fr by exact Hiu0; exact Hc).
           rewrite (final_skip_one _ _ _ _ Hc1) by apply count_le1_l.
           exists A1. split; [reflexivity|]. split; [|split].
           ++ cbn [wfn]. rewrite Hc1, X0. wfin.
           ++ intros j Hj. apply Fr. intros C. apply Hj. apply in_cn; auto.
           ++ intros j Hj Hnj. rewrite in_cn in Hj. rewrite in_cn in Hnj. destruct Hj as [->|[Hj|[]]]; [exfalso; apply Hnj; auto|].
              apply Gn; [exact Hj | intros C; apply Hnj; auto].
        -- destruct (F0 A par Hw) as [A1 [Hf [W1 [Fr Gn]]]].
           { intros j Hj Hnj. apply Hd; [apply in_cn; auto | exact Hnj]. }
           rewrite Hf. rewrite final_skip_none.
           2:{ rewrite Fr by exact Hiu0. apply Hd; [apply in_cn; auto | exact Hiu0]. }
           exists A1. split; [reflexivity|]. split; [exact W1|]. split; [exact Fr | exact Gn].
    + (* no forwarding at i *)
      assert (K1 : forall u1 r1 k4 e1',
               (if skip1 then (set_st s1 c1, set_st s1 c1, k3, []) else elim2 o tol false (q ++ [row1 p]) s1 c1 k3) = (u1, r1, k4, e1') ->
               sub_idx u1 c1 /\ sub_idx r1 u1 /\ cidx r1 = cidx u1 /\ c_exists u1 = true /\
               ((FLP c1 u1 r1 e1' /\ fr1 && is_infeas s1 = false) \/ (fr1 && is_infeas s1 = true /\ r1 = u1 /\ e1' = []))).
      { intros u1 r1 k4 e1' E. destruct skip1.
        - inversion E; subst u1 r1 k4 e1'. split; [exact (sub_idx_set_st s1 c1)|]. split; [apply sub_idx_refl|].
          split; [reflexivity|]. split; [reflexivity|].
          destruct fr1; [right; rewrite <- Hsk1; auto | left; split; [apply FLP_triv | reflexivity]].
        - destruct (elim2_shape o tol _ _ _ _ _ _ _ _ _ E) as [I1 [I2 [_ I4]]].
          destruct (elim2_sub o tol _ _ _ _ _ _ _ _ _ E) as [_ [_ Sc]].
          split; [exact I1|]. split; [exact I2|]. split; [exact Sc|]. split; [apply I4; reflexivity|].
          left. split; [eapply IH1; eauto|]. rewrite <- Hsk1. apply andb_false_r. }
      destruct (if skip1 then (set_st s1 c1, set_st s1 c1, k3, []) else elim2 o tol false (q ++ [row1 p]) s1 c1 k3)
        as [[[u1 r1] k4] e1'] eqn:E1.
      destruct (K1 _ _ _ _ eq_refl) as [SU1 [SR1 [X1 [Ex1 KK1]]]]. clear K1.
      assert (Hu1c : forall j, In j (idxs u1) -> In j (idxs c1)) by (intros j; apply sub_in; exact SU1).
      assert (Nu1 : NoDup (idxs u1)) by (apply SU1; exact N1).
      assert (Hiu1 : ~ In i (idxs u1)) by (intros C; apply Hi1; auto).
      inversion H; subst u r k' es; clear H. intros A par Hw Hd. cbn [wfn] in Hw. destruct Hw as [Hc [Hlf [W0 W1]]].
      destruct (proj1 (cidx_exists u1) Ex1) as [ju1 Hju1].
      set (m0 := fresh0 && is_infeas (c_state u0)) in *.
      set (slot0 := if m0 && c_exists r0 then CU else r0) in *.
      (* step 1: the entries of child 0 *)
      assert (S1 : exists A1, ae_final e0 A = Some A1 /\
                   aget A1 i = Some (ae_cell p st par [cidx slot0; cidx u1] false) /\ wfn A1 (Some i) slot0 /\
                   (forall j, ~ In j (idxs u0) -> j <> i -> aget A1 j = aget A j) /\
                   (forall j, In j (idxs u0) -> ~ In j (idxs slot0) -> aget A1 j = None)).
      { destruct K0 as [[F0 M0]|[Hf0 [-> [-> [Hex Hinf]]]]].
        - destruct (F0 A (Some i) W0) as [A1 [Hf [W1' [Fr Gn]]]].
          { intros j Hj Hnj. apply Hd; [apply in_cn; auto|]. rewrite in_cn. intros [->|[C|C]]; try contradiction.
            exact (D01 j Hj (Hu1c j C)). }
          exists A1. split; [exact Hf|]. unfold slot0. rewrite M0. cbn [andb]. split; [|split; [|split]].
          + rewrite Fr by exact Hiu0. rewrite X0. exact Hc.
          + exact W1'.
          + intros j Hj _. apply Fr. exact Hj.
          + exact Gn.
        - destruct (proj1 (cidx_exists u0) Hex) as [ju0 Hju0]. rewrite Hju0, Hju1 in Hc.
          destruct (final_remove A i 0%nat p st par ju0 ju1 u0 ju0 Hc eq_refl Hju0 W0 Nu0 Hiu0) as [A1 [Hf [Hc1 [Hg Ho]]]].
          exists A1. split; [exact Hf|]. unfold slot0, m0. rewrite Hf0, Hinf, Hex. cbn [andb cidx]. split; [|split; [|split]].
          + rewrite Hju1. exact Hc1.
          + exact I.
          + intros j Hj Hji. apply Ho; [exact Hj | exact Hji].
          + intros j Hj _. apply Hg. exact Hj. }
      destruct S1 as [A1 [Hf1 [Hc1 [Ws0 [Fr1' Gn1]]]]].
      assert (Fr1 : forall j, ~ In j (idxs c0) -> j <> i -> aget A1 j = aget A j).
      { intros j Hj Hji. apply Fr1'; [intros C; apply Hj; apply Hu0c; exact C | exact Hji]. }
      assert (Hs0c : forall j, In j (idxs slot0) -> In j (idxs c0)).
      { intros j. unfold slot0. destruct (m0 && c_exists r0); [intros [] | apply Hr0c]. }
      assert (W1a : wfn A1 (Some i) u1).
      { eapply wfn_frame; [|exact W1]. intros j Hj. apply Fr1; [intros C; exact (D01 j C (Hu1c j Hj)) | intros ->; contradiction]. }
      set (m1 := fr1 && is_infeas s1) in *.
      set (slot1 := if m1 && c_exists slot0 then CU else r1) in *.
      (* step 2: the entries of child 1 *)
      assert (S2 : exists A2, ae_final ((if m1 then [(1%nat, i)] else []) ++ e1') A1 = Some A2 /\
                   aget A2 i = Some (ae_cell p st par [cidx slot0; cidx slot1] false) /\ wfn A2 (Some i) slot1 /\
                   (forall j, ~ In j (idxs u1) -> j <> i -> aget A2 j = aget A1 j) /\
                   (forall j, In j (idxs u1) -> ~ In j (idxs slot1) -> aget A2 j = None)).
      { destruct KK1 as [[F1 M1]|[M1 [-> ->]]].
        - unfold slot1. rewrite M1. cbn [andb app].
          destruct (F1 A1 (Some i) W1a) as [A2 [Hf [W2 [Fr Gn]]]].
          { intros j Hj Hnj. rewrite Fr1; [|intros C; exact (D01 j C Hj) | intros ->; contradiction].
            apply Hd; [apply in_cn; auto|]. rewrite in_cn. intros [->|[C|C]]; try contradiction.
            exact (D01 j (Hu0c j C) Hj). }
          exists A2. split; [exact Hf|]. split; [|split; [|split]].
          + rewrite Fr by exact Hiu1. rewrite X1. exact Hc1.
          + exact W2.
          + intros j Hj _. apply Fr. exact Hj.
          + exact Gn.
        - unfold slot1. rewrite M1. cbn [andb app].
          destruct (c_exists slot0) eqn:Es0.
          + destruct (proj1 (cidx_exists slot0) Es0) as [js0 Hjs0]. rewrite Hjs0, Hju1 in Hc1.
            destruct (final_remove A1 i 1%nat p st par js0 ju1 u1 ju1 Hc1 eq_refl Hju1 W1a Nu1 Hiu1) as [A2 [Hf [Hc2 [Hg Ho]]]].
            exists A2. split; [exact Hf|]. split; [|split; [|split]].
            * rewrite Hjs0. exact Hc2.
            * exact I.
            * intros j Hj Hji. apply Ho; [exact Hj | exact Hji].
            * intros j Hj _. apply Hg. exact Hj.
          + exists A1. split; [|split; [exact Hc1 | split; [exact W1a | split; [auto | intros j Hj Hn; contradiction]]]].
            eapply final_skip_one; [exact Hc1|]. destruct slot0; [apply count_le1_r | discriminate]. }
      destruct S2 as [A2 [Hf2 [Hc2 [Ws1 [Fr2' Gn2]]]]].
      assert (Fr2 : forall j, ~ In j (idxs c1) -> j <> i -> aget A2 j = aget A1 j).
      { intros j Hj Hji. apply Fr2'; [intros C; apply Hj; apply Hu1c; exact C | exact Hji]. }
      exists A2. split; [|split; [|split]].
      * rewrite final_app, Hf1. exact Hf2.
      * cbn [wfn]. split; [exact Hc2|]. split; [intros C; discriminate|]. split; [|exact Ws1].
        eapply wfn_frame; [|exact Ws0]. intros j Hj. apply Fr2; [intros C; exact (D01 j (Hs0c j Hj) C) | intros ->; apply Hi0; apply Hs0c; exact Hj].
      * intros j Hj. rewrite in_cn in Hj. rewrite Fr2', Fr1'; auto.
      * intros j Hj Hnj. rewrite in_cn in Hj. rewrite in_cn in Hnj. destruct Hj as [->|[Hj|Hj]]; [exfalso; apply Hnj; auto| |].
        -- rewrite Fr2'; [apply Gn1; [exact Hj | intros C; apply Hnj; auto] | intros C; exact (D01 j (Hu0c j Hj) (Hu1c j C)) | intros ->; contradiction].
        -- apply Gn2; [exact Hj | intros C; apply Hnj; auto].
Qed.

(* Pwl/CPrune.v -- generic_composition_inplace WITH pruning (pwl/impl_composition.rs:231-327, schema
   FunctionCompositionInfeasible and the pruning operator schemas of pwl/impl_ops.rs) for binary trees.

   rhs (the tree that is modified in place, here [t : ctree] with cached states) has a copy of lhs (here
   [L : ptree], binary) grafted below each of its terminals.  Per grafted node the children are created in
   ascending label order and each new edge is tested with is_edge_feasible (impl_infeasible_elim.rs:476-530):
     - edges below arena index 0 are always kept                                     [top]
     - the new child is Indeterminate, so its own cache never decides
     - parent state Infeasible -> edge dropped; FeasibleWitness ws -> kept if some witness lies in the path
       polytope of the new edge (Polytope::contains, tolerance tol)
     - otherwise ONE LP call (status): Infeasible -> dropped; Optimal / Unbounded / Error -> kept
   the last edge of a node is kept regardless when no edge was kept before it (repair 73c1a4e), and when exactly
   one of two edges was kept the kept child is merged into the parent's place (merge_child_with_parent) before
   the descent continues -- so the path polytope of deeper edges no longer contains the forwarded predicate.
   Descent: explicit stack, the last kept child is processed first.

   The LP solver is an oracle indexed by call number and query; the model threads the counter in the order of the
   code within one terminal.  (Across terminals the code goes by ascending arena index, the model in depth-first
   order of rhs: the theorems quantify over every oracle, and the replay oracle of the runner is keyed by the
   query polytope, so the order across terminals is immaterial.) *)
From AT Require Import Num Vec Aff PTree Cells Abs Cache Elim.

Definition lp_keeps (a : lpans) : bool := match a with LInf => false | _ => true end.

(* is_edge_feasible(parent, new child) for a parent with state stP whose new edge has path rows q *)
Definition explore (o : oracle) (tol : Qc) (top : bool) (stP : nstate) (q : rows) (k : cnt) : bool * cnt :=
  if top then (true, k)
  else match stP with
       | Infeas => (false, k)
       | FeasW ws => if existsb (contains_tol tol q) ws then (true, k)
                     else (lp_keeps (o_lp o (k_lp k) q), lp_inc k)
       | _ => (lp_keeps (o_lp o (k_lp k) q), lp_inc k)
       end.

(* arena index of a node created during the composition: fresh in the code, and never 0 (0 is the root) *)
Definition new_idx : nat := 1.

Definition pexists (t : ptree) : bool := match t with U => false | _ => true end.

(* the subtree that ends up at a position with path rows q, built from the lhs subtree L and the rhs terminal
   function tf; (top, st, i) describe the rhs node that receives the root of L: arena index 0?, cached state,
   arena index (new nodes: false, Indet, 0) *)
Fixpoint graftp (o : oracle) (tol : Qc) (s : schema) (tf : aff) (L : ptree) (top : bool) (st : nstate) (i : nat)
                (q : rows) (k : cnt) {struct L} : ctree * cnt :=
  match L with
  | U => (CU, k)
  | T f => (CN i true (s_term s f tf) st CU CU, k)
  | D p (l0 :: l1 :: nil) =>
      let p' := s_dec s p tf in
      let q0 := q ++ [row0 p'] in
      let q1 := q ++ [row1 p'] in
      let e0 := pexists l0 in
      let e1 := pexists l1 in
      (* edge 0: explore is evaluated first, then `|| keep_last` (created == 0 && pos + 1 == n_edges) *)
      let '(keep0, k1) :=
        if e0 then (let '(b, k') := explore o tol top st q0 k in (b || negb e1, k')) else (false, k) in
      let '(keep1, k2) :=
        if e1 then (let '(b, k') := explore o tol top st q1 k1 in (b || negb keep0, k')) else (false, k1) in
      if e0 && e1 && xorb keep0 keep1 then
        (* created == 1 && created + skipped == K: the kept child takes this node's place *)
        graftp o tol s tf (if keep1 then l1 else l0) false Indet new_idx q k2
      else
        let '(c1, k3) := if keep1 then graftp o tol s tf l1 false Indet new_idx q1 k2 else (CU, k2) in
        let '(c0, k4) := if keep0 then graftp o tol s tf l0 false Indet new_idx q0 k3 else (CU, k3) in
        (CN i false p' st c0 c1, k4)
  | D p _ => (CU, k)   (* not a binary decision: outside the model (the code panics on labels >= 2) *)
  end.

(* all terminals of rhs *)
Fixpoint cprune (o : oracle) (tol : Qc) (s : schema) (L : ptree) (t : ctree) (q : rows) (k : cnt) {struct t}
  : ctree * cnt :=
  match t with
  | CU => (CU, k)
  | CN i leaf f st c0 c1 =>
      if leaf then graftp o tol s f L (Nat.eqb i 0) st i q k
      else
        let '(c0', k1) := cprune o tol s L c0 (q ++ [row0 f]) k in
        let '(c1', k2) := cprune o tol s L c1 (q ++ [row1 f]) k1 in
        (CN i leaf f st c0' c1', k2)
  end.

Definition compose_prune (o : oracle) (tol : Qc) (t : ctree) (L : ptree) : ctree * cnt :=
  cprune o tol comp_schema L t [] k0.

(* replay oracle keyed by the query polytope (first logged answer for these rows) *)
Definition rows_eqb (a b : rows) : bool :=
  Nat.eqb (length a) (length b) &&
  forallb (fun p => veqb (fst (fst p)) (fst (snd p)) && qeqb (snd (fst p)) (snd (snd p))) (combine a b).
Fixpoint lookup_rows (log : list (rows * lpans)) (q : rows) : lpans :=
  match log with
  | [] => LErr
  | (r, a) :: rest => if rows_eqb r q then a else lookup_rows rest q
  end.
Definition oracle_by_rows (log : list (rows * lpans)) : oracle :=
  {| o_lp := fun _ q => lookup_rows log q; o_mir := fun _ _ _ => None |}.

(* comparison up to the arena indices of nodes (new nodes get fresh indices in the code, 0 in the model) *)
Fixpoint ctree_eqb_shape (a b : ctree) : bool :=
  match a, b with
  | CU, CU => true
  | CN _ l f s a0 a1, CN _ m g r b0 b1 =>
      Bool.eqb l m && aff_eqb f g && st_eqb s r && ctree_eqb_shape a0 b0 && ctree_eqb_shape a1 b1
  | _, _ => false
  end.

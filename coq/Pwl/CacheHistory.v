(* Pwl/CacheHistory.v -- the cache invariants along operation histories (C05 "all operation histories", and the
   hypothesis [marks_kids] of the C03 theorems discharged for every tree a history can produce).

   Invariant of a tree for a fixed input x and containment tolerance tol:
     marks_ok x [] t   no node marked Infeasible has x in its closed path polytope
     wit_ok tol [] t   every stored witness lies (within tol) in the path polytope of its node
     solo t            a node marked Infeasible has no sibling
   [solo] is what makes the first two survive [reduce]: reduce replaces a decision by its child 0 when both children
   are identical terminals; the child keeps its cached state, and a state Infeasible would then sit on the larger
   region of the parent.  A marked node with a sibling never arises: elimination removes a freshly marked node
   whenever it has a sibling, and no operation adds a sibling to an existing node. *)
From AT Require Import Num Vec Aff PTree Cells Abs Cache Elim ElimEval ElimCache CPrune CPruneEval CPruneCache Ops WfC OpsWf.

Fixpoint solo (t : ctree) : Prop :=
  match t with
  | CU => True
  | CN _ _ _ _ c0 c1 => (c_state c0 = Infeas -> c1 = CU) /\ (c_state c1 = Infeas -> c0 = CU) /\ solo c0 /\ solo c1
  end.

Lemma solo_set_st s t : solo t -> solo (set_st s t).
Proof. destruct t; simpl; auto. Qed.
Lemma c_state_set_st s t : c_exists t = true -> c_state (set_st s t) = s.
Proof. destruct t; simpl; auto; discriminate. Qed.
Lemma c_state_exists t : c_state t = Infeas -> c_exists t = true.
Proof. destruct t; simpl; auto; discriminate. Qed.

(* ---------- elimination ---------- *)
Lemma visit_cached o tol stP q h c k s k' fr sk :
  visit o tol stP q h c k = (s, k', fr, sk) -> fr = false -> s = c_state c.
Proof.
  unfold visit. intros H Hf. destruct (c_state c).
  - destruct (classify o tol stP q h k). inversion H; subst. discriminate.
  - inversion H; subst; reflexivity.
  - inversion H; subst; reflexivity.
  - inversion H; subst; reflexivity.
Qed.

Lemma do_child0_solo o tol st q0 h c0 k sub0 k2 fresh0 :
  (forall isroot q st k, solo c0 -> solo (fst (elim_sub o tol isroot q st c0 k))) ->
  solo c0 -> do_child0 o tol st q0 h c0 k = (sub0, k2, fresh0) ->
  solo sub0 /\ (c0 = CU -> sub0 = CU) /\ (c_state sub0 = Infeas -> fresh0 = false -> c_state c0 = Infeas).
Proof.
  intros IH Hs E. unfold do_child0 in E. destruct c0 as [|i0 l0 p0 s0' c00 c01].
  { inversion E; subst. repeat split; auto; intros H; discriminate. }
  destruct (visit o tol st q0 h (CN i0 l0 p0 s0' c00 c01) k) as [[[s0 k1] fr0] skip0] eqn:Ev.
  destruct skip0.
  - inversion E; subst. split; [first [exact Hs | apply solo_set_st; exact Hs]|]. split; [discriminate|].
    cbn [set_st c_state]. intros Hi Hf. pose proof (visit_cached _ _ _ _ _ _ _ _ _ _ _ Ev Hf) as Hc.
    cbn [c_state] in *. congruence.
  - destruct (elim_sub o tol false q0 s0 (CN i0 l0 p0 s0' c00 c01) k1) as [r0 k2'] eqn:Er.
    inversion E; subst. split.
    + specialize (IH false q0 s0 k1 Hs). rewrite Er in IH. exact IH.
    + split; [discriminate|]. intros Hi Hf.
      destruct (elim_sub_state o tol (CN i0 l0 p0 s0' c00 c01) false q0 s0 k1 eq_refl) as [H|H];
        rewrite Er in H; cbn [fst] in H.
      * pose proof (visit_cached _ _ _ _ _ _ _ _ _ _ _ Ev Hf) as Hc. cbn [c_state] in *. congruence.
      * rewrite Hi in H. discriminate.
Qed.

Theorem elim_sub_solo o tol : forall t isroot q st k, solo t -> solo (fst (elim_sub o tol isroot q st t k)).
Proof.
  induction t as [|i leaf p s' c0 IH0 c1 IH1]; intros isroot q st k Hs; [exact I|].
  destruct leaf; [cbn [elim_sub fst]; exact Hs|].
  rewrite elim_sub_unfold. cbv zeta. destruct Hs as [Hs01 [Hs10 [Hs0 Hs1]]].
  set (q0 := q ++ [row0 p]) in *. set (q1 := q ++ [row1 p]) in *.
  destruct (do_child0 o tol st q0 (row0 p) c0 k) as [[sub0 k2] fresh0] eqn:E0.
  destruct (do_child0_solo o tol st q0 (row0 p) c0 k sub0 k2 fresh0) as [S0 [Z0 C0]]; auto.
  destruct c1 as [|i1 l1 p1 s1' c10 c11].
  { cbn [fst solo]. repeat split; auto; intros H; discriminate. }
  destruct (visit o tol st q1 (row1 p) (CN i1 l1 p1 s1' c10 c11) k2) as [[[s1 k3] fr1] skip1] eqn:Ev1.
  pose proof (visit_skip _ _ _ _ _ _ _ _ _ _ _ Ev1) as Hsk.
  assert (S1 : forall k', solo (fst (elim_sub o tol false q1 s1 (CN i1 l1 p1 s1' c10 c11) k'))).
  { intros k'. apply IH1. exact Hs1. }
  destruct (fr1 && c_exists sub0 && (is_feas (c_state sub0) && is_infeas s1 || is_infeas (c_state sub0) && is_feas s1)) eqn:Ef.
  - destruct (is_feas s1) eqn:Ef1.
    + specialize (S1 k3). destruct (elim_sub o tol false q1 s1 (CN i1 l1 p1 s1' c10 c11) k3) as [r1 k4].
      cbn [fst] in S1. destruct isroot; cbn [fst solo]; auto.
      repeat split; auto; intros H; discriminate.
    + destruct isroot; cbn [fst solo]; auto. repeat split; auto; intros H; discriminate.
  - assert (S1' : solo (fst (if skip1 then (set_st s1 (CN i1 l1 p1 s1' c10 c11), k3)
                              else elim_sub o tol false q1 s1 (CN i1 l1 p1 s1' c10 c11) k3))).
    { destruct skip1; [|apply S1]. cbn [fst]. apply solo_set_st. exact Hs1. }
    assert (T1 : c_state (fst (if skip1 then (set_st s1 (CN i1 l1 p1 s1' c10 c11), k3)
                                else elim_sub o tol false q1 s1 (CN i1 l1 p1 s1' c10 c11) k3)) = Infeas -> s1 = Infeas).
    { destruct skip1; cbn [fst set_st c_state]; auto. intros Hi.
      destruct (elim_sub_state o tol (CN i1 l1 p1 s1' c10 c11) false q1 s1 k3 eq_refl) as [H|H].
      - rewrite <- H. exact Hi.
      - rewrite Hi in H. discriminate. }
    destruct (if skip1 then (set_st s1 (CN i1 l1 p1 s1' c10 c11), k3)
              else elim_sub o tol false q1 s1 (CN i1 l1 p1 s1' c10 c11) k3) as [sub1 k4].
    cbn [fst] in *.
    destruct (fresh0 && is_infeas (c_state sub0) && c_exists sub0) eqn:Em0.
    + (* slot 0 removed *)
      cbn [c_exists]. rewrite andb_false_r. cbn [solo]. repeat split; auto; intros H; discriminate.
    + destruct (fr1 && is_infeas s1 && c_exists sub0) eqn:Em1.
      * cbn [solo]. repeat split; auto; intros H; discriminate.
      * cbn [solo]. split; [|split; [|split; auto]].
        -- (* slot 0 marked Infeasible: it is not fresh (else it would have been removed), so c0 was marked: excluded *)
           intros Hi. exfalso.
           assert (Hf : fresh0 = false).
           { destruct fresh0; auto. rewrite Hi in Em0. cbn [is_infeas andb] in Em0.
             rewrite (c_state_exists _ Hi) in Em0. discriminate. }
           specialize (Hs01 (C0 Hi Hf)). discriminate.
        -- (* slot 1 marked Infeasible *)
           intros Hi. specialize (T1 Hi). subst s1. cbn [is_infeas] in Em1. rewrite andb_true_r in Em1.
           destruct fr1.
           ++ cbn [andb] in Em1. destruct sub0; auto. discriminate.
           ++ apply Z0. apply Hs10. pose proof (visit_cached _ _ _ _ _ _ _ _ _ _ _ Ev1 eq_refl) as Hc.
              cbn [c_state] in *. congruence.
Qed.

Theorem elim_solo o tol t : solo t -> solo (fst (elim o tol t)).
Proof. intros H. unfold elim. apply elim_sub_solo. exact H. Qed.

Lemma elim_root_state o tol t : c_state (fst (elim o tol t)) = c_state t.
Proof.
  unfold elim. destruct t as [|i leaf p s' c0 c1]; [reflexivity|]. destruct leaf; [reflexivity|].
  rewrite elim_sub_unfold. cbv zeta.
  destruct (do_child0 o tol (c_state (CN i false p s' c0 c1)) ([] ++ [row0 p]) (row0 p) c0 k0) as [[sub0 k2] fresh0].
  destruct c1 as [|i1 l1 p1 s1' c10 c11]; [reflexivity|].
  destruct (visit o tol (c_state (CN i false p s' c0 (CN i1 l1 p1 s1' c10 c11))) ([] ++ [row1 p]) (row1 p) (CN i1 l1 p1 s1' c10 c11) k2)
    as [[[s1 k3] fr1] skip1].
  destruct (fr1 && c_exists sub0 && (is_feas (c_state sub0) && is_infeas s1 || is_infeas (c_state sub0) && is_feas s1)).
  - destruct (is_feas s1).
    + destruct (elim_sub o tol false ([] ++ [row1 p]) s1 (CN i1 l1 p1 s1' c10 c11) k3). reflexivity.
    + reflexivity.
  - destruct (if skip1 then (set_st s1 (CN i1 l1 p1 s1' c10 c11), k3)
              else elim_sub o tol false ([] ++ [row1 p]) s1 (CN i1 l1 p1 s1' c10 c11) k3). reflexivity.
Qed.

(* ---------- pruned generic composition: every new node is Indeterminate ---------- *)
Definition sres (st : nstate) (t : ctree) : Prop := solo t /\ (c_state t = Infeas -> st = Infeas).

Lemma graftp_solo o tol s tf : forall L top st i q k, sres st (fst (graftp o tol s tf L top st i q k)).
Proof.
  induction L as [|f|p ch IH] using ptree_ind'; intros top st i q k.
  - split; [exact I|]. intros H; discriminate.
  - cbn [graftp fst]. split; [|auto]. cbn [solo c_state]. repeat split; auto; intros H; discriminate.
  - destruct ch as [|l0 [|l1 [|l2 ch]]]; try (split; [exact I|intros H; discriminate]).
    apply Forall_cons_iff in IH as [IH0 IH]. apply Forall_cons_iff in IH as [IH1 _].
    cbn [graftp].
    destruct (if pexists l0
              then let '(b, k') := explore o tol top st (q ++ [row0 (s_dec s p tf)]) k in (b || negb (pexists l1), k')
              else (false, k)) as [keep0 k1].
    destruct (if pexists l1
              then let '(b, k') := explore o tol top st (q ++ [row1 (s_dec s p tf)]) k1 in (b || negb keep0, k')
              else (false, k1)) as [keep1 k2].
    destruct (pexists l0 && pexists l1 && xorb keep0 keep1).
    + destruct keep1.
      * destruct (IH1 false Indet new_idx q k2) as [A B]. split; [exact A|]. intros H. specialize (B H). discriminate.
      * destruct (IH0 false Indet new_idx q k2) as [A B]. split; [exact A|]. intros H. specialize (B H). discriminate.
    + assert (W1 : sres Indet
                     (fst (if keep1 then graftp o tol s tf l1 false Indet new_idx (q ++ [row1 (s_dec s p tf)]) k2 else (CU, k2)))).
      { destruct keep1; [apply IH1 | split; [exact I|intros H; discriminate]]. }
      destruct (if keep1 then graftp o tol s tf l1 false Indet new_idx (q ++ [row1 (s_dec s p tf)]) k2 else (CU, k2)) as [c1 k3].
      assert (W0 : sres Indet
                     (fst (if keep0 then graftp o tol s tf l0 false Indet new_idx (q ++ [row0 (s_dec s p tf)]) k3 else (CU, k3)))).
      { destruct keep0; [apply IH0 | split; [exact I|intros H; discriminate]]. }
      destruct (if keep0 then graftp o tol s tf l0 false Indet new_idx (q ++ [row0 (s_dec s p tf)]) k3 else (CU, k3)) as [c0 k4].
      cbn [fst] in *. destruct W0 as [A0 B0]. destruct W1 as [A1 B1]. split; [|auto].
      cbn [solo]. repeat split; auto; intros H; [specialize (B0 H) | specialize (B1 H)]; discriminate.
Qed.

Lemma cprune_CU o tol s L q k : fst (cprune o tol s L CU q k) = CU.
Proof. reflexivity. Qed.

Theorem cprune_solo o tol s L : forall t q k, solo t -> sres (c_state t) (fst (cprune o tol s L t q k)).
Proof.
  induction t as [|i leaf f st c0 IH0 c1 IH1]; intros q k H.
  { split; [exact I|intros E; discriminate]. }
  destruct H as [H01 [H10 [H0 H1]]]. cbn [cprune c_state]. destruct leaf.
  - apply graftp_solo.
  - specialize (IH0 (q ++ [row0 f]) k H0).
    destruct (cprune o tol s L c0 (q ++ [row0 f]) k) as [c0' k1] eqn:E0.
    specialize (IH1 (q ++ [row1 f]) k1 H1).
    destruct (cprune o tol s L c1 (q ++ [row1 f]) k1) as [c1' k2] eqn:E1.
    cbn [fst] in *. destruct IH0 as [A0 B0]. destruct IH1 as [A1 B1]. split; [|auto].
    cbn [solo]. repeat split; auto.
    + intros Hi. specialize (H01 (B0 Hi)). subst c1. cbn [cprune] in E1. inversion E1; reflexivity.
    + intros Hi. specialize (H10 (B1 Hi)). subst c0. cbn [cprune] in E0. inversion E0; reflexivity.
Qed.

(* ---------- unpruned generic composition ---------- *)
Lemma cgraft_solo s tf : forall L st i, sres st (cgraft s tf L st i).
Proof.
  induction L as [|f|p ch IH] using ptree_ind'; intros st i.
  - split; [exact I|]. intros H; discriminate.
  - cbn [cgraft]. split; [|auto]. cbn [solo c_state]. repeat split; auto; intros H; discriminate.
  - destruct ch as [|l0 [|l1 [|l2 ch]]]; try (split; [exact I|intros H; discriminate]).
    apply Forall_cons_iff in IH as [IH0 IH]. apply Forall_cons_iff in IH as [IH1 _].
    cbn [cgraft]. destruct (IH0 Indet 1%nat) as [A0 B0]. destruct (IH1 Indet 1%nat) as [A1 B1].
    split; [|auto]. cbn [solo]. repeat split; auto; intros H; [specialize (B0 H) | specialize (B1 H)]; discriminate.
Qed.
Theorem clift_solo s L : forall t, solo t -> sres (c_state t) (clift s L t).
Proof.
  induction t as [|i leaf f st c0 IH0 c1 IH1]; intros H.
  { split; [exact I|intros E; discriminate]. }
  destruct H as [H01 [H10 [H0 H1]]]. cbn [clift c_state]. destruct leaf.
  - apply cgraft_solo.
  - destruct (IH0 H0) as [A0 B0]. destruct (IH1 H1) as [A1 B1]. split; [|auto].
    cbn [solo]. repeat split; auto.
    + intros Hi. specialize (H01 (B0 Hi)). subst c1. reflexivity.
    + intros Hi. specialize (H10 (B1 Hi)). subst c0. reflexivity.
Qed.
Lemma cgraft_wit tol s tf : forall L st i q, st_wit tol q st -> wit_ok tol q (cgraft s tf L st i).
Proof.
  induction L as [|f|p ch IH] using ptree_ind'; intros st i q Hst.
  - exact I.
  - cbn [cgraft]. repeat split; auto.
  - destruct ch as [|l0 [|l1 [|l2 ch]]]; try exact I.
    apply Forall_cons_iff in IH as [IH0 IH]. apply Forall_cons_iff in IH as [IH1 _].
    cbn [cgraft wit_ok]. split; [exact Hst|]. split; [apply IH0 | apply IH1]; exact I.
Qed.
Lemma cgraft_marks x s tf : forall L st i q, (st = Infeas -> ~ in_rows q x) -> marks_ok x q (cgraft s tf L st i).
Proof.
  induction L as [|f|p ch IH] using ptree_ind'; intros st i q Hst.
  - exact I.
  - cbn [cgraft]. repeat split; auto.
  - destruct ch as [|l0 [|l1 [|l2 ch]]]; try exact I.
    apply Forall_cons_iff in IH as [IH0 IH]. apply Forall_cons_iff in IH as [IH1 _].
    cbn [cgraft marks_ok]. split; [exact Hst|]. split; [apply IH0 | apply IH1]; discriminate.
Qed.
Theorem clift_wit tol s L : forall t q, wit_ok tol q t -> wit_ok tol q (clift s L t).
Proof.
  induction t as [|i leaf f st c0 IH0 c1 IH1]; intros q H; [exact I|].
  destruct H as [Hs [H0 H1]]. cbn [clift]. destruct leaf.
  - apply cgraft_wit; auto.
  - cbn [wit_ok]. repeat split; auto.
Qed.
Theorem clift_marks x s L : forall t q, marks_ok x q t -> marks_ok x q (clift s L t).
Proof.
  induction t as [|i leaf f st c0 IH0 c1 IH1]; intros q H; [exact I|].
  destruct H as [Hs [H0 H1]]. cbn [clift]. destruct leaf.
  - apply cgraft_marks; auto.
  - cbn [marks_ok]. repeat split; auto.
Qed.

(* ---------- operations on the terminal functions only (apply_func, negation, operators with an affine map) ---------- *)
Lemma cmap_state h t : c_state (cmap_terms h t) = c_state t.
Proof. destruct t as [|i leaf f st c0 c1]; [reflexivity|]. cbn [cmap_terms]. destruct leaf; reflexivity. Qed.
Lemma cmap_CU h t : cmap_terms h t = CU <-> t = CU.
Proof. destruct t as [|i leaf f st c0 c1]; [tauto|]. cbn [cmap_terms]. destruct leaf; split; discriminate. Qed.
Theorem cmap_solo h : forall t, solo t -> solo (cmap_terms h t).
Proof.
  induction t as [|i leaf f st c0 IH0 c1 IH1]; intros H; [exact I|].
  destruct H as [H01 [H10 [H0 H1]]]. cbn [cmap_terms]. destruct leaf; cbn [solo].
  - repeat split; auto.
  - rewrite !cmap_state, !cmap_CU. repeat split; auto.
Qed.
Theorem cmap_wit tol h : forall t, cleafok t -> forall q, wit_ok tol q t -> wit_ok tol q (cmap_terms h t).
Proof.
  induction 1 as [|i f st|i p st c0 c1 L0 IH0 L1 IH1]; intros q H; [exact I| |].
  - destruct H as [Hs _]. cbn [cmap_terms wit_ok]. repeat split; auto.
  - destruct H as [Hs [H0 H1]]. cbn [cmap_terms wit_ok]. repeat split; auto.
Qed.
Theorem cmap_marks x h : forall t, cleafok t -> forall q, marks_ok x q t -> marks_ok x q (cmap_terms h t).
Proof.
  induction 1 as [|i f st|i p st c0 c1 L0 IH0 L1 IH1]; intros q H; [exact I| |].
  - destruct H as [Hs _]. cbn [cmap_terms marks_ok]. repeat split; auto.
  - destruct H as [Hs [H0 H1]]. cbn [cmap_terms marks_ok]. repeat split; auto.
Qed.

(* ---------- reduce ---------- *)
Lemma creduce_in_CU t : t = CU -> creduce_in t = CU.
Proof. intros ->. reflexivity. Qed.
Lemma childless_shape t : childless t = true -> exists i l f st, t = CN i l f st CU CU.
Proof. destruct t as [|i l f st [|] [|]]; try discriminate. intros _. eauto. Qed.

Theorem creduce_in_inv x tol : forall t, solo t ->
  solo (creduce_in t) /\ (c_state (creduce_in t) = Infeas -> c_state t = Infeas) /\
  (forall q, marks_ok x q t -> marks_ok x q (creduce_in t)) /\
  (forall q, wit_ok tol q t -> wit_ok tol q (creduce_in t)).
Proof.
  induction t as [|i leaf f st c0 IH0 c1 IH1]; intros H.
  { cbn [creduce_in]. repeat split; auto. }
  destruct H as [H01 [H10 [H0 H1]]].
  destruct (IH0 H0) as [S0 [B0 [M0 W0]]]. destruct (IH1 H1) as [S1 [B1 [M1 W1]]].
  assert (N01 : c_state (creduce_in c0) = Infeas -> creduce_in c1 = CU).
  { intros Hi. apply creduce_in_CU. apply H01. apply B0. exact Hi. }
  assert (N10 : c_state (creduce_in c1) = Infeas -> creduce_in c0 = CU).
  { intros Hi. apply creduce_in_CU. apply H10. apply B1. exact Hi. }
  assert (Keep : solo (CN i leaf f st (creduce_in c0) (creduce_in c1)) /\
                 (c_state (CN i leaf f st (creduce_in c0) (creduce_in c1)) = Infeas -> c_state (CN i leaf f st c0 c1) = Infeas) /\
                 (forall q, marks_ok x q (CN i leaf f st c0 c1) -> marks_ok x q (CN i leaf f st (creduce_in c0) (creduce_in c1))) /\
                 (forall q, wit_ok tol q (CN i leaf f st c0 c1) -> wit_ok tol q (CN i leaf f st (creduce_in c0) (creduce_in c1)))).
  { split; [cbn [solo]; repeat split; auto|]. split; [auto|]. split.
    - intros q [Hs [A0 A1]]. cbn [marks_ok]. repeat split; auto.
    - intros q [Hs [A0 A1]]. cbn [wit_ok]. repeat split; auto. }
  cbn [creduce_in].
  destruct (c_fun (creduce_in c0)) as [f0|] eqn:F0; [|exact Keep].
  destruct (c_fun (creduce_in c1)) as [f1|] eqn:F1; [|exact Keep].
  destruct (childless (creduce_in c0) && childless (creduce_in c1) && aff_eqb f0 f1) eqn:Em; [|exact Keep].
  apply andb_true_iff in Em as [Em _]. apply andb_true_iff in Em as [Ec0 _].
  assert (NI : c_state (creduce_in c0) <> Infeas).
  { intros Hi. rewrite (N01 Hi) in F1. discriminate. }
  destruct (childless_shape _ Ec0) as [i0 [l0 [g0 [s0 E0]]]].
  split; [exact S0|]. split; [intros Hi; contradiction|]. split.
  - intros q [Hs [A0 A1]]. specialize (M0 _ A0). rewrite E0 in *. cbn [marks_ok c_state] in *.
    repeat split; auto; intros Hi; contradiction.
  - intros q [Hs [A0 A1]]. specialize (W0 _ A0). eapply wit_ok_incl; [|exact W0].
    intros r Hr. apply in_or_app. left. exact Hr.
Qed.

Theorem creduce_inv x tol t : solo t -> marks_ok x [] t -> wit_ok tol [] t ->
  solo (creduce t) /\ marks_ok x [] (creduce t) /\ wit_ok tol [] (creduce t).
Proof.
  destruct t as [|i leaf f st c0 c1]; [auto|]. intros [H01 [H10 [H0 H1]]] [Ms [M0 M1]] [Ws [W0 W1]].
  destruct (creduce_in_inv x tol c0 H0) as [S0 [B0 [MM0 WW0]]].
  destruct (creduce_in_inv x tol c1 H1) as [S1 [B1 [MM1 WW1]]].
  cbn [creduce]. split; [|split].
  - cbn [solo]. repeat split; auto.
    + intros Hi. apply creduce_in_CU. apply H01. apply B0. exact Hi.
    + intros Hi. apply creduce_in_CU. apply H10. apply B1. exact Hi.
  - cbn [marks_ok]. repeat split; auto.
  - cbn [wit_ok]. repeat split; auto.
Qed.

(* ================================================================ histories *)
Definition hinv (x : vec) (tol : Qc) (t : ctree) : Prop := marks_ok x [] t /\ wit_ok tol [] t /\ solo t.

(* all states Indeterminate: what every constructor of the library produces *)
Fixpoint fresh (t : ctree) : Prop :=
  match t with CU => True | CN _ _ _ st c0 c1 => st = Indet /\ fresh c0 /\ fresh c1 end.
Lemma fresh_state t : fresh t -> c_state t <> Infeas.
Proof. destruct t; simpl; [discriminate|]. intros [-> _]. discriminate. Qed.
Lemma fresh_hinv x tol : forall t q, fresh t -> marks_ok x q t /\ wit_ok tol q t /\ solo t.
Proof.
  induction t as [|i leaf f st c0 IH0 c1 IH1]; intros q H; [repeat split|].
  destruct H as [-> [F0 F1]]. destruct (IH0 (q ++ [row0 f]) F0) as [A0 [B0 C0]].
  destruct (IH1 (q ++ [row1 f]) F1) as [A1 [B1 C1]].
  split; [|split].
  - cbn [marks_ok]. repeat split; auto. discriminate.
  - cbn [wit_ok st_wit]. repeat split; auto.
  - cbn [solo]. repeat split; auto; intros Hi; [destruct (fresh_state _ F0 Hi) | destruct (fresh_state _ F1 Hi)].
Qed.
Corollary fresh_inv x tol t : fresh t -> hinv x tol t.
Proof. intros H. apply fresh_hinv. exact H. Qed.
Lemma fresh_cof_at : forall p i, fresh (cof_at i p).
Proof.
  induction p as [|f|p ch IH] using ptree_ind'; intros i; cbn [cof_at]; try (repeat split; auto; fail).
  destruct ch as [|l0 [|l1 [|l2 ch]]]; try exact I; cbn [fresh]; auto.
  apply Forall_cons_iff in IH as [IH0 IH]. apply Forall_cons_iff in IH as [IH1 _]. repeat split; auto.
Qed.

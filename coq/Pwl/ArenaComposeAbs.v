(* Pwl/ArenaComposeAbs.v -- the arena-level composition (ArenaCompose.arena_compose) abstracts to the lifted tree:
   if the receiver's arena abstracts to t (abs_at), the run returns Ok, and lhs has K slots per decision, then the
   resulting arena abstracts to lift s t L -- for every allocator that hands out unoccupied keys and for the code's
   order of terminals (ascending arena index). *)
From AT Require Import Num Vec Aff PTree Cells Abs Tree TreeLemmas ArenaCompose.

(* abs_at restricted to a set of keys: fails when it visits a key outside ok *)
Fixpoint abs_ok (ok : nat -> bool) (fuel : nat) (a : arena acont) (i : nat) : option ptree :=
  match fuel with
  | O => None
  | S fuel' =>
      if negb (ok i) then None else
      match aget a i with
      | None => None
      | Some c =>
          if c_leaf c then Some (T (ac_aff (c_val c)))
          else match opt_all (map (fun oc => match oc with None => Some U | Some j => abs_ok ok fuel' a j end) (c_children c)) with
               | Some ch => Some (D (ac_aff (c_val c)) ch)
               | None => None
               end
      end
  end.

Lemma opt_all_map_ext {A B} (f g : A -> option B) l : (forall x, In x l -> f x = g x) -> opt_all (map f l) = opt_all (map g l).
Proof.
  induction l as [|x l IH]; intros H; cbn [map opt_all]; auto.
  rewrite (H x (or_introl eq_refl)). destruct (g x); auto. rewrite IH; auto. intros y Hy. apply H. right; auto.
Qed.
Lemma opt_all_map_some {A B} (f g : A -> option B) l r :
  opt_all (map f l) = Some r -> (forall x y, In x l -> f x = Some y -> g x = Some y) -> opt_all (map g l) = Some r.
Proof.
  revert r. induction l as [|x l IH]; intros r H Hfg; cbn [map opt_all] in *; auto.
  destruct (f x) as [y|] eqn:Ex; [|discriminate]. destruct (opt_all (map f l)) as [r'|] eqn:Er; [|discriminate].
  inversion H; subst r. rewrite (Hfg x y (or_introl eq_refl) Ex). rewrite (IH r' eq_refl); auto.
  intros x' y' Hx' E. apply (Hfg x' y'); auto. right; auto.
Qed.

(* dropping the restriction *)
Lemma abs_ok_abs_at ok : forall fuel a i t, abs_ok ok fuel a i = Some t -> abs_at fuel a i = Some t.
Proof.
  induction fuel as [|fuel IH]; intros a i t H; [discriminate|]. cbn [abs_ok abs_at] in *.
  destruct (negb (ok i)); [discriminate|]. destruct (aget a i) as [c|]; [|discriminate].
  destruct (c_leaf c); [exact H|].
  destruct (opt_all (map (fun oc => match oc with None => Some U | Some j => abs_ok ok fuel a j end) (c_children c))) as [ch|] eqn:E; [|discriminate].
  inversion H; subst t.
  erewrite opt_all_map_some; [reflexivity | exact E |]. intros [j|] y _ Hy; auto.
Qed.
(* stability: only the cells at ok keys are read *)
Lemma abs_ok_stable ok a a2 : (forall k, ok k = true -> aget a2 k = aget a k) ->
  forall fuel i t, abs_ok ok fuel a i = Some t -> abs_ok ok fuel a2 i = Some t.
Proof.
  intros Hs. induction fuel as [|fuel IH]; intros i t H; [discriminate|]. cbn [abs_ok] in *.
  destruct (ok i) eqn:Eo; cbn [negb] in *; [|discriminate]. rewrite (Hs i Eo).
  destruct (aget a i) as [c|]; [|discriminate]. destruct (c_leaf c); [exact H|].
  destruct (opt_all (map (fun oc => match oc with None => Some U | Some j => abs_ok ok fuel a j end) (c_children c))) as [ch|] eqn:E; [|discriminate].
  erewrite opt_all_map_some; [exact H | exact E |]. intros [j|] y _ Hy; auto.
Qed.
(* more fuel, larger set *)
Lemma abs_ok_mono ok ok' a : (forall k, ok k = true -> ok' k = true) ->
  forall fuel fuel' i t, (fuel <= fuel')%nat -> abs_ok ok fuel a i = Some t -> abs_ok ok' fuel' a i = Some t.
Proof.
  intros Hs. induction fuel as [|fuel IH]; intros fuel' i t Hle H; [discriminate|].
  destruct fuel' as [|fuel']; [lia|]. cbn [abs_ok] in *.
  destruct (ok i) eqn:Eo; cbn [negb] in *; [|discriminate]. rewrite (Hs i Eo). cbn [negb].
  destruct (aget a i) as [c|]; [|discriminate]. destruct (c_leaf c); [exact H|].
  destruct (opt_all (map (fun oc => match oc with None => Some U | Some j => abs_ok ok fuel a j end) (c_children c))) as [ch|] eqn:E; [|discriminate].
  erewrite opt_all_map_some; [exact H | exact E |]. intros [j|] y _ Hy; auto. apply IH; auto. lia.
Qed.

Lemma abs_ok_stable2 ok a a2 : (forall k c, ok k = true -> aget a k = Some c -> aget a2 k = Some c) ->
  forall fuel i t, abs_ok ok fuel a i = Some t -> abs_ok ok fuel a2 i = Some t.
Proof.
  intros Hs. induction fuel as [|fuel IH]; intros i t H; [discriminate|]. cbn [abs_ok] in *.
  destruct (ok i) eqn:Eo; cbn [negb] in *; [|discriminate].
  destruct (aget a i) as [c|] eqn:Ec; [|discriminate]. rewrite (Hs i c Eo Ec).
  destruct (c_leaf c); [exact H|].
  destruct (opt_all (map (fun oc => match oc with None => Some U | Some j => abs_ok ok fuel a j end) (c_children c))) as [ch|] eqn:E; [|discriminate].
  erewrite opt_all_map_some; [exact H | exact E |]. intros [j|] y _ Hy; auto.
Qed.

Lemma opt_all_pointwise {A B} (f : A -> option B) : forall (os : list A) (ts : list B), length os = length ts ->
  (forall m o t, nth_error os m = Some o -> nth_error ts m = Some t -> f o = Some t) -> opt_all (map f os) = Some ts.
Proof.
  induction os as [|o os IH]; intros [|t ts] Hl H; cbn [length] in Hl; try discriminate; auto.
  cbn [map opt_all]. rewrite (H 0%nat o t eq_refl eq_refl). rewrite (IH ts); auto.
  intros m o' t' Ho Ht. apply (H (S m)); auto.
Qed.

(* ---------------------------------------------------------------- key sets *)
Definition newk (a : arena acont) (k : nat) : bool := negb (acontains a k).
Definition persist (a a' : arena acont) : Prop := forall k, acontains a k = true -> acontains a' k = true.
Lemma persist_refl a : persist a a. Proof. intros k H; exact H. Qed.
Lemma persist_trans a b c : persist a b -> persist b c -> persist a c.
Proof. intros H1 H2 k H. auto. Qed.
Lemma extends_persist a a' : extends a a' -> persist a a'.
Proof.
  intros H k Hk. unfold acontains in *. destruct (aget a k) as [c|] eqn:E; [|discriminate].
  destruct (H k c E) as [c' [Hc' _]]. rewrite Hc'. reflexivity.
Qed.
Lemma newk_mono a a' k : persist a a' -> newk a' k = true -> newk a k = true.
Proof.
  unfold newk. intros Hp H. apply negb_true_iff in H. apply negb_true_iff.
  destruct (acontains a k) eqn:E; auto. rewrite (Hp k E) in H. discriminate.
Qed.
Lemma newk_none a k : aget a k = None -> newk a k = true.
Proof. unfold newk, acontains. intros ->. reflexivity. Qed.
Lemma newk_some a k c : aget a k = Some c -> newk a k = false.
Proof. unfold newk, acontains. intros ->. reflexivity. Qed.

(* ---------------------------------------------------------------- add_child, spelled out *)
Lemma add_child_spec K a p l v key a' pc : aget a key = None -> aget a p = Some pc -> add_child K a p l v key = Some a' ->
  nth_error (c_children pc) l = Some None /\
  aget a' key = Some (mkcell v (Some p) (repeat None K) true) /\
  aget a' p = Some (mkcell (c_val pc) (c_parent pc) (set_nth (c_children pc) l (Some key)) false) /\
  (forall j, j <> key -> j <> p -> aget a' j = aget a j).
Proof.
  unfold add_child. intros Hk Hp H. rewrite Hp in H.
  destruct (nth_error (c_children pc) l) as [[j|]|] eqn:El; try discriminate. inversion H; subst a'. clear H.
  assert (Hkp : key <> p) by (intros ->; congruence).
  split; [reflexivity|]. split; [|split].
  - rewrite aget_aset_other by congruence. apply aget_aset_same.
  - apply aget_aset_same.
  - intros j Hjk Hjp. rewrite aget_aset_other by congruence. rewrite aget_aset_other by congruence. reflexivity.
Qed.

(* lhs as the code sees it: K child slots per decision, at least one of them occupied *)
Inductive karity (K : nat) : ptree -> Prop :=
| ka_U : karity K U
| ka_T f : karity K (T f)
| ka_D p ch : length ch = K -> (exists c, In c ch /\ c <> U) -> Forall (karity K) ch -> karity K (D p ch).

Lemma nth_error_repeat {A} (x : A) n m : (m < n)%nat -> nth_error (repeat x n) m = Some x.
Proof. revert m. induction n as [|n IH]; intros [|m] H; cbn; try lia; auto. apply IH. lia. Qed.

(* ---------------------------------------------------------------- the grafted copy below one node *)
Definition slot_ok (s : schema) (tf : aff) (a0 a' : arena acont) (F : nat) (o : option nat) (c : ptree) : Prop :=
  match c with
  | U => o = None
  | _ => exists k, o = Some k /\ abs_ok (newk a0) F a' k = Some (graft s c tf)
  end.

Definition node_prop (alloc : arena acont -> nat) (K : nat) (s : schema) (tf : aff) (c : ptree) : Prop :=
  forall a p1 l pc a', aget a p1 = Some pc -> nth_error (c_children pc) l = Some None ->
    agraft_node alloc K s tf c a p1 l = Some a' ->
    exists pc', aget a' p1 = Some pc' /\ c_val pc' = c_val pc /\ c_parent pc' = c_parent pc /\
      match c with
      | U => a' = a
      | _ => c_leaf pc' = false /\ exists k, c_children pc' = set_nth (c_children pc) l (Some k) /\
             exists F, abs_ok (newk a) F a' k = Some (graft s c tf)
      end.

Lemma graft_kids_ok alloc K s tf : fresh_alloc alloc ->
  forall ch, Forall (node_prop alloc K s tf) ch ->
  forall a key l kc a', aget a key = Some kc ->
    (forall m, (m < length ch)%nat -> nth_error (c_children kc) (l + m) = Some None) ->
    agraft_kids alloc K s tf ch a key l = Some a' ->
    exists kc' F, aget a' key = Some kc' /\ c_val kc' = c_val kc /\ c_parent kc' = c_parent kc /\
      length (c_children kc') = length (c_children kc) /\
      (forall l', (l' < l \/ l + length ch <= l')%nat -> nth_error (c_children kc') l' = nth_error (c_children kc) l') /\
      (forall m c, nth_error ch m = Some c -> exists o, nth_error (c_children kc') (l + m) = Some o /\ slot_ok s tf a a' F o c) /\
      ((exists c, In c ch /\ c <> U) -> c_leaf kc' = false) /\
      ((forall c, In c ch -> c = U) -> a' = a).
Proof.
  intros Hf. induction ch as [|c r IH]; intros Hnp a key l kc a' Hk Hslots H; cbn [agraft_kids] in H.
  - inversion H; subst a'. exists kc, 0%nat. repeat split; auto.
    + intros m c Hm. destruct m; discriminate.
    + intros [c [[] _]].
  - apply Forall_cons_iff in Hnp as [Hc Hr].
    destruct (agraft_node alloc K s tf c a key l) as [a1|] eqn:E1; [|discriminate]. cbn [obnd] in H.
    assert (Hsl : nth_error (c_children kc) l = Some None).
    { specialize (Hslots 0%nat). rewrite Nat.add_0_r in Hslots. apply Hslots. cbn [length]. lia. }
    destruct (Hc a key l kc a1 Hk Hsl E1) as [kc1 [Hk1 [Hv1 [Hp1 Hshape]]]].
    pose proof (agraft_node_extends alloc K s tf Hf c a key l a1 E1) as Ext1.
    pose proof (agraft_kids_untouched alloc K s tf Hf r a1 key (S l) a' H) as Unt2.
    assert (Hlen1 : length (c_children kc1) = length (c_children kc) /\
                    (forall l', l' <> l -> nth_error (c_children kc1) l' = nth_error (c_children kc) l')).
    { destruct c as [| f | p ch].
      - subst a1. rewrite Hk in Hk1. inversion Hk1; subst kc1. auto.
      - destruct Hshape as [_ [k [Hch _]]]. rewrite Hch. split; [apply length_set_nth|].
        intros l' Hl'. apply nth_error_set_nth_other. congruence.
      - destruct Hshape as [_ [k [Hch _]]]. rewrite Hch. split; [apply length_set_nth|].
        intros l' Hl'. apply nth_error_set_nth_other. congruence. }
    destruct Hlen1 as [Hlen1 Hoth1].
    assert (Hslots1 : forall m, (m < length r)%nat -> nth_error (c_children kc1) (S l + m) = Some None).
    { intros m Hm. rewrite Hoth1 by lia. replace (S l + m)%nat with (l + S m)%nat by lia. apply Hslots. cbn [length]. lia. }
    destruct (IH Hr a1 key (S l) kc1 a' Hk1 Hslots1 H) as [kc' [F2 [Hk' [Hv' [Hp' [Hlen' [Hout [Hin [Hleaf Hall]]]]]]]]].
    assert (F1ex : exists F1, slot_ok s tf a a1 F1 (nth l (c_children kc1) None) c).
    { destruct c as [| f | p ch].
      - exists 0%nat. cbn [slot_ok]. subst a1. rewrite Hk in Hk1. inversion Hk1; subst kc1.
        erewrite nth_error_nth; eauto.
      - destruct Hshape as [_ [k [Hch [F1 Ha]]]]. exists F1. cbn [slot_ok]. exists k. split; [|exact Ha].
        rewrite Hch. erewrite nth_error_nth; [reflexivity|]. eapply nth_error_set_nth_same; eauto.
      - destruct Hshape as [_ [k [Hch [F1 Ha]]]]. exists F1. cbn [slot_ok]. exists k. split; [|exact Ha].
        rewrite Hch. erewrite nth_error_nth; [reflexivity|]. eapply nth_error_set_nth_same; eauto. }
    destruct F1ex as [F1 Hs1].
    exists kc', (Nat.max F1 F2). split; [exact Hk'|]. split; [congruence|]. split; [congruence|]. split; [congruence|].
    assert (Hl_in : nth_error (c_children kc1) l = Some (nth l (c_children kc1) None)).
    { apply nth_error_nth'. rewrite Hlen1. apply nth_error_Some. congruence. }
    split; [|split; [|split]].
    + intros l' Hl'. rewrite Hout by (cbn [length] in Hl'; lia). apply Hoth1. cbn [length] in Hl'. lia.
    + intros m c0 Hm. destruct m as [|m]; cbn [nth_error] in Hm.
      * inversion Hm; subst c0. rewrite Nat.add_0_r. exists (nth l (c_children kc1) None).
        split; [rewrite Hout by lia; exact Hl_in|].
        destruct c as [| f | p ch]; [exact Hs1| |].
        -- destruct Hs1 as [k [Ho Ha]]. exists k. split; [exact Ho|].
           eapply abs_ok_mono with (ok := newk a) (fuel := F1); [auto | lia |].
           eapply abs_ok_stable2; [|exact Ha]. intros k' c' Hn Hc'. apply Unt2; auto.
           intros ->. rewrite (newk_some a key kc Hk) in Hn. discriminate.
        -- destruct Hs1 as [k [Ho Ha]]. exists k. split; [exact Ho|].
           eapply abs_ok_mono with (ok := newk a) (fuel := F1); [auto | lia |].
           eapply abs_ok_stable2; [|exact Ha]. intros k' c' Hn Hc'. apply Unt2; auto.
           intros ->. rewrite (newk_some a key kc Hk) in Hn. discriminate.
      * destruct (Hin m c0 Hm) as [o [Ho Hso]]. exists o. split; [replace (l + S m)%nat with (S l + m)%nat by lia; exact Ho|].
        destruct c0 as [| f | p ch]; [exact Hso| |].
        -- destruct Hso as [k [Hok Ha]]. exists k. split; [exact Hok|].
           eapply abs_ok_mono with (ok := newk a1) (fuel := F2); [|lia|exact Ha].
           intros k' Hn. eapply newk_mono; [apply extends_persist; exact Ext1 | exact Hn].
        -- destruct Hso as [k [Hok Ha]]. exists k. split; [exact Hok|].
           eapply abs_ok_mono with (ok := newk a1) (fuel := F2); [|lia|exact Ha].
           intros k' Hn. eapply newk_mono; [apply extends_persist; exact Ext1 | exact Hn].
    + intros [c0 [[Hc0|Hc0] Hne]].
      * subst c0. assert (Hl1 : c_leaf kc1 = false) by (destruct c; [congruence | apply Hshape | apply Hshape]).
        pose proof (agraft_kids_extends alloc K s tf Hf r a1 key (S l) a' H) as Ext2.
        destruct (Ext2 key kc1 Hk1) as [kc'' [Hk'' [_ [_ [_ [_ Hd]]]]]]. rewrite Hk' in Hk''. inversion Hk''; subst kc''.
        apply Hd. exact Hl1.
      * apply Hleaf. exists c0. split; auto.
    + intros HallU. assert (c = U) by (apply HallU; left; reflexivity). subst c. subst a1.
      apply Hall. intros c0 Hc0. apply HallU. right; exact Hc0.
Qed.

Lemma graft_children_abs (s : schema) (tf : aff) (ok : nat -> bool) (a' : arena acont) (F : nat) :
  forall (ch : list ptree) (os : list (option nat)), length os = length ch ->
  (forall m c, nth_error ch m = Some c -> exists o, nth_error os m = Some o /\
       match c with U => o = None | _ => exists k, o = Some k /\ abs_ok ok F a' k = Some (graft s c tf) end) ->
  opt_all (map (fun oc => match oc with None => Some U | Some j => abs_ok ok F a' j end) os)
  = Some (map (fun c => graft s c tf) ch).
Proof.
  intros ch os Hl H. apply opt_all_pointwise; [rewrite map_length; exact Hl|].
  intros m o t Ho Ht. rewrite nth_error_map in Ht. destruct (nth_error ch m) as [c|] eqn:Ec; [|discriminate].
  inversion Ht; subst t. destruct (H m c Ec) as [o' [Ho' Hc]]. rewrite Ho in Ho'. inversion Ho'; subst o'.
  destruct c as [| f | p ch']; [subst o; reflexivity | |]; destruct Hc as [k [-> Ha]]; exact Ha.
Qed.

Theorem graft_node_ok alloc K s tf : fresh_alloc alloc -> forall L, karity K L -> node_prop alloc K s tf L.
Proof.
  intros Hf. induction L as [| f | p ch IH] using ptree_ind'; intros HL a p1 l pc a' Hp Hsl H.
  - inversion H; subst a'. exists pc. auto.
  - cbn [agraft_node] in H.
    destruct (add_child_spec K a p1 l _ (alloc a) a' pc (Hf a) Hp H) as [_ [Hkey [Hp1 _]]].
    eexists. split; [exact Hp1|]. cbn [c_val c_parent c_leaf c_children]. split; [reflexivity|]. split; [reflexivity|].
    split; [reflexivity|]. exists (alloc a). split; [reflexivity|]. exists 1%nat.
    cbn [abs_ok]. rewrite (newk_none a (alloc a) (Hf a)). cbn [negb]. rewrite Hkey. reflexivity.
  - inversion HL as [| | p' ch' Hlen Hne Hch]; subst p' ch'.
    rewrite agraft_node_D in H.
    destruct (add_child K a p1 l (mkcont (s_dec s p tf) Indet) (alloc a)) as [a1|] eqn:Ea; [|discriminate].
    cbn [obnd] in H. set (key := alloc a) in *.
    destruct (add_child_spec K a p1 l _ key a1 pc (Hf a) Hp Ea) as [_ [Hkey [Hp1 Hoth]]].
    assert (Hnp : Forall (node_prop alloc K s tf) ch).
    { rewrite Forall_forall in *. intros c Hc. apply IH; auto. }
    assert (Hslots : forall m, (m < length ch)%nat ->
              nth_error (c_children (mkcell (mkcont (s_dec s p tf) Indet) (Some p1) (repeat (@None nat) K) true)) (0 + m) = Some None).
    { intros m Hm. cbn [c_children]. apply nth_error_repeat. lia. }
    destruct (graft_kids_ok alloc K s tf Hf ch Hnp a1 key 0%nat _ a' Hkey Hslots H)
      as [kc' [F [Hk' [Hv' [Hpar' [Hlen' [_ [Hin [Hleaf _]]]]]]]]].
    assert (Hkp : key <> p1) by (intros E; rewrite E in *; pose proof (Hf a) as C; unfold key in E; rewrite E in C; congruence).
    pose proof (agraft_kids_untouched alloc K s tf Hf ch a1 key 0 a' H) as Unt.
    eexists. split; [apply Unt; [congruence | exact Hp1]|]. cbn [c_val c_parent c_leaf c_children].
    split; [reflexivity|]. split; [reflexivity|]. split; [reflexivity|]. exists key. split; [reflexivity|].
    exists (S F). cbn [abs_ok graft]. rewrite (newk_none a key (Hf a)). cbn [negb]. rewrite Hk'.
    rewrite (Hleaf Hne). cbn [c_val] in Hv'. rewrite Hv'. cbn [ac_aff].
    assert (Pers : persist a a1).
    { intros k Hk. unfold acontains in *. destruct (Nat.eq_dec k key) as [->|Hnk]; [rewrite Hkey; reflexivity|].
      destruct (Nat.eq_dec k p1) as [->|Hnp1]; [rewrite Hp1; reflexivity|]. rewrite Hoth; auto. }
    rewrite (graft_children_abs s tf (newk a) a' F ch (c_children kc')).
    + reflexivity.
    + rewrite Hlen'. cbn [c_children]. rewrite repeat_length. symmetry; exact Hlen.
    + intros m c Hm. destruct (Hin m c Hm) as [o [Ho Hs]]. exists o. split; [exact Ho|].
      destruct c as [| f | p0 ch0]; [exact Hs| |]; destruct Hs as [k [Hok Ha]]; exists k; (split; [exact Hok|]);
        (eapply abs_ok_mono with (ok := newk a1) (fuel := F); [|lia|exact Ha]);
        intros k' Hn; eapply newk_mono; eauto.
Qed.

(* ---------------------------------------------------------------- one terminal of the receiver *)
Definition oki (a : arena acont) (i k : nat) : bool := Nat.eqb k i || newk a k.

Lemma update_fun_spec a i f a' c : aget a i = Some c -> update_fun a i f = Some a' ->
  aget a' i = Some (mkcell (mkcont f (ac_state (c_val c))) (c_parent c) (c_children c) (c_leaf c)) /\
  (forall j, j <> i -> aget a' j = aget a j).
Proof.
  unfold update_fun. intros Hc H. rewrite Hc in H. inversion H; subst a'. split; [apply aget_aset_same|].
  intros j Hj. apply aget_aset_other. congruence.
Qed.

Theorem compose_at_abs alloc K s L a i c a' : fresh_alloc alloc -> karity K L -> L <> U ->
  aget a i = Some c -> c_leaf c = true -> c_children c = repeat None K ->
  arena_compose_at alloc K s L a i = Some a' ->
  exists F, abs_ok (oki a i) F a' i = Some (graft s L (ac_aff (c_val c))).
Proof.
  intros Hf HL HnU Hc Hl Hch H. unfold arena_compose_at in H. rewrite Hc in H.
  assert (Oi : oki a i i = true) by (unfold oki; rewrite Nat.eqb_refl; reflexivity).
  destruct L as [| f | p ch]; [congruence| |].
  - destruct (update_fun_spec a i _ a' c Hc H) as [Hi _]. exists 1%nat. cbn [abs_ok graft]. rewrite Oi. cbn [negb].
    rewrite Hi. cbn [c_leaf c_val ac_aff]. rewrite Hl. reflexivity.
  - set (tf := ac_aff (c_val c)) in *.
    destruct (update_fun a i (s_dec s p tf)) as [a1|] eqn:Eu; [|discriminate]. cbn [obnd] in H.
    destruct (update_fun_spec a i _ a1 c Hc Eu) as [Hi1 Hoth1].
    inversion HL as [| | p' ch' Hlen Hne Hchk]; subst p' ch'.
    assert (Hnp : Forall (node_prop alloc K s tf) ch).
    { rewrite Forall_forall in *. intros c0 Hc0. apply graft_node_ok; auto. }
    assert (Hslots : forall m, (m < length ch)%nat ->
              nth_error (c_children (mkcell (mkcont (s_dec s p tf) (ac_state (c_val c))) (c_parent c) (c_children c) (c_leaf c))) (0 + m) = Some None).
    { intros m Hm. cbn [c_children]. rewrite Hch. apply nth_error_repeat. lia. }
    destruct (graft_kids_ok alloc K s tf Hf ch Hnp a1 i 0%nat _ a' Hi1 Hslots H)
      as [kc' [F [Hk' [Hv' [Hpar' [Hlen' [_ [Hin [Hleaf _]]]]]]]]].
    exists (S F). cbn [abs_ok graft]. rewrite Oi. cbn [negb]. rewrite Hk'. rewrite (Hleaf Hne).
    cbn [c_val] in Hv'. rewrite Hv'. cbn [ac_aff].
    assert (Pers : persist a a1).
    { intros k Hk. unfold acontains in *. destruct (Nat.eq_dec k i) as [->|Hnk]; [rewrite Hi1; reflexivity|].
      rewrite Hoth1; auto. }
    rewrite (graft_children_abs s tf (oki a i) a' F ch (c_children kc')).
    + reflexivity.
    + rewrite Hlen'. cbn [c_children]. rewrite Hch, repeat_length. symmetry; exact Hlen.
    + intros m c0 Hm. destruct (Hin m c0 Hm) as [o [Ho Hs]]. exists o. split; [exact Ho|].
      destruct c0 as [| f | p0 ch0]; [exact Hs| |]; destruct Hs as [k [Hok Ha]]; exists k; (split; [exact Hok|]);
        (eapply abs_ok_mono with (ok := newk a1) (fuel := F); [|lia|exact Ha]);
        intros k' Hn; unfold oki; rewrite (newk_mono a a1 k' Pers Hn); apply orb_true_r.
Qed.

(* ---------------------------------------------------------------- all terminals *)
Lemma compose_list_untouched alloc K s L : fresh_alloc alloc ->
  forall ts a a', arena_compose_list alloc K s L ts a = Some a' ->
  forall k c, ~ In k ts -> aget a k = Some c -> aget a' k = Some c.
Proof.
  intros Hf. induction ts as [|j r IH]; intros a a' H k c Hk Hc; cbn [arena_compose_list] in H.
  - inversion H; subst; auto.
  - destruct (arena_compose_at alloc K s L a j) as [a1|] eqn:E1; [|discriminate]. cbn [obnd] in H.
    eapply IH; eauto.
    + intros Hin. apply Hk. right; exact Hin.
    + eapply arena_compose_at_untouched; eauto. intros ->. apply Hk. left; reflexivity.
Qed.

Definition empty_leaf (K : nat) (a : arena acont) (i : nat) : Prop :=
  exists c, aget a i = Some c /\ c_leaf c = true /\ c_children c = repeat None K.

Theorem compose_list_abs alloc K s L : fresh_alloc alloc -> karity K L -> L <> U ->
  forall ts a a', NoDup ts -> (forall j, In j ts -> empty_leaf K a j) ->
  arena_compose_list alloc K s L ts a = Some a' ->
  forall i c, In i ts -> aget a i = Some c ->
  exists F, abs_ok (oki a i) F a' i = Some (graft s L (ac_aff (c_val c))).
Proof.
  intros Hf HL HnU. induction ts as [|j r IH]; intros a a' Hnd Hts H i c Hi Hc; [contradiction|].
  cbn [arena_compose_list] in H.
  destruct (arena_compose_at alloc K s L a j) as [a1|] eqn:E1; [|discriminate]. cbn [obnd] in H.
  inversion Hnd as [|j' r' Hnj Hndr]; subst j' r'.
  destruct (Hts j (or_introl eq_refl)) as [cj [Hcj [Hlj Hchj]]].
  pose proof (arena_compose_at_untouched alloc K s L a j a1 Hf E1) as Unt1.
  pose proof (arena_compose_at_extends alloc K s L a j cj a1 Hf Hcj Hlj E1) as Ext1.
  destruct Hi as [<-|Hi].
  - rewrite Hcj in Hc. inversion Hc; subst c.
    destruct (compose_at_abs alloc K s L a j cj a1 Hf HL HnU Hcj Hlj Hchj E1) as [F Ha]. exists F.
    eapply abs_ok_stable2; [|exact Ha]. intros k c' Hok Hc'.
    eapply compose_list_untouched; eauto. intros Hin.
    unfold oki in Hok. apply orb_true_iff in Hok as [Hok|Hok].
    + apply Nat.eqb_eq in Hok. subst k. contradiction.
    + destruct (Hts k (or_intror Hin)) as [ck [Hck _]]. rewrite (newk_some a k ck Hck) in Hok. discriminate.
  - assert (Hij : i <> j) by (intros ->; contradiction).
    assert (Hc1 : aget a1 i = Some c) by (apply Unt1; auto).
    assert (Hts1 : forall j0, In j0 r -> empty_leaf K a1 j0).
    { intros j0 Hj0. destruct (Hts j0 (or_intror Hj0)) as [c0 [H0 [H1 H2]]]. exists c0. split; [|auto].
      apply Unt1; auto. intros ->. contradiction. }
    destruct (IH a1 a' Hndr Hts1 H i c Hi Hc1) as [F Ha]. exists F.
    eapply abs_ok_mono with (ok := oki a1 i) (fuel := F); [|lia|exact Ha].
    intros k Hok. unfold oki in *. apply orb_true_iff in Hok as [Hok|Hok]; [rewrite Hok; reflexivity|].
    rewrite (newk_mono a a1 k (extends_persist _ _ Ext1) Hok). apply orb_true_r.
Qed.

(* ---------------------------------------------------------------- the abstraction of the result *)
Fixpoint abs_g (g : aff -> ptree) (fuel : nat) (a : arena acont) (i : nat) : option ptree :=
  match fuel with
  | O => None
  | S fuel' =>
      match aget a i with
      | None => None
      | Some c =>
          if c_leaf c then Some (g (ac_aff (c_val c)))
          else match opt_all (map (fun oc => match oc with None => Some U | Some j => abs_g g fuel' a j end) (c_children c)) with
               | Some ch => Some (D (ac_aff (c_val c)) ch)
               | None => None
               end
      end
  end.

Lemma opt_all_map_map {A B C} (f : A -> option B) (h : B -> C) (g : A -> option C) l r :
  opt_all (map f l) = Some r -> (forall x y, In x l -> f x = Some y -> g x = Some (h y)) ->
  opt_all (map g l) = Some (map h r).
Proof.
  revert r. induction l as [|x l IH]; intros r H Hfg; cbn [map opt_all] in *.
  - inversion H; reflexivity.
  - destruct (f x) as [y|] eqn:Ex; [|discriminate]. destruct (opt_all (map f l)) as [r'|] eqn:Er; [|discriminate].
    inversion H; subst r. rewrite (Hfg x y (or_introl eq_refl) Ex). rewrite (IH r' eq_refl); auto.
    intros x' y' Hx' E. apply (Hfg x' y'); auto. right; auto.
Qed.

(* lifting = replacing every terminal by the grafted copy *)
Lemma abs_g_lift s L : forall fuel a i t, abs_at fuel a i = Some t ->
  abs_g (fun tf => graft s L tf) fuel a i = Some (lift s t L).
Proof.
  induction fuel as [|fuel IH]; intros a i t H; [discriminate|]. cbn [abs_at abs_g] in *.
  destruct (aget a i) as [c|]; [|discriminate]. destruct (c_leaf c).
  - inversion H; subst t. reflexivity.
  - destruct (opt_all (map (fun oc => match oc with None => Some U | Some j => abs_at fuel a j end) (c_children c))) as [ch|] eqn:E; [|discriminate].
    inversion H; subst t. cbn [lift].
    erewrite (opt_all_map_map _ (fun c0 => lift s c0 L)); [reflexivity | exact E |].
    intros [j|] y _ Hy; [apply IH; exact Hy | inversion Hy; reflexivity].
Qed.

Lemma abs_at_mono : forall fuel fuel' a i t, (fuel <= fuel')%nat -> abs_at fuel a i = Some t -> abs_at fuel' a i = Some t.
Proof.
  induction fuel as [|fuel IH]; intros fuel' a i t Hle H; [discriminate|].
  destruct fuel' as [|fuel']; [lia|]. cbn [abs_at] in *.
  destruct (aget a i) as [c|]; [|discriminate]. destruct (c_leaf c); [exact H|].
  destruct (opt_all (map (fun oc => match oc with None => Some U | Some j => abs_at fuel a j end) (c_children c))) as [ch|] eqn:E; [|discriminate].
  erewrite opt_all_map_some; [exact H | exact E |]. intros [j|] y _ Hy; auto. apply IH; auto. lia.
Qed.

(* a common fuel for the children *)
Lemma opt_all_common_fuel (a' : arena acont) (f : option nat -> option ptree) :
  forall os ts, opt_all (map f os) = Some ts ->
  (forall o t, In o os -> f o = Some t -> match o with None => t = U | Some j => exists F, abs_at F a' j = Some t end) ->
  exists F, opt_all (map (fun oc => match oc with None => Some U | Some j => abs_at F a' j end) os) = Some ts.
Proof.
  induction os as [|o os IH]; intros ts H Hf; cbn [map opt_all] in *.
  - exists 0%nat. exact H.
  - destruct (f o) as [t|] eqn:Eo; [|discriminate]. destruct (opt_all (map f os)) as [r|] eqn:Er; [|discriminate].
    inversion H; subst ts.
    destruct (IH r eq_refl) as [F2 H2]. { intros o' t' Ho' E'. apply Hf; auto. right; auto. }
    pose proof (Hf o t (or_introl eq_refl) Eo) as Ho.
    destruct o as [j|].
    + destruct Ho as [F1 H1]. exists (Nat.max F1 F2).
      rewrite (abs_at_mono F1 (Nat.max F1 F2) a' j t) by (auto; lia).
      erewrite opt_all_map_some; [reflexivity | exact H2 |]. intros [j'|] y _ Hy; auto.
      eapply abs_at_mono; [|exact Hy]. lia.
    + subst t. exists F2. rewrite H2. reflexivity.
Qed.

Definition leaves_empty (K : nat) (a : arena acont) : Prop :=
  forall i c, aget a i = Some c -> c_leaf c = true -> c_children c = repeat None K.

Lemma akeys_in {V} (a : arena V) i c : aget a i = Some c -> In i (akeys a).
Proof.
  unfold akeys, aget. intros H. destruct (nth_error a i) as [[c'|]|] eqn:E; try discriminate.
  apply in_map_iff. exists (i, Some c'). split; [reflexivity|]. apply filter_In. split; [|reflexivity].
  assert (Hlt : (i < length a)%nat) by (apply nth_error_Some; congruence).
  replace (i, Some c') with (nth i (combine (seq 0 (length a)) a) (0%nat, None)).
  - apply nth_In. rewrite combine_length, seq_length. lia.
  - rewrite combine_nth by (rewrite seq_length; reflexivity). rewrite seq_nth by exact Hlt.
    f_equal. apply nth_error_nth. exact E.
Qed.

(* C02 at the level of the arena: the composition as coded abstracts to the lifted tree *)
Theorem arena_compose_abs alloc K s L a a' : fresh_alloc alloc -> karity K L -> L <> U -> leaves_empty K a ->
  arena_compose alloc K s L a = Some a' ->
  forall fuel i t, abs_at fuel a i = Some t -> exists F, abs_at F a' i = Some (lift s t L).
Proof.
  intros Hf HL HnU Hle H fuel i t Ht. apply (abs_g_lift s L) in Ht. revert Ht. generalize (lift s t L). clear t.
  unfold arena_compose in H.
  assert (Hts : forall j, In j (terminal_keys a) -> empty_leaf K a j).
  { intros j Hj. destruct (terminal_keys_spec a j Hj) as [c [Hc Hl]]. exists c. split; [exact Hc|]. split; [exact Hl|]. eapply Hle; eauto. }
  revert i. induction fuel as [|fuel IH]; intros i t Ht; [discriminate|]. cbn [abs_g] in Ht.
  destruct (aget a i) as [c|] eqn:Ec; [|discriminate]. destruct (c_leaf c) eqn:El.
  - inversion Ht; subst t.
    assert (Hin : In i (terminal_keys a)).
    { unfold terminal_keys. apply filter_In. split; [eapply akeys_in; eauto | rewrite Ec; exact El]. }
    destruct (compose_list_abs alloc K s L Hf HL HnU _ a a' (terminal_keys_nodup a) Hts H i c Hin Ec) as [F Ha].
    exists F. eapply abs_ok_abs_at; eauto.
  - destruct (opt_all (map (fun oc => match oc with None => Some U | Some j => abs_g (fun tf => graft s L tf) fuel a j end) (c_children c))) as [ch|] eqn:E; [|discriminate].
    inversion Ht; subst t.
    assert (Hc' : aget a' i = Some c).
    { eapply compose_list_untouched; eauto. intros Hin. destruct (terminal_keys_spec a i Hin) as [c0 [H0 H1]]. congruence. }
    destruct (opt_all_common_fuel a' _ (c_children c) ch E) as [F HF].
    { intros [j|] t0 _ Ho; [apply IH; exact Ho | inversion Ho; reflexivity]. }
    exists (S F). cbn [abs_at]. rewrite Hc', El, HF. reflexivity.
Qed.

(* ---------------------------------------------------------------- the run returns Ok (no unwrap fails) *)
Definition node_some (alloc : arena acont -> nat) (K : nat) (s : schema) (tf : aff) (c : ptree) : Prop :=
  forall a p1 l pc, aget a p1 = Some pc -> nth_error (c_children pc) l = Some None ->
    exists a', agraft_node alloc K s tf c a p1 l = Some a'.

Lemma graft_kids_some alloc K s tf : fresh_alloc alloc ->
  forall ch, Forall (node_prop alloc K s tf) ch -> Forall (node_some alloc K s tf) ch ->
  forall a key l kc, aget a key = Some kc ->
    (forall m, (m < length ch)%nat -> nth_error (c_children kc) (l + m) = Some None) ->
    exists a', agraft_kids alloc K s tf ch a key l = Some a'.
Proof.
  intros Hf. induction ch as [|c r IH]; intros Hnp Hns a key l kc Hk Hslots; cbn [agraft_kids].
  - eauto.
  - apply Forall_cons_iff in Hnp as [Hc Hr]. apply Forall_cons_iff in Hns as [Sc Sr].
    assert (Hsl : nth_error (c_children kc) l = Some None).
    { specialize (Hslots 0%nat). rewrite Nat.add_0_r in Hslots. apply Hslots. cbn [length]. lia. }
    destruct (Sc a key l kc Hk Hsl) as [a1 E1]. rewrite E1. cbn [obnd].
    destruct (Hc a key l kc a1 Hk Hsl E1) as [kc1 [Hk1 [_ [_ Hshape]]]].
    apply (IH Hr Sr a1 key (S l) kc1 Hk1).
    intros m Hm. replace (S l + m)%nat with (l + S m)%nat by lia.
    assert (Hold : nth_error (c_children kc) (l + S m) = Some None) by (apply Hslots; cbn [length]; lia).
    destruct c as [| f | p ch].
    + subst a1. rewrite Hk in Hk1. inversion Hk1; subst kc1. exact Hold.
    + destruct Hshape as [_ [k [Hch _]]]. rewrite Hch. rewrite nth_error_set_nth_other by lia. exact Hold.
    + destruct Hshape as [_ [k [Hch _]]]. rewrite Hch. rewrite nth_error_set_nth_other by lia. exact Hold.
Qed.

Theorem graft_node_some alloc K s tf : fresh_alloc alloc -> forall L, karity K L -> node_some alloc K s tf L.
Proof.
  intros Hf. induction L as [| f | p ch IH] using ptree_ind'; intros HL a p1 l pc Hp Hsl.
  - cbn [agraft_node]. eauto.
  - cbn [agraft_node]. unfold add_child. rewrite Hp, Hsl. eauto.
  - inversion HL as [| | p' ch' Hlen Hne Hch]; subst p' ch'. rewrite agraft_node_D.
    destruct (add_child K a p1 l (mkcont (s_dec s p tf) Indet) (alloc a)) as [a1|] eqn:Ea.
    2:{ unfold add_child in Ea. rewrite Hp, Hsl in Ea. discriminate. }
    cbn [obnd]. destruct (add_child_spec K a p1 l _ (alloc a) a1 pc (Hf a) Hp Ea) as [_ [Hkey _]].
    eapply graft_kids_some; eauto.
    + rewrite Forall_forall in *. intros c Hc. apply graft_node_ok; auto.
    + rewrite Forall_forall in *. intros c Hc. apply IH; auto.
    + intros m Hm. cbn [c_children]. apply nth_error_repeat. lia.
Qed.

Theorem arena_compose_at_some alloc K s L a i c : fresh_alloc alloc -> karity K L -> L <> U ->
  aget a i = Some c -> c_children c = repeat None K -> exists a', arena_compose_at alloc K s L a i = Some a'.
Proof.
  intros Hf HL HnU Hc Hch. unfold arena_compose_at. rewrite Hc. destruct L as [| f | p ch]; [congruence| |].
  - unfold update_fun. rewrite Hc. eauto.
  - destruct (update_fun a i (s_dec s p (ac_aff (c_val c)))) as [a1|] eqn:Eu.
    2:{ unfold update_fun in Eu. rewrite Hc in Eu. discriminate. }
    cbn [obnd]. destruct (update_fun_spec a i _ a1 c Hc Eu) as [Hi1 _].
    inversion HL as [| | p' ch' Hlen Hne Hchk]; subst p' ch'.
    eapply graft_kids_some; eauto.
    + rewrite Forall_forall in *. intros c0 Hc0. apply graft_node_ok; auto.
    + rewrite Forall_forall in *. intros c0 Hc0. apply graft_node_some; auto.
    + intros m Hm. cbn [c_children]. rewrite Hch. apply nth_error_repeat. lia.
Qed.

Theorem arena_compose_some alloc K s L a : fresh_alloc alloc -> karity K L -> L <> U -> leaves_empty K a ->
  exists a', arena_compose alloc K s L a = Some a'.
Proof.
  intros Hf HL HnU Hle. unfold arena_compose.
  assert (G : forall ts a0, NoDup ts -> (forall j, In j ts -> empty_leaf K a0 j) ->
                exists a', arena_compose_list alloc K s L ts a0 = Some a').
  { induction ts as [|j r IH]; intros a0 Hnd Hts; cbn [arena_compose_list]; [eauto|].
    destruct (Hts j (or_introl eq_refl)) as [cj [Hcj [Hlj Hchj]]].
    destruct (arena_compose_at_some alloc K s L a0 j cj Hf HL HnU Hcj Hchj) as [a1 E1]. rewrite E1. cbn [obnd].
    inversion Hnd as [|j' r' Hnj Hndr]; subst j' r'. apply IH; auto.
    intros j0 Hj0. destruct (Hts j0 (or_intror Hj0)) as [c0 [H0 [H1 H2]]]. exists c0. split; [|auto].
    eapply arena_compose_at_untouched; eauto. intros ->. contradiction. }
  apply G; [apply terminal_keys_nodup|].
  intros j Hj. destruct (terminal_keys_spec a j Hj) as [c [Hc Hl]]. exists c. split; [exact Hc|]. split; [exact Hl|]. eapply Hle; eauto.
Qed.

(* ---------------------------------------------------------------- the hypothesis on the leaves is itself preserved, so compositions chain *)
Lemma add_child_leaves_empty K a p l v key a' : aget a key = None -> leaves_empty K a ->
  add_child K a p l v key = Some a' -> leaves_empty K a'.
Proof.
  intros Hk Hle H i c Hc Hl. unfold add_child in H. destruct (aget a p) as [pc|] eqn:Ep; [|discriminate].
  destruct (nth_error (c_children pc) l) as [[j|]|]; try discriminate. inversion H; subst a'. clear H.
  assert (Hkp : key <> p) by (intros ->; congruence).
  destruct (Nat.eq_dec i p) as [->|Hip].
  - rewrite aget_aset_same in Hc. inversion Hc; subst c. discriminate.
  - rewrite aget_aset_other in Hc by congruence. destruct (Nat.eq_dec i key) as [->|Hik].
    + rewrite aget_aset_same in Hc. inversion Hc; subst c. reflexivity.
    + rewrite aget_aset_other in Hc by congruence. eapply Hle; eauto.
Qed.
Lemma update_fun_leaves_empty K a i f a' : leaves_empty K a -> update_fun a i f = Some a' -> leaves_empty K a'.
Proof.
  intros Hle H j c Hc Hl. unfold update_fun in H. destruct (aget a i) as [ci|] eqn:Ei; [|discriminate].
  inversion H; subst a'. destruct (Nat.eq_dec j i) as [->|Hn].
  - rewrite aget_aset_same in Hc. inversion Hc; subst c. cbn [c_leaf c_children] in *. eapply Hle; eauto.
  - rewrite aget_aset_other in Hc by congruence. eapply Hle; eauto.
Qed.
Lemma agraft_node_leaves_empty alloc K s tf : fresh_alloc alloc ->
  forall L a p1 l a', leaves_empty K a -> agraft_node alloc K s tf L a p1 l = Some a' -> leaves_empty K a'.
Proof.
  intros Hf. induction L as [| f | p ch IH] using ptree_ind'; intros a p1 l a' Hle H.
  - inversion H; subst; exact Hle.
  - cbn [agraft_node] in H. eapply add_child_leaves_empty; eauto.
  - rewrite agraft_node_D in H.
    destruct (add_child K a p1 l (mkcont (s_dec s p tf) Indet) (alloc a)) as [a1|] eqn:Ea; [|discriminate].
    cbn [obnd] in H. pose proof (add_child_leaves_empty _ _ _ _ _ _ _ (Hf a) Hle Ea) as Hle1.
    clear Ea Hle. revert a1 a' Hle1 H. generalize 0%nat. generalize (alloc a).
    induction ch as [|c r IHr]; intros key l0 a1 a' Hle1 H; cbn [agraft_kids] in H.
    + inversion H; subst; exact Hle1.
    + apply Forall_cons_iff in IH as [IHc IHrest].
      destruct (agraft_node alloc K s tf c a1 key l0) as [a2|] eqn:E2; [|discriminate]. cbn [obnd] in H.
      eapply (IHr IHrest); [|exact H]. eapply IHc; eauto.
Qed.
Lemma agraft_kids_leaves_empty alloc K s tf : fresh_alloc alloc ->
  forall ch a p1 l a', leaves_empty K a -> agraft_kids alloc K s tf ch a p1 l = Some a' -> leaves_empty K a'.
Proof.
  intros Hf. induction ch as [|c r IH]; intros a p1 l a' Hle H; cbn [agraft_kids] in H.
  - inversion H; subst; exact Hle.
  - destruct (agraft_node alloc K s tf c a p1 l) as [a2|] eqn:E2; [|discriminate]. cbn [obnd] in H.
    eapply IH; [|exact H]. eapply agraft_node_leaves_empty; eauto.
Qed.
Theorem arena_compose_leaves_empty alloc K s L a a' : fresh_alloc alloc -> leaves_empty K a ->
  arena_compose alloc K s L a = Some a' -> leaves_empty K a'.
Proof.
  intros Hf Hle H. unfold arena_compose in H. remember (terminal_keys a) as ts eqn:Ets. clear Ets.
  revert a a' Hle H. induction ts as [|i r IH]; intros a a' Hle H; cbn [arena_compose_list] in H.
  - inversion H; subst; exact Hle.
  - destruct (arena_compose_at alloc K s L a i) as [a1|] eqn:E1; [|discriminate]. cbn [obnd] in H.
    eapply IH; [|exact H]. unfold arena_compose_at in E1. destruct (aget a i) as [c|]; [|discriminate].
    destruct L as [| f | p ch]; [discriminate | eapply update_fun_leaves_empty; eauto |].
    destruct (update_fun a i (s_dec s p (ac_aff (c_val c)))) as [a0|] eqn:Eu; [|discriminate]. cbn [obnd] in E1.
    eapply agraft_kids_leaves_empty; [exact Hf | | exact E1]. eapply update_fun_leaves_empty; eauto.
Qed.

(* two compositions in a row: the arena of f.compose(g).compose(h) abstracts to lift (lift t g) h *)
Corollary arena_compose_twice alloc K s L1 L2 a a1 a2 : fresh_alloc alloc -> karity K L1 -> L1 <> U -> karity K L2 -> L2 <> U ->
  leaves_empty K a -> arena_compose alloc K s L1 a = Some a1 -> arena_compose alloc K s L2 a1 = Some a2 ->
  forall fuel i t, abs_at fuel a i = Some t -> exists F, abs_at F a2 i = Some (lift s (lift s t L1) L2).
Proof.
  intros Hf K1 N1 K2 N2 Hle H1 H2 fuel i t Ht.
  destruct (arena_compose_abs alloc K s L1 a a1 Hf K1 N1 Hle H1 fuel i t Ht) as [F1 E1].
  eapply (arena_compose_abs alloc K s L2 a1 a2 Hf K2 N2); eauto. eapply arena_compose_leaves_empty; eauto.
Qed.

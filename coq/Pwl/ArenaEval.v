(* Pwl/ArenaEval.v -- AffTree::find_terminal / evaluate as coded (a loop over the slab arena: read the isleaf flag,
   evaluate the decision, follow children[label]) and its agreement with evaluation of the inductive tree that the
   arena abstracts to (abs_at).  This is the link between the arena view (C12) and the function view (C01-C09):
   whatever the runner decides about `abs` of a dumped arena holds for what evaluate() computes on that arena.

   Outcomes of the code: Some (terminal, labels) | None (the taken edge has no target) | panic (a child index is
   not in the arena; the label does not fit the branching factor: `assert!(idx < K)` / index out of bounds). *)
From AT Require Import Num Vec Aff PTree Cells Abs.

Inductive fres := FOk (r : option (nat * list nat)) | FPanic.

Fixpoint find_terminal_arena (fuel : nat) (a : arena acont) (i : nat) (x : vec) : fres :=
  match fuel with
  | O => FPanic
  | S fuel' =>
      match aget a i with
      | None => FPanic
      | Some c =>
          if c_leaf c then FOk (Some (i, []))
          else
            let l := decide (ac_aff (c_val c)) x in
            match nth_error (c_children c) l with
            | None => FPanic                                   (* label >= K *)
            | Some None => FOk None                            (* children[label]? *)
            | Some (Some j) =>
                match find_terminal_arena fuel' a j x with
                | FOk (Some (t, ls)) => FOk (Some (t, l :: ls))
                | FOk None => FOk None
                | FPanic => FPanic
                end
            end
      end
  end.

Definition evaluate_arena (fuel : nat) (a : arena acont) (root : nat) (x : vec) : option (option vec) :=
  match find_terminal_arena fuel a root x with
  | FOk (Some (t, _)) => match aget a t with Some c => Some (Some (apply (ac_aff (c_val c)) x)) | None => None end
  | FOk None => Some None
  | FPanic => None
  end.

(* every decision of t has a child slot for every label its predicate can produce *)
Inductive fits : ptree -> Prop :=
| fits_U : fits U
| fits_T f : fits (T f)
| fits_D p ch : (forall x, (decide p x < length ch)%nat) -> Forall fits ch -> fits (D p ch).

Lemma opt_all_nth {A} (l : list (option A)) r k : opt_all l = Some r ->
  match nth_error l k with
  | Some (Some v) => nth_error r k = Some v
  | Some None => False
  | None => nth_error r k = None
  end.
Proof.
  revert r k. induction l as [|o l IH]; intros r k H; cbn [opt_all] in H.
  - inversion H; subst. destruct k; reflexivity.
  - destruct o as [v|]; [|discriminate]. destruct (opt_all l) as [r'|] eqn:E; [|discriminate].
    inversion H; subst. destruct k as [|k]; cbn [nth_error]; auto. apply IH; auto.
Qed.
Lemma opt_all_length {A} (l : list (option A)) r : opt_all l = Some r -> length r = length l.
Proof.
  revert r. induction l as [|o l IH]; intros r H; cbn [opt_all] in H.
  - inversion H; reflexivity.
  - destruct o as [v|]; [|discriminate]. destruct (opt_all l) as [r'|] eqn:E; [|discriminate].
    inversion H; subst. cbn [length]. f_equal. apply IH; auto.
Qed.

(* what the loop returns, in terms of the abstraction: same labels as `route`, the function of the terminal it
   names is `term`, undefined exactly where the inductive tree is; no panic on a tree whose decisions fit *)
Theorem find_terminal_arena_spec : forall fuel a i t x, abs_at fuel a i = Some t -> fits t ->
  match find_terminal_arena fuel a i x with
  | FOk (Some (ti, ls)) =>
      route t x = Some ls /\ exists c, aget a ti = Some c /\ c_leaf c = true /\ term t x = Some (ac_aff (c_val c))
  | FOk None => route t x = None /\ term t x = None
  | FPanic => False
  end.
Proof.
  induction fuel as [|fuel IH]; intros a i t x H Hf; [discriminate|].
  cbn [abs_at] in H. cbn [find_terminal_arena]. destruct (aget a i) as [c|] eqn:Ec; [|discriminate].
  destruct (c_leaf c) eqn:El.
  - inversion H; subst t. cbn [route term]. split; [reflexivity|]. exists c. auto.
  - destruct (opt_all (map (fun oc => match oc with None => Some U | Some j => abs_at fuel a j end) (c_children c)))
      as [ch|] eqn:Eo; [|discriminate].
    inversion H; subst t. inversion Hf as [| | p ch' Hfit Hch]; subst p ch'.
    set (l := decide (ac_aff (c_val c)) x).
    pose proof (opt_all_nth _ _ l Eo) as Hn. rewrite nth_error_map in Hn.
    pose proof (opt_all_length _ _ Eo) as Hlen. rewrite map_length in Hlen.
    destruct (nth_error (c_children c) l) as [oc|] eqn:En.
    2:{ exfalso. apply nth_error_None in En. specialize (Hfit x). fold l in Hfit. lia. }
    cbn [option_map] in Hn.
    assert (Hnth : forall (A : Type) (g : ptree -> option A) (tl : ptree), nth_error ch l = Some tl ->
                     nth l (map g ch) None = g tl).
    { intros A g tl Hl. rewrite (nth_indep _ None (g U)) by (rewrite map_length; apply nth_error_Some; congruence).
      rewrite (map_nth g ch U l). erewrite nth_error_nth; eauto. }
    destruct oc as [j|].
    + destruct (abs_at fuel a j) as [tj|] eqn:Ej; [|contradiction].
      assert (Hfj : fits tj). { rewrite Forall_forall in Hch. apply Hch. eapply nth_error_In; eauto. }
      specialize (IH a j tj x Ej Hfj). cbn [route term]. fold l.
      rewrite (Hnth _ (fun c => route c x) tj Hn), (Hnth _ (fun c => term c x) tj Hn).
      destruct (find_terminal_arena fuel a j x) as [[[ti ls]|]|]; try contradiction.
      * destruct IH as [Hr Hc]. rewrite Hr. split; [reflexivity | exact Hc].
      * destruct IH as [Hr Ht]. rewrite Hr. split; [reflexivity | exact Ht].
    + cbn [route term]. fold l.
      rewrite (Hnth _ (fun c => route c x) U Hn), (Hnth _ (fun c => term c x) U Hn). split; reflexivity.
Qed.

(* evaluate() on the arena = eval of the abstraction *)
Theorem evaluate_arena_spec fuel a i t x : abs_at fuel a i = Some t -> fits t ->
  evaluate_arena fuel a i x = Some (eval t x).
Proof.
  intros H Hf. pose proof (find_terminal_arena_spec fuel a i t x H Hf) as S. unfold evaluate_arena.
  rewrite eval_term. destruct (find_terminal_arena fuel a i x) as [[[ti ls]|]|]; try contradiction.
  - destruct S as [_ [c [Hc [_ Ht]]]]. rewrite Hc, Ht. reflexivity.
  - destruct S as [_ Ht]. rewrite Ht. reflexivity.
Qed.

(* one-row decisions fit binary trees, r-row decisions fit 2^r-ary trees *)
Lemma label_of_bound bs : (label_of bs < 2 ^ length bs)%nat.
Proof. induction bs as [|b bs IH]; cbn [label_of length Nat.pow]; [lia|]. destruct b; lia. Qed.
Lemma bits_length A b x : length (bits A b x) = Nat.min (length A) (length b).
Proof. revert b. induction A as [|r A IH]; intros [|b0 b]; cbn [bits length Nat.min]; auto. Qed.
Lemma decide_bound p x : (decide p x < 2 ^ Nat.min (length (a_mat p)) (length (a_bias p)))%nat.
Proof. unfold decide. rewrite <- bits_length with (x := x). apply label_of_bound. Qed.

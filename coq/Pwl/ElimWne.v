From AT Require Import Num Vec Aff PTree Cells Abs Tree TreeLemmas Cache Elim AElim AElimBase.
From Coq Require Import List Bool.
Import ListNotations.

(* the two halves of the body of elim_sub at an inner node *)
Definition es_part0 (o : oracle) (tol : Qc) (q : rows) (st : nstate) (p : aff) (c0 : ctree) (k : cnt)
  : ctree * cnt * bool :=
  let q0 := q ++ [row0 p] in
  match c0 with
  | CU => (CU, k, false)
  | _ =>
      let '(s0, k1, fr0, skip0) := visit o tol st q0 (row0 p) c0 k in
      if skip0 then (set_st s0 c0, k1, fr0)
      else let '(r0, k2) := elim_sub o tol false q0 s0 c0 k1 in (r0, k2, fr0)
  end.

Definition es_part1 (o : oracle) (tol : Qc) (isroot : bool) (q : rows) (st : nstate) (i : nat) (leaf : bool)
  (p : aff) (c1 sub0 : ctree) (k2 : cnt) (fresh0 : bool) : ctree * cnt :=
  let q1 := q ++ [row1 p] in
  match c1 with
  | CU => (CN i leaf p st sub0 CU, k2)
  | _ =>
      let '(s1, k3, fr1, skip1) := visit o tol st q1 (row1 p) c1 k2 in
      let s0now := c_state sub0 in
      let fwd := fr1 && c_exists sub0 &&
                 ((is_feas s0now && is_infeas s1) || (is_infeas s0now && is_feas s1)) in
      if fwd then
        if is_feas s1 then
          let '(r1, k4) := elim_sub o tol false q1 s1 c1 k3 in
          if isroot then (CN i leaf p st CU r1, k4) else (r1, k4)
        else
          if isroot then (CN i leaf p st sub0 CU, k3) else (sub0, k3)
      else
        let '(sub1, k4) :=
          if skip1 then (set_st s1 c1, k3) else elim_sub o tol false q1 s1 c1 k3 in
        let m0 := fresh0 && is_infeas (c_state sub0) in
        let m1 := fr1 && is_infeas s1 in
        let slot0 := if m0 && c_exists sub0 then CU else sub0 in
        let slot1 := if m1 && c_exists slot0 then CU else sub1 in
        (CN i leaf p st slot0 slot1, k4)
  end.

Lemma elim_sub_CN o tol isroot q st i p s c0 c1 k :
  elim_sub o tol isroot q st (CN i false p s c0 c1) k =
  let '(sub0, k2, fresh0) := es_part0 o tol q st p c0 k in
  es_part1 o tol isroot q st i false p c1 sub0 k2 fresh0.
Proof. reflexivity. Qed.

Lemma wne_set_st s t : st_ne s -> wne t -> wne (set_st s t).
Proof.
  intros Hs Ht. destruct t as [|i l f s' c0 c1]; [exact I|].
  cbn [set_st wne]. destruct Ht as [_ [H0 H1]]. auto.
Qed.

Lemma wne_c_state t : wne t -> st_ne (c_state t).
Proof.
  destruct t as [|i l f s c0 c1]; intros H; [cbn [c_state]; unfold st_ne; discriminate|].
  exact (proj1 H).
Qed.

Lemma es_part0_wne o tol q st p c0 k :
  mir_ne o -> st_ne st -> wne c0 ->
  (forall q' s' k', st_ne s' -> wne (fst (elim_sub o tol false q' s' c0 k'))) ->
  wne (fst (fst (es_part0 o tol q st p c0 k))).
Proof.
  intros Hm Hst H0 IH. pose proof (wne_c_state _ H0) as Hc.
  unfold es_part0. destruct c0 as [|j l f t a b]; [exact I|].
  cbv beta iota zeta.
  destruct (visit o tol st (q ++ [row0 p]) (row0 p) (CN j l f t a b) k) as [[[s0 k1] fr0] sk0] eqn:Ev.
  pose proof (visit_ne _ _ _ _ _ _ _ _ _ _ _ Hm Hc Ev) as Hs0.
  destruct sk0.
  - cbn [fst]. apply wne_set_st; assumption.
  - pose proof (IH (q ++ [row0 p]) s0 k1 Hs0) as Hr.
    destruct (elim_sub o tol false (q ++ [row0 p]) s0 (CN j l f t a b) k1) as [r0 k2].
    cbn [fst] in *. exact Hr.
Qed.

Lemma es_part1_wne o tol isroot q st i leaf p c1 sub0 k2 fresh0 :
  mir_ne o -> st_ne st -> wne sub0 -> wne c1 ->
  (forall q' s' k', st_ne s' -> wne (fst (elim_sub o tol false q' s' c1 k'))) ->
  wne (fst (es_part1 o tol isroot q st i leaf p c1 sub0 k2 fresh0)).
Proof.
  intros Hm Hst Hsub H1 IH. pose proof (wne_c_state _ H1) as Hc.
  unfold es_part1. destruct c1 as [|j l f t a b]; [cbn [fst wne]; auto|].
  cbv beta iota zeta.
  destruct (visit o tol st (q ++ [row1 p]) (row1 p) (CN j l f t a b) k2) as [[[s1 k3] fr1] sk1] eqn:Ev.
  pose proof (visit_ne _ _ _ _ _ _ _ _ _ _ _ Hm Hc Ev) as Hs1.
  pose proof (IH (q ++ [row1 p]) s1 k3 Hs1) as Hr.
  destruct (elim_sub o tol false (q ++ [row1 p]) s1 (CN j l f t a b) k3) as [r1 k4].
  cbn [fst] in Hr.
  pose proof (wne_set_st s1 _ Hs1 H1) as Hset.
  lazymatch goal with |- wne (fst (if ?b then _ else _)) => destruct b end.
  - destruct (is_feas s1); destruct isroot; cbn [fst wne]; auto.
  - destruct sk1; cbv beta iota zeta; cbn [fst wne];
      (split; [exact Hst|split]);
      lazymatch goal with |- wne (if ?b then _ else _) => destruct b end;
      solve [exact I | assumption].
Qed.

Lemma elim_sub_wne o tol : mir_ne o ->
  forall t isroot q st k, st_ne st -> wne t -> wne (fst (elim_sub o tol isroot q st t k)).
Proof.
  intros Hm. induction t as [|i leaf p s0 c0 IH0 c1 IH1]; intros isroot q st k Hst Ht.
  - exact I.
  - destruct Ht as [Hs [H0 H1]]. destruct leaf.
    + cbn [elim_sub fst wne]. auto.
    + rewrite elim_sub_CN.
      pose proof (es_part0_wne o tol q st p c0 k Hm Hst H0
                    (fun q' s' k' Hs' => IH0 false q' s' k' Hs' H0)) as A0.
      destruct (es_part0 o tol q st p c0 k) as [[sub0 k2] fresh0].
      cbn [fst] in A0.
      apply es_part1_wne; try assumption.
      intros q' s' k' Hs'. apply IH1; assumption.
Qed.

Theorem elim_wne o tol t : mir_ne o -> wne t -> wne (fst (elim o tol t)).
Proof.
  intros Hm Ht. unfold elim. apply elim_sub_wne; [exact Hm|apply wne_c_state; exact Ht|exact Ht].
Qed.

(* Pwl/PolyGen.v -- the path-polytope generator (pwl/iter.rs PolyhedraGen over tree/iter.rs DfsPre) as coded,
   on the arena; and its specification on an arena-faithful decorated tree (forest machine with skip). *)
From AT Require Import Num Vec Aff PTree Cells Abs.

(* ---------- the coded machines ---------- *)
Record dfs_item := { di_depth : nat; di_index : nat; di_nrem : nat }.
Record dfs := { d_stack : list dfs_item (* head = top *); d_last_push : nat }.

Definition dfs_new (root : nat) : dfs :=
  {| d_stack := [ {| di_depth := 0; di_index := root; di_nrem := 0 |} ]; d_last_push := 0 |}.

Fixpoint somes {A} (l : list (option A)) : list A :=
  match l with [] => [] | Some a :: l' => a :: somes l' | None :: l' => somes l' end.
(* entries pushed for the existing children c_0 < ... < c_{m-1} (ascending label): c_0 ends on top with nrem m-1 *)
Fixpoint push_children (depth : nat) (cs : list nat) : list dfs_item :=
  match cs with
  | [] => []
  | c :: cs' => {| di_depth := depth; di_index := c; di_nrem := length cs' |} :: push_children depth cs'
  end.

(* None = the traversal is finished or the index is not in the arena (Rust: expect() panic) *)
Definition dfs_next {V} (a : arena V) (s : dfs) : option (dfs_item * dfs) :=
  match d_stack s with
  | [] => None
  | it :: rest =>
      match aget a (di_index it) with
      | None => None
      | Some c =>
          let cs := somes (c_children c) in
          Some (it, {| d_stack := push_children (S (di_depth it)) cs ++ rest; d_last_push := length cs |})
      end
  end.
(* skip_subtree: pops the entries pushed by the last next(); last_push is cleared (repaired code) *)
Definition dfs_skip (s : dfs) : dfs :=
  {| d_stack := skipn (d_last_push s) (d_stack s); d_last_push := 0 |}.

Record pgen := { pg_preds : list (vec * Qc) (* path rows, root first *); pg_iter : dfs; pg_last_depth : nat }.
Definition pgen_new (root : nat) : pgen := {| pg_preds := []; pg_iter := dfs_new root; pg_last_depth := 0 |}.

Definition find_label (chs : list (option nat)) (i : nat) : option nat :=
  (fix go (l : list (option nat)) (k : nat) : option nat :=
     match l with
     | [] => None
     | Some j :: l' => if Nat.eqb j i then Some k else go l' (S k)
     | None :: l' => go l' (S k)
     end) chs 0%nat.

(* the row PolyhedraGen pushes for an edge with label l under predicate p: factor +1 for label 1, -1 for label 0 *)
Definition edge_rows (p : aff) (l : nat) : option (list (vec * Qc)) :=
  match l with
  | 1%nat => Some (combine (a_mat p) (a_bias p))
  | 0%nat => Some (combine (map vopp (a_mat p)) (vopp (a_bias p)))
  | _ => None
  end.

Inductive pg_out := PgItem (it : dfs_item) (rows : list (vec * Qc)) (s : pgen) | PgEnd | PgPanic.

Definition pgen_next (a : arena acont) (s : pgen) : pg_out :=
  match d_stack (pg_iter s) with
  | [] => PgEnd
  | _ =>
    match dfs_next a (pg_iter s) with
    | None => PgPanic
    | Some (it, iter') =>
        let depth := di_depth it in
        let preds1 :=
          if Nat.leb depth (pg_last_depth s)
          then firstn (length (pg_preds s) - (1 + pg_last_depth s - depth)) (pg_preds s)
          else pg_preds s in
        match aget a (di_index it) with
        | None => PgPanic
        | Some c =>
            match c_parent c with
            | None => PgItem it preds1 {| pg_preds := preds1; pg_iter := iter'; pg_last_depth := depth |}
            | Some pi =>
                match aget a pi with
                | None => PgPanic
                | Some pc =>
                    match find_label (c_children pc) (di_index it) with
                    | None => PgPanic
                    | Some l =>
                        match edge_rows (ac_aff (c_val pc)) l with
                        | None => PgPanic
                        | Some rows =>
                            let preds2 := preds1 ++ rows in
                            PgItem it preds2 {| pg_preds := preds2; pg_iter := iter'; pg_last_depth := depth |}
                        end
                    end
                end
            end
        end
    end
  end.
Definition pgen_skip (s : pgen) : pgen :=
  {| pg_preds := pg_preds s; pg_iter := dfs_skip (pg_iter s); pg_last_depth := pg_last_depth s |}.

Inductive cmd := Next | Skip.
Record out_item := { o_depth : nat; o_index : nat; o_nrem : nat; o_rows : list (vec * Qc) }.
Inductive out := OItem (i : out_item) | OEnd | OPanic | OSkip.

Fixpoint pgen_run (a : arena acont) (s : pgen) (script : list cmd) : list out :=
  match script with
  | [] => []
  | Skip :: sc => OSkip :: pgen_run a (pgen_skip s) sc
  | Next :: sc =>
      match pgen_next a s with
      | PgItem it rows s' =>
          OItem {| o_depth := di_depth it; o_index := di_index it; o_nrem := di_nrem it; o_rows := rows |} :: pgen_run a s' sc
      | PgEnd => OEnd :: pgen_run a s sc
      | PgPanic => [OPanic]
      end
  end.

(* ---------- specification: arena-faithful decorated tree and a forest machine ---------- *)
Inductive dtree := DN (idx : nat) (f : aff) (ch : list (option dtree)).
Definition dt_idx (t : dtree) := match t with DN i _ _ => i end.

Fixpoint dabs (fuel : nat) (a : arena acont) (i : nat) : option dtree :=
  match fuel with
  | O => None
  | S fuel' =>
      match aget a i with
      | None => None
      | Some c =>
          match opt_all (map (fun oc => match oc with
                                        | None => Some None
                                        | Some j => option_map Some (dabs fuel' a j)
                                        end) (c_children c)) with
          | Some ch => Some (DN i (ac_aff (c_val c)) ch)
          | None => None
          end
      end
  end.

(* pending subtree with its depth, remaining-sibling counter and closed path rows *)
Record pend := { pd_depth : nat; pd_nrem : nat; pd_rows : list (vec * Qc); pd_tree : dtree }.
Record fstate := { f_pending : list pend; f_last : nat }.

Fixpoint label_children (k : nat) (ch : list (option dtree)) : list (nat * dtree) :=
  match ch with
  | [] => []
  | Some c :: ch' => (k, c) :: label_children (S k) ch'
  | None :: ch' => label_children (S k) ch'
  end.
Fixpoint mk_pending (depth : nat) (rows : list (vec * Qc)) (p : aff) (lcs : list (nat * dtree)) : option (list pend) :=
  match lcs with
  | [] => Some []
  | (l, c) :: lcs' =>
      match edge_rows p l, mk_pending depth rows p lcs' with
      | Some r, Some rest => Some ({| pd_depth := depth; pd_nrem := length lcs'; pd_rows := rows ++ r; pd_tree := c |} :: rest)
      | _, _ => None
      end
  end.

Inductive f_out := FItem (i : out_item) (s : fstate) | FEnd | FPanic.
(* labels outside {0,1} cannot occur in an AffTree<2>; the generator panics on them, the specification gives FPanic *)
Definition f_next (s : fstate) : f_out :=
  match f_pending s with
  | [] => FEnd
  | p :: rest =>
      match pd_tree p with
      | DN i f ch =>
          let lcs := label_children 0 ch in
          match mk_pending (S (pd_depth p)) (pd_rows p) f lcs with
          | Some new => FItem {| o_depth := pd_depth p; o_index := i; o_nrem := pd_nrem p; o_rows := pd_rows p |}
                              {| f_pending := new ++ rest; f_last := length lcs |}
          | None => FPanic
          end
      end
  end.
Definition f_skip (s : fstate) : fstate := {| f_pending := skipn (f_last s) (f_pending s); f_last := 0 |}.
Definition f_new (t : dtree) : fstate :=
  {| f_pending := [ {| pd_depth := 0; pd_nrem := 0; pd_rows := []; pd_tree := t |} ]; f_last := 0 |}.
Fixpoint f_run (s : fstate) (script : list cmd) : list out :=
  match script with
  | [] => []
  | Skip :: sc => OSkip :: f_run (f_skip s) sc
  | Next :: sc =>
      match f_next s with
      | FItem i s' => OItem i :: f_run s' sc
      | FEnd => OEnd :: f_run s sc
      | FPanic => [OPanic]
      end
  end.

(* pre-order listing with closed path rows: what the generator must produce without skips (binary labels) *)
Fixpoint preorder (fuel : nat) (depth nrem : nat) (rows : list (vec * Qc)) (t : dtree) : list out_item :=
  match fuel with
  | O => []
  | S fuel' =>
    match t with
    | DN i f ch =>
        {| o_depth := depth; o_index := i; o_nrem := nrem; o_rows := rows |} ::
        (fix go (lcs : list (nat * dtree)) : list out_item :=
           match lcs with
           | [] => []
           | (l, c) :: lcs' =>
               match edge_rows f l with
               | Some r => preorder fuel' (S depth) (length lcs') (rows ++ r) c ++ go lcs'
               | None => []
               end
           end) (label_children 0 ch)
    end
  end.

(* Pwl/ElimCount.v -- the counting sentence of C06 as a theorem about the structural model of infeasible_elimination:
   the terminals that survive elimination are a SUB-SEQUENCE of the terminals of the input tree (never reordered,
   duplicated or altered), given by a mask over the input's terminals in depth-first order such that
     * every terminal whose closed path polytope (taken in the INPUT tree) is non-empty is kept, and
     * every kept terminal's closed path polytope (in the input tree) is non-empty within the containment tolerance.
   Hence the number of terminals of the result lies between the number of full-dimensional activation regions and the
   number of closed activation regions that are non-empty (within the tolerance); with tol = 0 it IS the number of
   non-empty closed regions.  Hypotheses: those of ElimEff.elim_sub_eff (oracle exact on the path polytopes of the
   tree, sound mirror oracle, legal cached states, every decision has both branches). *)
From AT Require Import Num Vec Aff PTree Cells Abs Cache Elim ElimEval ElimCache ElimEff.

(* ---------- terminals in depth-first order (child 0 before child 1) ---------- *)
Fixpoint leaf_regions (q : rows) (t : ctree) : list rows :=
  match t with
  | CU => []
  | CN _ leaf p _ c0 c1 =>
      if leaf then [q] else leaf_regions (q ++ [row0 p]) c0 ++ leaf_regions (q ++ [row1 p]) c1
  end.
Fixpoint leaf_funcs (t : ctree) : list aff :=
  match t with
  | CU => []
  | CN _ leaf f _ c0 c1 => if leaf then [f] else leaf_funcs c0 ++ leaf_funcs c1
  end.
Definition nleaves (t : ctree) : nat := length (leaf_funcs t).

Fixpoint select {A : Type} (m : list bool) (l : list A) : list A :=
  match m, l with
  | b :: m', a :: l' => if b then a :: select m' l' else select m' l'
  | _, _ => []
  end.
Fixpoint count (m : list bool) : nat :=
  match m with
  | [] => 0%nat
  | b :: m' => ((if b then 1 else 0) + count m')%nat
  end.

Lemma leaf_len : forall t q, length (leaf_regions q t) = length (leaf_funcs t).
Proof.
  induction t as [|i leaf p s c0 IH0 c1 IH1]; intros q; [reflexivity|].
  cbn [leaf_regions leaf_funcs]. destruct leaf; [reflexivity|].
  rewrite !app_length. rewrite IH0, IH1. reflexivity.
Qed.
(* every terminal region of the subtree extends the prefix *)
Lemma leaf_regions_ext : forall t q R, In R (leaf_regions q t) -> forall r, In r q -> In r R.
Proof.
  induction t as [|i leaf p s c0 IH0 c1 IH1]; intros q R H r Hr; [contradiction|].
  cbn [leaf_regions] in H. destruct leaf.
  - destruct H as [H|[]]. subst R. exact Hr.
  - apply in_app_or in H as [H|H].
    + eapply IH0; [exact H|]. apply in_or_app. left. exact Hr.
    + eapply IH1; [exact H|]. apply in_or_app. left. exact Hr.
Qed.
Lemma leaf_regions_empty q t : ~ ne q -> forall R, In R (leaf_regions q t) -> ~ ne R.
Proof.
  intros Hn R HR C. apply Hn. eapply ne_incl; [|exact C]. intros r Hr. eapply leaf_regions_ext; eauto.
Qed.

Lemma select_app {A : Type} : forall (m0 m1 : list bool) (l0 l1 : list A), length m0 = length l0 ->
  select (m0 ++ m1) (l0 ++ l1) = select m0 l0 ++ select m1 l1.
Proof.
  induction m0 as [|b m0 IH]; intros m1 l0 l1 Hl; destruct l0 as [|a l0]; try discriminate; [reflexivity|].
  cbn [app select]. cbn [length] in Hl. injection Hl as Hl. rewrite (IH m1 l0 l1 Hl). destruct b; reflexivity.
Qed.
Lemma select_none {A : Type} : forall n (l : list A), select (repeat false n) l = [].
Proof. induction n as [|n IH]; intros [|a l]; cbn [repeat select]; auto. Qed.
Lemma select_length {A : Type} : forall (m : list bool) (l : list A), length m = length l -> length (select m l) = count m.
Proof.
  induction m as [|b m IH]; intros [|a l] Hl; try discriminate; [reflexivity|].
  cbn [length] in Hl. injection Hl as Hl. cbn [select count]. destruct b; cbn [length]; rewrite (IH l Hl); reflexivity.
Qed.
Lemma count_mono : forall m1 m2, Forall2 (fun a b : bool => a = true -> b = true) m1 m2 -> (count m1 <= count m2)%nat.
Proof.
  intros m1 m2 H. induction H as [|a b m1 m2 Hab H IH]; [apply le_n|].
  cbn [count]. destruct a.
  - rewrite (Hab eq_refl). apply le_n_S. exact IH.
  - destruct b; cbn [Nat.add]; auto.
Qed.
Lemma F2_length {A B : Type} (P : A -> B -> Prop) : forall la lb, Forall2 P la lb -> length la = length lb.
Proof. intros la lb H. induction H; cbn [length]; congruence. Qed.
Lemma F2_impl {A B : Type} (P Q : A -> B -> Prop) : (forall a b, P a b -> Q a b) ->
  forall la lb, Forall2 P la lb -> Forall2 Q la lb.
Proof. intros HPQ la lb H. induction H; constructor; auto. Qed.
Lemma Forall2_join {A B C : Type} (P : A -> C -> Prop) (Q : B -> C -> Prop) (S : A -> B -> Prop) :
  (forall a b c, P a c -> Q b c -> S a b) ->
  forall la lc, Forall2 P la lc -> forall lb, Forall2 Q lb lc -> Forall2 S la lb.
Proof.
  intros HS la lc H. induction H as [|a c la lc Hac H IH]; intros lb HQ; inversion HQ; subst; constructor; eauto.
Qed.

(* ---------- the mask ---------- *)
(* b is a legal verdict on the region R: kept terminals are non-empty within the tolerance, non-empty ones are kept *)
Definition verdict (tol : Qc) (b : bool) (R : rows) : Prop := (b = true -> ne_tol tol R) /\ (ne R -> b = true).
Definition mask_ok (tol : Qc) (m : list bool) (Rs : list rows) : Prop := Forall2 (verdict tol) m Rs.
Lemma mask_ok_none tol : forall Rs, (forall R, In R Rs -> ~ ne R) -> mask_ok tol (repeat false (length Rs)) Rs.
Proof.
  induction Rs as [|R Rs IH]; intros H; [constructor|]. cbn [length repeat]. constructor.
  - split; [discriminate|]. intros C. exfalso. exact (H R (or_introl eq_refl) C).
  - apply IH. intros R' HR'. apply H. right. exact HR'.
Qed.
(* r is t with some terminals removed, the removed ones empty, the kept ones non-empty within tol (regions of t) *)
Definition cnt_res (tol : Qc) (q : rows) (t r : ctree) : Prop :=
  exists m, mask_ok tol m (leaf_regions q t) /\ leaf_funcs r = select m (leaf_funcs t).

Lemma par_ok_ne_tol tol q st : 0 <= tol -> par_ok tol q st -> ne_tol tol q.
Proof.
  intros Ht [H|[ws [E H]]]; [apply ne_ne_tol; auto|]. subst st. eapply st_wit_ne; eauto.
Qed.

Lemma cnt_res_both tol q i p s' C0 C1 r0 r1 r :
  cnt_res tol (q ++ [row0 p]) C0 r0 -> cnt_res tol (q ++ [row1 p]) C1 r1 ->
  leaf_funcs r = leaf_funcs r0 ++ leaf_funcs r1 ->
  cnt_res tol q (CN i false p s' C0 C1) r.
Proof.
  intros [m0 [M0 F0]] [m1 [M1 F1]] E. exists (m0 ++ m1). cbn [leaf_regions leaf_funcs]. split.
  - apply Forall2_app; assumption.
  - rewrite E, F0, F1. symmetry. apply select_app.
    rewrite (F2_length _ _ _ M0). apply leaf_len.
Qed.
Lemma cnt_res_only1 tol q i p s' C0 C1 r1 r :
  ~ ne (q ++ [row0 p]) -> cnt_res tol (q ++ [row1 p]) C1 r1 ->
  leaf_funcs r = leaf_funcs r1 ->
  cnt_res tol q (CN i false p s' C0 C1) r.
Proof.
  intros Hn [m1 [M1 F1]] E. exists (repeat false (length (leaf_regions (q ++ [row0 p]) C0)) ++ m1).
  cbn [leaf_regions leaf_funcs]. split.
  - apply Forall2_app; [|assumption]. apply mask_ok_none. apply leaf_regions_empty. exact Hn.
  - rewrite select_app by (rewrite repeat_length; apply leaf_len). rewrite select_none. cbn [app]. rewrite E. exact F1.
Qed.
Lemma cnt_res_only0 tol q i p s' C0 C1 r0 r :
  ~ ne (q ++ [row1 p]) -> cnt_res tol (q ++ [row0 p]) C0 r0 ->
  leaf_funcs r = leaf_funcs r0 ->
  cnt_res tol q (CN i false p s' C0 C1) r.
Proof.
  intros Hn [m0 [M0 F0]] E. exists (m0 ++ repeat false (length (leaf_regions (q ++ [row1 p]) C1))).
  cbn [leaf_regions leaf_funcs]. split.
  - apply Forall2_app; [assumption|]. apply mask_ok_none. apply leaf_regions_empty. exact Hn.
  - rewrite select_app by (rewrite (F2_length _ _ _ M0); apply leaf_len). rewrite select_none, app_nil_r. rewrite E. exact F0.
Qed.

(* ---------- the main lemma: same case analysis as ElimEff.elim_sub_eff ---------- *)
Theorem elim_sub_count o tol : 0 <= tol -> mir_sound o tol ->
  forall t isroot q st k, (forall r, is_path q t r -> oexact_at o r) ->
  c_exists t = true -> okc_kids tol q t -> par_ok tol q st -> st_wit tol q st ->
  (isroot = false -> is_feas st = true /\ gst tol q st) ->
  cnt_res tol q t (fst (elim_sub o tol isroot q st t k)).
Proof.
  intros Ht Hm. induction t as [|i leaf p s' c0 IH0 c1 IH1]; intros isroot q st k Ho He Hk Hpar Hw Hst; [discriminate|].
  destruct leaf.
  { cbn [elim_sub fst]. exists [true]. cbn [leaf_regions leaf_funcs select]. split; [|reflexivity].
    constructor; [|constructor]. split; [|reflexivity]. intros _. eapply par_ok_ne_tol; eauto. }
  destruct (Hk eq_refl) as [Ex0 [Ex1 [Huni [Hk0 Hk1]]]].
  assert (STEP : forall c h kk, oexact_at o (q ++ [h]) -> c_exists c = true -> okc tol (q ++ [h]) c ->
            (forall st' k', is_feas st' = true -> gst tol (q ++ [h]) st' ->
                eff tol (q ++ [h]) (fst (elim_sub o tol false (q ++ [h]) st' c k')) /\
                cnt_res tol (q ++ [h]) c (fst (elim_sub o tol false (q ++ [h]) st' c k'))) ->
            forall s k1 fr sk, visit o tol st (q ++ [h]) h c kk = (s, k1, fr, sk) ->
            fr = is_indet (c_state c) /\ sk = is_infeas s /\
            (forall ws w, st = FeasW ws -> In w ws -> contains_tol tol [h] w = true -> is_infeas s = false) /\
            ((is_infeas s = true /\ ~ ne (q ++ [h]) /\ fr = true) \/
             (is_infeas s = false /\ is_feas s = true /\ gst tol (q ++ [h]) s /\
              forall k', eff tol (q ++ [h]) (fst (elim_sub o tol false (q ++ [h]) s c k')) /\
                         cnt_res tol (q ++ [h]) c (fst (elim_sub o tol false (q ++ [h]) s c k'))))).
  { intros c h kk Hoc Hex Hok IH s k1 fr sk Ev.
    destruct (visit_exact o tol st q h c kk s k1 fr sk Ht Hoc Hm Hw (okc_state _ _ _ Hex Hok) Ev) as [Hg [Hfr [Hsk Hif]]].
    split; [exact Hfr|]. split; [exact Hsk|]. split.
    { intros ws w E Hin Hcw. subst st. eapply visit_inherits; eauto. eapply okc_state; eauto. }
    destruct (gst_cases _ _ _ Hg) as [[Hi Hn]|[Hf Hi]].
    - left. repeat split; auto.
    - right. repeat split; auto; apply IH; auto. }
  assert (NOTBOTH : forall s0 s1,
            (is_infeas s0 = true -> ~ ne (q ++ [row0 p])) -> (is_infeas s1 = true -> ~ ne (q ++ [row1 p])) ->
            (forall ws w, st = FeasW ws -> In w ws -> contains_tol tol [row0 p] w = true -> is_infeas s0 = false) ->
            (forall ws w, st = FeasW ws -> In w ws -> contains_tol tol [row1 p] w = true -> is_infeas s1 = false) ->
            is_infeas s0 = true -> is_infeas s1 = true -> False).
  { intros s0 s1 E0 E1 N0 N1 I0 I1. destruct Hpar as [Hne|[ws [Est Hws]]].
    - destruct (ne_cover p q Hne) as [C|C]; [exact (E0 I0 C) | exact (E1 I1 C)].
    - subst st. destruct Hws as [Hnn Hall]. destruct ws as [|w ws]; [congruence|].
      destruct (halfspace_dichotomy tol p w Ht) as [C|C].
      + rewrite (N0 (w :: ws) w eq_refl (or_introl eq_refl) C) in I0. discriminate.
      + rewrite (N1 (w :: ws) w eq_refl (or_introl eq_refl) C) in I1. discriminate. }
  rewrite elim_sub_unfold. cbv zeta.
  destruct c0 as [|i0 l0 p0 s0' c00 c01]; [discriminate|].
  destruct c1 as [|i1 l1 p1 s1' c10 c11]; [discriminate|].
  set (C0 := CN i0 l0 p0 s0' c00 c01) in *. set (C1 := CN i1 l1 p1 s1' c10 c11) in *.
  assert (IHC0 : forall st' k', is_feas st' = true -> gst tol (q ++ [row0 p]) st' ->
             eff tol (q ++ [row0 p]) (fst (elim_sub o tol false (q ++ [row0 p]) st' C0 k')) /\
             cnt_res tol (q ++ [row0 p]) C0 (fst (elim_sub o tol false (q ++ [row0 p]) st' C0 k'))).
  { intros st' k' Hf Hg. split.
    - apply (elim_sub_eff o tol Ht Hm C0 false (q ++ [row0 p]) st' k'); auto.
      + intros r Hr. apply Ho. right. left. exact Hr.
      + apply okc_kids_of; auto.
      + apply par_ok_of_gst; auto.
      + apply gst_wit; auto.
    - apply (IH0 false (q ++ [row0 p]) st' k'); auto.
      + intros r Hr. apply Ho. right. left. exact Hr.
      + apply okc_kids_of; auto.
      + apply par_ok_of_gst; auto.
      + apply gst_wit; auto. }
  assert (IHC1 : forall st' k', is_feas st' = true -> gst tol (q ++ [row1 p]) st' ->
             eff tol (q ++ [row1 p]) (fst (elim_sub o tol false (q ++ [row1 p]) st' C1 k')) /\
             cnt_res tol (q ++ [row1 p]) C1 (fst (elim_sub o tol false (q ++ [row1 p]) st' C1 k'))).
  { intros st' k' Hf Hg. split.
    - apply (elim_sub_eff o tol Ht Hm C1 false (q ++ [row1 p]) st' k'); auto.
      + intros r Hr. apply Ho. right. right. exact Hr.
      + apply okc_kids_of; auto.
      + apply par_ok_of_gst; auto.
      + apply gst_wit; auto.
    - apply (IH1 false (q ++ [row1 p]) st' k'); auto.
      + intros r Hr. apply Ho. right. right. exact Hr.
      + apply okc_kids_of; auto.
      + apply par_ok_of_gst; auto.
      + apply gst_wit; auto. }
  assert (Ho0 : oexact_at o (q ++ [row0 p])) by (apply Ho; right; left; left; reflexivity).
  assert (Ho1 : oexact_at o (q ++ [row1 p])) by (apply Ho; right; right; left; reflexivity).
  unfold do_child0. fold C0.
  change (match C0 with CU => (CU, k, false) | CN _ _ _ _ _ _ =>
            let '(s0, k1, fr0, skip0) := visit o tol st (q ++ [row0 p]) (row0 p) C0 k in
            if skip0 then (set_st s0 C0, k1, fr0)
            else let '(r0, k2) := elim_sub o tol false (q ++ [row0 p]) s0 C0 k1 in (r0, k2, fr0) end)
    with (let '(s0, k1, fr0, skip0) := visit o tol st (q ++ [row0 p]) (row0 p) C0 k in
          if skip0 then (set_st s0 C0, k1, fr0)
          else let '(r0, k2) := elim_sub o tol false (q ++ [row0 p]) s0 C0 k1 in (r0, k2, fr0)).
  destruct (visit o tol st (q ++ [row0 p]) (row0 p) C0 k) as [[[s0 k1] fr0] skip0] eqn:Ev0.
  destruct (STEP C0 (row0 p) k Ho0 eq_refl Hk0 IHC0 s0 k1 fr0 skip0 Ev0) as [Hfr0 [Hsk0 [N0 Hc0]]].
  destruct Hc0 as [[Hi0 [Hn0 Hfresh0]]|[Hi0 [Hf0 [Hg0 He0]]]].
  - (* branch 0 empty: branch 1 is not, and moves up; all terminals of branch 0 disappear *)
    rewrite Hi0 in Hsk0. subst skip0.
    change (c_state (set_st s0 C0)) with s0. change (c_exists (set_st s0 C0)) with true.
    destruct (visit o tol st (q ++ [row1 p]) (row1 p) C1 k1) as [[[s1 k3] fr1] skip1] eqn:Ev1.
    destruct (STEP C1 (row1 p) k1 Ho1 eq_refl Hk1 IHC1 s1 k3 fr1 skip1 Ev1) as [Hfr1 [Hsk1 [N1 Hc1]]].
    destruct Hc1 as [[Hi1 [Hn1 _]]|[Hi1 [Hf1 [Hg1 He1]]]].
    { exfalso. apply (NOTBOTH s0 s1); auto. }
    assert (Efr1 : fr1 = true).
    { rewrite Hfr1. rewrite <- Huni. rewrite <- Hfr0. exact Hfresh0. }
    rewrite Efr1, Hi0, Hi1, Hf1. rewrite (proj1 (is_infeas_eq s0) Hi0). cbn [is_feas andb orb].
    destruct (He1 k3) as [_ Hc1]. destruct (elim_sub o tol false (q ++ [row1 p]) s1 C1 k3) as [r1 k4] eqn:Er1.
    cbn [fst] in Hc1.
    apply (cnt_res_only1 tol q i p s' C0 C1 r1); auto.
    destruct isroot; reflexivity.
  - (* branch 0 kept *)
    rewrite Hi0 in Hsk0. subst skip0.
    destruct (He0 k1) as [He0' Hc0]. destruct (elim_sub o tol false (q ++ [row0 p]) s0 C0 k1) as [sub0 k2] eqn:Er0.
    cbn [fst] in He0', Hc0.
    assert (X0 : c_exists sub0 = true).
    { pose proof (elim_sub_exists o tol C0 false (q ++ [row0 p]) s0 k1 eq_refl) as X. rewrite Er0 in X. exact X. }
    pose proof (eff_state _ _ _ X0 He0') as Fs0.
    destruct (visit o tol st (q ++ [row1 p]) (row1 p) C1 k2) as [[[s1 k3] fr1] skip1] eqn:Ev1.
    destruct (STEP C1 (row1 p) k2 Ho1 eq_refl Hk1 IHC1 s1 k3 fr1 skip1 Ev1) as [Hfr1 [Hsk1 [N1 Hc1]]].
    destruct Hc1 as [[Hi1 [Hn1 Hfresh1]]|[Hi1 [Hf1 [Hg1 He1]]]].
    + (* branch 1 empty: branch 0 moves up; all terminals of branch 1 disappear *)
      rewrite Hfresh1, X0, Fs0, Hi1. rewrite (proj1 (is_infeas_eq s1) Hi1). cbn [is_feas andb orb].
      apply (cnt_res_only0 tol q i p s' C0 C1 sub0); auto.
      destruct isroot; cbn [fst leaf_funcs]; [rewrite app_nil_r|]; reflexivity.
    + (* both kept *)
      rewrite Hi1 in Hsk1. subst skip1.
      rewrite Hi1, (feas_not_infeas _ Fs0). rewrite !andb_false_r. cbn [orb andb].
      destruct (He1 k3) as [_ Hc1]. destruct (elim_sub o tol false (q ++ [row1 p]) s1 C1 k3) as [sub1 k4] eqn:Er1.
      cbn [fst] in Hc1.
      rewrite ?andb_false_r. cbn [fst].
      apply (cnt_res_both tol q i p s' C0 C1 sub0 sub1); auto.
Qed.

(* ---------- the root ---------- *)
Theorem elim_count o tol t : 0 <= tol -> (forall r, is_path [] t r -> oexact_at o r) -> mir_sound o tol ->
  c_exists t = true -> okc_kids tol [] t -> st_wit tol [] (c_state t) ->
  exists m : list bool,
    length m = length (leaf_regions [] t) /\
    leaf_funcs (fst (elim o tol t)) = select m (leaf_funcs t) /\
    Forall2 (fun (b : bool) (R : rows) => (b = true -> ne_tol tol R) /\ (ne R -> b = true)) m (leaf_regions [] t).
Proof.
  intros Ht Ho Hm He Hk Hw. unfold elim.
  destruct (elim_sub_count o tol Ht Hm t true [] (c_state t) k0) as [m [M F]]; auto.
  - left. apply ne_nil.
  - discriminate.
  - exists m. split; [exact (F2_length _ _ _ M)|]. split; [exact F|exact M].
Qed.

(* the number of terminals of the result is the number of true bits of the mask *)
Lemma elim_count_nleaves o tol t m : length m = length (leaf_regions [] t) ->
  leaf_funcs (fst (elim o tol t)) = select m (leaf_funcs t) -> nleaves (fst (elim o tol t)) = count m.
Proof.
  intros Hl F. unfold nleaves. rewrite F. apply select_length. rewrite Hl. apply leaf_len.
Qed.

(* for ANY classification full of the regions that only marks non-empty ones (e.g. the full-dimensional ones) and ANY
   classification closed that marks at least those non-empty within the tolerance *)
Lemma mask_between tol (Rs : list rows) (m full closed : list bool) :
  Forall2 (fun (b : bool) (R : rows) => (b = true -> ne_tol tol R) /\ (ne R -> b = true)) m Rs ->
  Forall2 (fun (b : bool) (R : rows) => b = true -> ne R) full Rs ->
  Forall2 (fun (b : bool) (R : rows) => ne_tol tol R -> b = true) closed Rs ->
  (count full <= count m <= count closed)%nat.
Proof.
  intros M Hfull Hclosed. split; apply count_mono.
  - eapply Forall2_join; [|exact Hfull|exact M]. cbv beta. intros a b R Ha [_ Hb] E. apply Hb. apply Ha. exact E.
  - eapply Forall2_join; [|exact M|exact Hclosed]. cbv beta. intros a b R [Ha _] Hb E. apply Hb. apply Ha. exact E.
Qed.
Theorem elim_count_between o tol t (full closed : list bool) : 0 <= tol ->
  (forall r, is_path [] t r -> oexact_at o r) -> mir_sound o tol ->
  c_exists t = true -> okc_kids tol [] t -> st_wit tol [] (c_state t) ->
  Forall2 (fun (b : bool) (R : rows) => b = true -> ne R) full (leaf_regions [] t) ->
  Forall2 (fun (b : bool) (R : rows) => ne_tol tol R -> b = true) closed (leaf_regions [] t) ->
  (count full <= nleaves (fst (elim o tol t)) <= count closed)%nat.
Proof.
  intros Ht Ho Hm He Hk Hw Hfull Hclosed.
  destruct (elim_count o tol t Ht Ho Hm He Hk Hw) as [m [Hl [F M]]].
  rewrite (elim_count_nleaves o tol t m Hl F). eapply mask_between; eauto.
Qed.

(* "full-dimensional": a strictly interior point *)
Definition interior (R : rows) : Prop := exists x, Forall (fun rb => dot (fst rb) x < snd rb) R.
Lemma interior_ne R : interior R -> ne R.
Proof.
  intros [x Hx]. exists x. unfold in_rows. eapply Forall_impl; [|exact Hx]. cbv beta. intros rb H. qlra.
Qed.

(* tol = 0: within the tolerance = exactly *)
Lemma ne_tol_0 R : ne_tol 0 R -> ne R.
Proof.
  intros [x Hx]. exists x. unfold contains_tol in Hx. unfold in_rows. rewrite forallb_forall in Hx.
  apply Forall_forall. intros rb Hrb. specialize (Hx rb Hrb). apply qleb_spec in Hx. qlra.
Qed.
(* with tol = 0 the number of terminals IS the number of non-empty closed activation regions *)
Theorem elim_count_exact o t (closed : list bool) :
  (forall r, is_path [] t r -> oexact_at o r) -> mir_sound o 0 ->
  c_exists t = true -> okc_kids 0 [] t -> st_wit 0 [] (c_state t) ->
  Forall2 (fun (b : bool) (R : rows) => b = true <-> ne R) closed (leaf_regions [] t) ->
  nleaves (fst (elim o 0 t)) = count closed.
Proof.
  intros Ho Hm He Hk Hw Hc.
  assert (Ht : 0 <= 0) by apply Qcle_refl.
  destruct (elim_count_between o 0 t closed closed Ht Ho Hm He Hk Hw) as [H1 H2].
  - eapply F2_impl; [|exact Hc]. cbv beta. intros b R [H _]. exact H.
  - eapply F2_impl; [|exact Hc]. cbv beta. intros b R [_ H] E. apply H. apply ne_tol_0. exact E.
  - apply Nat.le_antisymm; assumption.
Qed.

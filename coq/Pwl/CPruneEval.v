(* Pwl/CPruneEval.v -- generic composition WITH pruning (CPrune.cprune) denotes the same partial function as
   the unpruned lifting (PTree.lift), for every schema that keeps decisions one-row (function composition and the
   four operator schemas), every oracle whose Infeasible answers exclude x, every cached state of rhs whose
   Infeasible marks exclude x.  Error / Unbounded / Optimal answers are unconstrained. *)
From AT Require Import Num Vec Aff PTree Cells Abs Cache Elim ElimEval CPrune Ops.

Definition one_row (p : aff) : Prop := length (a_mat p) = 1%nat /\ length (a_bias p) = 1%nat.

Inductive bin2 : ptree -> Prop :=
| b2_U : bin2 U
| b2_T f : bin2 (T f)
| b2_D p l0 l1 : one_row p -> bin2 l0 -> bin2 l1 -> bin2 (D p [l0; l1]).

Fixpoint bin2b (t : ptree) : bool :=
  match t with
  | D p (l0 :: l1 :: nil) =>
      Nat.eqb (length (a_mat p)) 1 && Nat.eqb (length (a_bias p)) 1 && bin2b l0 && bin2b l1
  | D _ _ => false
  | _ => true
  end.
Lemma bin2b_sound : forall t, bin2b t = true -> bin2 t.
Proof.
  fix IH 1. intros [|f|p ch]; intros H; try constructor.
  destruct ch as [|l0 [|l1 [|l2 ch]]]; try discriminate. cbn [bin2b] in H.
  apply andb_true_iff in H as [H H1]. apply andb_true_iff in H as [H H0]. apply andb_true_iff in H as [Ha Hb].
  apply Nat.eqb_eq in Ha, Hb. constructor; [split; auto| apply IH; auto | apply IH; auto].
Qed.

(* schemas under which a one-row decision stays a one-row decision *)
Definition keeps_rows (s : schema) (tf : aff) : Prop := forall p, one_row p -> one_row (s_dec s p tf).
Lemma keeps_rows_op fo tf : keeps_rows (op_schema fo) tf.
Proof. intros p H. exact H. Qed.
Lemma keeps_rows_comp tf : length (a_bias tf) = length (a_mat tf) -> keeps_rows comp_schema tf.
Proof.
  intros Htf p [H1 H2]. unfold one_row, comp_schema, upd_dec; cbn [s_dec a_mat a_bias]. split.
  - rewrite length_matmul. exact H1.
  - unfold vadd. rewrite length_vzip, length_vopp, length_matvec. rewrite H1, H2. reflexivity.
Qed.

Lemma explore_false o tol top st q ql k k' x :
  explore o tol top st ql k = (false, k') -> osound o x -> (st = Infeas -> ~ in_rows q x) -> in_rows q x ->
  ~ in_rows ql x.
Proof.
  unfold explore. intros H Ho Hm Hq. destruct top; [inversion H|].
  assert (Hlp : forall kk, (lp_keeps (o_lp o (k_lp k) ql), kk) = (false, k') -> ~ in_rows ql x).
  { intros kk E. inversion E as [[E1 E2]]. unfold lp_keeps in E1.
    destruct (o_lp o (k_lp k) ql) eqn:El; try discriminate. exact (Ho _ _ El). }
  destruct st as [| | |ws].
  - eapply Hlp; eauto.
  - exfalso. apply Hm; auto.
  - eapply Hlp; eauto.
  - destruct (existsb (contains_tol tol ql) ws); [inversion H|]. eapply Hlp; eauto.
Qed.

Theorem graftp_cev o tol s tf x : osound o x -> keeps_rows s tf ->
  forall L, bin2 L -> forall top st i q k, (st = Infeas -> ~ in_rows q x) -> in_rows q x ->
  cev (fst (graftp o tol s tf L top st i q k)) x = eval (graft s L tf) x.
Proof.
  intros Ho Hk L HL. induction HL as [|f|p l0 l1 Hp HL0 IH0 HL1 IH1]; intros top st i q k Hm Hq.
  - reflexivity.
  - reflexivity.
  - cbn [graftp graft map].
    set (p' := s_dec s p tf). destruct (Hk p Hp) as [Hr1 Hr2]. fold p' in Hr1, Hr2.
    set (q0 := q ++ [row0 p']). set (q1 := q ++ [row1 p']).
    destruct (if pexists l0
              then let '(b, k') := explore o tol top st q0 k in (b || negb (pexists l1), k')
              else (false, k)) as [keep0 k1] eqn:E0.
    destruct (if pexists l1
              then let '(b, k') := explore o tol top st q1 k1 in (b || negb keep0, k')
              else (false, k1)) as [keep1 k2] eqn:E1.
    (* what a dropped edge means *)
    assert (D0 : pexists l0 = true -> keep0 = false -> ~ in_rows q0 x).
    { intros He Hf. rewrite He in E0. destruct (explore o tol top st q0 k) as [b k'] eqn:Ex.
      inversion E0; subst. apply orb_false_iff in H0 as [Hb _]. subst b.
      eapply explore_false; eauto. }
    assert (D1 : pexists l1 = true -> keep1 = false -> ~ in_rows q1 x).
    { intros He Hf. rewrite He in E1. destruct (explore o tol top st q1 k1) as [b k'] eqn:Ex.
      inversion E1; subst. apply orb_false_iff in H0 as [Hb _]. subst b.
      eapply explore_false; eauto. }
    assert (N0 : pexists l0 = false -> keep0 = false) by (intros He; rewrite He in E0; inversion E0; auto).
    assert (N1 : pexists l1 = false -> keep1 = false) by (intros He; rewrite He in E1; inversion E1; auto).
    assert (U0 : pexists l0 = false -> eval (graft s l0 tf) x = None) by (destruct l0; try discriminate; reflexivity).
    assert (U1 : pexists l1 = false -> eval (graft s l1 tf) x = None) by (destruct l1; try discriminate; reflexivity).
    cbn [eval map]. rewrite (decide_one_row p' x Hr1 Hr2).
    destruct (qleb (dot (fst (prow p')) x) (snd (prow p'))) eqn:Eb; cbn [nth].
    + (* branch 1 *)
      pose proof (route1 p' x q Hq Eb) as Hq1. fold q1 in Hq1.
      destruct (pexists l1) eqn:Ee1.
      2:{ (* no such child on either side *)
        rewrite (U1 eq_refl). rewrite (N1 eq_refl). rewrite andb_false_r. cbn [andb].
        destruct (if keep0 then graftp o tol s tf l0 false Indet new_idx q0 k2 else (CU, k2)) as [c0 k4].
        cbn [fst cev]. rewrite Eb. reflexivity. }
      assert (K1 : keep1 = true) by (destruct keep1; auto; exfalso; apply (D1 eq_refl eq_refl); auto).
      subst keep1.
      destruct (pexists l0 && true && xorb keep0 true) eqn:Ef.
      * apply IH1; auto. discriminate.
      * destruct (graftp o tol s tf l1 false Indet new_idx q1 k2) as [c1 k3] eqn:Eg.
        destruct (if keep0 then graftp o tol s tf l0 false Indet new_idx q0 k3 else (CU, k3)) as [c0 k4].
        cbn [fst cev]. rewrite Eb. specialize (IH1 false Indet new_idx q1 k2). rewrite Eg in IH1. apply IH1; auto. discriminate.
    + (* branch 0 *)
      pose proof (route0 p' x q Hq Eb) as Hq0. fold q0 in Hq0.
      destruct (pexists l0) eqn:Ee0.
      2:{ rewrite (U0 eq_refl). rewrite (N0 eq_refl). cbn [andb].
          destruct (if keep1 then graftp o tol s tf l1 false Indet new_idx q1 k2 else (CU, k2)) as [c1 k3].
          cbn [fst cev]. rewrite Eb. reflexivity. }
      assert (K0 : keep0 = true) by (destruct keep0; auto; exfalso; apply (D0 eq_refl eq_refl); auto).
      subst keep0.
      destruct (true && pexists l1 && xorb true keep1) eqn:Ef.
      * assert (keep1 = false) by (destruct keep1; auto; rewrite andb_false_r in Ef; discriminate). subst keep1.
        apply IH0; auto. discriminate.
      * destruct (if keep1 then graftp o tol s tf l1 false Indet new_idx q1 k2 else (CU, k2)) as [c1 k3].
        destruct (graftp o tol s tf l0 false Indet new_idx q0 k3) as [c0 k4] eqn:Eg.
        cbn [fst cev]. rewrite Eb. specialize (IH0 false Indet new_idx q0 k3). rewrite Eg in IH0. apply IH0; auto. discriminate.
Qed.

(* rhs: every terminal function must keep rows (for composition: be well-shaped) *)
Fixpoint terms_ok (s : schema) (t : ctree) : Prop :=
  match t with
  | CU => True
  | CN _ leaf f _ c0 c1 => (leaf = true -> keeps_rows s f) /\ terms_ok s c0 /\ terms_ok s c1
  end.

Theorem cprune_cev o tol s L x : osound o x -> bin2 L ->
  forall t q k, cbin t -> terms_ok s t -> marks_ok x q t -> in_rows q x ->
  cev (fst (cprune o tol s L t q k)) x = eval (lift s (erase t) L) x.
Proof.
  intros Ho HL. induction t as [|i leaf f st c0 IH0 c1 IH1]; intros q k Hb Ht Hm Hq; [reflexivity|].
  destruct Hb as [Hf [Hb0 Hb1]]. destruct Ht as [Htf [Ht0 Ht1]]. destruct Hm as [Hst [Hm0 Hm1]].
  cbn [cprune erase]. destruct leaf.
  - cbn [lift]. apply graftp_cev; auto.
  - destruct (Hf eq_refl) as [Hr1 Hr2].
    destruct (cprune o tol s L c0 (q ++ [row0 f]) k) as [c0' k1] eqn:E0.
    destruct (cprune o tol s L c1 (q ++ [row1 f]) k1) as [c1' k2] eqn:E1.
    cbn [fst cev lift eval map]. rewrite (decide_one_row f x Hr1 Hr2).
    destruct (qleb (dot (fst (prow f)) x) (snd (prow f))) eqn:Eb; cbn [nth].
    + specialize (IH1 (q ++ [row1 f]) k1). rewrite E1 in IH1. apply IH1; auto. apply route1; auto.
    + specialize (IH0 (q ++ [row0 f]) k). rewrite E0 in IH0. apply IH0; auto. apply route0; auto.
Qed.

(* pruned composition = unpruned composition *)
Theorem compose_prune_eval o tol t L x : osound o x -> bin2 L -> cbin t -> terms_ok comp_schema t -> marks_ok x [] t ->
  cev (fst (compose_prune o tol t L)) x = eval (compose (erase t) L) x.
Proof. intros. unfold compose_prune, compose. apply cprune_cev; auto. constructor. Qed.

(* pruned operators = the point-wise lifting *)
Lemma terms_ok_op fo t : terms_ok (op_schema fo) t.
Proof. induction t; simpl; auto. split; auto. intros _. apply keeps_rows_op. Qed.
Theorem top_prune_eval o tol fo t L x : osound o x -> bin2 L -> cbin t -> marks_ok x [] t ->
  cev (fst (cprune o tol (op_schema fo) L t [] k0)) x = eval (top fo (erase t) L) x.
Proof. intros. unfold top. apply cprune_cev; auto. apply terms_ok_op. constructor. Qed.

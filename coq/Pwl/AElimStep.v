(* Pwl/AElimStep.v -- single iterations of the main loop of Pwl/AElim.v on an arena that holds a tree: what
   PolyhedraGen::next pops and pushes (DfsPre stack, predicates stack, last_depth), and what the loop body does to the
   node it visits, expressed through Elim.visit. *)
From AT Require Import Num Vec Aff PTree Cells Abs Tree TreeLemmas Cache Elim ElimEval AElim AElimBase AElimOps.

(* ---------------------------------------------------------------- runs of the machine *)
Definition mk (A : arena acont) (ps : list (vec * Qc)) (stack : list (nat * nat * nat)) (lp ld : nat) (k : cnt)
              (rem : list (nat * nat)) : mcfg :=
  mkcfg A (mkpgen ps (mkdfs stack lp) ld) k rem.

Fixpoint steps (o : oracle) (tol : Qc) (root : nat) (n : nat) (c c' : mcfg) : Prop :=
  match n with
  | O => c = c'
  | S n' => exists c1, ae_step o tol root c = SNext c1 /\ steps o tol root n' c1 c'
  end.
Lemma steps_trans o tol root : forall n m c1 c2 c3,
  steps o tol root n c1 c2 -> steps o tol root m c2 c3 -> steps o tol root (n + m) c1 c3.
Proof.
  induction n as [|n IH]; intros m c1 c2 c3 H1 H2; cbn [steps Nat.add] in *.
  - subst. exact H2.
  - destruct H1 as [cx [Hs H1]]. exists cx. split; [exact Hs|]. eapply IH; eauto.
Qed.
Lemma steps_one o tol root c c' : ae_step o tol root c = SNext c' -> steps o tol root 1 c c'.
Proof. intros H. exists c'. split; [exact H | reflexivity]. Qed.
Lemma loop_steps o tol root : forall n c c', steps o tol root n c c' ->
  forall f, ae_loop (n + f) o tol root c = ae_loop f o tol root c'.
Proof.
  induction n as [|n IH]; intros c c' H f; cbn [steps Nat.add] in *.
  - subst. reflexivity.
  - destruct H as [cx [Hs H]]. cbn [ae_loop]. rewrite Hs. apply IH. exact H.
Qed.

(* ---------------------------------------------------------------- the two stacks *)
Definition kstack (d : nat) (c0 c1 : ctree) (rest : list (nat * nat * nat)) : list (nat * nat * nat) :=
  push_kids (S d) (somes (rev [cidx c0; cidx c1])) 0 rest.
Definition nkids (c0 c1 : ctree) : nat := length (somes (rev [cidx c0; cidx c1])).

Lemma push_kids_app d : forall kids n st, push_kids d kids n st = push_kids d kids n [] ++ st.
Proof.
  induction kids as [|j r IH]; intros n st; cbn [push_kids]; [reflexivity|].
  rewrite (IH (S n) ((d, j, n) :: st)), (IH (S n) [(d, j, n)]). rewrite <- app_assoc. reflexivity.
Qed.
Lemma push_kids_length d : forall kids n, length (push_kids d kids n []) = length kids.
Proof.
  induction kids as [|j r IH]; intros n; cbn [push_kids]; [reflexivity|].
  rewrite push_kids_app, app_length, IH. cbn [length]. lia.
Qed.
Lemma skipn_push_kids d kids st : skipn (length kids) (push_kids d kids 0 st) = st.
Proof.
  rewrite push_kids_app. rewrite <- (push_kids_length d kids 0). rewrite skipn_app, skipn_all, Nat.sub_diag. reflexivity.
Qed.

Lemma preds_pop (ps q junk : list (vec * Qc)) d : rev ps = q ++ junk -> length q = d ->
  (if Nat.leb (S d) (length ps) then skipn (1 + length ps - S d) ps else ps) = rev q.
Proof.
  intros Hr Hq. assert (Hps : ps = rev junk ++ rev q) by (rewrite <- rev_app_distr, <- Hr, rev_involutive; reflexivity).
  subst ps. rewrite app_length, !rev_length, Hq.
  destruct (Nat.leb_spec (S d) (length junk + d)) as [Hle|Hgt].
  - replace (1 + (length junk + d) - S d)%nat with (length (rev junk)) by (rewrite rev_length; lia).
    rewrite skipn_app, skipn_all, Nat.sub_diag. reflexivity.
  - destruct junk; [reflexivity | cbn [length] in Hgt; lia].
Qed.

Definition lrow (l : nat) (p : aff) : vec * Qc := match l with O => row0 p | _ => row1 p end.

(* PolyhedraGen::next on the entry of a child j of node i under label l *)
Lemma pg_next_child A ps q junk d j nrem rest lp fj sj chj lfj i p st pari chi lfi l :
  rev ps = q ++ junk -> length q = d ->
  aget A j = Some (ae_cell fj sj (Some i) chj lfj) ->
  aget A i = Some (ae_cell p st pari chi lfi) -> find_label chi j = Some l -> (l = 0 \/ l = 1)%nat ->
  pg_next A (mkpgen ps (mkdfs ((S d, j, nrem) :: rest) lp) (length ps)) =
  Some (Some ((S d, j, nrem),
              mkpgen (lrow l p :: rev q)
                     (mkdfs (push_kids (S (S d)) (somes (rev chj)) 0 rest) (length (somes (rev chj)))) (S d))).
Proof.
  intros Hr Hq Hj Hi Hl Hl01. unfold pg_next, dfs_next. cbn [g_iter d_stack g_last_depth g_preds]. rewrite Hj.
  cbn [ae_cell c_children]. unfold ae_parent. rewrite Hj. cbn [ae_cell c_parent]. rewrite Hi. cbn [ae_cell c_children].
  rewrite Hl, Hi. rewrite (preds_pop ps q junk d Hr Hq).
  destruct Hl01 as [-> | ->]; reflexivity.
Qed.

(* ---------------------------------------------------------------- Tree::num_nodes on a laid-out sub-tree *)
Definition kidsf2 (c0 c1 : ctree) : list ctree :=
  (match c0 with CU => [] | _ => [c0] end) ++ (match c1 with CU => [] | _ => [c1] end).
Definition eidx (e : nat * nat * nat) : nat := snd (fst e).
Lemma kidsf2_stack d c0 c1 rest :
  map eidx (push_kids d (somes (rev [cidx c0; cidx c1])) 0 rest) = map ridx (kidsf2 c0 c1) ++ map eidx rest.
Proof. destruct c0, c1; reflexivity. Qed.
Lemma kidsf2_ne c0 c1 : Forall (fun t => t <> CU) (kidsf2 c0 c1).
Proof. destruct c0, c1; cbn [kidsf2 app]; repeat constructor; discriminate. Qed.
Lemma in_kidsf2 t c0 c1 : In t (kidsf2 c0 c1) -> t = c0 \/ t = c1.
Proof. destruct c0, c1; cbn [kidsf2 app In]; intuition. Qed.
Lemma fidxs_kidsf2 c0 c1 F : fidxs (kidsf2 c0 c1 ++ F) = (idxs c0 ++ idxs c1) ++ fidxs F.
Proof.
  unfold fidxs. rewrite flat_map_app. f_equal.
  destruct c0, c1; cbn [kidsf2 app flat_map idxs]; rewrite ?app_nil_r; reflexivity.
Qed.

Lemma dfs_count_forest : forall fuel F a stack lp n,
  Forall (fun t => t <> CU) F -> (forall t, In t F -> exists par, wfn a par t) ->
  map eidx stack = map ridx F -> (length (fidxs F) < fuel)%nat ->
  dfs_count fuel a (mkdfs stack lp) n = Some (n + length (fidxs F))%nat.
Proof.
  induction fuel as [|fuel IH]; intros F a stack lp n Hne Hwf Hst Hlen; [lia|].
  destruct F as [|t F].
  - destruct stack; [|discriminate]. cbn. rewrite Nat.add_0_r. reflexivity.
  - apply Forall_cons_iff in Hne as [Ht HneF]. destruct t as [|j lf f s c0 c1]; [congruence|].
    destruct stack as [|[[d j'] r] rest]; [discriminate|]. cbn [map eidx fst snd ridx] in Hst. inversion Hst as [[Hj Hrest]]. subst j'.
    destruct (Hwf _ (or_introl eq_refl)) as [par Hw]. cbn [wfn] in Hw. destruct Hw as [Hc [_ [H0 H1]]].
    cbn [dfs_count dfs_next d_stack]. rewrite Hc. cbn [ae_cell c_children].
    rewrite (IH (kidsf2 c0 c1 ++ F)).
    + rewrite fidxs_kidsf2. change (fidxs (CN j lf f s c0 c1 :: F)) with (j :: (idxs c0 ++ idxs c1) ++ fidxs F).
      cbn [length]. f_equal. lia.
    + apply Forall_app. split; [apply kidsf2_ne | exact HneF].
    + intros t Ht0. apply in_app_or in Ht0 as [Ht0|Ht0]; [|apply Hwf; right; exact Ht0].
      exists (Some j). apply in_kidsf2 in Ht0 as [->| ->]; assumption.
    + rewrite kidsf2_stack, map_app, Hrest. reflexivity.
    + rewrite fidxs_kidsf2. change (fidxs (CN j lf f s c0 c1 :: F)) with (j :: (idxs c0 ++ idxs c1) ++ fidxs F) in Hlen.
      cbn [length] in Hlen. lia.
Qed.
Lemma num_nodes_ok a par j lf f s c0 c1 : wfn a par (CN j lf f s c0 c1) -> NoDup (idxs (CN j lf f s c0 c1)) ->
  exists n, ae_num_nodes a j = Some n.
Proof.
  intros Hw Hnd. unfold ae_num_nodes. eexists.
  apply (dfs_count_forest (S (length a)) [CN j lf f s c0 c1] a [(0%nat, j, 0%nat)] 0%nat 0%nat).
  - constructor; [discriminate | constructor].
  - intros t [<-|[]]. exists par. exact Hw.
  - reflexivity.
  - pose proof (wfn_size_bound a _ par Hw Hnd) as B. unfold fidxs. cbn [flat_map]. rewrite app_nil_r, csize_idxs. lia.
Qed.

(* ---------------------------------------------------------------- the loop body on a child *)
Lemma set_state_spec A j f s par ch lf s2 : aget A j = Some (ae_cell f s par ch lf) ->
  ae_set_state A j s2 = Some (aset A j (Some (ae_cell f s2 par ch lf))).
Proof. intros H. unfold ae_set_state. rewrite H. reflexivity. Qed.


Lemma step_child o tol root A ps q junk d j nrem rest lp k rem fj cl chj lfj i p st pari chi lfi l s k1 fr skip :
  rev ps = q ++ junk -> length q = d ->
  aget A j = Some (ae_cell fj (c_state cl) (Some i) chj lfj) ->
  aget A i = Some (ae_cell p st pari chi lfi) -> find_label chi j = Some l -> (l = 0 \/ l = 1)%nat ->
  j <> root -> st_ne st -> (exists nn, ae_num_nodes A j = Some nn) ->
  visit o tol st (q ++ [lrow l p]) (lrow l p) cl k = (s, k1, fr, skip) ->
  ae_step o tol root (mk A ps ((S d, j, nrem) :: rest) lp (length ps) k rem) =
  if fr then
    match (if Nat.eqb nrem 0 then ae_forward root (aset A j (Some (ae_cell fj s (Some i) chj lfj))) i
           else Some (aset A j (Some (ae_cell fj s (Some i) chj lfj)))) with
    | None => SPanic
    | Some A2 => SNext (mk A2 (lrow l p :: rev q)
                           (if skip then rest else push_kids (S (S d)) (somes (rev chj)) 0 rest)
                           (if skip then 0%nat else length (somes (rev chj))) (S d) k1
                           (if is_infeas s then rem ++ [(l, i)] else rem))
    end
  else SNext (mk A (lrow l p :: rev q)
                 (if skip then rest else push_kids (S (S d)) (somes (rev chj)) 0 rest)
                 (if skip then 0%nat else length (somes (rev chj))) (S d) k1 rem).
Proof.
  intros Hr Hq Hj Hi Hl Hl01 Hjr Hst [nn Hnn] Hv. unfold ae_step, mk. cbn [m_ar m_gen m_k m_rem].
  rewrite (pg_next_child A ps q junk d j nrem rest lp fj (c_state cl) chj lfj i p st pari chi lfi l Hr Hq Hj Hi Hl Hl01).
  destruct (Nat.eqb_spec j root) as [|_]; [contradiction|]. rewrite Hj. cbn [ae_cell c_val ac_state].
  unfold visit in Hv. destruct (c_state cl) as [| | |ws] eqn:Ecs.
  - (* Indeterminate: classified now *)
    destruct (classify o tol st (q ++ [lrow l p]) (lrow l p) k) as [s' k'] eqn:Ec. inversion Hv; subst s' k' fr skip. clear Hv.
    unfold ae_parent. rewrite Hj. cbn [ae_cell c_parent]. rewrite Hi. cbn [ae_cell c_children]. rewrite Hl.
    cbn [g_preds]. rewrite Hi. cbn [ae_cell c_val ac_state rev]. rewrite rev_involutive.
    unfold ae_set_state. rewrite Hj. cbn [ae_cell c_val ac_aff c_parent c_children c_leaf].
    destruct st as [| | |[|w ws]]; try (exfalso; apply Hst; reflexivity); rewrite Ec;
      destruct (is_infeas s) eqn:Ei; rewrite ?Hnn; unfold pg_skip, dfs_skip; cbn [g_iter g_preds g_last_depth d_last_push d_stack];
      rewrite ?skipn_push_kids; destruct (Nat.eqb nrem 0); try reflexivity.
  - inversion Hv; subst. rewrite Hnn. unfold pg_skip, dfs_skip. cbn [g_iter g_preds g_last_depth d_last_push d_stack].
    rewrite skipn_push_kids. reflexivity.
  - inversion Hv; subst. reflexivity.
  - inversion Hv; subst. reflexivity.
Qed.

(* the root entry: nothing but the push of its children *)
Lemma step_root o tol root A f s ch lf :
  aget A root = Some (ae_cell f s None ch lf) ->
  ae_step o tol root (ae_init A root) =
  SNext (mk A [] (push_kids 1 (somes (rev ch)) 0 []) (length (somes (rev ch))) 0 k0 []).
Proof.
  intros Hr. unfold ae_step, ae_init. cbn [m_ar m_gen m_k m_rem].
  unfold pg_next, dfs_next. cbn [g_iter d_stack g_last_depth g_preds]. rewrite Hr. cbn [ae_cell c_children].
  unfold ae_parent. rewrite Hr. cbn [ae_cell c_parent Nat.leb skipn]. rewrite Nat.eqb_refl. reflexivity.
Qed.
(* the empty stack ends the iteration *)
Lemma step_done o tol root A ps lp ld k rem : ae_step o tol root (mk A ps [] lp ld k rem) = SDone.
Proof. reflexivity. Qed.

(* Pwl/ArenaHistoryMore.v -- histories with ONE pruned composition at any position, continued by apply_func /
   infeasible_elimination steps on the arena the composition machine returns.  After the composition the arena-level
   tree t' and the structural tree t agree up to the indices of the fresh nodes (cshape); the weak invariant
   AInvW (arena_tree + wne, all that apply_func and the elimination need) is re-established from the published
   postcondition of acompose_prune (cabs + cparents + NoDup) and carried through the later steps. *)
From AT Require Import Num Vec Aff PTree Ops Cells Abs Tree TreeLemmas Cache Reduce Elim CPrune Schema WfC OpsWf History.
From AT Require Import ArenaCompose AElim AElimBase AElimRefine ElimWne CPruneWne ArenaHistory.
From AT Require ArenaComposeAbs ACPrune ACPruneOps ACPruneRefine ACPruneAll ACPruneCor ACPruneMono.

Definition AInvW (a : arena acont) (t : ctree) : Prop := arena_tree a 0 t /\ wne t.
Lemma AInv_weak a t : AInv a t -> AInvW a t.
Proof. intros [H [Hn _]]. split; assumption. Qed.

(* ---------------------------------------------------------------- cabs + cparents + cwf -> wfn *)
Lemma cslot_cidx t : ACPruneRefine.cslot t = cidx t.
Proof. destruct t; reflexivity. Qed.
Lemma cabs_cparents_wfn : forall F a i t par, cabs F a i = Some t -> ACPruneAll.cparents a par t -> ACPruneAll.cwf t ->
  wfn a par t.
Proof.
  induction F as [|F IH]; intros a i t par Hc Hp Hw; [discriminate|].
  cbn [cabs] in Hc. destruct (aget a i) as [c|] eqn:Ec; [|discriminate].
  destruct c as [[f s] p ch lf]. cbn [c_children c_leaf c_val ac_aff ac_state] in Hc.
  destruct (match nth 0 ch None with None => Some CU | Some j => cabs F a j end) as [c0|] eqn:E0; [|discriminate].
  destruct (match nth 1 ch None with None => Some CU | Some j => cabs F a j end) as [c1|] eqn:E1; [|discriminate].
  inversion Hc; subst t. clear Hc. cbn [ACPruneAll.cparents ACPruneAll.cwf wfn] in *.
  destruct Hp as [[c' [Hc' [Hpar Hlen]]] [Hp0 Hp1]]. rewrite Ec in Hc'. inversion Hc'; subst c'. clear Hc'.
  cbn [c_parent c_children] in Hpar, Hlen. subst p.
  destruct ch as [|x0 [|x1 [|x2 r]]]; try discriminate. cbn [nth] in E0, E1.
  assert (S0 : x0 = cidx c0 /\ wfn a (Some i) c0 \/ lf = true /\ False).
  { left. destruct x0 as [j0|].
    - split; [rewrite <- cslot_cidx, (ACPruneAll.cabs_slot F a j0 c0 E0); reflexivity|].
      eapply IH; eauto. destruct lf; [destruct Hw as [-> _]; exact I | apply Hw].
    - inversion E0; subst c0. split; [reflexivity | exact I]. }
  assert (S1 : x1 = cidx c1 /\ wfn a (Some i) c1).
  { destruct x1 as [j1|].
    - split; [rewrite <- cslot_cidx, (ACPruneAll.cabs_slot F a j1 c1 E1); reflexivity|].
      eapply IH; eauto. destruct lf; [destruct Hw as [_ ->]; exact I | apply Hw].
    - inversion E1; subst c1. split; [reflexivity | exact I]. }
  destruct S0 as [[-> W0]|[_ []]]. destruct S1 as [-> W1].
  split; [exact Ec|]. split; [|split; assumption]. intros ->. exact Hw.
Qed.

(* ---------------------------------------------------------------- shape-invariant predicates *)
Lemma cwf_cshape : forall t u, ACPruneRefine.cshape t u -> ACPruneAll.cwf t -> ACPruneAll.cwf u.
Proof.
  induction t as [|i l f s t0 IH0 t1 IH1]; intros [|j m g r u0 u1]; cbn [ACPruneRefine.cshape ACPruneAll.cwf]; try tauto.
  intros [<- [_ [_ [H0 H1]]]] Hw. destruct l.
  - destruct Hw as [-> ->]. destruct u0, u1; cbn [ACPruneRefine.cshape] in *; try tauto; auto.
  - destruct Hw; split; eauto.
Qed.
Lemma terms_all_cshape P : forall t u, ACPruneRefine.cshape t u -> terms_all P t = terms_all P u.
Proof.
  induction t as [|i l f s t0 IH0 t1 IH1]; intros [|j m g r u0 u1]; cbn [ACPruneRefine.cshape terms_all]; try tauto.
  intros [<- [<- [_ [H0 H1]]]]. rewrite (IH0 _ H0), (IH1 _ H1). reflexivity.
Qed.

(* ---------------------------------------------------------------- apply_func / elimination under the weak invariant *)
Theorem arena_step_apply_weak alloc tol o g a t : AInvW a t ->
  exists a', arena_step alloc tol o (AApply g) a = Some a' /\ AInvW a' (capply_func g t).
Proof.
  intros [[Hr [Hw Hnd]] Hne]. cbn [arena_step]. destruct (arena_apply_func_spec g a) as [a' [Hrun Hget]].
  exists a'. split; [exact Hrun|]. unfold capply_func in *. split; [|apply wne_cmap; exact Hne].
  split; [rewrite cidx_cmap; exact Hr|]. split; [apply (wfn_apply g a a' Hget); exact Hw | rewrite idxs_cmap; exact Hnd].
Qed.
Theorem arena_step_elim_weak alloc tol o a t : mir_ne o -> AInvW a t ->
  exists a', arena_step alloc tol o AElim a = Some a' /\ AInvW a' (fst (elim o tol t)) /\
             aelim o tol a 0 = Some (a', snd (elim o tol t)).
Proof.
  intros Hm [Ht Hne]. destruct (aelim_refines o tol a 0 t Hm Ht Hne) as [a' [Hrun [Ht' _]]].
  exists a'. cbn [arena_step]. rewrite Hrun. cbn [option_map fst]. split; [reflexivity|]. split; [|reflexivity].
  split; [exact Ht' | apply elim_wne; assumption].
Qed.

(* ---------------------------------------------------------------- the pruned composition re-establishes the weak invariant *)
Lemma wne_shape : forall t u, ACPruneRefine.cshape t u -> wne t -> wne u.
Proof.
  induction t as [|i l f s t0 IH0 t1 IH1]; intros [|j m g r u0 u1]; cbn [ACPruneRefine.cshape wne]; try tauto.
  intros [_ [_ [<- [H0 H1]]]] [A [B C]]. split; [exact A|]. split; eauto.
Qed.
Theorem arena_step_compose_prune_weak alloc tol o L a t t1 :
  fresh_alloc alloc -> ACPruneAll.lp_index_free o -> L <> U ->
  AInv a t -> step tol o (OCompose true L) t = HOk t1 ->
  exists a' t',
    arena_step alloc tol o (ACompose true L) a = Some a' /\ AInvW a' t' /\
    ACPruneRefine.cshape t' t1 /\ ACPruneAll.cframe t t' /\
    (forall k, In k (idxs t') -> In k (idxs t) \/ aget a k = None).
Proof.
  intros Hf Ho HnU Hinv Hs.
  destruct (arena_step_compose_prune_partial alloc tol o L a t t1 Hf Ho HnU Hinv Hs)
    as [a' [t' [Hrun [_ [Hab [Hp [Hnd [Hcs [Hfr [Hidx _]]]]]]]]]].
  destruct (step_compose_guard _ _ _ _ _ _ Hs) as [_ E1]. cbn iota in E1.
  pose proof Hinv as [[Hr [Hw Hnd0]] [Hne _]].
  assert (W1 : wne t1) by (subst t1; apply compose_prune_wne; exact Hne).
  assert (C1 : ACPruneAll.cwf t1) by (subst t1; apply compose_prune_cwf; eapply wfn_cwf; eauto).
  pose proof (ACPruneRefine.cshape_sym _ _ Hcs) as Hsc.
  pose proof (Hab _ (le_n _)) as Hc.
  exists a', t'. split; [exact Hrun|]. split; [|split; [exact Hcs|split; [exact Hfr|]]].
  - split; [|eapply wne_shape; eauto]. split; [|split].
    + rewrite <- cslot_cidx. eapply ACPruneAll.cabs_slot; eauto.
    + eapply cabs_cparents_wfn; eauto. eapply cwf_cshape; eauto.
    + rewrite <- idxs_cidx. exact Hnd.
  - intros k Hk. rewrite <- !idxs_cidx in *. auto.
Qed.

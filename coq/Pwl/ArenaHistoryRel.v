(* Pwl/ArenaHistoryRel.v -- the relation "equal up to node indices" (cshape) carried through histories: after ONE
   pruned composition (at any position of the history) the arena-level tree and the structural tree differ in the
   indices of fresh nodes only; apply_func and infeasible_elimination respect the relation (the structural models do
   not read node indices: ElimShape.elim_cshape, cmap_terms_cshape), with equal oracle-call counters. *)
From AT Require Import Num Vec Aff PTree Ops Cells Abs Tree TreeLemmas Cache Reduce Elim CPrune Schema WfC OpsWf History.
From AT Require Import ArenaCompose AElim AElimBase AElimRefine ElimWne ElimShape CPruneWne ArenaHistory ArenaHistoryMore.
From AT Require ArenaComposeAbs ACPrune ACPruneOps ACPruneRefine ACPruneAll ACPruneCor ACPruneMono.

Theorem arena_step_refines_rel alloc tol o x a t' t t1 : mir_ne o -> exact_op x = true ->
  AInvW a t' -> ACPruneRefine.cshape t' t -> step tol o (op_of x) t = HOk t1 ->
  exists a' t1', arena_step alloc tol o x a = Some a' /\ AInvW a' t1' /\ ACPruneRefine.cshape t1' t1.
Proof.
  intros Hm Hx Hinv Hcs Hs. destruct x as [g | pr L |]; [ | discriminate | ]; cbn [op_of step] in Hs.
  - destruct (terms_all _ t); [|discriminate]. inversion Hs; subst t1.
    destruct (arena_step_apply_weak alloc tol o g a t' Hinv) as [a' [Hrun Hi]].
    exists a', (capply_func g t'). split; [exact Hrun|]. split; [exact Hi|]. apply cmap_terms_cshape. exact Hcs.
  - inversion Hs; subst t1.
    destruct (arena_step_elim_weak alloc tol o a t' Hm Hinv) as [a' [Hrun [Hi _]]].
    exists a', (fst (elim o tol t')). split; [exact Hrun|]. split; [exact Hi|]. apply elim_cshape. exact Hcs.
Qed.
(* the counters of the elimination agree as well *)
Theorem arena_step_elim_rel_counters alloc tol o a t' t : mir_ne o -> AInvW a t' -> ACPruneRefine.cshape t' t ->
  exists a', arena_step alloc tol o AElim a = Some a' /\ aelim o tol a 0 = Some (a', snd (elim o tol t)).
Proof.
  intros Hm Hinv Hcs. destruct (arena_step_elim_weak alloc tol o a t' Hm Hinv) as [a' [Hrun [_ Hk]]].
  exists a'. split; [exact Hrun|]. rewrite Hk. destruct (elim_cshape o tol t' t Hcs) as [_ ->]. reflexivity.
Qed.

Theorem arena_run_refines_rel alloc tol : forall ops a t' t tf, hist_ok ops ->
  AInvW a t' -> ACPruneRefine.cshape t' t -> run tol t (ops_of ops) = HOk tf ->
  exists a' tf', arena_run alloc tol ops a = Some a' /\ AInvW a' tf' /\ ACPruneRefine.cshape tf' tf.
Proof.
  induction ops as [|[o x] r IH]; intros a t' t tf Hok Hinv Hcs Hrun.
  - cbn in Hrun. inversion Hrun; subst tf. exists a, t'. split; [reflexivity | auto].
  - inversion Hok as [|y l [Hm Hx] Hr]; subst y l. cbn [fst snd] in Hm, Hx.
    cbn [ops_of map fst snd] in Hrun. rewrite run_cons in Hrun. cbn [fst snd] in Hrun.
    destruct (step tol o (op_of x) t) as [t1|] eqn:Es; [|discriminate].
    destruct (arena_step_refines_rel alloc tol o x a t' t t1 Hm Hx Hinv Hcs Es) as [a1 [t1' [Ha1 [Hinv1 Hcs1]]]].
    destruct (IH a1 t1' t1 tf Hr Hinv1 Hcs1 Hrun) as [a' [tf' [Ha [Hi Hc]]]]. exists a', tf'. split; [|auto].
    cbn [arena_run fst snd]. rewrite Ha1. exact Ha.
Qed.

Lemma run_app tol t l1 l2 : run tol t (l1 ++ l2) =
  match run tol t l1 with HOk t1 => run tol t1 l2 | HPanic => HPanic end.
Proof.
  revert t. induction l1 as [|ox r IH]; intros t; [reflexivity|].
  cbn [app]. rewrite !run_cons. destruct (step tol (fst ox) (snd ox) t) as [t1|]; [apply IH | reflexivity].
Qed.

(* histories  ops1 ; compose::<true>(L) ; ops2  with ops1, ops2 sequences of apply_func / infeasible_elimination
   (every step with its own oracle; the LP oracle of the composition ignores the call number): whenever the
   structural run completes with tf, the arena-level run completes, the arena it returns holds a tree tf' (root 0,
   mirrored links, no index twice: arena_tree; readable by cabs) that equals tf up to the indices of the nodes the
   composition created, hence evaluates like tf everywhere *)
Theorem arena_history_refines alloc tol ops1 o L ops2 a0 t0 tf :
  fresh_alloc alloc -> ACPruneAll.lp_index_free o -> L <> U -> hist_ok ops1 -> hist_ok ops2 -> AInv a0 t0 ->
  run tol t0 (ops_of ops1 ++ (o, OCompose true L) :: ops_of ops2) = HOk tf ->
  exists a' tf',
    arena_run alloc tol (ops1 ++ (o, ACompose true L) :: ops2) a0 = Some a' /\
    AInvW a' tf' /\ cabs (AElimBase.cdepth tf') a' 0%nat = Some tf' /\
    ACPruneRefine.cshape tf' tf /\ (forall x, cev tf' x = cev tf x).
Proof.
  intros Hf Ho HnU Hok1 Hok2 Hinv Hrun. rewrite run_app in Hrun.
  destruct (run tol t0 (ops_of ops1)) as [t|] eqn:Er; [|discriminate].
  destruct (arena_run_refines_exact alloc tol ops1 a0 t0 t Hok1 Hinv Er) as [a [Ha Hi]].
  rewrite run_cons in Hrun. cbn [fst snd] in Hrun.
  destruct (step tol o (OCompose true L) t) as [t1|] eqn:Es; [|discriminate].
  destruct (arena_step_compose_prune_weak alloc tol o L a t t1 Hf Ho HnU Hi Es) as [a1 [t1' [Hs1 [Hi1 [Hcs1 _]]]]].
  destruct (arena_run_refines_rel alloc tol ops2 a1 t1' t1 tf Hok2 Hi1 Hcs1 Hrun) as [a' [tf' [Ha' [Hi' Hc']]]].
  exists a', tf'. split.
  { rewrite arena_run_app, Ha. cbn [obnd arena_run fst snd]. rewrite Hs1. cbn [obnd]. exact Ha'. }
  split; [exact Hi'|]. split; [apply arena_tree_cabs; apply Hi'|]. split; [exact Hc'|].
  intros x. apply ACPruneAll.cshape_cev. exact Hc'.
Qed.
(* the evaluation alone: C03_history_terminal / _value speak about tf; the arena-level execution returns an arena
   whose tree (read by cabs) takes the same value at every x *)
Corollary arena_history_value alloc tol ops1 o L ops2 a0 t0 tf :
  fresh_alloc alloc -> ACPruneAll.lp_index_free o -> L <> U -> hist_ok ops1 -> hist_ok ops2 -> AInv a0 t0 ->
  run tol t0 (ops_of ops1 ++ (o, OCompose true L) :: ops_of ops2) = HOk tf ->
  exists a' F tf', arena_run alloc tol (ops1 ++ (o, ACompose true L) :: ops2) a0 = Some a' /\
                   cabs F a' 0%nat = Some tf' /\ forall x, cev tf' x = cev tf x.
Proof.
  intros Hf Ho HnU Hok1 Hok2 Hinv Hrun.
  destruct (arena_history_refines alloc tol ops1 o L ops2 a0 t0 tf Hf Ho HnU Hok1 Hok2 Hinv Hrun)
    as [a' [tf' [Ha [_ [Hc [_ Hev]]]]]].
  exists a', (AElimBase.cdepth tf'), tf'. split; [exact Ha|]. split; [exact Hc | exact Hev].
Qed.

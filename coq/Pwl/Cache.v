(* Pwl/Cache.v -- feasibility caches: closed path polytopes of arena nodes, the documented containment
   tolerance, thinness, executable cache_ok; the acceptance test of mirror_points. *)
From AT Require Import Num Vec Aff Farkas FM Equiv PTree Cells Abs PolyGen.

Definition rows := list (vec * Qc).
Definition in_rows (rs : rows) (x : vec) : Prop := Forall (fun rb => dot (fst rb) x <= snd rb) rs.
Definition in_rowsb (rs : rows) (x : vec) : bool := forallb (fun rb => qleb (dot (fst rb) x) (snd rb)) rs.
(* Polytope::contains: every raw distance b - a.x >= -tol *)
Definition contains_tol (tol : Qc) (rs : rows) (x : vec) : bool :=
  forallb (fun rb => qleb (- tol) (snd rb - dot (fst rb) x)) rs.
Lemma in_rowsb_spec rs x : in_rowsb rs x = true <-> in_rows rs x.
Proof.
  unfold in_rowsb, in_rows. rewrite forallb_forall, Forall_forall.
  split; intros H rb Hrb; apply qleb_spec; auto.
Qed.

Definition constrs_of (rs : rows) : list constr :=
  map (fun rb => {| coef := fst rb; rhs := snd rb; strict := false |}) rs.
Lemma all_hold_constrs_of rs x : all_hold (constrs_of rs) x <-> in_rows rs x.
Proof.
  unfold all_hold, constrs_of, in_rows. rewrite Forall_map. unfold holds; simpl. reflexivity.
Qed.

Definition norm1 (v : vec) : Qc := fold_right (fun c acc => qabs c + acc) 0 v.
(* the system tightened by tau: a.x <= b - tau*|a|_1 *)
Definition tighten (tau : Qc) (rs : rows) : rows := map (fun rb => (fst rb, snd rb - tau * norm1 (fst rb))) rs.
Definition relax (tau : Qc) (rs : rows) : rows := map (fun rb => (fst rb, snd rb + tau * norm1 (fst rb))) rs.

(* certified emptiness / non-emptiness through the verified solver; None = Unknown *)
Definition empty_cert (n : nat) (rs : rows) : option bool :=
  match solve n (constrs_of rs) with Unsat _ => Some true | Sat _ => Some false | Unknown => None end.
Lemma empty_cert_true n rs : empty_cert n rs = Some true -> forall x, length x = n -> ~ in_rows rs x.
Proof.
  unfold empty_cert. destruct (solve n (constrs_of rs)) eqn:E; try discriminate. intros _ x Hx Hin.
  eapply solve_unsat; eauto. apply all_hold_constrs_of; auto.
Qed.
Lemma empty_cert_false n rs : empty_cert n rs = Some false -> exists x, length x = n /\ in_rows rs x.
Proof.
  unfold empty_cert. destruct (solve n (constrs_of rs)) as [x| |] eqn:E; try discriminate. intros _.
  destruct (solve_sat _ _ _ E) as [H1 H2]. exists x. split; auto. apply all_hold_constrs_of; auto.
Qed.

(* thin: nothing survives tightening by tau (the region contains no point with slack tau*|a|_1 on every row) *)
Definition thin (n : nat) (tau : Qc) (rs : rows) : Prop := forall x, length x = n -> ~ in_rows (tighten tau rs) x.
Definition thin_cert (n : nat) (tau : Qc) (rs : rows) : option bool := empty_cert n (tighten tau rs).
Lemma thin_cert_sound n tau rs : thin_cert n tau rs = Some true -> thin n tau rs.
Proof. unfold thin_cert, thin. apply empty_cert_true. Qed.

Lemma norm1_nonneg v : 0 <= norm1 v.
Proof. induction v as [|c v IH]; simpl. apply Qcle_refl. pose proof (qabs_nonneg c). qlra. Qed.
Lemma empty_thin n tau rs : 0 <= tau -> (forall x, length x = n -> ~ in_rows rs x) -> thin n tau rs.
Proof.
  intros Ht He x Hx Hin. apply (He x Hx). unfold in_rows, tighten in *. rewrite Forall_map in Hin.
  eapply Forall_impl; [|exact Hin]. intros [r b] H; simpl in *. pose proof (norm1_nonneg r). qnra.
Qed.

(* ---- closed path rows of every node of a dumped arena (pre-order listing of PolyGen) ---- *)
Definition node_rows (a : arena acont) (root : nat) : option (list (nat * rows)) :=
  match dabs (S (length a)) a root with
  | Some dt => Some (map (fun it => (o_index it, o_rows it)) (preorder (S (length a)) 0 0 [] dt))
  | None => None
  end.

(* cache_ok on a dump: witnesses lie in the closed path polytope within tol, infeasible marks are thin.
   result: None = kernel Unknown / not a tree; Some [] = ok; Some l = offending node indices *)
Definition state_ok (n : nat) (tol tau : Qc) (rs : rows) (st : nstate) : option bool :=
  match st with
  | Indet | Feas => Some true
  | FeasW ws => Some (negb (match ws with [] => true | _ => false end) &&
                      forallb (fun w => Nat.eqb (length w) n && contains_tol tol rs w) ws)
  | Infeas => thin_cert n tau rs
  end.
Fixpoint cache_bad (n : nat) (tol tau : Qc) (a : arena acont) (nrs : list (nat * rows)) : option (list nat) :=
  match nrs with
  | [] => Some []
  | (i, rs) :: rest =>
      match aget a i, cache_bad n tol tau a rest with
      | Some c, Some bad =>
          match state_ok n tol tau rs (ac_state (c_val c)) with
          | Some true => Some bad
          | Some false => Some (i :: bad)
          | None => None
          end
      | _, _ => None
      end
  end.
Definition cache_check (n : nat) (tol tau : Qc) (a : arena acont) (root : nat) : option (list nat) :=
  match node_rows a root with Some nrs => cache_bad n tol tau a nrs | None => None end.

(* ---- the acceptance test of mirror_points implies membership ----
   the polytope is normalised row-wise by positive factors nu_i; a candidate p is accepted when every
   distance (b_i/nu_i - (a_i/nu_i).p) - eps is >= 0 (eps = 1e-10) *)
Definition accept_row (nu eps : Qc) (rb : vec * Qc) (p : vec) : Prop :=
  0 <= (snd rb / nu - dot (vscale (/ nu) (fst rb)) p) - eps.
Theorem mirror_accept_member nu eps rb p : 0 < nu -> 0 <= eps -> accept_row nu eps rb p -> dot (fst rb) p <= snd rb.
Proof.
  unfold accept_row. intros Hnu Heps H. rewrite dot_vscale in H.
  assert (E : snd rb / nu - / nu * dot (fst rb) p = (snd rb - dot (fst rb) p) * / nu) by (unfold Qcdiv; ring).
  rewrite E in H.
  assert (Hge : 0 <= (snd rb - dot (fst rb) p) * / nu) by qlra.
  assert (Hnz : nu <> 0) by (intros C; subst nu; qlra).
  pose proof (Qcmult_le_compat_r _ _ nu Hge (Qclt_le_weak _ _ Hnu)) as Hm.
  replace ((snd rb - dot (fst rb) p) * / nu * nu) with (snd rb - dot (fst rb) p) in Hm.
  2:{ rewrite <- Qcmult_assoc, (Qcmult_inv_l _ Hnz). ring. }
  qlra.
Qed.
Theorem mirror_points_sound nus eps rs p : Forall (fun nu => 0 < nu) nus -> 0 <= eps -> length nus = length rs ->
  Forall (fun nr => accept_row (fst nr) eps (snd nr) p) (combine nus rs) -> in_rows rs p.
Proof.
  intros Hn He. revert rs. induction Hn as [|nu nus Hnu Hn IH]; intros [|rb rs] Hl H; simpl in *; try discriminate.
  - constructor.
  - apply Forall_cons_iff in H as [H0 H]. simpl in H0. constructor.
    + exact (mirror_accept_member nu eps rb p Hnu He H0).
    + apply IH; auto.
Qed.

(* Pwl/ACPruneAll.v -- all terminals of the receiver: the arena-level machine of Pwl/ACPrune.v, run over the
   terminals in ANY order (the code: ascending arena index), leaves an arena that holds the tree CPrune.cprune
   computes (depth-first), up to the arena indices of the new nodes, with the same number of LP calls -- for LP
   oracles whose answer does not depend on the call number (as the replay oracle oracle_by_rows). *)
From AT Require Import Num Vec Aff PTree Cells Abs Cache Elim CPrune Tree TreeLemmas ArenaCompose ArenaComposeAbs ACPrune ACPruneOps ACPruneRefine.

(* ---------------------------------------------------------------- oracles that ignore the call number *)
Definition lp_index_free (o : oracle) : Prop := forall k k' q, o_lp o k q = o_lp o k' q.
Definition cadd (k : cnt) (n : nat) : cnt := {| k_lp := k_lp k + n; k_mir := k_mir k |}.
Lemma cadd_0 k : cadd k 0 = k.
Proof. destruct k as [a b]. unfold cadd. cbn [k_lp k_mir]. rewrite Nat.add_0_r. reflexivity. Qed.
Lemma cadd_cadd k n m : cadd (cadd k n) m = cadd k (n + m).
Proof. unfold cadd. cbn [k_lp k_mir]. rewrite Nat.add_assoc. reflexivity. Qed.
Lemma lp_inc_cadd k : lp_inc k = cadd k 1.
Proof. unfold lp_inc, cadd. f_equal. lia. Qed.

Lemma explore_kfree o tol top st q : lp_index_free o -> exists b n, forall k, explore o tol top st q k = (b, cadd k n).
Proof.
  intros Ho. unfold explore. destruct top; [exists true, 0%nat; intros k; rewrite cadd_0; reflexivity|].
  assert (Hlp : exists b n, forall k, (lp_keeps (o_lp o (k_lp k) q), lp_inc k) = (b, cadd k n)).
  { exists (lp_keeps (o_lp o 0%nat q)), 1%nat. intros k. rewrite (Ho (k_lp k) 0%nat q), lp_inc_cadd. reflexivity. }
  destruct st as [| | |ws]; try exact Hlp.
  - exists false, 0%nat. intros k. rewrite cadd_0. reflexivity.
  - destruct (existsb (contains_tol tol q) ws); [exists true, 0%nat; intros k; rewrite cadd_0; reflexivity | exact Hlp].
Qed.

Lemma graftp_Unone o tol s tf p top st i q k : graftp o tol s tf (D p [U; U]) top st i q k = (CN i false (s_dec s p tf) st CU CU, k).
Proof. reflexivity. Qed.

Lemma graftp_kfree o tol s tf : lp_index_free o ->
  forall L top st i q, exists T' n, forall k, graftp o tol s tf L top st i q k = (T', cadd k n).
Proof.
  intros Ho. induction L as [| f | p ch IH] using ptree_ind'; intros top st i q.
  - exists CU, 0%nat. intros k. rewrite cadd_0. reflexivity.
  - eexists _, 0%nat. intros k. rewrite cadd_0. reflexivity.
  - destruct ch as [|l0 [|l1 [|l2 ch]]]; try (exists CU, 0%nat; intros k; rewrite cadd_0; reflexivity).
    apply Forall_cons_iff in IH as [IH0 IH]. apply Forall_cons_iff in IH as [IH1 _].
    destruct (explore_kfree o tol top st (q ++ [row0 (s_dec s p tf)]) Ho) as [b0 [n0 E0]].
    destruct (explore_kfree o tol top st (q ++ [row1 (s_dec s p tf)]) Ho) as [b1 [n1 E1]].
    destruct (U_dec l0) as [->|N0]; destruct (U_dec l1) as [->|N1].
    + eexists _, 0%nat. intros k. rewrite cadd_0. apply graftp_Unone.
    + destruct (IH1 false Indet new_idx (q ++ [row1 (s_dec s p tf)])) as [T1 [m1 G1]].
      eexists _, (n1 + m1)%nat. intros k. rewrite graftp_only1 by exact N1. rewrite E1. cbn [snd]. rewrite G1, cadd_cadd. reflexivity.
    + destruct (IH0 false Indet new_idx (q ++ [row0 (s_dec s p tf)])) as [T0 [m0 G0]].
      eexists _, (n0 + m0)%nat. intros k. rewrite graftp_only0 by exact N0. rewrite E0. cbn [snd]. rewrite G0, cadd_cadd. reflexivity.
    + destruct (IH1 false Indet new_idx (q ++ [row1 (s_dec s p tf)])) as [T1 [m1 G1]].
      destruct (IH0 false Indet new_idx (q ++ [row0 (s_dec s p tf)])) as [T0 [m0 G0]].
      destruct (IH1 false Indet new_idx q) as [T1' [m1' G1']].
      destruct (IH0 false Indet new_idx q) as [T0' [m0' G0']].
      destruct b0; [destruct b1|].
      * eexists _, (n0 + (n1 + (m1 + m0)))%nat. intros k.
        rewrite (graftp_both o tol s tf p l0 l1 top st i q k true _ true _ N0 N1 (E0 k) (E1 _)).
        rewrite G1, G0, !cadd_cadd. reflexivity.
      * exists T0', (n0 + (n1 + m0'))%nat. intros k.
        rewrite (graftp_both o tol s tf p l0 l1 top st i q k true _ false _ N0 N1 (E0 k) (E1 _)).
        rewrite G0', !cadd_cadd. reflexivity.
      * exists T1', (n0 + (n1 + m1'))%nat. intros k.
        rewrite (graftp_both o tol s tf p l0 l1 top st i q k false _ b1 _ N0 N1 (E0 k) (E1 _)).
        rewrite G1', !cadd_cadd. reflexivity.
Qed.

(* number of LP calls of graftp *)
Definition gcnt (o : oracle) (tol : Qc) (s : schema) (tf : aff) (L : ptree) (top : bool) (st : nstate) (i : nat) (q : rows) : nat :=
  k_lp (snd (graftp o tol s tf L top st i q k0)).
Lemma graftp_k0 o tol s tf L top st i q k : lp_index_free o ->
  graftp o tol s tf L top st i q k = (fst (graftp o tol s tf L top st i q k0), cadd k (gcnt o tol s tf L top st i q)).
Proof.
  intros Ho. destruct (graftp_kfree o tol s tf Ho L top st i q) as [T' [n G]]. unfold gcnt. rewrite (G k), (G k0).
  cbn [fst snd cadd k_lp k0 Nat.add]. reflexivity.
Qed.

(* ---------------------------------------------------------------- the receiver and its terminals *)
Fixpoint cleaves (t : ctree) : list nat :=
  match t with CU => [] | CN i leaf _ _ c0 c1 => if leaf then [i] else cleaves c0 ++ cleaves c1 end.
(* terminals have no children (leaves_empty of ArenaComposeAbs) *)
Fixpoint cwf (t : ctree) : Prop :=
  match t with CU => True | CN _ leaf _ _ c0 c1 => if leaf then c0 = CU /\ c1 = CU else cwf c0 /\ cwf c1 end.
Fixpoint cdepth (t : ctree) : nat :=
  match t with CU => 0%nat | CN _ leaf _ _ c0 c1 => if leaf then 0%nat else S (Nat.max (cdepth c0) (cdepth c1)) end.

(* sg: what stands in the place of the terminals processed so far *)
Definition subst := nat -> option ctree.
Definition upd (sg : subst) (j : nat) (r : ctree) : subst := fun i => if Nat.eqb i j then Some r else sg i.
Fixpoint capply (sg : subst) (t : ctree) : ctree :=
  match t with
  | CU => CU
  | CN i leaf f st c0 c1 => if leaf then match sg i with Some r => r | None => t end
                            else CN i leaf f st (capply sg c0) (capply sg c1)
  end.
(* the spine of terminal j in the current tree, innermost frame first, on top of acc *)
Fixpoint cspine (sg : subst) (t : ctree) (j : nat) (acc : list zframe) : option (aff * nstate * list zframe) :=
  match t with
  | CU => None
  | CN i leaf f st c0 c1 =>
      if leaf then (if Nat.eqb i j then Some (f, st, acc) else None)
      else match cspine sg c0 j (mkZ i f st false (cslot (capply sg c1)) :: acc) with
           | Some x => Some x
           | None => cspine sg c1 j (mkZ i f st true (cslot (capply sg c0)) :: acc)
           end
  end.

Lemma nodup_app_split {A} (l0 l1 : list A) : NoDup (l0 ++ l1) -> NoDup l0 /\ NoDup l1 /\ (forall x, In x l0 -> In x l1 -> False).
Proof.
  induction l0 as [|x l0 IH]; cbn [app]; intros H.
  - split; [constructor|]. split; [exact H|]. intros x [].
  - inversion H as [|x' l' Hx Hn]; subst. destruct (IH Hn) as [H0 [H1 Hd]]. split; [|split; [exact H1|]].
    + constructor; [|exact H0]. intros C. apply Hx. apply in_or_app. left; exact C.
    + intros y [->|Hy] Hy1; [apply Hx; apply in_or_app; right; exact Hy1 | eapply Hd; eauto].
Qed.
Lemma nodup_node {A} (i : A) l0 l1 : NoDup (i :: l0 ++ l1) ->
  ~ In i l0 /\ ~ In i l1 /\ NoDup l0 /\ NoDup l1 /\ (forall x, In x l0 -> In x l1 -> False).
Proof.
  intros H. inversion H as [|i' l' Hi Hn]; subst.
  split; [intros C; apply Hi; apply in_or_app; left; exact C|].
  split; [intros C; apply Hi; apply in_or_app; right; exact C|].
  exact (nodup_app_split l0 l1 Hn).
Qed.

Lemma cspine_leaf sg j : forall t acc x, cspine sg t j acc = Some x -> In j (cleaves t).
Proof.
  induction t as [|i leaf f st c0 IH0 c1 IH1]; intros acc x H; cbn [cspine cleaves] in *; [discriminate|].
  destruct leaf.
  - destruct (Nat.eqb_spec i j) as [->|_]; [left; reflexivity | discriminate].
  - apply in_or_app. destruct (cspine sg c0 j _) as [y|] eqn:E0; [left; eapply IH0; eauto | right; eapply IH1; eauto].
Qed.
Lemma cspine_exists sg j : forall t acc, In j (cleaves t) -> exists x, cspine sg t j acc = Some x.
Proof.
  induction t as [|i leaf f st c0 IH0 c1 IH1]; intros acc H; cbn [cspine cleaves] in *; [contradiction|].
  destruct leaf.
  - destruct H as [->|[]]. rewrite Nat.eqb_refl. eauto.
  - destruct (cspine sg c0 j _) as [y|] eqn:E0; [eauto|]. apply in_app_or in H as [H|H]; [|eauto].
    destruct (IH0 (mkZ i f st false (cslot (capply sg c1)) :: acc) H) as [x Hx]. rewrite Hx in E0. discriminate.
Qed.
Lemma cleaves_idx sg j : sg j = None -> forall t, In j (cleaves t) -> In j (cidx (capply sg t)).
Proof.
  intros Hs. induction t as [|i leaf f st c0 IH0 c1 IH1]; intros H; cbn [cleaves capply] in *; [contradiction|].
  destruct leaf.
  - destruct H as [->|[]]. rewrite Hs. left; reflexivity.
  - cbn [cidx]. right. apply in_or_app. apply in_app_or in H as [H|H]; auto.
Qed.
Lemma capply_ext sg sg' : forall t, (forall i, In i (cleaves t) -> sg' i = sg i) -> capply sg' t = capply sg t.
Proof.
  induction t as [|i leaf f st c0 IH0 c1 IH1]; intros H; cbn [capply cleaves] in *; auto.
  destruct leaf; [rewrite H by (left; reflexivity); reflexivity|].
  rewrite IH0, IH1; auto; intros k Hk; apply H; apply in_or_app; auto.
Qed.
Lemma upd_other sg j r i : i <> j -> upd sg j r i = sg i.
Proof. intros H. unfold upd. destruct (Nat.eqb_spec i j); [contradiction | reflexivity]. Qed.
Lemma upd_same sg j r : upd sg j r j = Some r.
Proof. unfold upd. rewrite Nat.eqb_refl. reflexivity. Qed.
Lemma capply_upd_notin sg j r t : ~ In j (cleaves t) -> capply (upd sg j r) t = capply sg t.
Proof. intros H. apply capply_ext. intros i Hi. apply upd_other. intros ->. contradiction. Qed.

(* where the spine ends: at acc (the tree is the terminal itself) or inside the tree *)
Lemma cspine_head sg j f st z : forall t acc, cwf t -> cspine sg t j acc = Some (f, st, z) ->
  (z = acc /\ t = CN j true f st CU CU) \/
  (exists fr z', z = fr :: z' /\ In (zf_idx fr) (cidx (capply sg t)) /\ exists i p s0 c0 c1, t = CN i false p s0 c0 c1).
Proof.
  induction t as [|i leaf p s0 c0 IH0 c1 IH1]; intros acc Hw H; cbn [cspine cwf] in *; [discriminate|].
  destruct leaf.
  - destruct Hw as [-> ->]. destruct (Nat.eqb_spec i j) as [->|_]; [|discriminate]. inversion H; subst. left; auto.
  - destruct Hw as [Hw0 Hw1]. right. cbn [capply cidx].
    destruct (cspine sg c0 j _) as [y|] eqn:E0.
    + inversion H; subst y. destruct (IH0 _ Hw0 E0) as [[-> _]|[fr [z' [-> [Hin _]]]]].
      * eexists _, _. split; [reflexivity|]. cbn [zf_idx]. split; [left; reflexivity | eauto 10].
      * eexists _, _. split; [reflexivity|]. split; [right; apply in_or_app; left; exact Hin | eauto 10].
    + destruct (IH1 _ Hw1 H) as [[-> _]|[fr [z' [-> [Hin _]]]]].
      * eexists _, _. split; [reflexivity|]. cbn [zf_idx]. split; [left; reflexivity | eauto 10].
      * eexists _, _. split; [reflexivity|]. split; [right; apply in_or_app; right; exact Hin | eauto 10].
Qed.

(* ---------------------------------------------------------------- the spine in the arena *)
Lemma cspine_rep sg a j f st z : sg j = None -> forall t acc, cwf t -> cspine sg t j acc = Some (f, st, z) ->
  crep a (zpar acc) (capply sg t) -> NoDup (cidx (capply sg t)) ->
  (forall h, cslot (capply sg t) = Some h -> zrep a acc h) ->
  (forall s', zsib acc = Some s' -> aget a s' <> None) ->
  zrep a z j /\ aget a j = Some (leafcell f st (zpar z)) /\ (forall s', zsib z = Some s' -> aget a s' <> None) /\
  (length z <= length acc + cdepth t)%nat /\ (z = [] -> acc = [] /\ cslot t = Some j).
Proof.
  intros Hs. induction t as [|i leaf p s0 c0 IH0 c1 IH1]; intros acc Hw H Hrep Hnd Hzr Hsb; cbn [cspine cwf] in *; [discriminate|].
  destruct leaf.
  - destruct Hw as [-> ->]. destruct (Nat.eqb_spec i j) as [->|_]; [|discriminate]. inversion H; subst p s0 z.
    cbn [capply] in *. rewrite Hs in *. cbn [crep cslot] in *. destruct Hrep as [Hc _].
    split; [apply Hzr; reflexivity|]. split; [exact Hc|]. split; [exact Hsb|]. split; [lia|]. intros ->. auto.
  - destruct Hw as [Hw0 Hw1]. cbn [capply crep cidx cslot] in *. destruct Hrep as [Hc [R0 R1]].
    destruct (nodup_node _ _ _ Hnd) as [Hi0 [Hi1 [Hn0 [Hn1 Hd]]]].
    assert (Hzi : zrep a acc i) by (apply Hzr; reflexivity).
    destruct (cspine sg c0 j _) as [y|] eqn:E0.
    + inversion H; subst y.
      destruct (IH0 _ Hw0 E0 R0 Hn0) as [Z1 [Z2 [Z3 [Z4 Z5]]]].
      * intros h Hh. cbn [zrep zf_idx zf_f zf_st zf_dir zf_sib zkids]. rewrite <- Hh. split; [exact Hc|]. split; [|exact Hzi].
        rewrite Hh. intros E. apply (Hd h); apply cslot_in; assumption.
      * cbn [zsib zf_sib]. intros s' E. eapply crep_occ; [exact R1 | apply cslot_in; exact E].
      * split; [exact Z1|]. split; [exact Z2|]. split; [exact Z3|]. split; [cbn [length cdepth] in *; lia|].
        intros E. destruct (Z5 E) as [C _]. discriminate.
    + destruct (IH1 _ Hw1 H R1 Hn1) as [Z1 [Z2 [Z3 [Z4 Z5]]]].
      * intros h Hh. cbn [zrep zf_idx zf_f zf_st zf_dir zf_sib zkids]. rewrite <- Hh. split; [exact Hc|]. split; [|exact Hzi].
        rewrite Hh. intros E. apply (Hd h); apply cslot_in; assumption.
      * cbn [zsib zf_sib]. intros s' E. eapply crep_occ; [exact R0 | apply cslot_in; exact E].
      * split; [exact Z1|]. split; [exact Z2|]. split; [exact Z3|]. split; [cbn [length cdepth] in *; lia|].
        intros E. destruct (Z5 E) as [C _]. discriminate.
Qed.

(* ---------------------------------------------------------------- after one terminal: the arena holds the tree with the result in its place *)
Lemma upd_rep sg a a' j T' f st z : sg j = None -> node_post a z j a' T' ->
  forall t acc, cwf t -> cspine sg t j acc = Some (f, st, z) ->
  crep a (zpar acc) (capply sg t) -> NoDup (cidx (capply sg t)) ->
  crep a' (zpar acc) (capply (upd sg j T') t).
Proof.
  intros Hs N. induction t as [|i leaf p s0 c0 IH0 c1 IH1]; intros acc Hw H Hrep Hnd; cbn [cspine cwf] in *; [discriminate|].
  destruct leaf.
  - destruct Hw as [-> ->]. destruct (Nat.eqb_spec i j) as [->|_]; [|discriminate]. inversion H; subst p s0 z.
    cbn [capply]. rewrite upd_same. exact (np_rep _ _ _ _ _ N).
  - destruct Hw as [Hw0 Hw1]. cbn [capply crep cidx cslot] in *. destruct Hrep as [Hc [R0 R1]].
    destruct (nodup_node _ _ _ Hnd) as [Hi0 [Hi1 [Hn0 [Hn1 Hd]]]].
    assert (Hframe : forall c, (forall k, In k (cidx (capply sg c)) -> k <> j /\ zpar z <> Some k) ->
              crep a (Some i) (capply sg c) -> crep a' (Some i) (capply sg c)).
    { intros c Hk R. eapply crep_stable; [exact R|]. intros k Hin. destruct (Hk k Hin) as [K1 K2].
      apply (np_frame _ _ _ _ _ N); auto. eapply crep_occ; eauto. }
    destruct (cspine sg c0 j _) as [y|] eqn:E0.
    + inversion H; subst y. assert (Hj0 : In j (cidx (capply sg c0))) by (apply cleaves_idx; [exact Hs | eapply cspine_leaf; eauto]).
      assert (Hj1 : ~ In j (cleaves c1)) by (intros C; apply (Hd j Hj0); apply cleaves_idx; auto).
      rewrite (capply_upd_notin sg j T' c1 Hj1).
      assert (R0' := IH0 _ Hw0 E0 R0 Hn0). cbn [zpar zf_idx] in R0'.
      destruct (cspine_head sg j f st z c0 _ Hw0 E0) as [[Ez Ec]|[fr [z' [Ez [Hin [i0 [p0 [s1 [d0 [d1 Ec]]]]]]]]]].
      * (* c0 is the terminal: i is its parent *)
        subst c0. cbn [capply]. rewrite upd_same.
        destruct (np_root _ _ _ _ _ N) as [r [Nr1 [Nr2 _]]]. rewrite Ez in Nr2.
        cbn [zrep zf_idx zf_f zf_st zf_dir zf_sib zkids] in Nr2. destruct Nr2 as [Hc' _]. rewrite Nr1.
        split; [exact Hc'|]. split; [cbn [capply] in R0'; rewrite upd_same in R0'; exact R0'|].
        apply Hframe; [|exact R1]. intros k Hk. split; [intros ->; exact (Hd j Hj0 Hk)|]. rewrite Ez. cbn [zpar zf_idx].
        intros E. inversion E; subst k. contradiction.
      * subst c0. assert (Hgi : zf_idx fr <> i) by (intros E; rewrite E in Hin; contradiction).
        assert (Hij : i <> j) by (intros E; rewrite E in Hi0; contradiction).
        cbn [capply cslot] in *. split; [|split; [exact R0'|]].
        -- rewrite (np_frame _ _ _ _ _ N); [exact Hc | exact Hij | rewrite Ez; cbn [zpar]; congruence | congruence].
        -- apply Hframe; [|exact R1]. intros k Hk. split; [intros ->; exact (Hd j Hj0 Hk)|]. rewrite Ez. cbn [zpar].
           intros E. inversion E; subst k. exact (Hd _ Hin Hk).
    + assert (Hj0 : ~ In j (cleaves c0)).
      { intros C. destruct (cspine_exists sg j c0 (mkZ i p s0 false (cslot (capply sg c1)) :: acc) C) as [x Hx]. rewrite Hx in E0. discriminate. }
      assert (Hj1 : In j (cidx (capply sg c1))) by (apply cleaves_idx; [exact Hs | eapply cspine_leaf; eauto]).
      rewrite (capply_upd_notin sg j T' c0 Hj0).
      assert (R1' := IH1 _ Hw1 H R1 Hn1). cbn [zpar zf_idx] in R1'.
      destruct (cspine_head sg j f st z c1 _ Hw1 H) as [[Ez Ec]|[fr [z' [Ez [Hin [i0 [p0 [s1 [d0 [d1 Ec]]]]]]]]]].
      * subst c1. cbn [capply]. rewrite upd_same.
        destruct (np_root _ _ _ _ _ N) as [r [Nr1 [Nr2 _]]]. rewrite Ez in Nr2.
        cbn [zrep zf_idx zf_f zf_st zf_dir zf_sib zkids] in Nr2. destruct Nr2 as [Hc' _]. rewrite Nr1.
        split; [exact Hc'|]. split; [|cbn [capply] in R1'; rewrite upd_same in R1'; exact R1'].
        apply Hframe; [|exact R0]. intros k Hk. split; [intros ->; exact (Hd j Hk Hj1)|]. rewrite Ez. cbn [zpar zf_idx].
        intros E. inversion E; subst k. contradiction.
      * subst c1. assert (Hgi : zf_idx fr <> i) by (intros E; rewrite E in Hin; contradiction).
        assert (Hij : i <> j) by (intros E; rewrite E in Hi1; contradiction).
        cbn [capply cslot] in *. split; [|split; [|exact R1']].
        -- rewrite (np_frame _ _ _ _ _ N); [exact Hc | exact Hij | rewrite Ez; cbn [zpar]; congruence | congruence].
        -- apply Hframe; [|exact R0]. intros k Hk. split; [intros ->; exact (Hd j Hk Hj1)|]. rewrite Ez. cbn [zpar].
           intros E. inversion E; subst k. exact (Hd _ Hk Hin).
Qed.

Lemma idx_upd sg j T' k : forall t, In k (cidx (capply (upd sg j T') t)) -> In k (cidx (capply sg t)) \/ In k (cidx T').
Proof.
  induction t as [|i leaf p s0 c0 IH0 c1 IH1]; cbn [capply]; intros H; [contradiction|].
  destruct leaf.
  - unfold upd in H. destruct (Nat.eqb_spec i j) as [->|_]; [right; exact H | left; exact H].
  - cbn [cidx] in *. destruct H as [<-|H]; [left; left; reflexivity|]. apply in_app_or in H as [H|H].
    + destruct (IH0 H); [left; right; apply in_or_app; left; assumption | right; assumption].
    + destruct (IH1 H); [left; right; apply in_or_app; right; assumption | right; assumption].
Qed.

Lemma upd_nodup sg a j T' : sg j = None -> NoDup (cidx T') -> (forall k, In k (cidx T') -> k = j \/ aget a k = None) ->
  forall t par, crep a par (capply sg t) -> NoDup (cidx (capply sg t)) -> NoDup (cidx (capply (upd sg j T') t)).
Proof.
  intros Hs Hd' Hi'. induction t as [|i leaf p s0 c0 IH0 c1 IH1]; intros par Hrep Hnd; cbn [capply] in *; [constructor|].
  destruct leaf.
  - unfold upd. destruct (Nat.eqb_spec i j) as [->|_]; [exact Hd' | exact Hnd].
  - cbn [crep cidx] in *. destruct Hrep as [Hc [R0 R1]].
    destruct (nodup_node _ _ _ Hnd) as [Hi0 [Hi1 [Hn0 [Hn1 Hd]]]].
    assert (Hnew : forall k, In k (cidx T') -> In k (i :: cidx (capply sg c0) ++ cidx (capply sg c1)) -> k = j).
    { intros k Hk Hin. destruct (Hi' k Hk) as [E|E]; [exact E|]. exfalso.
      destruct Hin as [<-|Hin]; [congruence|].
      apply in_app_or in Hin as [Hin|Hin]; [exact (crep_occ a _ _ k R0 Hin E) | exact (crep_occ a _ _ k R1 Hin E)]. }
    destruct (in_dec Nat.eq_dec j (cleaves c0)) as [J0|J0]; destruct (in_dec Nat.eq_dec j (cleaves c1)) as [J1|J1].
    + exfalso. apply (Hd j); apply cleaves_idx; auto.
    + rewrite (capply_upd_notin sg j T' c1 J1). assert (Hj0 : In j (cidx (capply sg c0))) by (apply cleaves_idx; auto).
      constructor.
      * intros Hin. apply in_app_or in Hin as [Hin|Hin]; [|contradiction].
        destruct (idx_upd _ _ _ _ _ Hin) as [C|C]; [contradiction|].
        assert (E : i = j) by (apply Hnew; [exact C | left; reflexivity]). subst i. contradiction.
      * apply NoDup_app_intro; [eapply IH0; eauto | exact Hn1 |]. intros k Hk0 Hk1.
        destruct (idx_upd _ _ _ _ _ Hk0) as [C|C]; [exact (Hd k C Hk1)|].
        assert (E : k = j) by (apply Hnew; [exact C | right; apply in_or_app; right; exact Hk1]). subst k. exact (Hd j Hj0 Hk1).
    + rewrite (capply_upd_notin sg j T' c0 J0). assert (Hj1 : In j (cidx (capply sg c1))) by (apply cleaves_idx; auto).
      constructor.
      * intros Hin. apply in_app_or in Hin as [Hin|Hin]; [contradiction|].
        destruct (idx_upd _ _ _ _ _ Hin) as [C|C]; [contradiction|].
        assert (E : i = j) by (apply Hnew; [exact C | left; reflexivity]). subst i. contradiction.
      * apply NoDup_app_intro; [exact Hn0 | eapply IH1; eauto |]. intros k Hk0 Hk1.
        destruct (idx_upd _ _ _ _ _ Hk1) as [C|C]; [exact (Hd k Hk0 C)|].
        assert (E : k = j) by (apply Hnew; [exact C | right; apply in_or_app; left; exact Hk0]). subst k. exact (Hd j Hk0 Hj1).
    + rewrite (capply_upd_notin sg j T' c0 J0), (capply_upd_notin sg j T' c1 J1). exact Hnd.
Qed.

(* ---------------------------------------------------------------- what stands in the place of a processed terminal is what graftp computes *)
Fixpoint cgood (o : oracle) (tol : Qc) (s : schema) (L : ptree) (sg : subst) (t : ctree) (q : rows) : Prop :=
  match t with
  | CU => True
  | CN i leaf f st c0 c1 =>
      if leaf then match sg i with Some r => cshape r (fst (graftp o tol s f L (Nat.eqb i 0) st i q k0)) | None => True end
      else cgood o tol s L sg c0 (q ++ [row0 f]) /\ cgood o tol s L sg c1 (q ++ [row1 f])
  end.
Fixpoint ccount (o : oracle) (tol : Qc) (s : schema) (L : ptree) (sg : subst) (t : ctree) (q : rows) : nat :=
  match t with
  | CU => 0%nat
  | CN i leaf f st c0 c1 =>
      if leaf then match sg i with Some _ => gcnt o tol s f L (Nat.eqb i 0) st i q | None => 0%nat end
      else (ccount o tol s L sg c0 (q ++ [row0 f]) + ccount o tol s L sg c1 (q ++ [row1 f]))%nat
  end.
Lemma cgood_ext o tol s L sg sg' : forall t q, (forall i, In i (cleaves t) -> sg' i = sg i) -> cgood o tol s L sg t q -> cgood o tol s L sg' t q.
Proof.
  induction t as [|i leaf f st c0 IH0 c1 IH1]; intros q H G; cbn [cgood cleaves] in *; auto.
  destruct leaf; [rewrite H by (left; reflexivity); exact G|]. destruct G as [G0 G1].
  split; [apply IH0 | apply IH1]; auto; intros k Hk; apply H; apply in_or_app; auto.
Qed.
Lemma ccount_ext o tol s L sg sg' : forall t q, (forall i, In i (cleaves t) -> sg' i = sg i) -> ccount o tol s L sg' t q = ccount o tol s L sg t q.
Proof.
  induction t as [|i leaf f st c0 IH0 c1 IH1]; intros q H; cbn [ccount cleaves] in *; auto.
  destruct leaf; [rewrite H by (left; reflexivity); reflexivity|].
  rewrite IH0, IH1; auto; intros k Hk; apply H; apply in_or_app; auto.
Qed.

Lemma cspine_rows_upd o tol s L sg j T' f st z : sg j = None ->
  forall t acc, cwf t -> cspine sg t j acc = Some (f, st, z) -> NoDup (cidx (capply sg t)) ->
  cshape T' (fst (graftp o tol s f L (Nat.eqb j 0) st j (zrows z) k0)) ->
  (cgood o tol s L sg t (zrows acc) -> cgood o tol s L (upd sg j T') t (zrows acc)) /\
  ccount o tol s L (upd sg j T') t (zrows acc) = (ccount o tol s L sg t (zrows acc) + gcnt o tol s f L (Nat.eqb j 0) st j (zrows z))%nat.
Proof.
  intros Hs. induction t as [|i leaf p s0 c0 IH0 c1 IH1]; intros acc Hw H Hnd Hsh; cbn [cspine cwf] in *; [discriminate|].
  destruct leaf.
  - destruct Hw as [-> ->]. destruct (Nat.eqb_spec i j) as [->|_]; [|discriminate]. inversion H; subst p s0 z.
    cbn [cgood ccount]. rewrite upd_same, Hs. split; [intros _; exact Hsh | reflexivity].
  - destruct Hw as [Hw0 Hw1]. cbn [capply cidx cgood ccount] in *.
    destruct (nodup_node _ _ _ Hnd) as [Hi0 [Hi1 [Hn0 [Hn1 Hd]]]].
    destruct (cspine sg c0 j _) as [y|] eqn:E0.
    + inversion H; subst y. assert (Hj0 : In j (cidx (capply sg c0))) by (apply cleaves_idx; [exact Hs | eapply cspine_leaf; eauto]).
      assert (Hj1 : ~ In j (cleaves c1)) by (intros C; apply (Hd j Hj0); apply cleaves_idx; auto).
      assert (Hext : forall i0, In i0 (cleaves c1) -> upd sg j T' i0 = sg i0) by (intros i0 Hi; apply upd_other; intros ->; contradiction).
      destruct (IH0 _ Hw0 E0 Hn0 Hsh) as [G C]. cbn [zrows zrow zf_dir zf_f] in G, C.
      split.
      * intros [G0 G1]. split; [apply G; exact G0 | eapply cgood_ext; [exact Hext | exact G1]].
      * rewrite C, (ccount_ext o tol s L sg (upd sg j T') c1 _ Hext). lia.
    + assert (Hj0 : ~ In j (cleaves c0)).
      { intros C. destruct (cspine_exists sg j c0 (mkZ i p s0 false (cslot (capply sg c1)) :: acc) C) as [x Hx]. rewrite Hx in E0. discriminate. }
      assert (Hext : forall i0, In i0 (cleaves c0) -> upd sg j T' i0 = sg i0) by (intros i0 Hi; apply upd_other; intros ->; contradiction).
      destruct (IH1 _ Hw1 H Hn1 Hsh) as [G C]. cbn [zrows zrow zf_dir zf_f] in G, C.
      split.
      * intros [G0 G1]. split; [eapply cgood_ext; [exact Hext | exact G0] | apply G; exact G1].
      * rewrite C, (ccount_ext o tol s L sg (upd sg j T') c0 _ Hext). lia.
Qed.

(* ---------------------------------------------------------------- when every terminal has been processed: cprune *)
Lemma cprune_done o tol s L sg : lp_index_free o -> forall t q k, cwf t ->
  (forall i, In i (cleaves t) -> sg i <> None) -> cgood o tol s L sg t q ->
  cshape (capply sg t) (fst (cprune o tol s L t q k)) /\ snd (cprune o tol s L t q k) = cadd k (ccount o tol s L sg t q).
Proof.
  intros Ho. induction t as [|i leaf f st c0 IH0 c1 IH1]; intros q k Hw Hall G; cbn [cprune capply cgood ccount cleaves cwf] in *.
  - rewrite cadd_0. split; [exact I | reflexivity].
  - destruct leaf.
    + destruct (sg i) as [r|] eqn:Es; [|exfalso; apply (Hall i); [left; reflexivity | exact Es]].
      rewrite (graftp_k0 o tol s f L (Nat.eqb i 0) st i q k Ho). cbn [fst snd]. split; [exact G | reflexivity].
    + destruct Hw as [Hw0 Hw1]. destruct G as [G0 G1].
      destruct (IH0 (q ++ [row0 f]) k Hw0 (fun i0 Hi => Hall i0 (in_or_app _ _ _ (or_introl Hi))) G0) as [S0 K0].
      destruct (cprune o tol s L c0 (q ++ [row0 f]) k) as [c0' k1]. cbn [fst snd] in *. subst k1.
      destruct (IH1 (q ++ [row1 f]) (cadd k (ccount o tol s L sg c0 (q ++ [row0 f]))) Hw1 (fun i0 Hi => Hall i0 (in_or_app _ _ _ (or_intror Hi))) G1) as [S1 K1].
      destruct (cprune o tol s L c1 (q ++ [row1 f]) _) as [c1' k2]. cbn [fst snd cshape] in *. subst k2.
      split; [repeat split; auto | apply cadd_cadd].
Qed.

(* ---------------------------------------------------------------- the outer loop *)
Record inv (o : oracle) (tol : Qc) (s : schema) (L : ptree) (t : ctree) (a0 : arena acont)
           (sg : subst) (a : arena acont) (k : cnt) : Prop := {
  iv_rep : crep a None (capply sg t);
  iv_nodup : NoDup (cidx (capply sg t));
  iv_good : cgood o tol s L sg t [];
  iv_zero : aget a 0%nat <> None;
  iv_root : cslot (capply sg t) = Some 0%nat;
  iv_cnt : k = cadd k0 (ccount o tol s L sg t []);
  iv_leaf : forall i, sg i <> None -> In i (cleaves t);
  iv_old : forall k', aget a0 k' <> None -> ~ In k' (cleaves t) -> aget a k' <> None;
  iv_new : forall i r k', sg i = Some r -> In k' (cidx r) -> In k' (cleaves t) \/ aget a0 k' = None }.

Lemma inv_step alloc o tol pf s L t a0 sg a k j : fresh_alloc alloc -> lp_index_free o -> karity 2 L -> L <> U ->
  cwf t -> cslot t = Some 0%nat -> (cdepth t + pdepth L < pf)%nat ->
  inv o tol s L t a0 sg a k -> In j (cleaves t) -> sg j = None ->
  exists a' k' T', (forall fuel, (size L < fuel)%nat -> acp_at alloc o tol pf 2 0 s fuel L a j k = Some (a', k')) /\
    inv o tol s L t a0 (upd sg j T') a' k'.
Proof.
  intros Hf Ho HL HnU Hw Hroot Hpf I Hj Hs. destruct I as [Irep Ind Igood Izero Iroot Icnt Ileaf Iold Inew].
  destruct (cspine_exists sg j t [] Hj) as [[[f st] z] Hsp].
  destruct (cspine_rep sg a j f st z Hs t [] Hw Hsp Irep Ind) as [Z1 [Z2 [Z3 [Z4 Z5]]]].
  { intros h _. exact I. } { cbn [zsib]. discriminate. }
  cbn [length] in Z4.
  destruct (acp_at_refines alloc o tol pf s L a z j f st k Hf HL HnU Z2 Z1) as [a' [T' [Hrun [Hsh N]]]]; auto.
  { lia. } { intros E. destruct (Z5 E) as [_ E']. rewrite Hroot in E'. inversion E'. reflexivity. }
  rewrite (graftp_k0 o tol s f L (Nat.eqb j 0) st j (zrows z) k Ho) in Hrun, Hsh. cbn [fst snd] in Hrun, Hsh.
  destruct (cspine_rows_upd o tol s L sg j T' f st z Hs t [] Hw Hsp Ind Hsh) as [G C]. cbn [zrows] in G, C.
  exists a', (cadd k (gcnt o tol s f L (Nat.eqb j 0) st j (zrows z))), T'. split; [exact Hrun|].
  constructor.
  - exact (upd_rep sg a a' j T' f st z Hs N t [] Hw Hsp Irep Ind).
  - exact (upd_nodup sg a j T' Hs (np_nodup _ _ _ _ _ N) (np_idx _ _ _ _ _ N) t None Irep Ind).
  - apply G. exact Igood.
  - exact (np_zero _ _ _ _ _ N).
  - destruct t as [|i leaf p s0 c0 c1]; [discriminate|]. destruct leaf; [|exact Iroot].
    cbn [cleaves] in Hj. destruct Hj as [->|[]]. cbn [cspine] in Hsp. rewrite Nat.eqb_refl in Hsp. inversion Hsp; subst.
    cbn [capply]. rewrite upd_same. cbn [cslot] in Hroot. inversion Hroot; subst. apply (np_top _ _ _ _ _ N). reflexivity.
  - rewrite C, Icnt, cadd_cadd. reflexivity.
  - intros i. unfold upd. destruct (Nat.eqb_spec i j) as [->|_]; auto.
  - intros k' H1 H2. apply (np_occ _ _ _ _ _ N); [intros ->; contradiction | auto].
  - intros i r k'. unfold upd. destruct (Nat.eqb_spec i j) as [->|_]; [|apply Inew].
    intros E Hin. inversion E; subst r. destruct (in_dec Nat.eq_dec k' (cleaves t)) as [Hl|Hl]; [left; exact Hl|]. right.
    destruct (np_idx _ _ _ _ _ N k' Hin) as [->|En]; [contradiction|].
    destruct (aget a0 k') as [c|] eqn:E0; [|reflexivity]. exfalso. apply (Iold k'); [congruence | exact Hl | exact En].
Qed.

Lemma inv_loop alloc o tol pf s L t a0 : fresh_alloc alloc -> lp_index_free o -> karity 2 L -> L <> U ->
  cwf t -> cslot t = Some 0%nat -> (cdepth t + pdepth L < pf)%nat ->
  forall ts sg a k, NoDup ts -> (forall j, In j ts -> In j (cleaves t) /\ sg j = None) -> inv o tol s L t a0 sg a k ->
  exists sg' a' k', (forall fuel, (size L < fuel)%nat -> acp_list alloc o tol pf 2 0 s fuel L ts a k = Some (a', k')) /\
    inv o tol s L t a0 sg' a' k' /\
    (forall i, In i ts -> sg' i <> None) /\ (forall i, sg i <> None -> sg' i <> None).
Proof.
  intros Hf Ho HL HnU Hw Hroot Hpf. induction ts as [|j r IH]; intros sg a k Hnd Hts I.
  - exists sg, a, k. split; [intros fuel _; reflexivity|]. split; [exact I|]. split; [intros i []| auto].
  - inversion Hnd as [|j' r' Hjr Hndr]; subst j' r'. destruct (Hts j (or_introl eq_refl)) as [Hj Hs].
    destruct (inv_step alloc o tol pf s L t a0 sg a k j Hf Ho HL HnU Hw Hroot Hpf I Hj Hs) as [a1 [k1 [T' [Hrun I1]]]].
    destruct (IH (upd sg j T') a1 k1 Hndr) as [sg' [a' [k' [Hl [I' [H1 H2]]]]]].
    + intros i Hi. destruct (Hts i (or_intror Hi)) as [Hil His]. split; [exact Hil|]. rewrite upd_other; [exact His | intros ->; contradiction].
    + exact I1.
    + exists sg', a', k'. split; [intros fuel Hfu; cbn [acp_list]; rewrite (Hrun fuel Hfu); cbn [obnd fst snd]; exact (Hl fuel Hfu)|]. split; [exact I'|].
      split.
      * intros i [<-|Hi]; [apply H2; rewrite upd_same; discriminate | apply H1; exact Hi].
      * intros i Hi. apply H2. unfold upd. destruct (Nat.eqb i j); [discriminate | exact Hi].
Qed.

(* the decisions of the receiver stay where they are, under their indices, with their values and cached states *)
Fixpoint cframe (t t' : ctree) : Prop :=
  match t with
  | CU => t' = CU
  | CN i leaf f st c0 c1 =>
      if leaf then True
      else match t' with CN i' false f' st' c0' c1' => i' = i /\ f' = f /\ st' = st /\ cframe c0 c0' /\ cframe c1 c1' | _ => False end
  end.
Lemma cframe_capply sg : forall t, cframe t (capply sg t).
Proof. induction t as [|i leaf f st c0 IH0 c1 IH1]; cbn [cframe capply]; auto. destruct leaf; cbn [cframe]; auto. Qed.
Lemma idx_capply sg k : forall t, In k (cidx (capply sg t)) ->
  In k (cidx t) \/ exists i r, In i (cleaves t) /\ sg i = Some r /\ In k (cidx r).
Proof.
  induction t as [|i leaf f st c0 IH0 c1 IH1]; cbn [capply]; intros H; [contradiction|].
  destruct leaf.
  - destruct (sg i) as [r|] eqn:E; [right; exists i, r; split; [left; reflexivity | split; [exact E | exact H]] | left; exact H].
  - cbn [cidx cleaves] in *. destruct H as [<-|H]; [left; left; reflexivity|]. apply in_app_or in H as [H|H].
    + destruct (IH0 H) as [C|[i0 [r [A [B C]]]]]; [left; right; apply in_or_app; left; exact C | right; exists i0, r; split; [apply in_or_app; left; exact A | auto]].
    + destruct (IH1 H) as [C|[i0 [r [A [B C]]]]]; [left; right; apply in_or_app; right; exact C | right; exists i0, r; split; [apply in_or_app; right; exact A | auto]].
Qed.

(* the whole composition, terminals in any order *)
Theorem acp_list_refines_index_free_oracle alloc o tol pf s L a t ts :
  fresh_alloc alloc -> lp_index_free o -> karity 2 L -> L <> U ->
  crep a None t -> cslot t = Some 0%nat -> NoDup (cidx t) -> cwf t ->
  NoDup ts -> (forall j, In j ts <-> In j (cleaves t)) ->
  (cdepth t + pdepth L < pf)%nat ->
  exists a' t',
    (forall fuel, (size L < fuel)%nat ->
       acp_list alloc o tol pf 2 0 s fuel L ts a k0 = Some (a', snd (cprune o tol s L t [] k0))) /\
    crep a' None t' /\ cslot t' = Some 0%nat /\ NoDup (cidx t') /\
    cshape t' (fst (cprune o tol s L t [] k0)) /\
    cframe t t' /\
    (forall k, In k (cidx t') -> In k (cidx t) \/ aget a k = None).
Proof.
  intros Hf Ho HL HnU Hrep Hroot Hnd Hw Hts Hiff Hpf.
  set (sg0 := (fun _ => None) : subst).
  assert (E0 : capply sg0 t = t).
  { clear. induction t as [|i leaf f st c0 IH0 c1 IH1]; cbn [capply]; auto. destruct leaf; [reflexivity | rewrite IH0, IH1; reflexivity]. }
  assert (G0 : forall t0 q, cgood o tol s L sg0 t0 q).
  { induction t0 as [|i leaf f st c0 IH0 c1 IH1]; intros q; cbn [cgood]; auto. destruct leaf; cbn; auto. }
  assert (C0 : forall t0 q, ccount o tol s L sg0 t0 q = 0%nat).
  { induction t0 as [|i leaf f st c0 IH0 c1 IH1]; intros q; cbn [ccount]; auto. destruct leaf; cbn; auto. rewrite IH0, IH1. reflexivity. }
  assert (I0 : inv o tol s L t a sg0 a k0).
  { constructor; try (rewrite E0; assumption); auto.
    - destruct t; cbn [cslot] in Hroot; inversion Hroot; subst. cbn [crep] in Hrep. destruct Hrep as [Hc _]. congruence.
    - rewrite C0, cadd_0. reflexivity.
    - intros i C. exfalso. apply C. reflexivity.
    - intros i r k' C. discriminate. }
  destruct (inv_loop alloc o tol pf s L t a Hf Ho HL HnU Hw Hroot Hpf ts sg0 a k0 Hts) as [sg' [a' [k' [Hl [I' [H1 _]]]]]].
  { intros j Hj. split; [apply Hiff; exact Hj | reflexivity]. } { exact I0. }
  destruct I' as [Irep Ind Igood Izero Iroot Icnt Ileaf Iold Inew].
  destruct (cprune_done o tol s L sg' Ho t [] k0 Hw) as [Hsh Hk]; [intros i Hi; apply H1; apply Hiff; exact Hi | exact Igood |].
  exists a', (capply sg' t). rewrite Hk, <- Icnt. split; [exact Hl|]. split; [exact Irep|]. split; [exact Iroot|]. split; [exact Ind|].
  split; [exact Hsh|]. split; [apply cframe_capply|].
  intros k Hin. destruct (idx_capply sg' k t Hin) as [C|[i [r [A [B C]]]]]; [left; exact C|].
  destruct (Inew i r k B C) as [D|D]; [left | right; exact D].
  clear -D. induction t as [|i0 leaf f st c0 IH0 c1 IH1]; cbn [cleaves cidx] in *; [contradiction|].
  destruct leaf; [destruct D as [->|[]]; left; reflexivity|]. right. apply in_or_app. apply in_app_or in D as [D|D]; auto.
Qed.

(* ---------------------------------------------------------------- in terms of the abstraction cabs of Pwl/Elim.v *)
Fixpoint cheight (t : ctree) : nat :=
  match t with CU => 0%nat | CN _ _ _ _ c0 c1 => S (Nat.max (cheight c0) (cheight c1)) end.
(* parent pointers and arity of the cells of t (AffTree<2>: two child slots) *)
Fixpoint cparents (a : arena acont) (par : option nat) (t : ctree) : Prop :=
  match t with
  | CU => True
  | CN i _ _ _ c0 c1 =>
      (exists c, aget a i = Some c /\ c_parent c = par /\ length (c_children c) = 2%nat) /\
      cparents a (Some i) c0 /\ cparents a (Some i) c1
  end.

Lemma cabs_slot fuel a i t : cabs fuel a i = Some t -> cslot t = Some i.
Proof.
  destruct fuel as [|fuel]; cbn [cabs]; [discriminate|]. destruct (aget a i) as [c|]; [|discriminate].
  destruct (match nth 0 (c_children c) None with None => Some CU | Some j => cabs fuel a j end) as [c0|]; [|discriminate].
  destruct (match nth 1 (c_children c) None with None => Some CU | Some j => cabs fuel a j end) as [c1|]; [|discriminate].
  intros H. inversion H; subst. reflexivity.
Qed.

Lemma cabs_crep : forall fuel a i t par, cabs fuel a i = Some t -> cparents a par t -> crep a par t.
Proof.
  induction fuel as [|fuel IH]; intros a i t par H Hp; [discriminate|]. cbn [cabs] in H.
  destruct (aget a i) as [c|] eqn:Ec; [|discriminate].
  destruct (match nth 0 (c_children c) None with None => Some CU | Some j => cabs fuel a j end) as [c0|] eqn:E0; [|discriminate].
  destruct (match nth 1 (c_children c) None with None => Some CU | Some j => cabs fuel a j end) as [c1|] eqn:E1; [|discriminate].
  inversion H; subst t. clear H. cbn [cparents] in Hp. destruct Hp as [[c' [Hc' [Hpar Hlen]]] [P0 P1]].
  rewrite Ec in Hc'. inversion Hc'; subst c'. clear Hc'.
  destruct c as [[af stt] cp cch cl]. cbn [c_children c_parent c_val c_leaf ac_aff ac_state] in *.
  destruct cch as [|x0 [|x1 [|x2 cch]]]; cbn [length] in Hlen; try lia. cbn [nth] in E0, E1.
  assert (S0 : cslot c0 = x0 /\ crep a (Some i) c0).
  { destruct x0 as [j|]; [split; [eapply cabs_slot; eauto | eapply IH; eauto] | inversion E0; subst; split; [reflexivity | exact I]]. }
  assert (S1 : cslot c1 = x1 /\ crep a (Some i) c1).
  { destruct x1 as [j|]; [split; [eapply cabs_slot; eauto | eapply IH; eauto] | inversion E1; subst; split; [reflexivity | exact I]]. }
  destruct S0 as [S0 R0]. destruct S1 as [S1 R1]. cbn [crep]. rewrite S0, S1. subst cp. auto.
Qed.

Lemma crep_cabs : forall t a par i, crep a par t -> cslot t = Some i -> forall fuel, (cheight t <= fuel)%nat -> cabs fuel a i = Some t.
Proof.
  induction t as [|i0 leaf f st c0 IH0 c1 IH1]; intros a par i H Hs fuel Hf; cbn [cslot] in Hs; [discriminate|].
  inversion Hs; subst i0. cbn [cheight] in Hf. destruct fuel as [|fuel]; [lia|]. cbn [crep] in H. destruct H as [Hc [R0 R1]].
  cbn [cabs]. rewrite Hc. cbn [c_children nth c_leaf c_val ac_aff ac_state mkcont].
  assert (E0 : match cslot c0 with None => Some CU | Some j => cabs fuel a j end = Some c0).
  { destruct c0 as [|j l0 f0 s0 d0 d1]; [reflexivity|]. cbn [cslot]. eapply IH0; eauto. lia. }
  assert (E1 : match cslot c1 with None => Some CU | Some j => cabs fuel a j end = Some c1).
  { destruct c1 as [|j l0 f0 s0 d0 d1]; [reflexivity|]. cbn [cslot]. eapply IH1; eauto. lia. }
  rewrite E0, E1. reflexivity.
Qed.

Lemma crep_cparents a : forall t par, crep a par t -> cparents a par t.
Proof.
  induction t as [|i leaf f st c0 IH0 c1 IH1]; intros par H; cbn [crep cparents] in *; auto.
  destruct H as [Hc [R0 R1]]. split; [eexists; split; [exact Hc | split; reflexivity] | auto].
Qed.

Lemma cshape_cev x : forall y v, cshape x y -> cev x v = cev y v.
Proof.
  induction x as [|i l f s x0 IH0 x1 IH1]; intros [|j m g r y0 y1] v; cbn [cshape]; try tauto.
  intros [-> [-> [_ [H0 H1]]]]. cbn [cev]. rewrite (IH0 _ v H0), (IH1 _ v H1). reflexivity.
Qed.

(* AffTree::compose::<true, _> on the arena: for every arena that abstracts to t (root at index 0, parent pointers
   consistent, a tree, terminals without children, no cell outside the tree marked as terminal), every allocator that
   hands out unoccupied keys and every LP oracle that ignores the call number: the machine returns Ok for any fuel
   above size L (path fuel above the sum of the depths), its arena abstracts to a tree of the shape compose_prune
   computes, with the same counters; the decisions of t keep index, value and cached state; every index of the result
   was an index of t or was unoccupied *)
Theorem acompose_prune_refines_index_free_oracle alloc o tol pf L a t fa :
  fresh_alloc alloc -> lp_index_free o -> karity 2 L -> L <> U ->
  cabs fa a 0%nat = Some t -> cparents a None t -> NoDup (cidx t) -> cwf t ->
  (forall j, In j (terminal_keys a) <-> In j (cleaves t)) ->
  (cdepth t + pdepth L < pf)%nat ->
  exists a' t',
    (forall fuel, (size L < fuel)%nat ->
       acompose_prune alloc o tol pf 0 fuel L a = Some (a', snd (compose_prune o tol t L))) /\
    (forall F, (cheight t' <= F)%nat -> cabs F a' 0%nat = Some t') /\ cparents a' None t' /\ NoDup (cidx t') /\
    cshape t' (fst (compose_prune o tol t L)) /\ cframe t t' /\
    (forall k, In k (cidx t') -> In k (cidx t) \/ aget a k = None).
Proof.
  intros Hf Ho HL HnU Ha Hp Hnd Hw Hts Hpf.
  assert (Hrep : crep a None t) by (eapply cabs_crep; eauto).
  assert (Hroot : cslot t = Some 0%nat) by (eapply cabs_slot; eauto).
  destruct (acp_list_refines_index_free_oracle alloc o tol pf comp_schema L a t (terminal_keys a) Hf Ho HL HnU Hrep Hroot Hnd Hw
              (terminal_keys_nodup a) Hts Hpf) as [a' [t' [Hrun [R' [Z' [N' [S' [F' I']]]]]]]].
  exists a', t'. split; [exact Hrun|]. split; [|split; [apply crep_cparents; exact R' | auto]].
  intros F HF. eapply crep_cabs; eauto.
Qed.

Lemma oracle_by_rows_index_free log : lp_index_free (oracle_by_rows log).
Proof. intros k k' q. reflexivity. Qed.

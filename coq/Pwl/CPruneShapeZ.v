From Coq Require Import List Bool Lia. Import ListNotations.
From AT Require Import Num Vec Aff PTree Cells Abs Tree TreeLemmas Cache Elim CPrune AElim AElimBase ShapeZ.
From AT Require ACPruneRefine ACPruneAll.

Lemma graftp_cshz o tol s tf L : forall top st i j q k, Nat.eqb i 0 = Nat.eqb j 0 ->
  cshz (fst (graftp o tol s tf L top st i q k)) (fst (graftp o tol s tf L top st j q k)) /\
  snd (graftp o tol s tf L top st i q k) = snd (graftp o tol s tf L top st j q k).
Proof.
  intros top st i j q k Hij.
  destruct L as [| f | p ch].
  - cbn [graftp fst snd cshz]. auto.
  - cbn [graftp fst snd cshz]. auto 10.
  - destruct ch as [|l0 [|l1 [|l2 r]]]; try (cbn [graftp fst snd cshz]; auto).
    cbn [graftp].
    set (p' := s_dec s p tf) in *.
    set (R0 := if pexists l0 then _ else _). destruct R0 as [keep0 k1].
    set (R1 := if pexists l1 then _ else _). destruct R1 as [keep1 k2].
    destruct (pexists l0 && pexists l1 && xorb keep0 keep1).
    + split; [apply cshz_refl | reflexivity].
    + destruct (if keep1 then graftp o tol s tf l1 false Indet new_idx (q ++ [row1 p']) k2 else (CU, k2)) as [c1 k3].
      destruct (if keep0 then graftp o tol s tf l0 false Indet new_idx (q ++ [row0 p']) k3 else (CU, k3)) as [c0 k4].
      cbn [fst snd cshz]. repeat split; auto using cshz_refl.
Qed.

Lemma cprune_cshz o tol s L : forall t u q k, cshz t u ->
  cshz (fst (cprune o tol s L t q k)) (fst (cprune o tol s L u q k)) /\
  snd (cprune o tol s L t q k) = snd (cprune o tol s L u q k).
Proof.
  induction t as [| i leaf f st c0 IH0 c1 IH1]; intros [|j m g r y0 y1] q k H; cbn [cshz] in H; try tauto.
  destruct H as [A [B [C [D [E F]]]]]. subst m g r. cbn [cprune]. destruct leaf.
    + rewrite A. apply graftp_cshz. exact A.
    + specialize (IH0 y0 (q ++ [row0 f]) k E).
      destruct (cprune o tol s L c0 (q ++ [row0 f]) k) as [c0' k1].
      destruct (cprune o tol s L y0 (q ++ [row0 f]) k) as [y0' k1'].
      cbn [fst snd] in IH0. destruct IH0 as [S0 K0]. subst k1'.
      specialize (IH1 y1 (q ++ [row1 f]) k1 F).
      destruct (cprune o tol s L c1 (q ++ [row1 f]) k1) as [c1' k2].
      destruct (cprune o tol s L y1 (q ++ [row1 f]) k1) as [y1' k2'].
      cbn [fst snd] in IH1. destruct IH1 as [S1 K1]. subst k2'.
      cbn [fst snd cshz]. auto 10.
Qed.

Theorem compose_prune_cshz o tol L t u : cshz t u ->
  cshz (fst (compose_prune o tol t L)) (fst (compose_prune o tol u L)) /\
  snd (compose_prune o tol t L) = snd (compose_prune o tol u L).
Proof. intros H. unfold compose_prune. apply cprune_cshz. exact H. Qed.

Print Assumptions compose_prune_cshz.

(* index 0 stays at the root only *)
Lemma graftp_idxs o tol s tf L : forall top st i q k x,
  In x (idxs (fst (graftp o tol s tf L top st i q k))) -> x = i \/ x = new_idx.
Proof.
  induction L as [| f | p ch IH] using ptree_ind'; intros top st i q k x.
  - cbn [graftp fst idxs In]. tauto.
  - cbn [graftp fst idxs In app]. intros [H|[]]. auto.
  - destruct ch as [|l0 [|l1 [|l2 r]]]; try (cbn [graftp fst idxs In]; tauto).
    apply Forall_cons_iff in IH as [IH0 IH]. apply Forall_cons_iff in IH as [IH1 _].
    cbn [graftp].
    set (p' := s_dec s p tf) in *.
    set (R0 := if pexists l0 then _ else _). destruct R0 as [keep0 k1].
    set (R1 := if pexists l1 then _ else _). destruct R1 as [keep1 k2].
    destruct (pexists l0 && pexists l1 && xorb keep0 keep1).
    + destruct keep1; intros H; [apply IH1 in H | apply IH0 in H]; tauto.
    + assert (A1 : forall x, In x (idxs (fst (if keep1 then graftp o tol s tf l1 false Indet new_idx (q ++ [row1 p']) k2 else (CU, k2)))) -> x = new_idx).
      { destruct keep1; intros y H; [apply IH1 in H; tauto | cbn in H; tauto]. }
      destruct (if keep1 then graftp o tol s tf l1 false Indet new_idx (q ++ [row1 p']) k2 else (CU, k2)) as [c1 k3].
      assert (A0 : forall x, In x (idxs (fst (if keep0 then graftp o tol s tf l0 false Indet new_idx (q ++ [row0 p']) k3 else (CU, k3)))) -> x = new_idx).
      { destruct keep0; intros y H; [apply IH0 in H; tauto | cbn in H; tauto]. }
      destruct (if keep0 then graftp o tol s tf l0 false Indet new_idx (q ++ [row0 p']) k3 else (CU, k3)) as [c0 k4].
      cbn [fst idxs In] in *. rewrite in_app_iff. intros [H|[H|H]]; auto.
Qed.

Lemma graftp_nz o tol s tf L top st i q k : i <> 0%nat -> nz (fst (graftp o tol s tf L top st i q k)).
Proof. intros Hi H. apply graftp_idxs in H. unfold new_idx in H. lia. Qed.

Lemma cprune_nz o tol s L : forall t q k, nz t -> nz (fst (cprune o tol s L t q k)).
Proof.
  induction t as [| i leaf f st c0 IH0 c1 IH1]; intros q k H.
  - exact H.
  - cbn [cprune]. apply nz_CN in H as [Hi [H0 H1]]. destruct leaf.
    + apply graftp_nz; exact Hi.
    + specialize (IH0 (q ++ [row0 f]) k H0).
      destruct (cprune o tol s L c0 (q ++ [row0 f]) k) as [c0' k1].
      specialize (IH1 (q ++ [row1 f]) k1 H1).
      destruct (cprune o tol s L c1 (q ++ [row1 f]) k1) as [c1' k2].
      cbn [fst] in *. apply nz_CN. auto.
Qed.

Lemma nz_CU : nz CU.
Proof. intros H. exact H. Qed.

Lemma graftp_top_onlyroot0 o tol s tf L st q k : onlyroot0 (fst (graftp o tol s tf L true st 0 q k)).
Proof.
  destruct L as [| f | p ch].
  - exact I.
  - cbn [graftp fst onlyroot0]. auto using nz_CU.
  - destruct ch as [|l0 [|l1 [|l2 r]]]; try exact I.
    cbn [graftp explore].
    destruct (pexists l0), (pexists l1); cbn [negb orb andb xorb];
    repeat match goal with
    | |- context [graftp ?a ?b ?c ?d ?e ?f ?g ?i ?h ?j] =>
        let N := fresh "N" in
        assert (N : nz (fst (graftp a b c d e f g i h j))) by (apply graftp_nz; unfold new_idx; lia);
        destruct (graftp a b c d e f g i h j); cbn [fst] in N
    end; cbn [fst onlyroot0]; auto using nz_CU.
Qed.

Theorem compose_prune_onlyroot0 o tol L t : onlyroot0 t -> onlyroot0 (fst (compose_prune o tol t L)).
Proof.
  unfold compose_prune. destruct t as [| i leaf f st c0 c1]; [intros _; exact I|].
  cbn [onlyroot0]. intros [-> [H0 H1]]. cbn [cprune]. destruct leaf.
  - cbn [Nat.eqb]. apply graftp_top_onlyroot0.
  - pose proof (cprune_nz o tol comp_schema L c0 ([] ++ [row0 f]) k0 H0) as N0.
    destruct (cprune o tol comp_schema L c0 ([] ++ [row0 f]) k0) as [c0' k1].
    pose proof (cprune_nz o tol comp_schema L c1 ([] ++ [row1 f]) k1 H1) as N1.
    destruct (cprune o tol comp_schema L c1 ([] ++ [row1 f]) k1) as [c1' k2].
    cbn [fst onlyroot0] in *. auto.
Qed.

Print Assumptions compose_prune_onlyroot0.

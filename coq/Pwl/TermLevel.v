(* Pwl/TermLevel.v -- the pruning theorems at the level of the TERMINAL reached (not only its value at x):
   elimination and pruned generic composition lead every input x to the same affine function as before /
   as the unpruned lifting.  Needed for histories: the coefficient-wise operators (tree * tree, tree / tree)
   depend on the terminal function itself, not on its value at x.  The proofs are those of ElimEval.v and
   CPruneEval.v with the observable [cev] replaced by [cterm]. *)
From AT Require Import Num Vec Aff PTree Cells Abs Cache Elim ElimEval CPrune Ops CPruneEval.

Fixpoint cterm (t : ctree) (x : vec) : option aff :=
  match t with
  | CU => None
  | CN _ leaf f _ c0 c1 =>
      if leaf then Some f
      else if qleb (dot (fst (prow f)) x) (snd (prow f)) then cterm c1 x else cterm c0 x
  end.
Lemma cev_cterm t x : cev t x = option_map (fun f => apply f x) (cterm t x).
Proof.
  induction t as [|i leaf f st c0 IH0 c1 IH1]; [reflexivity|]. cbn [cev cterm]. destruct leaf; [reflexivity|].
  destruct (qleb (dot (fst (prow f)) x) (snd (prow f))); auto.
Qed.

Theorem elim_sub_cterm o tol x : osound o x ->
  forall t isroot q st k, marks_kids x q t -> in_rows q x ->
  cterm (fst (elim_sub o tol isroot q st t k)) x = cterm t x.
Proof.
  intros Ho. induction t as [|i leaf p s0 c0 IH0 c1 IH1]; intros isroot q st k Hm Hq; [reflexivity|].
  cbn [elim_sub]. destruct leaf; [reflexivity|].
  destruct Hm as [Hm0 Hm1].
  set (q0 := q ++ [row0 p]) in *. set (q1 := q ++ [row1 p]) in *.
  (* child 0 *)
  destruct (match c0 with
            | CU => (CU, k, false)
            | CN _ _ _ _ _ _ =>
                let '(s0', k1, fr0, skip0) := visit o tol st q0 (row0 p) c0 k in
                if skip0 then (set_st s0' c0, k1, fr0)
                else let '(r0, k2) := elim_sub o tol false q0 s0' c0 k1 in (r0, k2, fr0)
            end) as [[sub0 k2] fresh0] eqn:E0.
  assert (F0 : in_rows q0 x -> cterm sub0 x = cterm c0 x).
  { intros Hq0. destruct c0 as [|i0 l0 p0 s0' c00 c01]; [inversion E0; reflexivity|].
    destruct (visit o tol st q0 (row0 p) (CN i0 l0 p0 s0' c00 c01) k) as [[[s0n k1] fr0] skip0] eqn:Ev0.
    destruct skip0.
    - inversion E0; subst. reflexivity.
    - destruct (elim_sub o tol false q0 s0n (CN i0 l0 p0 s0' c00 c01) k1) as [r0 k2'] eqn:Er0.
      inversion E0; subst. specialize (IH0 false q0 s0n k1). rewrite Er0 in IH0. apply IH0; auto.
      destruct Hm0 as [_ Hm0]. exact Hm0. }
  assert (G0 : is_infeas (c_state sub0) = true -> ~ in_rows q0 x).
  { intros Hi. destruct c0 as [|i0 l0 p0 s0' c00 c01]; [inversion E0; subst; discriminate|].
    destruct (visit o tol st q0 (row0 p) (CN i0 l0 p0 s0' c00 c01) k) as [[[s0n k1] fr0] skip0] eqn:Ev0.
    assert (Hv : is_infeas s0n = true -> ~ in_rows q0 x).
    { eapply visit_infeas; eauto. destruct Hm0 as [Hm0 _]. exact Hm0. }
    pose proof (visit_skip _ _ _ _ _ _ _ _ _ _ _ Ev0) as Hsk.
    destruct skip0.
    - inversion E0; subst. apply Hv. symmetry; exact Hsk.
    - destruct (elim_sub o tol false q0 s0n (CN i0 l0 p0 s0' c00 c01) k1) as [r0 k2'] eqn:Er0.
      inversion E0; subst.
      destruct (elim_sub_state o tol (CN i0 l0 p0 s0' c00 c01) false q0 s0n k1 eq_refl) as [H|H];
        rewrite Er0 in H; cbn [fst] in H.
      + rewrite H in Hi. rewrite Hi in Hsk. discriminate.
      + rewrite (feas_not_infeas _ H) in Hi. discriminate. }
  cbn [cterm].
  destruct (qleb (dot (fst (prow p)) x) (snd (prow p))) eqn:Eb.
  - (* x takes branch 1 *)
    pose proof (route1 p x q Hq Eb) as Hq1. fold q1 in Hq1.
    destruct c1 as [|i1 l1 p1 s1' c10 c11].
    { cbn [fst cterm]. rewrite Eb. reflexivity. }
    destruct (visit o tol st q1 (row1 p) (CN i1 l1 p1 s1' c10 c11) k2) as [[[s1 k3] fr1] skip1] eqn:Ev1.
    assert (Hv1 : is_infeas s1 = true -> ~ in_rows q1 x).
    { eapply visit_infeas; eauto. destruct Hm1 as [Hm1 _]. exact Hm1. }
    assert (Hn1 : is_infeas s1 = false) by (destruct (is_infeas s1); auto; exfalso; apply Hv1; auto).
    pose proof (visit_skip _ _ _ _ _ _ _ _ _ _ _ Ev1) as Hsk1. rewrite Hn1 in Hsk1. subst skip1.
    assert (IH1' : forall k', cterm (fst (elim_sub o tol false q1 s1 (CN i1 l1 p1 s1' c10 c11) k')) x
                              = cterm (CN i1 l1 p1 s1' c10 c11) x).
    { intros k'. apply IH1; auto. destruct Hm1 as [_ Hm1]. exact Hm1. }
    destruct (fr1 && c_exists sub0 && (is_feas (c_state sub0) && is_infeas s1 || is_infeas (c_state sub0) && is_feas s1)) eqn:Ef.
    + rewrite Hn1 in Ef. rewrite andb_false_r in Ef. cbn [orb] in Ef.
      apply andb_true_iff in Ef as [_ Ef]. apply andb_true_iff in Ef as [_ Ef1]. rewrite Ef1.
      specialize (IH1' k3).
      destruct (elim_sub o tol false q1 s1 (CN i1 l1 p1 s1' c10 c11) k3) as [r1 k4].
      cbn [fst] in IH1'. destruct isroot; cbn [fst cterm]; rewrite ?Eb; exact IH1'.
    + specialize (IH1' k3).
      destruct (elim_sub o tol false q1 s1 (CN i1 l1 p1 s1' c10 c11) k3) as [sub1 k4].
      cbn [fst] in IH1'. cbn [fst cterm]. rewrite Eb. rewrite Hn1. rewrite andb_false_r. cbn [andb]. exact IH1'.
  - (* x takes branch 0 *)
    pose proof (route0 p x q Hq Eb) as Hq0. fold q0 in Hq0.
    specialize (F0 Hq0).
    assert (Hn0 : is_infeas (c_state sub0) = false) by (destruct (is_infeas (c_state sub0)); auto; exfalso; apply G0; auto).
    destruct c1 as [|i1 l1 p1 s1' c10 c11].
    { cbn [fst cterm]. rewrite Eb. exact F0. }
    destruct (visit o tol st q1 (row1 p) (CN i1 l1 p1 s1' c10 c11) k2) as [[[s1 k3] fr1] skip1] eqn:Ev1.
    destruct (fr1 && c_exists sub0 && (is_feas (c_state sub0) && is_infeas s1 || is_infeas (c_state sub0) && is_feas s1)) eqn:Ef.
    + rewrite Hn0 in Ef. cbn [andb] in Ef. rewrite orb_false_r in Ef.
      apply andb_true_iff in Ef as [_ Ef]. apply andb_true_iff in Ef as [_ Ei1].
      rewrite (proj1 (is_infeas_eq s1) Ei1). cbn [is_feas].
      destruct isroot; cbn [fst cterm]; rewrite ?Eb; exact F0.
    + destruct (if skip1 then (set_st s1 (CN i1 l1 p1 s1' c10 c11), k3)
                else elim_sub o tol false q1 s1 (CN i1 l1 p1 s1' c10 c11) k3) as [sub1 k4].
      cbn [fst cterm]. rewrite Eb. rewrite Hn0. rewrite andb_false_r. cbn [andb]. exact F0.
Qed.

Theorem elim_cterm o tol t x : osound o x -> marks_kids x [] t ->
  cterm (fst (elim o tol t)) x = cterm t x.
Proof. intros Ho Hm. unfold elim. apply elim_sub_cterm; auto. constructor. Qed.

Lemma cterm_erase t x : cbin t -> cterm t x = term (erase t) x.
Proof.
  induction t as [|i leaf p s c0 IH0 c1 IH1]; intros Hb; [reflexivity|].
  destruct Hb as [Hp [Hb0 Hb1]]. cbn [cterm erase]. destruct leaf; [reflexivity|].
  destruct (Hp eq_refl) as [H1 H2]. cbn [term]. rewrite (decide_one_row p x H1 H2).
  destruct (qleb (dot (fst (prow p)) x) (snd (prow p))); cbn [map nth]; auto.
Qed.

Theorem graftp_cterm o tol s tf x : osound o x -> keeps_rows s tf ->
  forall L, bin2 L -> forall top st i q k, (st = Infeas -> ~ in_rows q x) -> in_rows q x ->
  cterm (fst (graftp o tol s tf L top st i q k)) x = term (graft s L tf) x.
Proof.
  intros Ho Hk L HL. induction HL as [|f|p l0 l1 Hp HL0 IH0 HL1 IH1]; intros top st i q k Hm Hq.
  - reflexivity.
  - reflexivity.
  - cbn [graftp graft map].
    set (p' := s_dec s p tf). destruct (Hk p Hp) as [Hr1 Hr2]. fold p' in Hr1, Hr2.
    set (q0 := q ++ [row0 p']). set (q1 := q ++ [row1 p']).
    destruct (if pexists l0
              then let '(b, k') := explore o tol top st q0 k in (b || negb (pexists l1), k')
              else (false, k)) as [keep0 k1] eqn:E0.
    destruct (if pexists l1
              then let '(b, k') := explore o tol top st q1 k1 in (b || negb keep0, k')
              else (false, k1)) as [keep1 k2] eqn:E1.
    (* what a dropped edge means *)
    assert (D0 : pexists l0 = true -> keep0 = false -> ~ in_rows q0 x).
    { intros He Hf. rewrite He in E0. destruct (explore o tol top st q0 k) as [b k'] eqn:Ex.
      inversion E0; subst. apply orb_false_iff in H0 as [Hb _]. subst b.
      eapply explore_false; eauto. }
    assert (D1 : pexists l1 = true -> keep1 = false -> ~ in_rows q1 x).
    { intros He Hf. rewrite He in E1. destruct (explore o tol top st q1 k1) as [b k'] eqn:Ex.
      inversion E1; subst. apply orb_false_iff in H0 as [Hb _]. subst b.
      eapply explore_false; eauto. }
    assert (N0 : pexists l0 = false -> keep0 = false) by (intros He; rewrite He in E0; inversion E0; auto).
    assert (N1 : pexists l1 = false -> keep1 = false) by (intros He; rewrite He in E1; inversion E1; auto).
    assert (U0 : pexists l0 = false -> term (graft s l0 tf) x = None) by (destruct l0; try discriminate; reflexivity).
    assert (U1 : pexists l1 = false -> term (graft s l1 tf) x = None) by (destruct l1; try discriminate; reflexivity).
    cbn [term map]. rewrite (decide_one_row p' x Hr1 Hr2).
    destruct (qleb (dot (fst (prow p')) x) (snd (prow p'))) eqn:Eb; cbn [nth].
    + (* branch 1 *)
      pose proof (route1 p' x q Hq Eb) as Hq1. fold q1 in Hq1.
      destruct (pexists l1) eqn:Ee1.
      2:{ (* no such child on either side *)
        rewrite (U1 eq_refl). rewrite (N1 eq_refl). rewrite andb_false_r. cbn [andb].
        destruct (if keep0 then graftp o tol s tf l0 false Indet new_idx q0 k2 else (CU, k2)) as [c0 k4].
        cbn [fst cterm]. rewrite Eb. reflexivity. }
      assert (K1 : keep1 = true) by (destruct keep1; auto; exfalso; apply (D1 eq_refl eq_refl); auto).
      subst keep1.
      destruct (pexists l0 && true && xorb keep0 true) eqn:Ef.
      * apply IH1; auto. discriminate.
      * destruct (graftp o tol s tf l1 false Indet new_idx q1 k2) as [c1 k3] eqn:Eg.
        destruct (if keep0 then graftp o tol s tf l0 false Indet new_idx q0 k3 else (CU, k3)) as [c0 k4].
        cbn [fst cterm]. rewrite Eb. specialize (IH1 false Indet new_idx q1 k2). rewrite Eg in IH1. apply IH1; auto. discriminate.
    + (* branch 0 *)
      pose proof (route0 p' x q Hq Eb) as Hq0. fold q0 in Hq0.
      destruct (pexists l0) eqn:Ee0.
      2:{ rewrite (U0 eq_refl). rewrite (N0 eq_refl). cbn [andb].
          destruct (if keep1 then graftp o tol s tf l1 false Indet new_idx q1 k2 else (CU, k2)) as [c1 k3].
          cbn [fst cterm]. rewrite Eb. reflexivity. }
      assert (K0 : keep0 = true) by (destruct keep0; auto; exfalso; apply (D0 eq_refl eq_refl); auto).
      subst keep0.
      destruct (true && pexists l1 && xorb true keep1) eqn:Ef.
      * assert (keep1 = false) by (destruct keep1; auto; rewrite andb_false_r in Ef; discriminate). subst keep1.
        apply IH0; auto. discriminate.
      * destruct (if keep1 then graftp o tol s tf l1 false Indet new_idx q1 k2 else (CU, k2)) as [c1 k3].
        destruct (graftp o tol s tf l0 false Indet new_idx q0 k3) as [c0 k4] eqn:Eg.
        cbn [fst cterm]. rewrite Eb. specialize (IH0 false Indet new_idx q0 k3). rewrite Eg in IH0. apply IH0; auto. discriminate.
Qed.

Theorem cprune_cterm o tol s L x : osound o x -> bin2 L ->
  forall t q k, cbin t -> terms_ok s t -> marks_ok x q t -> in_rows q x ->
  cterm (fst (cprune o tol s L t q k)) x = term (lift s (erase t) L) x.
Proof.
  intros Ho HL. induction t as [|i leaf f st c0 IH0 c1 IH1]; intros q k Hb Ht Hm Hq; [reflexivity|].
  destruct Hb as [Hf [Hb0 Hb1]]. destruct Ht as [Htf [Ht0 Ht1]]. destruct Hm as [Hst [Hm0 Hm1]].
  cbn [cprune erase]. destruct leaf.
  - cbn [lift]. apply graftp_cterm; auto.
  - destruct (Hf eq_refl) as [Hr1 Hr2].
    destruct (cprune o tol s L c0 (q ++ [row0 f]) k) as [c0' k1] eqn:E0.
    destruct (cprune o tol s L c1 (q ++ [row1 f]) k1) as [c1' k2] eqn:E1.
    cbn [fst cterm lift term map]. rewrite (decide_one_row f x Hr1 Hr2).
    destruct (qleb (dot (fst (prow f)) x) (snd (prow f))) eqn:Eb; cbn [nth].
    + specialize (IH1 (q ++ [row1 f]) k1). rewrite E1 in IH1. apply IH1; auto. apply route1; auto.
    + specialize (IH0 (q ++ [row0 f]) k). rewrite E0 in IH0. apply IH0; auto. apply route0; auto.
Qed.

Theorem compose_prune_term o tol t L x : osound o x -> bin2 L -> cbin t -> terms_ok comp_schema t -> marks_ok x [] t ->
  cterm (fst (compose_prune o tol t L)) x = term (compose (erase t) L) x.
Proof. intros. unfold compose_prune, compose. apply cprune_cterm; auto. constructor. Qed.

Theorem top_prune_term o tol fo t L x : osound o x -> bin2 L -> cbin t -> marks_ok x [] t ->
  cterm (fst (cprune o tol (op_schema fo) L t [] k0)) x = term (top fo (erase t) L) x.
Proof. intros. unfold top. apply cprune_cterm; auto. apply terms_ok_op. constructor. Qed.

(* Pwl/EffHistoryEx.v -- non-vacuity of the pipeline theorem: eliminate / compose / eliminate on the tree of
   ElimExample.v; the first elimination prunes a path and forwards a decision, the composition adds a ReLU below every terminal. *)
From AT Require Import Num Vec Aff PTree Cells Abs Cache Reduce Elim ElimEval ElimCache ElimEff CPrune Ops Schema WfC OpsWf
  ElimWf CPruneWf History CacheHistory CacheHistoryRun ElimExample EffHistory.

Fixpoint cpaths (q : rows) (t : ctree) : list rows :=
  match t with
  | CU => []
  | CN _ _ p _ c0 c1 => q :: cpaths (q ++ [row0 p]) c0 ++ cpaths (q ++ [row1 p]) c1
  end.
Lemma is_path_in : forall t q r, is_path q t r -> In r (cpaths q t).
Proof.
  induction t as [|i leaf p st c0 IH0 c1 IH1]; intros q r H; [contradiction|].
  cbn [cpaths]. destruct H as [->|[H|H]]; [left; reflexivity| |]; right; apply in_or_app; [left|right]; auto.
Qed.
(* ex_o answers Infeasible exactly for ex_bad and Unbounded otherwise: exact wherever every other path contains 0 *)
Lemma ex_o_exact_on t :
  forallb (fun r => rows_eqb r ex_bad || in_rowsb r [0]) (cpaths [] t) = true ->
  forall r, is_path [] t r -> oexact_at ex_o r.
Proof.
  intros H r Hr k. rewrite forallb_forall in H. specialize (H r (is_path_in _ _ _ Hr)).
  cbn [ex_o o_lp]. destruct (rows_eqb r ex_bad) eqn:E.
  - apply rows_eqb_eq in E. subst r. intros [x Hx]. exact (ex_bad_empty x Hx).
  - cbn [orb] in H. exists [0]. apply in_rowsb_spec. exact H.
Qed.

Definition px_ops : list (oracle * History.op) :=
  [(ex_o, OElim); (ex_o, OCompose false (partial_relu 1 0)); (ex_o, OApply (ex_f (1 + 1) 1))].
Lemma px_example :
  exists t, run 0 ex_t px_ops = HOk t /\
    (forall ox, In ox px_ops -> eff_op (snd ox)) /\ exact_hist 0 ex_t px_ops /\ pinv 0 ex_t /\
    (forall r, is_path [] t r -> oexact_at ex_o r) /\
    eff_root 0 [] (fst (elim ex_o 0 t)) /\ elim ex_o 0 (fst (elim ex_o 0 t)) = (fst (elim ex_o 0 t), k0).
Proof.
  destruct (run 0 ex_t px_ops) as [t|] eqn:Er; [|vm_compute in Er; discriminate].
  exists t. split; [reflexivity|].
  assert (Hop : forall ox, In ox px_ops -> eff_op (snd ox)).
  { intros ox Hin. cbn [px_ops In] in Hin.
    repeat match goal with H : _ \/ _ |- _ => destruct H as [H|H] end; try contradiction; subst ox; cbn [snd eff_op]; auto.
    unfold partial_relu. repeat constructor. }
  assert (Hex : exact_hist 0 ex_t px_ops).
  { cbn [exact_hist px_ops fst snd]. split.
    - intros _. split; [exact ex_exact | apply ex_mir].
    - intros t1 E1. split; [discriminate|]. intros t2 E2. split; [discriminate|]. intros t3 E3. exact I. }
  assert (Hp : pinv 0 ex_t).
  { apply fresh_total_pinv; [reflexivity | cbn; repeat split; reflexivity | cbn; repeat split; auto; discriminate]. }
  assert (Ho : forall r, is_path [] t r -> oexact_at ex_o r).
  { apply ex_o_exact_on. vm_compute in Er. inversion Er; subst t. vm_compute. reflexivity. }
  split; [exact Hop|]. split; [exact Hex|]. split; [exact Hp|]. split; [exact Ho|].
  destruct (pipeline_effective 0 px_ops ex_t t ex_o (Qcle_refl 0) Hop Hex Hp Er Ho (ex_mir 0)) as [A B].
  split; [exact A | apply B].
Qed.

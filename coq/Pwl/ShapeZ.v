(* Pwl/ShapeZ.v -- cshz: equality of arena-shaped trees up to node indices that also agrees on WHICH nodes carry the
   index 0 (the only way the structural models read an index: cprune passes Nat.eqb i 0 to explore as "this terminal
   is the root").  Trees laid out in an arena with root 0 and no index twice have the index 0 at the root only. *)
From Coq Require Import List Bool Lia. Import ListNotations.
From AT Require Import Num Vec Aff PTree Cells Abs Tree TreeLemmas Cache Elim AElim AElimBase.
From AT Require ACPruneRefine.

Fixpoint cshz (x y : ctree) : Prop :=
  match x, y with
  | CU, CU => True
  | CN i l f s x0 x1, CN j m g r y0 y1 =>
      Nat.eqb i 0 = Nat.eqb j 0 /\ l = m /\ f = g /\ s = r /\ cshz x0 y0 /\ cshz x1 y1
  | _, _ => False
  end.
Lemma cshz_refl x : cshz x x.
Proof. induction x as [|i l f s x0 IH0 x1 IH1]; cbn [cshz]; auto 10. Qed.
Lemma cshz_sym x : forall y, cshz x y -> cshz y x.
Proof.
  induction x as [|i l f s x0 IH0 x1 IH1]; intros [|j m g r y0 y1]; cbn [cshz]; try tauto.
  intros [A [B [C [D [E F]]]]]. repeat split; auto.
Qed.
Lemma cshz_trans x : forall y w, cshz x y -> cshz y w -> cshz x w.
Proof.
  induction x as [|i l f s x0 IH0 x1 IH1]; intros [|j m g r y0 y1] [|k n h u w0 w1]; cbn [cshz]; try tauto.
  intros [A [B [C [D [E F]]]]] [A' [B' [C' [D' [E' F']]]]]. repeat split; try congruence; eauto.
Qed.
Lemma cshz_cshape x : forall y, cshz x y -> ACPruneRefine.cshape x y.
Proof.
  induction x as [|i l f s x0 IH0 x1 IH1]; intros [|j m g r y0 y1]; cbn [cshz ACPruneRefine.cshape]; try tauto.
  intros [A [B [C [D [E F]]]]]. repeat split; auto.
Qed.

(* no node with index 0 / index 0 at the root only *)
Definition nz (t : ctree) : Prop := ~ In 0%nat (idxs t).
Definition onlyroot0 (t : ctree) : Prop :=
  match t with CU => True | CN i _ _ _ c0 c1 => i = 0%nat /\ nz c0 /\ nz c1 end.
Lemma nz_CN i l f s c0 c1 : nz (CN i l f s c0 c1) <-> i <> 0%nat /\ nz c0 /\ nz c1.
Proof.
  unfold nz. cbn [idxs In]. rewrite in_app_iff. split.
  - intros H. repeat split; intros C; apply H; auto.
  - intros [A [B C]] [H|[H|H]]; auto.
Qed.
Lemma cshape_nz_cshz x : forall y, ACPruneRefine.cshape x y -> nz x -> nz y -> cshz x y.
Proof.
  induction x as [|i l f s x0 IH0 x1 IH1]; intros [|j m g r y0 y1]; cbn [cshz ACPruneRefine.cshape]; try tauto.
  intros [B [C [D [E F]]]] Hx Hy. apply nz_CN in Hx as [X [X0 X1]]. apply nz_CN in Hy as [Y [Y0 Y1]].
  split. { apply Nat.eqb_neq in X. apply Nat.eqb_neq in Y. congruence. } repeat split; auto.
Qed.
Lemma cshape_onlyroot0_cshz x y : ACPruneRefine.cshape x y -> onlyroot0 x -> onlyroot0 y -> cshz x y.
Proof.
  destruct x as [|i l f s x0 x1], y as [|j m g r y0 y1]; cbn [cshz ACPruneRefine.cshape onlyroot0]; try tauto.
  intros [B [C [D [E F]]]] [-> [X0 X1]] [-> [Y0 Y1]]. split; [reflexivity|]. repeat split; auto using cshape_nz_cshz.
Qed.
Lemma arena_tree_onlyroot0 a t : arena_tree a 0 t -> onlyroot0 t.
Proof.
  intros [Hr [_ Hnd]]. destruct t as [|i l f s c0 c1]; [exact I|]. cbn [cidx] in Hr. inversion Hr; subst i.
  cbn [idxs] in Hnd. destruct (nodup_cn _ _ _ Hnd) as [A [B _]]. cbn [onlyroot0]. auto.
Qed.

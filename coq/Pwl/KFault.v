(* Pwl/KFault.v -- pruning under a misbehaving LP backend (C11) for EVERY branching factor K: the K-ary pruning theorems
   (KElimEval / KElimCache / KPruneEval) instantiated for an arbitrarily corrupted oracle (ElimFault.faulty: an Error, an
   Unbounded, or an Optimal with any point at any calls, never an Infeasible), and the fact that a corrupted answer can
   only lead to LESS pruning:
     - a classification whose LP call is not answered Infeasible is never Infeasible (kfault_never_prunes, _visit),
     - an edge loop in which no LP call is answered Infeasible keeps every existing edge (kfault_keeps_edges),
     - with an oracle that never answers Infeasible, on a tree without cached Infeasible marks, infeasible_elimination
       removes nothing and forwards nothing: the erased tree is the input's (kfault_elim_removes_nothing). *)
From AT Require Import Num Vec Aff PTree Cells Abs Cache Elim ElimEval ElimCache CPrune CPruneEval Ops EdgeRegion.
From AT Require Import KPrune KPruneEval KPruneExample KElim KElimEval KElimCache KElimExample ElimFault.

(* ================= the represented function is unchanged under any fault plan ================= *)
Theorem kfault_elim_function_unchanged : forall o hit bad tol K t x,
  osound o x -> (forall k, not_inf (bad k)) -> kshape K t -> kmarks_kids x [] t ->
  kev (fst (kelim (faulty o hit bad) tol K t)) x = kev t x /\
  kterm (fst (kelim (faulty o hit bad) tol K t)) x = kterm t x.
Proof.
  intros o hit bad tol K t x Ho Hb Hs Hm. pose proof (faulty_osound o hit bad x Ho Hb) as Hf.
  split; [apply kelim_kev | apply kelim_kterm]; assumption.
Qed.
(* at every node, with every path and state (the form the arena refinement uses) *)
Theorem kfault_elim_sub_function_unchanged : forall o hit bad tol K x,
  osound o x -> (forall k, not_inf (bad k)) ->
  forall t, kshape K t -> forall isroot q st k, kmarks_kids x q t -> in_rows q x ->
  kterm (fst (kelim_sub (faulty o hit bad) tol K isroot q st t k)) x = kterm t x.
Proof. intros o hit bad tol K x Ho Hb. apply kelim_sub_kterm. apply faulty_osound; assumption. Qed.

(* pruned composition / pruned operators (any schema) *)
Theorem kfault_prune_function_unchanged : forall o hit bad tol s K L x,
  osound o x -> (forall k, not_inf (bad k)) -> kary K L ->
  forall t q k, kok s t -> kmarks x q t -> in_rows q x ->
  kev (fst (kprune (faulty o hit bad) tol s K L t q k)) x = eval (lift s (kerase t) L) x /\
  kterm (fst (kprune (faulty o hit bad) tol s K L t q k)) x = term (lift s (kerase t) L) x.
Proof.
  intros o hit bad tol s K L x Ho Hb HL t q k Hok Hm Hq. pose proof (faulty_osound o hit bad x Ho Hb) as Hf.
  split; [apply kprune_kev | apply kprune_kterm]; assumption.
Qed.
Theorem kfault_compose_function_unchanged : forall o hit bad tol K t L x,
  osound o x -> (forall k, not_inf (bad k)) -> kary K L -> kok comp_schema t -> kmarks x [] t ->
  kev (fst (kcompose_prune (faulty o hit bad) tol K t L)) x = eval (compose (kerase t) L) x.
Proof. intros o hit bad tol K t L x Ho Hb HL Hok Hm. apply kcompose_prune_kev; try assumption. apply faulty_osound; assumption. Qed.

(* ================= no unsound verdict or witness is cached under any fault plan ================= *)
Theorem kfault_keeps_marks : forall o hit bad tol K t x,
  osound o x -> (forall k, not_inf (bad k)) -> kshape K t -> kmarks_kids x [] t ->
  kmarks_kids x [] (fst (kelim (faulty o hit bad) tol K t)).
Proof. intros o hit bad tol K t x Ho Hb Hs Hm. apply kelim_marks; try assumption. apply faulty_osound; assumption. Qed.
(* a bogus Optimal point is re-checked with contains() before it is stored, the repaired point likewise *)
Theorem kfault_keeps_witnesses : forall o hit bad tol K t,
  mir_sound o tol -> kwit_ok tol [] t -> kwit_ok tol [] (fst (kelim (faulty o hit bad) tol K t)).
Proof. intros o hit bad tol K t Hm Hw. apply kelim_wit; [apply faulty_mir; exact Hm | exact Hw]. Qed.

(* both caches in one statement *)
Theorem kfault_elim_caches : forall o hit bad tol K t,
  (mir_sound o tol -> kwit_ok tol [] t -> kwit_ok tol [] (fst (kelim (faulty o hit bad) tol K t))) /\
  (forall x, osound o x -> (forall k, not_inf (bad k)) -> kshape K t -> kmarks_kids x [] t ->
     kmarks_kids x [] (fst (kelim (faulty o hit bad) tol K t))).
Proof.
  intros o hit bad tol K t. split; [apply kfault_keeps_witnesses|].
  intros x Ho Hb Hs Hm. apply kfault_keeps_marks; assumption.
Qed.

(* ================= the only permitted effect is less pruning ================= *)
Lemma k_lp_mir_inc k : k_lp (mir_inc k) = k_lp k.
Proof. reflexivity. Qed.

(* the classification makes at most one LP call, number k_lp k; an answer other than Infeasible never produces the state
   Infeasible *)
Theorem kfault_never_prunes : forall o tol stP q h k s k',
  kclassify o tol stP q h k = (s, k') -> o_lp o (k_lp k) q <> LInf -> is_infeas s = false.
Proof.
  unfold kclassify. intros o tol stP q h k s k' H Hn.
  destruct stP as [| | |ws]; try (eapply fault_never_prunes; eauto; fail).
  destruct (filter (fun w => contains_tol tol h w) ws).
  - destruct (o_mir o (k_mir k) q ws).
    + inversion H; subst; reflexivity.
    + eapply fault_never_prunes; [exact H | rewrite k_lp_mir_inc; exact Hn].
  - inversion H; subst; reflexivity.
Qed.
(* the faulted call itself *)
Corollary kfault_never_prunes_faulty : forall o hit bad tol stP q h k s k',
  hit (k_lp k) = true -> not_inf (bad (k_lp k)) ->
  kclassify (faulty o hit bad) tol stP q h k = (s, k') -> is_infeas s = false.
Proof.
  intros o hit bad tol stP q h k s k' Hh Hb H. eapply kfault_never_prunes; [exact H|].
  cbn [faulty o_lp]. rewrite Hh. exact Hb.
Qed.
(* the visit of a child: unless the child carries a cached Infeasible mark, it is not classified Infeasible, its subtree
   is not skipped (so it is not queued for removal and does not count towards forwarding) *)
Theorem kfault_never_prunes_visit : forall o tol stP q h c k s k' fr sk,
  kvisit o tol stP q h c k = (s, k', fr, sk) -> k_state c <> Infeas -> o_lp o (k_lp k) q <> LInf ->
  is_infeas s = false /\ sk = false.
Proof.
  unfold kvisit. intros o tol stP q h c k s k' fr sk H Hc Hn. destruct (k_state c) eqn:Ec.
  - destruct (kclassify o tol stP q h k) as [s' k''] eqn:Ecl. inversion H; subst.
    rewrite (kfault_never_prunes _ _ _ _ _ _ _ _ Ecl Hn). split; reflexivity.
  - congruence.
  - inversion H; subst; split; reflexivity.
  - inversion H; subst; split; reflexivity.
Qed.

(* an oracle that never answers Infeasible -- e.g. one whose every call is faulted *)
Definition never_inf (o : oracle) : Prop := forall j q, o_lp o j q <> LInf.
Lemma faulty_all_never_inf o hit bad : (forall k, hit k = true) -> (forall k, not_inf (bad k)) -> never_inf (faulty o hit bad).
Proof. intros Hh Hb j q. cbn [faulty o_lp]. rewrite Hh. exact (Hb j). Qed.
(* faulting cannot introduce an Infeasible answer *)
Lemma faulty_never_inf o hit bad : never_inf o -> (forall k, not_inf (bad k)) -> never_inf (faulty o hit bad).
Proof. intros Ho Hb j q. cbn [faulty o_lp]. destruct (hit j); [exact (Hb j) | exact (Ho j q)]. Qed.

(* the edge loop of the pruned composition (is_edge_feasible per existing edge): every existing edge is kept *)
Theorem kfault_keeps_edges : forall o tol top st q p', never_inf o -> st <> Infeas ->
  forall ch l created k, fst (kedges o tol top st q p' ch l created k) = map pexists ch.
Proof.
  intros o tol top st q p' Ho Hs. induction ch as [|c ch IH]; intros l created k; [reflexivity|].
  cbn [kedges map]. destruct (pexists c).
  - pose proof (fault_keeps_edge o tol top st (q ++ label_rows p' l) k (Ho _ _) Hs) as He.
    destruct (explore o tol top st (q ++ label_rows p' l) k) as [b k1]. cbn [fst] in He. subst b. cbn [orb].
    specialize (IH (S l) (S created) k1). destruct (kedges o tol top st q p' ch (S l) (S created) k1) as [ks k2].
    cbn [fst] in *. rewrite IH. reflexivity.
  - specialize (IH (S l) created k). destruct (kedges o tol top st q p' ch (S l) created k) as [ks k2].
    cbn [fst] in *. rewrite IH. reflexivity.
Qed.

(* ================= with no Infeasible answer at all, nothing is removed ================= *)
(* no cached Infeasible mark in the tree *)
Inductive kclean : ktree -> Prop :=
| kclean_U : kclean KU
| kclean_N i leaf f st ch : st <> Infeas -> Forall kclean ch -> kclean (KN i leaf f st ch).
Definition kclean_kids (t : ktree) : Prop := match t with KU => True | KN _ _ _ _ ch => Forall kclean ch end.
Fixpoint kcleanb (t : ktree) : bool :=
  match t with KU => true | KN _ _ _ st ch => negb (is_infeas st) && forallb kcleanb ch end.
Lemma kcleanb_sound : forall t, kcleanb t = true -> kclean t.
Proof.
  induction t as [|i leaf f st ch IH] using ktree_ind'; intros H; [constructor|].
  cbn [kcleanb] in H. apply andb_true_iff in H as [H1 H2]. constructor.
  - intros E. subst st. discriminate H1.
  - rewrite forallb_forall in H2. rewrite Forall_forall in *. intros c Hc. apply IH; auto.
Qed.
Lemma kclean_state t : kclean t -> k_state t <> Infeas.
Proof. intros H. destruct H; cbn [k_state]; [discriminate | assumption]. Qed.
Lemma kclean_kids_of t : kclean t -> kclean_kids t.
Proof. intros H. destruct H; cbn [kclean_kids]; [exact I | assumption]. Qed.

Lemma not_infeas_false s : s <> Infeas -> is_infeas s = false.
Proof. destruct s; try reflexivity. congruence. Qed.
Lemma count_st_none f : forall es, Forall (fun e : kentry => f (e_st e) = false) es -> count_st f es = 0%nat.
Proof.
  induction es as [|e es IH]; intros H; [reflexivity|]. apply Forall_cons_iff in H as [He H].
  unfold count_st in *. cbn [filter]. rewrite He. apply IH; exact H.
Qed.
Lemma kremove_none : forall es n, Forall (fun e : kentry => is_infeas (e_st e) = false) es -> kremove es n = map e_sub es.
Proof.
  induction es as [|e es IH]; intros n H; [reflexivity|]. apply Forall_cons_iff in H as [He H].
  cbn [kremove map]. rewrite He. rewrite andb_false_r. cbn [andb]. rewrite IH; auto.
Qed.

(* the loop over the child slots: no entry is Infeasible, every slot keeps (the elimination of) its subtree *)
Lemma kkids_clean o tol K stP q p : never_inf o ->
  forall cs, Forall kclean cs ->
  Forall (fun c => kclean_kids c -> forall isroot q' st k, kerase (fst (kelim_sub o tol K isroot q' st c k)) = kerase c) cs ->
  forall l k es k',
  kkids (fun l c k' => kvisit o tol stP (q ++ label_rows p l) (label_rows p l) c k')
        (fun c l s k' => kelim_sub o tol K false (q ++ label_rows p l) s c k') cs l k = (es, k') ->
  map (fun e => kerase (e_sub e)) es = map kerase cs /\ Forall (fun e => is_infeas (e_st e) = false) es.
Proof.
  intros Ho. induction cs as [|c cs IH]; intros Hc Hg l k es k' H.
  - cbn [kkids] in H. inversion H; subst. split; [reflexivity | constructor].
  - apply Forall_cons_iff in Hc as [Hcc Hc]. apply Forall_cons_iff in Hg as [Hgc Hg]. cbn [kkids] in H.
    destruct (k_exists c) eqn:Ec.
    + destruct (kvisit o tol stP (q ++ label_rows p l) (label_rows p l) c k) as [[[s k1] fr] skip] eqn:Ev.
      destruct (kfault_never_prunes_visit _ _ _ _ _ _ _ _ _ _ _ Ev (kclean_state c Hcc) (Ho _ _)) as [Hs Hsk]. subst skip.
      destruct (kelim_sub o tol K false (q ++ label_rows p l) s c k1) as [r k2] eqn:Er.
      match type of H with (let '(es0, k3) := ?X in _) = _ => destruct X as [es' k3] eqn:Ek end.
      inversion H; subst es k'. clear H.
      destruct (IH Hc Hg _ _ _ _ Ek) as [IM IF]. cbn [map]. unfold e_sub at 1, e_st at 1. cbn [fst snd]. split.
      * f_equal; [|exact IM]. pose proof (Hgc (kclean_kids_of c Hcc) false (q ++ label_rows p l) s k1) as E.
        rewrite Er in E. exact E.
      * constructor; [|exact IF]. unfold e_st; cbn [snd]. destruct (existsb k_exists cs); [|exact Hs].
        pose proof (kelim_sub_state o tol K c false (q ++ label_rows p l) s k1 Ec) as Hst. rewrite Er in Hst. cbn [fst] in Hst.
        destruct Hst as [Hst|Hst]; [rewrite Hst; exact Hs | apply feas_not_infeas; exact Hst].
    + match type of H with (let '(es0, k3) := ?X in _) = _ => destruct X as [es' k3] eqn:Ek end.
      inversion H; subst es k'. clear H.
      destruct (IH Hc Hg _ _ _ _ Ek) as [IM IF]. cbn [map]. unfold e_sub at 1. cbn [fst snd]. split.
      * f_equal; [|exact IM]. destruct c; [reflexivity | discriminate Ec].
      * constructor; [reflexivity | exact IF].
Qed.

(* infeasible_elimination with an LP backend that never answers Infeasible (every call faulted, say), on a tree without
   cached Infeasible marks below the root, for K >= 2: no node is removed, no decision is forwarded -- the tree without
   its caches is the input *)
Theorem kfault_elim_sub_removes_nothing o tol K : never_inf o -> (2 <= K)%nat ->
  forall t, kclean_kids t -> forall isroot q st k, kerase (fst (kelim_sub o tol K isroot q st t k)) = kerase t.
Proof.
  intros Ho HK. induction t as [|i leaf p s0 ch IH] using ktree_ind'; intros Hc isroot q st k; [reflexivity|].
  cbn [kelim_sub]. destruct leaf; [reflexivity|]. cbn [kclean_kids] in Hc.
  destruct (kkids (fun l c k' => kvisit o tol st (q ++ label_rows p l) (label_rows p l) c k')
                  (fun c l s k' => kelim_sub o tol K false (q ++ label_rows p l) s c k') ch 0 k) as [es k1] eqn:Ek.
  destruct (kkids_clean o tol K st q p Ho ch Hc IH _ _ _ _ Ek) as [HM HF].
  assert (Ef : kfwd K es = false).
  { unfold kfwd. rewrite (count_st_none is_infeas es HF).
    replace (Nat.eqb 0 (K - 1)) with false by (symmetry; apply Nat.eqb_neq; lia). apply andb_false_r. }
  rewrite Ef. cbn [fst kerase]. rewrite (kremove_none es _ HF). rewrite map_map. rewrite HM. reflexivity.
Qed.
Theorem kfault_elim_removes_nothing o tol K t : never_inf o -> (2 <= K)%nat -> kclean_kids t ->
  kerase (fst (kelim o tol K t)) = kerase t.
Proof. intros Ho HK Hc. unfold kelim. apply kfault_elim_sub_removes_nothing; assumption. Qed.

(* the pruned composition / pruned operators under the same conditions: the result without its caches IS the un-pruned
   lifting (no edge removed, no decision forwarded) *)
Lemma count_true_map_pexists : forall ch, count_true (map pexists ch) = n_exist ch.
Proof.
  unfold count_true, n_exist. induction ch as [|c ch IH]; [reflexivity|]. cbn [map filter].
  destruct (pexists c); cbn [length]; rewrite IH; reflexivity.
Qed.
Lemma kdesc_all g (h : ptree -> ptree) : h U = U ->
  forall cs, Forall (fun c => forall l k, kerase (fst (g c l k)) = h c) cs ->
  forall l k, map kerase (fst (kdesc g cs (map pexists cs) l k)) = map h cs.
Proof.
  intros HU. induction cs as [|c cs IH]; intros Hg l k; [reflexivity|]. apply Forall_cons_iff in Hg as [Hgc Hg].
  cbn [kdesc map tl hd]. fold (kdesc g). specialize (IH Hg (S l) k).
  destruct (kdesc g cs (map pexists cs) (S l) k) as [rs k1]. cbn [fst] in IH.
  destruct (pexists c) eqn:Ec.
  - specialize (Hgc l k1). destruct (g c l k1) as [r k2]. cbn [fst map] in *. rewrite Hgc, IH. reflexivity.
  - cbn [fst map]. rewrite IH. destruct c; try discriminate Ec. cbn [kerase]. rewrite HU. reflexivity.
Qed.
Lemma kasc_all g (h : ktree -> ptree) :
  forall cs, Forall (fun c => forall l k, kerase (fst (g c l k)) = h c) cs ->
  forall l k, map kerase (fst (kasc g cs l k)) = map h cs.
Proof.
  induction cs as [|c cs IH]; intros Hg l k; [reflexivity|]. apply Forall_cons_iff in Hg as [Hgc Hg].
  cbn [kasc map]. fold (kasc g). specialize (Hgc l k). destruct (g c l k) as [r k1].
  specialize (IH Hg (S l) k1). destruct (kasc g cs (S l) k1) as [rs k2]. cbn [fst map] in *. rewrite Hgc, IH. reflexivity.
Qed.

Theorem kfault_graft_removes_nothing o tol s K tf : never_inf o -> (2 <= K)%nat ->
  forall L top st i q k, st <> Infeas -> kerase (fst (kgraft o tol s K tf L top st i q k)) = graft s L tf.
Proof.
  intros Ho HK. induction L as [|f|p ch IH] using ptree_ind'; intros top st i q k Hs; [reflexivity | reflexivity |].
  cbn [kgraft graft].
  pose proof (kfault_keeps_edges o tol top st q (s_dec s p tf) Ho Hs ch 0%nat 0%nat k) as Hk.
  destruct (kedges o tol top st q (s_dec s p tf) ch 0 0 k) as [keeps k1]. cbn [fst] in Hk. subst keeps.
  rewrite count_true_map_pexists.
  replace (Nat.eqb (n_exist ch) 1 && Nat.eqb (n_exist ch) K) with false.
  2:{ symmetry. destruct (Nat.eqb (n_exist ch) 1) eqn:E1; [|reflexivity]. apply Nat.eqb_eq in E1. rewrite E1.
      cbn [andb]. apply Nat.eqb_neq. lia. }
  pose proof (kdesc_all (fun c l k' => kgraft o tol s K tf c false Indet new_idx (q ++ label_rows (s_dec s p tf) l) k')
                        (fun c => graft s c tf) eq_refl ch) as Hd.
  assert (Hg : Forall (fun c => forall l k', kerase (fst (kgraft o tol s K tf c false Indet new_idx
                                                             (q ++ label_rows (s_dec s p tf) l) k')) = graft s c tf) ch).
  { rewrite Forall_forall in *. intros c Hc l k'. apply IH; [exact Hc | discriminate]. }
  specialize (Hd Hg 0%nat k1).
  destruct (kdesc (fun c l k' => kgraft o tol s K tf c false Indet new_idx (q ++ label_rows (s_dec s p tf) l) k')
                  ch (map pexists ch) 0 k1) as [cs k2].
  cbn [fst kerase] in *. rewrite Hd. reflexivity.
Qed.
Theorem kfault_prune_removes_nothing o tol s K L : never_inf o -> (2 <= K)%nat ->
  forall t q k, kclean t -> kerase (fst (kprune o tol s K L t q k)) = lift s (kerase t) L.
Proof.
  intros Ho HK. induction t as [|i leaf f st ch IH] using ktree_ind'; intros q k Hc; [reflexivity|].
  inversion Hc as [|i0 l0 f0 st0 ch0 Hst Hch]; subst i0 l0 f0 st0 ch0.
  cbn [kprune kerase]. destruct leaf.
  - cbn [lift]. apply kfault_graft_removes_nothing; assumption.
  - pose proof (kasc_all (fun c l k' => kprune o tol s K L c (q ++ label_rows f l) k') (fun c => lift s (kerase c) L) ch) as Ha.
    assert (Hg : Forall (fun c => forall l k', kerase (fst (kprune o tol s K L c (q ++ label_rows f l) k')) = lift s (kerase c) L) ch).
    { rewrite Forall_forall in *. intros c Hin l k'. apply IH; auto. }
    specialize (Ha Hg 0%nat k).
    destruct (kasc (fun c l k' => kprune o tol s K L c (q ++ label_rows f l) k') ch 0 k) as [cs k1].
    cbn [fst kerase lift] in *. rewrite Ha. rewrite map_map. reflexivity.
Qed.
Theorem kfault_compose_removes_nothing o tol K t L : never_inf o -> (2 <= K)%nat -> kclean t ->
  kerase (fst (kcompose_prune o tol K t L)) = compose (kerase t) L.
Proof. intros Ho HK Hc. unfold kcompose_prune, compose. apply kfault_prune_removes_nothing; assumption. Qed.

(* ================= non-vacuity: the K = 4 runs of KElimExample / KPruneExample with EVERY LP call faulted ================= *)
Definition kf_all (a : lpans) : oracle := faulty (kx_oracle 1) (fun _ => true) (fun _ => a).
(* an Optimal answer with the same arbitrary point (x = 100) at every call: outside most query polytopes of the run *)
Definition kf_bogus : lpans := LOpt [Q2Qc 100].

Lemma kf_all_sound a x : length x = 1%nat -> not_inf a -> osound (kf_all a) x /\ never_inf (kf_all a).
Proof.
  intros Hx Ha. split.
  - apply faulty_osound; [apply kx_oracle_sound; exact Hx | intros _; exact Ha].
  - apply faulty_all_never_inf; [reflexivity | intros _; exact Ha].
Qed.
Lemma kex_clean : kclean_kids kex_t /\ kclean kx_t.
Proof.
  split; [|apply kcleanb_sound; reflexivity].
  cbn [kclean_kids kex_t]. repeat (constructor; try (apply kcleanb_sound; reflexivity)).
Qed.

Lemma kfault_example :
  (* the exact oracle prunes node 3 and forwards decision 2 (KElimExample.kex_run) ... *)
  ktree_eqb (fst (kelim (kx_oracle 1) 0 4 kex_t)) kex_r = true /\
  (* ... every call answered Error: each of the 10 nodes below the root is classified (10 LP calls), every state stays
     Indeterminate, every node stays under its own index *)
  ktree_eqb (fst (kelim (kf_all LErr) 0 4 kex_t)) kex_t = true /\
  k_lp (snd (kelim (kf_all LErr) 0 4 kex_t)) = 10%nat /\
  (* every call answered Unbounded (all states become Feasible), or Optimal with an arbitrary point: nothing is removed *)
  kerase (fst (kelim (kf_all LUnb) 0 4 kex_t)) = kerase kex_t /\
  kerase (fst (kelim (kf_all kf_bogus) 0 4 kex_t)) = kerase kex_t /\
  (* pruned composition: the result is the un-pruned composition, edge for edge *)
  kerase (fst (kcompose_prune (kf_all LErr) 0 4 kx_t kx_L)) = compose (kerase kx_t) kx_L /\
  kerase (fst (kcompose_prune (kf_all LUnb) 0 4 kx_t kx_L)) = compose (kerase kx_t) kx_L /\
  (* and the hypotheses of the theorems hold for these runs, for every input *)
  (forall a x, length x = 1%nat -> not_inf a ->
     osound (kf_all a) x /\ never_inf (kf_all a) /\ kshape 4 kex_t /\ kmarks_kids x [] kex_t /\ kclean_kids kex_t /\
     kev (fst (kelim (kf_all a) 0 4 kex_t)) x = kev kex_t x /\
     kterm (fst (kelim (kf_all a) 0 4 kex_t)) x = kterm kex_t x /\
     kerase (fst (kelim (kf_all a) 0 4 kex_t)) = kerase kex_t /\
     kev (fst (kcompose_prune (kf_all a) 0 4 kx_t kx_L)) x = eval (compose (kerase kx_t) kx_L) x /\
     kerase (fst (kcompose_prune (kf_all a) 0 4 kx_t kx_L)) = compose (kerase kx_t) kx_L).
Proof.
  split; [apply kex_run|].
  split; [vm_compute; reflexivity|]. split; [vm_compute; reflexivity|]. split; [vm_compute; reflexivity|].
  split; [vm_compute; reflexivity|]. split; [vm_compute; reflexivity|]. split; [vm_compute; reflexivity|].
  intros a x Hx Ha. destruct (kf_all_sound a x Hx Ha) as [Hs Hn]. destruct kex_clean as [C1 C2].
  split; [exact Hs|]. split; [exact Hn|]. split; [apply kex_shape|]. split; [apply kex_marks|]. split; [exact C1|].
  split; [apply kelim_kev; auto using kex_shape, kex_marks|].
  split; [apply kelim_kterm; auto using kex_shape, kex_marks|].
  split; [apply kfault_elim_removes_nothing; auto; lia|].
  split; [apply kcompose_prune_kev; auto using kx_kok, kx_marks; apply kx_kary|].
  apply kfault_compose_removes_nothing; auto; lia.
Qed.

(* Pwl/ElimEff.v -- infeasible_elimination is effective and idempotent (C06), for every containment tolerance
   tol >= 0 and an LP oracle that is exact on the queries it is asked (Infeasible <-> empty, Unbounded / Optimal w
   only for non-empty polytopes with w inside, never Error).  "Non-empty" for a node that carries witnesses means:
   it has a point within the containment tolerance of its closed path polytope (that is all a witness ever
   guarantees); for a node without witnesses it means exactly non-empty.

   Input: a tree whose decisions all have both branches and whose cached states below the root are either all
   still Indeterminate or sound feasible ones, uniformly per sibling pair (that is what a fresh tree, the result
   of an earlier run, and a composition of such results look like).  Then in the result
     * every node below the root has a determined feasible state and a closed path polytope that is non-empty
       (within the containment tolerance when the evidence is a witness),
     * every decision below the root still has both branches (a decision with one infeasible branch was replaced
       by the other branch; at the root the infeasible branch is removed instead),
     * a second run -- with ANY oracle -- returns the same tree and asks no LP.
   What remains idealised is the solver (exact on the asked queries); minilp's own tolerance is what the
   per-instance certified checks of the runner (regions relaxed by tau) cover. *)
From AT Require Import Num Vec Aff PTree Cells Abs Cache Elim ElimEval ElimCache.

Definition ne (q : rows) : Prop := exists x, in_rows q x.

Definition oexact_at (o : oracle) (q : rows) : Prop :=
  forall k, match o_lp o k q with
            | LInf => ~ ne q
            | LUnb => ne q
            | LOpt w => in_rows q w
            | LErr => False
            end.
Definition oexact (o : oracle) : Prop := forall q, oexact_at o q.
(* the closed path polytopes of the nodes of t (prefix q): the only polytopes elimination ever asks about *)
Fixpoint is_path (q : rows) (t : ctree) (r : rows) : Prop :=
  match t with
  | CU => False
  | CN _ _ p _ c0 c1 => r = q \/ is_path (q ++ [row0 p]) c0 r \/ is_path (q ++ [row1 p]) c1 r
  end.
Lemma is_path_self q t : c_exists t = true -> is_path q t q.
Proof. destruct t; simpl; [discriminate|auto]. Qed.

Lemma in_rows_contains tol q w : 0 <= tol -> in_rows q w -> contains_tol tol q w = true.
Proof.
  unfold contains_tol, in_rows. rewrite forallb_forall, Forall_forall.
  intros Ht H rb Hrb. specialize (H rb Hrb). apply qleb_spec. qlra.
Qed.
(* non-empty within the containment tolerance *)
Definition ne_tol (tol : Qc) (q : rows) : Prop := exists x, contains_tol tol q x = true.
Lemma ne_ne_tol tol q : 0 <= tol -> ne q -> ne_tol tol q.
Proof. intros Ht [x Hx]. exists x. apply in_rows_contains; auto. Qed.

(* what a determined state claims, exactly *)
Definition gst (tol : Qc) (q : rows) (s : nstate) : Prop :=
  match s with
  | Indet => False
  | Infeas => ~ ne q
  | Feas => ne q
  | FeasW ws => st_wit tol q (FeasW ws)
  end.
Lemma st_wit_ne tol q ws : st_wit tol q (FeasW ws) -> ne_tol tol q.
Proof.
  intros [Hn Hall]. destruct ws as [|w ws]; [congruence|].
  apply Forall_cons_iff in Hall as [Hw _]. exists w. exact Hw.
Qed.
Lemma gst_feas_ne tol q s : 0 <= tol -> is_feas s = true -> gst tol q s -> ne_tol tol q.
Proof. intros Ht. destruct s; simpl; try discriminate; intros _ H. apply ne_ne_tol; auto. eapply st_wit_ne; eauto. Qed.
Lemma gst_wit tol q s : gst tol q s -> st_wit tol q s.
Proof. destruct s; simpl; auto. Qed.
Lemma in_rows_incl q q' x : (forall r, In r q' -> In r q) -> in_rows q x -> in_rows q' x.
Proof. unfold in_rows. rewrite !Forall_forall. intros Hi H r Hr. apply H. apply Hi. exact Hr. Qed.
Lemma ne_incl q q' : (forall r, In r q' -> In r q) -> ne q -> ne q'.
Proof. intros Hi [x Hx]. exists x. eapply in_rows_incl; eauto. Qed.
Lemma gst_incl_feas tol q q' s : (forall r, In r q' -> In r q) -> is_feas s = true -> gst tol q s -> gst tol q' s.
Proof.
  intros Hi. destruct s; simpl; try discriminate; intros _ H.
  - eapply ne_incl; eauto.
  - eapply (st_wit_incl tol q q' (FeasW ws)); eauto.
Qed.
Lemma gst_cases tol q s : gst tol q s -> (is_infeas s = true /\ ~ ne q) \/ (is_feas s = true /\ is_infeas s = false).
Proof. destruct s; simpl; intros H; try contradiction; auto. Qed.
Lemma ne_cover p q : ne q -> ne (q ++ [row0 p]) \/ ne (q ++ [row1 p]).
Proof. intros [x Hx]. destruct (rows_cover p x q Hx); [left|right]; exists x; auto. Qed.
Lemma ne_nil : ne [].
Proof. exists []. constructor. Qed.

(* ---------- classification under an exact oracle ---------- *)
Lemma phase_two_exact o tol q k s k' : 0 <= tol -> oexact_at o q -> phase_two o tol q k = (s, k') -> gst tol q s.
Proof.
  unfold phase_two. intros Ht Ho H. specialize (Ho (k_lp k)). destruct (o_lp o (k_lp k) q) eqn:E.
  - inversion H; subst. exact Ho.
  - inversion H; subst. exact Ho.
  - rewrite (in_rows_contains tol q w Ht Ho) in H. inversion H; subst. split; [discriminate|].
    constructor; auto. apply in_rows_contains; auto.
  - contradiction.
Qed.
Lemma classify_exact o tol stP qP h k s k' : 0 <= tol -> oexact_at o (qP ++ [h]) -> mir_sound o tol -> st_wit tol qP stP ->
  classify o tol stP (qP ++ [h]) h k = (s, k') -> gst tol (qP ++ [h]) s.
Proof.
  intros Ht Ho Hm HP H. pose proof (classify_wit o tol stP qP h k s k' Hm HP H) as Hw.
  unfold classify in H. destruct stP as [| | |ws]; try (eapply phase_two_exact; eauto; fail).
  destruct (filter (fun w => contains_tol tol [h] w) ws) as [|w0 inh].
  - destruct (o_mir o (k_mir k) (qP ++ [h]) ws).
    + inversion H; subst. exact Hw.
    + eapply phase_two_exact; eauto.
  - inversion H; subst. exact Hw.
Qed.

(* cached states that the input may carry below the root *)
Definition cst (tol : Qc) (q : rows) (s : nstate) : Prop := s = Indet \/ (is_feas s = true /\ gst tol q s).

Lemma visit_exact o tol stP qP h c k s k' fr sk : 0 <= tol -> oexact_at o (qP ++ [h]) -> mir_sound o tol -> st_wit tol qP stP ->
  cst tol (qP ++ [h]) (c_state c) ->
  visit o tol stP (qP ++ [h]) h c k = (s, k', fr, sk) ->
  gst tol (qP ++ [h]) s /\ fr = is_indet (c_state c) /\ sk = is_infeas s /\ (is_infeas s = true -> fr = true).
Proof.
  unfold visit. intros Ht Ho Hm HP Hc H. destruct (c_state c) eqn:Ec.
  - destruct (classify o tol stP (qP ++ [h]) h k) as [s' k''] eqn:Ecl. inversion H; subst.
    repeat split; auto. eapply classify_exact; eauto.
  - destruct Hc as [Hc|[Hc _]]; discriminate.
  - inversion H; subst. destruct Hc as [Hc|[_ Hc]]; [discriminate|]. split; [exact Hc|]. repeat split; auto; try (intros C; discriminate C).
  - inversion H; subst. destruct Hc as [Hc|[_ Hc]]; [discriminate|]. split; [exact Hc|]. repeat split; auto; try (intros C; discriminate C).
Qed.

(* ---------- input and result invariants ---------- *)
Fixpoint okc (tol : Qc) (q : rows) (t : ctree) : Prop :=
  match t with
  | CU => True
  | CN _ leaf p s c0 c1 =>
      cst tol q s /\
      (leaf = false ->
       c_exists c0 = true /\ c_exists c1 = true /\ is_indet (c_state c0) = is_indet (c_state c1) /\
       okc tol (q ++ [row0 p]) c0 /\ okc tol (q ++ [row1 p]) c1)
  end.
Definition okc_kids (tol : Qc) (q : rows) (t : ctree) : Prop :=
  match t with
  | CU => True
  | CN _ leaf p _ c0 c1 =>
      leaf = false ->
      c_exists c0 = true /\ c_exists c1 = true /\ is_indet (c_state c0) = is_indet (c_state c1) /\
      okc tol (q ++ [row0 p]) c0 /\ okc tol (q ++ [row1 p]) c1
  end.
Lemma okc_kids_of tol q t : okc tol q t -> okc_kids tol q t.
Proof. destruct t; simpl; tauto. Qed.
Lemma okc_state tol q t : c_exists t = true -> okc tol q t -> cst tol q (c_state t).
Proof. destruct t; simpl; [discriminate|tauto]. Qed.

(* a node below the root in the result: determined feasible state, non-empty region, both branches *)
Fixpoint eff (tol : Qc) (q : rows) (t : ctree) : Prop :=
  match t with
  | CU => True
  | CN _ leaf p s c0 c1 =>
      is_feas s = true /\ gst tol q s /\
      (leaf = false ->
       c_exists c0 = true /\ c_exists c1 = true /\ eff tol (q ++ [row0 p]) c0 /\ eff tol (q ++ [row1 p]) c1)
  end.
(* the root: its own state is not consulted; it may be left with a single branch *)
Definition eff_root (tol : Qc) (q : rows) (t : ctree) : Prop :=
  match t with
  | CU => True
  | CN _ leaf p _ c0 c1 =>
      leaf = false ->
      (c_exists c0 = true \/ c_exists c1 = true) /\ eff tol (q ++ [row0 p]) c0 /\ eff tol (q ++ [row1 p]) c1
  end.

Lemma eff_incl tol : forall t q q', (forall r, In r q' -> In r q) -> eff tol q t -> eff tol q' t.
Proof.
  induction t as [|i leaf p s c0 IH0 c1 IH1]; intros q q' Hi H; [exact I|].
  destruct H as [Hf [Hg Hk]]. split; [exact Hf|]. split; [eapply gst_incl_feas; eauto|].
  intros Hl. destruct (Hk Hl) as [E0 [E1 [H0 H1]]]. repeat split; auto.
  - eapply IH0; [|exact H0]. apply incl_app_r; auto.
  - eapply IH1; [|exact H1]. apply incl_app_r; auto.
Qed.
Lemma eff_state tol q t : c_exists t = true -> eff tol q t -> is_feas (c_state t) = true.
Proof. destruct t; simpl; [discriminate|tauto]. Qed.

Definition res_ok (tol : Qc) (isroot : bool) (q : rows) (r : ctree) : Prop := if isroot then eff_root tol q r else eff tol q r.

(* ---------- effectiveness ---------- *)
(* what is known about the region of the node whose children are being classified: non-empty exactly, or it carries
   witnesses within the tolerance *)
Definition par_ok (tol : Qc) (q : rows) (st : nstate) : Prop :=
  ne q \/ (exists ws, st = FeasW ws /\ st_wit tol q st).
Lemma par_ok_of_gst tol q s : is_feas s = true -> gst tol q s -> par_ok tol q s.
Proof. destruct s; simpl; try discriminate; intros _ H; [left; exact H | right; eauto]. Qed.
(* a point satisfies one of the two closed half-spaces of a decision, a fortiori within a tolerance *)
Lemma halfspace_dichotomy tol p w : 0 <= tol ->
  contains_tol tol [row0 p] w = true \/ contains_tol tol [row1 p] w = true.
Proof.
  intros Ht. unfold contains_tol, row0, row1. cbn [forallb fst snd]. rewrite !andb_true_r.
  destruct (qleb (dot (fst (prow p)) w) (snd (prow p))) eqn:E.
  - right. apply qleb_spec in E. apply qleb_spec. qlra.
  - left. apply qleb_false in E. apply qleb_spec. rewrite dot_vopp. qlra.
Qed.
(* a child for which the parent holds a witness inside its half-space is never classified infeasible *)
Lemma visit_inherits o tol ws q h c k s k' fr sk w : cst tol q (c_state c) ->
  visit o tol (FeasW ws) q h c k = (s, k', fr, sk) -> In w ws -> contains_tol tol [h] w = true -> is_infeas s = false.
Proof.
  unfold visit. intros Hc H Hw Hcw. destruct (c_state c) eqn:Ec.
  - unfold classify in H.
    destruct (filter (fun w0 => contains_tol tol [h] w0) ws) as [|w0 inh] eqn:Ef.
    + exfalso. assert (Hin : In w (filter (fun w0 => contains_tol tol [h] w0) ws)) by (apply filter_In; auto).
      rewrite Ef in Hin. exact Hin.
    + inversion H; subst. reflexivity.
  - destruct Hc as [Hc|[Hc _]]; discriminate.
  - inversion H; subst; reflexivity.
  - inversion H; subst; reflexivity.
Qed.

Theorem elim_sub_eff o tol : 0 <= tol -> mir_sound o tol ->
  forall t isroot q st k, (forall r, is_path q t r -> oexact_at o r) ->
  c_exists t = true -> okc_kids tol q t -> par_ok tol q st -> st_wit tol q st ->
  (isroot = false -> is_feas st = true /\ gst tol q st) ->
  res_ok tol isroot q (fst (elim_sub o tol isroot q st t k)).
Proof.
  intros Ht Hm. induction t as [|i leaf p s' c0 IH0 c1 IH1]; intros isroot q st k Ho He Hk Hpar Hw Hst; [discriminate|].
  destruct leaf.
  { cbn [elim_sub fst]. destruct isroot; unfold res_ok; cbn [eff_root eff]; [discriminate|].
    destruct (Hst eq_refl) as [H1 H2]. split; [exact H1|]. split; [exact H2|]. intros C; discriminate C. }
  destruct (Hk eq_refl) as [Ex0 [Ex1 [Huni [Hk0 Hk1]]]].
  assert (Iq0 : forall r : vec * Qc, In r q -> In r (q ++ [row0 p])) by (intros r Hr; apply in_or_app; left; auto).
  assert (Iq1 : forall r : vec * Qc, In r q -> In r (q ++ [row1 p])) by (intros r Hr; apply in_or_app; left; auto).
  (* the step at a child that exists *)
  assert (STEP : forall c h kk, oexact_at o (q ++ [h]) -> c_exists c = true -> okc tol (q ++ [h]) c ->
            (forall st' k', is_feas st' = true -> gst tol (q ++ [h]) st' ->
                eff tol (q ++ [h]) (fst (elim_sub o tol false (q ++ [h]) st' c k'))) ->
            forall s k1 fr sk, visit o tol st (q ++ [h]) h c kk = (s, k1, fr, sk) ->
            fr = is_indet (c_state c) /\ sk = is_infeas s /\
            (forall ws w, st = FeasW ws -> In w ws -> contains_tol tol [h] w = true -> is_infeas s = false) /\
            ((is_infeas s = true /\ ~ ne (q ++ [h]) /\ fr = true) \/
             (is_infeas s = false /\ is_feas s = true /\ gst tol (q ++ [h]) s /\
              forall k', eff tol (q ++ [h]) (fst (elim_sub o tol false (q ++ [h]) s c k'))))).
  { intros c h kk Hoc Hex Hok IH s k1 fr sk Ev.
    destruct (visit_exact o tol st q h c kk s k1 fr sk Ht Hoc Hm Hw (okc_state _ _ _ Hex Hok) Ev) as [Hg [Hfr [Hsk Hif]]].
    split; [exact Hfr|]. split; [exact Hsk|]. split.
    { intros ws w E Hin Hcw. subst st. eapply visit_inherits; eauto. eapply okc_state; eauto. }
    destruct (gst_cases _ _ _ Hg) as [[Hi Hn]|[Hf Hi]].
    - left. repeat split; auto.
    - right. repeat split; auto. }
  (* the two branches are never both infeasible *)
  assert (NOTBOTH : forall s0 s1,
            (is_infeas s0 = true -> ~ ne (q ++ [row0 p])) -> (is_infeas s1 = true -> ~ ne (q ++ [row1 p])) ->
            (forall ws w, st = FeasW ws -> In w ws -> contains_tol tol [row0 p] w = true -> is_infeas s0 = false) ->
            (forall ws w, st = FeasW ws -> In w ws -> contains_tol tol [row1 p] w = true -> is_infeas s1 = false) ->
            is_infeas s0 = true -> is_infeas s1 = true -> False).
  { intros s0 s1 E0 E1 N0 N1 I0 I1. destruct Hpar as [Hne|[ws [Est Hws]]].
    - destruct (ne_cover p q Hne) as [C|C]; [exact (E0 I0 C) | exact (E1 I1 C)].
    - subst st. destruct Hws as [Hnn Hall]. destruct ws as [|w ws]; [congruence|].
      destruct (halfspace_dichotomy tol p w Ht) as [C|C].
      + rewrite (N0 (w :: ws) w eq_refl (or_introl eq_refl) C) in I0. discriminate.
      + rewrite (N1 (w :: ws) w eq_refl (or_introl eq_refl) C) in I1. discriminate. }
  rewrite elim_sub_unfold. cbv zeta.
  destruct c0 as [|i0 l0 p0 s0' c00 c01]; [discriminate|].
  destruct c1 as [|i1 l1 p1 s1' c10 c11]; [discriminate|].
  set (C0 := CN i0 l0 p0 s0' c00 c01) in *. set (C1 := CN i1 l1 p1 s1' c10 c11) in *.
  assert (IHC0 : forall st' k', is_feas st' = true -> gst tol (q ++ [row0 p]) st' ->
             eff tol (q ++ [row0 p]) (fst (elim_sub o tol false (q ++ [row0 p]) st' C0 k'))).
  { intros st' k' Hf Hg. apply (IH0 false (q ++ [row0 p]) st' k'); auto.
    - intros r Hr. apply Ho. right. left. exact Hr.
    - apply okc_kids_of; auto.
    - apply par_ok_of_gst; auto.
    - apply gst_wit; auto. }
  assert (IHC1 : forall st' k', is_feas st' = true -> gst tol (q ++ [row1 p]) st' ->
             eff tol (q ++ [row1 p]) (fst (elim_sub o tol false (q ++ [row1 p]) st' C1 k'))).
  { intros st' k' Hf Hg. apply (IH1 false (q ++ [row1 p]) st' k'); auto.
    - intros r Hr. apply Ho. right. right. exact Hr.
    - apply okc_kids_of; auto.
    - apply par_ok_of_gst; auto.
    - apply gst_wit; auto. }
  assert (Ho0 : oexact_at o (q ++ [row0 p])) by (apply Ho; right; left; left; reflexivity).
  assert (Ho1 : oexact_at o (q ++ [row1 p])) by (apply Ho; right; right; left; reflexivity).
  unfold do_child0. fold C0.
  change (match C0 with CU => (CU, k, false) | CN _ _ _ _ _ _ =>
            let '(s0, k1, fr0, skip0) := visit o tol st (q ++ [row0 p]) (row0 p) C0 k in
            if skip0 then (set_st s0 C0, k1, fr0)
            else let '(r0, k2) := elim_sub o tol false (q ++ [row0 p]) s0 C0 k1 in (r0, k2, fr0) end)
    with (let '(s0, k1, fr0, skip0) := visit o tol st (q ++ [row0 p]) (row0 p) C0 k in
          if skip0 then (set_st s0 C0, k1, fr0)
          else let '(r0, k2) := elim_sub o tol false (q ++ [row0 p]) s0 C0 k1 in (r0, k2, fr0)).
  destruct (visit o tol st (q ++ [row0 p]) (row0 p) C0 k) as [[[s0 k1] fr0] skip0] eqn:Ev0.
  destruct (STEP C0 (row0 p) k Ho0 eq_refl Hk0 IHC0 s0 k1 fr0 skip0 Ev0) as [Hfr0 [Hsk0 [N0 Hc0]]].
  destruct Hc0 as [[Hi0 [Hn0 Hfresh0]]|[Hi0 [Hf0 [Hg0 He0]]]].
  - (* branch 0 infeasible: branch 1 cannot be *)
    rewrite Hi0 in Hsk0. subst skip0.
    change (c_state (set_st s0 C0)) with s0. change (c_exists (set_st s0 C0)) with true.
    destruct (visit o tol st (q ++ [row1 p]) (row1 p) C1 k1) as [[[s1 k3] fr1] skip1] eqn:Ev1.
    destruct (STEP C1 (row1 p) k1 Ho1 eq_refl Hk1 IHC1 s1 k3 fr1 skip1 Ev1) as [Hfr1 [Hsk1 [N1 Hc1]]].
    destruct Hc1 as [[Hi1 [Hn1 _]]|[Hi1 [Hf1 [Hg1 He1]]]].
    { exfalso. apply (NOTBOTH s0 s1); auto. }
    assert (Efr1 : fr1 = true).
    { rewrite Hfr1. rewrite <- Huni. rewrite <- Hfr0. exact Hfresh0. }
    rewrite Efr1, Hi0, Hi1, Hf1. rewrite (proj1 (is_infeas_eq s0) Hi0). cbn [is_feas andb orb].
    specialize (He1 k3). destruct (elim_sub o tol false (q ++ [row1 p]) s1 C1 k3) as [r1 k4] eqn:Er1.
    cbn [fst] in He1.
    assert (Xr1 : c_exists r1 = true).
    { pose proof (elim_sub_exists o tol C1 false (q ++ [row1 p]) s1 k3 eq_refl) as X. rewrite Er1 in X. exact X. }
    destruct isroot; cbn [fst]; unfold res_ok.
    + intros _. repeat split; auto.
    + exact (eff_incl tol r1 (q ++ [row1 p]) q Iq1 He1).
  - (* branch 0 feasible *)
    rewrite Hi0 in Hsk0. subst skip0.
    specialize (He0 k1). destruct (elim_sub o tol false (q ++ [row0 p]) s0 C0 k1) as [sub0 k2] eqn:Er0.
    cbn [fst] in He0.
    assert (X0 : c_exists sub0 = true).
    { pose proof (elim_sub_exists o tol C0 false (q ++ [row0 p]) s0 k1 eq_refl) as X. rewrite Er0 in X. exact X. }
    pose proof (eff_state _ _ _ X0 He0) as Fs0.
    destruct (visit o tol st (q ++ [row1 p]) (row1 p) C1 k2) as [[[s1 k3] fr1] skip1] eqn:Ev1.
    destruct (STEP C1 (row1 p) k2 Ho1 eq_refl Hk1 IHC1 s1 k3 fr1 skip1 Ev1) as [Hfr1 [Hsk1 [N1 Hc1]]].
    destruct Hc1 as [[Hi1 [Hn1 Hfresh1]]|[Hi1 [Hf1 [Hg1 He1]]]].
    + (* branch 1 infeasible: forward branch 0 *)
      rewrite Hfresh1, X0, Fs0, Hi1. rewrite (proj1 (is_infeas_eq s1) Hi1). cbn [is_feas andb orb].
      destruct isroot; cbn [fst]; unfold res_ok.
      * intros _. repeat split; auto.
      * exact (eff_incl tol sub0 (q ++ [row0 p]) q Iq0 He0).
    + (* both feasible: nothing is removed *)
      rewrite Hi1 in Hsk1. subst skip1.
      rewrite Hi1, (feas_not_infeas _ Fs0). rewrite !andb_false_r. cbn [orb andb].
      specialize (He1 k3). destruct (elim_sub o tol false (q ++ [row1 p]) s1 C1 k3) as [sub1 k4] eqn:Er1.
      cbn [fst] in He1.
      assert (X1 : c_exists sub1 = true).
      { pose proof (elim_sub_exists o tol C1 false (q ++ [row1 p]) s1 k3 eq_refl) as X. rewrite Er1 in X. exact X. }
      rewrite ?andb_false_r. cbn [fst].
      destruct isroot; unfold res_ok.
      * intros _. repeat split; auto.
      * destruct (Hst eq_refl) as [H1 H2]. repeat split; auto.
Qed.

Theorem elim_eff o tol t : 0 <= tol -> (forall r, is_path [] t r -> oexact_at o r) -> mir_sound o tol ->
  c_exists t = true -> okc_kids tol [] t -> st_wit tol [] (c_state t) ->
  eff_root tol [] (fst (elim o tol t)).
Proof.
  intros Ht Ho Hm He Hk Hw. unfold elim.
  apply (elim_sub_eff o tol Ht Hm t true [] (c_state t) k0); auto.
  - left. apply ne_nil.
  - discriminate.
Qed.

(* ---------- idempotence: a tree whose nodes below the root are all determined feasible is a fixed point ---------- *)
Fixpoint settled (t : ctree) : Prop :=
  match t with
  | CU => True
  | CN _ leaf _ s c0 c1 => is_feas s = true /\ (leaf = false -> settled c0 /\ settled c1)
  end.
Definition settled_kids (t : ctree) : Prop :=
  match t with CU => True | CN _ leaf _ _ c0 c1 => leaf = false -> settled c0 /\ settled c1 end.
Lemma settled_kids_of t : settled t -> settled_kids t.
Proof. destruct t; simpl; tauto. Qed.
Lemma visit_feas o tol stP q h c k : is_feas (c_state c) = true ->
  visit o tol stP q h c k = (c_state c, k, false, false).
Proof. unfold visit. destruct (c_state c); simpl; try discriminate; reflexivity. Qed.
Lemma set_st_id t : set_st (c_state t) t = t.
Proof. destruct t; reflexivity. Qed.

Theorem elim_sub_fixed o tol : forall t isroot q st k, settled_kids t ->
  elim_sub o tol isroot q st t k = (set_st st t, k).
Proof.
  induction t as [|i leaf p s' c0 IH0 c1 IH1]; intros isroot q st k Hs; [reflexivity|].
  destruct leaf; [reflexivity|]. destruct (Hs eq_refl) as [Hs0 Hs1].
  rewrite elim_sub_unfold. cbv zeta.
  assert (E0 : do_child0 o tol st (q ++ [row0 p]) (row0 p) c0 k = (c0, k, false)).
  { unfold do_child0. destruct c0 as [|i0 l0 p0 s0 c00 c01]; [reflexivity|].
    destruct Hs0 as [Hf0 Hk0].
    rewrite (visit_feas o tol st (q ++ [row0 p]) (row0 p) (CN i0 l0 p0 s0 c00 c01) k Hf0).
    rewrite IH0 by exact Hk0. reflexivity. }
  rewrite E0. destruct c1 as [|i1 l1 p1 s1 c10 c11]; [reflexivity|].
  destruct Hs1 as [Hf1 Hk1].
  rewrite (visit_feas o tol st (q ++ [row1 p]) (row1 p) (CN i1 l1 p1 s1 c10 c11) k Hf1). cbn [andb].
  rewrite IH1 by exact Hk1. reflexivity.
Qed.

Lemma eff_settled tol : forall t q, eff tol q t -> settled t.
Proof.
  induction t as [|i leaf p s c0 IH0 c1 IH1]; intros q H; [exact I|].
  destruct H as [Hf [_ Hk]]. split; [exact Hf|]. intros Hl. destruct (Hk Hl) as [_ [_ [H0 H1]]].
  split; [eapply IH0 | eapply IH1]; eauto.
Qed.
Lemma eff_root_settled tol t q : eff_root tol q t -> settled_kids t.
Proof.
  destruct t as [|i leaf p s c0 c1]; [intros _; exact I|]. intros H Hl. destruct (H Hl) as [_ [H0 H1]].
  split; eapply eff_settled; eauto.
Qed.

(* a second run, with any oracle and any tolerance, changes nothing and solves no LP *)
Theorem elim_idem o tol o' tol' t : eff_root tol [] (fst (elim o tol t)) ->
  elim o' tol' (fst (elim o tol t)) = (fst (elim o tol t), k0).
Proof.
  intros H. unfold elim at 1. rewrite elim_sub_fixed by (eapply eff_root_settled; eauto).
  rewrite set_st_id. reflexivity.
Qed.

(* what eff tol says, unfolded one level *)
Lemma eff_content tol q i leaf p s c0 c1 : 0 <= tol -> eff tol q (CN i leaf p s c0 c1) ->
  ne_tol tol q /\ is_feas s = true /\ (leaf = false -> c_exists c0 = true /\ c_exists c1 = true).
Proof.
  intros Ht [Hf [Hg Hk]]. split; [eapply gst_feas_ne; eauto|]. split; [exact Hf|].
  intros Hl. destruct (Hk Hl) as [H0 [H1 _]]. auto.
Qed.

(* Pwl/ElimEff.v -- infeasible_elimination is effective and idempotent (C06), in the exact-arithmetic
   idealisation: containment tolerance 0 and an LP oracle that is exact on the queries it is asked
   (Infeasible <-> empty, Unbounded / Optimal w only for non-empty polytopes with w inside, never Error).

   Input: a tree whose decisions all have both branches and whose cached states below the root are either all
   still Indeterminate or sound feasible ones, uniformly per sibling pair (that is what a fresh tree, the result
   of an earlier run, and a composition of such results look like).  Then in the result
     * every node below the root has a determined feasible state and a non-empty closed path polytope,
     * every decision below the root still has both branches (a decision with one infeasible branch was replaced
       by the other branch; at the root the infeasible branch is removed instead),
     * a second run -- with ANY oracle -- returns the same tree and asks no LP.
   The gap between this idealisation and the code's tolerance 1e-8 / minilp's 1e-8 is what the per-instance
   certified checks of the runner (regions relaxed by tau) cover. *)
From AT Require Import Num Vec Aff PTree Cells Abs Cache Elim ElimEval ElimCache.

Definition ne (q : rows) : Prop := exists x, in_rows q x.

Definition oexact_at (o : oracle) (q : rows) : Prop :=
  forall k, match o_lp o k q with
            | LInf => ~ ne q
            | LUnb => ne q
            | LOpt w => in_rows q w
            | LErr => False
            end.
Definition oexact (o : oracle) : Prop := forall q, oexact_at o q.
(* the closed path polytopes of the nodes of t (prefix q): the only polytopes elimination ever asks about *)
Fixpoint is_path (q : rows) (t : ctree) (r : rows) : Prop :=
  match t with
  | CU => False
  | CN _ _ p _ c0 c1 => r = q \/ is_path (q ++ [row0 p]) c0 r \/ is_path (q ++ [row1 p]) c1 r
  end.
Lemma is_path_self q t : c_exists t = true -> is_path q t q.
Proof. destruct t; simpl; [discriminate|auto]. Qed.

Lemma contains0 q w : contains_tol 0 q w = true <-> in_rows q w.
Proof.
  unfold contains_tol, in_rows. rewrite forallb_forall, Forall_forall.
  split; intros H rb Hrb; specialize (H rb Hrb).
  - apply qleb_spec in H. qlra.
  - apply qleb_spec. qlra.
Qed.

(* what a determined state claims, exactly *)
Definition gst (q : rows) (s : nstate) : Prop :=
  match s with
  | Indet => False
  | Infeas => ~ ne q
  | Feas => ne q
  | FeasW ws => st_wit 0 q (FeasW ws)
  end.
Lemma st_wit_ne q ws : st_wit 0 q (FeasW ws) -> ne q.
Proof.
  intros [Hn Hall]. destruct ws as [|w ws]; [congruence|].
  apply Forall_cons_iff in Hall as [Hw _]. exists w. apply contains0. exact Hw.
Qed.
Lemma gst_feas_ne q s : is_feas s = true -> gst q s -> ne q.
Proof. destruct s; simpl; try discriminate; auto. intros _. apply st_wit_ne. Qed.
Lemma gst_wit q s : gst q s -> st_wit 0 q s.
Proof. destruct s; simpl; auto. Qed.
Lemma in_rows_incl q q' x : (forall r, In r q' -> In r q) -> in_rows q x -> in_rows q' x.
Proof. unfold in_rows. rewrite !Forall_forall. intros Hi H r Hr. apply H. apply Hi. exact Hr. Qed.
Lemma ne_incl q q' : (forall r, In r q' -> In r q) -> ne q -> ne q'.
Proof. intros Hi [x Hx]. exists x. eapply in_rows_incl; eauto. Qed.
Lemma gst_incl_feas q q' s : (forall r, In r q' -> In r q) -> is_feas s = true -> gst q s -> gst q' s.
Proof.
  intros Hi. destruct s; simpl; try discriminate; intros _ H.
  - eapply ne_incl; eauto.
  - eapply (st_wit_incl 0 q q' (FeasW ws)); eauto.
Qed.
Lemma gst_cases q s : gst q s -> (is_infeas s = true /\ ~ ne q) \/ (is_feas s = true /\ is_infeas s = false).
Proof. destruct s; simpl; intros H; try contradiction; auto. Qed.
Lemma ne_cover p q : ne q -> ne (q ++ [row0 p]) \/ ne (q ++ [row1 p]).
Proof. intros [x Hx]. destruct (rows_cover p x q Hx); [left|right]; exists x; auto. Qed.
Lemma ne_nil : ne [].
Proof. exists []. constructor. Qed.

(* ---------- classification under an exact oracle ---------- *)
Lemma phase_two_exact o q k s k' : oexact_at o q -> phase_two o 0 q k = (s, k') -> gst q s.
Proof.
  unfold phase_two. intros Ho H. specialize (Ho (k_lp k)). destruct (o_lp o (k_lp k) q) eqn:E.
  - inversion H; subst. exact Ho.
  - inversion H; subst. exact Ho.
  - rewrite (proj2 (contains0 q w) Ho) in H. inversion H; subst. split; [discriminate|].
    constructor; auto. apply contains0; auto.
  - contradiction.
Qed.
Lemma classify_exact o stP qP h k s k' : oexact_at o (qP ++ [h]) -> mir_sound o 0 -> st_wit 0 qP stP ->
  classify o 0 stP (qP ++ [h]) h k = (s, k') -> gst (qP ++ [h]) s.
Proof.
  intros Ho Hm HP H. pose proof (classify_wit o 0 stP qP h k s k' Hm HP H) as Hw.
  unfold classify in H. destruct stP as [| | |ws]; try (eapply phase_two_exact; eauto; fail).
  destruct (filter (fun w => contains_tol 0 [h] w) ws) as [|w0 inh].
  - destruct (o_mir o (k_mir k) (qP ++ [h]) ws).
    + inversion H; subst. exact Hw.
    + eapply phase_two_exact; eauto.
  - inversion H; subst. exact Hw.
Qed.

(* cached states that the input may carry below the root *)
Definition cst (q : rows) (s : nstate) : Prop := s = Indet \/ (is_feas s = true /\ gst q s).

Lemma visit_exact o stP qP h c k s k' fr sk : oexact_at o (qP ++ [h]) -> mir_sound o 0 -> st_wit 0 qP stP ->
  cst (qP ++ [h]) (c_state c) ->
  visit o 0 stP (qP ++ [h]) h c k = (s, k', fr, sk) ->
  gst (qP ++ [h]) s /\ fr = is_indet (c_state c) /\ sk = is_infeas s /\ (is_infeas s = true -> fr = true).
Proof.
  unfold visit. intros Ho Hm HP Hc H. destruct (c_state c) eqn:Ec.
  - destruct (classify o 0 stP (qP ++ [h]) h k) as [s' k''] eqn:Ecl. inversion H; subst.
    repeat split; auto. eapply classify_exact; eauto.
  - destruct Hc as [Hc|[Hc _]]; discriminate.
  - inversion H; subst. destruct Hc as [Hc|[_ Hc]]; [discriminate|]. split; [exact Hc|]. repeat split; auto; try (intros C; discriminate C).
  - inversion H; subst. destruct Hc as [Hc|[_ Hc]]; [discriminate|]. split; [exact Hc|]. repeat split; auto; try (intros C; discriminate C).
Qed.

(* ---------- input and result invariants ---------- *)
Fixpoint okc (q : rows) (t : ctree) : Prop :=
  match t with
  | CU => True
  | CN _ leaf p s c0 c1 =>
      cst q s /\
      (leaf = false ->
       c_exists c0 = true /\ c_exists c1 = true /\ is_indet (c_state c0) = is_indet (c_state c1) /\
       okc (q ++ [row0 p]) c0 /\ okc (q ++ [row1 p]) c1)
  end.
Definition okc_kids (q : rows) (t : ctree) : Prop :=
  match t with
  | CU => True
  | CN _ leaf p _ c0 c1 =>
      leaf = false ->
      c_exists c0 = true /\ c_exists c1 = true /\ is_indet (c_state c0) = is_indet (c_state c1) /\
      okc (q ++ [row0 p]) c0 /\ okc (q ++ [row1 p]) c1
  end.
Lemma okc_kids_of q t : okc q t -> okc_kids q t.
Proof. destruct t; simpl; tauto. Qed.
Lemma okc_state q t : c_exists t = true -> okc q t -> cst q (c_state t).
Proof. destruct t; simpl; [discriminate|tauto]. Qed.

(* a node below the root in the result: determined feasible state, non-empty region, both branches *)
Fixpoint eff (q : rows) (t : ctree) : Prop :=
  match t with
  | CU => True
  | CN _ leaf p s c0 c1 =>
      is_feas s = true /\ gst q s /\
      (leaf = false ->
       c_exists c0 = true /\ c_exists c1 = true /\ eff (q ++ [row0 p]) c0 /\ eff (q ++ [row1 p]) c1)
  end.
(* the root: its own state is not consulted; it may be left with a single branch *)
Definition eff_root (q : rows) (t : ctree) : Prop :=
  match t with
  | CU => True
  | CN _ leaf p _ c0 c1 =>
      leaf = false ->
      (c_exists c0 = true \/ c_exists c1 = true) /\ eff (q ++ [row0 p]) c0 /\ eff (q ++ [row1 p]) c1
  end.

Lemma eff_incl : forall t q q', (forall r, In r q' -> In r q) -> eff q t -> eff q' t.
Proof.
  induction t as [|i leaf p s c0 IH0 c1 IH1]; intros q q' Hi H; [exact I|].
  destruct H as [Hf [Hg Hk]]. split; [exact Hf|]. split; [eapply gst_incl_feas; eauto|].
  intros Hl. destruct (Hk Hl) as [E0 [E1 [H0 H1]]]. repeat split; auto.
  - eapply IH0; [|exact H0]. apply incl_app_r; auto.
  - eapply IH1; [|exact H1]. apply incl_app_r; auto.
Qed.
Lemma eff_state q t : c_exists t = true -> eff q t -> is_feas (c_state t) = true.
Proof. destruct t; simpl; [discriminate|tauto]. Qed.

Definition res_ok (isroot : bool) (q : rows) (r : ctree) : Prop := if isroot then eff_root q r else eff q r.

(* ---------- effectiveness ---------- *)
Theorem elim_sub_eff o : mir_sound o 0 ->
  forall t isroot q st k, (forall r, is_path q t r -> oexact_at o r) ->
  c_exists t = true -> okc_kids q t -> ne q -> st_wit 0 q st ->
  (isroot = false -> is_feas st = true /\ gst q st) ->
  res_ok isroot q (fst (elim_sub o 0 isroot q st t k)).
Proof.
  intros Hm. induction t as [|i leaf p s' c0 IH0 c1 IH1]; intros isroot q st k Ho He Hk Hne Hw Hst; [discriminate|].
  destruct leaf.
  { cbn [elim_sub fst]. destruct isroot; unfold res_ok; cbn [eff_root eff]; [discriminate|].
    destruct (Hst eq_refl) as [H1 H2]. split; [exact H1|]. split; [exact H2|]. intros C; discriminate C. }
  destruct (Hk eq_refl) as [Ex0 [Ex1 [Huni [Hk0 Hk1]]]].
  assert (Iq0 : forall r : vec * Qc, In r q -> In r (q ++ [row0 p])) by (intros r Hr; apply in_or_app; left; auto).
  assert (Iq1 : forall r : vec * Qc, In r q -> In r (q ++ [row1 p])) by (intros r Hr; apply in_or_app; left; auto).
  (* the step at a child that exists *)
  assert (STEP : forall c h kk, oexact_at o (q ++ [h]) -> c_exists c = true -> okc (q ++ [h]) c ->
            (forall st' k', is_feas st' = true -> gst (q ++ [h]) st' ->
                eff (q ++ [h]) (fst (elim_sub o 0 false (q ++ [h]) st' c k'))) ->
            forall s k1 fr sk, visit o 0 st (q ++ [h]) h c kk = (s, k1, fr, sk) ->
            fr = is_indet (c_state c) /\ sk = is_infeas s /\
            ((is_infeas s = true /\ ~ ne (q ++ [h]) /\ fr = true) \/
             (is_infeas s = false /\ is_feas s = true /\ gst (q ++ [h]) s /\
              forall k', eff (q ++ [h]) (fst (elim_sub o 0 false (q ++ [h]) s c k'))))).
  { intros c h kk Hoc Hex Hok IH s k1 fr sk Ev.
    destruct (visit_exact o st q h c kk s k1 fr sk Hoc Hm Hw (okc_state _ _ Hex Hok) Ev) as [Hg [Hfr [Hsk Hif]]].
    split; [exact Hfr|]. split; [exact Hsk|].
    destruct (gst_cases _ _ Hg) as [[Hi Hn]|[Hf Hi]].
    - left. repeat split; auto.
    - right. repeat split; auto. }
  rewrite elim_sub_unfold. cbv zeta.
  destruct c0 as [|i0 l0 p0 s0' c00 c01]; [discriminate|].
  destruct c1 as [|i1 l1 p1 s1' c10 c11]; [discriminate|].
  set (C0 := CN i0 l0 p0 s0' c00 c01) in *. set (C1 := CN i1 l1 p1 s1' c10 c11) in *.
  assert (IHC0 : forall st' k', is_feas st' = true -> gst (q ++ [row0 p]) st' ->
             eff (q ++ [row0 p]) (fst (elim_sub o 0 false (q ++ [row0 p]) st' C0 k'))).
  { intros st' k' Hf Hg. apply (IH0 false (q ++ [row0 p]) st' k'); auto.
    - intros r Hr. apply Ho. right. left. exact Hr.
    - apply okc_kids_of; auto.
    - eapply gst_feas_ne; eauto.
    - apply gst_wit; auto. }
  assert (IHC1 : forall st' k', is_feas st' = true -> gst (q ++ [row1 p]) st' ->
             eff (q ++ [row1 p]) (fst (elim_sub o 0 false (q ++ [row1 p]) st' C1 k'))).
  { intros st' k' Hf Hg. apply (IH1 false (q ++ [row1 p]) st' k'); auto.
    - intros r Hr. apply Ho. right. right. exact Hr.
    - apply okc_kids_of; auto.
    - eapply gst_feas_ne; eauto.
    - apply gst_wit; auto. }
  assert (Ho0 : oexact_at o (q ++ [row0 p])) by (apply Ho; right; left; left; reflexivity).
  assert (Ho1 : oexact_at o (q ++ [row1 p])) by (apply Ho; right; right; left; reflexivity).
  unfold do_child0. fold C0.
  change (match C0 with CU => (CU, k, false) | CN _ _ _ _ _ _ =>
            let '(s0, k1, fr0, skip0) := visit o 0 st (q ++ [row0 p]) (row0 p) C0 k in
            if skip0 then (set_st s0 C0, k1, fr0)
            else let '(r0, k2) := elim_sub o 0 false (q ++ [row0 p]) s0 C0 k1 in (r0, k2, fr0) end)
    with (let '(s0, k1, fr0, skip0) := visit o 0 st (q ++ [row0 p]) (row0 p) C0 k in
          if skip0 then (set_st s0 C0, k1, fr0)
          else let '(r0, k2) := elim_sub o 0 false (q ++ [row0 p]) s0 C0 k1 in (r0, k2, fr0)).
  destruct (visit o 0 st (q ++ [row0 p]) (row0 p) C0 k) as [[[s0 k1] fr0] skip0] eqn:Ev0.
  destruct (STEP C0 (row0 p) k Ho0 eq_refl Hk0 IHC0 s0 k1 fr0 skip0 Ev0) as [Hfr0 [Hsk0 Hc0]].
  destruct Hc0 as [[Hi0 [Hn0 Hfresh0]]|[Hi0 [Hf0 [Hg0 He0]]]].
  - (* branch 0 infeasible: branch 1 must be non-empty *)
    rewrite Hi0 in Hsk0. subst skip0.
    change (c_state (set_st s0 C0)) with s0. change (c_exists (set_st s0 C0)) with true.
    destruct (visit o 0 st (q ++ [row1 p]) (row1 p) C1 k1) as [[[s1 k3] fr1] skip1] eqn:Ev1.
    destruct (STEP C1 (row1 p) k1 Ho1 eq_refl Hk1 IHC1 s1 k3 fr1 skip1 Ev1) as [Hfr1 [Hsk1 Hc1]].
    destruct Hc1 as [[Hi1 [Hn1 _]]|[Hi1 [Hf1 [Hg1 He1]]]].
    { exfalso. destruct (ne_cover p q Hne); auto. }
    assert (Efr1 : fr1 = true).
    { rewrite Hfr1. rewrite <- Huni. rewrite <- Hfr0. exact Hfresh0. }
    rewrite Efr1, Hi0, Hi1, Hf1. rewrite (proj1 (is_infeas_eq s0) Hi0). cbn [is_feas andb orb].
    specialize (He1 k3). destruct (elim_sub o 0 false (q ++ [row1 p]) s1 C1 k3) as [r1 k4] eqn:Er1.
    cbn [fst] in He1.
    assert (Xr1 : c_exists r1 = true).
    { pose proof (elim_sub_exists o 0 C1 false (q ++ [row1 p]) s1 k3 eq_refl) as X. rewrite Er1 in X. exact X. }
    destruct isroot; cbn [fst]; unfold res_ok.
    + intros _. repeat split; auto.
    + exact (eff_incl r1 (q ++ [row1 p]) q Iq1 He1).
  - (* branch 0 feasible *)
    rewrite Hi0 in Hsk0. subst skip0.
    specialize (He0 k1). destruct (elim_sub o 0 false (q ++ [row0 p]) s0 C0 k1) as [sub0 k2] eqn:Er0.
    cbn [fst] in He0.
    assert (X0 : c_exists sub0 = true).
    { pose proof (elim_sub_exists o 0 C0 false (q ++ [row0 p]) s0 k1 eq_refl) as X. rewrite Er0 in X. exact X. }
    pose proof (eff_state _ _ X0 He0) as Fs0.
    destruct (visit o 0 st (q ++ [row1 p]) (row1 p) C1 k2) as [[[s1 k3] fr1] skip1] eqn:Ev1.
    destruct (STEP C1 (row1 p) k2 Ho1 eq_refl Hk1 IHC1 s1 k3 fr1 skip1 Ev1) as [Hfr1 [Hsk1 Hc1]].
    destruct Hc1 as [[Hi1 [Hn1 Hfresh1]]|[Hi1 [Hf1 [Hg1 He1]]]].
    + (* branch 1 infeasible: forward branch 0 *)
      rewrite Hfresh1, X0, Fs0, Hi1. rewrite (proj1 (is_infeas_eq s1) Hi1). cbn [is_feas andb orb].
      destruct isroot; cbn [fst]; unfold res_ok.
      * intros _. repeat split; auto.
      * exact (eff_incl sub0 (q ++ [row0 p]) q Iq0 He0).
    + (* both feasible: nothing is removed *)
      rewrite Hi1 in Hsk1. subst skip1.
      rewrite Hi1, (feas_not_infeas _ Fs0). rewrite !andb_false_r. cbn [orb andb].
      specialize (He1 k3). destruct (elim_sub o 0 false (q ++ [row1 p]) s1 C1 k3) as [sub1 k4] eqn:Er1.
      cbn [fst] in He1.
      assert (X1 : c_exists sub1 = true).
      { pose proof (elim_sub_exists o 0 C1 false (q ++ [row1 p]) s1 k3 eq_refl) as X. rewrite Er1 in X. exact X. }
      rewrite ?andb_false_r. cbn [fst].
      destruct isroot; unfold res_ok.
      * intros _. repeat split; auto.
      * destruct (Hst eq_refl) as [H1 H2]. repeat split; auto.
Qed.

Theorem elim_eff o t : (forall r, is_path [] t r -> oexact_at o r) -> mir_sound o 0 ->
  c_exists t = true -> okc_kids [] t -> st_wit 0 [] (c_state t) ->
  eff_root [] (fst (elim o 0 t)).
Proof.
  intros Ho Hm He Hk Hw. unfold elim.
  apply (elim_sub_eff o Hm t true [] (c_state t) k0); auto.
  - apply ne_nil.
  - discriminate.
Qed.

(* ---------- idempotence: a tree whose nodes below the root are all determined feasible is a fixed point ---------- *)
Fixpoint settled (t : ctree) : Prop :=
  match t with
  | CU => True
  | CN _ leaf _ s c0 c1 => is_feas s = true /\ (leaf = false -> settled c0 /\ settled c1)
  end.
Definition settled_kids (t : ctree) : Prop :=
  match t with CU => True | CN _ leaf _ _ c0 c1 => leaf = false -> settled c0 /\ settled c1 end.
Lemma settled_kids_of t : settled t -> settled_kids t.
Proof. destruct t; simpl; tauto. Qed.
Lemma visit_feas o tol stP q h c k : is_feas (c_state c) = true ->
  visit o tol stP q h c k = (c_state c, k, false, false).
Proof. unfold visit. destruct (c_state c); simpl; try discriminate; reflexivity. Qed.
Lemma set_st_id t : set_st (c_state t) t = t.
Proof. destruct t; reflexivity. Qed.

Theorem elim_sub_fixed o tol : forall t isroot q st k, settled_kids t ->
  elim_sub o tol isroot q st t k = (set_st st t, k).
Proof.
  induction t as [|i leaf p s' c0 IH0 c1 IH1]; intros isroot q st k Hs; [reflexivity|].
  destruct leaf; [reflexivity|]. destruct (Hs eq_refl) as [Hs0 Hs1].
  rewrite elim_sub_unfold. cbv zeta.
  assert (E0 : do_child0 o tol st (q ++ [row0 p]) (row0 p) c0 k = (c0, k, false)).
  { unfold do_child0. destruct c0 as [|i0 l0 p0 s0 c00 c01]; [reflexivity|].
    destruct Hs0 as [Hf0 Hk0].
    rewrite (visit_feas o tol st (q ++ [row0 p]) (row0 p) (CN i0 l0 p0 s0 c00 c01) k Hf0).
    rewrite IH0 by exact Hk0. reflexivity. }
  rewrite E0. destruct c1 as [|i1 l1 p1 s1 c10 c11]; [reflexivity|].
  destruct Hs1 as [Hf1 Hk1].
  rewrite (visit_feas o tol st (q ++ [row1 p]) (row1 p) (CN i1 l1 p1 s1 c10 c11) k Hf1). cbn [andb].
  rewrite IH1 by exact Hk1. reflexivity.
Qed.

Lemma eff_settled : forall t q, eff q t -> settled t.
Proof.
  induction t as [|i leaf p s c0 IH0 c1 IH1]; intros q H; [exact I|].
  destruct H as [Hf [_ Hk]]. split; [exact Hf|]. intros Hl. destruct (Hk Hl) as [_ [_ [H0 H1]]].
  split; [eapply IH0 | eapply IH1]; eauto.
Qed.
Lemma eff_root_settled t q : eff_root q t -> settled_kids t.
Proof.
  destruct t as [|i leaf p s c0 c1]; [intros _; exact I|]. intros H Hl. destruct (H Hl) as [_ [H0 H1]].
  split; eapply eff_settled; eauto.
Qed.

(* a second run, with any oracle and any tolerance, changes nothing and solves no LP *)
Theorem elim_idem o tol o' tol' t : eff_root [] (fst (elim o tol t)) ->
  elim o' tol' (fst (elim o tol t)) = (fst (elim o tol t), k0).
Proof.
  intros H. unfold elim at 1. rewrite elim_sub_fixed by (eapply eff_root_settled; eauto).
  rewrite set_st_id. reflexivity.
Qed.

(* what eff says, unfolded one level *)
Lemma eff_content q i leaf p s c0 c1 : eff q (CN i leaf p s c0 c1) ->
  ne q /\ is_feas s = true /\ (leaf = false -> c_exists c0 = true /\ c_exists c1 = true).
Proof.
  intros [Hf [Hg Hk]]. split; [eapply gst_feas_ne; eauto|]. split; [exact Hf|].
  intros Hl. destruct (Hk Hl) as [H0 [H1 _]]. auto.
Qed.

(* Pwl/ReduceSweep.v -- AffTree::reduce as coded (impl_reduction.rs:23-54): the node indices are collected in
   breadth-first order, the list is reversed, and the local merge rule is applied at each listed index that still
   exists and is not the root -- equals the bottom-up reduction creduce (OpsWf.v), whose erasure is Reduce.reduce.
   The merge rule: a node with two children that are both childless and carry the same function is replaced by its
   child 0 (remove_child(i, 1); merge_child_with_parent(i, 0)).  Node indices are unique (arena keys). *)
From AT Require Import Num Vec Aff PTree Cells Abs Cache Elim WfC OpsWf.

Definition merge_here (t : ctree) : ctree :=
  match t with
  | CU => CU
  | CN i leaf f st c0 c1 =>
      match c_fun c0, c_fun c1 with
      | Some f0, Some f1 => if childless c0 && childless c1 && aff_eqb f0 f1 then c0 else t
      | _, _ => t
      end
  end.
Lemma creduce_in_step i leaf f st c0 c1 :
  creduce_in (CN i leaf f st c0 c1) = merge_here (CN i leaf f st (creduce_in c0) (creduce_in c1)).
Proof. reflexivity. Qed.

(* the loop body for a listed index i: look the node up; if it is gone nothing happens *)
Fixpoint apply_at (i : nat) (t : ctree) : ctree :=
  match t with
  | CU => CU
  | CN j leaf f st c0 c1 =>
      if Nat.eqb j i then merge_here t else CN j leaf f st (apply_at i c0) (apply_at i c1)
  end.
Definition sweep_step (root i : nat) (t : ctree) : ctree := if Nat.eqb i root then t else apply_at i t.
Definition sweep (root : nat) (order : list nat) (t : ctree) : ctree :=
  fold_left (fun t i => sweep_step root i t) order t.

(* indices, and the breadth-first listing as the concatenation of the levels *)
Fixpoint cidx (t : ctree) : list nat :=
  match t with CU => [] | CN i _ _ _ c0 c1 => i :: cidx c0 ++ cidx c1 end.
Fixpoint idxs_at (d : nat) (t : ctree) : list nat :=
  match t with
  | CU => []
  | CN i _ _ _ c0 c1 => match d with O => [i] | S d' => idxs_at d' c0 ++ idxs_at d' c1 end
  end.
Definition bfs_order (h : nat) (t : ctree) : list nat := flat_map (fun d => idxs_at d t) (seq 0 h).
Fixpoint cheight (t : ctree) : nat :=
  match t with CU => 0 | CN _ _ _ _ c0 c1 => S (Nat.max (cheight c0) (cheight c1)) end.

(* creduce_in applied to every subtree rooted at depth d *)
Fixpoint rb (d : nat) (t : ctree) : ctree :=
  match d with
  | O => creduce_in t
  | S d' => match t with CU => CU | CN i l f s c0 c1 => CN i l f s (rb d' c0) (rb d' c1) end
  end.

Definition apply_all (l : list nat) (t : ctree) : ctree := fold_left (fun t i => apply_at i t) l t.

(* ---------------------------------------------------------------- index sets only shrink *)
Lemma cidx_creduce_in : forall t i, In i (cidx (creduce_in t)) -> In i (cidx t).
Proof.
  induction t as [|j leaf f st c0 IH0 c1 IH1]; intros i H; [exact H|].
  rewrite creduce_in_step in H. unfold merge_here in H.
  assert (G : In i (cidx (CN j leaf f st (creduce_in c0) (creduce_in c1))) -> In i (cidx (CN j leaf f st c0 c1))).
  { cbn [cidx]. intros [E|E]; [left; exact E|]. right. apply in_app_iff in E as [E|E]; apply in_app_iff; auto. }
  destruct (c_fun (creduce_in c0)) as [f0|]; [|apply G; exact H].
  destruct (c_fun (creduce_in c1)) as [f1|]; [|apply G; exact H].
  destruct (childless (creduce_in c0) && childless (creduce_in c1) && aff_eqb f0 f1); [|apply G; exact H].
  cbn [cidx]. right. apply in_app_iff. left. apply IH0. exact H.
Qed.
Lemma cidx_rb : forall d t i, In i (cidx (rb d t)) -> In i (cidx t).
Proof.
  induction d as [|d IH]; intros t i H; [apply cidx_creduce_in; exact H|].
  destruct t as [|j leaf f st c0 c1]; [exact H|]. cbn [rb cidx] in *. destruct H as [E|E]; [left; exact E|].
  right. apply in_app_iff in E as [E|E]; apply in_app_iff; [left | right]; eapply IH; eauto.
Qed.
Lemma idxs_at_in : forall d t i, In i (idxs_at d t) -> In i (cidx t).
Proof.
  induction d as [|d IH]; intros [|j leaf f st c0 c1] i H; cbn [idxs_at cidx] in *; try contradiction.
  - destruct H as [E|[]]. left; exact E.
  - right. apply in_app_iff in H as [E|E]; apply in_app_iff; [left | right]; eapply IH; eauto.
Qed.

(* ---------------------------------------------------------------- apply_at is local *)
Lemma apply_at_notin : forall t i, ~ In i (cidx t) -> apply_at i t = t.
Proof.
  induction t as [|j leaf f st c0 IH0 c1 IH1]; intros i H; [reflexivity|]. cbn [apply_at cidx] in *.
  destruct (Nat.eqb_spec j i) as [E|E]; [exfalso; apply H; left; exact E|].
  rewrite IH0, IH1; auto; intros C; apply H; right; apply in_app_iff; auto.
Qed.
Lemma apply_all_notin : forall l t, (forall i, In i l -> ~ In i (cidx t)) -> apply_all l t = t.
Proof.
  unfold apply_all. induction l as [|i l IH]; intros t H; cbn [fold_left]; auto.
  rewrite apply_at_notin by (apply H; left; reflexivity). apply IH. intros i' Hi'. apply H. right; exact Hi'.
Qed.
Lemma apply_all_node : forall l j leaf f st c0 c1, ~ In j l ->
  apply_all l (CN j leaf f st c0 c1) = CN j leaf f st (apply_all l c0) (apply_all l c1).
Proof.
  unfold apply_all. induction l as [|i l IH]; intros j leaf f st c0 c1 H; cbn [fold_left]; auto.
  cbn [apply_at]. destruct (Nat.eqb_spec j i) as [E|E]; [exfalso; apply H; left; auto|].
  apply IH. intros C. apply H. right; exact C.
Qed.
Lemma apply_all_app l1 l2 t : apply_all (l1 ++ l2) t = apply_all l2 (apply_all l1 t).
Proof. unfold apply_all. apply fold_left_app. Qed.

(* ---------------------------------------------------------------- one level *)
Definition uniq (t : ctree) : Prop := NoDup (cidx t).
Lemma nodup_app_inv {A} (l1 l2 : list A) : NoDup (l1 ++ l2) ->
  NoDup l1 /\ NoDup l2 /\ (forall x, In x l1 -> ~ In x l2).
Proof.
  induction l1 as [|a l1 IH]; intros H; cbn [app] in H.
  - split; [constructor|]. split; [exact H|]. intros x [].
  - inversion H as [|x l Hn Hnd]; subst. destruct (IH Hnd) as [H1 [H2 H3]]. split; [|split].
    + constructor; auto. intros C. apply Hn. apply in_app_iff; auto.
    + exact H2.
    + intros x [E|E] C; [subst x; apply Hn; apply in_app_iff; auto | exact (H3 x E C)].
Qed.
Lemma uniq_node j leaf f st c0 c1 : uniq (CN j leaf f st c0 c1) ->
  ~ In j (cidx c0) /\ ~ In j (cidx c1) /\ uniq c0 /\ uniq c1 /\ (forall i, In i (cidx c0) -> ~ In i (cidx c1)).
Proof.
  unfold uniq. cbn [cidx]. intros H. inversion H as [|x l Hn Hnd]; subst.
  destruct (nodup_app_inv _ _ Hnd) as [H0 [H1 Hd]].
  repeat split; auto; intros C; apply Hn; apply in_app_iff; auto.
Qed.

Theorem level_step : forall d t, uniq t -> apply_all (rev (idxs_at d t)) (rb (S d) t) = rb d t.
Proof.
  induction d as [|d IH]; intros t Hu.
  - destruct t as [|j leaf f st c0 c1]; [reflexivity|]. cbn [idxs_at rev app rb]. unfold apply_all. cbn [fold_left apply_at].
    rewrite Nat.eqb_refl. symmetry. apply creduce_in_step.
  - destruct t as [|j leaf f st c0 c1]; [reflexivity|].
    destruct (uniq_node _ _ _ _ _ _ Hu) as [Hj0 [Hj1 [Hu0 [Hu1 Hdis]]]].
    cbn [idxs_at]. rewrite rev_app_distr.
    change (rb (S (S d)) (CN j leaf f st c0 c1)) with (CN j leaf f st (rb (S d) c0) (rb (S d) c1)).
    change (rb (S d) (CN j leaf f st c0 c1)) with (CN j leaf f st (rb d c0) (rb d c1)).
    rewrite apply_all_node.
    2:{ intros C. apply in_app_iff in C as [C|C]; apply in_rev in C; apply idxs_at_in in C; auto. }
    rewrite !apply_all_app. f_equal.
    + (* child 0: the indices of child 1 do not occur in it *)
      rewrite (apply_all_notin (rev (idxs_at d c1))).
      * apply IH; exact Hu0.
      * intros i Hi C. apply in_rev in Hi. apply idxs_at_in in Hi. apply cidx_rb in C. exact (Hdis i C Hi).
    + rewrite (IH c1 Hu1). apply apply_all_notin.
      intros i Hi C. apply in_rev in Hi. apply idxs_at_in in Hi. apply cidx_rb in C. exact (Hdis i Hi C).
Qed.

(* ---------------------------------------------------------------- all levels *)
Lemma rb_high : forall d t, (cheight t <= d)%nat -> rb d t = t.
Proof.
  induction d as [|d IH]; intros t H.
  - destruct t; [reflexivity | cbn [cheight] in H; lia].
  - destruct t as [|j leaf f st c0 c1]; [reflexivity|]. cbn [cheight] in H. cbn [rb].
    rewrite !IH by lia. reflexivity.
Qed.
Lemma rev_bfs h t : rev (bfs_order (S h) t) = rev (idxs_at h t) ++ rev (bfs_order h t).
Proof.
  unfold bfs_order. rewrite seq_S, flat_map_app, rev_app_distr. cbn [flat_map Nat.add]. rewrite app_nil_r. reflexivity.
Qed.
(* after the levels h-1 .. d have been processed, every subtree rooted at depth d is reduced *)
Lemma sweep_levels : forall k d t, uniq t -> (cheight t <= d + k)%nat ->
  apply_all (rev (flat_map (fun e => idxs_at e t) (seq d k))) t = rb d t.
Proof.
  induction k as [|k IH]; intros d t Hu Hh.
  - cbn [seq flat_map rev]. unfold apply_all; cbn [fold_left]. symmetry. apply rb_high. lia.
  - cbn [seq flat_map]. rewrite rev_app_distr, apply_all_app. rewrite (IH (S d) t Hu) by lia.
    apply level_step. exact Hu.
Qed.

(* the root index is listed last and is skipped *)
Lemma sweep_as_apply_all root : forall l t, ~ In root l -> sweep root l t = apply_all l t.
Proof.
  unfold sweep, apply_all. induction l as [|i l IH]; intros t H; cbn [fold_left]; auto.
  unfold sweep_step at 2. destruct (Nat.eqb_spec i root) as [E|E]; [exfalso; apply H; left; auto|].
  apply IH. intros C. apply H. right; exact C.
Qed.

Theorem reduce_sweep r leaf f st c0 c1 h : uniq (CN r leaf f st c0 c1) -> (cheight (CN r leaf f st c0 c1) <= h)%nat ->
  sweep r (rev (bfs_order h (CN r leaf f st c0 c1))) (CN r leaf f st c0 c1) = creduce (CN r leaf f st c0 c1).
Proof.
  intros Hu Hh. set (t := CN r leaf f st c0 c1) in *.
  destruct h as [|h]; [unfold t in Hh; cbn [cheight] in Hh; lia|].
  (* bfs_order (S h) t = [r] ++ levels 1..h *)
  assert (Eb : bfs_order (S h) t = r :: flat_map (fun e => idxs_at e t) (seq 1 h)).
  { unfold bfs_order. cbn [seq flat_map]. reflexivity. }
  rewrite Eb. cbn [rev]. unfold sweep. rewrite fold_left_app. cbn [fold_left].
  unfold sweep_step at 1. rewrite Nat.eqb_refl.
  fold (sweep r (rev (flat_map (fun e => idxs_at e t) (seq 1 h))) t).
  rewrite sweep_as_apply_all.
  - rewrite (sweep_levels h 1 t Hu) by lia. reflexivity.
  - intros C. apply in_rev in C. apply in_flat_map in C as [e [He Hi]]. apply in_seq in He.
    destruct e as [|e]; [lia|]. unfold t in Hi. cbn [idxs_at] in Hi.
    destruct (uniq_node _ _ _ _ _ _ Hu) as [Hj0 [Hj1 _]].
    apply in_app_iff in Hi as [Hi|Hi]; apply idxs_at_in in Hi; auto.
Qed.

Definition c_idx_of (t : ctree) : nat := match t with CU => 0%nat | CN i _ _ _ _ _ => i end.

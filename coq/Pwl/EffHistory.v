(* Pwl/EffHistory.v -- C06 for pipelines: compose / eliminate / compose / eliminate ...
   A tree stays in the domain of the effectiveness theorem (ElimEff.elim_sub_eff) along every history made of
   un-pruned compositions with total trees, apply_func and eliminations with exact oracles, although the root may
   lose a branch on the way (the premise "all decisions have both branches" of C06 then fails at the root only,
   which the theorem below covers), so EVERY elimination of such a pipeline is effective. *)
From AT Require Import Num Vec Aff PTree Cells Abs Cache Reduce Elim ElimEval ElimCache ElimEff CPrune Ops Schema WfC OpsWf
  ElimWf CPruneWf History CacheHistory CacheHistoryRun.

(* the root may have lost one branch; the one that is left is then determined feasible *)
Definition okc_root (tol : Qc) (q : rows) (t : ctree) : Prop :=
  match t with
  | CU => True
  | CN _ leaf p _ c0 c1 =>
      leaf = false ->
      (c_exists c0 = true /\ c_exists c1 = true /\ is_indet (c_state c0) = is_indet (c_state c1) /\
       okc tol (q ++ [row0 p]) c0 /\ okc tol (q ++ [row1 p]) c1) \/
      (c0 = CU /\ c_exists c1 = true /\ is_feas (c_state c1) = true /\ okc tol (q ++ [row1 p]) c1) \/
      (c1 = CU /\ c_exists c0 = true /\ is_feas (c_state c0) = true /\ okc tol (q ++ [row0 p]) c0)
  end.

Lemma okc_feas_gst tol q t : c_exists t = true -> okc tol q t -> is_feas (c_state t) = true -> gst tol q (c_state t).
Proof.
  intros He Ho Hf. destruct (okc_state _ _ _ He Ho) as [H|[_ H]]; [|exact H]. rewrite H in Hf. discriminate.
Qed.

Theorem elim_eff_root o tol t : 0 <= tol -> oexact o -> mir_sound o tol ->
  c_exists t = true -> okc_root tol [] t -> st_wit tol [] (c_state t) ->
  eff_root tol [] (fst (elim o tol t)).
Proof.
  intros Ht Ho Hm He Hk Hw. destruct t as [|i leaf p s' c0 c1]; [discriminate|].
  destruct leaf; [unfold elim; cbn [elim_sub fst eff_root]; discriminate|].
  destruct (Hk eq_refl) as [Hb|[Hs|Hs]].
  - apply elim_eff; auto. intros _. exact Hb.
  - destruct Hs as [-> [Ex1 [Hf1 Hk1]]]. unfold elim. rewrite elim_sub_unfold. cbv zeta. cbn [do_child0].
    destruct c1 as [|i1 l1 p1 s1' c10 c11]; [discriminate|]. set (C1 := CN i1 l1 p1 s1' c10 c11) in *.
    rewrite (visit_feas o tol _ ([] ++ [row1 p]) (row1 p) C1 k0 Hf1). cbn [andb c_exists].
    pose proof (elim_sub_eff o tol Ht Hm C1 false ([] ++ [row1 p]) (c_state C1) k0) as E.
    destruct (elim_sub o tol false ([] ++ [row1 p]) (c_state C1) C1 k0) as [sub1 k4] eqn:Er.
    cbn [fst] in *. intros _. split; [right|split; [exact I|]].
    + pose proof (ElimEval.elim_sub_exists o tol C1 false ([] ++ [row1 p]) (c_state C1) k0 eq_refl) as X. rewrite Er in X. exact X.
    + pose proof (okc_feas_gst _ _ _ Ex1 Hk1 Hf1) as Hg.
      apply E; [intros r _; apply Ho | reflexivity | apply okc_kids_of; exact Hk1 | apply par_ok_of_gst; auto
               | apply gst_wit; exact Hg | intros _; split; auto].
  - destruct Hs as [-> [Ex0 [Hf0 Hk0]]]. unfold elim. rewrite elim_sub_unfold. cbv zeta.
    destruct c0 as [|i0 l0 p0 s0' c00 c01]; [discriminate|]. set (C0 := CN i0 l0 p0 s0' c00 c01) in *.
    unfold do_child0. fold C0.
    change (match C0 with CU => (CU, k0, false) | CN _ _ _ _ _ _ =>
              let '(s0, k1, fr0, skip0) := visit o tol (c_state (CN i false p s' C0 CU)) ([] ++ [row0 p]) (row0 p) C0 k0 in
              if skip0 then (set_st s0 C0, k1, fr0)
              else let '(r0, k2) := elim_sub o tol false ([] ++ [row0 p]) s0 C0 k1 in (r0, k2, fr0) end)
      with (let '(s0, k1, fr0, skip0) := visit o tol (c_state (CN i false p s' C0 CU)) ([] ++ [row0 p]) (row0 p) C0 k0 in
            if skip0 then (set_st s0 C0, k1, fr0)
            else let '(r0, k2) := elim_sub o tol false ([] ++ [row0 p]) s0 C0 k1 in (r0, k2, fr0)).
    rewrite (visit_feas o tol _ ([] ++ [row0 p]) (row0 p) C0 k0 Hf0).
    pose proof (elim_sub_eff o tol Ht Hm C0 false ([] ++ [row0 p]) (c_state C0) k0) as E.
    destruct (elim_sub o tol false ([] ++ [row0 p]) (c_state C0) C0 k0) as [sub0 k2] eqn:Er.
    cbn [fst] in *. intros _. split; [left|split; [|exact I]].
    + pose proof (ElimEval.elim_sub_exists o tol C0 false ([] ++ [row0 p]) (c_state C0) k0 eq_refl) as X. rewrite Er in X. exact X.
    + pose proof (okc_feas_gst _ _ _ Ex0 Hk0 Hf0) as Hg.
      apply E; [intros r _; apply Ho | reflexivity | apply okc_kids_of; exact Hk0 | apply par_ok_of_gst; auto
               | apply gst_wit; exact Hg | intros _; split; auto].
Qed.

(* the result of an effective elimination is again a legal input *)
Lemma eff_okc tol : forall t q, eff tol q t -> okc tol q t.
Proof.
  induction t as [|i leaf p s c0 IH0 c1 IH1]; intros q H; [exact I|].
  destruct H as [Hf [Hg Hk]]. split; [right; auto|]. intros Hl. destruct (Hk Hl) as [E0 [E1 [H0 H1]]].
  split; [exact E0|]. split; [exact E1|]. split; [|split; [apply IH0; exact H0 | apply IH1; exact H1]].
  pose proof (eff_state _ _ _ E0 H0) as F0. pose proof (eff_state _ _ _ E1 H1) as F1.
  destruct (c_state c0), (c_state c1); try discriminate; reflexivity.
Qed.
Lemma not_exists_CU t : c_exists t = false -> t = CU.
Proof. destruct t; [reflexivity|discriminate]. Qed.
Lemma eff_root_okc_root tol t q : eff_root tol q t -> okc_root tol q t.
Proof.
  destruct t as [|i leaf p s c0 c1]; [intros _; exact I|]. intros H Hl. destruct (H Hl) as [Hex [H0 H1]].
  destruct (c_exists c0) eqn:E0; destruct (c_exists c1) eqn:E1.
  - left. split; [reflexivity|]. split; [reflexivity|]. split; [|split; apply eff_okc; auto].
    pose proof (eff_state _ _ _ E0 H0) as F0. pose proof (eff_state _ _ _ E1 H1) as F1.
    destruct (c_state c0), (c_state c1); try discriminate; reflexivity.
  - right. right. split; [apply not_exists_CU; exact E1|]. split; [reflexivity|].
    split; [eapply eff_state; eauto | apply eff_okc; auto].
  - right. left. split; [apply not_exists_CU; exact E0|]. split; [reflexivity|].
    split; [eapply eff_state; eauto | apply eff_okc; auto].
  - destruct Hex; discriminate.
Qed.

(* ---------- un-pruned composition with a total tree ---------- *)
Inductive ptotal : ptree -> Prop :=
| pt_T f : ptotal (T f)
| pt_D p l0 l1 : ptotal l0 -> ptotal l1 -> ptotal (D p [l0; l1]).
Lemma ptotal_exists L : ptotal L -> pexists L = true.
Proof. destruct 1; reflexivity. Qed.
Lemma cgraft_total s tf : forall L, ptotal L -> forall st i,
  c_exists (cgraft s tf L st i) = true /\ c_state (cgraft s tf L st i) = st.
Proof. induction 1 as [f|p l0 l1 H0 IH0 H1 IH1]; intros st i; cbn [cgraft]; auto. Qed.
Lemma cgraft_okc tol s tf : forall L, ptotal L -> forall st i q, cst tol q st -> okc tol q (cgraft s tf L st i).
Proof.
  induction 1 as [f|p l0 l1 H0 IH0 H1 IH1]; intros st i q Hc; cbn [cgraft okc].
  - split; [exact Hc|discriminate].
  - split; [exact Hc|]. intros _.
    destruct (cgraft_total s tf l0 H0 Indet 1%nat) as [X0 S0]. destruct (cgraft_total s tf l1 H1 Indet 1%nat) as [X1 S1].
    split; [exact X0|]. split; [exact X1|]. split; [rewrite S0, S1; reflexivity|].
    split; [apply IH0 | apply IH1]; left; reflexivity.
Qed.
Lemma clift_total s L : ptotal L -> forall t, c_exists (clift s L t) = c_exists t /\ c_state (clift s L t) = c_state t.
Proof.
  intros HL. destruct t as [|i leaf f st c0 c1]; [auto|]. cbn [clift]. destruct leaf; [|auto].
  destruct (cgraft_total s f L HL st i). auto.
Qed.
Theorem clift_okc tol s L : ptotal L -> forall t q, okc tol q t -> okc tol q (clift s L t).
Proof.
  intros HL. induction t as [|i leaf f st c0 IH0 c1 IH1]; intros q H; [exact I|].
  destruct H as [Hc Hk]. cbn [clift]. destruct leaf.
  - apply cgraft_okc; auto.
  - cbn [okc]. split; [exact Hc|]. intros _. destruct (Hk eq_refl) as [E0 [E1 [Hu [H0 H1]]]].
    destruct (clift_total s L HL c0) as [X0 S0]. destruct (clift_total s L HL c1) as [X1 S1].
    rewrite X0, X1, S0, S1. repeat split; auto.
Qed.
Theorem clift_okc_root tol s L : ptotal L -> forall t q, okc_root tol q t -> okc_root tol q (clift s L t).
Proof.
  intros HL. destruct t as [|i leaf f st c0 c1]; intros q H; [exact I|]. cbn [clift]. destruct leaf.
  - (* the whole tree was a single terminal: the graft's root keeps its state, its children are new *)
    destruct HL as [g|p l0 l1 H0 H1]; cbn [cgraft okc_root]; [discriminate|]. intros _. left.
    destruct (cgraft_total s f l0 H0 Indet 1%nat) as [X0 S0]. destruct (cgraft_total s f l1 H1 Indet 1%nat) as [X1 S1].
    split; [exact X0|]. split; [exact X1|]. split; [rewrite S0, S1; reflexivity|].
    split; apply cgraft_okc; auto; left; reflexivity.
  - cbn [okc_root]. intros _.
    destruct (clift_total s L HL c0) as [X0 S0]. destruct (clift_total s L HL c1) as [X1 S1].
    destruct (H eq_refl) as [[E0 [E1 [Hu [H0 H1]]]]|[[-> [E1 [F1 H1]]]|[-> [E0 [F0 H0]]]]].
    + left. rewrite X0, X1, S0, S1. repeat split; auto; apply clift_okc; auto.
    + right. left. split; [reflexivity|]. rewrite X1, S1. repeat split; auto. apply clift_okc; auto.
    + right. right. split; [reflexivity|]. rewrite X0, S0. repeat split; auto. apply clift_okc; auto.
Qed.

(* ---------- apply_func ---------- *)
Theorem cmap_okc tol h : forall t q, okc tol q t -> okc tol q (cmap_terms h t).
Proof.
  induction t as [|i leaf f st c0 IH0 c1 IH1]; intros q H; [exact I|].
  destruct H as [Hc Hk]. cbn [cmap_terms]. destruct leaf; cbn [okc].
  - split; [exact Hc|discriminate].
  - split; [exact Hc|]. intros _. destruct (Hk eq_refl) as [E0 [E1 [Hu [H0 H1]]]].
    rewrite !c_exists_cmap, !cmap_state. repeat split; auto.
Qed.
Theorem cmap_okc_root tol h t q : okc_root tol q t -> okc_root tol q (cmap_terms h t).
Proof.
  destruct t as [|i leaf f st c0 c1]; [auto|]. intros H. cbn [cmap_terms]. destruct leaf; cbn [okc_root]; [discriminate|].
  intros _. destruct (H eq_refl) as [[E0 [E1 [Hu [H0 H1]]]]|[[-> [E1 [F1 H1]]]|[-> [E0 [F0 H0]]]]].
  - left. rewrite !c_exists_cmap, !cmap_state. repeat split; auto; apply cmap_okc; auto.
  - right. left. split; [reflexivity|]. rewrite c_exists_cmap, cmap_state. repeat split; auto. apply cmap_okc; auto.
  - right. right. split; [reflexivity|]. rewrite c_exists_cmap, cmap_state. repeat split; auto. apply cmap_okc; auto.
Qed.


(* ================================================================ pipelines *)
Definition pinv (tol : Qc) (t : ctree) : Prop := c_exists t = true /\ okc_root tol [] t /\ st_wit tol [] (c_state t).

(* the operations of a C06 pipeline: apply_func, un-pruned composition with a total tree, elimination *)
Definition eff_op (op : History.op) : Prop :=
  match op with
  | OApply _ | OElim => True
  | OCompose false g => ptotal g
  | _ => False
  end.

Theorem step_pinv tol o op t t' : 0 <= tol -> eff_op op ->
  (op = OElim -> (forall r, is_path [] t r -> oexact_at o r) /\ mir_sound o tol) ->
  pinv tol t -> step tol o op t = HOk t' ->
  pinv tol t' /\ (op = OElim -> eff_root tol [] t').
Proof.
  intros Ht Hop Hor [He [Hk Hw]] E. destruct op as [a|pr g| | |b g| |b g|b g]; cbn [eff_op] in Hop; try contradiction; cbn [step] in E.
  - destruct (terms_all _ t); [|discriminate]. inversion E; subst t'. unfold capply_func. split; [|discriminate].
    split; [rewrite c_exists_cmap; exact He|]. split; [apply cmap_okc_root; exact Hk | rewrite cmap_state; exact Hw].
  - destruct pr; [contradiction|].
    destruct (negb (pshapeb g && binb g)); [discriminate|]. destruct (terms_all _ t); [|discriminate].
    inversion E; subst t'. unfold ccompose. split; [|discriminate].
    destruct (clift_total comp_schema g Hop t) as [X S]. split; [rewrite X; exact He|].
    split; [apply clift_okc_root; auto | rewrite S; exact Hw].
  - inversion E; subst t'. destruct (Hor eq_refl) as [Hex Hm].
    assert (R : eff_root tol [] (fst (elim o tol t))).
    { destruct t as [|i leaf p s' c0 c1]; [discriminate|].
      destruct leaf; [unfold elim; cbn [elim_sub fst eff_root]; discriminate|].
      destruct (Hk eq_refl) as [Hb|Hs].
      - apply elim_eff; auto. intros _. exact Hb.
      - (* one branch: the argument of elim_eff_root, with exactness on the paths only *)
        destruct Hs as [[-> [Ex1 [Hf1 Hk1]]]|[-> [Ex0 [Hf0 Hk0]]]].
        + unfold elim. rewrite elim_sub_unfold. cbv zeta. cbn [do_child0].
          destruct c1 as [|i1 l1 p1 s1' c10 c11]; [discriminate|]. set (C1 := CN i1 l1 p1 s1' c10 c11) in *.
          rewrite (visit_feas o tol _ ([] ++ [row1 p]) (row1 p) C1 k0 Hf1). cbn [andb c_exists].
          pose proof (elim_sub_eff o tol Ht Hm C1 false ([] ++ [row1 p]) (c_state C1) k0) as EE.
          destruct (elim_sub o tol false ([] ++ [row1 p]) (c_state C1) C1 k0) as [sub1 k4] eqn:Er.
          cbn [fst] in *. intros _. split; [right|split; [exact I|]].
          * pose proof (ElimEval.elim_sub_exists o tol C1 false ([] ++ [row1 p]) (c_state C1) k0 eq_refl) as X. rewrite Er in X. exact X.
          * pose proof (okc_feas_gst _ _ _ Ex1 Hk1 Hf1) as Hg.
            apply EE; [intros r Hr; apply Hex; right; right; exact Hr | reflexivity | apply okc_kids_of; exact Hk1
                      | apply par_ok_of_gst; auto | apply gst_wit; exact Hg | intros _; split; auto].
        + unfold elim. rewrite elim_sub_unfold. cbv zeta.
          destruct c0 as [|i0 l0 p0 s0' c00 c01]; [discriminate|]. set (C0 := CN i0 l0 p0 s0' c00 c01) in *.
          unfold do_child0. fold C0.
          change (match C0 with CU => (CU, k0, false) | CN _ _ _ _ _ _ =>
                    let '(s0, k1, fr0, skip0) := visit o tol (c_state (CN i false p s' C0 CU)) ([] ++ [row0 p]) (row0 p) C0 k0 in
                    if skip0 then (set_st s0 C0, k1, fr0)
                    else let '(r0, k2) := elim_sub o tol false ([] ++ [row0 p]) s0 C0 k1 in (r0, k2, fr0) end)
            with (let '(s0, k1, fr0, skip0) := visit o tol (c_state (CN i false p s' C0 CU)) ([] ++ [row0 p]) (row0 p) C0 k0 in
                  if skip0 then (set_st s0 C0, k1, fr0)
                  else let '(r0, k2) := elim_sub o tol false ([] ++ [row0 p]) s0 C0 k1 in (r0, k2, fr0)).
          rewrite (visit_feas o tol _ ([] ++ [row0 p]) (row0 p) C0 k0 Hf0).
          pose proof (elim_sub_eff o tol Ht Hm C0 false ([] ++ [row0 p]) (c_state C0) k0) as EE.
          destruct (elim_sub o tol false ([] ++ [row0 p]) (c_state C0) C0 k0) as [sub0 k2] eqn:Er.
          cbn [fst] in *. intros _. split; [left|split; [|exact I]].
          * pose proof (ElimEval.elim_sub_exists o tol C0 false ([] ++ [row0 p]) (c_state C0) k0 eq_refl) as X. rewrite Er in X. exact X.
          * pose proof (okc_feas_gst _ _ _ Ex0 Hk0 Hf0) as Hg.
            apply EE; [intros r Hr; apply Hex; right; left; exact Hr | reflexivity | apply okc_kids_of; exact Hk0
                      | apply par_ok_of_gst; auto | apply gst_wit; exact Hg | intros _; split; auto]. }
    split; [|intros _; exact R].
    split; [unfold elim; apply ElimEval.elim_sub_exists; exact He|].
    split; [apply eff_root_okc_root; exact R | rewrite elim_root_state; exact Hw].
Qed.

(* exactness of each elimination's oracle on the path polytopes of the tree it is applied to *)
Fixpoint exact_hist (tol : Qc) (init : ctree) (ops : list (oracle * History.op)) : Prop :=
  match ops with
  | [] => True
  | ox :: rest =>
      (snd ox = OElim -> (forall r, is_path [] init r -> oexact_at (fst ox) r) /\ mir_sound (fst ox) tol) /\
      forall t1, step tol (fst ox) (snd ox) init = HOk t1 -> exact_hist tol t1 rest
  end.

Theorem pipeline_inv tol : 0 <= tol -> forall ops init t,
  (forall ox, In ox ops -> eff_op (snd ox)) -> exact_hist tol init ops ->
  pinv tol init -> run tol init ops = HOk t -> pinv tol t.
Proof.
  intros Ht. induction ops as [|[o op] rest IH]; intros init t Hop Hex Hi Er.
  - unfold run in Er. cbn [fold_left] in Er. inversion Er; subst. exact Hi.
  - rewrite run_cons in Er. cbn [fst snd] in Er. destruct Hex as [Hor Hnext]. cbn [fst snd] in Hor, Hnext.
    destruct (step tol o op init) as [t1|] eqn:Es; [|discriminate].
    destruct (step_pinv tol o op init t1 Ht (Hop (o, op) (or_introl eq_refl)) Hor Hi Es) as [Hi1 _].
    apply (IH t1 t); auto. intros ox Hin. apply Hop. right. exact Hin.
Qed.

(* every elimination at the end of such a pipeline is effective, and running it again changes nothing *)
Theorem pipeline_effective tol ops init t o : 0 <= tol ->
  (forall ox, In ox ops -> eff_op (snd ox)) -> exact_hist tol init ops ->
  pinv tol init -> run tol init ops = HOk t ->
  (forall r, is_path [] t r -> oexact_at o r) -> mir_sound o tol ->
  eff_root tol [] (fst (elim o tol t)) /\
  (forall o' tol', elim o' tol' (fst (elim o tol t)) = (fst (elim o tol t), k0)).
Proof.
  intros Ht Hop Hex Hi Er Ho Hm.
  pose proof (pipeline_inv tol Ht ops init t Hop Hex Hi Er) as Hp.
  destruct (step_pinv tol o OElim t (fst (elim o tol t)) Ht I (fun _ => conj Ho Hm) Hp eq_refl) as [_ R].
  split; [exact (R eq_refl)|]. intros o' tol'. apply elim_idem. exact (R eq_refl).
Qed.

(* a freshly built total tree is a legal start *)
Fixpoint ctotal (t : ctree) : Prop :=
  match t with
  | CU => True
  | CN _ leaf _ _ c0 c1 => leaf = false -> c_exists c0 = true /\ c_exists c1 = true /\ ctotal c0 /\ ctotal c1
  end.
Lemma fresh_total_okc tol : forall t q, fresh t -> ctotal t -> okc tol q t.
Proof.
  induction t as [|i leaf p st c0 IH0 c1 IH1]; intros q Hf Hc; [exact I|].
  destruct Hf as [-> [F0 F1]]. cbn [okc]. split; [left; reflexivity|]. intros Hl. destruct (Hc Hl) as [E0 [E1 [T0 T1]]].
  split; [exact E0|]. split; [exact E1|]. split; [|split; [apply IH0 | apply IH1]; auto].
  destruct c0 as [|? ? ? s0 ? ?]; [discriminate|]. destruct c1 as [|? ? ? s1 ? ?]; [discriminate|].
  destruct F0 as [-> _]. destruct F1 as [-> _]. reflexivity.
Qed.
Lemma fresh_total_pinv tol t : c_exists t = true -> fresh t -> ctotal t -> pinv tol t.
Proof.
  intros He Hf Hc. split; [exact He|]. split.
  - destruct t as [|i leaf p st c0 c1]; [exact I|]. intros Hl. left. destruct (Hc Hl) as [E0 [E1 [T0 T1]]].
    destruct Hf as [_ [F0 F1]]. split; [exact E0|]. split; [exact E1|].
    split; [|split; apply fresh_total_okc; auto].
    destruct c0 as [|? ? ? s0 ? ?]; [discriminate|]. destruct c1 as [|? ? ? s1 ? ?]; [discriminate|].
    destruct F0 as [-> _]. destruct F1 as [-> _]. reflexivity.
  - destruct t as [|i leaf p st c0 c1]; [exact I|]. destruct Hf as [-> _]. exact I.
Qed.

(* Pwl/HistoryEx.v -- C04 non-vacuity: a concrete history with pruning, keep-last, forwarding (refused at the root),
   a pruned operator, apply_func and a reduce that merges. *)
From AT Require Import Num Vec Aff PTree Ops Cells Abs Cache Reduce Elim CPrune Schema WfC ElimWf CPruneWf OpsWf History.

Definition c04_o_alt : oracle := {| o_lp := fun k _ => if Nat.even k then LInf else LUnb; o_mir := fun _ _ _ => None |}.
Definition c04_o_unb : oracle := {| o_lp := fun _ _ => LUnb; o_mir := fun _ _ _ => None |}.
Definition c04_zero : aff := {| a_in := 1; a_mat := [[0]]; a_bias := [0] |}.
Definition c04_init : ctree :=
  CN 0 false (sc_unit 1 0) Indet (CN 1 true (sc_identity 1) Indet CU CU) (CN 2 true (sc_zero_idx 1 0) Indet CU CU).
Definition c04_hist : list (oracle * op) :=
  [ (c04_o_alt, OCompose true (partial_relu 1 0));
    (c04_o_unb, OCompose false (partial_relu 1 0));
    (c04_o_alt, OElim);
    (c04_o_unb, OTree BAdd (partial_relu 1 0));
    (c04_o_unb, OApply c04_zero);
    (c04_o_unb, OReduce) ].
Inductive c04_sh := SU | ST | SD (a b : c04_sh).
Fixpoint c04_shape (t : ctree) : c04_sh :=
  match t with CU => SU | CN _ l _ _ a b => if l then ST else SD (c04_shape a) (c04_shape b) end.
Definition c04_shapes (ops : list (oracle * op)) : option c04_sh :=
  match run 0 c04_init ops with HOk t => Some (c04_shape t) | HPanic => None end.
Lemma c04_example :
  constructed 1 1 c04_init /\ compat_hist (1, 1)%nat c04_hist = true /\
  (exists t, run 0 c04_init c04_hist = HOk t /\ cwftb 1 1 t = true) /\
  (* pruned composition: both grafted decisions were merged away (3 nodes instead of 7) *)
  c04_shapes (firstn 1 c04_hist) = Some (SD ST ST) /\
  c04_shapes (firstn 2 c04_hist) = Some (SD (SD ST ST) (SD ST ST)) /\
  (* elimination: child 0 of the root removed, the root kept; the decision below it replaced by its feasible child *)
  c04_shapes (firstn 3 c04_hist) = Some (SD SU ST) /\
  c04_shapes (firstn 4 c04_hist) = Some (SD SU (SD ST ST)) /\
  (* reduce merged the decision with two equal terminals *)
  c04_shapes c04_hist = Some (SD SU ST).
Proof.
  split; [ | split; [ | split ] ].
  - split; [repeat constructor | exact (L_relu 1 0 eq_refl)].
  - vm_compute. reflexivity.
  - destruct (run 0 c04_init c04_hist) as [t|] eqn:E; [ | vm_compute in E; discriminate ].
    exists t. split; [reflexivity|]. revert E. vm_compute. intros E. inversion E. reflexivity.
  - repeat split; vm_compute; reflexivity.
Qed.


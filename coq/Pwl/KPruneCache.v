(* Pwl/KPruneCache.v -- the pruned generic composition for ANY branching factor (KPrune.kprune) keeps the feasibility
   caches sound (C05; the K-ary form of Pwl/CPruneCache.v):
   * witnesses ([kwit_ok], KElimCache): every FeasibleWitness list of the result is non-empty and each point lies within
     the containment tolerance in the closed path polytope of its node;
   * Infeasible marks ([kmarks] per input x, KPruneEval): no node of the result marked Infeasible has x in its closed
     path polytope.
   Why: the nodes of the receiver keep their states and their paths (a terminal that becomes a decision keeps its cache:
   kgraft puts the receiver's state [st] on the root of what it builds, at the same path q); is_edge_feasible takes
   &self -- it READS the parent's state (explore) and never stores a verdict or an LP solution -- so every node created by
   the composition is Indeterminate (kgraft ... false Indet new_idx); a forwarded child (merge_child_with_parent) is such
   a new Indeterminate node and takes the place of a NEW decision (never of the receiver's terminal: that one keeps index
   i and state st unless it is itself forwarded over, in which case the cache entry disappears with it).
   Hence NO assumption on the oracle is needed -- neither on the LP answers (osound) nor on the repair heuristic
   (mir_sound, which the pruned composition never calls): the theorems hold for every oracle, every schema, every K,
   every lhs (also outside kary) and every receiver; the forms with the hypotheses of the task statement are corollaries
   ([kprune_wit_mir], [kprune_marks_osound]). *)
From AT Require Import Num Vec Aff PTree Cells Abs Cache Elim ElimEval ElimCache CPrune CPruneCache Ops CPruneEval EdgeRegion WfC.
From AT Require Import KPrune KPruneEval KPruneBin KElim KElimEval KElimCache KPruneExample.

(* ---------- empty child slots ---------- *)
Lemma forall_lab_KU (P : nat -> ktree -> Prop) : (forall l, P l KU) -> forall n l, forall_lab P (repeat KU n) l.
Proof. intros H. induction n as [|n IH]; intros l; cbn [repeat forall_lab]; [exact I | split; auto]. Qed.

(* the single kept child: the default, or the continuation on one of the slots *)
Lemma kpick_cases g dflt : forall cs ks, kpick g dflt cs ks = dflt \/ exists c, In c cs /\ kpick g dflt cs ks = g c.
Proof.
  induction cs as [|c cs IH]; intros ks; [left; reflexivity|].
  destruct ks as [|b ks]; [left; reflexivity|]. cbn [kpick]. fold (kpick g dflt). destruct b.
  - right. exists c. split; [left; reflexivity | reflexivity].
  - destruct (IH ks) as [E|[c' [Hc E]]]; [left; exact E | right; exists c'; split; [right; exact Hc | exact E]].
Qed.

(* ================= witnesses ================= *)
(* one terminal of the receiver: whatever is built below it carries the receiver's state on top and Indeterminate
   everywhere else *)
Lemma kgraft_wit o tol s K tf : forall L top st i q k, st_wit tol q st ->
  kwit_ok tol q (fst (kgraft o tol s K tf L top st i q k)).
Proof.
  induction L as [|f|p ch IH] using ptree_ind'; intros top st i q k Hst.
  - exact I.
  - cbn [kgraft fst kwit_ok]. split; [exact Hst|]. apply forall_lab_KU. intros l. exact I.
  - cbn [kgraft]. set (p' := s_dec s p tf).
    destruct (kedges o tol top st q p' ch 0 0 k) as [keeps k1].
    destruct (Nat.eqb (count_true keeps) 1 && Nat.eqb (n_exist ch) K).
    + destruct (kpick_cases (fun c => kgraft o tol s K tf c false Indet new_idx q k1) (KU, k1) ch keeps) as [E|[c [Hc E]]];
        rewrite E; [exact I|].
      rewrite Forall_forall in IH. apply IH; [exact Hc | exact I].
    + pose proof (kdesc_length (fun c l k' => kgraft o tol s K tf c false Indet new_idx (q ++ label_rows p' l) k') ch keeps 0%nat k1)
        as Hlen.
      pose proof (kdesc_nth (fun c l k' => kgraft o tol s K tf c false Indet new_idx (q ++ label_rows p' l) k') ch keeps 0%nat k1)
        as Hnth.
      destruct (kdesc (fun c l k' => kgraft o tol s K tf c false Indet new_idx (q ++ label_rows p' l) k') ch keeps 0 k1)
        as [cs k2].
      cbn [fst] in *. cbn [kwit_ok]. split; [exact Hst|].
      apply (forall_lab_intro _ KU). intros j Hj. rewrite Hlen in Hj. destruct (Hnth j Hj) as [k' Hk']. rewrite Hk'.
      destruct (nth j keeps false); [|exact I]. cbn [Nat.add].
      rewrite Forall_forall in IH. apply IH; [apply nth_In; exact Hj | exact I].
Qed.

(* the ascending walk over the receiver's child slots *)
Lemma kasc_forall_lab (P : nat -> ktree -> Prop) (g : ktree -> nat -> cnt -> ktree * cnt) :
  forall cs, Forall (fun c => forall l k, P l c -> P l (fst (g c l k))) cs ->
  forall l k, forall_lab P cs l -> forall_lab P (fst (kasc g cs l k)) l.
Proof.
  induction cs as [|c cs IH]; intros HF l k H; [exact I|].
  apply Forall_cons_iff in HF as [Hc HF]. destruct H as [H0 H]. cbn [kasc]. fold (kasc g).
  specialize (Hc l k H0). destruct (g c l k) as [r k1]. specialize (IH HF (S l) k1 H).
  destruct (kasc g cs (S l) k1) as [rs k2]. cbn [fst] in *. split; auto.
Qed.

Theorem kprune_wit o tol s K L : forall t q k, kwit_ok tol q t -> kwit_ok tol q (fst (kprune o tol s K L t q k)).
Proof.
  induction t as [|i leaf f st ch IH] using ktree_ind'; intros q k H; [exact I|].
  destruct H as [Hs Hk]. cbn [kprune]. destruct leaf.
  - apply kgraft_wit; exact Hs.
  - pose proof (kasc_forall_lab (fun l c => kwit_ok tol (q ++ label_rows f l) c)
                  (fun c l k' => kprune o tol s K L c (q ++ label_rows f l) k') ch) as HA.
    cbn beta in HA. specialize (HA ltac:(rewrite Forall_forall in *; intros c Hc l k' Hw; apply IH; auto) 0%nat k Hk).
    destruct (kasc (fun c l k' => kprune o tol s K L c (q ++ label_rows f l) k') ch 0 k) as [cs k1].
    cbn [fst] in *. split; auto.
Qed.
(* the statement of the task: "for every oracle whose repair heuristic is sound" -- the hypothesis is not used *)
Corollary kprune_wit_mir o tol s K L t q k : mir_sound o tol -> kwit_ok tol q t ->
  kwit_ok tol q (fst (kprune o tol s K L t q k)).
Proof. intros _. apply kprune_wit. Qed.

(* ================= Infeasible marks ================= *)
Lemma kgraft_marks o tol s K tf x : forall L top st i q k, (st = Infeas -> ~ in_rows q x) ->
  kmarks x q (fst (kgraft o tol s K tf L top st i q k)).
Proof.
  induction L as [|f|p ch IH] using ptree_ind'; intros top st i q k Hst.
  - exact I.
  - cbn [kgraft fst kmarks]. split; [exact Hst|]. apply forall_lab_KU. intros l. exact I.
  - cbn [kgraft]. set (p' := s_dec s p tf).
    destruct (kedges o tol top st q p' ch 0 0 k) as [keeps k1].
    destruct (Nat.eqb (count_true keeps) 1 && Nat.eqb (n_exist ch) K).
    + destruct (kpick_cases (fun c => kgraft o tol s K tf c false Indet new_idx q k1) (KU, k1) ch keeps) as [E|[c [Hc E]]];
        rewrite E; [exact I|].
      rewrite Forall_forall in IH. apply IH; [exact Hc | discriminate].
    + pose proof (kdesc_length (fun c l k' => kgraft o tol s K tf c false Indet new_idx (q ++ label_rows p' l) k') ch keeps 0%nat k1)
        as Hlen.
      pose proof (kdesc_nth (fun c l k' => kgraft o tol s K tf c false Indet new_idx (q ++ label_rows p' l) k') ch keeps 0%nat k1)
        as Hnth.
      destruct (kdesc (fun c l k' => kgraft o tol s K tf c false Indet new_idx (q ++ label_rows p' l) k') ch keeps 0 k1)
        as [cs k2].
      cbn [fst] in *. cbn [kmarks]. split; [exact Hst|].
      apply (forall_lab_intro _ KU). intros j Hj. rewrite Hlen in Hj. destruct (Hnth j Hj) as [k' Hk']. rewrite Hk'.
      destruct (nth j keeps false); [|exact I]. cbn [Nat.add].
      rewrite Forall_forall in IH. apply IH; [apply nth_In; exact Hj | discriminate].
Qed.

Theorem kprune_marks o tol s K L x : forall t q k, kmarks x q t -> kmarks x q (fst (kprune o tol s K L t q k)).
Proof.
  induction t as [|i leaf f st ch IH] using ktree_ind'; intros q k H; [exact I|].
  destruct H as [Hs Hk]. cbn [kprune]. destruct leaf.
  - apply kgraft_marks; exact Hs.
  - pose proof (kasc_forall_lab (fun l c => kmarks x (q ++ label_rows f l) c)
                  (fun c l k' => kprune o tol s K L c (q ++ label_rows f l) k') ch) as HA.
    cbn beta in HA. specialize (HA ltac:(rewrite Forall_forall in *; intros c Hc l k' Hw; apply IH; auto) 0%nat k Hk).
    destruct (kasc (fun c l k' => kprune o tol s K L c (q ++ label_rows f l) k') ch 0 k) as [cs k1].
    cbn [fst] in *. split; auto.
Qed.
Corollary kprune_marks_osound o tol s K L x t q k : osound o x -> kmarks x q t ->
  kmarks x q (fst (kprune o tol s K L t q k)).
Proof. intros _. apply kprune_marks. Qed.

(* ================= the operations built from kprune ================= *)
Theorem kcompose_prune_caches o tol K t L :
  (kwit_ok tol [] t -> kwit_ok tol [] (fst (kcompose_prune o tol K t L))) /\
  (forall x, kmarks x [] t -> kmarks x [] (fst (kcompose_prune o tol K t L))).
Proof. unfold kcompose_prune. split; [apply kprune_wit | intros x; apply kprune_marks]. Qed.
(* the lifted operators tree (op) tree with pruning (KPruneEval.ktop_prune_kev: kprune with op_schema fo) *)
Theorem ktop_prune_caches o tol K fo t L :
  (kwit_ok tol [] t -> kwit_ok tol [] (fst (kprune o tol (op_schema fo) K L t [] k0))) /\
  (forall x, kmarks x [] t -> kmarks x [] (fst (kprune o tol (op_schema fo) K L t [] k0))).
Proof. split; [apply kprune_wit | intros x; apply kprune_marks]. Qed.
(* together with the function: same values, sound caches (the hypotheses of kcompose_prune_kev are those of the
   function part only) *)
Theorem kcompose_prune_sound o tol K t L x : osound o x -> kary K L -> kok comp_schema t -> kmarks x [] t -> kwit_ok tol [] t ->
  kev (fst (kcompose_prune o tol K t L)) x = eval (compose (kerase t) L) x /\
  kmarks x [] (fst (kcompose_prune o tol K t L)) /\ kwit_ok tol [] (fst (kcompose_prune o tol K t L)).
Proof.
  intros Ho HL Hk Hm Hw. split; [apply kcompose_prune_kev; auto|].
  split; [apply (kcompose_prune_caches o tol K t L); exact Hm | apply (kcompose_prune_caches o tol K t L); exact Hw].
Qed.

(* ================= K = 2: the binary statements ================= *)
(* on the embedding of a binary tree whose terminals have no children, the K-ary predicates ARE the binary ones *)
Lemma kwit_ok_kemb tol : forall t q, cbin t -> cleafok t -> (kwit_ok tol q (kemb t) <-> wit_ok tol q t).
Proof.
  induction t as [|i leaf f st c0 IH0 c1 IH1]; intros q Hb Hl; [cbn; tauto|].
  destruct Hb as [Hf [Hb0 Hb1]]. cbn [kemb kwit_ok wit_ok forall_lab].
  inversion Hl as [|i' f' st'|i' p' st' c0' c1' Hl0 Hl1]; subst.
  - cbn [kemb kwit_ok wit_ok]. tauto.
  - destruct (one_row_label_rows f (Hf eq_refl)) as [R0 R1]. rewrite R0, R1.
    rewrite (IH0 _ Hb0 Hl0), (IH1 _ Hb1 Hl1). tauto.
Qed.
Lemma kmarks_kemb x : forall t q, cbin t -> cleafok t -> (kmarks x q (kemb t) <-> marks_ok x q t).
Proof.
  induction t as [|i leaf f st c0 IH0 c1 IH1]; intros q Hb Hl; [cbn; tauto|].
  destruct Hb as [Hf [Hb0 Hb1]]. cbn [kemb kmarks marks_ok forall_lab].
  inversion Hl as [|i' f' st'|i' p' st' c0' c1' Hl0 Hl1]; subst.
  - cbn [kemb kmarks marks_ok]. tauto.
  - destruct (one_row_label_rows f (Hf eq_refl)) as [R0 R1]. rewrite R0, R1.
    rewrite (IH0 _ Hb0 Hl0), (IH1 _ Hb1 Hl1). tauto.
Qed.
(* at K = 2 the cache predicates of the K-ary result are those of the binary result (KPruneBin.kprune_binary), whenever
   the binary result is a binary tree whose terminals have no children (CPruneWf.cprune_cwf gives that for well-formed
   operands) *)
Theorem kprune_binary_cache o tol s L t q k x : bin2 L -> cbin t -> terms_ok s t ->
  cbin (fst (cprune o tol s L t q k)) -> cleafok (fst (cprune o tol s L t q k)) ->
  (kwit_ok tol q (fst (kprune o tol s 2 L (kemb t) q k)) <-> wit_ok tol q (fst (cprune o tol s L t q k))) /\
  (kmarks x q (fst (kprune o tol s 2 L (kemb t) q k)) <-> marks_ok x q (fst (cprune o tol s L t q k))).
Proof.
  intros HL Hb Ht Hrb Hrl. rewrite (kprune_binary o tol s L HL t q k Hb Ht). cbn [fst].
  split; [apply kwit_ok_kemb | apply kmarks_kemb]; auto.
Qed.

(* ================= executable checkers ================= *)
Definition st_witb (tol : Qc) (q : rows) (s : nstate) : bool :=
  match s with
  | FeasW ws => negb (match ws with [] => true | _ => false end) && forallb (contains_tol tol q) ws
  | _ => true
  end.
Lemma st_witb_sound tol q s : st_witb tol q s = true -> st_wit tol q s.
Proof.
  destruct s as [| | |ws]; try (intros _; exact I). cbn [st_witb st_wit]. intros H.
  apply andb_true_iff in H as [H1 H2]. split; [destruct ws; [discriminate H1 | discriminate]|].
  rewrite forallb_forall in H2. apply Forall_forall. exact H2.
Qed.
Fixpoint kwit_okb (tol : Qc) (q : rows) (t : ktree) {struct t} : bool :=
  match t with
  | KU => true
  | KN _ _ p st ch =>
      st_witb tol q st &&
      (fix go (cs : list ktree) (l : nat) {struct cs} : bool :=
         match cs with [] => true | c :: cs' => kwit_okb tol (q ++ label_rows p l) c && go cs' (S l) end) ch 0%nat
  end.
Lemma kwit_okb_sound tol : forall t q, kwit_okb tol q t = true -> kwit_ok tol q t.
Proof.
  induction t as [|i leaf p st ch IH] using ktree_ind'; intros q H; [exact I|].
  cbn [kwit_okb] in H. apply andb_true_iff in H as [H1 H2]. split; [apply st_witb_sound; exact H1|].
  revert H2. generalize 0%nat. induction ch as [|c ch IHch]; intros l H2; [exact I|].
  apply Forall_cons_iff in IH as [IHc IH]. apply andb_true_iff in H2 as [Ha Hb]. split; [apply IHc; exact Ha | apply IHch; auto].
Qed.
(* how many nodes carry witnesses / an Infeasible mark *)
Fixpoint kn_wit (t : ktree) : nat :=
  match t with
  | KU => 0%nat
  | KN _ _ _ st ch => ((match st with FeasW _ => 1 | _ => 0 end) + fold_right (fun c n => kn_wit c + n) 0 ch)%nat
  end.
Fixpoint kn_inf (t : ktree) : nat :=
  match t with
  | KU => 0%nat
  | KN _ _ _ st ch => ((match st with Infeas => 1 | _ => 0 end) + fold_right (fun c n => kn_inf c + n) 0 ch)%nat
  end.
(* Infeasible marks, checked with certificates: every marked node's closed path polytope is refuted by the verified
   solver (Farkas certificate), so no x of dimension n lies in it *)
Fixpoint kmarks_cert (n : nat) (q : rows) (t : ktree) {struct t} : bool :=
  match t with
  | KU => true
  | KN _ _ p st ch =>
      (match st with Infeas => match empty_cert n q with Some true => true | _ => false end | _ => true end) &&
      (fix go (cs : list ktree) (l : nat) {struct cs} : bool :=
         match cs with [] => true | c :: cs' => kmarks_cert n (q ++ label_rows p l) c && go cs' (S l) end) ch 0%nat
  end.
Lemma kmarks_cert_sound n x : length x = n -> forall t q, kmarks_cert n q t = true -> kmarks x q t.
Proof.
  intros Hx. induction t as [|i leaf p st ch IH] using ktree_ind'; intros q H; [exact I|].
  cbn [kmarks_cert] in H. apply andb_true_iff in H as [H1 H2]. split.
  - intros E. subst st. destruct (empty_cert n q) as [[|]|] eqn:Ec; try discriminate H1.
    exact (empty_cert_true n q Ec x Hx).
  - revert H2. generalize 0%nat. induction ch as [|c ch IHch]; intros l H2; [exact I|].
    apply Forall_cons_iff in IH as [IHc IH]. apply andb_true_iff in H2 as [Ha Hb]. split; [apply IHc; exact Ha | apply IHch; auto].
Qed.

(* ================= non-vacuity (K = 4, the run of Pwl/KPruneExample.v with a cached receiver) ================= *)
(* receiver (AffTree<4>, one-row decisions, slots 2 and 3 empty):
     x <= -2 ?  label 0 (x >= -2) -> terminal 1 with the witness 0
                label 1 (x <= -2) -> decision 2  x <= 1 ?  with the witness -3
                                        label 0 (x >= 1: empty region) -> terminal 3 marked Infeasible
                                        label 1 (x <= 1)               -> terminal 4 with the witness -3 *)
Definition kx_tw : ktree :=
  KN 0 false (kx_aff 1 (- (1 + 1))) Indet
     [KN 1 true kx_id (FeasW [[0]]) [KU; KU; KU; KU];
      KN 2 false (kx_aff 1 1) (FeasW [[- (1 + 1 + 1)]])
         [KN 3 true kx_id Infeas [KU; KU; KU; KU]; KN 4 true kx_id (FeasW [[- (1 + 1 + 1)]]) [KU; KU; KU; KU]; KU; KU];
      KU; KU].
Lemma kx_tw_kok : kok comp_schema kx_tw.
Proof.
  assert (HT : forall i st, kok comp_schema (KN i true kx_id st [KU; KU; KU; KU])).
  { intros i st. constructor; [discriminate | intros _; apply keeps_nrows_comp; reflexivity | repeat constructor]. }
  constructor; [intros _; reflexivity | discriminate |].
  constructor; [apply HT|]. constructor; [|repeat constructor].
  constructor; [intros _; reflexivity | discriminate |]. repeat first [apply HT | constructor].
Qed.
Lemma kx_mir_sound tol : mir_sound (kx_oracle 1) tol.
Proof. intros k q ws pts H. discriminate H. Qed.

(* with the full argument kx_L: terminal 1 becomes a decision and KEEPS its witness (which also saves the LP call for the
   edge of label 3: explore finds 0 in that edge's polytope); terminals 3 and 4 are forwarded over (one edge survives,
   all four slots exist), their cache entries go with them; decision 2 keeps its witness.
   with the partial argument kx_Lp (slot 3 empty: nothing is forwarded): terminals 3 and 4 become decisions and keep the
   Infeasible mark / the witness. *)
Example kx_cache :
  (forall x, length x = 1%nat -> osound (kx_oracle 1) x) /\ mir_sound (kx_oracle 1) 0 /\
  kary 4 kx_L /\ kary 4 kx_Lp /\ kok comp_schema kx_tw /\
  kwit_ok 0 [] kx_tw /\ (forall x, length x = 1%nat -> kmarks x [] kx_tw) /\ kn_wit kx_tw = 3%nat /\ kn_inf kx_tw = 1%nat /\
  (kn_wit (fst (kcompose_prune (kx_oracle 1) 0 4 kx_tw kx_L)) = 2%nat /\
   kn_inf (fst (kcompose_prune (kx_oracle 1) 0 4 kx_tw kx_L)) = 0%nat /\
   k_lp (snd (kcompose_prune (kx_oracle 1) 0 4 kx_tw kx_L)) = 6%nat /\
   kwit_okb 0 [] (fst (kcompose_prune (kx_oracle 1) 0 4 kx_tw kx_L)) = true /\
   kmarks_cert 1 [] (fst (kcompose_prune (kx_oracle 1) 0 4 kx_tw kx_L)) = true) /\
  (kn_wit (fst (kcompose_prune (kx_oracle 1) 0 4 kx_tw kx_Lp)) = 3%nat /\
   kn_inf (fst (kcompose_prune (kx_oracle 1) 0 4 kx_tw kx_Lp)) = 1%nat /\
   k_lp (snd (kcompose_prune (kx_oracle 1) 0 4 kx_tw kx_Lp)) = 5%nat /\
   kwit_okb 0 [] (fst (kcompose_prune (kx_oracle 1) 0 4 kx_tw kx_Lp)) = true /\
   kmarks_cert 1 [] (fst (kcompose_prune (kx_oracle 1) 0 4 kx_tw kx_Lp)) = true) /\
  (forall x, length x = 1%nat ->
     kev (fst (kcompose_prune (kx_oracle 1) 0 4 kx_tw kx_L)) x = eval (compose (kerase kx_tw) kx_L) x /\
     kmarks x [] (fst (kcompose_prune (kx_oracle 1) 0 4 kx_tw kx_L)) /\
     kwit_ok 0 [] (fst (kcompose_prune (kx_oracle 1) 0 4 kx_tw kx_L)) /\
     kev (fst (kcompose_prune (kx_oracle 1) 0 4 kx_tw kx_Lp)) x = eval (compose (kerase kx_tw) kx_Lp) x /\
     kmarks x [] (fst (kcompose_prune (kx_oracle 1) 0 4 kx_tw kx_Lp)) /\
     kwit_ok 0 [] (fst (kcompose_prune (kx_oracle 1) 0 4 kx_tw kx_Lp))).
Proof.
  assert (HW : kwit_ok 0 [] kx_tw) by (apply kwit_okb_sound; vm_compute; reflexivity).
  assert (HM : forall x, length x = 1%nat -> kmarks x [] kx_tw).
  { intros x Hx. apply (kmarks_cert_sound 1 x Hx). vm_compute. reflexivity. }
  split; [intros x Hx; apply kx_oracle_sound; exact Hx|]. split; [apply kx_mir_sound|].
  split; [apply kx_kary|]. split; [apply kx_kary|]. split; [apply kx_tw_kok|]. split; [exact HW|]. split; [exact HM|].
  split; [reflexivity|]. split; [reflexivity|].
  split; [vm_compute; repeat split; reflexivity|]. split; [vm_compute; repeat split; reflexivity|].
  intros x Hx.
  destruct (kcompose_prune_sound (kx_oracle 1) 0 4 kx_tw kx_L x (kx_oracle_sound 1 x Hx) (proj1 kx_kary) kx_tw_kok (HM x Hx) HW)
    as [A1 [A2 A3]].
  destruct (kcompose_prune_sound (kx_oracle 1) 0 4 kx_tw kx_Lp x (kx_oracle_sound 1 x Hx) (proj2 kx_kary) kx_tw_kok (HM x Hx) HW)
    as [B1 [B2 B3]].
  exact (conj A1 (conj A2 (conj A3 (conj B1 (conj B2 B3))))).
Qed.

(* Pwl/ACPruneRefine.v -- one terminal of the receiver: the arena-level machine of Pwl/ACPrune.v (explicit LIFO
   stack, is_edge_feasible through the parent pointers, remove_child, merge_child_with_parent) computes the
   structural recursion CPrune.graftp.  Big-step lemma by structural induction on lhs, generalised over the rest
   of the stack, for every allocator that hands out unoccupied keys. *)
From AT Require Import Num Vec Aff PTree Cells Abs Cache Elim CPrune Tree TreeLemmas ArenaCompose ArenaComposeAbs ACPrune ACPruneOps.

(* ---------------------------------------------------------------- trees in the arena, index-exact *)
Definition cslot (t : ctree) : option nat := match t with CU => None | CN i _ _ _ _ _ => Some i end.
Fixpoint cidx (t : ctree) : list nat := match t with CU => [] | CN i _ _ _ c0 c1 => i :: cidx c0 ++ cidx c1 end.
(* the arena holds t below a node whose parent pointer is par: every cell is determined *)
Fixpoint crep (a : arena acont) (par : option nat) (t : ctree) : Prop :=
  match t with
  | CU => True
  | CN i leaf f st c0 c1 =>
      aget a i = Some (mkcell (mkcont f st) par [cslot c0; cslot c1] leaf) /\ crep a (Some i) c0 /\ crep a (Some i) c1
  end.
(* equality up to the arena indices *)
Fixpoint cshape (x y : ctree) : Prop :=
  match x, y with
  | CU, CU => True
  | CN _ l f s x0 x1, CN _ m g r y0 y1 => l = m /\ f = g /\ s = r /\ cshape x0 y0 /\ cshape x1 y1
  | _, _ => False
  end.
Lemma cshape_refl x : cshape x x.
Proof. induction x as [|i l f s x0 IH0 x1 IH1]; cbn [cshape]; auto. Qed.
Lemma cshape_trans x : forall y w, cshape x y -> cshape y w -> cshape x w.
Proof.
  induction x as [|i l f s x0 IH0 x1 IH1]; intros [|j m g r y0 y1] [|k n h u w0 w1]; cbn [cshape]; try tauto.
  intros [A [B [C [D E]]]] [A' [B' [C' [D' E']]]]. repeat split; try congruence; eauto.
Qed.
Lemma cshape_sym x : forall y, cshape x y -> cshape y x.
Proof.
  induction x as [|i l f s x0 IH0 x1 IH1]; intros [|j m g r y0 y1]; cbn [cshape]; try tauto.
  intros [A [B [C [D E]]]]. repeat split; auto.
Qed.

Lemma crep_stable a a' : forall t par, crep a par t -> (forall k, In k (cidx t) -> aget a' k = aget a k) -> crep a' par t.
Proof.
  induction t as [|i l f s c0 IH0 c1 IH1]; intros par H Hs; cbn [crep cidx] in *; auto.
  destruct H as [H1 [H2 H3]]. split; [rewrite Hs by (left; reflexivity); exact H1|]. split.
  - apply IH0; auto. intros k Hk. apply Hs. right. apply in_or_app. left; exact Hk.
  - apply IH1; auto. intros k Hk. apply Hs. right. apply in_or_app. right; exact Hk.
Qed.
Lemma crep_occ a : forall t par k, crep a par t -> In k (cidx t) -> aget a k <> None.
Proof.
  induction t as [|i l f s c0 IH0 c1 IH1]; intros par k H Hk; cbn [crep cidx] in *; [contradiction|].
  destruct H as [H1 [H2 H3]]. destruct Hk as [<-|Hk]; [congruence|]. apply in_app_or in Hk as [Hk|Hk]; eauto.
Qed.

Fixpoint pdepth (t : ptree) : nat :=
  match t with U => 0%nat | T _ => 0%nat | D _ ch => S (fold_right (fun c acc => Nat.max (pdepth c) acc) 0%nat ch) end.

Definition rowl (dir : bool) (v : aff) : vec * Qc := if dir then row1 v else row0 v.

(* ---------------------------------------------------------------- graftp, case by case *)
Lemma U_dec (l : ptree) : {l = U} + {l <> U}.
Proof. destruct l; [left; reflexivity | right; discriminate | right; discriminate]. Qed.

Lemma graftp_both o tol s tf p l0 l1 top st i q k b0 k1 b1 k2 : l0 <> U -> l1 <> U ->
  explore o tol top st (q ++ [row0 (s_dec s p tf)]) k = (b0, k1) ->
  explore o tol top st (q ++ [row1 (s_dec s p tf)]) k1 = (b1, k2) ->
  graftp o tol s tf (D p [l0; l1]) top st i q k =
  if b0 then
    if b1 then
      let '(c1, k3) := graftp o tol s tf l1 false Indet new_idx (q ++ [row1 (s_dec s p tf)]) k2 in
      let '(c0, k4) := graftp o tol s tf l0 false Indet new_idx (q ++ [row0 (s_dec s p tf)]) k3 in
      (CN i false (s_dec s p tf) st c0 c1, k4)
    else graftp o tol s tf l0 false Indet new_idx q k2
  else graftp o tol s tf l1 false Indet new_idx q k2.
Proof.
  intros H0 H1 E0 E1. cbn [graftp].
  assert (P0 : pexists l0 = true) by (destruct l0; [congruence | reflexivity | reflexivity]).
  assert (P1 : pexists l1 = true) by (destruct l1; [congruence | reflexivity | reflexivity]).
  rewrite P0, P1, E0. cbn [negb orb]. rewrite Bool.orb_false_r. rewrite E1. cbn [andb].
  destruct b0, b1; cbn [negb orb xorb]; reflexivity.
Qed.
Lemma graftp_only0 o tol s tf p l0 top st i q k : l0 <> U ->
  graftp o tol s tf (D p [l0; U]) top st i q k =
  let '(c0, k4) := graftp o tol s tf l0 false Indet new_idx (q ++ [row0 (s_dec s p tf)])
                          (snd (explore o tol top st (q ++ [row0 (s_dec s p tf)]) k)) in
  (CN i false (s_dec s p tf) st c0 CU, k4).
Proof.
  intros H0. cbn [graftp].
  assert (P0 : pexists l0 = true) by (destruct l0; [congruence | reflexivity | reflexivity]).
  rewrite P0. cbn [pexists negb]. destruct (explore o tol top st (q ++ [row0 (s_dec s p tf)]) k) as [b k1].
  rewrite Bool.orb_true_r. cbn [andb snd]. reflexivity.
Qed.
Lemma graftp_only1 o tol s tf p l1 top st i q k : l1 <> U ->
  graftp o tol s tf (D p [U; l1]) top st i q k =
  let '(c1, k3) := graftp o tol s tf l1 false Indet new_idx (q ++ [row1 (s_dec s p tf)])
                          (snd (explore o tol top st (q ++ [row1 (s_dec s p tf)]) k)) in
  (CN i false (s_dec s p tf) st CU c1, k3).
Proof.
  intros H1. cbn [graftp].
  assert (P1 : pexists l1 = true) by (destruct l1; [congruence | reflexivity | reflexivity]).
  rewrite P1. cbn [pexists negb]. destruct (explore o tol top st (q ++ [row1 (s_dec s p tf)]) k) as [b k1].
  rewrite Bool.orb_true_r. cbn [andb snd]. reflexivity.
Qed.
(* the index handed to graftp only names the root of the result *)
Lemma graftp_idx o tol s tf L top st i j q k :
  snd (graftp o tol s tf L top st i q k) = snd (graftp o tol s tf L top st j q k) /\
  cshape (fst (graftp o tol s tf L top st i q k)) (fst (graftp o tol s tf L top st j q k)).
Proof.
  destruct L as [|f|p [|l0 [|l1 [|l2 ch]]]]; cbn [graftp fst snd cshape]; auto using cshape_refl.
  - repeat split; auto.
  - destruct (if pexists l0 then let '(b, k') := explore o tol top st (q ++ [row0 (s_dec s p tf)]) k in (b || negb (pexists l1), k') else (false, k)) as [keep0 k1].
    destruct (if pexists l1 then let '(b, k') := explore o tol top st (q ++ [row1 (s_dec s p tf)]) k1 in (b || negb keep0, k') else (false, k1)) as [keep1 k2].
    destruct (pexists l0 && pexists l1 && xorb keep0 keep1); [split; [reflexivity | apply cshape_refl]|].
    destruct (if keep1 then graftp o tol s tf l1 false Indet new_idx (q ++ [row1 (s_dec s p tf)]) k2 else (CU, k2)) as [c1 k3].
    destruct (if keep0 then graftp o tol s tf l0 false Indet new_idx (q ++ [row0 (s_dec s p tf)]) k3 else (CU, k3)) as [c0 k4].
    cbn [fst snd cshape]. repeat split; auto using cshape_refl.
Qed.

(* ---------------------------------------------------------------- one edge of the loop body, operation by operation *)
Lemma set_nth_restore (x0 x1 : option nat) l y : nth_error [x0; x1] l = Some None -> set_nth (set_nth [x0; x1] l y) l None = [x0; x1].
Proof. destruct l as [|[|l]]; cbn; intros H; inversion H; subst; reflexivity. Qed.

Lemma edge_ops alloc o tol pf z ae p1 v st chs dir c s tf k : fresh_alloc alloc ->
  zrep ae z p1 -> (length z < pf)%nat -> (forall fr, In fr z -> zf_idx fr <> p1) ->
  aget ae p1 = Some (mkcell (mkcont v st) (zpar z) chs (all_none chs)) ->
  length chs = 2%nat -> nth_error chs (zlab dir) = Some None ->
  (forall j, In (Some j) chs -> aget ae j <> None) ->
  exists a1, add_child 2 ae p1 (zlab dir) (mkcont (node_val s tf c) Indet) (alloc ae) = Some a1 /\
    aget a1 (alloc ae) = Some (leafcell (node_val s tf c) Indet (Some p1)) /\
    aget a1 p1 = Some (mkcell (mkcont v st) (zpar z) (set_nth chs (zlab dir) (Some (alloc ae))) false) /\
    (forall j, j <> alloc ae -> j <> p1 -> aget a1 j = aget ae j) /\
    is_edge_feasible o tol pf a1 p1 (alloc ae) k = Some (explore o tol (Nat.eqb p1 0) st (zrows z ++ [rowl dir v]) k) /\
    exists a2, a_remove_child a1 p1 (zlab dir) = Some a2 /\ forall j, aget a2 j = aget ae j.
Proof.
  intros Hf Hz Hlt Hnz Hp Hlen Hsl Hocc. set (key := alloc ae). assert (Hk : aget ae key = None) by apply Hf.
  assert (Hkp : key <> p1) by (intros E; rewrite E in Hk; congruence).
  destruct (add_child2_spec ae p1 (zlab dir) (mkcont (node_val s tf c) Indet) key _ Hk Hp Hsl) as [a1 [Ha [A1 [A2 A3]]]].
  cbn [c_val c_parent c_children] in A2.
  exists a1. split; [exact Ha|]. split; [exact A1|]. split; [exact A2|]. split; [exact A3|].
  destruct chs as [|x0 [|x1 [|x2 chs]]]; cbn [length] in Hlen; try lia.
  assert (Hz1 : zrep a1 z p1).
  { eapply zrep_stable; [exact Hz|]. intros fr Hin. apply A3; [|apply Hnz; exact Hin].
    destruct (zrep_frames ae z p1 fr Hz Hin) as [cf [Hcf _]]. intros E. rewrite E in Hcf. congruence. }
  assert (Hfl : find_label (set_nth [x0; x1] (zlab dir) (Some key)) key = Some (zlab dir)).
  { destruct dir; cbn [zlab set_nth find_label].
    - destruct x0 as [j|].
      + destruct (Nat.eqb_spec j key) as [E|_].
        * exfalso. apply (Hocc j); [left; reflexivity | rewrite E; exact Hk].
        * rewrite Nat.eqb_refl. reflexivity.
      + rewrite Nat.eqb_refl. reflexivity.
    - rewrite Nat.eqb_refl. reflexivity. }
  split.
  - unfold leafcell in A1. exact (is_edge_feasible_explore o tol pf a1 z p1 key v st _ dir _ _ _ k Hz1 Hlt A2 A1 Hfl).
  - destruct (a_remove_child_spec a1 p1 (zlab dir) _ key (mkcell (mkcont (node_val s tf c) Indet) (Some p1) [None; None] true) A2) as [a2 [Hr [R1 [R2 R3]]]].
    + cbn [c_children]. eapply nth_error_set_nth_same; eauto.
    + exact A1.
    + reflexivity.
    + exact Hkp.
    + exists a2. split; [exact Hr|]. intros j. destruct (Nat.eq_dec j key) as [->|Hjk]; [rewrite R1, Hk; reflexivity|].
      destruct (Nat.eq_dec j p1) as [->|Hjp].
      * rewrite R2, Hp. cbn [c_val c_parent c_children c_leaf]. rewrite (set_nth_restore x0 x1 _ _ Hsl).
        destruct (all_none [x0; x1]); reflexivity.
      * rewrite R3 by assumption. apply A3; assumption.
Qed.

(* ---------------------------------------------------------------- what one entry of the stack leaves behind *)
Record node_post (a : arena acont) (z : list zframe) (p1 : nat) (a' : arena acont) (T' : ctree) : Prop := {
  np_frame : forall k, k <> p1 -> zpar z <> Some k -> aget a k <> None -> aget a' k = aget a k;
  np_occ : forall k, k <> p1 -> aget a k <> None -> aget a' k <> None;
  np_root : exists r, cslot T' = Some r /\ zrep a' z r /\ (r = p1 \/ aget a r = None);
  np_rep : crep a' (zpar z) T';
  np_idx : forall k, In k (cidx T') -> k = p1 \/ aget a k = None;
  np_nodup : NoDup (cidx T');
  np_zero : aget a' 0%nat <> None;
  np_top : z = [] -> cslot T' = Some p1 }.

Definition zsib (z : list zframe) : option nat := match z with fr :: _ => zf_sib fr | [] => None end.

Definition big_prop (alloc : arena acont -> nat) (o : oracle) (tol : Qc) (pf : nat) (s : schema) (tf : aff) (L : ptree) : Prop :=
  forall a z p1 st rest k,
    aget a p1 = Some (leafcell (node_val s tf L) st (zpar z)) ->
    zrep a z p1 -> (length z + pdepth L < pf)%nat -> (z = [] -> p1 = 0%nat) -> aget a 0%nat <> None ->
    (forall j, zsib z = Some j -> aget a j <> None) ->
    exists n a' T',
      (n <= size L)%nat /\
      cshape T' (fst (graftp o tol s tf L (Nat.eqb p1 0) st p1 (zrows z) k)) /\
      (forall m, acp_loop alloc o tol pf 2 0 s tf (n + m) ((L, p1) :: rest) a k =
                 acp_loop alloc o tol pf 2 0 s tf m rest a' (snd (graftp o tol s tf L (Nat.eqb p1 0) st p1 (zrows z) k))) /\
      node_post a z p1 a' T'.

Lemma NoDup_app_intro {A} (l1 l2 : list A) : NoDup l1 -> NoDup l2 -> (forall x, In x l1 -> ~ In x l2) -> NoDup (l1 ++ l2).
Proof.
  induction l1 as [|x l1 IH]; intros H1 H2 Hd; cbn [app]; auto.
  inversion H1 as [|x' l' Hx Hn]; subst. constructor.
  - intros Hin. apply in_app_or in Hin as [Hin|Hin]; [contradiction|]. apply (Hd x); [left; reflexivity | exact Hin].
  - apply IH; auto. intros y Hy. apply Hd. right; exact Hy.
Qed.

(* ---------------------------------------------------------------- from what a child's entry leaves behind to the parent's *)
(* the only child *)
Lemma post_single a z p1 p' st dir key am a' Tc :
  aget a key = None -> aget a p1 <> None -> key <> p1 ->
  (forall j, j <> key -> j <> p1 -> aget am j = aget a j) -> aget am p1 <> None ->
  node_post am (mkZ p1 p' st dir None :: z) key a' Tc ->
  node_post a z p1 a' (CN p1 false p' st (if dir then CU else Tc) (if dir then Tc else CU)).
Proof.
  intros Hk Hp Hkp Ham Hamp N. destruct N as [Nf No [r [Nr1 [Nr2 Nr3]]] Nrep Ni Nd Nz Nt].
  cbn [zrep zf_idx zf_f zf_st zf_dir zf_sib] in Nr2. destruct Nr2 as [Hcell [_ Hz']].
  assert (Hnk : forall k, aget a k <> None -> k <> key) by (intros k H E; subst k; contradiction).
  assert (Hidx : forall k, In k (cidx Tc) -> k = p1 \/ aget a k = None).
  { intros k Hin. destruct (Ni k Hin) as [->|Hn]; [right; exact Hk|].
    destruct (Nat.eq_dec k p1) as [->|Hkp1]; [left; reflexivity|]. right.
    destruct (Nat.eq_dec k key) as [->|Hkk]; [exact Hk|]. rewrite <- Ham by assumption. exact Hn. }
  assert (Hp1 : ~ In p1 (cidx Tc)).
  { intros Hin. destruct (Ni p1 Hin) as [E|E]; [congruence | contradiction]. }
  constructor.
  - intros k H1 H2 H3. rewrite <- Ham by (auto). apply Nf; [auto | cbn [zpar zf_idx]; congruence | rewrite Ham by auto; exact H3].
  - intros k H1 H3. apply No; [auto | rewrite Ham by auto; exact H3].
  - exists p1. destruct dir; cbn [cslot]; auto.
  - cbn [zpar zf_idx] in Nrep.
    destruct dir; cbn [crep cslot zkids] in *; rewrite Nr1; (split; [exact Hcell | split; [auto | auto]]).
  - intros k Hin. destruct dir; cbn [cidx app] in Hin; rewrite ?app_nil_r in Hin; (destruct Hin as [<-|Hin]; [left; reflexivity | apply Hidx; exact Hin]).
  - destruct dir; cbn [cidx app]; rewrite ?app_nil_r; (constructor; [exact Hp1 | exact Nd]).
  - exact Nz.
  - intros _. reflexivity.
Qed.

(* both children: label 1 was processed first (with the pending child at label 0 as its sibling), then label 0 *)
Lemma post_both a z p1 p' st key0 key1 a2 a3 a4 T0 T1 :
  aget a key0 = None -> aget a key1 = None -> key0 <> key1 -> key0 <> p1 -> key1 <> p1 -> aget a p1 <> None ->
  (forall j, j <> key0 -> j <> key1 -> j <> p1 -> aget a2 j = aget a j) ->
  aget a2 key0 <> None -> aget a2 p1 <> None ->
  node_post a2 (mkZ p1 p' st true (Some key0) :: z) key1 a3 T1 ->
  node_post a3 (mkZ p1 p' st false (cslot T1) :: z) key0 a4 T0 ->
  node_post a z p1 a4 (CN p1 false p' st T0 T1).
Proof.
  intros Hk0 Hk1 H01 H0p H1p Hp Ha2 Ha2k0 Ha2p N1 N0.
  destruct N1 as [N1f N1o [r1 [N1r1 [N1r2 N1r3]]] N1rep N1i N1d N1z N1t].
  destruct N0 as [N0f N0o [r0 [N0r1 [N0r2 N0r3]]] N0rep N0i N0d N0z N0t].
  cbn [zrep zf_idx zf_f zf_st zf_dir zf_sib zpar] in *.
  destruct N0r2 as [Hcell [_ Hz']].
  assert (Hnk : forall k, aget a k <> None -> k <> key0 /\ k <> key1).
  { intros k H. split; intros E; subst k; contradiction. }
  assert (Hocc3 : forall k, k <> p1 -> aget a k <> None -> aget a3 k <> None).
  { intros k H1 H3. destruct (Hnk k H3) as [Hn0 Hn1]. apply N1o; [exact Hn1 | rewrite Ha2 by auto; exact H3]. }
  assert (Ha3p : aget a3 p1 <> None) by (apply N1o; auto).
  assert (Ha3k0 : aget a3 key0 <> None) by (apply N1o; auto).
  assert (Hi1 : forall k, In k (cidx T1) -> k <> key0 /\ k <> p1).
  { intros k Hin. split; intros E; subst k; (destruct (N1i _ Hin) as [E|E]; [congruence | contradiction]). }
  assert (Hi0 : forall k, In k (cidx T0) -> k <> p1).
  { intros k Hin E. subst k. destruct (N0i _ Hin) as [E|E]; [congruence | contradiction]. }
  constructor.
  - intros k H1 H2 H3. destruct (Hnk k H3) as [Hn0 Hn1].
    rewrite N0f; [| exact Hn0 | congruence | ].
    + rewrite N1f; [apply Ha2; auto | exact Hn1 | congruence | rewrite Ha2 by auto; exact H3].
    + apply Hocc3; auto.
  - intros k H1 H3. destruct (Hnk k H3) as [Hn0 Hn1]. apply N0o; [exact Hn0 | apply Hocc3; auto].
  - exists p1. cbn [cslot]. auto.
  - cbn [crep]. rewrite N0r1. cbn [zkids] in Hcell. split; [exact Hcell|]. split; [exact N0rep|].
    eapply crep_stable; [exact N1rep|]. intros k Hin. destruct (Hi1 k Hin) as [Hn0 Hnp].
    apply N0f; [exact Hn0 | congruence | eapply crep_occ; eauto].
  - intros k Hin. cbn [cidx] in Hin. destruct Hin as [<-|Hin]; [left; reflexivity|].
    destruct (Nat.eq_dec k p1) as [->|Hkp]; [left; reflexivity|]. right.
    destruct (aget a k) as [ck|] eqn:Ek; [exfalso | reflexivity].
    assert (Hs : aget a k <> None) by congruence. destruct (Hnk k Hs) as [Hn0 Hn1].
    apply in_app_or in Hin as [Hin|Hin].
    + destruct (N0i k Hin) as [E|E]; [congruence|]. apply (Hocc3 k Hkp Hs). exact E.
    + destruct (N1i k Hin) as [E|E]; [congruence|]. rewrite Ha2 in E by auto. contradiction.
  - cbn [cidx]. constructor.
    + intros Hin. apply in_app_or in Hin as [Hin|Hin]; [exact (Hi0 _ Hin eq_refl) | exact (proj2 (Hi1 _ Hin) eq_refl)].
    + apply NoDup_app_intro; auto. intros k Hin0 Hin1.
      assert (Hs3 : aget a3 k <> None) by (eapply crep_occ; eauto).
      destruct (N0i k Hin0) as [E|E]; [|contradiction]. subst k. exact (proj1 (Hi1 _ Hin1) eq_refl).
  - exact N0z.
  - intros _. reflexivity.
Qed.

(* the kept child took the node's place (merge_child_with_parent) *)
Lemma post_merge a z p1 key a5 a6 Tc g :
  zpar z = Some g -> aget a key = None -> key <> p1 -> g <> p1 ->
  aget a5 g <> None ->
  (forall j, j <> p1 -> j <> g -> j <> key -> aget a5 j = aget a j) ->
  node_post a5 z key a6 Tc ->
  node_post a z p1 a6 Tc.
Proof.
  intros Hg Hk Hkp Hgp Ha5g Ha5 N. destruct N as [Nf No [r [Nr1 [Nr2 Nr3]]] Nrep Ni Nd Nz Nt].
  assert (Hnk : forall k, aget a k <> None -> k <> key) by (intros k H E; subst k; contradiction).
  assert (Hocc5 : forall k, k <> p1 -> aget a k <> None -> aget a5 k <> None).
  { intros k H1 H3. destruct (Nat.eq_dec k g) as [->|Hkg]; [exact Ha5g|]. rewrite Ha5; auto. }
  assert (Hconv : forall k, k = key \/ aget a5 k = None -> k = p1 \/ aget a k = None).
  { intros k [->|E]; [right; exact Hk|]. destruct (Nat.eq_dec k p1) as [->|Hkp1]; [left; reflexivity|]. right.
    destruct (aget a k) as [ck|] eqn:Ek; [exfalso | reflexivity]. apply (Hocc5 k Hkp1); [congruence | exact E]. }
  constructor.
  - intros k H1 H2 H3. assert (Hkg : k <> g) by congruence.
    rewrite Nf; [apply Ha5; auto | auto | exact H2 | rewrite Ha5 by auto; exact H3].
  - intros k H1 H3. apply No; [auto | apply Hocc5; auto].
  - exists r. split; [exact Nr1|]. split; [exact Nr2|]. apply Hconv. exact Nr3.
  - exact Nrep.
  - intros k Hin. apply Hconv. apply Ni. exact Hin.
  - exact Nd.
  - exact Nz.
  - intros E. rewrite E in Hg. discriminate.
Qed.

Lemma acp_loop_step alloc o tol pf K root s tf f L p1 rest a k :
  acp_loop alloc o tol pf K root s tf (S f) ((L, p1) :: rest) a k =
  obnd (acp_node alloc o tol pf K root s tf L p1 a rest k)
       (fun r => acp_loop alloc o tol pf K root s tf f (snd (fst r)) (fst (fst r)) (snd r)).
Proof. reflexivity. Qed.
Lemma acp_edges_cons alloc o tol pf K s tf p1 n l c r pos e :
  acp_edges alloc o tol pf K s tf p1 n ((l, c) :: r) pos e =
  obnd (add_child K (e_a e) p1 l (mkcont (node_val s tf c) Indet) (alloc (e_a e))) (fun a1 =>
  obnd (is_edge_feasible o tol pf a1 p1 (alloc (e_a e)) (e_k e)) (fun bk =>
  if fst bk || (Nat.eqb (e_created e) 0 && Nat.eqb (S pos) n) then
    acp_edges alloc o tol pf K s tf p1 n r (S pos)
              (mkE a1 ((c, alloc (e_a e)) :: e_stk e) (snd bk) (S (e_created e)) (e_skipped e) (Some l))
  else
    obnd (a_remove_child a1 p1 l) (fun a2 =>
    acp_edges alloc o tol pf K s tf p1 n r (S pos)
              (mkE a2 (e_stk e) (snd bk) (e_created e) (S (e_skipped e)) (e_lab e))))).
Proof. reflexivity. Qed.
Lemma edges_two l0 l1 : l0 <> U -> l1 <> U -> edges_from 0 [l0; l1] = [(0%nat, l0); (1%nat, l1)].
Proof. intros H0 H1. destruct l0; [congruence| |]; (destruct l1; [congruence| |]); reflexivity. Qed.
Lemma edges_only0 l0 : l0 <> U -> edges_from 0 [l0; U] = [(0%nat, l0)].
Proof. intros H0. destruct l0; [congruence| |]; reflexivity. Qed.
Lemma edges_only1 l1 : l1 <> U -> edges_from 0 [U; l1] = [(1%nat, l1)].
Proof. intros H1. destruct l1; [congruence| |]; reflexivity. Qed.


Lemma zrep_after_add a a1 z p1 key : zrep a z p1 -> (forall fr, In fr z -> zf_idx fr <> p1) -> aget a key = None ->
  (forall j, j <> key -> j <> p1 -> aget a1 j = aget a j) -> zrep a1 z p1.
Proof.
  intros Hz Hnz Hk Ho. eapply zrep_stable; [exact Hz|]. intros fr Hin. apply Ho; [|apply Hnz; exact Hin].
  destruct (zrep_frames a z p1 fr Hz Hin) as [cf [Hcf _]]. intros E. rewrite E in Hcf. congruence.
Qed.

Lemma big_single alloc o tol pf s tf p ch dir lc : fresh_alloc alloc ->
  big_prop alloc o tol pf s tf lc ->
  edges_from 0 ch = [(zlab dir, lc)] ->
  (S (size lc) <= size (D p ch))%nat -> (S (pdepth lc) <= pdepth (D p ch))%nat ->
  (forall top st i q k, graftp o tol s tf (D p ch) top st i q k =
     let '(c, k') := graftp o tol s tf lc false Indet new_idx (q ++ [rowl dir (s_dec s p tf)])
                            (snd (explore o tol top st (q ++ [rowl dir (s_dec s p tf)]) k)) in
     (CN i false (s_dec s p tf) st (if dir then CU else c) (if dir then c else CU), k')) ->
  big_prop alloc o tol pf s tf (D p ch).
Proof.
  intros Hf IH Hedges Hsize Hdepth Hgraft a z p1 st rest k Hp Hz Hlt Hroot H0 Hsib.
  cbn [node_val] in Hp. set (p' := s_dec s p tf) in *.
  assert (Hnz : forall fr, In fr z -> zf_idx fr <> p1).
  { intros fr Hin E. destruct (zrep_frames a z p1 fr Hz Hin) as [cf [Hcf Hlf]]. rewrite E, Hp in Hcf.
    inversion Hcf; subst cf. discriminate. }
  assert (Hlt' : (length z < pf)%nat) by lia.
  assert (Hpo : aget a p1 <> None) by congruence.
  assert (Hocc0 : forall j, In (Some j) [@None nat; None] -> aget a j <> None).
  { intros j [E|[E|[]]]; discriminate. }
  assert (Hsl : nth_error [@None nat; None] (zlab dir) = Some None) by (destruct dir; reflexivity).
  destruct (edge_ops alloc o tol pf z a p1 p' st [None; None] dir lc s tf k Hf Hz Hlt' Hnz Hp eq_refl Hsl Hocc0)
    as [a1 [Ha1 [A1k [A1p [A1o [Hief _]]]]]].
  set (key := alloc a) in *. assert (Hk : aget a key = None) by apply Hf.
  assert (Hkp : key <> p1) by (intros E; rewrite E in Hk; contradiction).
  assert (Hk0 : key <> 0%nat) by (intros E; rewrite E in Hk; contradiction).
  set (q' := zrows z ++ [rowl dir p']) in *.
  set (k1 := snd (explore o tol (p1 =? 0) st q' k)).
  assert (Hnode : acp_node alloc o tol pf 2 0 s tf (D p ch) p1 a rest k = Some (a1, (lc, key) :: rest, k1)).
  { unfold acp_node. rewrite Hedges. cbn [length]. rewrite acp_edges_cons. cbn [e_a e_k e_created e_stk e_skipped e_lab].
    fold key. rewrite Ha1. cbn [obnd]. rewrite Hief. cbn [obnd Nat.eqb andb]. rewrite Bool.orb_true_r.
    cbn [acp_edges obnd e_a e_k e_created e_stk e_skipped e_lab Nat.eqb Nat.add andb]. reflexivity. }
  set (fr := mkZ p1 p' st dir None).
  assert (Hz1 : zrep a1 z p1) by (eapply zrep_after_add; eauto).
  assert (Hzf : zrep a1 (fr :: z) key).
  { cbn [zrep fr zf_idx zf_f zf_st zf_dir zf_sib]. split; [|split; [discriminate | exact Hz1]].
    rewrite A1p. destruct dir; reflexivity. }
  assert (H01 : aget a1 0%nat <> None).
  { destruct (Nat.eq_dec 0 p1) as [E|E]; [rewrite E, A1p; discriminate|]. rewrite A1o by auto. exact H0. }
  destruct (IH a1 (fr :: z) key Indet rest k1) as [n [a' [Tc [Hn [Hsh [Hloop N]]]]]].
  - exact A1k.
  - exact Hzf.
  - cbn [length]. lia.
  - discriminate.
  - exact H01.
  - cbn [zsib fr zf_sib]. discriminate.
  - assert (Ek0 : Nat.eqb key 0 = false) by (apply Nat.eqb_neq; exact Hk0). rewrite Ek0 in Hsh, Hloop.
    assert (Eq : zrows (fr :: z) = q') by (cbn [zrows zrow fr zf_dir zf_f]; destruct dir; reflexivity).
    rewrite Eq in Hsh, Hloop.
    destruct (graftp_idx o tol s tf lc false Indet key new_idx q' k1) as [Gk Gs].
    exists (S n), a', (CN p1 false p' st (if dir then CU else Tc) (if dir then Tc else CU)).
    split; [lia|]. split; [|split].
    + rewrite Hgraft. fold p' q' k1. destruct (graftp o tol s tf lc false Indet new_idx q' k1) as [c k'] eqn:Eg.
      cbn [fst] in *. pose proof (cshape_trans _ _ _ Hsh Gs) as Hc.
      destruct dir; cbn [cshape]; repeat split; auto.
    + intros m. change (S n + m)%nat with (S (n + m)). rewrite acp_loop_step, Hnode. cbn [obnd fst snd].
      rewrite Hloop. rewrite Gk. rewrite Hgraft. fold p' q' k1.
      destruct (graftp o tol s tf lc false Indet new_idx q' k1) as [c k'] eqn:Eg. reflexivity.
    + eapply post_single; eauto. rewrite A1p. discriminate.
Qed.

(* the parent pointers determine the spine: no index occurs twice on it *)
Lemma zrep_chain a : forall z1 z2 h1 h2, zrep a z1 h1 -> zrep a z2 h2 -> zpar z1 = zpar z2 -> length z1 = length z2.
Proof.
  induction z1 as [|f1 z1 IH]; intros [|f2 z2] h1 h2 H1 H2 E; cbn [zpar] in E; try discriminate; auto.
  cbn [zrep] in H1, H2. destruct H1 as [C1 [_ R1]]. destruct H2 as [C2 [_ R2]]. inversion E as [E']. rewrite E' in C1.
  rewrite C1 in C2. inversion C2. cbn [length]. f_equal. eapply IH; eauto.
Qed.
Lemma zrep_suffix a : forall pre l h, zrep a (pre ++ l) h -> exists h', zrep a l h'.
Proof.
  induction pre as [|f pre IH]; intros l h H; cbn [app] in H; [eauto|]. cbn [zrep] in H. destruct H as [_ [_ H]]. eauto.
Qed.
Lemma zrep_head_fresh a fr z h : zrep a (fr :: z) h -> forall fr', In fr' z -> zf_idx fr' <> zf_idx fr.
Proof.
  intros H fr' Hin E. apply in_split in Hin as [pre [post ->]].
  assert (H' := H). cbn [zrep] in H'. destruct H' as [_ [_ Hz]].
  destruct (zrep_suffix a pre (fr' :: post) _ Hz) as [h' Hs].
  assert (L := zrep_chain a (fr :: pre ++ fr' :: post) (fr' :: post) h h' H Hs).
  cbn [zpar] in L. rewrite E in L. specialize (L eq_refl). cbn [length] in L. rewrite app_length in L. cbn [length] in L. lia.
Qed.

(* exactly one of two edges was kept: merge_child_with_parent, then the kept child in the node's place *)
Lemma merge_continue alloc o tol pf s tf lc dir : fresh_alloc alloc -> big_prop alloc o tol pf s tf lc ->
  forall a z p1 p' st rest k am key,
    aget a p1 = Some (leafcell p' st (zpar z)) -> zrep a z p1 -> (length z + pdepth lc < pf)%nat ->
    (z = [] -> p1 = 0%nat) -> aget a 0%nat <> None -> (forall j, zsib z = Some j -> aget a j <> None) ->
    p1 <> 0%nat -> aget a key = None ->
    aget am key = Some (leafcell (node_val s tf lc) Indet (Some p1)) ->
    aget am p1 = Some (mkcell (mkcont p' st) (zpar z) (set_nth [None; None] (zlab dir) (Some key)) false) ->
    (forall j, j <> key -> j <> p1 -> aget am j = aget a j) ->
    exists a5, a_merge 0 am p1 (zlab dir) = Some a5 /\
    exists n a' T', (n <= size lc)%nat /\
      cshape T' (fst (graftp o tol s tf lc false Indet new_idx (zrows z) k)) /\
      (forall m, acp_loop alloc o tol pf 2 0 s tf (n + m) ((lc, key) :: rest) a5 k =
                 acp_loop alloc o tol pf 2 0 s tf m rest a' (snd (graftp o tol s tf lc false Indet new_idx (zrows z) k))) /\
      node_post a z p1 a' T'.
Proof.
  intros Hf IH a z p1 p' st rest k am key Hp Hz Hlt Hroot H0 Hsib Hp10 Hk Amk Amp Amo.
  assert (Hnz : forall fr, In fr z -> zf_idx fr <> p1).
  { intros fr Hin E. destruct (zrep_frames a z p1 fr Hz Hin) as [cf [Hcf Hlf]]. rewrite E, Hp in Hcf.
    inversion Hcf; subst cf. discriminate. }
  destruct z as [|fr z']; [exfalso; apply Hp10; apply Hroot; reflexivity|].
  set (g := zf_idx fr). assert (Hz' := Hz). cbn [zrep] in Hz'. destruct Hz' as [Hg [Hsp Hzz]]. fold g in Hg, Hzz.
  assert (Hgp : g <> p1) by (apply Hnz; left; reflexivity).
  assert (Hkp : key <> p1) by (intros E; rewrite E in Hk; congruence).
  assert (Hgk : g <> key) by (intros E; rewrite E in Hg; congruence).
  assert (Hk0 : key <> 0%nat) by (intros E; rewrite E in Hk; contradiction).
  assert (Amg : aget am g = aget a g) by (apply Amo; auto).
  rewrite Hg in Amg.
  destruct (a_merge_spec 0 am p1 (zlab dir) _ key (leafcell (node_val s tf lc) Indet (Some p1)) g
              (mkcell (mkcont (zf_f fr) (zf_st fr)) (zpar z') (zkids (zf_dir fr) p1 (zf_sib fr)) false) (zlab (zf_dir fr)) Amp)
    as [a5 [Hm [M1 [M2 [M3 M4]]]]].
  - cbn [c_children]. destruct dir; reflexivity.
  - auto.
  - cbn [c_children]. destruct dir; reflexivity.
  - exact Amk.
  - reflexivity.
  - exact Amg.
  - cbn [c_children]. apply find_label_zkids. exact Hsp.
  - exact Hgk.
  - exact Hgp.
  - exact Hkp.
  - exists a5. split; [exact Hm|].
    cbn [c_val c_parent c_children c_leaf leafcell] in M2, M3.
    assert (Hsk : zf_sib fr <> Some key).
    { intros E. apply (Hsib key); [exact E | exact Hk]. }
    assert (Ha5 : forall j, j <> p1 -> j <> g -> j <> key -> aget a5 j = aget a j).
    { intros j J1 J2 J3. rewrite M4 by auto. apply Amo; auto. }
    assert (Hz5 : zrep a5 (fr :: z') key).
    { eapply zrep_rehang; [exact Hz|]. fold g. split; [|split; [exact Hsk|]].
      - rewrite M2. destruct (zf_dir fr); reflexivity.
      - intros fr' Hin. apply Ha5.
        + apply Hnz. right; exact Hin.
        + apply (zrep_head_fresh a fr z' p1 Hz fr' Hin).
        + destruct (zrep_frames a z' g fr' Hzz Hin) as [cf [Hcf _]]. intros E. rewrite E in Hcf. congruence. }
    assert (H05 : aget a5 0%nat <> None).
    { destruct (Nat.eq_dec 0 g) as [E|E]; [rewrite E, M2; discriminate|].
      destruct (Nat.eq_dec 0 key) as [E'|E']; [rewrite E', M3; discriminate|]. rewrite Ha5; auto. }
    destruct (IH a5 (fr :: z') key Indet rest k) as [n [a' [Tc [Hn [Hsh [Hloop N]]]]]].
    + rewrite M3. reflexivity.
    + exact Hz5.
    + exact Hlt.
    + discriminate.
    + exact H05.
    + cbn [zsib]. intros j Ej. assert (Hj : aget a j <> None) by (apply Hsib; exact Ej).
      destruct (Nat.eq_dec j g) as [->|Jg]; [rewrite M2; discriminate|].
      rewrite Ha5; [exact Hj | congruence | exact Jg | intros ->; contradiction].
    + assert (Ek0 : Nat.eqb key 0 = false) by (apply Nat.eqb_neq; exact Hk0). rewrite Ek0 in Hsh, Hloop.
      destruct (graftp_idx o tol s tf lc false Indet key new_idx (zrows (fr :: z')) k) as [Gk Gs].
      exists n, a', Tc. split; [exact Hn|]. split; [eapply cshape_trans; eauto|]. split.
      * intros m. rewrite Hloop, Gk. reflexivity.
      * eapply (post_merge a (fr :: z') p1 key a5 a' Tc g); eauto. rewrite M2. discriminate.
Qed.

Lemma cslot_in t r : cslot t = Some r -> In r (cidx t).
Proof. destruct t; cbn [cslot cidx]; intros H; inversion H; subst. left; reflexivity. Qed.

Lemma big_both alloc o tol pf s tf p l0 l1 : fresh_alloc alloc -> l0 <> U -> l1 <> U ->
  big_prop alloc o tol pf s tf l0 -> big_prop alloc o tol pf s tf l1 -> big_prop alloc o tol pf s tf (D p [l0; l1]).
Proof.
  intros Hf N0 N1 IH0 IH1 a z p1 st rest k Hp Hz Hlt Hroot H0 Hsib.
  cbn [node_val] in Hp. set (p' := s_dec s p tf) in *.
  assert (Hnz : forall fr, In fr z -> zf_idx fr <> p1).
  { intros fr Hin E. destruct (zrep_frames a z p1 fr Hz Hin) as [cf [Hcf Hlf]]. rewrite E, Hp in Hcf.
    inversion Hcf; subst cf. discriminate. }
  cbn [pdepth fold_right] in Hlt.
  assert (Hlt' : (length z < pf)%nat) by lia.
  assert (Hpo : aget a p1 <> None) by congruence.
  assert (Hocc0 : forall j, In (Some j) [@None nat; None] -> aget a j <> None).
  { intros j [E|[E|[]]]; discriminate. }
  destruct (edge_ops alloc o tol pf z a p1 p' st [None; None] false l0 s tf k Hf Hz Hlt' Hnz Hp eq_refl eq_refl Hocc0)
    as [a1 [Ha1 [A1k [A1p [A1o [Hief0 [a2 [Hr0 A2]]]]]]]].
  cbn [zlab set_nth rowl] in Ha1, A1p, Hief0, Hr0.
  set (key0 := alloc a) in *. assert (Hk0 : aget a key0 = None) by apply Hf.
  assert (Hk0p : key0 <> p1) by (intros E; rewrite E in Hk0; contradiction).
  assert (Hk00 : key0 <> 0%nat) by (intros E; rewrite E in Hk0; contradiction).
  set (q0 := zrows z ++ [row0 p']) in *. set (q1 := zrows z ++ [row1 p']).
  destruct (explore o tol (p1 =? 0) st q0 k) as [b0 k1] eqn:Ex0.
  destruct b0.
  - (* edge 0 kept *)
    assert (Hz1 : zrep a1 z p1) by (eapply zrep_after_add; eauto).
    assert (Hocc1 : forall j, In (Some j) [Some key0; None] -> aget a1 j <> None).
    { intros j [E|[E|[]]]; [|discriminate]. inversion E; subst j. rewrite A1k. discriminate. }
    destruct (edge_ops alloc o tol pf z a1 p1 p' st [Some key0; None] true l1 s tf k1 Hf Hz1 Hlt' Hnz A1p eq_refl eq_refl Hocc1)
      as [a3 [Ha3 [A3k [A3p [A3o [Hief1 [a4 [Hr1 A4]]]]]]]].
    cbn [zlab set_nth rowl] in Ha3, A3p, Hief1, Hr1. fold q1 in Hief1.
    set (key1 := alloc a1) in *. assert (Hk1a1 : aget a1 key1 = None) by apply Hf.
    assert (Hk1p : key1 <> p1) by (intros E; rewrite E, A1p in Hk1a1; discriminate).
    assert (Hk01 : key0 <> key1) by (intros E; rewrite <- E, A1k in Hk1a1; discriminate).
    assert (Hk1 : aget a key1 = None) by (rewrite <- A1o by auto; exact Hk1a1).
    assert (Hk10 : key1 <> 0%nat) by (intros E; rewrite E in Hk1; contradiction).
    destruct (explore o tol (p1 =? 0) st q1 k1) as [b1 k2] eqn:Ex1.
    destruct b1.
    + (* both kept *)
      assert (Hnode : acp_node alloc o tol pf 2 0 s tf (D p [l0; l1]) p1 a rest k = Some (a3, (l1, key1) :: (l0, key0) :: rest, k2)).
      { unfold acp_node. rewrite (edges_two l0 l1 N0 N1). cbn [length]. rewrite acp_edges_cons.
        cbn [e_a e_k e_created e_stk e_skipped e_lab]. fold key0. rewrite Ha1. cbn [obnd]. rewrite Hief0. cbn [obnd fst snd orb].
        rewrite acp_edges_cons. cbn [e_a e_k e_created e_stk e_skipped e_lab]. fold key1. rewrite Ha3. cbn [obnd]. rewrite Hief1.
        cbn [obnd fst snd orb acp_edges e_a e_k e_created e_stk e_skipped e_lab Nat.eqb Nat.add andb]. reflexivity. }
      set (fr1 := mkZ p1 p' st true (Some key0)).
      assert (Hz3 : zrep a3 z p1) by (eapply zrep_after_add; eauto).
      assert (A3k0 : aget a3 key0 = Some (leafcell (node_val s tf l0) Indet (Some p1))) by (rewrite A3o by auto; exact A1k).
      assert (Hzf1 : zrep a3 (fr1 :: z) key1).
      { cbn [zrep fr1 zf_idx zf_f zf_st zf_dir zf_sib zkids]. split; [exact A3p|]. split; [congruence | exact Hz3]. }
      assert (H03 : aget a3 0%nat <> None).
      { destruct (Nat.eq_dec 0 p1) as [E|E]; [rewrite E, A3p; discriminate|]. rewrite A3o, A1o by auto. exact H0. }
      destruct (IH1 a3 (fr1 :: z) key1 Indet ((l0, key0) :: rest) k2) as [n1 [a5 [T1 [Hn1 [Hsh1 [Hloop1 Np1]]]]]].
      { exact A3k. } { exact Hzf1. } { cbn [length]. lia. } { discriminate. } { exact H03. }
      { cbn [zsib fr1 zf_sib]. intros j E. inversion E; subst j. rewrite A3k0. discriminate. }
      assert (Ek1 : Nat.eqb key1 0 = false) by (apply Nat.eqb_neq; exact Hk10). rewrite Ek1 in Hsh1, Hloop1.
      assert (Eq1 : zrows (fr1 :: z) = q1) by reflexivity. rewrite Eq1 in Hsh1, Hloop1.
      destruct (graftp_idx o tol s tf l1 false Indet key1 new_idx q1 k2) as [Gk1 Gs1].
      rewrite Gk1 in Hloop1.
      destruct (graftp o tol s tf l1 false Indet new_idx q1 k2) as [c1 k3] eqn:Eg1. cbn [fst snd] in *.
      assert (Np1' := Np1). destruct Np1' as [N1f N1o [r1 [N1r1 [N1r2 N1r3]]] N1rep N1i N1d N1z N1t].
      set (fr0 := mkZ p1 p' st false (cslot T1)).
      assert (A5k0 : aget a5 key0 = Some (leafcell (node_val s tf l0) Indet (Some p1))).
      { rewrite N1f; [exact A3k0 | auto | cbn [zpar fr1 zf_idx]; congruence | rewrite A3k0; discriminate]. }
      assert (Hzf0 : zrep a5 (fr0 :: z) key0).
      { cbn [zrep fr1 zf_idx zf_f zf_st zf_dir zf_sib zkids] in N1r2. destruct N1r2 as [C5 [_ Hz5]].
        cbn [zrep fr0 zf_idx zf_f zf_st zf_dir zf_sib zkids]. rewrite N1r1. split; [exact C5|]. split; [|exact Hz5].
        intros E. inversion E; subst r1. destruct N1r3 as [E'|E']; [congruence | rewrite A3k0 in E'; discriminate]. }
      destruct (IH0 a5 (fr0 :: z) key0 Indet rest k3) as [n0 [a6 [T0 [Hn0 [Hsh0 [Hloop0 Np0]]]]]].
      { exact A5k0. } { exact Hzf0. } { cbn [length]. lia. } { discriminate. } { exact N1z. }
      { cbn [zsib fr0 zf_sib]. intros j E. eapply crep_occ; [exact N1rep | apply cslot_in; exact E]. }
      assert (Ek0 : Nat.eqb key0 0 = false) by (apply Nat.eqb_neq; exact Hk00). rewrite Ek0 in Hsh0, Hloop0.
      assert (Eq0 : zrows (fr0 :: z) = q0) by reflexivity. rewrite Eq0 in Hsh0, Hloop0.
      destruct (graftp_idx o tol s tf l0 false Indet key0 new_idx q0 k3) as [Gk0 Gs0].
      rewrite Gk0 in Hloop0.
      destruct (graftp o tol s tf l0 false Indet new_idx q0 k3) as [c0 k4] eqn:Eg0. cbn [fst snd] in *.
      exists (S (n1 + n0)), a6, (CN p1 false p' st T0 T1).
      rewrite (graftp_both o tol s tf p l0 l1 (p1 =? 0) st p1 (zrows z) k true k1 true k2 N0 N1 Ex0 Ex1).
      fold p' q0 q1. rewrite Eg1, Eg0. cbn [fst snd cshape].
      split; [cbn [size fold_right]; lia|]. split; [|split].
      * repeat split; auto; eapply cshape_trans; eauto.
      * intros m. replace (S (n1 + n0) + m)%nat with (S (n1 + (n0 + m))) by lia.
        rewrite acp_loop_step, Hnode. cbn [obnd fst snd]. rewrite Hloop1. apply Hloop0.
      * eapply (post_both a z p1 p' st key0 key1 a3 a5 a6 T0 T1); eauto.
        -- intros j J0 J1 Jp. rewrite A3o, A1o by auto. reflexivity.
        -- rewrite A3k0. discriminate.
        -- rewrite A3p. discriminate.
    + (* only edge 0 kept: child 1 removed, child 0 merged into the node's place *)
      assert (Hp10 : p1 <> 0%nat).
      { intros E. rewrite E in Ex1. cbn [Nat.eqb explore] in Ex1. inversion Ex1. }
      assert (Hnode : acp_node alloc o tol pf 2 0 s tf (D p [l0; l1]) p1 a rest k =
                      obnd (a_merge 0 a4 p1 0) (fun a5 => Some (a5, (l0, key0) :: rest, k2))).
      { unfold acp_node. rewrite (edges_two l0 l1 N0 N1). cbn [length]. rewrite acp_edges_cons.
        cbn [e_a e_k e_created e_stk e_skipped e_lab]. fold key0. rewrite Ha1. cbn [obnd]. rewrite Hief0. cbn [obnd fst snd orb].
        rewrite acp_edges_cons. cbn [e_a e_k e_created e_stk e_skipped e_lab]. fold key1. rewrite Ha3. cbn [obnd]. rewrite Hief1.
        cbn [obnd fst snd orb Nat.eqb andb]. rewrite Hr1.
        cbn [obnd acp_edges e_a e_k e_created e_stk e_skipped e_lab Nat.eqb Nat.add andb]. reflexivity. }
      destruct (merge_continue alloc o tol pf s tf l0 false Hf IH0 a z p1 p' st rest k2 a4 key0) as [a5 [Hm [n [a' [T' [Hn [Hsh [Hloop Np]]]]]]]]; auto.
      { lia. } { rewrite A4. exact A1k. } { rewrite A4. exact A1p. } { intros j J1 J2. rewrite A4. apply A1o; auto. }
      exists (S n), a', T'.
      rewrite (graftp_both o tol s tf p l0 l1 (p1 =? 0) st p1 (zrows z) k true k1 false k2 N0 N1 Ex0 Ex1).
      split; [cbn [size fold_right]; lia|]. split; [exact Hsh|]. split; [|exact Np].
      intros m. change (S n + m)%nat with (S (n + m)). rewrite acp_loop_step, Hnode. cbn [zlab] in Hm. rewrite Hm. cbn [obnd fst snd].
      apply Hloop.
  - (* edge 0 dropped: the last edge is kept whatever its test says, and merged into the node's place *)
    assert (Hp10 : p1 <> 0%nat).
    { intros E. rewrite E in Ex0. cbn [Nat.eqb explore] in Ex0. inversion Ex0. }
    assert (Hz2 : zrep a2 z p1) by (eapply zrep_stable; [exact Hz | intros fr _; apply A2]).
    assert (Hp2 : aget a2 p1 = Some (leafcell p' st (zpar z))) by (rewrite A2; exact Hp).
    assert (Hocc2 : forall j, In (Some j) [@None nat; None] -> aget a2 j <> None).
    { intros j [E|[E|[]]]; discriminate. }
    destruct (edge_ops alloc o tol pf z a2 p1 p' st [None; None] true l1 s tf k1 Hf Hz2 Hlt' Hnz Hp2 eq_refl eq_refl Hocc2)
      as [a3 [Ha3 [A3k [A3p [A3o [Hief1 _]]]]]].
    cbn [zlab rowl] in Ha3, Hief1. fold q1 in Hief1.
    set (key1 := alloc a2) in *. assert (Hk1a2 : aget a2 key1 = None) by apply Hf.
    assert (Hk1 : aget a key1 = None) by (rewrite <- A2; exact Hk1a2).
    destruct (explore o tol (p1 =? 0) st q1 k1) as [b1 k2] eqn:Ex1.
    assert (Hnode : acp_node alloc o tol pf 2 0 s tf (D p [l0; l1]) p1 a rest k =
                    obnd (a_merge 0 a3 p1 1) (fun a5 => Some (a5, (l1, key1) :: rest, k2))).
    { unfold acp_node. rewrite (edges_two l0 l1 N0 N1). cbn [length]. rewrite acp_edges_cons.
      cbn [e_a e_k e_created e_stk e_skipped e_lab]. fold key0. rewrite Ha1. cbn [obnd]. rewrite Hief0.
      cbn [obnd fst snd orb Nat.eqb andb]. rewrite Hr0. cbn [obnd].
      rewrite acp_edges_cons. cbn [e_a e_k e_created e_stk e_skipped e_lab]. fold key1. rewrite Ha3. cbn [obnd]. rewrite Hief1.
      cbn [obnd fst snd Nat.eqb andb]. rewrite Bool.orb_true_r.
      cbn [obnd acp_edges e_a e_k e_created e_stk e_skipped e_lab Nat.eqb Nat.add andb]. reflexivity. }
    destruct (merge_continue alloc o tol pf s tf l1 true Hf IH1 a z p1 p' st rest k2 a3 key1) as [a5 [Hm [n [a' [T' [Hn [Hsh [Hloop Np]]]]]]]]; auto.
    { lia. } { intros j J1 J2. rewrite A3o by auto. apply A2. }
    exists (S n), a', T'.
    rewrite (graftp_both o tol s tf p l0 l1 (p1 =? 0) st p1 (zrows z) k false k1 b1 k2 N0 N1 Ex0 Ex1).
    split; [cbn [size fold_right]; lia|]. split; [exact Hsh|]. split; [|exact Np].
    intros m. change (S n + m)%nat with (S (n + m)). rewrite acp_loop_step, Hnode. cbn [zlab] in Hm. rewrite Hm. cbn [obnd fst snd].
    apply Hloop.
Qed.

(* ---------------------------------------------------------------- one entry of the stack, for every lhs *)
Theorem acp_big alloc o tol pf s tf : fresh_alloc alloc -> forall L, karity 2 L -> L <> U -> big_prop alloc o tol pf s tf L.
Proof.
  intros Hf. induction L as [| f | p ch IH] using ptree_ind'; intros HL HnU; [congruence| |].
  - (* a terminal of lhs: popped, no edges *)
    intros a z p1 st rest k Hp Hz Hlt Hroot H0 Hsib. cbn [node_val] in Hp.
    exists 1%nat, a, (CN p1 true (s_term s f tf) st CU CU). cbn [graftp fst snd size].
    split; [lia|]. split; [apply cshape_refl|]. split; [intros m; reflexivity|].
    constructor; auto.
    + exists p1. cbn [cslot]. auto.
    + cbn [crep cslot]. auto.
    + intros k0 [<-|[]]. left; reflexivity.
    + cbn [cidx app]. constructor; [intros []|constructor].
  - inversion HL as [| | p0 ch0 Hlen [c [Hc HcU]] Hch]; subst p0 ch0.
    destruct ch as [|l0 [|l1 [|l2 ch]]]; cbn [length] in Hlen; try lia.
    apply Forall_cons_iff in IH as [IH0 IH]. apply Forall_cons_iff in IH as [IH1 _].
    apply Forall_cons_iff in Hch as [K0 Hch]. apply Forall_cons_iff in Hch as [K1 _].
    destruct (U_dec l0) as [E0|N0]; destruct (U_dec l1) as [E1|N1].
    + exfalso. destruct Hc as [<-|[<-|[]]]; contradiction.
    + subst l0. eapply (big_single alloc o tol pf s tf p [U; l1] true l1 Hf (IH1 K1 N1)).
      * apply edges_only1; exact N1.
      * cbn [size fold_right]. lia.
      * cbn [pdepth fold_right]. lia.
      * intros top st i q k. rewrite graftp_only1 by exact N1. reflexivity.
    + subst l1. eapply (big_single alloc o tol pf s tf p [l0; U] false l0 Hf (IH0 K0 N0)).
      * apply edges_only0; exact N0.
      * cbn [size fold_right]. lia.
      * cbn [pdepth fold_right]. lia.
      * intros top st i q k. rewrite graftp_only0 by exact N0. reflexivity.
    + apply big_both; auto.
Qed.

(* ---------------------------------------------------------------- one terminal of the receiver (the body of the outer loop) *)
Lemma acp_loop_nil alloc o tol pf K root s tf m a k : (0 < m)%nat -> acp_loop alloc o tol pf K root s tf m [] a k = Some (a, k).
Proof. destruct m; [lia | reflexivity]. Qed.

(* for a terminal i with function tf and cached state st whose spine (the cells the parent pointers lead through) is z:
   the machine terminates with any fuel > size L, whatever the allocator hands out, and leaves below the place of i a
   tree of the shape graftp computes from the rows of the spine, with the counters of graftp *)
Theorem acp_at_refines alloc o tol pf s L a z i tf st k : fresh_alloc alloc -> karity 2 L -> L <> U ->
  aget a i = Some (leafcell tf st (zpar z)) -> zrep a z i -> (length z + pdepth L < pf)%nat ->
  (z = [] -> i = 0%nat) -> aget a 0%nat <> None -> (forall j, zsib z = Some j -> aget a j <> None) ->
  exists a' T',
    (forall fuel, (size L < fuel)%nat ->
       acp_at alloc o tol pf 2 0 s fuel L a i k = Some (a', snd (graftp o tol s tf L (Nat.eqb i 0) st i (zrows z) k))) /\
    cshape T' (fst (graftp o tol s tf L (Nat.eqb i 0) st i (zrows z) k)) /\
    node_post a z i a' T'.
Proof.
  intros Hf HL HnU Hi Hz Hlt Hroot H0 Hsib.
  set (a1 := aset a i (Some (mkcell (mkcont (node_val s tf L) st) (zpar z) [None; None] true))).
  assert (Hu : update_fun a i (node_val s tf L) = Some a1) by (unfold update_fun; rewrite Hi; reflexivity).
  assert (A1i : aget a1 i = Some (leafcell (node_val s tf L) st (zpar z))) by apply aget_aset_same.
  assert (A1o : forall j, j <> i -> aget a1 j = aget a j) by (intros j Hj; apply aget_aset_other; congruence).
  assert (Hnz : forall fr, In fr z -> zf_idx fr <> i).
  { intros fr Hin E. destruct (zrep_frames a z i fr Hz Hin) as [cf [Hcf Hlf]]. rewrite E, Hi in Hcf.
    inversion Hcf; subst cf. discriminate. }
  assert (Hz1 : zrep a1 z i) by (eapply zrep_stable; [exact Hz | intros fr Hin; apply A1o; apply Hnz; exact Hin]).
  assert (H01 : aget a1 0%nat <> None).
  { destruct (Nat.eq_dec 0 i) as [E|E]; [rewrite E, A1i; discriminate | rewrite A1o by auto; exact H0]. }
  destruct (acp_big alloc o tol pf s tf Hf L HL HnU a1 z i st [] k A1i Hz1 Hlt Hroot H01) as [n [a' [T' [Hn [Hsh [Hloop N]]]]]].
  { intros j Ej. assert (Hj : aget a j <> None) by (apply Hsib; exact Ej).
    destruct (Nat.eq_dec j i) as [->|Hji]; [rewrite A1i; discriminate | rewrite A1o by auto; exact Hj]. }
  exists a', T'. split; [|split; [exact Hsh|]].
  - intros fuel Hfu. unfold acp_at. rewrite Hi. cbn [leafcell c_leaf negb c_val ac_aff mkcont].
    assert (E : match L with U => None | _ => obnd (update_fun a i (node_val s tf L)) (fun a2 => acp_loop alloc o tol pf 2 0 s tf fuel [(L, i)] a2 k) end
                = acp_loop alloc o tol pf 2 0 s tf fuel [(L, i)] a1 k).
    { destruct L; [congruence| |]; rewrite Hu; reflexivity. }
    rewrite E. replace fuel with (n + (fuel - n))%nat by lia. rewrite Hloop. apply acp_loop_nil. lia.
  - destruct N as [Nf No [r [Nr1 [Nr2 Nr3]]] Nrep Ni Nd Nz Nt].
    assert (Hconv : forall k0, k0 = i \/ aget a1 k0 = None -> k0 = i \/ aget a k0 = None).
    { intros k0 [->|E]; [left; reflexivity|]. destruct (Nat.eq_dec k0 i) as [->|Hk]; [left; reflexivity|]. right.
      rewrite <- A1o by auto. exact E. }
    constructor; auto.
    + intros k0 H1 H2 H3. rewrite Nf; [apply A1o; auto | auto | auto | rewrite A1o by auto; exact H3].
    + intros k0 H1 H3. apply No; [auto | rewrite A1o by auto; exact H3].
    + exists r. auto.
Qed.

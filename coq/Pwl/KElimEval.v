(* Pwl/KElimEval.v -- infeasible_elimination for ANY branching factor (KElim.kelim) never changes the represented
   partial function, nor the terminal function an input is led to.

   For a fixed input x the only assumptions are the ones the property grants (as in ElimEval.v / KPruneEval.v):
     [osound o x]         the LP oracle never answers Infeasible for a query polytope that contains x
     [kmarks_kids x q t]  no node below the root that carries a cached Infeasible mark has x in its closed path polytope
     [kshape K t]         the tree is an AffTree<K>: a decision has K child slots and a predicate with r rows, 2^r <= K
   Nothing is assumed about Error / Unbounded / Optimal answers nor about the mirror oracle.

   Why it holds: an input that takes edge l lies in label_rows p l (EdgeRegion.takes_edge_in_region), so its path
   polytope contains it all the way down; a node classified Infeasible (by the sound oracle or by a sound cached mark) is
   therefore not on x's route; the deferred removal only removes such nodes; forwarding happens only when ALL K slots
   are occupied, exactly one child is feasible and the K - 1 others are Infeasible -- x's slot is not among the latter,
   so it is the one that moves up. *)
From AT Require Import Num Vec Aff PTree Cells Abs Cache Elim ElimEval EdgeRegion KPrune KPruneEval KElim.

(* ---------- hypotheses ---------- *)
Inductive kshape (K : nat) : ktree -> Prop :=
| kshape_U : kshape K KU
| kshape_T i f st ch : kshape K (KN i true f st ch)
| kshape_D i f st ch r : nrows f r -> (2 ^ r <= K)%nat -> length ch = K -> Forall (kshape K) ch ->
    kshape K (KN i false f st ch).
Fixpoint kshapeb (K : nat) (t : ktree) : bool :=
  match t with
  | KU => true
  | KN _ leaf f _ ch =>
      leaf || (Nat.eqb (length (a_bias f)) (length (a_mat f)) && Nat.leb (2 ^ length (a_mat f)) K &&
               Nat.eqb (length ch) K && forallb (kshapeb K) ch)
  end.
Lemma kshapeb_sound K : forall t, kshapeb K t = true -> kshape K t.
Proof.
  induction t as [|i leaf f st ch IH] using ktree_ind'; intros H; [constructor|].
  destruct leaf; [constructor|]. cbn [kshapeb orb] in H.
  apply andb_true_iff in H as [H H4]. apply andb_true_iff in H as [H H3]. apply andb_true_iff in H as [H1 H2].
  apply Nat.eqb_eq in H1, H3. apply Nat.leb_le in H2.
  apply (kshape_D K i f st ch (length (a_mat f))); auto; [split; auto|].
  rewrite forallb_forall in H4. rewrite Forall_forall in *. intros c Hc. apply IH; auto.
Qed.

(* the marks of the nodes BELOW t (the root itself is never classified, its own mark is never read) *)
Definition kmarks_kids (x : vec) (q : rows) (t : ktree) : Prop :=
  match t with
  | KU => True
  | KN _ _ p _ ch => forall_lab (fun l c => kmarks x (q ++ label_rows p l) c) ch 0
  end.
Lemma kmarks_split x q c : kmarks x q c -> (k_state c = Infeas -> ~ in_rows q x) /\ kmarks_kids x q c.
Proof. destruct c as [|i leaf p st ch]; cbn [kmarks kmarks_kids k_state]; [intros _; split; [discriminate|exact I] | tauto]. Qed.
Lemma kmarks_kids_of x q t : kmarks x q t -> kmarks_kids x q t.
Proof. intros H. apply kmarks_split in H. tauto. Qed.

(* ---------- small facts ---------- *)
Lemma k_exists_kset_st s t : k_exists (kset_st s t) = k_exists t.
Proof. destruct t; reflexivity. Qed.
Lemma k_state_kset_st s t : k_exists t = true -> k_state (kset_st s t) = s.
Proof. destruct t; cbn; auto; discriminate. Qed.
Lemma kterm_kset_st s t x : kterm (kset_st s t) x = kterm t x.
Proof. destruct t; reflexivity. Qed.
Lemma kev_kset_st s t x : kev (kset_st s t) x = kev t x.
Proof. destruct t; reflexivity. Qed.

(* ---------- where Infeasible verdicts come from ---------- *)
Lemma kclassify_infeas o tol stP q h k s k' :
  kclassify o tol stP q h k = (s, k') -> is_infeas s = true -> exists j, o_lp o j q = LInf.
Proof.
  unfold kclassify. intros H Hs. destruct stP as [| | |ws]; try (eapply phase_two_infeas; eauto; fail).
  destruct (filter (fun w => contains_tol tol h w) ws).
  - destruct (o_mir o (k_mir k) q ws).
    + inversion H; subst; discriminate.
    + eapply phase_two_infeas; eauto.
  - inversion H; subst; discriminate.
Qed.
Lemma kvisit_infeas o tol stP q h c k s k' fr sk x :
  kvisit o tol stP q h c k = (s, k', fr, sk) -> osound o x -> (k_state c = Infeas -> ~ in_rows q x) ->
  is_infeas s = true -> ~ in_rows q x.
Proof.
  unfold kvisit. intros H Ho Hm Hs. destruct (k_state c) eqn:Ec.
  - destruct (kclassify o tol stP q h k) as [s' k''] eqn:Ecl. inversion H; subst.
    destruct (kclassify_infeas _ _ _ _ _ _ _ _ Ecl Hs) as [j Hj]. exact (Ho _ _ Hj).
  - auto.
  - inversion H; subst; discriminate.
  - inversion H; subst; discriminate.
Qed.
Lemma kvisit_skip o tol stP q h c k s k' fr sk :
  kvisit o tol stP q h c k = (s, k', fr, sk) -> sk = is_infeas s.
Proof.
  unfold kvisit. intros H. destruct (k_state c).
  - destruct (kclassify o tol stP q h k). inversion H; subst; reflexivity.
  - inversion H; subst; reflexivity.
  - inversion H; subst; reflexivity.
  - inversion H; subst; reflexivity.
Qed.

(* ---------- the entries of the loop over the child slots: shape ---------- *)
Definition entry0 : kentry := (KU, false, Indet).
Definition entry_shape (c : ktree) (e : kentry) : Prop :=
  k_exists (e_sub e) = k_exists c /\
  (is_feas (e_st e) = true -> is_feas (k_state (e_sub e)) = true) /\
  (k_exists c = false -> e = entry0).
Definition sub_shape (s : nstate) (r : ktree) : Prop :=
  k_exists r = true /\ (k_state r = s \/ is_feas (k_state r) = true).

Lemma Forall2_nth_dflt {A B} (P : A -> B -> Prop) da db : forall xs ys, Forall2 P xs ys ->
  length xs = length ys /\ forall j, (j < length xs)%nat -> P (nth j xs da) (nth j ys db).
Proof.
  induction 1 as [|a b xs ys Hab H IH]; [split; [reflexivity | intros j Hj; cbn [length] in Hj; lia]|].
  destruct IH as [IL IN]. split; [cbn [length]; lia|].
  intros [|j] Hj; cbn [nth length] in *; [exact Hab | apply IN; lia].
Qed.

Lemma kkids_shape vis g :
  (forall l c k s k' fr sk, vis l c k = (s, k', fr, sk) -> sk = is_infeas s) ->
  forall cs, Forall (fun c => forall l s k, k_exists c = true -> sub_shape s (fst (g c l s k))) cs ->
  forall l k es k', kkids vis g cs l k = (es, k') -> Forall2 entry_shape cs es.
Proof.
  intros Hvis. induction cs as [|c cs IH]; intros Hg l k es k' H.
  - cbn [kkids] in H. inversion H; subst. constructor.
  - apply Forall_cons_iff in Hg as [Hgc Hg]. cbn [kkids] in H. fold (kkids vis g) in H.
    destruct (k_exists c) eqn:Ec.
    + destruct (vis l c k) as [[[s k1] fr] skip] eqn:Ev. pose proof (Hvis _ _ _ _ _ _ _ Ev) as Hsk.
      destruct (if skip then (kset_st s c, k1) else g c l s k1) as [r k2] eqn:Er.
      destruct (kkids vis g cs (S l) k2) as [es' k3] eqn:Ek. inversion H; subst es k'.
      constructor; [|eapply IH; eauto].
      assert (Hr : sub_shape s r).
      { destruct skip.
        - inversion Er; subst r k2. split; [rewrite k_exists_kset_st; exact Ec|]. left. apply k_state_kset_st; exact Ec.
        - specialize (Hgc l s k1 eq_refl). rewrite Er in Hgc. exact Hgc. }
      destruct Hr as [Hx Hs]. unfold entry_shape, e_sub, e_st; cbn [fst snd]. split; [congruence|]. split; [|congruence].
      destruct (existsb k_exists cs); [auto|]. intros Hf. destruct Hs as [Hs|Hs]; [rewrite Hs; exact Hf | exact Hs].
    + destruct (kkids vis g cs (S l) k) as [es' k1] eqn:Ek. inversion H; subst es k'.
      constructor; [|eapply IH; eauto].
      unfold entry_shape, e_sub, e_st; cbn [fst snd k_exists]. split; [congruence|]. split; [discriminate | reflexivity].
Qed.

(* ---------- lists of entries ---------- *)
Lemma count_st_zero f : forall es j, count_st f es = 0%nat -> f (e_st (nth j es entry0)) = true -> (j < length es)%nat -> False.
Proof.
  induction es as [|e es IH]; intros j H Hf Hj; cbn [length] in Hj; [lia|].
  unfold count_st in *. cbn [filter] in H. destruct j as [|j]; cbn [nth] in Hf.
  - rewrite Hf in H. discriminate H.
  - destruct (f (e_st e)); [discriminate H|]. apply (IH j); auto. lia.
Qed.
(* with exactly one feasible entry, the pick is that entry *)
Lemma kfeas_pick_at : forall es d, count_st is_feas es = 1%nat -> (d < length es)%nat ->
  is_feas (e_st (nth d es entry0)) = true -> kfeas_pick es = e_sub (nth d es entry0).
Proof.
  induction es as [|e es IH]; intros d H Hd Hf; cbn [length] in Hd; [lia|].
  unfold count_st in H. cbn [filter] in H. cbn [kfeas_pick]. destruct d as [|d]; cbn [nth] in *.
  - rewrite Hf. reflexivity.
  - destruct (is_feas (e_st e)) eqn:Ee.
    + exfalso. cbn [length] in H. apply (count_st_zero is_feas es d); [unfold count_st; lia | exact Hf | lia].
    + apply IH; auto. lia.
Qed.
Lemma kfeas_pick_some : forall es, count_st is_feas es <> 0%nat ->
  exists d, (d < length es)%nat /\ is_feas (e_st (nth d es entry0)) = true /\ kfeas_pick es = e_sub (nth d es entry0).
Proof.
  induction es as [|e es IH]; intros H; [exfalso; apply H; reflexivity|].
  unfold count_st in H. cbn [filter] in H. cbn [kfeas_pick]. destruct (is_feas (e_st e)) eqn:Ee.
  - exists 0%nat. cbn [nth length]. repeat split; [lia | exact Ee].
  - destruct (IH H) as [d [Hd [Hf Hp]]]. exists (S d). cbn [nth length]. repeat split; auto. lia.
Qed.
(* two disjoint classes that miss one entry do not fill the list *)
Lemma count_two_miss (f g : nstate -> bool) : (forall s, f s = true -> g s = false) ->
  forall es d, (d < length es)%nat -> f (e_st (nth d es entry0)) = false -> g (e_st (nth d es entry0)) = false ->
  (count_st f es + count_st g es < length es)%nat.
Proof.
  intros Hfg. induction es as [|e es IH]; intros d Hd Hf Hg; cbn [length] in Hd; [lia|].
  unfold count_st in *. cbn [filter length].
  assert (Hle : (length (filter (fun e => f (e_st e)) es) + length (filter (fun e => g (e_st e)) es) <= length es)%nat).
  { clear - Hfg. induction es as [|a es IHes]; cbn [filter length]; [lia|].
    destruct (f (e_st a)) eqn:Ea; [rewrite (Hfg _ Ea)|destruct (g (e_st a))]; cbn [length]; lia. }
  destruct d as [|d]; cbn [nth] in Hf, Hg.
  - rewrite Hf, Hg. lia.
  - specialize (IH d ltac:(lia) Hf Hg).
    destruct (f (e_st e)) eqn:Ea; [rewrite (Hfg _ Ea)|destruct (g (e_st e))]; cbn [length]; lia.
Qed.
(* the removal loop: a slot keeps its subtree unless the entry is a freshly classified Infeasible one *)
Lemma kremove_nth : forall es n d, (d < length es)%nat ->
  nth d (kremove es n) KU = e_sub (nth d es entry0) \/
  (nth d (kremove es n) KU = KU /\ e_fresh (nth d es entry0) = true /\ is_infeas (e_st (nth d es entry0)) = true).
Proof.
  induction es as [|e es IH]; intros n d Hd; cbn [length] in Hd; [lia|]. cbn [kremove].
  destruct (e_fresh e && is_infeas (e_st e) && Nat.ltb 1 n) eqn:Em.
  - destruct d as [|d]; cbn [nth].
    + right. apply andb_true_iff in Em as [Em _]. apply andb_true_iff in Em as [E1 E2]. auto.
    + apply IH. lia.
  - destruct d as [|d]; cbn [nth]; [left; reflexivity | apply IH; lia].
Qed.
Lemma kremove_length : forall es n, length (kremove es n) = length es.
Proof.
  induction es as [|e es IH]; intros n; [reflexivity|]. cbn [kremove].
  destruct (e_fresh e && is_infeas (e_st e) && Nat.ltb 1 n); cbn [length]; rewrite IH; reflexivity.
Qed.

(* ---------- shape of the result: a stored node stays a stored node; its state is st or a feasible one ---------- *)
Lemma kelim_sub_shape o tol K : forall t isroot q st k,
  k_exists t = true -> sub_shape st (fst (kelim_sub o tol K isroot q st t k)).
Proof.
  induction t as [|i leaf p s0 ch IH] using ktree_ind'; intros isroot q st k He; [discriminate|].
  cbn [kelim_sub]. destruct leaf; [split; [reflexivity | left; reflexivity]|].
  destruct (kkids (fun l c k' => kvisit o tol st (q ++ label_rows p l) (label_rows p l) c k')
                  (fun c l s k' => kelim_sub o tol K false (q ++ label_rows p l) s c k') ch 0 k) as [es k1] eqn:Ek.
  assert (Hsh : Forall2 entry_shape ch es).
  { eapply kkids_shape; [| |exact Ek].
    - intros l c k' s k'' fr sk Hv. cbn beta in Hv. eapply kvisit_skip; exact Hv.
    - rewrite Forall_forall in *. intros c Hc l s k' Hx. apply IH; auto. }
  destruct (kfwd K es) eqn:Ef; [|split; [reflexivity | left; reflexivity]].
  destruct isroot; [split; [reflexivity | left; reflexivity]|]. cbn [fst].
  unfold kfwd in Ef. apply andb_true_iff in Ef as [Ef _]. apply andb_true_iff in Ef as [_ Ec]. apply Nat.eqb_eq in Ec.
  destruct (kfeas_pick_some es ltac:(lia)) as [d [Hd [Hf Hp]]]. rewrite Hp.
  destruct (Forall2_nth_dflt entry_shape KU entry0 ch es Hsh) as [HL HN].
  destruct (HN d ltac:(lia)) as [E1 [E2 E3]]. split.
  - rewrite E1. destruct (k_exists (nth d ch KU)) eqn:Ex; [reflexivity|]. rewrite (E3 eq_refl) in Hf. discriminate Hf.
  - right. exact (E2 Hf).
Qed.
Lemma kelim_sub_exists o tol K t isroot q st k :
  k_exists t = true -> k_exists (fst (kelim_sub o tol K isroot q st t k)) = true.
Proof. intros H. apply (kelim_sub_shape o tol K t isroot q st k H). Qed.
Lemma kelim_sub_state o tol K t isroot q st k : k_exists t = true ->
  k_state (fst (kelim_sub o tol K isroot q st t k)) = st \/ is_feas (k_state (fst (kelim_sub o tol K isroot q st t k))) = true.
Proof. intros H. apply (kelim_sub_shape o tol K t isroot q st k H). Qed.

(* ---------- the entries of the loop over the child slots: what they mean for the input x ---------- *)
Lemma kkids_sem o tol K x stP q p : osound o x ->
  forall cs,
  Forall (fun c => forall isroot q' st k, kmarks_kids x q' c -> in_rows q' x ->
                   kterm (fst (kelim_sub o tol K isroot q' st c k)) x = kterm c x) cs ->
  forall l k es k',
  kkids (fun l c k' => kvisit o tol stP (q ++ label_rows p l) (label_rows p l) c k')
        (fun c l s k' => kelim_sub o tol K false (q ++ label_rows p l) s c k') cs l k = (es, k') ->
  forall_lab (fun l c => kmarks x (q ++ label_rows p l) c) cs l ->
  forall j, (j < length cs)%nat ->
    (in_rows (q ++ label_rows p (l + j)) x -> kterm (e_sub (nth j es entry0)) x = kterm (nth j cs KU) x) /\
    (is_infeas (e_st (nth j es entry0)) = true -> ~ in_rows (q ++ label_rows p (l + j)) x).
Proof.
  intros Ho. induction cs as [|c cs IH]; intros Hg l k es k' H Hm j Hj; cbn [length] in Hj; [lia|].
  apply Forall_cons_iff in Hg as [Hgc Hg]. destruct Hm as [Hmc Hm].
  cbn [kkids] in H.
  destruct (k_exists c) eqn:Ec.
  - destruct (kvisit o tol stP (q ++ label_rows p l) (label_rows p l) c k) as [[[s k1] fr] skip] eqn:Ev.
    pose proof (kvisit_skip _ _ _ _ _ _ _ _ _ _ _ Ev) as Hsk.
    destruct (if skip then (kset_st s c, k1) else kelim_sub o tol K false (q ++ label_rows p l) s c k1) as [r k2] eqn:Er.
    match type of H with (let '(es0, k3) := ?X in _) = _ => destruct X as [es' k3] eqn:Ek end.
    inversion H; subst es k'. clear H.
    destruct j as [|j]; cbn [nth].
    + rewrite Nat.add_0_r. unfold e_sub, e_st; cbn [fst snd].
      destruct (kmarks_split x _ c Hmc) as [Hst Hkids].
      assert (Hv : is_infeas s = true -> ~ in_rows (q ++ label_rows p l) x) by (eapply kvisit_infeas; eauto).
      split.
      * intros Hq. destruct skip.
        -- inversion Er; subst r k2. apply kterm_kset_st.
        -- pose proof (Hgc false (q ++ label_rows p l) s k1 Hkids Hq) as E. rewrite Er in E. exact E.
      * intros Hi. apply Hv. destruct (existsb k_exists cs); [|exact Hi].
        destruct skip.
        -- inversion Er; subst r k2. rewrite (k_state_kset_st s c Ec) in Hi. exact Hi.
        -- pose proof (kelim_sub_state o tol K c false (q ++ label_rows p l) s k1 Ec) as Hs. rewrite Er in Hs. cbn [fst] in Hs.
           destruct Hs as [Hs|Hs]; [rewrite Hs in Hi; exact Hi | rewrite (feas_not_infeas _ Hs) in Hi; discriminate Hi].
    + replace (l + S j)%nat with (S l + j)%nat by lia. eapply IH; eauto. lia.
  - match type of H with (let '(es0, k3) := ?X in _) = _ => destruct X as [es' k3] eqn:Ek end.
    inversion H; subst es k'. clear H.
    destruct j as [|j]; cbn [nth].
    + unfold e_sub, e_st; cbn [fst snd is_infeas]. split; [|discriminate].
      intros _. destruct c; [reflexivity | discriminate Ec].
    + replace (l + S j)%nat with (S l + j)%nat by lia. eapply IH; eauto. lia.
Qed.

(* ---------- the main invariant ---------- *)
Theorem kelim_sub_kterm o tol K x : osound o x ->
  forall t, kshape K t -> forall isroot q st k, kmarks_kids x q t -> in_rows q x ->
  kterm (fst (kelim_sub o tol K isroot q st t k)) x = kterm t x.
Proof.
  intros Ho. induction t as [|i leaf p s0 ch IH] using ktree_ind'; intros Hsh isroot q st k Hm Hq; [reflexivity|].
  cbn [kelim_sub]. destruct leaf; [reflexivity|].
  inversion Hsh as [| |i0 p0 st0 ch0 r Hr Hpow Hlen Hch]; subst i0 p0 st0 ch0.
  destruct (kkids (fun l c k' => kvisit o tol st (q ++ label_rows p l) (label_rows p l) c k')
                  (fun c l s k' => kelim_sub o tol K false (q ++ label_rows p l) s c k') ch 0 k) as [es k1] eqn:Ek.
  (* shape and meaning of the entries *)
  assert (Hes : Forall2 entry_shape ch es).
  { eapply kkids_shape; [| |exact Ek].
    - intros l c k' s k'' fr sk Hv. cbn beta in Hv. eapply kvisit_skip; exact Hv.
    - rewrite Forall_forall. intros c Hc l s k' Hx. apply kelim_sub_shape; auto. }
  destruct (Forall2_nth_dflt entry_shape KU entry0 ch es Hes) as [HL HN].
  assert (Hsem : forall j, (j < length ch)%nat ->
            (in_rows (q ++ label_rows p j) x -> kterm (e_sub (nth j es entry0)) x = kterm (nth j ch KU) x) /\
            (is_infeas (e_st (nth j es entry0)) = true -> ~ in_rows (q ++ label_rows p j) x)).
  { intros j Hj. apply (kkids_sem o tol K x st q p Ho ch) with (l := 0%nat) (k := k) (k' := k1); auto.
    rewrite Forall_forall in *. intros c Hc isroot' q' st' k' Hm' Hq'. apply IH; auto. }
  (* the slot x takes *)
  set (d := decide p x).
  assert (Hd : (d < length ch)%nat) by (pose proof (decide_lt p x r Hr); unfold d; lia).
  pose proof (in_rows_edge p x q r Hr Hq) as Hreg. fold d in Hreg.
  destruct (Hsem d Hd) as [F G]. specialize (F Hreg).
  assert (Gd : is_infeas (e_st (nth d es entry0)) = false).
  { destruct (is_infeas (e_st (nth d es entry0))) eqn:E; [|reflexivity]. exfalso. apply (G eq_refl). exact Hreg. }
  (* right-hand side *)
  cbn [kterm]. fold d. change (@None aff) with ((fun c => kterm c x) KU). rewrite map_nth. rewrite <- F.
  destruct (kfwd K es) eqn:Ef.
  - (* forwarded: all K slots are feasible-or-Infeasible, x's slot is the feasible one *)
    unfold kfwd in Ef. apply andb_true_iff in Ef as [Ef Ei]. apply andb_true_iff in Ef as [_ Ec].
    apply Nat.eqb_eq in Ec, Ei.
    assert (Fd : is_feas (e_st (nth d es entry0)) = true).
    { destruct (is_feas (e_st (nth d es entry0))) eqn:E; [reflexivity|]. exfalso.
      pose proof (count_two_miss is_feas is_infeas feas_not_infeas es d ltac:(lia) E Gd) as Hlt. lia. }
    destruct isroot; cbn [fst kterm].
    + fold d. change (@None aff) with ((fun c => kterm c x) KU). rewrite map_nth. unfold kfeas_only.
      change KU with ((fun e : kentry => if is_feas (e_st e) then e_sub e else KU) entry0). rewrite map_nth.
      cbn beta. rewrite Fd. reflexivity.
    + rewrite (kfeas_pick_at es d Ec ltac:(lia) Fd). reflexivity.
  - cbn [fst kterm]. fold d. change (@None aff) with ((fun c => kterm c x) KU). rewrite map_nth.
    destruct (kremove_nth es (n_kids es) d ltac:(lia)) as [E|[_ [_ E]]]; [rewrite E; reflexivity|].
    rewrite E in Gd. discriminate Gd.
Qed.

Theorem kelim_sub_kev o tol K x : osound o x ->
  forall t, kshape K t -> forall isroot q st k, kmarks_kids x q t -> in_rows q x ->
  kev (fst (kelim_sub o tol K isroot q st t k)) x = kev t x.
Proof. intros. rewrite !kev_kterm. f_equal. apply kelim_sub_kterm; auto. Qed.

(* infeasible_elimination: the terminal function x is led to, its value and its definedness *)
Theorem kelim_kterm o tol K t x : osound o x -> kshape K t -> kmarks_kids x [] t ->
  kterm (fst (kelim o tol K t)) x = kterm t x.
Proof. intros Ho Hs Hm. unfold kelim. apply kelim_sub_kterm; auto. constructor. Qed.
Theorem kelim_kev o tol K t x : osound o x -> kshape K t -> kmarks_kids x [] t ->
  kev (fst (kelim o tol K t)) x = kev t x.
Proof. intros Ho Hs Hm. unfold kelim. apply kelim_sub_kev; auto. constructor. Qed.

(* in terms of the inductive tree the runner compares *)
Theorem kelim_eval o tol K t x : osound o x -> kshape K t -> kmarks_kids x [] t ->
  eval (kerase (fst (kelim o tol K t))) x = eval (kerase t) x.
Proof. intros. rewrite <- !kev_kerase. apply kelim_kev; auto. Qed.

(* the embedding of a binary tree with one-row decisions satisfies the hypotheses the binary theorem needs *)
Lemma kshape_kemb : forall t, cbin t -> kshape 2 (kemb t).
Proof.
  induction t as [|i leaf p s c0 IH0 c1 IH1]; intros Hb; [constructor|]. destruct Hb as [Hp [Hb0 Hb1]].
  cbn [kemb]. destruct leaf; [constructor|]. destruct (Hp eq_refl) as [H1 H2].
  apply (kshape_D 2 i p s [kemb c0; kemb c1] 1%nat); [split; auto | cbn; lia | reflexivity |].
  constructor; [auto|]. constructor; [auto|constructor].
Qed.

(* Pwl/PolyGenProofs.v -- the coded path-polytope generator (PolyhedraGen over DfsPre, PolyGen.v, functions pgen_new / pgen_next / pgen_skip / pgen_run) refines
   the specification forest machine (f_new / f_next / f_skip / f_run) for every Next/Skip script.

   Hypotheses (ginv): the arena is the tree [dt] below the root (drep, established by the executable [dabs]:
   dabs_sound), the root is parentless, child and parent links mirror each other and no child sits in two slots
   (these are fields of C12's invariant), every node has at most two child slots (AffTree<2>) and every node that
   has a child carries a one-row predicate (C04's well-formedness; the model of the predicate stack pops rows, the
   code pops polytopes: the two coincide when each edge contributes one row). *)
From Coq Require Import List Arith Lia Bool.
Import ListNotations.
From AT Require Import Num Vec Aff PTree Cells Abs PolyGen.
Local Open Scope nat_scope.

(* ---------------------------------------------------------------- the arena is the decorated tree *)
Inductive drep (a : arena acont) : nat -> dtree -> Prop :=
| drep_node : forall i c ch, aget a i = Some c -> drep_slots a (c_children c) ch -> drep a i (DN i (ac_aff (c_val c)) ch)
with drep_slots (a : arena acont) : list (option nat) -> list (option dtree) -> Prop :=
| ds_nil : drep_slots a [] []
| ds_none : forall os ts, drep_slots a os ts -> drep_slots a (None :: os) (None :: ts)
| ds_some : forall k t os ts, drep a k t -> drep_slots a os ts -> drep_slots a (Some k :: os) (Some t :: ts).

Lemma drep_idx a i t : drep a i t -> dt_idx t = i.
Proof. intros H. inversion H; reflexivity. Qed.

Lemma opt_all_cons_inv {A} (o : option A) l r : opt_all (o :: l) = Some r ->
  exists x r', o = Some x /\ opt_all l = Some r' /\ r = x :: r'.
Proof.
  simpl. destruct o as [x|]; [|discriminate]. destruct (opt_all l) as [r'|]; [|discriminate].
  intros H. injection H as <-. eauto.
Qed.

Theorem dabs_sound a : forall fuel i t, dabs fuel a i = Some t -> drep a i t.
Proof.
  induction fuel as [|f IH]; intros i t H; [discriminate|]. simpl in H.
  destruct (aget a i) as [c|] eqn:Hc; [|discriminate].
  destruct (opt_all _) as [ch|] eqn:Ho; [|discriminate]. injection H as <-.
  constructor; [exact Hc|]. clear Hc. revert ch Ho. generalize (c_children c).
  induction l as [|o os IHos]; intros ch Ho.
  - simpl in Ho. injection Ho as <-. constructor.
  - simpl map in Ho. apply opt_all_cons_inv in Ho as (x & r' & Hx & Hr & ->).
    destruct o as [j|].
    + destruct (dabs f a j) as [tj|] eqn:Hj; [|discriminate]. simpl in Hx. injection Hx as <-.
      constructor; [apply IH; exact Hj | apply IHos; exact Hr].
    + injection Hx as <-. constructor. apply IHos; exact Hr.
Qed.

Record ginv (a : arena acont) (r : nat) : Prop := {
  gi_root : exists c, aget a r = Some c /\ c_parent c = None;
  gi_down : forall i c l j, aget a i = Some c -> nth_error (c_children c) l = Some (Some j) ->
            exists cj, aget a j = Some cj /\ c_parent cj = Some i;
  gi_slot : forall i c l l' j, aget a i = Some c -> nth_error (c_children c) l = Some (Some j) ->
            nth_error (c_children c) l' = Some (Some j) -> l = l';
  gi_bin : forall i c, aget a i = Some c -> length (c_children c) <= 2;
  gi_row : forall i c l j, aget a i = Some c -> nth_error (c_children c) l = Some (Some j) ->
           length (a_mat (ac_aff (c_val c))) = 1 /\ length (a_bias (ac_aff (c_val c))) = 1
}.

(* ---------------------------------------------------------------- small facts *)
Lemma find_label_go os j : forall l k, nth_error os l = Some (Some j) ->
  (forall l', nth_error os l' = Some (Some j) -> l' = l) ->
  (fix go (l0 : list (option nat)) (k0 : nat) : option nat :=
     match l0 with
     | [] => None
     | Some j0 :: l' => if Nat.eqb j0 j then Some k0 else go l' (S k0)
     | None :: l' => go l' (S k0)
     end) os k = Some (k + l).
Proof.
  induction os as [|o os IH]; intros l k Hn Hu; [destruct l; discriminate|].
  destruct l as [|l]; simpl in Hn.
  - injection Hn as ->. rewrite Nat.eqb_refl. f_equal. lia.
  - assert (Hne : o <> Some j). { intros ->. specialize (Hu 0 eq_refl). discriminate. }
    assert (Hrec := IH l (S k) Hn (fun l' Hl' => eq_add_S _ _ (Hu (S l') Hl'))).
    destruct o as [x|].
    + destruct (Nat.eqb_spec x j) as [->|_]; [congruence|]. rewrite Hrec. f_equal. lia.
    + rewrite Hrec. f_equal. lia.
Qed.
Lemma find_label_unique os j l : nth_error os l = Some (Some j) ->
  (forall l', nth_error os l' = Some (Some j) -> l' = l) -> find_label os j = Some l.
Proof. intros Hn Hu. unfold find_label. rewrite (find_label_go os j l 0 Hn Hu). reflexivity. Qed.

Lemma edge_rows_one p l : l < 2 -> length (a_mat p) = 1 -> length (a_bias p) = 1 ->
  exists row, edge_rows p l = Some row /\ length row = 1.
Proof.
  intros Hl Hm Hb. destruct l as [|[|l]]; [| |lia]; simpl; eexists; (split; [reflexivity|]);
    rewrite combine_length, ?map_length, ?length_vopp, Hm, Hb; reflexivity.
Qed.

Lemma firstn_firstn_app {A} (l : list A) r n m : n <= m -> m <= length l -> firstn n (firstn m l ++ r) = firstn n l.
Proof.
  intros Hnm Hm. rewrite firstn_app, firstn_firstn, firstn_length, Nat.min_l by lia.
  rewrite (Nat.min_l m (length l)) by lia. replace (n - m) with 0 by lia. simpl. apply app_nil_r.
Qed.

Lemma drep_slots_len a os ts : drep_slots a os ts -> forall k, length (label_children k ts) = length (somes os).
Proof. induction 1; intros k0; simpl; auto. Qed.

(* ---------------------------------------------------------------- the simulation invariant *)
Definition entry_ok (a : arena acont) (preds : list (vec * Qc)) (it : dfs_item) (p : pend) : Prop :=
  di_depth it = pd_depth p /\ di_index it = dt_idx (pd_tree p) /\ di_nrem it = pd_nrem p /\
  drep a (dt_idx (pd_tree p)) (pd_tree p) /\
  exists c, aget a (dt_idx (pd_tree p)) = Some c /\
    match pd_depth p with
    | O => c_parent c = None /\ pd_rows p = []
    | S d' => exists pi pc l row, c_parent c = Some pi /\ aget a pi = Some pc /\
                find_label (c_children pc) (dt_idx (pd_tree p)) = Some l /\
                edge_rows (ac_aff (c_val pc)) l = Some row /\ length row = 1 /\
                pd_rows p = firstn d' preds ++ row
    end.

Fixpoint desc (l : list nat) : Prop :=
  match l with [] => True | x :: l' => Forall (fun y => y <= x) l' /\ desc l' end.

Definition pinv (a : arena acont) (s : pgen) (fs : fstate) : Prop :=
  Forall2 (entry_ok a (pg_preds s)) (d_stack (pg_iter s)) (f_pending fs) /\
  d_last_push (pg_iter s) = f_last fs /\
  length (pg_preds s) = pg_last_depth s /\
  desc (map pd_depth (f_pending fs)) /\
  Forall (fun p => pd_depth p <= S (pg_last_depth s)) (f_pending fs).

Lemma entry_ok_ext a preds preds' it p : entry_ok a preds it p ->
  (forall d', pd_depth p = S d' -> firstn d' preds' = firstn d' preds) -> entry_ok a preds' it p.
Proof.
  intros (H1 & H2 & H3 & H4 & c & Hc & H5) Hx. repeat split; auto. exists c. split; [exact Hc|].
  destruct (pd_depth p) as [|d'] eqn:Hd; [exact H5|].
  destruct H5 as (pi & pc & l & row & Ha & Hb & Hf & He & Hl & Hr). exists pi, pc, l, row.
  repeat split; auto. rewrite (Hx d' eq_refl). exact Hr.
Qed.

Lemma Forall2_skipn {A B} (R : A -> B -> Prop) n : forall l l', Forall2 R l l' -> Forall2 R (skipn n l) (skipn n l').
Proof. induction n as [|n IH]; intros l l' H; [exact H|]. destruct H; simpl; [constructor | apply IH; assumption]. Qed.
Lemma Forall_skipn {A} (P : A -> Prop) n : forall l, Forall P l -> Forall P (skipn n l).
Proof. induction n as [|n IH]; intros l H; [exact H|]. destruct H; simpl; [constructor | apply IH; assumption]. Qed.
Lemma desc_skipn n : forall l, desc l -> desc (skipn n l).
Proof. induction n as [|n IH]; intros l H; [exact H|]. destruct l as [|x l]; [exact I|]. simpl. apply IH. exact (proj2 H). Qed.
Lemma map_skipn {A B} (f : A -> B) n : forall l, map f (skipn n l) = skipn n (map f l).
Proof. induction n as [|n IH]; intros [|x l]; simpl; auto. Qed.

Lemma Forall2_impl_r {A B} (R R' : A -> B -> Prop) (P : B -> Prop) l l' :
  (forall x y, R x y -> P y -> R' x y) -> Forall2 R l l' -> Forall P l' -> Forall2 R' l l'.
Proof.
  intros H HF. induction HF as [|x y l l' Hxy _ IH]; intros HP; [constructor|].
  inversion HP; subst. constructor; auto.
Qed.

Lemma pinv_skip a s fs : pinv a s fs -> pinv a (pgen_skip s) (f_skip fs).
Proof.
  intros (HF & Hl & Hlen & Hd & Hb). unfold pinv, pgen_skip, f_skip, dfs_skip; simpl.
  rewrite Hl. repeat split.
  - apply Forall2_skipn. exact HF.
  - exact Hlen.
  - rewrite map_skipn. apply desc_skipn. exact Hd.
  - apply Forall_skipn. exact Hb.
Qed.

(* the children of the popped entry *)
Lemma children_ok a r (G : ginv a r) i c d rows : aget a i = Some c -> length rows = d ->
  forall os ts, drep_slots a os ts -> forall pre, c_children c = pre ++ os ->
  exists new, mk_pending (S d) rows (ac_aff (c_val c)) (label_children (length pre) ts) = Some new /\
    Forall2 (entry_ok a rows) (push_children (S d) (somes os)) new /\
    Forall (fun q => pd_depth q = S d) new.
Proof.
  intros Hc Hrows. induction 1 as [|os ts Hs IH|k t os ts Hk Hs IH]; intros pre Hsplit.
  - exists []. repeat split; constructor.
  - destruct (IH (pre ++ [None])) as (new & Hm & HF & Hdep).
    { rewrite <- app_assoc. exact Hsplit. }
    rewrite app_length in Hm. simpl in Hm. rewrite Nat.add_1_r in Hm.
    exists new. simpl. auto.
  - destruct (IH (pre ++ [Some k])) as (new & Hm & HF & Hdep).
    { rewrite <- app_assoc. exact Hsplit. }
    rewrite app_length in Hm. simpl in Hm. rewrite Nat.add_1_r in Hm.
    assert (Hn : nth_error (c_children c) (length pre) = Some (Some k)).
    { rewrite Hsplit, nth_error_app2, Nat.sub_diag by lia. reflexivity. }
    assert (Hlt : length pre < 2).
    { pose proof (gi_bin a r G i c Hc) as Hb. rewrite Hsplit, app_length in Hb. simpl in Hb. lia. }
    destruct (gi_row a r G i c _ k Hc Hn) as [Hm1 Hb1].
    destruct (edge_rows_one (ac_aff (c_val c)) (length pre) Hlt Hm1 Hb1) as (row & Hrow & Hrl).
    destruct (gi_down a r G i c _ k Hc Hn) as (ck & Hck & Hpar).
    simpl label_children. simpl mk_pending. rewrite Hrow, Hm.
    eexists. split; [reflexivity|]. simpl somes. simpl push_children. split.
    + constructor; [|exact HF].
      unfold entry_ok. simpl. rewrite (drep_idx a k t Hk).
      repeat split; auto.
      { symmetry. apply (drep_slots_len a os ts Hs). }
      exists ck. split; [exact Hck|]. exists i, c, (length pre), row.
      repeat split; auto.
      { apply find_label_unique; [exact Hn|]. intros l' Hl'. exact (gi_slot a r G i c l' (length pre) k Hc Hl' Hn). }
      { rewrite <- Hrows, firstn_all. reflexivity. }
    + constructor; [reflexivity | exact Hdep].
Qed.

Lemma desc_app_same d new rest : Forall (fun y => y = S d) new -> Forall (fun y => y <= d) rest -> desc rest -> desc (new ++ rest).
Proof.
  intros Hn Hr Hd. induction new as [|x new IH]; [exact Hd|].
  inversion Hn as [|x' l' Hx Hn']; subst x' l'. simpl. split; [|exact (IH Hn')].
  apply Forall_app. split.
  - eapply Forall_impl; [|exact Hn']. intros y Hy. simpl in Hy. lia.
  - eapply Forall_impl; [|exact Hr]. intros y Hy. simpl in Hy. lia.
Qed.

Definition item_of (it : dfs_item) (rows : list (vec * Qc)) : out_item :=
  {| o_depth := di_depth it; o_index := di_index it; o_nrem := di_nrem it; o_rows := rows |}.

Lemma pinv_next a r (G : ginv a r) s fs : pinv a s fs ->
  match pgen_next a s, f_next fs with
  | PgItem it rows s', FItem oi fs' => oi = item_of it rows /\ pinv a s' fs'
  | PgEnd, FEnd => True
  | _, _ => False
  end.
Proof.
  intros (HF & Hl & Hlen & Hd & Hb). unfold pgen_next, f_next.
  destruct (f_pending fs) as [|p rest] eqn:Hp; inversion HF as [|it p' srest rest' Hit HFr Hs1 Hs2]; subst.
  - exact I.
  - unfold dfs_next. rewrite <- Hs1.
    destruct Hit as (E1 & E2 & E3 & Hrep & c & Hc & Hrows).
    destruct (pd_tree p) as [i f ch] eqn:Ht. simpl dt_idx in *.
    inversion Hrep as [i0 c0 ch0 Hc0 Hslots]; subst i0 ch0. rewrite Hc in Hc0. injection Hc0 as <-. subst f.
    rewrite E2, Hc.
    simpl in Hd. destruct Hd as [Hle Hdr]. inversion Hb as [|x l Hbp Hbr]; subst x l.
    (* the rows of the item *)
    set (d := pd_depth p) in *.
    assert (Hpre : (if di_depth it <=? pg_last_depth s
                    then firstn (length (pg_preds s) - (1 + pg_last_depth s - di_depth it)) (pg_preds s)
                    else pg_preds s) = firstn (d - 1) (pg_preds s)).
    { rewrite E1. fold d. destruct (Nat.leb_spec d (pg_last_depth s)) as [Hle'|Hgt].
      - f_equal. lia.
      - replace (d - 1) with (length (pg_preds s)) by lia. symmetry. apply firstn_all. }
    rewrite Hpre.
    assert (Hitem : exists rows, pd_rows p = rows /\ length rows = d /\
      match c_parent c with
      | None => d = 0 /\ rows = firstn (d - 1) (pg_preds s)
      | Some pi => exists pc l row, aget a pi = Some pc /\ find_label (c_children pc) i = Some l /\
                   edge_rows (ac_aff (c_val pc)) l = Some row /\ rows = firstn (d - 1) (pg_preds s) ++ row
      end).
    { exists (pd_rows p). split; [reflexivity|]. destruct d as [|d'].
      - destruct Hrows as [Hpar Hr]. rewrite Hpar, Hr. simpl. auto.
      - destruct Hrows as (pi & pc & l & row & Hpar & Hpc & Hfl & Her & Hrl & Hr). rewrite Hpar, Hr. split.
        + rewrite app_length, firstn_length, Nat.min_l, Hrl by lia. lia.
        + exists pc, l, row. replace (S d' - 1) with d' by lia. auto. }
    destruct Hitem as (rows & Hrows_eq & Hrows_len & Hcase).
    destruct (children_ok a r G i c d rows Hc Hrows_len (c_children c) ch Hslots [] eq_refl) as (new & Hnew & HFnew & Hdnew).
    simpl length in Hnew. rewrite Hrows_eq, Hnew.
    assert (Hfinal : forall preds2, preds2 = rows -> (forall n, S n <= d -> firstn n rows = firstn n (pg_preds s)) ->
      {| o_depth := pd_depth p; o_index := i; o_nrem := pd_nrem p; o_rows := rows |} = item_of it preds2 /\
      pinv a {| pg_preds := preds2; pg_iter := {| d_stack := push_children (S (di_depth it)) (somes (c_children c)) ++ srest;
                                                   d_last_push := length (somes (c_children c)) |};
                pg_last_depth := di_depth it |}
             {| f_pending := new ++ rest; f_last := length (label_children 0 ch) |}).
    { intros preds2 -> Hfirst. split; [unfold item_of; rewrite E1, E2, E3; reflexivity|].
      apply Forall_map in Hle.
      unfold pinv; simpl. rewrite E1. fold d. repeat split.
      - apply Forall2_app; [exact HFnew|].
        eapply Forall2_impl_r; [| exact HFr | exact Hle].
        intros x q Hxq Hq. eapply entry_ok_ext; [exact Hxq|]. intros d' Hd'. apply Hfirst. simpl in Hq. fold d in Hq. lia.
      - symmetry. apply (drep_slots_len a _ _ Hslots).
      - exact Hrows_len.
      - rewrite map_app. apply (desc_app_same d).
        + apply Forall_map. exact Hdnew.
        + apply Forall_map. exact Hle.
        + exact Hdr.
      - apply Forall_app. split.
        + eapply Forall_impl; [|exact Hdnew]. intros q Hq. simpl in Hq. lia.
        + eapply Forall_impl; [|exact Hle]. intros q Hq. simpl in Hq. fold d in Hq. lia. }
    assert (Hdb : d - 1 <= length (pg_preds s)) by lia.
    cbv beta iota. rewrite ?E2, ?Hc.
    destruct (c_parent c) as [pi|].
    + destruct Hcase as (pc & l & row & Hpc & Hfl & Her & Hr). rewrite Hpc, Hfl, Her.
      apply Hfinal; [symmetry; exact Hr|].
      intros n Hn. rewrite Hr. apply firstn_firstn_app; lia.
    + destruct Hcase as [Hd0 Hr]. apply Hfinal; [symmetry; exact Hr | intros n Hn; lia].
Qed.

Lemma pinv_init a r dt : ginv a r -> drep a r dt -> pinv a (pgen_new r) (f_new dt).
Proof.
  intros G Hrep. unfold pinv, pgen_new, f_new, dfs_new; simpl. repeat split.
  - constructor; [|constructor]. unfold entry_ok; simpl. rewrite (drep_idx a r dt Hrep). repeat split; auto.
    destruct (gi_root a r G) as (c & Hc & Hpar). exists c. auto.
  - constructor.
  - constructor; [simpl; lia | constructor].
Qed.

(* the coded generator and the specification machine produce the same stream, for every script *)
Theorem pgen_refines a r (G : ginv a r) : forall script s fs, pinv a s fs -> pgen_run a s script = f_run fs script.
Proof.
  induction script as [|cm script IH]; intros s fs Hinv; [reflexivity|]. destruct cm; simpl.
  - pose proof (pinv_next a r G s fs Hinv) as H.
    destruct (pgen_next a s) as [it rows s'| |], (f_next fs) as [oi fs'| |]; try contradiction.
    + destruct H as [-> H]. unfold item_of. f_equal. apply IH. exact H.
    + f_equal. apply IH. exact Hinv.
  - f_equal. apply IH. apply pinv_skip. exact Hinv.
Qed.

Theorem pgen_run_spec a r fuel dt script : ginv a r -> dabs fuel a r = Some dt ->
  pgen_run a (pgen_new r) script = f_run (f_new dt) script.
Proof.
  intros G Hd. apply (pgen_refines a r G). apply pinv_init; [exact G|]. exact (dabs_sound a fuel r dt Hd).
Qed.

(* ---------------------------------------------------------------- executable form of the hypotheses *)
Fixpoint gnodupb (l : list nat) : bool :=
  match l with [] => true | x :: l' => negb (existsb (Nat.eqb x) l') && gnodupb l' end.
Definition gcell_okb (a : arena acont) (i : nat) (c : cell acont) : bool :=
  (length (c_children c) <=? 2) &&
  forallb (fun o => match o with
                    | None => true
                    | Some j => match aget a j with
                                | Some cj => match c_parent cj with Some p => p =? i | None => false end
                                | None => false
                                end
                    end) (c_children c) &&
  gnodupb (somes (c_children c)) &&
  (match somes (c_children c) with
   | [] => true
   | _ => (length (a_mat (ac_aff (c_val c))) =? 1) && (length (a_bias (ac_aff (c_val c))) =? 1)
   end).
Definition ginvb (a : arena acont) (r : nat) : bool :=
  match aget a r with Some c => match c_parent c with None => true | Some _ => false end | None => false end &&
  forallb (fun i => match aget a i with Some c => gcell_okb a i c | None => true end) (seq 0 (length a)).

Lemma gnodupb_NoDup l : gnodupb l = true -> NoDup l.
Proof.
  induction l as [|x l IH]; simpl; intros H; constructor; apply andb_prop in H as [H1 H2]; auto.
  intros Hin. apply negb_true_iff in H1. assert (E : existsb (Nat.eqb x) l = true); [|congruence].
  apply existsb_exists. exists x. split; [exact Hin | apply Nat.eqb_refl].
Qed.
Lemma nth_in_somes (os : list (option nat)) : forall l j, nth_error os l = Some (Some j) -> In j (somes os).
Proof.
  induction os as [|o os IH]; intros l j H; [destruct l; discriminate|].
  destruct l as [|l]; simpl in H; [injection H as ->; left; reflexivity|].
  destruct o; simpl; [right|]; eapply IH; eauto.
Qed.
Lemma nodup_somes_slot (os : list (option nat)) : NoDup (somes os) -> forall l l' j,
  nth_error os l = Some (Some j) -> nth_error os l' = Some (Some j) -> l = l'.
Proof.
  induction os as [|o os IH]; intros Hnd l l' j H1 H2; [destruct l; discriminate|].
  assert (Hnd' : NoDup (somes os)) by (destruct o; simpl in Hnd; [inversion Hnd|]; auto).
  destruct l as [|l], l' as [|l']; simpl in H1, H2; auto.
  - injection H1 as ->. simpl in Hnd. inversion Hnd as [|x xs Hnot _]; subst. exfalso. apply Hnot. eapply nth_in_somes; eauto.
  - injection H2 as ->. simpl in Hnd. inversion Hnd as [|x xs Hnot _]; subst. exfalso. apply Hnot. eapply nth_in_somes; eauto.
  - f_equal. eapply IH; eauto.
Qed.
Lemma aget_lt {V} (a : arena V) i c : aget a i = Some c -> i < length a.
Proof. unfold aget. intros H. apply nth_error_Some. destruct (nth_error a i); discriminate. Qed.

Theorem ginvb_sound a r : ginvb a r = true -> ginv a r.
Proof.
  unfold ginvb. intros H. apply andb_prop in H as [Hroot Hcells].
  assert (Hcell : forall i c, aget a i = Some c -> gcell_okb a i c = true).
  { intros i c Hc. rewrite forallb_forall in Hcells. specialize (Hcells i).
    rewrite Hc in Hcells. apply Hcells. apply in_seq. pose proof (aget_lt a i c Hc). lia. }
  constructor.
  - destruct (aget a r) as [c|]; [|discriminate]. exists c. split; [reflexivity|]. destruct (c_parent c); [discriminate | reflexivity].
  - intros i c l j Hc Hn. specialize (Hcell i c Hc). unfold gcell_okb in Hcell.
    apply andb_prop in Hcell as [Hcell _]. apply andb_prop in Hcell as [Hcell _]. apply andb_prop in Hcell as [_ Hd].
    rewrite forallb_forall in Hd. specialize (Hd (Some j) (nth_error_In _ _ Hn)). simpl in Hd.
    destruct (aget a j) as [cj|]; [|discriminate]. exists cj. split; [reflexivity|].
    destruct (c_parent cj) as [p|]; [|discriminate]. apply Nat.eqb_eq in Hd. congruence.
  - intros i c l l' j Hc H1 H2. specialize (Hcell i c Hc). unfold gcell_okb in Hcell.
    apply andb_prop in Hcell as [Hcell _]. apply andb_prop in Hcell as [_ Hs]. apply gnodupb_NoDup in Hs.
    exact (nodup_somes_slot _ Hs l l' j H1 H2).
  - intros i c Hc. specialize (Hcell i c Hc). unfold gcell_okb in Hcell.
    apply andb_prop in Hcell as [Hcell _]. apply andb_prop in Hcell as [Hcell _]. apply andb_prop in Hcell as [Hb _].
    apply Nat.leb_le. exact Hb.
  - intros i c l j Hc Hn. specialize (Hcell i c Hc). unfold gcell_okb in Hcell.
    apply andb_prop in Hcell as [_ Hrow]. pose proof (nth_in_somes _ l j Hn) as Hin.
    destruct (somes (c_children c)); [contradiction|].
    apply andb_prop in Hrow as [H1 H2]. split; apply Nat.eqb_eq; assumption.
Qed.

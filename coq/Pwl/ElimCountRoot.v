(* Pwl/ElimCountRoot.v -- the counting theorem of ElimCount for every legal input of a C06 pipeline (EffHistory.pinv:
   the root may have lost a branch in an earlier round), the satisfiability of its hypotheses (fresh total trees, results
   of earlier runs), and a concrete run where 3 of 4 activation regions survive. *)
From AT Require Import Num Vec Aff PTree Cells Abs Cache Reduce Elim ElimEval ElimCache ElimEff CPrune Ops Schema WfC OpsWf
  ElimWf CPruneWf History CacheHistory CacheHistoryRun EffHistory ElimExample ElimCount.

Theorem elim_count_pinv o tol t : 0 <= tol -> (forall r, is_path [] t r -> oexact_at o r) -> mir_sound o tol ->
  pinv tol t ->
  exists m : list bool,
    length m = length (leaf_regions [] t) /\
    leaf_funcs (fst (elim o tol t)) = select m (leaf_funcs t) /\
    Forall2 (fun (b : bool) (R : rows) => (b = true -> ne_tol tol R) /\ (ne R -> b = true)) m (leaf_regions [] t).
Proof.
  intros Ht Hex Hm [He [Hk Hw]].
  destruct t as [|i leaf p s' c0 c1]; [discriminate|].
  destruct leaf.
  { apply elim_count; auto. cbn [okc_kids]. discriminate. }
  destruct (Hk eq_refl) as [Hb|Hs].
  { apply elim_count; auto. intros _. exact Hb. }
  destruct Hs as [[-> [Ex1 [Hf1 Hk1]]]|[-> [Ex0 [Hf0 Hk0]]]].
  - unfold elim. rewrite elim_sub_unfold. cbv zeta. cbn [do_child0].
    destruct c1 as [|i1 l1 p1 s1' c10 c11]; [discriminate|]. set (C1 := CN i1 l1 p1 s1' c10 c11) in *.
    rewrite (visit_feas o tol _ ([] ++ [row1 p]) (row1 p) C1 k0 Hf1). cbn [andb c_exists].
    pose proof (elim_sub_count o tol Ht Hm C1 false ([] ++ [row1 p]) (c_state C1) k0) as EE.
    destruct (elim_sub o tol false ([] ++ [row1 p]) (c_state C1) C1 k0) as [sub1 k4] eqn:Er.
    cbn [fst] in *.
    pose proof (okc_feas_gst _ _ _ Ex1 Hk1 Hf1) as Hg.
    destruct EE as [m [M F]];
      [intros r Hr; apply Hex; right; right; exact Hr | reflexivity | apply okc_kids_of; exact Hk1
      | apply par_ok_of_gst; auto | apply gst_wit; exact Hg | intros _; split; auto |].
    exists m. cbn [leaf_regions leaf_funcs app]. split; [exact (F2_length _ _ _ M)|]. split; [exact F|exact M].
  - unfold elim. rewrite elim_sub_unfold. cbv zeta.
    destruct c0 as [|i0 l0 p0 s0' c00 c01]; [discriminate|]. set (C0 := CN i0 l0 p0 s0' c00 c01) in *.
    unfold do_child0. fold C0.
    change (match C0 with CU => (CU, k0, false) | CN _ _ _ _ _ _ =>
              let '(s0, k1, fr0, skip0) := visit o tol (c_state (CN i false p s' C0 CU)) ([] ++ [row0 p]) (row0 p) C0 k0 in
              if skip0 then (set_st s0 C0, k1, fr0)
              else let '(r0, k2) := elim_sub o tol false ([] ++ [row0 p]) s0 C0 k1 in (r0, k2, fr0) end)
      with (let '(s0, k1, fr0, skip0) := visit o tol (c_state (CN i false p s' C0 CU)) ([] ++ [row0 p]) (row0 p) C0 k0 in
            if skip0 then (set_st s0 C0, k1, fr0)
            else let '(r0, k2) := elim_sub o tol false ([] ++ [row0 p]) s0 C0 k1 in (r0, k2, fr0)).
    rewrite (visit_feas o tol _ ([] ++ [row0 p]) (row0 p) C0 k0 Hf0).
    pose proof (elim_sub_count o tol Ht Hm C0 false ([] ++ [row0 p]) (c_state C0) k0) as EE.
    destruct (elim_sub o tol false ([] ++ [row0 p]) (c_state C0) C0 k0) as [sub0 k2] eqn:Er.
    cbn [fst] in *.
    pose proof (okc_feas_gst _ _ _ Ex0 Hk0 Hf0) as Hg.
    destruct EE as [m [M F]];
      [intros r Hr; apply Hex; right; left; exact Hr | reflexivity | apply okc_kids_of; exact Hk0
      | apply par_ok_of_gst; auto | apply gst_wit; exact Hg | intros _; split; auto |].
    exists m. cbn [leaf_regions leaf_funcs]. rewrite !app_nil_r.
    split; [exact (F2_length _ _ _ M)|]. split; [exact F|exact M].
Qed.

Theorem elim_count_between_pinv o tol t (full closed : list bool) : 0 <= tol ->
  (forall r, is_path [] t r -> oexact_at o r) -> mir_sound o tol -> pinv tol t ->
  Forall2 (fun (b : bool) (R : rows) => b = true -> ne R) full (leaf_regions [] t) ->
  Forall2 (fun (b : bool) (R : rows) => ne_tol tol R -> b = true) closed (leaf_regions [] t) ->
  (count full <= nleaves (fst (elim o tol t)) <= count closed)%nat.
Proof.
  intros Ht Ho Hm Hp Hfull Hclosed.
  destruct (elim_count_pinv o tol t Ht Ho Hm Hp) as [m [Hl [F M]]].
  rewrite (elim_count_nleaves o tol t m Hl F). eapply mask_between; eauto.
Qed.

(* the hypotheses are met by a fresh total tree ... *)
Lemma count_hyps_fresh tol t : c_exists t = true -> fresh t -> ctotal t ->
  c_exists t = true /\ okc_kids tol [] t /\ st_wit tol [] (c_state t).
Proof.
  intros He Hf Hc. split; [exact He|]. split.
  - pose proof (fresh_total_okc tol t [] Hf Hc) as H. apply okc_kids_of. exact H.
  - destruct t as [|i leaf p st c0 c1]; [exact I|]. destruct Hf as [-> _]. exact I.
Qed.
(* ... and (in the form pinv) by the result of an earlier run, hence along whole pipelines (EffHistory.pipeline_inv) *)
Lemma count_hyps_rerun o tol t : 0 <= tol -> (forall r, is_path [] t r -> oexact_at o r) -> mir_sound o tol ->
  pinv tol t -> pinv tol (fst (elim o tol t)).
Proof.
  intros Ht Ho Hm Hp.
  destruct (step_pinv tol o OElim t (fst (elim o tol t)) Ht I (fun _ => conj Ho Hm) Hp eq_refl) as [R _]. exact R.
Qed.

(* ---------- non-vacuity: two ReLU-like decisions on one variable ---------- *)
(* root: x <= 0 ?   on both sides: x <= 1 ?   (label 1 = yes = child 1, label 0 = no = child 0)
   activation regions in depth-first order:  {x>=0,x>=1}  {x>=0,x<=1}  {x<=0,x>=1} = empty  {x<=0,x<=1} *)
Definition cx_t : ctree :=
  CN 0 false (ex_p 1 0) Indet
     (CN 1 false (ex_p 1 1) Indet
         (CN 2 true (ex_f 1 0) Indet CU CU)
         (CN 3 true (ex_f (1 + 1) 0) Indet CU CU))
     (CN 4 false (ex_p 1 1) Indet
         (CN 5 true (ex_f (1 + 1 + 1) 0) Indet CU CU)
         (CN 6 true (ex_f (1 + 1 + 1 + 1) 0) Indet CU CU)).
Definition cx_mask : list bool := [true; true; false; true].

Lemma cx_exact : forall r, is_path [] cx_t r -> oexact_at ex_o r.
Proof.
  intros r H k. cbn [is_path cx_t app] in H.
  repeat match goal with H : _ \/ _ |- _ => destruct H as [H|H] end; try contradiction; subst r; cbn [ex_o o_lp].
  - apply (ne_of _ [0]). vm_compute. reflexivity.
  - change (rows_eqb _ ex_bad) with false. cbv iota. apply (ne_of _ [0]). vm_compute. reflexivity.
  - change (rows_eqb _ ex_bad) with false. cbv iota. apply (ne_of _ [1]). vm_compute. reflexivity.
  - change (rows_eqb _ ex_bad) with false. cbv iota. apply (ne_of _ [0]). vm_compute. reflexivity.
  - change (rows_eqb _ ex_bad) with false. cbv iota. apply (ne_of _ [0]). vm_compute. reflexivity.
  - change (rows_eqb _ ex_bad) with true. cbv iota. intros [x Hx]. exact (ex_bad_empty x Hx).
  - change (rows_eqb _ ex_bad) with false. cbv iota. apply (ne_of _ [0]). vm_compute. reflexivity.
Qed.
Lemma cx_okc : okc_kids 0 [] cx_t.
Proof.
  cbn. intros _. repeat split; auto; try (left; reflexivity); intros; try discriminate.
Qed.
Lemma interior_of (R : rows) (x : vec) : forallb (fun rb => negb (qleb (snd rb) (dot (fst rb) x))) R = true -> interior R.
Proof.
  intros H. exists x. apply Forall_forall. intros rb Hrb. rewrite forallb_forall in H. specialize (H rb Hrb).
  apply negb_true_iff in H. apply qleb_false in H. exact H.
Qed.

Example cx_count :
  (* the hypotheses of elim_count / elim_count_between hold *)
  ((forall r, is_path [] cx_t r -> oexact_at ex_o r) /\ mir_sound ex_o 0 /\
   c_exists cx_t = true /\ okc_kids 0 [] cx_t /\ st_wit 0 [] (c_state cx_t)) /\
  (* four activation regions, three terminals left, exactly the non-empty ones, here also the full-dimensional ones *)
  length (leaf_regions [] cx_t) = 4%nat /\
  nleaves (fst (elim ex_o 0 cx_t)) = 3%nat /\ count cx_mask = 3%nat /\
  leaf_funcs (fst (elim ex_o 0 cx_t)) = select cx_mask (leaf_funcs cx_t) /\
  Forall2 (fun (b : bool) (R : rows) => b = true <-> ne R) cx_mask (leaf_regions [] cx_t) /\
  Forall2 (fun (b : bool) (R : rows) => b = true -> interior R) cx_mask (leaf_regions [] cx_t).
Proof.
  split; [split; [exact cx_exact|]; split; [apply ex_mir|]; split; [reflexivity|]; split; [exact cx_okc|exact I]|].
  split; [reflexivity|]. split; [vm_compute; reflexivity|]. split; [reflexivity|]. split; [vm_compute; reflexivity|].
  split.
  - cbn [leaf_regions cx_t app cx_mask]. repeat constructor; try (intros _; reflexivity); try discriminate.
    + intros _. apply (ne_of _ [1]). vm_compute. reflexivity.
    + intros _. apply (ne_of _ [0]). vm_compute. reflexivity.
    + intros [x Hx]. exfalso. exact (ex_bad_empty x Hx).
    + intros _. apply (ne_of _ [0]). vm_compute. reflexivity.
  - cbn [leaf_regions cx_t app cx_mask]. repeat constructor; try discriminate.
    + intros _. apply (interior_of _ [1 + 1]). vm_compute. reflexivity.
    + intros _. apply (interior_of _ [1 / (1 + 1)]). vm_compute. reflexivity.
    + intros _. apply (interior_of _ [- (1)]). vm_compute. reflexivity.
Qed.
(* the general theorem, instantiated: the bounds are 3 <= 3 <= 3 *)
Example cx_between : (count cx_mask <= nleaves (fst (elim ex_o 0 cx_t)) <= count cx_mask)%nat.
Proof.
  destruct cx_count as [[Ho [Hm [He [Hk Hw]]]] [_ [_ [_ [_ [Hne _]]]]]].
  apply (elim_count_between ex_o 0 cx_t cx_mask cx_mask); auto; try apply Qcle_refl.
  - eapply F2_impl; [|exact Hne]. cbv beta. intros b R [H _]. exact H.
  - eapply F2_impl; [|exact Hne]. cbv beta. intros b R [_ H] E. apply H. apply ne_tol_0. exact E.
Qed.

(* Pwl/TermHistory.v -- what a history computes, at the level of the terminal reached: after any history of library
   operations (with or without pruning, with any oracles that are sound for x) the affine function that x is led to
   is the one the mathematical meaning of the operations yields from the function x was led to at the start.  It
   does not depend on the oracle answers nor on whether pruning was enabled: C03 for histories. *)
From AT Require Import Num Vec Aff PTree Cells Abs Cache Reduce Elim ElimEval ElimCache CPrune CPruneEval CPruneCache Ops Schema WfC OpsWf
  ElimWf CPruneWf History CacheHistory CacheHistoryRun TermLevel.

(* reduce at the level of terminals (Reduce.eval_reduce with the observable replaced) *)
Lemma term_reduce_in t x : bin t -> term (reduce_in t) x = term t x.
Proof.
  induction t as [| f | p ch IH] using ptree_ind'; intros Hb; auto.
  inversion Hb as [| | p' ch' H1 H2 Hch]; subst.
  assert (E : map (fun c => term c x) (map reduce_in ch) = map (fun c => term c x) ch).
  { rewrite map_map. apply map_ext_Forall. rewrite Forall_forall in *. intros c Hc. apply IH; auto. }
  pose proof (decide_bin p x H1 H2) as Hk.
  cbn [reduce_in]. cbv zeta.
  destruct (map reduce_in ch) as [|[|f|q c1] [|[|g|q2 c2] [|c3 l]]] eqn:EM; cbn [term]; try (rewrite E; reflexivity).
  destruct (aff_eqb f g) eqn:EQ.
  - apply aff_eqb_spec in EQ. subst g. cbn [term]. rewrite <- E. simpl.
    destruct (decide p x) as [|[|k]]; simpl; auto. lia.
  - cbn [term]. rewrite <- E. reflexivity.
Qed.

Theorem term_reduce t x : bin t -> term (reduce t) x = term t x.
Proof.
  destruct t as [| f | p ch]; intros Hb; auto. simpl.
  inversion Hb as [| | p' ch' H1 H2 Hch]; subst.
  f_equal. rewrite map_map. apply map_ext_Forall. rewrite Forall_forall in *. intros c Hc. apply term_reduce_in; auto.
Qed.

(* ---------- bridges from the well-formedness of History.v to the side conditions of the pruning theorems ---------- *)
Lemma bin2_of g : pshape g -> bin g -> bin2 g.
Proof.
  induction 1 as [|f|p l0 l1 He H0 IH0 H1 IH1]; intros Hb; try constructor.
  all: inversion Hb as [| |pp chh A B C]; subst.
  all: apply Forall_cons_iff in C as [C0 C]; apply Forall_cons_iff in C as [C1 _].
  - unfold one_row. split; [exact A | exact B].
  - apply IH0. exact C0.
  - apply IH1. exact C1.
Qed.
Lemma bin2_guard g : pshapeb g && binb g = true -> bin2 g.
Proof. intros H. apply andb_true_iff in H as [A B]. apply bin2_of; [apply pshapeb_spec; exact A | apply binb_spec; exact B]. Qed.
Lemma cwf_cbin n m t : cwf n m t -> cbin t.
Proof.
  induction 1 as [|i f st Hw Hi Ho|i p st c0 c1 Hw Hi Ho He H0 IH0 H1 IH1]; cbn [cbin]; auto.
  - split; [discriminate|auto].
  - split; [|auto]. intros _. destruct Hw as [_ Hl]. unfold outdim in Ho. split; [exact Ho | rewrite <- Hl; exact Ho].
Qed.
Lemma cwf_terms_ok n m t : cwf n m t -> terms_ok comp_schema t.
Proof.
  induction 1 as [|i f st Hw Hi Ho|i p st c0 c1 Hw Hi Ho He H0 IH0 H1 IH1]; cbn [terms_ok]; auto.
  - split; [intros _; apply keeps_rows_comp; destruct Hw as [_ Hl]; symmetry; exact Hl | split; exact I].
  - split; [discriminate|auto].
Qed.
Lemma cwf_bin_erase n m t : cwf n m t -> bin (erase t).
Proof.
  intros H. apply cwf_erase in H as [_ H]. apply pwf_shape in H. apply andb_true_iff in H as [_ H].
  apply binb_spec. exact H.
Qed.

Lemma cterm_cmap h : forall t x, cterm (cmap_terms h t) x = option_map h (cterm t x).
Proof.
  induction t as [|i leaf f st c0 IH0 c1 IH1]; intros x; [reflexivity|]. cbn [cmap_terms]. destruct leaf; cbn [cterm]; [reflexivity|].
  destruct (qleb (dot (fst (prow f)) x) (snd (prow f))); auto.
Qed.

(* ---------- the meaning of one transformation for the terminal reached by x ---------- *)
Definition sem_step (op : History.op) (x : vec) (u : option aff) : option aff :=
  match op with
  | OApply a => option_map (acompose a) u
  | OCompose _ g => obind u (fun f => term (graft comp_schema g f) x)
  | OElim | OReduce => u
  | OTree b g => obind u (fun f => term (graft (op_schema (bop_fun b)) g f) x)
  | ONeg => option_map aneg u
  | OAffR b g => option_map (fun f => aop (bop_fun b) f g) u
  | OAffL b g => option_map (fun f => aop (bop_fun b) g f) u
  end.

Theorem step_term tol x o op n m t t' :
  cwft n m t -> compat op n m = true -> osound o x -> hinv x tol t -> step tol o op t = HOk t' ->
  cterm t' x = sem_step op x (cterm t x).
Proof.
  intros Hw Hc Ho [Hk _] E.
  destruct (step_ok tol o op n m t Hw Hc) as [t1 [E1 Hw1]]. rewrite E in E1. inversion E1; subst t1. clear E1.
  destruct Hw as [He Hwf]. destruct Hw1 as [He1 Hwf1].
  pose proof (cwf_cbin _ _ _ Hwf) as Hb. pose proof (cwf_terms_ok _ _ _ Hwf) as Hto.
  destruct op as [a|pr g| | |b g| |b g|b g]; cbn [step] in E; cbn [sem_step].
  - destruct (terms_all _ t); [|discriminate]. inversion E; subst t'. unfold capply_func. apply cterm_cmap.
  - destruct (negb (pshapeb g && binb g)) eqn:Eg; [discriminate|]. apply negb_false_iff in Eg.
    destruct (terms_all _ t); [|discriminate]. inversion E; subst t'. clear E.
    rewrite (cterm_erase t x Hb). destruct pr.
    + rewrite (compose_prune_term o tol t g x Ho (bin2_guard g Eg) Hb Hto Hk). unfold compose. apply term_lift.
    + rewrite (cterm_erase _ x (cwf_cbin _ _ _ Hwf1)). rewrite erase_ccompose.
      * unfold compose. apply term_lift.
      * apply andb_true_iff in Eg as [Eg _]. apply pshapeb_spec. exact Eg.
  - inversion E; subst t'. apply elim_cterm; auto. apply marks_ok_split in Hk. tauto.
  - inversion E; subst t'. rewrite (cterm_erase _ x (cwf_cbin _ _ _ Hwf1)). rewrite (erase_creduce n m t Hwf).
    rewrite term_reduce; [|eapply cwf_bin_erase; eauto]. symmetry. apply cterm_erase. exact Hb.
  - destruct (negb (pshapeb g && binb g)) eqn:Eg; [discriminate|]. apply negb_false_iff in Eg.
    destruct (terms_all _ t); [|discriminate]. inversion E; subst t'. clear E.
    rewrite (cterm_erase t x Hb).
    rewrite (top_prune_term o tol (bop_fun b) t g x Ho (bin2_guard g Eg) Hb Hk). unfold top. apply term_lift.
  - inversion E; subst t'. unfold cneg. apply cterm_cmap.
  - destruct (terms_all _ t); [|discriminate]. inversion E; subst t'. unfold cop_r. apply cterm_cmap.
  - destruct (terms_all _ t); [|discriminate]. inversion E; subst t'. unfold cop_l. apply cterm_cmap.
Qed.

Definition sem_hist (ops : list (oracle * History.op)) (x : vec) (u : option aff) : option aff :=
  fold_left (fun u ox => sem_step (snd ox) x u) ops u.

Theorem history_term tol x : forall ops n m init t,
  cwft n m init -> compat_hist (n, m) ops = true ->
  (forall ox, In ox ops -> osound (fst ox) x /\ mir_sound (fst ox) tol) ->
  hinv x tol init -> run tol init ops = HOk t ->
  cterm t x = sem_hist ops x (cterm init x).
Proof.
  induction ops as [|[o op] rest IH]; intros n m init t Hw Hc Ho Hi Er.
  - unfold run in Er. cbn [fold_left] in Er. inversion Er; subst. reflexivity.
  - rewrite run_cons in Er. cbn [fst snd] in Er. cbn [compat_hist fst snd] in Hc.
    apply andb_true_iff in Hc as [Hc Hr].
    destruct (step_ok tol o op n m init Hw Hc) as [t1 [Es Ht1]]. rewrite Es in Er.
    destruct (next_dims op (n, m)) as [n' m'] eqn:Ed. cbn [fst snd] in *.
    destruct (Ho (o, op) (or_introl eq_refl)) as [Hos Hms]. cbn [fst] in Hos, Hms.
    unfold sem_hist. cbn [fold_left snd]. rewrite <- (step_term tol x o op n m init t1 Hw Hc Hos Hi Es).
    apply (IH n' m' t1 t Ht1 Hr).
    + intros ox Hin. apply Ho. right. exact Hin.
    + eapply step_inv; eauto. destruct Hw as [_ Hw]. eapply cwf_cleafok; eauto.
    + exact Er.
Qed.

(* the value: what evaluate() returns after the history *)
Corollary history_value tol x ops n m init t :
  cwft n m init -> compat_hist (n, m) ops = true ->
  (forall ox, In ox ops -> osound (fst ox) x /\ mir_sound (fst ox) tol) ->
  hinv x tol init -> run tol init ops = HOk t ->
  cev t x = option_map (fun f => apply f x) (sem_hist ops x (cterm init x)).
Proof. intros. rewrite cev_cterm. f_equal. eapply history_term; eauto. Qed.

(* pruning and oracle answers are immaterial: two histories that differ only in their oracles and in whether
   compositions prune (and both start from the same tree) lead x to the same terminal function *)
Definition forget (op : History.op) : History.op :=
  match op with OCompose _ g => OCompose false g | _ => op end.
Lemma sem_step_forget op x u : sem_step (forget op) x u = sem_step op x u.
Proof. destruct op; reflexivity. Qed.
Lemma sem_hist_forget x : forall ops1 ops2 u,
  map (fun ox => forget (snd ox)) ops1 = map (fun ox => forget (snd ox)) ops2 -> sem_hist ops1 x u = sem_hist ops2 x u.
Proof.
  unfold sem_hist. induction ops1 as [|[o1 a1] r1 IH]; intros [|[o2 a2] r2] u H; try discriminate; [reflexivity|].
  cbn [map snd] in H. inversion H as [[Ha Hr]]. cbn [fold_left snd].
  rewrite <- (sem_step_forget a1), <- (sem_step_forget a2), Ha. apply IH. exact Hr.
Qed.
Theorem history_pruning_immaterial tol x ops1 ops2 n m init t1 t2 :
  map (fun ox => forget (snd ox)) ops1 = map (fun ox => forget (snd ox)) ops2 ->
  cwft n m init -> compat_hist (n, m) ops1 = true -> compat_hist (n, m) ops2 = true ->
  (forall ox, In ox ops1 -> osound (fst ox) x /\ mir_sound (fst ox) tol) ->
  (forall ox, In ox ops2 -> osound (fst ox) x /\ mir_sound (fst ox) tol) ->
  hinv x tol init -> run tol init ops1 = HOk t1 -> run tol init ops2 = HOk t2 ->
  cterm t1 x = cterm t2 x /\ cev t1 x = cev t2 x.
Proof.
  intros Hf Hw Hc1 Hc2 Ho1 Ho2 Hi E1 E2.
  assert (H : cterm t1 x = cterm t2 x).
  { rewrite (history_term tol x ops1 n m init t1 Hw Hc1 Ho1 Hi E1).
    rewrite (history_term tol x ops2 n m init t2 Hw Hc2 Ho2 Hi E2). apply sem_hist_forget. exact Hf. }
  split; [exact H|]. rewrite !cev_cterm, H. reflexivity.
Qed.

(* non-vacuity: the same three operations once with an oracle that prunes (ex_o: the contradictory path of ex_t) and
   pruning composition, once with an oracle that never prunes and the unpruned composition *)
From AT Require Import ElimEff ElimExample.
Definition th_never : oracle := {| o_lp := fun _ _ => LUnb; o_mir := fun _ _ _ => None |}.
Definition th_ops1 : list (oracle * History.op) := [(ex_o, OElim); (ex_o, OCompose true (partial_relu 1 0)); (ex_o, OElim)].
Definition th_ops2 : list (oracle * History.op) := [(th_never, OElim); (th_never, OCompose false (partial_relu 1 0)); (th_never, OElim)].
Definition csize := fix go (t : ctree) : nat := match t with CU => 0%nat | CN _ _ _ _ a b => S (go a + go b) end.
Lemma th_example :
  exists t1 t2, run 0 ex_t th_ops1 = HOk t1 /\ run 0 ex_t th_ops2 = HOk t2 /\ (csize t1 < csize t2)%nat /\
  forall x, cterm t1 x = cterm t2 x /\ cev t1 x = cev t2 x.
Proof.
  destruct (run 0 ex_t th_ops1) as [t1|] eqn:E1; [|vm_compute in E1; discriminate].
  destruct (run 0 ex_t th_ops2) as [t2|] eqn:E2; [|vm_compute in E2; discriminate].
  exists t1, t2. split; [reflexivity|]. split; [reflexivity|]. split.
  - vm_compute in E1. vm_compute in E2. inversion E1; subst t1. inversion E2; subst t2. vm_compute. lia.
  - intros x.
    apply (history_pruning_immaterial 0 x th_ops1 th_ops2 1 1 ex_t t1 t2); auto.
    + apply cwftb_spec. vm_compute. reflexivity.
    + intros ox Hin. cbn [th_ops1 In] in Hin.
      repeat match goal with H : _ \/ _ |- _ => destruct H as [H|H] end; try contradiction; subst ox; cbn [fst];
        (split; [apply ex_osound | apply ex_mir]).
    + intros ox Hin. cbn [th_ops2 In] in Hin.
      repeat match goal with H : _ \/ _ |- _ => destruct H as [H|H] end; try contradiction; subst ox; cbn [fst];
        (split; [intros k q Hq; discriminate | intros k q ws pts Hq; discriminate]).
    + apply fresh_inv. cbn. repeat split; reflexivity.
Qed.

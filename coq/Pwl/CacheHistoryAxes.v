(* Pwl/CacheHistoryAxes.v -- remove_axes as a history step: every state is reset, so the cache invariant of
   CacheHistory.v holds afterwards whatever the tree carried before (histories continue from there). *)
From AT Require Import Num Vec Aff PTree Cells Abs Cache Elim ElimEval ElimCache RemoveAxesCache CacheHistory.

Lemma creset_fresh h : forall t, fresh (creset h t).
Proof. induction t as [|i leaf f st c0 IH0 c1 IH1]; cbn [creset fresh]; auto. Qed.
Theorem cremove_axes_hinv mask x tol t : hinv x tol (cremove_axes mask t).
Proof. apply fresh_inv. apply creset_fresh. Qed.

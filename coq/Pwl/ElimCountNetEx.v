(* Pwl/ElimCountNetEx.v -- non-vacuity of the network-level counting theorems (ElimCountNet.v): a two-layer pipeline
   eliminate / apply_func / compose (un-pruned, total tree) / eliminate on one variable.
     layer 1:  x <= 0 ?   no: x   yes: x - 1        then apply_func y + 1:   no: x + 1   yes: x
     layer 2:  y >= 1 ?   no: y   yes: 2y           (composed below both terminals, nothing pruned)
   activation regions of the un-pruned network, depth-first:
     {x>=0, x<=0} = {0} (non-empty, not full-dimensional)   {x>=0, x>=0}   {x<=0, x<=1}   {x<=0, x>=1} = empty
   the distilled tree has 3 terminals = the number of non-empty closed regions; 2 regions are full-dimensional. *)
From AT Require Import Num Vec Aff PTree Cells Abs Cache Reduce Elim ElimEval ElimCache ElimEff CPrune Ops Schema WfC OpsWf
  ElimWf CPruneWf History CacheHistory CacheHistoryRun ElimExample EffHistory EffHistoryEx ElimCount ElimCountRoot ElimCountNet.

Definition nx_t : ctree :=
  CN 0 false (ex_p 1 0) Indet
     (CN 1 true (ex_f 1 0) Indet CU CU)
     (CN 2 true (ex_f 1 (- (1))) Indet CU CU).
Definition nx_g : ptree := D (ex_p (- (1)) (- (1))) [T (ex_f 1 0); T (ex_f (1 + 1) 0)].
Definition nx_pre : list (oracle * History.op) :=
  [(ex_o, OElim); (ex_o, OApply (ex_f 1 1)); (ex_o, OCompose false nx_g)].
Definition nx_ops : list (oracle * History.op) := nx_pre ++ [(ex_o, OElim)].
Definition nx_closed : list bool := [true; true; true; false].
Definition nx_full : list bool := [false; true; true; false].

Lemma nx_eff_ops : forall ox, In ox nx_ops -> eff_op (snd ox).
Proof.
  intros ox Hin. cbn [nx_ops nx_pre app In] in Hin.
  repeat match goal with H : _ \/ _ |- _ => destruct H as [H|H] end; try contradiction; subst ox; cbn [snd eff_op]; auto.
  unfold nx_g. repeat constructor.
Qed.
Lemma nx_pinv : pinv 0 nx_t.
Proof.
  apply fresh_total_pinv; [reflexivity | cbn; repeat split; reflexivity | cbn; repeat split; auto; discriminate].
Qed.
Lemma nx_exact : exact_hist 0 nx_t nx_ops.
Proof.
  cbn [exact_hist nx_ops nx_pre app fst snd]. split.
  { intros _. split; [|apply ex_mir]. apply ex_o_exact_on. vm_compute. reflexivity. }
  intros t1 E1. split; [discriminate|]. intros t2 E2. split; [discriminate|]. intros t3 E3. split.
  { intros _. split; [|apply ex_mir]. apply ex_o_exact_on.
    cbn [step] in E1. inversion E1; subst t1. vm_compute in E2. inversion E2; subst t2.
    vm_compute in E3. inversion E3; subst t3. vm_compute. reflexivity. }
  intros t4 E4. exact I.
Qed.

Example nx_net :
  exists R Un : ctree,
    (* the hypotheses of net_mask / net_lower_bound / net_exact_tol0_last hold *)
    ((forall ox, In ox nx_ops -> eff_op (snd ox)) /\ exact_hist 0 nx_t nx_ops /\ pinv 0 nx_t /\
     run 0 nx_t nx_ops = HOk R /\ run 0 nx_t (strip nx_ops) = HOk Un) /\
    (* four activation regions, three terminals left: exactly the non-empty ones; two of them are full-dimensional *)
    length (leaf_regions [] Un) = 4%nat /\ nleaves R = 3%nat /\ count nx_closed = 3%nat /\ count nx_full = 2%nat /\
    leaf_funcs R = select nx_closed (leaf_funcs Un) /\
    Forall2 (fun (b : bool) (Rg : rows) => b = true <-> ne Rg) nx_closed (leaf_regions [] Un) /\
    Forall2 (fun (b : bool) (Rg : rows) => b = true -> interior Rg) nx_full (leaf_regions [] Un).
Proof.
  destruct (run 0 nx_t nx_ops) as [R|] eqn:ER; [|vm_compute in ER; discriminate].
  destruct (run 0 nx_t (strip nx_ops)) as [Un|] eqn:EU; [|vm_compute in EU; discriminate].
  exists R, Un.
  split; [split; [exact nx_eff_ops|]; split; [exact nx_exact|]; split; [exact nx_pinv|]; split; reflexivity|].
  vm_compute in ER. inversion ER; subst R. vm_compute in EU. inversion EU; subst Un. clear ER EU.
  split; [reflexivity|]. split; [reflexivity|]. split; [reflexivity|]. split; [reflexivity|].
  split; [vm_compute; reflexivity|]. split.
  - cbn [leaf_regions app nx_closed]. repeat constructor; try (intros _; reflexivity); try discriminate.
    + intros _. apply (ne_of _ [0]). vm_compute. reflexivity.
    + intros _. apply (ne_of _ [0]). vm_compute. reflexivity.
    + intros _. apply (ne_of _ [0]). vm_compute. reflexivity.
    + intros [x Hx]. exfalso. apply (ex_bad_empty x).
      unfold in_rows in *. apply Forall_cons_iff in Hx as [H1 Hx]. apply Forall_cons_iff in Hx as [H2 _].
      constructor; [exact H1|]. constructor; [exact H2|constructor].
  - cbn [leaf_regions app nx_full]. repeat constructor; try discriminate.
    + intros _. apply (interior_of _ [1]). vm_compute. reflexivity.
    + intros _. apply (interior_of _ [- (1)]). vm_compute. reflexivity.
Qed.

(* the general theorems, instantiated *)
Example nx_theorems :
  forall R Un, run 0 nx_t nx_ops = HOk R -> run 0 nx_t (strip nx_ops) = HOk Un ->
  (exists m : list bool, length m = length (leaf_regions [] Un) /\ leaf_funcs R = select m (leaf_funcs Un) /\
     Forall2 (fun (b : bool) (Rg : rows) => ne Rg -> b = true) m (leaf_regions [] Un)) /\
  (forall full, Forall2 (fun (b : bool) (Rg : rows) => b = true -> ne Rg) full (leaf_regions [] Un) ->
     (count full <= nleaves R)%nat) /\
  (forall closed, Forall2 (fun (b : bool) (Rg : rows) => b = true <-> ne Rg) closed (leaf_regions [] Un) ->
     nleaves R = count closed).
Proof.
  intros R Un ER EU. split; [|split].
  - exact (net_mask 0 nx_ops nx_t R Un (Qcle_refl 0) nx_eff_ops nx_exact nx_pinv ER EU).
  - intros full. exact (net_lower_bound 0 nx_ops nx_t R Un full (Qcle_refl 0) nx_eff_ops nx_exact nx_pinv ER EU).
  - intros closed. apply (net_exact_tol0_last nx_pre nx_t R Un ex_o closed); auto.
    + intros ox Hin. apply nx_eff_ops. unfold nx_ops. apply in_or_app. left. exact Hin.
    + exact nx_exact.
    + exact nx_pinv.
Qed.

(* Pwl/PolyGenUpd.v -- the path-polytope generator on a tree that the caller rewrites between two next() calls.
   PolyhedraGen does not borrow the tree: AffTree::remove_axes and infeasible_elimination call update_node on the
   node just reported.  The script language of PolyGen.v is extended by UUpdate i p (AffTree::update_node: the
   predicate stored at index i is replaced, links, leaf flag and cached state are kept); the arena is threaded through
   the script and the EXISTING machines pgen_next / pgen_skip run on the current arena.  Characteristic property of the
   code: the half-space block pushed for a reported node is read from the predicate stored at its parent at the moment
   of the report (not at the moment the parent was expanded). *)
From AT Require Import Num Vec Aff PTree Cells Abs PolyGen.

Inductive ucmd := UNext | USkip | UUpdate (i : nat) (p : aff).

Definition with_aff (c : cell acont) (p : aff) : cell acont :=
  mkcell {| ac_aff := p; ac_state := ac_state (c_val c) |} (c_parent c) (c_children c) (c_leaf c).
(* AffTree::update_node; an index outside the arena is an Err and leaves the tree as it is *)
Definition upd_node (a : arena acont) (i : nat) (p : aff) : arena acont :=
  match aget a i with
  | None => a
  | Some c => aset a i (Some (with_aff c p))
  end.

(* an update emits nothing *)
Fixpoint pgen_run_upd (a : arena acont) (s : pgen) (script : list ucmd) : list out :=
  match script with
  | [] => []
  | USkip :: sc => OSkip :: pgen_run_upd a (pgen_skip s) sc
  | UUpdate i p :: sc => pgen_run_upd (upd_node a i p) s sc
  | UNext :: sc =>
      match pgen_next a s with
      | PgItem it rows s' =>
          OItem {| o_depth := di_depth it; o_index := di_index it; o_nrem := di_nrem it; o_rows := rows |}
            :: pgen_run_upd a s' sc
      | PgEnd => OEnd :: pgen_run_upd a s sc
      | PgPanic => [OPanic]
      end
  end.

(* the arena and the generator state a script leaves behind (None: the generator panicked) *)
Fixpoint ucfg (a : arena acont) (s : pgen) (script : list ucmd) : option (arena acont * pgen) :=
  match script with
  | [] => Some (a, s)
  | USkip :: sc => ucfg a (pgen_skip s) sc
  | UUpdate i p :: sc => ucfg (upd_node a i p) s sc
  | UNext :: sc =>
      match pgen_next a s with
      | PgItem _ _ s' => ucfg a s' sc
      | PgEnd => ucfg a s sc
      | PgPanic => None
      end
  end.

Definition ucmd_of (c : cmd) : ucmd := match c with Next => UNext | Skip => USkip end.

(* (a) without updates: the static machine *)
Theorem pgen_run_upd_static : forall script a s, pgen_run_upd a s (map ucmd_of script) = pgen_run a s script.
Proof.
  induction script as [|c sc IH]; intros a s; [reflexivity|].
  destruct c; cbn [map ucmd_of pgen_run_upd pgen_run].
  - destruct (pgen_next a s) as [it rows s'| |]; [rewrite IH|rewrite IH|]; reflexivity.
  - rewrite IH. reflexivity.
Qed.

Lemma upd_node_get : forall a i p j,
  aget (upd_node a i p) j = if Nat.eqb i j then option_map (fun c => with_aff c p) (aget a j) else aget a j.
Proof.
  intros a i p j. unfold upd_node. destruct (Nat.eqb i j) eqn:E.
  - apply Nat.eqb_eq in E. subst j. destruct (aget a i) as [c|] eqn:G.
    + rewrite aget_aset_same. reflexivity.
    + rewrite G. reflexivity.
  - apply Nat.eqb_neq in E. destruct (aget a i) as [c|]; [|reflexivity]. apply aget_aset_other. exact E.
Qed.
(* an update keeps every link *)
Lemma upd_node_links : forall a i p j c, aget a j = Some c ->
  exists c', aget (upd_node a i p) j = Some c' /\ c_parent c' = c_parent c /\ c_children c' = c_children c /\
             c_leaf c' = c_leaf c /\ ac_state (c_val c') = ac_state (c_val c).
Proof.
  intros a i p j c G. rewrite upd_node_get, G. destruct (Nat.eqb i j).
  - exists (with_aff c p). repeat split; reflexivity.
  - exists c. repeat split; reflexivity.
Qed.
Lemma upd_node_aff : forall a i p c, aget a i = Some c ->
  exists c', aget (upd_node a i p) i = Some c' /\ ac_aff (c_val c') = p /\ c_children c' = c_children c.
Proof.
  intros a i p c G. rewrite upd_node_get, Nat.eqb_refl, G. exists (with_aff c p). repeat split; reflexivity.
Qed.

(* the number of path rows kept when a node of depth d is reported *)
Definition kept (s : pgen) (d : nat) : nat :=
  if Nat.leb d (pg_last_depth s) then length (pg_preds s) - (1 + pg_last_depth s - d) else length (pg_preds s).

(* (b) one step: the block appended for the reported node is read from the parent's cell in the arena given to
   this very call *)
Lemma pgen_next_reads_parent : forall a s it rows s', pgen_next a s = PgItem it rows s' ->
  pg_preds s' = rows /\
  exists c, aget a (di_index it) = Some c /\
    match c_parent c with
    | None => rows = firstn (kept s (di_depth it)) (pg_preds s)
    | Some pi => exists pc l r, aget a pi = Some pc /\ find_label (c_children pc) (di_index it) = Some l /\
                   edge_rows (ac_aff (c_val pc)) l = Some r /\
                   rows = firstn (kept s (di_depth it)) (pg_preds s) ++ r
    end.
Proof.
  intros a s it rows s' H. unfold pgen_next in H.
  destruct (d_stack (pg_iter s)) as [|top rest] eqn:Es; [discriminate|].
  destruct (dfs_next a (pg_iter s)) as [[it' iter']|] eqn:En; [|discriminate].
  assert (Hk : (if Nat.leb (di_depth it') (pg_last_depth s)
                then firstn (length (pg_preds s) - (1 + pg_last_depth s - di_depth it')) (pg_preds s)
                else pg_preds s) = firstn (kept s (di_depth it')) (pg_preds s)).
  { unfold kept. destruct (Nat.leb (di_depth it') (pg_last_depth s)); [reflexivity|]. symmetry. apply firstn_all. }
  rewrite Hk in H. clear Hk.
  destruct (aget a (di_index it')) as [c|] eqn:Gc; [|discriminate].
  destruct (c_parent c) as [pi|] eqn:Ep.
  - destruct (aget a pi) as [pc|] eqn:Gp; [|discriminate].
    destruct (find_label (c_children pc) (di_index it')) as [l|] eqn:El; [|discriminate].
    destruct (edge_rows (ac_aff (c_val pc)) l) as [r|] eqn:Er; [|discriminate].
    inversion H; subst it rows s'. split; [reflexivity|].
    exists c. split; [exact Gc|]. rewrite Ep. exists pc, l, r. repeat split; assumption.
  - inversion H; subst it rows s'. split; [reflexivity|].
    exists c. split; [exact Gc|]. rewrite Ep. reflexivity.
Qed.

Lemma pgen_run_upd_app : forall pre a s a' s' sc, ucfg a s pre = Some (a', s') ->
  pgen_run_upd a s (pre ++ sc) = pgen_run_upd a s pre ++ pgen_run_upd a' s' sc.
Proof.
  induction pre as [|c pre IH]; intros a s a' s' sc H.
  - cbn in H. inversion H; subst. reflexivity.
  - destruct c; cbn [app pgen_run_upd ucfg] in *.
    + destruct (pgen_next a s) as [it rows s1| |]; [| |discriminate].
      * rewrite (IH _ _ _ _ sc H). reflexivity.
      * rewrite (IH _ _ _ _ sc H). reflexivity.
    + rewrite (IH _ _ _ _ sc H). reflexivity.
    + apply IH. exact H.
Qed.
Lemma ucfg_app : forall pre a s a' s' sc, ucfg a s pre = Some (a', s') -> ucfg a s (pre ++ sc) = ucfg a' s' sc.
Proof.
  induction pre as [|c pre IH]; intros a s a' s' sc H.
  - cbn in H. inversion H; subst. reflexivity.
  - destruct c; cbn [app ucfg] in *.
    + destruct (pgen_next a s) as [it rows s1| |]; [| |discriminate]; apply IH; exact H.
    + apply IH. exact H.
    + apply IH. exact H.
Qed.

(* (b) on runs: after ANY script prefix (updates included) that leaves the arena a and the state s behind, the item
   reported by the following Next carries the kept prefix of the path rows followed by the edge rows of the predicate
   stored at its parent IN a, under its label there *)
Theorem pgen_run_upd_reads_current_parent : forall a0 s0 pre a s o,
  ucfg a0 s0 pre = Some (a, s) ->
  pgen_run_upd a0 s0 (pre ++ [UNext]) = pgen_run_upd a0 s0 pre ++ [OItem o] ->
  exists c, aget a (o_index o) = Some c /\
    match c_parent c with
    | None => o_rows o = firstn (kept s (o_depth o)) (pg_preds s)
    | Some pi => exists pc l r, aget a pi = Some pc /\ find_label (c_children pc) (o_index o) = Some l /\
                   edge_rows (ac_aff (c_val pc)) l = Some r /\
                   o_rows o = firstn (kept s (o_depth o)) (pg_preds s) ++ r
    end.
Proof.
  intros a0 s0 pre a s o Hc Hr. rewrite (pgen_run_upd_app _ _ _ _ _ [UNext] Hc) in Hr.
  apply app_inv_head in Hr. cbn [pgen_run_upd] in Hr.
  destruct (pgen_next a s) as [it rows s'| |] eqn:En; [|discriminate|discriminate].
  inversion Hr; subst o. cbn [o_index o_rows o_depth].
  destruct (pgen_next_reads_parent _ _ _ _ _ En) as [_ H]. exact H.
Qed.

(* in particular: the parent's predicate is rewritten to p right before the child is reported -> the child's last
   block is made of the rows of p (whatever the predicate was when the parent itself was reported and expanded) *)
Theorem pgen_run_upd_after_update : forall a0 s0 pre a s pi p o c,
  ucfg a0 s0 pre = Some (a, s) ->
  pgen_run_upd a0 s0 (pre ++ [UUpdate pi p; UNext]) = pgen_run_upd a0 s0 pre ++ [OItem o] ->
  aget a (o_index o) = Some c -> c_parent c = Some pi ->
  exists pc l r, aget a pi = Some pc /\ find_label (c_children pc) (o_index o) = Some l /\
    edge_rows p l = Some r /\ o_rows o = firstn (kept s (o_depth o)) (pg_preds s) ++ r.
Proof.
  intros a0 s0 pre a s pi p o c Hc Hr Gc Ep.
  assert (Hc' : ucfg a0 s0 (pre ++ [UUpdate pi p]) = Some (upd_node a pi p, s)).
  { rewrite (ucfg_app _ _ _ _ _ [UUpdate pi p] Hc). reflexivity. }
  assert (Hr' : pgen_run_upd a0 s0 ((pre ++ [UUpdate pi p]) ++ [UNext]) =
                pgen_run_upd a0 s0 (pre ++ [UUpdate pi p]) ++ [OItem o]).
  { rewrite <- app_assoc. cbn [app]. rewrite Hr.
    rewrite (pgen_run_upd_app _ _ _ _ _ [UUpdate pi p] Hc). cbn [pgen_run_upd]. rewrite app_nil_r. reflexivity. }
  destruct (pgen_run_upd_reads_current_parent _ _ _ _ _ _ Hc' Hr') as [c' [Gc' H]].
  destruct (upd_node_links a pi p _ _ Gc) as [c2 [G2 [Hp2 _]]].
  rewrite G2 in Gc'. inversion Gc'; subst c'. rewrite Hp2, Ep in H.
  destruct H as [pc' [l [r [Gp' [Hl [Hr2 Hrows]]]]]].
  rewrite upd_node_get, Nat.eqb_refl in Gp'.
  destruct (aget a pi) as [pc|] eqn:Gp; [|discriminate]. cbn [option_map] in Gp'. inversion Gp'; subst pc'.
  cbn [with_aff c_val c_children ac_aff] in Hl, Hr2.
  exists pc, l, r. repeat split; assumption.
Qed.

(* ---------- example: one decision x <= 0 over two leaves; rewriting the root after its report changes the rows
   reported for both children ---------- *)
Definition pgu_p (m b : Qc) : aff := {| a_in := 1; a_mat := [[m]]; a_bias := [b] |}.
Definition pgu_leaf (p : nat) : option (cell acont) :=
  Some (mkcell {| ac_aff := pgu_p 0 0; ac_state := Indet |} (Some p) [None; None] true).
Definition pgu_arena : arena acont :=
  [ Some (mkcell {| ac_aff := pgu_p 1 0; ac_state := Indet |} None [Some 1%nat; Some 2%nat] false);
    pgu_leaf 0; pgu_leaf 0 ].
Definition rows_eqb (x y : list (vec * Qc)) : bool :=
  Nat.eqb (length x) (length y) && forallb (fun p => veqb (fst (fst p)) (fst (snd p)) && qeqb (snd (fst p)) (snd (snd p))) (combine x y).
Definition out_rows (o : out) : list (vec * Qc) := match o with OItem i => o_rows i | _ => [] end.
Definition pgu_q : aff := pgu_p (1 + 1) 1.

Example pgen_run_upd_example :
  (* static: both children carry the rows of the original predicate *)
  map (fun o => rows_eqb (out_rows o) [([- (1)], - 0)]) (pgen_run_upd pgu_arena (pgen_new 0) [UNext; UNext; UNext])
    = [false; true; false] /\
  (* the root is rewritten after its report: the children carry the rows of the new predicate *)
  map (fun o => rows_eqb (out_rows o) [([- (1 + 1)], - (1))])
      (pgen_run_upd pgu_arena (pgen_new 0) [UNext; UUpdate 0 pgu_q; UNext; UNext]) = [false; true; false] /\
  map (fun o => rows_eqb (out_rows o) [([1 + 1], 1)])
      (pgen_run_upd pgu_arena (pgen_new 0) [UNext; UUpdate 0 pgu_q; UNext; UNext]) = [false; false; true] /\
  (* rewritten between the two children: the first child has the old rows, the second the new ones *)
  map (fun o => rows_eqb (out_rows o) [([- (1)], - 0)])
      (pgen_run_upd pgu_arena (pgen_new 0) [UNext; UNext; UUpdate 0 pgu_q; UNext]) = [false; true; false] /\
  map (fun o => rows_eqb (out_rows o) [([1 + 1], 1)])
      (pgen_run_upd pgu_arena (pgen_new 0) [UNext; UNext; UUpdate 0 pgu_q; UNext]) = [false; false; true].
Proof. repeat split; vm_compute; reflexivity. Qed.

(* Pwl/ElimCache.v -- infeasible_elimination keeps the feasibility caches sound (C05) for every oracle.

   Two halves:
   * witnesses ([wit_ok]): every FeasibleWitness list is non-empty and each point lies in the closed path
     polytope of its node within the containment tolerance -- for every LP oracle whatsoever; the mirror oracle
     is only assumed to return points that pass the polytope's containment test (that is what mirror_points'
     acceptance test guarantees: Cache.mirror_points_sound);
   * Infeasible marks ([marks_ok], per input x): no node marked Infeasible has x in its closed path polytope,
     provided the oracle's Infeasible answers exclude x.
   Both are stated for the paths of the RESULT tree (forwarded nodes have a shorter path). *)
From AT Require Import Num Vec Aff PTree Cells Abs Cache Elim ElimEval.

Definition st_wit (tol : Qc) (q : rows) (s : nstate) : Prop :=
  match s with
  | FeasW ws => ws <> [] /\ Forall (fun w => contains_tol tol q w = true) ws
  | _ => True
  end.
Fixpoint wit_ok (tol : Qc) (q : rows) (t : ctree) : Prop :=
  match t with
  | CU => True
  | CN _ _ p st c0 c1 => st_wit tol q st /\ wit_ok tol (q ++ [row0 p]) c0 /\ wit_ok tol (q ++ [row1 p]) c1
  end.
Definition wit_kids (tol : Qc) (q : rows) (t : ctree) : Prop :=
  match t with
  | CU => True
  | CN _ _ p _ c0 c1 => wit_ok tol (q ++ [row0 p]) c0 /\ wit_ok tol (q ++ [row1 p]) c1
  end.
Definition mir_sound (o : oracle) (tol : Qc) : Prop :=
  forall k q ws pts, o_mir o k q ws = Some pts -> pts <> [] /\ Forall (fun p => contains_tol tol q p = true) pts.

(* ---------- containment and sub-systems ---------- *)
Lemma contains_tol_app tol q r w : contains_tol tol (q ++ r) w = contains_tol tol q w && contains_tol tol r w.
Proof. unfold contains_tol. apply forallb_app. Qed.
Lemma contains_tol_incl tol q q' w : (forall r, In r q' -> In r q) -> contains_tol tol q w = true -> contains_tol tol q' w = true.
Proof.
  unfold contains_tol. rewrite !forallb_forall. intros Hi H r Hr. apply H. apply Hi. exact Hr.
Qed.
Lemma st_wit_incl tol q q' s : (forall r, In r q' -> In r q) -> st_wit tol q s -> st_wit tol q' s.
Proof.
  intros Hi. destruct s as [| | |ws]; simpl; auto. intros [H1 H2]. split; auto.
  eapply Forall_impl; [|exact H2]. intros w Hw. eapply contains_tol_incl; eauto.
Qed.
Lemma incl_app_r {A} (q q' : list A) (r : A) : (forall a, In a q' -> In a q) -> forall a, In a (q' ++ [r]) -> In a (q ++ [r]).
Proof. intros H a Ha. apply in_app_or in Ha as [Ha|Ha]; apply in_or_app; auto. Qed.
Lemma wit_ok_incl tol : forall t q q', (forall r, In r q' -> In r q) -> wit_ok tol q t -> wit_ok tol q' t.
Proof.
  induction t as [|i leaf p s c0 IH0 c1 IH1]; intros q q' Hi H; [exact I|].
  destruct H as [Hs [H0 H1]]. split; [|split].
  - eapply st_wit_incl; eauto.
  - eapply IH0; [|exact H0]. apply incl_app_r; auto.
  - eapply IH1; [|exact H1]. apply incl_app_r; auto.
Qed.
Lemma wit_ok_set_st tol q s t : st_wit tol q s -> wit_kids tol q t -> wit_ok tol q (set_st s t).
Proof. destruct t; simpl; tauto. Qed.
Lemma wit_ok_kids tol q t : wit_ok tol q t -> wit_kids tol q t.
Proof. destruct t; simpl; tauto. Qed.
Lemma wit_ok_state tol q t : wit_ok tol q t -> st_wit tol q (c_state t).
Proof. destruct t; simpl; tauto. Qed.

(* ---------- classification only stores points that passed the containment test ---------- *)
Lemma phase_two_wit o tol q k s k' : phase_two o tol q k = (s, k') -> st_wit tol q s.
Proof.
  unfold phase_two. intros H. destruct (o_lp o (k_lp k) q) eqn:E; try (inversion H; subst; exact I).
  destruct (contains_tol tol q w) eqn:Ec.
  - inversion H; subst. split; [discriminate|]. constructor; auto.
  - destruct (o_mir o (k_mir k) q [w]) as [[|pt l]|]; try (inversion H; subst; exact I).
    destruct (contains_tol tol q pt) eqn:Ep; inversion H; subst; try exact I.
    split; [discriminate|]. constructor; auto.
Qed.
Lemma classify_wit o tol stP qP h k s k' : mir_sound o tol -> st_wit tol qP stP ->
  classify o tol stP (qP ++ [h]) h k = (s, k') -> st_wit tol (qP ++ [h]) s.
Proof.
  unfold classify. intros Hm HP H. destruct stP as [| | |ws]; try (eapply phase_two_wit; eauto; fail).
  destruct (filter (fun w => contains_tol tol [h] w) ws) as [|w0 inh] eqn:Ef.
  - destruct (o_mir o (k_mir k) (qP ++ [h]) ws) as [pts|] eqn:Em.
    + inversion H; subst. exact (Hm _ _ _ _ Em).
    + eapply phase_two_wit; eauto.
  - inversion H; subst. split; [discriminate|]. destruct HP as [_ HP].
    rewrite <- Ef. apply Forall_forall. intros w Hw. apply filter_In in Hw as [Hw1 Hw2].
    rewrite contains_tol_app. rewrite Hw2. rewrite Forall_forall in HP. rewrite (HP w Hw1). reflexivity.
Qed.
Lemma visit_wit o tol stP qP h c k s k' fr sk : mir_sound o tol -> st_wit tol qP stP ->
  st_wit tol (qP ++ [h]) (c_state c) ->
  visit o tol stP (qP ++ [h]) h c k = (s, k', fr, sk) -> st_wit tol (qP ++ [h]) s.
Proof.
  unfold visit. intros Hm HP Hc H. destruct (c_state c) eqn:Ec.
  - destruct (classify o tol stP (qP ++ [h]) h k) as [s' k''] eqn:Ecl. inversion H; subst.
    eapply classify_wit; eauto.
  - inversion H; subst; exact I.
  - inversion H; subst; exact I.
  - inversion H; subst. exact Hc.
Qed.

(* ---------- the child-0 step of elim_sub, named ---------- *)
Definition do_child0 (o : oracle) (tol : Qc) (st : nstate) (q0 : rows) (h : vec * Qc) (c0 : ctree) (k : cnt)
  : ctree * cnt * bool :=
  match c0 with
  | CU => (CU, k, false)
  | _ =>
      let '(s0, k1, fr0, skip0) := visit o tol st q0 h c0 k in
      if skip0 then (set_st s0 c0, k1, fr0)
      else let '(r0, k2) := elim_sub o tol false q0 s0 c0 k1 in (r0, k2, fr0)
  end.
Lemma elim_sub_unfold o tol isroot q st i p s' c0 c1 k :
  elim_sub o tol isroot q st (CN i false p s' c0 c1) k =
  let q0 := q ++ [row0 p] in
  let q1 := q ++ [row1 p] in
  let '(sub0, k2, fresh0) := do_child0 o tol st q0 (row0 p) c0 k in
  match c1 with
  | CU => (CN i false p st sub0 CU, k2)
  | _ =>
      let '(s1, k3, fr1, skip1) := visit o tol st q1 (row1 p) c1 k2 in
      let s0now := c_state sub0 in
      let fwd := fr1 && c_exists sub0 &&
                 ((is_feas s0now && is_infeas s1) || (is_infeas s0now && is_feas s1)) in
      if fwd then
        if is_feas s1 then
          let '(r1, k4) := elim_sub o tol false q1 s1 c1 k3 in
          if isroot then (CN i false p st CU r1, k4) else (r1, k4)
        else
          if isroot then (CN i false p st sub0 CU, k3) else (sub0, k3)
      else
        let '(sub1, k4) :=
          if skip1 then (set_st s1 c1, k3) else elim_sub o tol false q1 s1 c1 k3 in
        let m0 := fresh0 && is_infeas (c_state sub0) in
        let m1 := fr1 && is_infeas s1 in
        let slot0 := if m0 && c_exists sub0 then CU else sub0 in
        let slot1 := if m1 && c_exists slot0 then CU else sub1 in
        (CN i false p st slot0 slot1, k4)
  end.
Proof. reflexivity. Qed.

(* ---------- witnesses ---------- *)
Theorem elim_sub_wit o tol : mir_sound o tol ->
  forall t isroot q st k, wit_kids tol q t -> st_wit tol q st ->
  wit_ok tol q (fst (elim_sub o tol isroot q st t k)).
Proof.
  intros Hm. induction t as [|i leaf p s' c0 IH0 c1 IH1]; intros isroot q st k Hk Hst; [exact I|].
  destruct leaf; [cbn [elim_sub fst]; destruct Hk; repeat split; auto|].
  rewrite elim_sub_unfold. cbv zeta. destruct Hk as [Hk0 Hk1].
  set (q0 := q ++ [row0 p]) in *. set (q1 := q ++ [row1 p]) in *.
  destruct (do_child0 o tol st q0 (row0 p) c0 k) as [[sub0 k2] fresh0] eqn:E0.
  assert (W0 : wit_ok tol q0 sub0).
  { unfold do_child0 in E0. destruct c0 as [|i0 l0 p0 s0' c00 c01]; [inversion E0; exact I|].
    destruct (visit o tol st q0 (row0 p) (CN i0 l0 p0 s0' c00 c01) k) as [[[s0 k1] fr0] skip0] eqn:Ev.
    assert (Hs0 : st_wit tol q0 s0).
    { unfold q0 in *. eapply visit_wit; eauto. apply wit_ok_state in Hk0. exact Hk0. }
    destruct skip0.
    - inversion E0; subst. split; [exact Hs0 | exact (proj2 Hk0)].
    - destruct (elim_sub o tol false q0 s0 (CN i0 l0 p0 s0' c00 c01) k1) as [r0 k2'] eqn:Er.
      inversion E0; subst. specialize (IH0 false q0 s0 k1). rewrite Er in IH0. apply IH0; auto.
      apply wit_ok_kids; auto. }
  assert (Iq : forall r : vec * Qc, In r q -> In r q0) by (intros r Hr; apply in_or_app; left; auto).
  assert (Iq1 : forall r : vec * Qc, In r q -> In r q1) by (intros r Hr; apply in_or_app; left; auto).
  destruct c1 as [|i1 l1 p1 s1' c10 c11]; [cbn [fst]; repeat split; auto|].
  destruct (visit o tol st q1 (row1 p) (CN i1 l1 p1 s1' c10 c11) k2) as [[[s1 k3] fr1] skip1] eqn:Ev1.
  assert (Hs1 : st_wit tol q1 s1).
  { unfold q1 in *. eapply visit_wit; eauto. apply wit_ok_state in Hk1. exact Hk1. }
  assert (W1 : forall k', wit_ok tol q1 (fst (elim_sub o tol false q1 s1 (CN i1 l1 p1 s1' c10 c11) k'))).
  { intros k'. apply IH1; auto. apply wit_ok_kids; auto. }
  destruct (fr1 && c_exists sub0 && (is_feas (c_state sub0) && is_infeas s1 || is_infeas (c_state sub0) && is_feas s1)).
  - destruct (is_feas s1).
    + specialize (W1 k3). destruct (elim_sub o tol false q1 s1 (CN i1 l1 p1 s1' c10 c11) k3) as [r1 k4].
      cbn [fst] in W1. destruct isroot; cbn [fst].
      * repeat split; auto.
      * exact (wit_ok_incl tol r1 q1 q Iq1 W1).
    + destruct isroot; cbn [fst].
      * repeat split; auto.
      * exact (wit_ok_incl tol sub0 q0 q Iq W0).
  - assert (W1' : wit_ok tol q1 (fst (if skip1 then (set_st s1 (CN i1 l1 p1 s1' c10 c11), k3)
                                      else elim_sub o tol false q1 s1 (CN i1 l1 p1 s1' c10 c11) k3))).
    { destruct skip1; [|apply W1]. cbn [fst]. apply wit_ok_set_st; auto. apply wit_ok_kids; auto. }
    destruct (if skip1 then (set_st s1 (CN i1 l1 p1 s1' c10 c11), k3)
              else elim_sub o tol false q1 s1 (CN i1 l1 p1 s1' c10 c11) k3) as [sub1 k4].
    cbn [fst] in *. split; [exact Hst|]. split.
    + destruct (fresh0 && is_infeas (c_state sub0) && c_exists sub0); [exact I | exact W0].
    + destruct (fr1 && is_infeas s1 &&
                c_exists (if fresh0 && is_infeas (c_state sub0) && c_exists sub0 then CU else sub0)); [exact I | exact W1'].
Qed.

Theorem elim_wit o tol t : mir_sound o tol -> wit_ok tol [] t -> wit_ok tol [] (fst (elim o tol t)).
Proof.
  intros Hm H. unfold elim. apply elim_sub_wit; auto.
  - apply wit_ok_kids; auto.
  - apply wit_ok_state; auto.
Qed.

(* ---------- Infeasible marks ---------- *)
Lemma marks_mono x : forall t qa qb, (in_rows qb x -> in_rows qa x) -> marks_ok x qa t -> marks_ok x qb t.
Proof.
  induction t as [|i leaf p s c0 IH0 c1 IH1]; intros qa qb Hi H; [exact I|].
  destruct H as [Hs [H0 H1]]. split; [|split].
  - intros E C. apply (Hs E). auto.
  - eapply IH0; [|exact H0]. intros C. apply in_rows_app in C as [C1 C2]. apply in_rows_app. auto.
  - eapply IH1; [|exact H1]. intros C. apply in_rows_app in C as [C1 C2]. apply in_rows_app. auto.
Qed.
Lemma marks_ok_set_st x q s t : (s = Infeas -> ~ in_rows q x) -> marks_kids x q t -> marks_ok x q (set_st s t).
Proof. destruct t; simpl; tauto. Qed.
Lemma marks_ok_kids x q t : marks_ok x q t -> marks_kids x q t.
Proof. destruct t; simpl; tauto. Qed.
Lemma marks_ok_state x q t : marks_ok x q t -> c_state t = Infeas -> ~ in_rows q x.
Proof. destruct t; simpl; [discriminate|]. intros [H _]. exact H. Qed.
(* the closed half-spaces of the two branches cover the parent region *)
Lemma rows_cover p x q : in_rows q x -> in_rows (q ++ [row0 p]) x \/ in_rows (q ++ [row1 p]) x.
Proof.
  intros Hq. destruct (qleb (dot (fst (prow p)) x) (snd (prow p))) eqn:Eb.
  - right. apply route1; auto.
  - left. apply route0; auto.
Qed.

Definition marks_okP (P : Prop) (x : vec) (q : rows) (t : ctree) : Prop :=
  match t with
  | CU => True
  | CN _ _ p st c0 c1 => (st = Infeas -> P) /\ marks_ok x (q ++ [row0 p]) c0 /\ marks_ok x (q ++ [row1 p]) c1
  end.
Lemma marks_okP_ok x q t : marks_okP (~ in_rows q x) x q t <-> marks_ok x q t.
Proof. destruct t; simpl; tauto. Qed.
Lemma marks_okP_kids P x q t : marks_okP P x q t -> marks_kids x q t.
Proof. destruct t; simpl; tauto. Qed.
Lemma marks_okP_weaken (P : Prop) x q t : (~ in_rows q x -> P) -> marks_ok x q t -> marks_okP P x q t.
Proof. destruct t; simpl; tauto. Qed.

Lemma do_child0_marks o tol x st q0 h c0 k sub0 k2 fresh0 :
  osound o x ->
  (forall t isroot q st k, (exists i l p s a b, c0 = CN i l p s a b /\ t = c0) -> marks_kids x q t -> (st = Infeas -> ~ in_rows q x) ->
      marks_ok x q (fst (elim_sub o tol isroot q st t k))) ->
  marks_ok x q0 c0 -> do_child0 o tol st q0 h c0 k = (sub0, k2, fresh0) ->
  marks_ok x q0 sub0 /\ (is_infeas (c_state sub0) = true -> ~ in_rows q0 x).
Proof.
  intros Ho IH Hm E. unfold do_child0 in E. destruct c0 as [|i0 l0 p0 s0' c00 c01].
  { inversion E; subst. split; [exact I|discriminate]. }
  destruct (visit o tol st q0 h (CN i0 l0 p0 s0' c00 c01) k) as [[[s0 k1] fr0] skip0] eqn:Ev.
  assert (Hv : is_infeas s0 = true -> ~ in_rows q0 x).
  { eapply visit_infeas; eauto. destruct Hm as [Hm _]. exact Hm. }
  pose proof (visit_skip _ _ _ _ _ _ _ _ _ _ _ Ev) as Hsk.
  destruct skip0.
  - inversion E; subst. split.
    + split; [|exact (proj2 Hm)]. intros Es. apply Hv. rewrite Es. reflexivity.
    + cbn [c_state]. exact Hv.
  - destruct (elim_sub o tol false q0 s0 (CN i0 l0 p0 s0' c00 c01) k1) as [r0 k2'] eqn:Er.
    inversion E; subst. split.
    + specialize (IH (CN i0 l0 p0 s0' c00 c01) false q0 s0 k1). rewrite Er in IH. apply IH.
      * repeat eexists.
      * apply marks_ok_kids; auto.
      * intros Es. apply Hv. rewrite Es. reflexivity.
    + intros Hi. destruct (elim_sub_state o tol (CN i0 l0 p0 s0' c00 c01) false q0 s0 k1 eq_refl) as [H|H];
        rewrite Er in H; cbn [fst] in H.
      * rewrite H in Hi. rewrite Hi in Hsk. discriminate.
      * rewrite (feas_not_infeas _ H) in Hi. discriminate.
Qed.

Theorem elim_sub_marksP o tol x : osound o x ->
  forall t (P : Prop) isroot q st k, marks_kids x q t -> (st = Infeas -> P) -> (~ in_rows q x -> P) ->
  marks_okP P x q (fst (elim_sub o tol isroot q st t k)).
Proof.
  intros Ho. induction t as [|i leaf p s' c0 IH0 c1 IH1]; intros P isroot q st k Hk Hst HP; [exact I|].
  destruct leaf; [cbn [elim_sub fst]; destruct Hk; repeat split; auto|].
  rewrite elim_sub_unfold. cbv zeta. destruct Hk as [Hk0 Hk1].
  set (q0 := q ++ [row0 p]) in *. set (q1 := q ++ [row1 p]) in *.
  destruct (do_child0 o tol st q0 (row0 p) c0 k) as [[sub0 k2] fresh0] eqn:E0.
  destruct (do_child0_marks o tol x st q0 (row0 p) c0 k sub0 k2 fresh0 Ho) as [M0 G0]; auto.
  { intros t isr qq stt kk [i0 [l0 [p0 [s0 [a [b [E1 E2]]]]]]] Hkk Hss. subst t. apply marks_okP_ok. apply IH0; auto. }
  destruct c1 as [|i1 l1 p1 s1' c10 c11]; [cbn [fst]; repeat split; auto|].
  destruct (visit o tol st q1 (row1 p) (CN i1 l1 p1 s1' c10 c11) k2) as [[[s1 k3] fr1] skip1] eqn:Ev1.
  assert (Hv1 : is_infeas s1 = true -> ~ in_rows q1 x).
  { eapply visit_infeas; eauto. destruct Hk1 as [Hk1 _]. exact Hk1. }
  assert (M1 : forall k', marks_ok x q1 (fst (elim_sub o tol false q1 s1 (CN i1 l1 p1 s1' c10 c11) k'))).
  { intros k'. apply marks_okP_ok. apply IH1; auto. apply marks_ok_kids; auto. intros Es. apply Hv1. rewrite Es. reflexivity. }
  destruct (fr1 && c_exists sub0 && (is_feas (c_state sub0) && is_infeas s1 || is_infeas (c_state sub0) && is_feas s1)) eqn:Ef.
  - apply andb_true_iff in Ef as [_ Ef].
    destruct (is_feas s1) eqn:Ef1.
    + assert (Hi0 : is_infeas (c_state sub0) = true).
      { rewrite (feas_not_infeas _ Ef1) in Ef. rewrite andb_false_r in Ef. cbn [orb] in Ef.
        apply andb_true_iff in Ef as [Ef _]. exact Ef. }
      specialize (M1 k3). destruct (elim_sub o tol false q1 s1 (CN i1 l1 p1 s1' c10 c11) k3) as [r1 k4].
      cbn [fst] in M1. destruct isroot; cbn [fst].
      * repeat split; auto.
      * apply marks_okP_weaken; auto.
        eapply marks_mono; [|exact M1]. intros Hq. destruct (rows_cover p x q Hq) as [C|C]; auto.
        exfalso. exact (G0 Hi0 C).
    + assert (Hi1 : is_infeas s1 = true).
      { rewrite andb_false_r in Ef. rewrite orb_false_r in Ef. apply andb_true_iff in Ef as [_ Ef]. exact Ef. }
      destruct isroot; cbn [fst].
      * repeat split; auto.
      * apply marks_okP_weaken; auto.
        eapply marks_mono; [|exact M0]. intros Hq. destruct (rows_cover p x q Hq) as [C|C]; auto.
        exfalso. exact (Hv1 Hi1 C).
  - assert (M1' : marks_ok x q1 (fst (if skip1 then (set_st s1 (CN i1 l1 p1 s1' c10 c11), k3)
                                       else elim_sub o tol false q1 s1 (CN i1 l1 p1 s1' c10 c11) k3))).
    { destruct skip1; [|apply M1]. cbn [fst]. apply marks_ok_set_st.
      - intros Es. apply Hv1. rewrite Es. reflexivity.
      - apply marks_ok_kids; auto. }
    destruct (if skip1 then (set_st s1 (CN i1 l1 p1 s1' c10 c11), k3)
              else elim_sub o tol false q1 s1 (CN i1 l1 p1 s1' c10 c11) k3) as [sub1 k4].
    cbn [fst] in *. split; [exact Hst|]. split.
    + destruct (fresh0 && is_infeas (c_state sub0) && c_exists sub0); [exact I | exact M0].
    + destruct (fr1 && is_infeas s1 &&
                c_exists (if fresh0 && is_infeas (c_state sub0) && c_exists sub0 then CU else sub0)); [exact I | exact M1'].
Qed.

Theorem elim_sub_marks o tol x : osound o x ->
  forall t isroot q st k, marks_kids x q t -> (st = Infeas -> ~ in_rows q x) ->
  marks_ok x q (fst (elim_sub o tol isroot q st t k)).
Proof. intros Ho t isroot q st k Hk Hst. apply marks_okP_ok. apply elim_sub_marksP; auto. Qed.

(* the root's own state is never consulted: the statement is about the nodes below the root *)
Theorem elim_marks o tol t x : osound o x -> marks_kids x [] t -> marks_kids x [] (fst (elim o tol t)).
Proof.
  intros Ho H. unfold elim. apply (marks_okP_kids True). apply elim_sub_marksP; auto.
Qed.

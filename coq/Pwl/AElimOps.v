(* Pwl/AElimOps.v -- what the arena operations of Pwl/AElim.v (remove_all_descendants, try_remove_child,
   merge_child_with_parent, forward_if_redundant) do on an arena that holds a tree (AElimBase.wfn): they return Ok,
   and the cells of the result are described index by index. *)
From Coq Require Import Permutation.
From AT Require Import Num Vec Aff PTree Cells Abs Tree TreeLemmas Cache Elim AElim AElimBase.

Lemma aget_aset_if {V} (a : arena V) i j c : aget (aset a i c) j = if Nat.eqb i j then c else aget a j.
Proof. destruct (Nat.eqb_spec i j) as [->|H]; [apply aget_aset_same | apply aget_aset_other; auto]. Qed.
Lemma aget_del (a : arena acont) i j : aget (a_del a i) j = if Nat.eqb i j then None else aget a j.
Proof. apply aget_aset_if. Qed.

Ltac agets :=
  repeat (rewrite ?aget_del, ?aget_aset_if in *;
          match goal with
          | |- context [Nat.eqb ?x ?y] => destruct (Nat.eqb_spec x y); subst
          | H : context [Nat.eqb ?x ?y] |- _ => destruct (Nat.eqb_spec x y); subst
          end); try congruence.

(* ---------------------------------------------------------------- forests on the stack of remove_all_descendants *)
Definition ridx (t : ctree) : nat := match t with CU => 0%nat | CN i _ _ _ _ _ => i end.
Definition kidsf (c0 c1 : ctree) : list ctree :=
  (match c1 with CU => [] | _ => [c1] end) ++ (match c0 with CU => [] | _ => [c0] end).
Definition fidxs (F : list ctree) : list nat := flat_map idxs F.

Lemma kidsf_stack c0 c1 : rev (somes [cidx c0; cidx c1]) = map ridx (kidsf c0 c1).
Proof. destruct c0, c1; reflexivity. Qed.
Lemma kidsf_ne c0 c1 : Forall (fun t => t <> CU) (kidsf c0 c1).
Proof. destruct c0, c1; cbn [kidsf app]; repeat constructor; discriminate. Qed.
Lemma fidxs_kidsf c0 c1 F : fidxs (kidsf c0 c1 ++ F) = idxs c1 ++ idxs c0 ++ fidxs F.
Proof.
  unfold fidxs. rewrite flat_map_app. rewrite app_assoc. f_equal.
  destruct c0, c1; cbn [kidsf app flat_map idxs]; rewrite ?app_nil_r; reflexivity.
Qed.
Lemma in_kidsf t c0 c1 : In t (kidsf c0 c1) -> t = c0 \/ t = c1.
Proof. destruct c0, c1; cbn [kidsf app In]; intuition. Qed.

Lemma rad_forest : forall fuel F a,
  Forall (fun t => t <> CU) F -> (forall t, In t F -> exists par, wfn a par t) -> NoDup (fidxs F) ->
  (length (fidxs F) <= fuel)%nat ->
  exists a', ae_rad_loop fuel (map ridx F) a = Some a' /\
    (forall x, In x (fidxs F) -> aget a' x = None) /\ (forall x, ~ In x (fidxs F) -> aget a' x = aget a x).
Proof.
  induction fuel as [|fuel IH]; intros F a Hne Hwf Hnd Hlen.
  - destruct F as [|t F].
    + exists a. cbn. split; [reflexivity|]. split; [intros x []|auto].
    + exfalso. apply Forall_cons_iff in Hne as [Ht _]. destruct t; [congruence|]. cbn in Hlen. lia.
  - destruct F as [|t F].
    + exists a. cbn. split; [reflexivity|]. split; [intros x []|auto].
    + apply Forall_cons_iff in Hne as [Ht HneF]. destruct t as [|j lf f s c0 c1]; [congruence|].
      destruct (Hwf _ (or_introl eq_refl)) as [par Hw]. cbn [wfn] in Hw. destruct Hw as [Hc [_ [H0 H1]]].
      cbn [map ridx ae_rad_loop]. rewrite Hc. cbn [ae_cell c_children]. rewrite kidsf_stack, <- map_app.
      assert (Hfi : fidxs (CN j lf f s c0 c1 :: F) = j :: (idxs c0 ++ idxs c1) ++ fidxs F) by reflexivity.
      rewrite Hfi in Hnd, Hlen.
      assert (Hperm : Permutation ((idxs c0 ++ idxs c1) ++ fidxs F) (fidxs (kidsf c0 c1 ++ F))).
      { rewrite fidxs_kidsf. rewrite (app_assoc (idxs c1)). apply Permutation_app_tail. apply Permutation_app_comm. }
      inversion Hnd as [|x l Hj Hnd']; subst.
      assert (Hnd2 : NoDup (fidxs (kidsf c0 c1 ++ F))) by (eapply Permutation_NoDup; eauto).
      assert (Hin : forall x, In x (fidxs (kidsf c0 c1 ++ F)) <-> In x ((idxs c0 ++ idxs c1) ++ fidxs F)).
      { intros x. split; intros Hx; [eapply Permutation_in; [apply Permutation_sym; exact Hperm | exact Hx]
                                     | eapply Permutation_in; [exact Hperm | exact Hx]]. }
      destruct (IH (kidsf c0 c1 ++ F) (a_del a j)) as [a' [Hr [Hg Ho]]].
      * apply Forall_app. split; [apply kidsf_ne | exact HneF].
      * intros t Ht0. apply in_app_or in Ht0 as [Ht0|Ht0].
        -- exists (Some j). apply in_kidsf in Ht0 as [->| ->]; [eapply wfn_frame; [|exact H0] | eapply wfn_frame; [|exact H1]];
             intros x Hx; rewrite aget_del; destruct (Nat.eqb_spec j x) as [<-|]; auto; exfalso; apply Hj;
             apply in_or_app; left; apply in_or_app; auto.
        -- destruct (Hwf t (or_intror Ht0)) as [pt Hpt]. exists pt. eapply wfn_frame; [|exact Hpt].
           intros x Hx; rewrite aget_del; destruct (Nat.eqb_spec j x) as [<-|]; auto; exfalso; apply Hj.
           apply in_or_app; right. unfold fidxs. apply in_flat_map. eauto.
      * exact Hnd2.
      * rewrite <- (Permutation_length Hperm). cbn [length] in Hlen. lia.
      * exists a'. split; [exact Hr|]. split.
        -- intros x [<-|Hx].
           ++ rewrite Ho by (rewrite Hin; exact Hj). rewrite aget_del, Nat.eqb_refl. reflexivity.
           ++ apply Hg. apply Hin. exact Hx.
        -- intros x Hx. rewrite Ho by (rewrite Hin; intros C; apply Hx; right; exact C).
           rewrite aget_del. destruct (Nat.eqb_spec j x) as [<-|]; auto. exfalso. apply Hx. left; reflexivity.
Qed.

(* ---------------------------------------------------------------- try_remove_child on a slot that holds a sub-tree *)
Lemma try_remove_child_spec a n l f s par o0 o1 lf t j :
  aget a n = Some (ae_cell f s par [o0; o1] lf) ->
  nth_error [o0; o1] l = Some (Some j) -> cidx t = Some j -> wfn a (Some n) t -> NoDup (idxs t) -> ~ In n (idxs t) ->
  exists a', ae_try_remove_child a n l = XOk a' /\
    aget a' n = Some (ae_cell f s par (set_nth [o0; o1] l None) (if all_none (set_nth [o0; o1] l None) then true else lf)) /\
    (forall x, In x (idxs t) -> aget a' x = None) /\
    (forall x, ~ In x (idxs t) -> x <> n -> aget a' x = aget a x).
Proof.
  intros Hn Hl Hj Hw Hnd Hni. destruct t as [|j' lf' f' s' c0 c1]; [discriminate|]. cbn [cidx] in Hj. inversion Hj; subst j'.
  pose proof Hw as Hw0. cbn [wfn] in Hw. destruct Hw as [Hc [_ [H0 H1]]].
  destruct (nodup_cn _ _ _ Hnd) as [Hj0 [Hj1 [N0 [N1 Hd]]]].
  assert (Hnj : n <> j) by (intros ->; apply Hni; left; reflexivity).
  unfold ae_try_remove_child, ae_child. rewrite Hn. cbn [ae_cell c_children]. rewrite Hl, Hc.
  unfold ae_remove_all_descendants. rewrite Hc. cbn [ae_cell c_children].
  assert (Hall : forallb (acontains a) (somes [cidx c0; cidx c1]) = true).
  { apply forallb_forall. intros x Hx. unfold acontains.
    assert (Hx' : In x (idxs c0) \/ In x (idxs c1)).
    { destruct c0, c1; cbn [cidx somes In] in Hx; cbn [idxs In]; intuition. }
    destruct Hx' as [Hx'|Hx']; [destruct (wfn_alloc _ _ _ _ H0 Hx') as [c ->] | destruct (wfn_alloc _ _ _ _ H1 Hx') as [c ->]]; reflexivity. }
  rewrite Hall, kidsf_stack.
  destruct (rad_forest (length a) (kidsf c0 c1) a) as [a1 [Hr [Hg Ho]]].
  - apply kidsf_ne.
  - intros t Ht. exists (Some j). apply in_kidsf in Ht as [->| ->]; assumption.
  - pose proof (fidxs_kidsf c0 c1 []) as E. rewrite app_nil_r in E. rewrite E. cbn [fidxs flat_map]. rewrite app_nil_r.
    apply nodup_app_intro; auto. intros x X1 X0. exact (Hd x X0 X1).
  - pose proof (fidxs_kidsf c0 c1 []) as E. rewrite app_nil_r in E. rewrite E. cbn [fidxs flat_map]. rewrite app_nil_r.
    pose proof (wfn_size_bound a _ _ Hw0 Hnd) as B. cbn [csize] in B. rewrite app_length, !csize_idxs. lia.
  - assert (Hin : forall x, In x (fidxs (kidsf c0 c1)) <-> In x (idxs c0) \/ In x (idxs c1)).
    { intros x. pose proof (fidxs_kidsf c0 c1 []) as E. rewrite app_nil_r in E. rewrite E. cbn [fidxs flat_map].
      rewrite app_nil_r, in_app_iff. tauto. }
    rewrite Hr. assert (Hj1' : aget a1 j = aget a j) by (apply Ho; rewrite Hin; tauto).
    rewrite Hj1', Hc. cbn [ae_cell c_val c_parent c_children c_leaf map].
    rewrite aget_aset_if. destruct (Nat.eqb_spec j n) as [->|_]; [congruence|].
    assert (Hn1 : aget a1 n = aget a n).
    { apply Ho. rewrite Hin. intros [C|C]; apply Hni; right; apply in_or_app; auto. }
    rewrite Hn1, Hn. cbn [ae_cell c_children c_val c_parent c_leaf]. rewrite Hl.
    rewrite aget_aset_if. destruct (Nat.eqb_spec n j) as [->|_]; [congruence|]. rewrite aget_aset_if, Nat.eqb_refl.
    eexists. split; [reflexivity|]. split; [|split].
    + rewrite aget_del. destruct (Nat.eqb_spec j n) as [->|_]; [congruence|]. rewrite aget_aset_if, Nat.eqb_refl. reflexivity.
    + intros x [<-|Hx]; [rewrite aget_del, Nat.eqb_refl; reflexivity|].
      rewrite aget_del. destruct (Nat.eqb_spec j x) as [|Hjx]; [reflexivity|].
      rewrite aget_aset_if. destruct (Nat.eqb_spec n x) as [<-|_]; [exfalso; apply Hni; right; exact Hx|].
      rewrite aget_aset_if. destruct (Nat.eqb_spec j x) as [|_]; [congruence|]. apply Hg. apply Hin. apply in_app_or. exact Hx.
    + intros x Hx Hxn. rewrite aget_del. destruct (Nat.eqb_spec j x) as [<-|Hjx]; [exfalso; apply Hx; left; reflexivity|].
      rewrite aget_aset_if. destruct (Nat.eqb_spec n x) as [|_]; [congruence|].
      rewrite aget_aset_if. destruct (Nat.eqb_spec j x) as [|_]; [congruence|]. apply Ho. rewrite Hin.
      intros C. apply Hx. right. apply in_or_app. exact C.
Qed.

(* ---------------------------------------------------------------- merge_child_with_parent *)
Lemma merge_root root a p label pc : aget a p = Some pc -> count_some (c_children pc) = 1%nat -> root = p ->
  ae_merge root a p label = XErr.
Proof. intros Hp Hc ->. unfold ae_merge. rewrite Hp, Hc, !Nat.eqb_refl. reflexivity. Qed.

Lemma merge_spec root a p label fp sp g o0 o1 lfp c cc gc gl :
  aget a p = Some (ae_cell fp sp (Some g) [o0; o1] lfp) ->
  count_some [o0; o1] = 1%nat -> nth_error [o0; o1] label = Some (Some c) ->
  aget a c = Some cc -> aget a g = Some gc -> find_label (c_children gc) p = Some gl ->
  root <> p -> g <> c -> g <> p -> c <> p ->
  exists a', ae_merge root a p label = XOk a' /\
    aget a' g = Some (mkcell (c_val gc) (c_parent gc) (set_nth (c_children gc) gl (Some c)) (c_leaf gc)) /\
    aget a' c = Some (mkcell (c_val cc) (Some g) (c_children cc) (c_leaf cc)) /\
    aget a' p = None /\ (forall x, x <> g -> x <> c -> x <> p -> aget a' x = aget a x).
Proof.
  intros Hp Hcnt Hl Hc Hg Hfl Hr Hgc Hgp Hcp. unfold ae_merge, ae_child, ae_parent. rewrite Hp.
  cbn [ae_cell c_children c_parent]. rewrite Hcnt. cbn [Nat.eqb].
  destruct (Nat.eqb_spec root p) as [|_]; [congruence|]. rewrite Hl, Hc, Hg, Hfl. rewrite Hg.
  rewrite aget_aset_if. destruct (Nat.eqb_spec g c) as [|_]; [congruence|]. rewrite Hc.
  rewrite aget_aset_if. destruct (Nat.eqb_spec c p) as [|_]; [congruence|].
  rewrite aget_aset_if. destruct (Nat.eqb_spec g p) as [|_]; [congruence|]. rewrite Hp.
  eexists. split; [reflexivity|]. split; [|split; [|split]].
  - rewrite aget_del. destruct (Nat.eqb_spec p g) as [|_]; [congruence|].
    rewrite aget_aset_if. destruct (Nat.eqb_spec c g) as [|_]; [congruence|]. rewrite aget_aset_if, Nat.eqb_refl. reflexivity.
  - rewrite aget_del. destruct (Nat.eqb_spec p c) as [|_]; [congruence|]. rewrite aget_aset_if, Nat.eqb_refl. reflexivity.
  - rewrite aget_del, Nat.eqb_refl. reflexivity.
  - intros x X1 X2 X3. rewrite aget_del. destruct (Nat.eqb_spec p x) as [|_]; [congruence|].
    rewrite aget_aset_if. destruct (Nat.eqb_spec c x) as [|_]; [congruence|].
    rewrite aget_aset_if. destruct (Nat.eqb_spec g x) as [|_]; [congruence|]. reflexivity.
Qed.

(* ---------------------------------------------------------------- forward_if_redundant *)
Lemma feas_infeas_excl s : is_feas s = true -> is_infeas s = false.
Proof. destruct s; cbn; congruence. Qed.

(* a single child: nothing happens *)
Lemma forward_single root a i ci l j cj :
  aget a i = Some ci -> lsomes 0 (c_children ci) = [(l, j)] -> aget a j = Some cj -> ae_forward root a i = Some a.
Proof.
  intros Hi Hl Hj. unfold ae_forward, ae_children. rewrite Hi, Hl. cbn [map opt_all snd fst]. rewrite Hj.
  cbn [filter snd]. destruct (is_feas (ac_state (c_val cj))) eqn:Ef; [|reflexivity].
  rewrite (feas_infeas_excl _ Ef). reflexivity.
Qed.
(* two children that are not one feasible + one infeasible: nothing happens *)
Lemma forward_noop root a i ci j0 j1 c0 c1 :
  aget a i = Some ci -> c_children ci = [Some j0; Some j1] -> aget a j0 = Some c0 -> aget a j1 = Some c1 ->
  (is_feas (ac_state (c_val c0)) && is_infeas (ac_state (c_val c1)) ||
   is_infeas (ac_state (c_val c0)) && is_feas (ac_state (c_val c1))) = false ->
  ae_forward root a i = Some a.
Proof.
  intros Hi Hch H0 H1 Hno. unfold ae_forward, ae_children. rewrite Hi, Hch. cbn [lsomes map opt_all snd fst].
  rewrite H0, H1. cbn [filter snd].
  destruct (ac_state (c_val c0)) as [| | |w0], (ac_state (c_val c1)) as [| | |w1]; cbn in Hno |- *; try reflexivity; discriminate.
Qed.

(* one feasible + one infeasible child, at the root: the infeasible sub-tree is removed, the merge fails (.ok()) *)
Lemma forward_root a i f s par o0 o1 li lf ji jf ti cf :
  aget a i = Some (ae_cell f s par [o0; o1] false) ->
  (li = 0%nat /\ lf = 1%nat) \/ (li = 1%nat /\ lf = 0%nat) ->
  nth_error [o0; o1] li = Some (Some ji) -> nth_error [o0; o1] lf = Some (Some jf) ->
  cidx ti = Some ji -> wfn a (Some i) ti -> NoDup (idxs ti) -> ~ In i (idxs ti) -> c_state ti = Infeas ->
  aget a jf = Some cf -> is_feas (ac_state (c_val cf)) = true -> ~ In jf (idxs ti) -> jf <> i ->
  exists a', ae_forward i a i = Some a' /\
    aget a' i = Some (ae_cell f s par (set_nth [o0; o1] li None) false) /\
    (forall x, In x (idxs ti) -> aget a' x = None) /\
    (forall x, ~ In x (idxs ti) -> x <> i -> aget a' x = aget a x).
Proof.
  intros Hi Hll Hli Hlf Hci Hw Hnd Hni Hst Hf Hfe Hjf Hjfi.
  destruct (try_remove_child_spec a i li f s par o0 o1 false ti ji Hi Hli Hci Hw Hnd Hni) as [a1 [Hrm [Hi1 [Hg1 Ho1]]]].
  assert (Hji : aget a ji = Some (ae_cell (match ti with CN _ _ f' _ _ _ => f' | CU => f end) Infeas (Some i)
                                          (match ti with CN _ _ _ _ c0 c1 => [cidx c0; cidx c1] | CU => [] end)
                                          (match ti with CN _ l' _ _ _ _ => l' | CU => false end))).
  { destruct ti as [|j' l' f' s' c0 c1]; [discriminate|]. cbn [cidx] in Hci. inversion Hci; subst j'.
    cbn [c_state] in Hst. subst s'. apply Hw. }
  unfold ae_forward, ae_children. rewrite Hi. cbn [ae_cell c_children].
  destruct Hll as [[-> ->]|[-> ->]]; cbn [nth_error] in Hli, Hlf; inversion Hli; inversion Hlf; subst o0 o1;
    cbn [lsomes map opt_all snd fst]; rewrite Hji, Hf; cbn [ae_cell c_val ac_state filter snd is_feas is_infeas];
    rewrite Hfe, (feas_infeas_excl _ Hfe); cbn [length ae_K Nat.sub Nat.eqb map fst ae_remove_children];
    unfold ae_remove_child; rewrite Hrm;
    (erewrite merge_root; [| exact Hi1 | reflexivity | reflexivity]);
    exists a1; (split; [reflexivity|]); (split; [exact Hi1|]); split; assumption.
Qed.

(* ... below the root: the feasible child takes the place of its parent *)
Lemma forward_inner root a i f s g o0 o1 li lf ji jf ti cf gc gl :
  aget a i = Some (ae_cell f s (Some g) [o0; o1] false) ->
  (li = 0%nat /\ lf = 1%nat) \/ (li = 1%nat /\ lf = 0%nat) ->
  nth_error [o0; o1] li = Some (Some ji) -> nth_error [o0; o1] lf = Some (Some jf) ->
  cidx ti = Some ji -> wfn a (Some i) ti -> NoDup (idxs ti) -> ~ In i (idxs ti) -> c_state ti = Infeas ->
  aget a jf = Some cf -> is_feas (ac_state (c_val cf)) = true -> ~ In jf (idxs ti) -> jf <> i ->
  root <> i -> aget a g = Some gc -> find_label (c_children gc) i = Some gl -> ~ In g (idxs ti) -> g <> i -> g <> jf ->
  exists a', ae_forward root a i = Some a' /\
    aget a' g = Some (mkcell (c_val gc) (c_parent gc) (set_nth (c_children gc) gl (Some jf)) (c_leaf gc)) /\
    aget a' jf = Some (mkcell (c_val cf) (Some g) (c_children cf) (c_leaf cf)) /\
    aget a' i = None /\
    (forall x, In x (idxs ti) -> aget a' x = None) /\
    (forall x, ~ In x (idxs ti) -> x <> i -> x <> g -> x <> jf -> aget a' x = aget a x).
Proof.
  intros Hi Hll Hli Hlf Hci Hw Hnd Hni Hst Hf Hfe Hjf Hjfi Hr Hg Hfl Hgi Hgni Hgjf.
  destruct (try_remove_child_spec a i li f s (Some g) o0 o1 false ti ji Hi Hli Hci Hw Hnd Hni) as [a1 [Hrm [Hi1 [Hg1 Ho1]]]].
  assert (Hji : aget a ji = Some (ae_cell (match ti with CN _ _ f' _ _ _ => f' | CU => f end) Infeas (Some i)
                                          (match ti with CN _ _ _ _ c0 c1 => [cidx c0; cidx c1] | CU => [] end)
                                          (match ti with CN _ l' _ _ _ _ => l' | CU => false end))).
  { destruct ti as [|j' l' f' s' c0 c1]; [discriminate|]. cbn [cidx] in Hci. inversion Hci; subst j'.
    cbn [c_state] in Hst. subst s'. apply Hw. }
  assert (Hf1 : aget a1 jf = Some cf) by (rewrite Ho1; auto).
  assert (Hgg1 : aget a1 g = Some gc) by (rewrite Ho1; auto).
  unfold ae_forward, ae_children. rewrite Hi. cbn [ae_cell c_children].
  destruct Hll as [[-> ->]|[-> ->]]; cbn [nth_error] in Hli, Hlf; inversion Hli; inversion Hlf; subst o0 o1;
    cbn [lsomes map opt_all snd fst]; rewrite Hji, Hf; cbn [ae_cell c_val ac_state filter snd is_feas is_infeas];
    rewrite Hfe, (feas_infeas_excl _ Hfe); cbn [length ae_K Nat.sub Nat.eqb map fst ae_remove_children];
    unfold ae_remove_child; rewrite Hrm; cbn [set_nth all_none forallb is_none andb] in Hi1.
  - destruct (merge_spec root a1 i 1%nat f s g None (Some jf) false jf cf gc gl Hi1 eq_refl eq_refl Hf1 Hgg1 Hfl Hr Hgjf Hgni Hjfi)
      as [a2 [Hm [G2 [F2 [I2 O2]]]]].
    rewrite Hm. exists a2. split; [reflexivity|]. split; [exact G2|]. split; [exact F2|]. split; [exact I2|]. split.
    + intros x Hx. rewrite O2; [apply Hg1; exact Hx | | |]; intros ->; contradiction.
    + intros x X1 X2 X3 X4. rewrite O2 by assumption. apply Ho1; assumption.
  - destruct (merge_spec root a1 i 0%nat f s g (Some jf) None false jf cf gc gl Hi1 eq_refl eq_refl Hf1 Hgg1 Hfl Hr Hgjf Hgni Hjfi)
      as [a2 [Hm [G2 [F2 [I2 O2]]]]].
    rewrite Hm. exists a2. split; [reflexivity|]. split; [exact G2|]. split; [exact F2|]. split; [exact I2|]. split.
    + intros x Hx. rewrite O2; [apply Hg1; exact Hx | | |]; intros ->; contradiction.
    + intros x X1 X2 X3 X4. rewrite O2 by assumption. apply Ho1; assumption.
Qed.

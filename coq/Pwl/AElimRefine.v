(* Pwl/AElimRefine.v -- the refinement theorem: the arena-level machine of infeasible_elimination (Pwl/AElim.v:
   DFS with an explicit stack, last_push / skip_subtree, the predicates stack maintained through last_depth, the
   deferred to_remove queue, forward_if_redundant in the middle of the traversal, the final removal loop) computes
   the structural recursion Elim.elim, for every oracle: on an arena that holds the tree t (AElimBase.arena_tree:
   mirrored parent / child links, two child slots per node, no index twice) it does not panic, needs at most
   csize t + 1 iterations of the main loop, makes the same number of LP and mirror calls, and the arena it returns
   holds fst (elim o tol t) -- surviving nodes under their old indices -- and nothing else of the old tree.
   Assumptions beyond the shape of the arena are exactly what keeps phase_inh's assert!(!solution.is_empty()) quiet:
   no FeasibleWitness state with an empty list in the tree (wne), and a mirror oracle that never answers Some []. *)
From AT Require Import Num Vec Aff PTree Cells Abs Tree TreeLemmas Cache Elim ElimEval ElimEff AElim AElimBase AElimOps AElimTwo AElimFinal AElimStep AElimRun AElimTrav.

Lemma elim2_root_idx o tol q st i lf p s' c0 c1 k u r k' es :
  elim2 o tol true q st (CN i lf p s' c0 c1) k = (u, r, k', es) -> cidx u = Some i.
Proof.
  destruct lf; [cbn; intros H; inversion H; reflexivity|].
  rewrite elim2_unfold. cbv zeta.
  destruct (two_child0 o tol i st (q ++ [row0 p]) (row0 p) c0 k) as [[[[u0 r0] k2] e0] fresh0].
  destruct c1 as [|j1 l1 p1 s1' a1 b1]; [intros H; inversion H; reflexivity|].
  destruct (visit o tol st (q ++ [row1 p]) (row1 p) (CN j1 l1 p1 s1' a1 b1) k2) as [[[s1 k3] fr1] skip1].
  destruct (fr1 && c_exists u0 && (is_feas (c_state u0) && is_infeas s1 || is_infeas (c_state u0) && is_feas s1)).
  - destruct (is_feas s1).
    + destruct (elim2 o tol false (q ++ [row1 p]) s1 (CN j1 l1 p1 s1' a1 b1) k3) as [[[u1 r1] k4] e1'].
      intros H; inversion H; reflexivity.
    + intros H; inversion H; reflexivity.
  - destruct (if skip1 then _ else _) as [[[u1 r1] k4] e1']. intros H; inversion H; reflexivity.
Qed.

(* the main loop and the final loop, with the iteration bound *)
Theorem aelim_run o tol a r t : mir_ne o -> arena_tree a r t -> wne t ->
  exists c a',
    (forall f, (csize t < f)%nat -> ae_loop f o tol r (ae_init a r) = Some c) /\
    m_k c = snd (elim o tol t) /\
    ae_final (m_rem c) (m_ar c) = Some a' /\
    arena_tree a' r (fst (elim o tol t)) /\
    (forall j, ~ In j (idxs t) -> aget a' j = aget a j) /\
    (forall j, In j (idxs t) -> ~ In j (idxs (fst (elim o tol t))) -> aget a' j = None).
Proof.
  intros Hm [Hr [Hw Hnd]] Hwne. destruct t as [|i lf p s0 c0 c1]; [discriminate|]. cbn [cidx] in Hr. inversion Hr; subst i. clear Hr.
  destruct (elim2 o tol true [] s0 (CN r lf p s0 c0 c1) k0) as [[[u rr] k'] es] eqn:E2.
  pose proof (elim2_elim o tol (CN r lf p s0 c0 c1)) as Hel. cbn [c_state] in Hel. rewrite E2 in Hel.
  unfold r_of, k_of in Hel. cbn [fst snd] in Hel. rewrite Hel. cbn [fst snd].
  destruct Hwne as [Hs0 [Wn0 Wn1]].
  destruct (traversal o tol r Hm (CN r lf p s0 c0 c1) r lf p s0 c0 c1 eq_refl None [] s0 k0 u rr k' es E2 a None [] (nkids c0 c1) []
              Hw Hnd Wn0 Wn1 Hs0 (conj eq_refl eq_refl))
    as [n [A' [ps' [lp' [Hrun [Hn [_ [Wu [Hdead Hfr]]]]]]]]].
  cbn [post_ctx] in Hfr. cbn [app] in Hrun.
  destruct (elim2_shape o tol _ _ _ _ _ _ _ _ _ E2) as [SU [SR _]].
  destruct (final_realises o tol _ _ _ _ _ _ _ _ _ E2 Hnd A' None Wu Hdead) as [A'' [Hfin [Wr [Hfr2 Gn]]]].
  destruct (elim2_sub o tol _ _ _ _ _ _ _ _ _ E2) as [_ [_ Xr]].
  exists (mk A' ps' [] lp' (length ps') k' es), A''.
  split; [|split; [reflexivity|]; split; [exact Hfin|]; split; [|split]].
  - intros f Hf.
    assert (Hstart : steps o tol r 1 (ae_init a r) (mk a (rev []) (kstack (length (@nil (vec * Qc))) c0 c1 []) (nkids c0 c1) (length (@nil (vec * Qc))) k0 [])).
    { apply steps_one. cbn [wfn] in Hw. erewrite step_root; [reflexivity | apply Hw]. }
    pose proof (steps_trans _ _ _ _ _ _ _ _ Hstart Hrun) as Hall.
    replace f with ((1 + n) + S (f - (1 + n) - 1))%nat by (cbn [csize] in Hf; lia).
    rewrite (loop_steps _ _ _ _ _ _ Hall). cbn [ae_loop]. rewrite step_done. reflexivity.
  - split; [|split].
    + rewrite Xr. eapply elim2_root_idx; eauto.
    + exact Wr.
    + apply SR. apply SU. exact Hnd.
  - intros j Hj. rewrite Hfr2 by (intros C; apply Hj; eapply sub_in; eauto). apply Hfr. exact Hj.
  - intros j Hj Hnj. destruct (in_dec Nat.eq_dec j (idxs u)) as [Hu|Hu].
    + apply Gn; assumption.
    + rewrite Hfr2 by exact Hu. apply Hdead; assumption.
Qed.

(* the refinement theorem *)
Theorem aelim_refines o tol a r t : mir_ne o -> arena_tree a r t -> wne t ->
  exists a', aelim o tol a r = Some (a', snd (elim o tol t)) /\
             arena_tree a' r (fst (elim o tol t)) /\
             (forall j, ~ In j (idxs t) -> aget a' j = aget a j) /\
             (forall j, In j (idxs t) -> ~ In j (idxs (fst (elim o tol t))) -> aget a' j = None).
Proof.
  intros Hm Ht Hw. destruct (aelim_run o tol a r t Hm Ht Hw) as [c [a' [Hl [Hk [Hf [Ha [Hfr Hgn]]]]]]].
  exists a'. split; [|split; [|split]; assumption]. unfold aelim. rewrite Hl.
  - rewrite Hf, Hk. reflexivity.
  - destruct Ht as [_ [Hwf Hnd]]. pose proof (wfn_size_bound a t None Hwf Hnd). lia.
Qed.

(* ---------------------------------------------------------------- the hypothesis, from cabs and a checkable predicate *)
Fixpoint linksb (fuel : nat) (a : arena acont) (par : option nat) (i : nat) : bool :=
  match fuel with
  | O => false
  | S f =>
      match aget a i with
      | None => false
      | Some c =>
          oeqb (c_parent c) par &&
          match c_children c with
          | [o0; o1] =>
              (if c_leaf c then match o0, o1 with None, None => true | _, _ => false end else true) &&
              match o0 with None => true | Some j => linksb f a (Some i) j end &&
              match o1 with None => true | Some j => linksb f a (Some i) j end
          | _ => false
          end
      end
  end.
Fixpoint nodupb (l : list nat) : bool :=
  match l with [] => true | x :: r => negb (existsb (Nat.eqb x) r) && nodupb r end.
Definition st_neb (s : nstate) : bool := match s with FeasW [] => false | _ => true end.
Fixpoint wneb (t : ctree) : bool :=
  match t with CU => true | CN _ _ _ s c0 c1 => st_neb s && wneb c0 && wneb c1 end.

Lemma oeqb_eq x y : oeqb x y = true -> x = y.
Proof. destruct x, y; cbn; intros H; try discriminate; auto. apply Nat.eqb_eq in H. congruence. Qed.
Lemma nodupb_spec l : nodupb l = true -> NoDup l.
Proof.
  induction l as [|x r IH]; cbn [nodupb]; intros H; [constructor|]. apply andb_true_iff in H as [H1 H2].
  constructor; [|auto]. intros C. apply negb_true_iff in H1.
  assert (E : existsb (Nat.eqb x) r = true) by (apply existsb_exists; exists x; split; [exact C | apply Nat.eqb_refl]). congruence.
Qed.
Lemma wneb_spec t : wneb t = true -> wne t.
Proof.
  induction t as [|i lf f s c0 IH0 c1 IH1]; cbn [wneb wne]; intros H; [exact I|].
  apply andb_true_iff in H as [H H1]. apply andb_true_iff in H as [Hs H0].
  split; [|auto]. intros C. subst s. discriminate.
Qed.
Lemma links_wfn : forall fuel a par i t, cabs fuel a i = Some t -> linksb fuel a par i = true -> wfn a par t /\ cidx t = Some i.
Proof.
  induction fuel as [|fuel IH]; intros a par i t Hc Hl; [discriminate|]. cbn [cabs linksb] in *.
  destruct (aget a i) as [c|] eqn:Ec; [|discriminate].
  apply andb_true_iff in Hl as [Hp Hl]. apply oeqb_eq in Hp.
  destruct c as [[f s] cp ch lf]. cbn [c_parent c_children c_leaf c_val ac_aff ac_state] in *. subst cp.
  destruct ch as [|o0 [|o1 [|o2 ch]]]; try discriminate.
  apply andb_true_iff in Hl as [Hl L1]. apply andb_true_iff in Hl as [Hlf L0]. cbn [nth] in Hc.
  assert (K : forall o (tt : ctree), match o with None => Some CU | Some j => cabs fuel a j end = Some tt ->
              match o with None => true | Some j => linksb fuel a (Some i) j end = true ->
              wfn a (Some i) tt /\ cidx tt = o).
  { intros [j|] tt Hcc Hll; [destruct (IH a (Some i) j tt Hcc Hll); auto | inversion Hcc; subst; split; [exact I | reflexivity]]. }
  destruct (match o0 with None => Some CU | Some j => cabs fuel a j end) as [t0|] eqn:E0; [|discriminate].
  destruct (match o1 with None => Some CU | Some j => cabs fuel a j end) as [t1|] eqn:E1; [|discriminate].
  inversion Hc; subst t. destruct (K o0 t0 E0 L0) as [W0 X0]. destruct (K o1 t1 E1 L1) as [W1 X1].
  split; [|reflexivity]. cbn [wfn]. rewrite X0, X1. split; [exact Ec|]. split; [|auto].
  intros ->. destruct o0, o1; try discriminate. split; apply cidx_none; assumption.
Qed.

Definition arena_okb (a : arena acont) (r : nat) : bool :=
  match cabs (S (length a)) a r with
  | Some t => linksb (S (length a)) a None r && nodupb (idxs t) && wneb t
  | None => false
  end.
Theorem arena_okb_sound a r : arena_okb a r = true ->
  exists t, cabs (S (length a)) a r = Some t /\ arena_tree a r t /\ wne t.
Proof.
  unfold arena_okb. destruct (cabs (S (length a)) a r) as [t|] eqn:Ec; [|discriminate]. intros H.
  apply andb_true_iff in H as [H Hw]. apply andb_true_iff in H as [Hl Hn].
  destruct (links_wfn _ _ _ _ _ Ec Hl) as [Wf Hi].
  exists t. split; [reflexivity|]. split; [|apply wneb_spec; exact Hw].
  split; [exact Hi|]. split; [exact Wf | apply nodupb_spec; exact Hn].
Qed.

(* in terms of the abstraction function of Elim.v *)
Theorem aelim_refines_cabs o tol a r fuel t : mir_ne o ->
  cabs fuel a r = Some t -> linksb fuel a None r = true -> NoDup (idxs t) -> wne t ->
  exists a' fuel', aelim o tol a r = Some (a', snd (elim o tol t)) /\ cabs fuel' a' r = Some (fst (elim o tol t)).
Proof.
  intros Hm Hc Hl Hn Hw. destruct (links_wfn _ _ _ _ _ Hc Hl) as [Wf Hi].
  destruct (aelim_refines o tol a r t Hm (conj Hi (conj Wf Hn)) Hw) as [a' [Ha [Ht _]]].
  exists a', (cdepth (fst (elim o tol t))). split; [exact Ha | apply arena_tree_cabs; exact Ht].
Qed.

(* with ElimEval.elim_cev: the function represented by the arena the machine returns *)
Theorem aelim_preserves o tol a r t x : mir_ne o -> arena_tree a r t -> wne t -> osound o x -> marks_kids x [] t ->
  exists a' k' fuel' t', aelim o tol a r = Some (a', k') /\ cabs fuel' a' r = Some t' /\ cev t' x = cev t x.
Proof.
  intros Hm Ht Hw Ho Hk. destruct (aelim_refines o tol a r t Hm Ht Hw) as [a' [Ha [Ht' _]]].
  exists a', (snd (elim o tol t)), (cdepth (fst (elim o tol t))), (fst (elim o tol t)).
  split; [exact Ha|]. split; [apply arena_tree_cabs; exact Ht' | apply elim_cev; assumption].
Qed.

(* Pwl/SkipOnlyIf.v -- "a decision may be skipped only when all its other branches are paths no input can take".
   Elimination: if the node that ends up in the place of decision i is not decision i itself (it was replaced by
   one of its branches), then for every input x that the oracle's Infeasible answers and the cached marks exclude
   correctly, one of the two closed branch regions does not contain x -- i.e. no such input takes the other branch.
   Pruned composition: the same for a grafted decision that is replaced by its only kept child. *)
From AT Require Import Num Vec Aff PTree Cells Abs Cache Elim ElimEval ElimCache CPrune CPruneEval.

Definition c_idx (t : ctree) : option nat := match t with CU => None | CN i _ _ _ _ _ => Some i end.

Theorem elim_skip_only_if o tol x i p s' c0 c1 q st k : osound o x ->
  marks_kids x q (CN i false p s' c0 c1) -> in_rows q x ->
  c_idx (fst (elim_sub o tol false q st (CN i false p s' c0 c1) k)) <> Some i ->
  ~ in_rows (q ++ [row0 p]) x \/ ~ in_rows (q ++ [row1 p]) x.
Proof.
  intros Ho [Hm0 Hm1] Hq Hidx. rewrite elim_sub_unfold in Hidx. cbv zeta in Hidx.
  destruct (do_child0 o tol st (q ++ [row0 p]) (row0 p) c0 k) as [[sub0 k2] fresh0] eqn:E0.
  destruct (do_child0_marks o tol x st (q ++ [row0 p]) (row0 p) c0 k sub0 k2 fresh0 Ho) as [M0 G0]; auto.
  { intros t isr qq stt kk _ Hkk Hss. apply elim_sub_marks; auto. }
  destruct c1 as [|i1 l1 p1 s1' c10 c11]; [exfalso; apply Hidx; reflexivity|].
  destruct (visit o tol st (q ++ [row1 p]) (row1 p) (CN i1 l1 p1 s1' c10 c11) k2) as [[[s1 k3] fr1] skip1] eqn:Ev1.
  assert (Hv1 : is_infeas s1 = true -> ~ in_rows (q ++ [row1 p]) x).
  { eapply visit_infeas; eauto. destruct Hm1 as [Hm1 _]. exact Hm1. }
  destruct (fr1 && c_exists sub0 && (is_feas (c_state sub0) && is_infeas s1 || is_infeas (c_state sub0) && is_feas s1)) eqn:Ef.
  - apply andb_true_iff in Ef as [_ Ef]. apply orb_true_iff in Ef as [Ef|Ef]; apply andb_true_iff in Ef as [Ea Eb].
    + right. apply Hv1. exact Eb.
    + left. apply G0. exact Ea.
  - exfalso. apply Hidx.
    destruct (if skip1 then (set_st s1 (CN i1 l1 p1 s1' c10 c11), k3)
              else elim_sub o tol false (q ++ [row1 p]) s1 (CN i1 l1 p1 s1' c10 c11) k3) as [sub1 k4].
    reflexivity.
Qed.

(* pruned composition: the grafted decision p' = s_dec s p tf at index i *)
Definition is_dec_at (i : nat) (f : aff) (r : ctree) : Prop :=
  match r with CN j false g _ _ _ => j = i /\ g = f | _ => False end.

Theorem graftp_skip_only_if o tol s tf x p l0 l1 top st i q k : osound o x ->
  (st = Infeas -> ~ in_rows q x) -> in_rows q x ->
  ~ is_dec_at i (s_dec s p tf) (fst (graftp o tol s tf (D p [l0; l1]) top st i q k)) ->
  ~ in_rows (q ++ [row0 (s_dec s p tf)]) x \/ ~ in_rows (q ++ [row1 (s_dec s p tf)]) x.
Proof.
  intros Ho Hm Hq Hn. cbn [graftp] in Hn.
  set (p' := s_dec s p tf) in *. set (q0 := q ++ [row0 p']) in *. set (q1 := q ++ [row1 p']) in *.
  destruct (if pexists l0
            then let '(b, k') := explore o tol top st q0 k in (b || negb (pexists l1), k')
            else (false, k)) as [keep0 k1] eqn:E0.
  destruct (if pexists l1
            then let '(b, k') := explore o tol top st q1 k1 in (b || negb keep0, k')
            else (false, k1)) as [keep1 k2] eqn:E1.
  destruct (pexists l0 && pexists l1 && xorb keep0 keep1) eqn:Ef.
  - apply andb_true_iff in Ef as [Ee Ex]. apply andb_true_iff in Ee as [Ee0 Ee1].
    rewrite Ee0 in E0. rewrite Ee1 in E1.
    destruct (explore o tol top st q0 k) as [b0 k0'] eqn:X0. destruct (explore o tol top st q1 k1) as [b1 k1'] eqn:X1.
    inversion E0; subst keep0 k1. inversion E1; subst keep1 k2. rewrite Ee1 in Ex. cbn [negb] in Ex. rewrite orb_false_r in Ex.
    destruct b0.
    + (* edge 0 kept, so edge 1 was dropped *)
      cbn [negb] in Ex. rewrite orb_false_r in Ex. destruct b1; [discriminate|].
      right. eapply explore_false; eauto.
    + left. eapply explore_false; eauto.
  - exfalso. apply Hn.
    destruct (if keep1 then graftp o tol s tf l1 false Indet new_idx q1 k2 else (CU, k2)) as [c1 k3].
    destruct (if keep0 then graftp o tol s tf l0 false Indet new_idx q0 k3 else (CU, k3)) as [c0 k4].
    cbn [fst is_dec_at]. auto.
Qed.

(* Pwl/Reduce.v -- AffTree::<2>::reduce: merge a non-root decision whose two children are equal terminals
   (reverse level-order sweep in Rust = bottom-up recursion here). *)
From AT Require Import Num Vec Aff PTree.

Fixpoint reduce_in (t : ptree) : ptree :=
  match t with
  | D p ch =>
      let ch' := map reduce_in ch in
      match ch' with
      | [T f; T g] => if aff_eqb f g then T f else D p ch'
      | _ => D p ch'
      end
  | _ => t
  end.
(* the root itself is never merged *)
Definition reduce (t : ptree) : ptree :=
  match t with D p ch => D p (map reduce_in ch) | _ => t end.

(* binary trees: every decision has exactly one row (labels 0/1) *)
Inductive bin : ptree -> Prop :=
| bin_U : bin U
| bin_T f : bin (T f)
| bin_D p ch : length (a_mat p) = 1%nat -> length (a_bias p) = 1%nat -> Forall bin ch -> bin (D p ch).
Fixpoint binb (t : ptree) : bool :=
  match t with
  | D p ch => Nat.eqb (length (a_mat p)) 1 && Nat.eqb (length (a_bias p)) 1 && forallb binb ch
  | _ => true
  end.
Lemma binb_spec t : binb t = true <-> bin t.
Proof.
  induction t as [| f | p ch IH] using ptree_ind'; simpl.
  - split; auto. constructor.
  - split; auto. constructor.
  - rewrite !andb_true_iff, !Nat.eqb_eq, forallb_forall. split.
    + intros [[H1 H2] H3]. constructor; auto. apply Forall_forall. intros c Hc. rewrite Forall_forall in IH. apply IH; auto.
    + intros H. inversion H as [| | p' ch' H1 H2 Hch]; subst. split; [split; auto|]. intros c Hc.
      rewrite Forall_forall in IH, Hch. apply IH; auto.
Qed.

Lemma decide_bin p x : length (a_mat p) = 1%nat -> length (a_bias p) = 1%nat -> (decide p x < 2)%nat.
Proof.
  unfold decide. destruct (a_mat p) as [|r [|r' A]]; simpl; try discriminate.
  destruct (a_bias p) as [|b [|b' B]]; simpl; try discriminate. intros _ _.
  destruct (qleb (dot r x) b); simpl; lia.
Qed.

Lemma eval_reduce_in t x : bin t -> eval (reduce_in t) x = eval t x.
Proof.
  induction t as [| f | p ch IH] using ptree_ind'; intros Hb; auto.
  inversion Hb as [| | p' ch' H1 H2 Hch]; subst.
  assert (E : map (fun c => eval c x) (map reduce_in ch) = map (fun c => eval c x) ch).
  { rewrite map_map. apply map_ext_Forall. rewrite Forall_forall in *. intros c Hc. apply IH; auto. }
  pose proof (decide_bin p x H1 H2) as Hk.
  cbn [reduce_in]. cbv zeta.
  destruct (map reduce_in ch) as [|[|f|q c1] [|[|g|q2 c2] [|c3 l]]] eqn:EM; cbn [eval]; try (rewrite E; reflexivity).
  destruct (aff_eqb f g) eqn:EQ.
  - apply aff_eqb_spec in EQ. subst g. cbn [eval]. rewrite <- E. simpl.
    destruct (decide p x) as [|[|k]]; simpl; auto. lia.
  - cbn [eval]. rewrite <- E. reflexivity.
Qed.

Theorem eval_reduce t x : bin t -> eval (reduce t) x = eval t x.
Proof.
  destruct t as [| f | p ch]; intros Hb; auto. simpl.
  inversion Hb as [| | p' ch' H1 H2 Hch]; subst.
  f_equal. rewrite map_map. apply map_ext_Forall. rewrite Forall_forall in *. intros c Hc. apply eval_reduce_in; auto.
Qed.

Lemma fold_size_le (f : ptree -> ptree) ch :
  Forall (fun c => (size (f c) <= size c)%nat) ch ->
  (fold_right (fun c acc => (size c + acc)%nat) 0%nat (map f ch) <= fold_right (fun c acc => (size c + acc)%nat) 0%nat ch)%nat.
Proof. induction 1; simpl; lia. Qed.

Lemma size_reduce_in t : (size (reduce_in t) <= size t)%nat.
Proof.
  induction t as [| f | p ch IH] using ptree_ind'; auto.
  pose proof (fold_size_le reduce_in ch IH) as HS.
  cbn [reduce_in]. cbv zeta.
  destruct (map reduce_in ch) as [|[|f|q c1] [|[|g|q2 c2] [|c3 l]]] eqn:EM; cbn [size] in *; try lia.
  destruct (aff_eqb f g); cbn [size fold_right] in *; lia.
Qed.
Theorem size_reduce t : (size (reduce t) <= size t)%nat.
Proof.
  destruct t as [| f | p ch]; auto. simpl.
  pose proof (fold_size_le reduce_in ch) as HS. apply le_n_S, HS.
  apply Forall_forall. intros c _. apply size_reduce_in.
Qed.

Lemma reduce_in_idem t : reduce_in (reduce_in t) = reduce_in t.
Proof.
  induction t as [| f | p ch IH] using ptree_ind'; auto.
  assert (E : map reduce_in (map reduce_in ch) = map reduce_in ch).
  { rewrite map_map. apply map_ext_Forall. exact IH. }
  cbn [reduce_in]. cbv zeta.
  destruct (map reduce_in ch) as [|[|f|q c1] [|[|g|q2 c2] [|c3 l]]] eqn:EM;
    try (cbn [reduce_in]; cbv zeta; rewrite E; reflexivity).
  destruct (aff_eqb f g) eqn:EQ; auto.
  cbn [reduce_in]. cbv zeta. rewrite E, EQ. reflexivity.
Qed.
Theorem reduce_idem t : reduce (reduce t) = reduce t.
Proof.
  destruct t as [| f | p ch]; auto. simpl. f_equal. rewrite map_map. apply map_ext. intros c. apply reduce_in_idem.
Qed.

(* afterwards no decision below the root has two terminal children with the same function *)
Inductive no_eq_sib : ptree -> Prop :=
| nes_U : no_eq_sib U
| nes_T f : no_eq_sib (T f)
| nes_D p ch : (forall f g, ch = [T f; T g] -> f <> g) -> Forall no_eq_sib ch -> no_eq_sib (D p ch).
Fixpoint no_eq_sibb (t : ptree) : bool :=
  match t with
  | D p ch => (match ch with [T f; T g] => negb (aff_eqb f g) | _ => true end) && forallb no_eq_sibb ch
  | _ => true
  end.

Lemma no_eq_sib_reduce_in t : no_eq_sib (reduce_in t).
Proof.
  induction t as [| f | p ch IH] using ptree_ind'; try constructor.
  assert (HF : Forall no_eq_sib (map reduce_in ch)).
  { apply Forall_forall. intros c Hc. apply in_map_iff in Hc as [c' [<- Hc']]. rewrite Forall_forall in IH. auto. }
  cbn [reduce_in]. cbv zeta.
  destruct (map reduce_in ch) as [|[|f|q c1] [|[|g|q2 c2] [|c3 l]]] eqn:EM;
    try (constructor; [intros f0 g0 E0; discriminate | exact HF]).
  destruct (aff_eqb f g) eqn:EQ; [constructor|].
  constructor; auto. intros f0 g0 E0. inversion E0; subst. intros Heq. subst g0.
  assert (aff_eqb f0 f0 = true) by (apply aff_eqb_spec; reflexivity). congruence.
Qed.
(* the root may keep equal children; everything below it is clean *)
Theorem no_eq_sib_reduce p ch : Forall no_eq_sib (map reduce_in ch) /\ reduce (D p ch) = D p (map reduce_in ch).
Proof.
  split; auto. apply Forall_forall. intros c Hc. apply in_map_iff in Hc as [c' [<- _]]. apply no_eq_sib_reduce_in.
Qed.

(* a decision whose two terminal children differ in matrix or bias is kept *)
Theorem reduce_keeps_different p f g : f <> g -> reduce_in (D p [T f; T g]) = D p [T f; T g].
Proof.
  intros H. simpl. destruct (aff_eqb f g) eqn:E; auto. apply aff_eqb_spec in E. contradiction.
Qed.

(* Pwl/EdgeRegion.v -- the path condition of ONE edge for any branching factor (what /repo's
   pwl::iter::halfspaces_of_label computes since the repair of D20): row i of the predicate contributes its own closed
   half-space, kept when bit i of the label is set and negated when it is clear.  Every input that takes the edge
   lies in it (so pruning an edge whose polytope is empty never loses an input, whatever K is), and an input that
   satisfies all its rows STRICTLY takes exactly this edge (so no other edge claims its interior). *)
From AT Require Import Num Vec Aff PTree Cells Abs Cache Elim.

(* bit i of a label *)
Fixpoint label_bits (n : nat) (l : nat) : list bool :=
  match n with O => [] | S n' => Nat.odd l :: label_bits n' (Nat.div2 l) end.

(* rows of the edge [l] below a decision with matrix A and bias b *)
Fixpoint edge_rows (A : mat) (b : vec) (bs : list bool) : rows :=
  match A, b, bs with
  | r :: A', b0 :: b', s :: bs' => (if s then (r, b0) else (vopp r, - b0)) :: edge_rows A' b' bs'
  | _, _, _ => []
  end.
Definition label_rows (p : aff) (l : nat) : rows := edge_rows (a_mat p) (a_bias p) (label_bits (length (a_mat p)) l).

Lemma odd_label_of b bs : Nat.odd (label_of (b :: bs)) = b.
Proof.
  cbn [label_of]. rewrite Nat.odd_add_mul_2. destruct b; reflexivity.
Qed.
Lemma div2_label_of b bs : Nat.div2 (label_of (b :: bs)) = label_of bs.
Proof.
  cbn [label_of]. destruct b.
  - change (1 + 2 * label_of bs)%nat with (S (2 * label_of bs)). apply Nat.div2_succ_double.
  - cbn [Nat.add]. apply Nat.div2_double.
Qed.
Lemma label_bits_label_of : forall bs, label_bits (length bs) (label_of bs) = bs.
Proof.
  induction bs as [|b bs IH]; [reflexivity|]. cbn [length label_bits].
  rewrite odd_label_of, div2_label_of, IH. reflexivity.
Qed.
Lemma length_bits : forall A b x, length b = length A -> length (bits A b x) = length A.
Proof.
  induction A as [|r A IH]; intros [|b0 b] x H; try discriminate; [reflexivity|]. cbn [bits length]. f_equal. apply IH.
  cbn [length] in H. lia.
Qed.

(* every input lies in the closed region of the edge it takes *)
Lemma edge_rows_bits : forall A b x, in_rows (edge_rows A b (bits A b x)) x.
Proof.
  induction A as [|r A IH]; intros [|b0 b] x; try (constructor; fail). cbn [bits edge_rows].
  constructor; [|apply IH]. destruct (qleb (dot r x) b0) eqn:E; cbn [fst snd].
  - apply qleb_spec. exact E.
  - apply qleb_false in E. rewrite dot_vopp. qlra.
Qed.
Theorem takes_edge_in_region p x : length (a_bias p) = length (a_mat p) ->
  in_rows (label_rows p (decide p x)) x.
Proof.
  intros H. unfold label_rows, decide.
  rewrite <- (length_bits (a_mat p) (a_bias p) x H). rewrite label_bits_label_of. apply edge_rows_bits.
Qed.

(* an input strictly inside the region of an edge takes that edge *)
Definition strictly_in (rs : rows) (x : vec) : Prop := Forall (fun rb => dot (fst rb) x < snd rb) rs.
Lemma strict_bits : forall A b bs x, length b = length A -> length bs = length A ->
  strictly_in (edge_rows A b bs) x -> bits A b x = bs.
Proof.
  induction A as [|r A IH]; intros [|b0 b] [|s bs] x Hb Hs H; try discriminate; [reflexivity|].
  cbn [edge_rows] in H. apply Forall_cons_iff in H as [H0 H]. cbn [bits]. f_equal.
  - destruct s; cbn [fst snd] in H0.
    + apply qleb_spec. qlra.
    + destruct (qleb (dot r x) b0) eqn:E; [|reflexivity]. apply qleb_spec in E. rewrite dot_vopp in H0. exfalso. qlra.
  - apply IH; auto; cbn [length] in *; lia.
Qed.
Lemma length_label_bits : forall n l, length (label_bits n l) = n.
Proof. induction n; intros l; cbn [label_bits length]; auto. Qed.
Lemma label_of_label_bits : forall n l, (l < 2 ^ n)%nat -> label_of (label_bits n l) = l.
Proof.
  induction n as [|n IH]; intros l H.
  - cbn in H. assert (l = 0%nat) by lia. subst. reflexivity.
  - cbn [label_bits label_of]. rewrite IH.
    + pose proof (Nat.div2_odd l) as E. destruct (Nat.odd l); cbn [Nat.b2n] in E; lia.
    + cbn [Nat.pow] in H. pose proof (Nat.div2_odd l) as E. destruct (Nat.odd l); cbn [Nat.b2n] in E; lia.
Qed.
Theorem strictly_inside_takes_edge p l x : length (a_bias p) = length (a_mat p) -> (l < 2 ^ length (a_mat p))%nat ->
  strictly_in (label_rows p l) x -> decide p x = l.
Proof.
  intros Hb Hl H. unfold decide, label_rows in *.
  rewrite (strict_bits (a_mat p) (a_bias p) (label_bits (length (a_mat p)) l) x Hb (length_label_bits _ _) H).
  apply label_of_label_bits. exact Hl.
Qed.

(* for one-row predicates this is the pair row0 / row1 of the binary development *)
Lemma label_rows_binary p r b : a_mat p = [r] -> a_bias p = [b] ->
  label_rows p 0 = [row0 p] /\ label_rows p 1 = [row1 p].
Proof.
  intros Hm Hb. unfold label_rows, row0, row1, prow. rewrite Hm, Hb. cbn. split; reflexivity.
Qed.

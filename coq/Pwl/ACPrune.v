(* Pwl/ACPrune.v -- generic_composition_inplace WITH pruning at the level of the slab arena
   (pwl/impl_composition.rs:231-327 with C::explore = is_edge_feasible, pwl/impl_infeasible_elim.rs:476-575;
   tree/graph.rs: parent, path_to_node, add_child_node, try_remove_child / remove_child, remove_all_descendants,
   merge_child_with_parent), as an executable machine over `arena acont`, effect by effect:

     for terminal_idx in terminals                                   [acp_list]
       update_node(terminal_idx, new root function); stack = [(lhs root, terminal_idx)]      [acp_at]
       while let Some((parent0, parent1)) = stack.pop()              [acp_loop, explicit fuel]
         for (pos, edge) in lhs.children(parent0)                    [acp_edges]
           child1 = add_child_node(parent1, label, value)            [ArenaCompose.add_child, key from `alloc`]
           keep_last = created == 0 && pos + 1 == n_edges
           if explore(rhs, parent1, child1) || keep_last  -> push (child0, child1)
           else remove_child(parent1, label)                         [a_remove_child]
         if created == 1 && created + skipped == K -> merge_child_with_parent(parent1, label_created.unwrap()).unwrap()

   lhs is borrowed immutably by the code; it enters as the inductive tree it abstracts to (a stack entry carries
   the lhs SUBTREE whose root is the lhs node of the code's pair).  Every `unwrap` / `expect` / `assert!` / index
   out of bounds of the code is the outcome None.  The slab allocator is the oracle `alloc` (asked on the arena into
   which the node is inserted); the LP solver is the oracle `o` indexed by call number and query polytope.
   is_edge_feasible reads the ARENA: the literal test parent_idx == 0, the state of the new child, the path to the
   parent through the parent pointers (path_to_node: Tree::parent repeatedly, linear search of the label in the
   parent's children; explicit fuel `pf`), the rows of the predicates on that path in root-to-node order followed by
   the new edge (polyhedral_path_characterization; one-row predicates: row0 / row1 of Pwl/Elim.v), the parent's
   witnesses, one LP call. *)
From AT Require Import Num Vec Aff PTree Cells Abs Cache Elim CPrune Tree TreeLemmas ArenaCompose.

(* ---------------------------------------------------------------- Tree::parent, Tree::child *)
Inductive pres := PRoot | PEdge (g l : nat) | PFail.
(* Err(MissingParent) = PRoot; Err(InvalidIndex) and the panic "data structure corrupted" = PFail *)
Definition a_parent (a : arena acont) (i : nat) : pres :=
  match aget a i with
  | None => PFail
  | Some c =>
      match c_parent c with
      | None => PRoot
      | Some p =>
          match aget a p with
          | None => PFail
          | Some pc => match find_label (c_children pc) i with Some l => PEdge p l | None => PFail end
          end
      end
  end.
(* Tree::child(i, l).target_idx; None = Err or index out of bounds *)
Definition a_child (a : arena acont) (i l : nat) : option nat :=
  match aget a i with
  | None => None
  | Some c =>
      match nth_error (c_children c) l with
      | Some (Some j) => match aget a j with Some _ => Some j | None => None end
      | _ => None
      end
  end.

(* ---------------------------------------------------------------- Tree::path_to_node
   the code pushes (source, label) while walking up and reverses at the end: consing in front gives the same list *)
Fixpoint path_up (fuel : nat) (a : arena acont) (cur : nat) (acc : list (nat * nat)) : option (list (nat * nat)) :=
  match fuel with
  | O => None
  | S f =>
      match a_parent a cur with
      | PRoot => Some acc
      | PEdge g l => path_up f a g ((g, l) :: acc)
      | PFail => None
      end
  end.
Definition path_to_node (pf : nat) (a : arena acont) (i : nat) : option (list (nat * nat)) :=
  if acontains a i then path_up pf a i [] else None.

(* ---------------------------------------------------------------- polyhedral_path_characterization *)
Definition edge_row (a : arena acont) (e : nat * nat) : option (vec * Qc) :=
  match aget a (fst e) with
  | None => None
  | Some c =>
      if c_leaf c then None                              (* assert!(!current_node.isleaf) *)
      else match snd e with
           | 0%nat => Some (row0 (ac_aff (c_val c)))
           | 1%nat => Some (row1 (ac_aff (c_val c)))
           | _ => None                                   (* panic!("label should be 0 or 1") *)
           end
  end.
Definition path_rows (a : arena acont) (path : list (nat * nat)) : option rows := opt_all (map (edge_row a) path).

(* ---------------------------------------------------------------- AffTree::is_edge_feasible *)
Definition lp_edge (o : oracle) (q : rows) (k : cnt) : bool * cnt := (lp_keeps (o_lp o (k_lp k) q), lp_inc k).

Definition is_edge_feasible (o : oracle) (tol : Qc) (pf : nat) (a : arena acont) (parent node : nat) (k : cnt)
  : option (bool * cnt) :=
  if Nat.eqb parent 0 then Some (true, k)
  else
    match aget a node with
    | None => None
    | Some nc =>
        match ac_state (c_val nc) with
        | Infeas => Some (false, k)
        | Feas | FeasW _ => Some (true, k)
        | Indet =>
            obnd (path_to_node pf a parent) (fun path =>
            match a_parent a node with
            | PEdge _ label =>
                obnd (path_rows a (path ++ [(parent, label)])) (fun q =>
                match aget a parent with
                | None => None
                | Some pc =>
                    match ac_state (c_val pc) with
                    | Infeas => Some (false, k)
                    | FeasW ws => if existsb (contains_tol tol q) ws then Some (true, k) else Some (lp_edge o q k)
                    | _ => Some (lp_edge o q k)
                    end
                end)
            | _ => None                                  (* .expect("edge not contained in graph") *)
            end)
        end
    end.

(* ---------------------------------------------------------------- remove_all_descendants, try_remove_child, remove_child
   as Arena/Tree.v models them, over AffContent cells *)
Fixpoint arad_loop (fuel : nat) (stack : list nat) (a : arena acont) : option (arena acont) :=
  match fuel with
  | O => None
  | S f =>
      match stack with
      | [] => Some a
      | j :: rest =>
          match aget a j with
          | None => None
          | Some cj => arad_loop f (rev (somes (c_children cj)) ++ rest) (aset a j None)
          end
      end
  end.
Definition a_remove_desc (a : arena acont) (x : nat) : option (arena acont) :=
  match aget a x with
  | None => None
  | Some cx =>
      let kids := somes (c_children cx) in
      if forallb (acontains a) kids then
        obnd (arad_loop (S (alen a)) (rev kids) a) (fun a1 =>
        match aget a1 x with
        | None => None
        | Some c => Some (aset a1 x (Some (mkcell (c_val c) (c_parent c) (map (fun _ => None) (c_children c)) true)))
        end)
      else None
  end.
Definition a_remove_child (a : arena acont) (parent label : nat) : option (arena acont) :=
  obnd (a_child a parent label) (fun child =>
  obnd (a_remove_desc a child) (fun a1 =>
  match aget a1 parent with
  | None => None
  | Some pc =>
      match nth_error (c_children pc) label with
      | None => None
      | Some _ =>
          let ch := set_nth (c_children pc) label None in
          let a2 := aset a1 parent (Some (mkcell (c_val pc) (c_parent pc) ch (if all_none ch then true else c_leaf pc))) in
          match aget a2 child with
          | None => None
          | Some _ => Some (aset a2 child None)
          end
      end
  end)).

(* ---------------------------------------------------------------- merge_child_with_parent(..).unwrap() *)
Definition a_merge (root : nat) (a : arena acont) (p label : nat) : option (arena acont) :=
  match aget a p with
  | None => None
  | Some pc =>
      if negb (Nat.eqb (count_some (c_children pc)) 1) then None            (* assert!(num_children == 1) *)
      else if Nat.eqb root p then None                                      (* Err(RootNode).unwrap() *)
      else
        obnd (a_child a p label) (fun c =>
        match a_parent a p with
        | PEdge g gl =>
            match aget a g with
            | None => None
            | Some gc =>
                let a1 := aset a g (Some (mkcell (c_val gc) (c_parent gc) (set_nth (c_children gc) gl (Some c)) (c_leaf gc))) in
                match aget a1 c with
                | None => None
                | Some cc =>
                    let a2 := aset a1 c (Some (mkcell (c_val cc) (Some g) (c_children cc) (c_leaf cc))) in
                    match aget a2 p with
                    | None => None
                    | Some _ => Some (aset a2 p None)
                    end
                end
            end
        | _ => None
        end)
  end.

(* ---------------------------------------------------------------- the loop body *)
(* lhs.tree.children(parent0): the existing children with their labels, ascending *)
Fixpoint edges_from (l : nat) (ch : list ptree) : list (nat * ptree) :=
  match ch with
  | [] => []
  | U :: r => edges_from (S l) r
  | c :: r => (l, c) :: edges_from (S l) r
  end.
(* C::update_terminal / C::update_decision of the lhs node against the ORIGINAL function of the rhs terminal *)
Definition node_val (s : schema) (tf : aff) (c : ptree) : aff :=
  match c with T f => s_term s f tf | D p _ => s_dec s p tf | U => tf end.

Definition astack := list (ptree * nat).
Record estate := mkE { e_a : arena acont; e_stk : astack; e_k : cnt; e_created : nat; e_skipped : nat; e_lab : option nat }.

Fixpoint acp_edges (alloc : arena acont -> nat) (o : oracle) (tol : Qc) (pf K : nat) (s : schema) (tf : aff)
                   (p1 n_edges : nat) (es : list (nat * ptree)) (pos : nat) (e : estate) {struct es} : option estate :=
  match es with
  | [] => Some e
  | (l, c) :: r =>
      let key := alloc (e_a e) in
      obnd (add_child K (e_a e) p1 l (mkcont (node_val s tf c) Indet) key) (fun a1 =>
      let keep_last := Nat.eqb (e_created e) 0 && Nat.eqb (S pos) n_edges in
      obnd (is_edge_feasible o tol pf a1 p1 key (e_k e)) (fun bk =>
      if fst bk || keep_last then
        acp_edges alloc o tol pf K s tf p1 n_edges r (S pos)
                  (mkE a1 ((c, key) :: e_stk e) (snd bk) (S (e_created e)) (e_skipped e) (Some l))
      else
        obnd (a_remove_child a1 p1 l) (fun a2 =>
        acp_edges alloc o tol pf K s tf p1 n_edges r (S pos)
                  (mkE a2 (e_stk e) (snd bk) (e_created e) (S (e_skipped e)) (e_lab e)))))
  end.

(* one iteration of `while let Some((parent0, parent1)) = stack.pop()`; stk is the stack after the pop *)
Definition acp_node (alloc : arena acont -> nat) (o : oracle) (tol : Qc) (pf K root : nat) (s : schema) (tf : aff)
                    (L : ptree) (p1 : nat) (a : arena acont) (stk : astack) (k : cnt) : option (arena acont * astack * cnt) :=
  match L with
  | D _ ch =>
      let es := edges_from 0 ch in
      obnd (acp_edges alloc o tol pf K s tf p1 (length es) es 0 (mkE a stk k 0 0 None)) (fun e =>
      if Nat.eqb (e_created e) 1 && Nat.eqb (e_created e + e_skipped e) K then
        match e_lab e with
        | None => None
        | Some l => obnd (a_merge root (e_a e) p1 l) (fun a2 => Some (a2, e_stk e, e_k e))
        end
      else Some (e_a e, e_stk e, e_k e))
  | _ => Some (a, stk, k)                                 (* a terminal of lhs has no edges *)
  end.

Fixpoint acp_loop (alloc : arena acont -> nat) (o : oracle) (tol : Qc) (pf K root : nat) (s : schema) (tf : aff)
                  (fuel : nat) (stk : astack) (a : arena acont) (k : cnt) {struct fuel} : option (arena acont * cnt) :=
  match fuel with
  | O => None
  | S f =>
      match stk with
      | [] => Some (a, k)
      | (L, p1) :: rest =>
          obnd (acp_node alloc o tol pf K root s tf L p1 a rest k) (fun r =>
          acp_loop alloc o tol pf K root s tf f (snd (fst r)) (fst (fst r)) (snd r))
      end
  end.

(* one terminal of rhs *)
Definition acp_at (alloc : arena acont -> nat) (o : oracle) (tol : Qc) (pf K root : nat) (s : schema) (fuel : nat)
                  (L : ptree) (a : arena acont) (i : nat) (k : cnt) : option (arena acont * cnt) :=
  match aget a i with
  | None => None                                          (* .expect("All nodes of the iterator should be terminals") *)
  | Some c =>
      if negb (c_leaf c) then None                        (* assert!(terminal.isleaf) *)
      else
        let tf := ac_aff (c_val c) in
        match L with
        | U => None                                       (* lhs.tree.get_root() of an empty tree *)
        | _ => obnd (update_fun a i (node_val s tf L)) (fun a1 =>
               acp_loop alloc o tol pf K root s tf fuel [(L, i)] a1 k)
        end
  end.

(* all terminals, in the order of the iterator handed in *)
Fixpoint acp_list (alloc : arena acont -> nat) (o : oracle) (tol : Qc) (pf K root : nat) (s : schema) (fuel : nat)
                  (L : ptree) (ts : list nat) (a : arena acont) (k : cnt) : option (arena acont * cnt) :=
  match ts with
  | [] => Some (a, k)
  | i :: r => obnd (acp_at alloc o tol pf K root s fuel L a i k) (fun ak =>
              acp_list alloc o tol pf K root s fuel L r (fst ak) (snd ak))
  end.

(* AffTree::compose::<true, _>: terminals = self.tree.terminal_indices() taken before the loop *)
Definition acompose_prune (alloc : arena acont -> nat) (o : oracle) (tol : Qc) (pf root fuel : nat) (L : ptree) (a : arena acont)
  : option (arena acont * cnt) :=
  acp_list alloc o tol pf 2 root comp_schema fuel L (terminal_keys a) a k0.

(* ---------------------------------------------------------------- a run (non-vacuity): the receiver of ArenaCompose.exa_arena
   with a second terminal; lhs = x <= -1 ? .. : ..  below the terminal on x <= 0 the edge 0 (x > -1 .. and x <= 0) is
   kept and the edge 1 as well with an oracle that answers Optimal; with an oracle that answers Infeasible for the
   second query the decision is merged away *)
Definition exp_arena : arena acont :=
  [ Some (mkcell (mkcont (exa_f 1 0) Indet) None [Some 1%nat; Some 2%nat] false);
    Some (mkcell (mkcont (exa_f 1 0) Indet) (Some 0%nat) [Some 3%nat; Some 4%nat] false);
    Some (mkcell (mkcont (exa_f (1 + 1) 0) Feas) (Some 0%nat) [None; None] true);
    Some (mkcell (mkcont (exa_f 1 1) Indet) (Some 1%nat) [None; None] true);
    Some (mkcell (mkcont (exa_f 1 (1 + 1)) Indet) (Some 1%nat) [None; None] true) ].
Definition exp_L : ptree := D (exa_f 1 1) [T (exa_f 0 1); T (exa_f 0 0)].
Definition exp_oracle (drop : nat) : oracle :=
  {| o_lp := fun k _ => if Nat.eqb k drop then LInf else LUnb; o_mir := fun _ _ _ => None |}.

From Coq Require Import List Bool Lia. Import ListNotations.
From AT Require Import Num Vec Aff PTree Cells Abs Tree TreeLemmas Cache Elim CPrune AElim AElimBase.
From AT Require ACPruneRefine ACPruneAll.

(* every node created by graftp carries the state of the receiving terminal or Indet *)
Lemma graftp_inv (P : ctree -> Prop) (good : nstate -> Prop) o tol s tf :
  P CU -> good Indet ->
  (forall i f st, good st -> P (CN i true f st CU CU)) ->
  (forall i f st c0 c1, good st -> P c0 -> P c1 -> P (CN i false f st c0 c1)) ->
  forall L top st i q k, good st -> P (fst (graftp o tol s tf L top st i q k)).
Proof.
  intros HU HI HT HD.
  induction L as [| f | p ch IH] using ptree_ind'; intros top st i q k Hst.
  - cbn [graftp fst]. exact HU.
  - cbn [graftp fst]. apply HT; exact Hst.
  - destruct ch as [|l0 [|l1 [|l2 r]]]; try (cbn [graftp fst]; exact HU).
    apply Forall_cons_iff in IH as [IH0 IH]. apply Forall_cons_iff in IH as [IH1 _].
    cbn [graftp].
    set (p' := s_dec s p tf) in *.
    set (R0 := if pexists l0 then _ else _). destruct R0 as [keep0 k1].
    set (R1 := if pexists l1 then _ else _). destruct R1 as [keep1 k2].
    destruct (pexists l0 && pexists l1 && xorb keep0 keep1).
    + destruct keep1; [apply IH1 | apply IH0]; exact HI.
    + assert (A1 : P (fst (if keep1 then graftp o tol s tf l1 false Indet new_idx (q ++ [row1 p']) k2 else (CU, k2)))).
      { destruct keep1; [apply IH1; exact HI | exact HU]. }
      destruct (if keep1 then graftp o tol s tf l1 false Indet new_idx (q ++ [row1 p']) k2 else (CU, k2)) as [c1 k3].
      assert (A0 : P (fst (if keep0 then graftp o tol s tf l0 false Indet new_idx (q ++ [row0 p']) k3 else (CU, k3)))).
      { destruct keep0; [apply IH0; exact HI | exact HU]. }
      destruct (if keep0 then graftp o tol s tf l0 false Indet new_idx (q ++ [row0 p']) k3 else (CU, k3)) as [c0 k4].
      cbn [fst] in *. apply HD; assumption.
Qed.

Lemma graftp_wne o tol s tf L top st i q k : st_ne st -> wne (fst (graftp o tol s tf L top st i q k)).
Proof.
  apply (graftp_inv wne st_ne).
  - exact I.
  - unfold st_ne; discriminate.
  - intros; cbn; auto.
  - intros; cbn; auto.
Qed.

Lemma graftp_cwf o tol s tf L top st i q k : ACPruneAll.cwf (fst (graftp o tol s tf L top st i q k)).
Proof.
  apply (graftp_inv ACPruneAll.cwf (fun _ => True)); auto.
  - exact I.
  - intros; cbn; auto.
  - intros; cbn; auto.
Qed.

Lemma cprune_wne o tol s L t : forall q k, wne t -> wne (fst (cprune o tol s L t q k)).
Proof.
  induction t as [| i leaf f st c0 IH0 c1 IH1]; intros q k H.
  - exact I.
  - cbn [cprune]. destruct H as [Hs [H0 H1]]. destruct leaf.
    + apply graftp_wne; exact Hs.
    + specialize (IH0 (q ++ [row0 f]) k H0).
      destruct (cprune o tol s L c0 (q ++ [row0 f]) k) as [c0' k1].
      specialize (IH1 (q ++ [row1 f]) k1 H1).
      destruct (cprune o tol s L c1 (q ++ [row1 f]) k1) as [c1' k2].
      cbn [fst] in *. cbn. auto.
Qed.

Lemma cprune_cwf o tol s L t : forall q k, ACPruneAll.cwf t -> ACPruneAll.cwf (fst (cprune o tol s L t q k)).
Proof.
  induction t as [| i leaf f st c0 IH0 c1 IH1]; intros q k H.
  - exact I.
  - cbn [cprune]. destruct leaf.
    + apply graftp_cwf.
    + destruct H as [H0 H1].
      specialize (IH0 (q ++ [row0 f]) k H0).
      destruct (cprune o tol s L c0 (q ++ [row0 f]) k) as [c0' k1].
      specialize (IH1 (q ++ [row1 f]) k1 H1).
      destruct (cprune o tol s L c1 (q ++ [row1 f]) k1) as [c1' k2].
      cbn [fst] in *. cbn. auto.
Qed.

Theorem compose_prune_wne o tol t L : wne t -> wne (fst (compose_prune o tol t L)).
Proof. apply cprune_wne. Qed.

Theorem compose_prune_cwf o tol t L : ACPruneAll.cwf t -> ACPruneAll.cwf (fst (compose_prune o tol t L)).
Proof. apply cprune_cwf. Qed.

Print Assumptions compose_prune_wne.
Print Assumptions compose_prune_cwf.

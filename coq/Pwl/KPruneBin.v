(* Pwl/KPruneBin.v -- the K = 2 instance of Pwl/KPrune.v IS Pwl/CPrune.v: on the embedding of a binary ctree, with a binary
   one-row lhs, kprune computes the embedding of cprune's result with the same oracle-call counter. *)
From AT Require Import Num Vec Aff PTree Cells Abs Cache Elim ElimEval CPrune Ops CPruneEval EdgeRegion KPrune.

Lemma one_row_label_rows p : one_row p -> label_rows p 0 = [row0 p] /\ label_rows p 1 = [row1 p].
Proof.
  intros [H1 H2]. destruct (a_mat p) as [|r [|r' m]] eqn:Em; try discriminate.
  destruct (a_bias p) as [|b [|b' v]] eqn:Eb; try discriminate.
  exact (label_rows_binary p r b Em Eb).
Qed.

Ltac kfin :=
  unfold n_exist, count_true; cbn [filter orb negb andb xorb];
  repeat match goal with E : pexists _ = _ |- _ => rewrite E end;
  cbn [filter length Nat.eqb andb orb negb xorb kpick kdesc hd tl fst snd Nat.add];
  repeat match goal with R : label_rows _ _ = _ |- _ => rewrite R end;
  repeat (match goal with IH : forall (top : bool) (st : nstate) (i : nat) (q : rows) (k : cnt), kgraft _ _ _ _ _ _ top st i q k = _ |- _ =>
                           rewrite IH end; cbn [fst snd]);
  repeat (match goal with |- context [graftp ?o ?tol ?s ?tf ?l ?a ?b ?c ?d ?e] =>
                    is_var e; destruct (graftp o tol s tf l a b c d e) as [? ?] end; cbn [fst snd]);
  reflexivity.

Theorem kgraft_binary o tol s tf : keeps_rows s tf -> forall L, bin2 L -> forall top st i q k,
  kgraft o tol s 2 tf L top st i q k = (kemb (fst (graftp o tol s tf L top st i q k)), snd (graftp o tol s tf L top st i q k)).
Proof.
  intros Hk L HL. induction HL as [|f|p l0 l1 Hp HL0 IH0 HL1 IH1]; intros top st i q k.
  - reflexivity.
  - reflexivity.
  - destruct (one_row_label_rows (s_dec s p tf) (Hk p Hp)) as [R0 R1].
    cbn [kgraft graftp kedges n_exist filter existsb]. rewrite R0, R1.
    destruct (pexists l0) eqn:E0; destruct (pexists l1) eqn:E1; cbn [orb negb andb Nat.eqb].
    + destruct (explore o tol top st (q ++ [row0 (s_dec s p tf)]) k) as [b0 k1]. destruct b0; cbn [orb negb andb Nat.eqb].
      * destruct (explore o tol top st (q ++ [row1 (s_dec s p tf)]) k1) as [b1 k2]. destruct b1; kfin.
      * destruct (explore o tol top st (q ++ [row1 (s_dec s p tf)]) k1) as [b1 k2]. destruct b1; kfin.
    + destruct (explore o tol top st (q ++ [row0 (s_dec s p tf)]) k) as [b0 k1]. destruct b0; kfin.
    + destruct (explore o tol top st (q ++ [row1 (s_dec s p tf)]) k) as [b1 k1]. destruct b1; kfin.
    + kfin.
Qed.

Theorem kprune_binary o tol s L : bin2 L -> forall t q k, cbin t -> terms_ok s t ->
  kprune o tol s 2 L (kemb t) q k = (kemb (fst (cprune o tol s L t q k)), snd (cprune o tol s L t q k)).
Proof.
  intros HL. induction t as [|i leaf f st c0 IH0 c1 IH1]; intros q k Hb Ht; [reflexivity|].
  destruct Hb as [Hf [Hb0 Hb1]]. destruct Ht as [Htf [Ht0 Ht1]].
  cbn [kemb kprune cprune]. destruct leaf.
  - apply kgraft_binary; auto.
  - destruct (one_row_label_rows f (Hf eq_refl)) as [R0 R1].
    cbn [kasc]. rewrite R0, R1. rewrite (IH0 _ _ Hb0 Ht0).
    destruct (cprune o tol s L c0 (q ++ [row0 f]) k) as [c0' k1]. cbn [fst snd].
    rewrite (IH1 _ _ Hb1 Ht1).
    destruct (cprune o tol s L c1 (q ++ [row1 f]) k1) as [c1' k2]. reflexivity.
Qed.

(* the pruned composition and the pruned operators *)
Theorem kcompose_prune_binary o tol t L : bin2 L -> cbin t -> terms_ok comp_schema t ->
  kcompose_prune o tol 2 (kemb t) L = (kemb (fst (compose_prune o tol t L)), snd (compose_prune o tol t L)).
Proof. intros. unfold kcompose_prune, compose_prune. apply kprune_binary; auto. Qed.

(* the embedding is faithful: same function, same erasure *)
Lemma kerase_kemb t : kerase (kemb t) = erase t.
Proof.
  induction t as [|i leaf f st c0 IH0 c1 IH1]; [reflexivity|]. cbn [kemb kerase erase map]. rewrite IH0, IH1. reflexivity.
Qed.
Lemma kemb_inj : forall a b, kemb a = kemb b -> a = b.
Proof.
  induction a as [|i l f s a0 IH0 a1 IH1]; intros [|j m g r b0 b1] H; cbn [kemb] in H; try discriminate; [reflexivity|].
  inversion H; subst. f_equal; auto.
Qed.

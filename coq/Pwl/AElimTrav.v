(* Pwl/AElimTrav.v -- the traversal of Pwl/AElim.v computes the u-component of AElimTwo.elim2: by structural
   induction on the tree that the sub-arena holds (AElimRun.TLP for every tree).  The three continuations after the
   visit of the last sibling: skipped sub-tree, normal descent, forward_if_redundant (the moved-up child keeps its
   depth and the old path rows). *)
From AT Require Import Num Vec Aff PTree Cells Abs Tree TreeLemmas Cache Elim ElimEval ElimEff AElim AElimBase AElimOps AElimTwo AElimFinal AElimStep AElimRun.

Lemma post_ctx_keep root A A' i par og t u : ctx_ok root A i par og t -> cidx u = Some i ->
  (forall j, ~ In j (idxs t) -> aget A' j = aget A j) -> post_ctx A A' og t u.
Proof.
  intros Hc Hu Hf. destruct og as [[[g gc] lg]|]; cbn [post_ctx ctx_ok] in *; [|exact Hf].
  destruct Hc as [_ [_ [Hg [Hfl [Hgt _]]]]]. split; [|intros j Hj _; apply Hf; exact Hj].
  rewrite Hf by exact Hgt. rewrite Hg, Hu. rewrite gcell_upd_same; [reflexivity | apply find_label_sound; exact Hfl].
Qed.

Lemma two_kid_shape o tol l i st ql h c k ul rl k' el fr : c <> CU ->
  two_kid o tol l i st ql h c k = (ul, rl, k', el, fr) -> sub_idx ul c /\ c_exists ul = true.
Proof.
  intros Hc H. unfold two_kid in H. destruct (visit o tol st ql h c k) as [[[s k1] fr'] skip].
  destruct skip.
  - inversion H; subst. split; [apply sub_idx_set_st|]. rewrite c_exists_set_st. destruct c; [congruence | reflexivity].
  - destruct (elim2 o tol false ql s c k1) as [[[u r] k''] e] eqn:E. inversion H; subst.
    destruct (elim2_shape o tol _ _ _ _ _ _ _ _ _ E) as [S1 [_ [_ S4]]]. split; [exact S1|]. apply S4. destruct c; [congruence | reflexivity].
Qed.

Lemma two_kid1_alt o tol i st q1 h c k s1 k3 fr1 skip1 u1 r1 k4 e1' :
  visit o tol st q1 h c k = (s1, k3, fr1, skip1) ->
  (if skip1 then (set_st s1 c, set_st s1 c, k3, []) else elim2 o tol false q1 s1 c k3) = (u1, r1, k4, e1') ->
  two_kid o tol 1 i st q1 h c k = (u1, r1, k4, (if fr1 && is_infeas s1 then [(1%nat, i)] else []) ++ e1', fr1).
Proof.
  intros Ev E. unfold two_kid. rewrite Ev. pose proof (visit_skip _ _ _ _ _ _ _ _ _ _ _ Ev) as Hsk. destruct skip1.
  - inversion E; subst. rewrite <- Hsk, andb_true_r, app_nil_r. reflexivity.
  - rewrite E. rewrite <- Hsk, andb_false_r. reflexivity.
Qed.

Lemma is_infeas_true s : is_infeas s = true -> s = Infeas.
Proof. destruct s; cbn; congruence. Qed.

Theorem traversal o tol root : mir_ne o -> forall t, TLP o tol root t.
Proof.
  intros Hm. induction t as [|i0 lf0 p0 s0' t0 IH0 t1 IH1]; intros i lf p s' c0 c1 Ht; [discriminate|].
  inversion Ht; subst i0 lf0 p0 s0' t0 t1. clear Ht.
  intros og q st k u r k' es H2 A par rest lp rem Hw Hnd Wn0 Wn1 Hst Hctx.
  pose proof Hw as Hw0. cbn [wfn] in Hw. destruct Hw as [Hci [Hlf [W0 W1]]].
  destruct (nodup_cn _ _ _ Hnd) as [Hi0 [Hi1 [N0 [N1 D01]]]].
  assert (Hroot : ~ In root (idxs c0) /\ ~ In root (idxs c1)).
  { destruct og as [[[g gc] lg]|]; cbn [ctx_ok] in Hctx.
    - destruct Hctx as [Hr _]. split; intros C; apply Hr; apply in_cn; auto.
    - destruct Hctx as [-> _]. auto. }
  destruct Hroot as [Hr0 Hr1].
  (* nothing to visit below i *)
  assert (Triv : kstack (length q) c0 c1 rest = rest -> (u, r, k', es) = (CN i lf p st c0 c1, r, k, []) ->
          exists n A' ps' lp',
            steps o tol root n (mk A (rev q) (kstack (length q) c0 c1 rest) lp (length q) k rem)
                               (mk A' ps' rest lp' (length ps') k' (rem ++ es)) /\
            (n <= csize c0 + csize c1)%nat /\ (exists junk, rev ps' = q ++ junk) /\ wfn A' par u /\
            (forall j, In j (idxs (CN i lf p s' c0 c1)) -> ~ In j (idxs u) -> aget A' j = None) /\
            post_ctx A A' og (CN i lf p s' c0 c1) u).
  { intros Ek E. inversion E; subst u k' es. exists 0%nat, A, (rev q), lp.
    split; [cbn [steps]; rewrite Ek, rev_length, app_nil_r; reflexivity|]. split; [lia|].
    split; [exists []; rewrite rev_involutive, app_nil_r; reflexivity|]. split; [exact Hw0|].
    split; [intros j Hj Hnj; exfalso; apply Hnj; exact Hj|].
    eapply post_ctx_keep; eauto. }
  destruct lf.
  { destruct (Hlf eq_refl) as [-> ->]. cbn in H2. apply Triv; [reflexivity|]. inversion H2; reflexivity. }
  rewrite elim2_unfold in H2. cbv zeta in H2.
  destruct c0 as [|j0 l0 f0 s0 a0 b0].
  - (* no child 0 *)
    cbn [two_child0] in H2.
    destruct c1 as [|j1 l1 f1 s1' a1 b1]; [apply Triv; [reflexivity | inversion H2; reflexivity]|].
    set (c1 := CN j1 l1 f1 s1' a1 b1) in *.
    destruct (visit o tol st (q ++ [row1 p]) (row1 p) c1 k) as [[[s1 k3] fr1] skip1] eqn:Ev1.
    cbn [c_exists] in H2. rewrite andb_false_r in H2. cbn [andb app] in H2.
    destruct (if skip1 then (set_st s1 c1, set_st s1 c1, k3, []) else elim2 o tol false (q ++ [row1 p]) s1 c1 k3)
      as [[[u1 r1] k4] e1'] eqn:E1.
    inversion H2; subst u r k' es. clear H2.
    pose proof (two_kid1_alt o tol i st _ _ c1 k _ _ _ _ _ _ _ _ Ev1 E1) as Ek.
    destruct (kid_run o tol root Hm j1 l1 f1 s1' a1 b1 IH1 1%nat i p st par [None; Some j1] false q A rest 0%nat lp (rev q) [] k rem
                _ _ _ _ _ (or_intror eq_refl) Ek) as [n [A' [ps' [lp' [Hrun [Hn [Hj [Wu [Hdead [Hci' Hfr]]]]]]]]]]; auto.
    { rewrite rev_involutive, app_nil_r. reflexivity. }
    { cbn [find_label option_map]. rewrite Nat.eqb_refl. reflexivity. }
    { intros [|[|m]] x Hx _; cbn in Hx; try discriminate; [reflexivity | destruct m; discriminate]. }
    { intros _ s k1 skip Hv. eapply forward_single.
      - rewrite aget_aset_other by (intros ->; apply Hi1; left; reflexivity). exact Hci.
      - reflexivity.
      - apply aget_aset_same. }
    subst c1. exists n, A', ps', lp'. rewrite rev_length in Hrun.
    split; [exact Hrun|]. split; [cbn [csize] in *; lia|].
    split; [destruct Hj as [junk Hj]; exists (row1 p :: junk); rewrite Hj, <- app_assoc; reflexivity|].
    split; [|split].
    + cbn [wfn]. split; [exact Hci'|]. split; [intros C; discriminate|]. split; [exact I | exact Wu].
    + intros x Hx Hnx. rewrite in_cn in Hx. destruct Hx as [->|[[]|Hx]]; [exfalso; apply Hnx; left; reflexivity|].
      apply Hdead; [exact Hx|]. intros C. apply Hnx. apply in_cn. auto.
    + eapply post_ctx_keep; eauto. intros x Hx. rewrite in_cn in Hx. apply Hfr; [intros C; apply Hx; auto | intros ->; apply Hx; auto].
  - set (c0 := CN j0 l0 f0 s0 a0 b0) in *.
    rewrite two_child0_kid in H2 by discriminate.
    destruct (two_kid o tol 0 i st (q ++ [row0 p]) (row0 p) c0 k) as [[[[u0 r0] k2] e0] fresh0] eqn:E0.
    assert (Hc0ne : c0 <> CU) by (unfold c0; discriminate).
    destruct (two_kid_shape _ _ _ _ _ _ _ _ _ _ _ _ _ _ Hc0ne E0) as [SU0 Ex0].
    destruct c1 as [|j1 l1 f1 s1' a1 b1].
    + (* only child 0 *)
      inversion H2; subst u r k' es. clear H2.
      destruct (kid_run o tol root Hm j0 l0 f0 s0 a0 b0 IH0 0%nat i p st par [Some j0; None] false q A rest 0%nat lp (rev q) [] k rem
                  _ _ _ _ _ (or_introl eq_refl) E0) as [n [A' [ps' [lp' [Hrun [Hn [Hj [Wu [Hdead [Hci' Hfr]]]]]]]]]]; auto.
      { rewrite rev_involutive, app_nil_r. reflexivity. }
      { cbn [find_label]. rewrite Nat.eqb_refl. reflexivity. }
      { intros [|[|m]] x Hx _; cbn in Hx; try discriminate; [reflexivity | destruct m; discriminate]. }
      { intros _ s k1 skip Hv. eapply forward_single.
        - rewrite aget_aset_other by (intros ->; apply Hi0; left; reflexivity). exact Hci.
        - reflexivity.
        - apply aget_aset_same. }
      subst c0. exists n, A', ps', lp'. rewrite rev_length in Hrun.
      split; [exact Hrun|]. split; [cbn [csize] in *; lia|].
      split; [destruct Hj as [junk Hj]; exists (row0 p :: junk); rewrite Hj, <- app_assoc; reflexivity|].
      split; [|split].
      * cbn [wfn]. split; [exact Hci'|]. split; [intros C; discriminate|]. split; [exact Wu | exact I].
      * intros x Hx Hnx. rewrite in_cn in Hx. destruct Hx as [->|[Hx|[]]]; [exfalso; apply Hnx; left; reflexivity|].
        apply Hdead; [exact Hx|]. intros C. apply Hnx. apply in_cn. auto.
      * eapply post_ctx_keep; eauto. intros x Hx. rewrite in_cn in Hx. apply Hfr; [intros C; apply Hx; auto | intros ->; apply Hx; auto].
    + set (c1 := CN j1 l1 f1 s1' a1 b1) in *.
      (* child 0 and its sub-tree *)
      destruct (kid_run o tol root Hm j0 l0 f0 s0 a0 b0 IH0 0%nat i p st par [Some j0; Some j1] false q A
                  ((S (length q), j1, 0%nat) :: rest) 1%nat lp (rev q) [] k rem
                  _ _ _ _ _ (or_introl eq_refl) E0) as [n0 [A1 [ps1 [lp1 [Hrun0 [Hn0 [Hj0 [Wu0 [Hdead0 [Hci1 Hfr0]]]]]]]]]]; auto.
      { rewrite rev_involutive, app_nil_r. reflexivity. }
      { cbn [find_label]. rewrite Nat.eqb_refl. reflexivity. }
      { intros [|[|m]] x Hx Hin; cbn in Hx; try discriminate; [reflexivity | | destruct m; discriminate].
        inversion Hx; subst x. exfalso. apply (D01 j1 Hin). left; reflexivity. }
      { intros C; discriminate C. }
      cbn [set_nth] in Hci1. rewrite rev_length in Hrun0. destruct Hj0 as [junk0 Hj0].
      destruct (proj1 (cidx_exists u0) Ex0) as [ju0 Hju0].
      assert (Hu0c : forall x, In x (idxs u0) -> In x (idxs c0)) by (intros x; apply sub_in; exact SU0).
      assert (Nu0 : NoDup (idxs u0)) by (apply SU0; exact N0).
      assert (Hju0c : In ju0 (idxs c0)) by (apply Hu0c, cidx_in; exact Hju0).
      assert (Hj1c : In j1 (idxs c1)) by (left; reflexivity).
      assert (Hjj : ju0 <> j1) by (intros ->; exact (D01 j1 Hju0c Hj1c)).
      assert (Hij1 : i <> j1) by (intros ->; contradiction).
      assert (W1a : wfn A1 (Some i) c1).
      { eapply wfn_frame; [|exact W1]. intros x Hx. apply Hfr0; [intros C; exact (D01 x C Hx) | intros ->; contradiction]. }
      assert (Hps1 : rev ps1 = q ++ (row0 p :: junk0)) by (rewrite Hj0, <- app_assoc; reflexivity).
      assert (Hfl1 : find_label [cidx u0; Some j1] j1 = Some 1%nat).
      { rewrite Hju0. cbn [find_label option_map]. destruct (Nat.eqb_spec ju0 j1); [contradiction|]. rewrite Nat.eqb_refl. reflexivity. }
      destruct (visit o tol st (q ++ [row1 p]) (row1 p) c1 k2) as [[[s1 k3] fr1] skip1] eqn:Ev1.
      pose proof (visit_skip _ _ _ _ _ _ _ _ _ _ _ Ev1) as Hsk1.
      destruct (fr1 && c_exists u0 && (is_feas (c_state u0) && is_infeas s1 || is_infeas (c_state u0) && is_feas s1)) eqn:Efwd.
      * (* forward_if_redundant(i) fires after the visit of child 1 *)
        apply andb_true_iff in Efwd as [Efa Efb]. apply andb_true_iff in Efa as [Efr _]. subst fr1.
        assert (Hcj1 : aget A1 j1 = Some (ae_cell f1 (c_state c1) (Some i) [cidx a1; cidx b1] l1)) by apply W1a.
        assert (Hj1r : j1 <> root) by (intros ->; contradiction).
        pose proof (step_child o tol root A1 ps1 q (row0 p :: junk0) (length q) j1 0%nat rest lp1 k2 (rem ++ e0) f1 c1
                      [cidx a1; cidx b1] l1 i p st par [cidx u0; Some j1] false 1%nat s1 k3 true skip1
                      Hps1 eq_refl Hcj1 Hci1 Hfl1 (or_intror eq_refl) Hj1r Hst (num_nodes_ok A1 (Some i) j1 l1 f1 s1' a1 b1 W1a N1) Ev1) as Hstep.
        cbn [Nat.eqb lrow] in Hstep.
        set (cf1 := ae_cell f1 s1 (Some i) [cidx a1; cidx b1] l1) in *.
        set (A2 := aset A1 j1 (Some cf1)) in *.
        assert (Ws1 : wfn A2 (Some i) (CN j1 l1 f1 s1 a1 b1)) by (apply (wfn_set_state A1 (Some i) j1 l1 f1 s1' a1 b1 s1); assumption).
        assert (Fr2 : forall x, x <> j1 -> aget A2 x = aget A1 x) by (intros x Hx; apply aget_aset_other; congruence).
        assert (Wu0' : wfn A2 (Some i) u0).
        { eapply wfn_frame; [|exact Wu0]. intros x Hx. apply Fr2. intros ->. exact (D01 j1 (Hu0c j1 Hx) Hj1c). }
        assert (Hci2 : aget A2 i = Some (ae_cell p st par [Some ju0; Some j1] false)) by (rewrite Fr2 by exact Hij1; rewrite <- Hju0; exact Hci1).
        assert (Hcf1 : aget A2 j1 = Some cf1) by apply aget_aset_same.
        assert (Hiu0 : ~ In i (idxs u0)) by (intros C; apply Hi0; auto).
        assert (Hj1u0 : ~ In j1 (idxs u0)) by (intros C; exact (D01 j1 (Hu0c j1 C) Hj1c)).
        destruct (wfn_root A2 (Some i) u0 ju0 Wu0' Hju0) as [fu [chu [lfu Hcu]]].
        assert (Hju0i : ju0 <> i) by (intros ->; contradiction).
        assert (Hju0c1 : ~ In ju0 (idxs c1)) by (intros C; exact (D01 ju0 Hju0c C)).
        assert (Wn1' : wne a1 /\ wne b1) by apply Wn1. destruct Wn1' as [Wna1 Wnb1].
        assert (Hsne1 : st_ne s1) by (eapply visit_ne; eauto; apply Wn1).
        destruct (is_feas s1) eqn:Ef1.
        -- (* child 1 moves up, the sub-tree in slot 0 is removed *)
           assert (Hinf1 : is_infeas s1 = false) by (apply feas_not_infeas; exact Ef1).
           rewrite Hinf1, andb_false_r, andb_true_r in Efb. cbn [orb] in Efb.
           assert (Hskip1 : skip1 = false) by congruence. subst skip1. rewrite Hinf1 in Hstep.
           destruct (elim2 o tol false (q ++ [row1 p]) s1 c1 k3) as [[[u1 r1] k4] e1'] eqn:E1.
           destruct (elim2_shape o tol _ _ _ _ _ _ _ _ _ E1) as [SU1 _].
           assert (Hu1c : forall x, In x (idxs u1) -> In x (idxs c1)) by (intros x; apply sub_in; exact SU1).
           destruct og as [[[g gc] lg]|]; cbn [isroot_of] in H2; inversion H2; subst u r k' es; clear H2; cbn [ctx_ok] in Hctx.
           ++ destruct Hctx as [Hrt [-> [Hg [Hflg [Hgt Hslots]]]]].
              assert (Hgi : g <> i) by (intros ->; apply Hgt; left; reflexivity).
              assert (Hgc0 : ~ In g (idxs c0)) by (intros C; apply Hgt; apply in_cn; auto).
              assert (Hgc1 : ~ In g (idxs c1)) by (intros C; apply Hgt; apply in_cn; auto).
              assert (Hgj1 : g <> j1) by (intros ->; contradiction).
              assert (Hg2 : aget A2 g = Some gc) by (rewrite Fr2 by exact Hgj1; rewrite Hfr0 by assumption; exact Hg).
              assert (Hri : root <> i) by (intros ->; apply Hrt; left; reflexivity).
              destruct (forward_inner root A2 i p st g (Some ju0) (Some j1) 0%nat 1%nat ju0 j1 u0 cf1 gc lg Hci2
                          (or_introl (conj eq_refl eq_refl)) eq_refl eq_refl Hju0 Wu0' Nu0 Hiu0 (is_infeas_true _ Efb) Hcf1 Ef1 Hj1u0
                          (fun C => Hij1 (eq_sym C)) Hri Hg2 Hflg (fun C => Hgc0 (Hu0c g C)) Hgi Hgj1)
                as [A3 [Hfw [G3 [F3 [I3 [Gone3 O3]]]]]].
              rewrite Hfw in Hstep.
              assert (Wc1 : wfn A3 (Some g) (CN j1 l1 f1 s1 a1 b1)).
              { eapply (wfn_reroot A2 A3 (Some i) (Some g)); [exact Ws1 | reflexivity | exact N1 | exact Hcf1 | exact F3 |].
                intros x Hx Hxj. apply O3; [intros C; exact (D01 x (Hu0c x C) Hx) | intros ->; contradiction | intros ->; contradiction | exact Hxj]. }
              destruct (IH1 j1 l1 f1 s1' a1 b1 eq_refl (Some (g, gcell_upd gc lg (Some j1), lg)) (q ++ [row1 p]) s1 k3 u1 r1 k4 e1' E1
                          A3 (Some g) rest (length (somes (rev [cidx a1; cidx b1]))) (rem ++ e0) Wc1 N1 Wna1 Wnb1 Hsne1)
                as [n1 [A4 [ps4 [lp4 [Hrun1 [Hn1 [Hjk [Wu1 [Hdead1 [Hg4 Hfr4]]]]]]]]]].
              { cbn [ctx_ok]. split; [exact Hr1|]. split; [reflexivity|]. split; [exact G3|]. cbn [gcell_upd c_children].
                split; [|split; [exact Hgc1|]].
                - apply find_label_set_nth; [eapply find_label_lt; exact Hflg|].
                  intros m Hmm. apply (Hslots m j1 Hmm). apply in_cn. auto.
                - intros m x Hmm Hx. destruct (Nat.eq_dec lg m) as [->|Hne]; [reflexivity|].
                  rewrite nth_error_set_nth_other in Hmm by exact Hne. apply (Hslots m x Hmm). apply in_cn. auto. }
              rewrite rev_app_distr, app_length, Nat.add_comm in Hrun1. cbn [rev app length Nat.add] in Hrun1.
              destruct Hjk as [junk1 Hjk].
              assert (Hs1 : csize c1 = S (csize a1 + csize b1)) by reflexivity.
              assert (Hs0 : csize c0 = S (csize a0 + csize b0)) by reflexivity. cbn [csize] in Hn0.
              assert (Hig : i <> g) by congruence.
              exists (n0 + (1 + n1))%nat, A4, ps4, lp4.
              split; [|split; [|split; [|split; [|split]]]].
              ** eapply steps_trans; [exact Hrun0|]. eapply steps_trans; [apply steps_one; exact Hstep|].
                 rewrite <- !app_assoc in Hrun1. exact Hrun1.
              ** lia.
              ** exists (row1 p :: junk1). rewrite Hjk, <- app_assoc. reflexivity.
              ** exact Wu1.
              ** intros x Hx Hnx. rewrite in_cn in Hx. destruct Hx as [->|[Hx|Hx]].
                 --- rewrite Hfr4 by assumption. exact I3.
                 --- rewrite Hfr4; [|intros C; exact (D01 x Hx C) | intros ->; contradiction].
                     destruct (in_dec Nat.eq_dec x (idxs u0)) as [Hin|Hnin]; [apply Gone3; exact Hin|].
                     rewrite O3; [|exact Hnin | intros ->; contradiction | intros ->; contradiction | intros ->; exact (D01 j1 Hx Hj1c)].
                     rewrite Fr2 by (intros ->; exact (D01 j1 Hx Hj1c)). apply Hdead0; assumption.
                 --- apply Hdead1; assumption.
              ** cbn [post_ctx]. split; [rewrite Hg4, gcell_upd_twice; reflexivity|].
                 intros x Hx Hxg. rewrite in_cn in Hx.
                 rewrite Hfr4; [|intros C; apply Hx; auto | exact Hxg].
                 rewrite O3; [|intros C; apply Hx; right; left; apply Hu0c; exact C | intros ->; apply Hx; auto | exact Hxg
                              | intros ->; apply Hx; right; right; left; reflexivity].
                 rewrite Fr2 by (intros ->; apply Hx; right; right; left; reflexivity).
                 apply Hfr0; [intros C; apply Hx; auto | intros ->; apply Hx; auto].
           ++ destruct Hctx as [Hir ->]. subst root.
              destruct (forward_root A2 i p st None (Some ju0) (Some j1) 0%nat 1%nat ju0 j1 u0 cf1 Hci2
                          (or_introl (conj eq_refl eq_refl)) eq_refl eq_refl Hju0 Wu0' Nu0 Hiu0 (is_infeas_true _ Efb) Hcf1 Ef1 Hj1u0
                          (fun C => Hij1 (eq_sym C)))
                as [A3 [Hfw [I3 [Gone3 O3]]]].
              rewrite Hfw in Hstep. cbn [set_nth] in I3.
              assert (Wc1 : wfn A3 (Some i) (CN j1 l1 f1 s1 a1 b1)).
              { eapply wfn_frame; [|exact Ws1]. intros x Hx. apply O3; [intros C; exact (D01 x (Hu0c x C) Hx) | intros ->; contradiction]. }
              destruct (IH1 j1 l1 f1 s1' a1 b1 eq_refl (Some (i, ae_cell p st None [None; Some j1] false, 1%nat)) (q ++ [row1 p]) s1 k3 u1 r1 k4 e1' E1
                          A3 (Some i) rest (length (somes (rev [cidx a1; cidx b1]))) (rem ++ e0) Wc1 N1 Wna1 Wnb1 Hsne1)
                as [n1 [A4 [ps4 [lp4 [Hrun1 [Hn1 [Hjk [Wu1 [Hdead1 [Hg4 Hfr4]]]]]]]]]].
              { cbn [ctx_ok]. split; [exact Hr1|]. split; [reflexivity|]. split; [exact I3|]. cbn [ae_cell c_children].
                split; [|split; [exact Hi1|]].
                - cbn [find_label option_map]. rewrite Nat.eqb_refl. reflexivity.
                - intros [|[|m]] x Hmm Hx; cbn in Hmm; try discriminate; [reflexivity | destruct m; discriminate]. }
              rewrite rev_app_distr, app_length, Nat.add_comm in Hrun1. cbn [rev app length Nat.add] in Hrun1.
              destruct Hjk as [junk1 Hjk].
              assert (Hs1 : csize c1 = S (csize a1 + csize b1)) by reflexivity.
              assert (Hs0 : csize c0 = S (csize a0 + csize b0)) by reflexivity. cbn [csize] in Hn0.
              exists (n0 + (1 + n1))%nat, A4, ps4, lp4.
              split; [|split; [|split; [|split; [|split]]]].
              ** eapply steps_trans; [exact Hrun0|]. eapply steps_trans; [apply steps_one; exact Hstep|].
                 rewrite <- !app_assoc in Hrun1. exact Hrun1.
              ** lia.
              ** exists (row1 p :: junk1). rewrite Hjk, <- app_assoc. reflexivity.
              ** cbn [wfn]. split; [exact Hg4|]. split; [intros C; discriminate|]. split; [exact I | exact Wu1].
              ** intros x Hx Hnx. rewrite in_cn in Hx. rewrite in_cn in Hnx. destruct Hx as [->|[Hx|Hx]]; [exfalso; apply Hnx; auto| |].
                 --- rewrite Hfr4; [|intros C; exact (D01 x Hx C) | intros ->; contradiction].
                     destruct (in_dec Nat.eq_dec x (idxs u0)) as [Hin|Hnin]; [apply Gone3; exact Hin|].
                     rewrite O3; [|exact Hnin | intros ->; contradiction].
                     rewrite Fr2 by (intros ->; exact (D01 j1 Hx Hj1c)). apply Hdead0; assumption.
                 --- apply Hdead1; [exact Hx | intros C; apply Hnx; auto].
              ** cbn [post_ctx]. intros x Hx. rewrite in_cn in Hx.
                 rewrite Hfr4; [|intros C; apply Hx; auto | intros ->; apply Hx; auto].
                 rewrite O3; [|intros C; apply Hx; right; left; apply Hu0c; exact C | intros ->; apply Hx; auto].
                 rewrite Fr2 by (intros ->; apply Hx; right; right; left; reflexivity).
                 apply Hfr0; [intros C; apply Hx; auto | intros ->; apply Hx; auto].
        -- (* child 1 is infeasible: it is removed and the node in slot 0 moves up *)
           rewrite andb_false_r, orb_false_r in Efb. apply andb_true_iff in Efb as [Ef0 Ei1].
           assert (Hskip1 : skip1 = true) by congruence. subst skip1. rewrite Ei1 in Hstep. rewrite Ei1 in H2. cbn [andb] in H2.
           assert (Hlen : length (row1 p :: rev q) = S (length q)) by (cbn [length]; rewrite rev_length; reflexivity).
           assert (Hs0 : csize c0 = S (csize a0 + csize b0)) by reflexivity. cbn [csize] in Hn0.
           assert (Hs1 : csize c1 = S (csize a1 + csize b1)) by reflexivity.
           destruct og as [[[g gc] lg]|]; cbn [isroot_of] in H2; inversion H2; subst u r k' es; clear H2; cbn [ctx_ok] in Hctx.
           ++ destruct Hctx as [Hrt [-> [Hg [Hflg [Hgt Hslots]]]]].
              assert (Hgi : g <> i) by (intros ->; apply Hgt; left; reflexivity).
              assert (Hgc0 : ~ In g (idxs c0)) by (intros C; apply Hgt; apply in_cn; auto).
              assert (Hgc1 : ~ In g (idxs c1)) by (intros C; apply Hgt; apply in_cn; auto).
              assert (Hgj1 : g <> j1) by (intros ->; contradiction).
              assert (Hgju0 : g <> ju0) by (intros ->; contradiction).
              assert (Hg2 : aget A2 g = Some gc) by (rewrite Fr2 by exact Hgj1; rewrite Hfr0 by assumption; exact Hg).
              assert (Hri : root <> i) by (intros ->; apply Hrt; left; reflexivity).
              destruct (forward_inner root A2 i p st g (Some ju0) (Some j1) 1%nat 0%nat j1 ju0 (CN j1 l1 f1 s1 a1 b1)
                          (ae_cell fu (c_state u0) (Some i) chu lfu) gc lg Hci2
                          (or_intror (conj eq_refl eq_refl)) eq_refl eq_refl eq_refl Ws1 N1 Hi1 (is_infeas_true _ Ei1) Hcu Ef0 Hju0c1
                          Hju0i Hri Hg2 Hflg Hgc1 Hgi Hgju0)
                as [A3 [Hfw [G3 [F3 [I3 [Gone3 O3]]]]]].
              rewrite Hfw in Hstep.
              exists (n0 + 1)%nat, A3, (row1 p :: rev q), 0%nat. rewrite Hlen.
              split; [|split; [|split; [|split; [|split]]]].
              ** eapply steps_trans; [exact Hrun0|]. apply steps_one. rewrite Hstep, <- app_assoc. reflexivity.
              ** lia.
              ** exists [row1 p]. cbn [rev]. rewrite rev_involutive. reflexivity.
              ** eapply (wfn_reroot A2 A3 (Some i) (Some g)); [exact Wu0' | exact Hju0 | exact Nu0 | exact Hcu | exact F3 |].
                 intros x Hx Hxj. apply O3; [intros C; exact (D01 x (Hu0c x Hx) C) | intros ->; contradiction
                                             | intros ->; apply Hgc0; apply Hu0c; exact Hx | exact Hxj].
              ** intros x Hx Hnx. rewrite in_cn in Hx. destruct Hx as [->|[Hx|Hx]]; [exact I3| |apply Gone3; exact Hx].
                 rewrite O3; [|intros C; exact (D01 x Hx C) | intros ->; contradiction | intros ->; contradiction
                              | intros ->; apply Hnx; apply cidx_in; exact Hju0].
                 rewrite Fr2 by (intros ->; exact (D01 j1 Hx Hj1c)). apply Hdead0; assumption.
              ** cbn [post_ctx]. split; [rewrite G3, Hju0; reflexivity|].
                 intros x Hx Hxg. rewrite in_cn in Hx.
                 rewrite O3; [|intros C; apply Hx; auto | intros ->; apply Hx; auto | exact Hxg | intros ->; apply Hx; auto].
                 rewrite Fr2 by (intros ->; apply Hx; right; right; left; reflexivity).
                 apply Hfr0; [intros C; apply Hx; auto | intros ->; apply Hx; auto].
           ++ destruct Hctx as [Hir ->]. subst root.
              destruct (forward_root A2 i p st None (Some ju0) (Some j1) 1%nat 0%nat j1 ju0 (CN j1 l1 f1 s1 a1 b1)
                          (ae_cell fu (c_state u0) (Some i) chu lfu) Hci2
                          (or_intror (conj eq_refl eq_refl)) eq_refl eq_refl eq_refl Ws1 N1 Hi1 (is_infeas_true _ Ei1) Hcu Ef0 Hju0c1 Hju0i)
                as [A3 [Hfw [I3 [Gone3 O3]]]].
              rewrite Hfw in Hstep. cbn [set_nth] in I3.
              exists (n0 + 1)%nat, A3, (row1 p :: rev q), 0%nat. rewrite Hlen.
              split; [|split; [|split; [|split; [|split]]]].
              ** eapply steps_trans; [exact Hrun0|]. apply steps_one. rewrite Hstep, <- app_assoc. reflexivity.
              ** lia.
              ** exists [row1 p]. cbn [rev]. rewrite rev_involutive. reflexivity.
              ** cbn [wfn]. rewrite Hju0. split; [exact I3|]. split; [intros C; discriminate|]. split; [|exact I].
                 eapply wfn_frame; [|exact Wu0']. intros x Hx. apply O3; [intros C; exact (D01 x (Hu0c x Hx) C) | intros ->; contradiction].
              ** intros x Hx Hnx. rewrite in_cn in Hx. rewrite in_cn in Hnx.
                 destruct Hx as [->|[Hx|Hx]]; [exfalso; apply Hnx; auto | | apply Gone3; exact Hx].
                 rewrite O3; [|intros C; exact (D01 x Hx C) | intros ->; contradiction].
                 rewrite Fr2 by (intros ->; exact (D01 j1 Hx Hj1c)). apply Hdead0; [exact Hx | intros C; apply Hnx; auto].
              ** cbn [post_ctx]. intros x Hx. rewrite in_cn in Hx.
                 rewrite O3; [|intros C; apply Hx; auto | intros ->; apply Hx; auto].
                 rewrite Fr2 by (intros ->; apply Hx; right; right; left; reflexivity).
                 apply Hfr0; [intros C; apply Hx; auto | intros ->; apply Hx; auto].
      * (* no forwarding at i: child 1 and its sub-tree *)
        destruct (if skip1 then (set_st s1 c1, set_st s1 c1, k3, []) else elim2 o tol false (q ++ [row1 p]) s1 c1 k3)
          as [[[u1 r1] k4] e1'] eqn:E1.
        inversion H2; subst u r k' es. clear H2.
        pose proof (two_kid1_alt o tol i st _ _ c1 k2 _ _ _ _ _ _ _ _ Ev1 E1) as Ek.
        destruct (kid_run o tol root Hm j1 l1 f1 s1' a1 b1 IH1 1%nat i p st par [cidx u0; Some j1] false q A1 rest 0%nat lp1 ps1
                    (row0 p :: junk0) k2 (rem ++ e0) _ _ _ _ _ (or_intror eq_refl) Ek)
          as [n1 [A2 [ps2 [lp2 [Hrun1 [Hn1 [Hjk1 [Wu1 [Hdead1 [Hci2 Hfr1]]]]]]]]]]; auto.
        { intros [|[|m]] x Hx Hin; cbn in Hx; try discriminate; [| reflexivity | destruct m; discriminate].
          exfalso. rewrite Hju0 in Hx. inversion Hx; subst x. exact (D01 ju0 Hju0c Hin). }
        { intros _ s k1 skip Hv0.
          assert (Hv : visit o tol st (q ++ [row1 p]) (row1 p) c1 k2 = (s, k1, true, skip)) by exact Hv0. clear Hv0.
          rewrite Ev1 in Hv. inversion Hv; subst s k1 fr1 skip. clear Hv.
          destruct (wfn_root A1 (Some i) u0 ju0 Wu0 Hju0) as [fu [chu [lfu Hcu]]].
          eapply (forward_noop root _ i _ ju0 j1).
          - rewrite aget_aset_other by (intros C; apply Hij1; symmetry; exact C). exact Hci1.
          - cbn [ae_cell c_children]. rewrite Hju0. reflexivity.
          - rewrite aget_aset_other by (intros C; apply Hjj; symmetry; exact C). exact Hcu.
          - apply aget_aset_same.
          - cbn [ae_cell c_val ac_state]. rewrite Ex0 in Efwd. cbn [andb] in Efwd. exact Efwd. }
        cbn [set_nth] in Hci2. destruct Hjk1 as [junk1 Hjk1].
        assert (Hu1c : forall x, In x (idxs u1) -> In x (idxs c1)).
        { assert (Hc1ne : c1 <> CU) by (unfold c1; discriminate).
          intros x. destruct (two_kid_shape _ _ _ _ _ _ _ _ _ _ _ _ _ _ Hc1ne Ek) as [S1 _]. apply sub_in. exact S1. }
        subst c0 c1. exists (n0 + n1)%nat, A2, ps2, lp2.
        split; [|split; [|split; [|split; [|split]]]].
        -- eapply steps_trans; [exact Hrun0|]. rewrite <- !app_assoc in Hrun1. exact Hrun1.
        -- cbn [csize] in *. lia.
        -- exists (row1 p :: junk1). rewrite Hjk1, <- app_assoc. reflexivity.
        -- cbn [wfn]. split; [exact Hci2|]. split; [intros C; discriminate|]. split; [|exact Wu1].
           eapply wfn_frame; [|exact Wu0]. intros x Hx. apply Hfr1; [intros C; exact (D01 x (Hu0c x Hx) C) | intros ->; apply Hi0; apply Hu0c; exact Hx].
        -- intros x Hx Hnx. rewrite in_cn in Hx. rewrite in_cn in Hnx. destruct Hx as [->|[Hx|Hx]]; [exfalso; apply Hnx; auto| |].
           ++ rewrite Hfr1; [apply Hdead0; [exact Hx | intros C; apply Hnx; auto] | intros C; exact (D01 x Hx C) | intros ->; contradiction].
           ++ apply Hdead1; [exact Hx | intros C; apply Hnx; auto].
        -- eapply post_ctx_keep; eauto. intros x Hx. rewrite in_cn in Hx.
           rewrite Hfr1, Hfr0; auto; intros ->; apply Hx; auto.
Qed.

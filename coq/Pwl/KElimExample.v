(* Pwl/KElimExample.v -- non-vacuity of the K-ary elimination theorems: a K = 4 run (two-row predicates, labels 0..3) with
   an exact oracle in which a node is pruned, a decision is forwarded and a witness is inherited, and on which every
   hypothesis of kelim_kev holds for every input. *)
From AT Require Import Num Vec Aff Farkas FM Equiv PTree Cells Abs Cache Elim ElimEval CPrune Ops CPruneEval EdgeRegion.
From AT Require Import KPrune KPruneEval KPruneExample KElim KElimEval.

Definition kex_term (i : nat) (st : nstate) (b : Qc) : ktree := KN i true (kx_aff 0 b) st [KU; KU; KU; KU].
(* AffTree<4> over R^1: root  x <= -2  (one row: slots 2, 3 empty); below both edges the two-row predicate
   kx_p = (x <= 1, -x <= 1): label 0 (x > 1 and x < -1) is empty, 1: x <= -1, 2: x >= 1, 3: -1 <= x <= 1 *)
Definition kex_t : ktree :=
  KN 0 false (kx_aff 1 (- (1 + 1))) Indet
     [KN 1 false kx_p Indet [kex_term 3 Indet 0; kex_term 4 Indet 1; kex_term 5 Indet (1+1); kex_term 6 Indet (1+1+1)];
      KN 2 false kx_p Indet [kex_term 7 Indet (1+1+1+1); kex_term 8 Indet (1+1+1+1+1); kex_term 9 Indet (1+1+1+1+1+1);
                             kex_term 10 Indet (1+1+1+1+1+1+1)];
      KU; KU].
(* below edge 0 (x >= -2) only the child of label 0 is infeasible: node 3 is PRUNED, decision 1 stays (node 6 inherits the
   witness -1 of its parent); below edge 1 (x <= -2) the children 7, 9, 10 are infeasible: decision 2 is FORWARDED, its
   child 8 takes its place under its own index *)
Definition kex_r : ktree :=
  KN 0 false (kx_aff 1 (- (1 + 1))) Indet
     [KN 1 false kx_p (FeasW [[- (1)]])
         [KU; kex_term 4 (FeasW [[- (1)]]) 1; kex_term 5 (FeasW [[1 + 1]]) (1+1); kex_term 6 (FeasW [[- (1)]]) (1+1+1)];
      kex_term 8 (FeasW [[- (1 + 1 + 1)]]) (1+1+1+1+1);
      KU; KU].

Lemma kex_run : ktree_eqb (fst (kelim (kx_oracle 1) 0 4 kex_t)) kex_r = true /\
                snd (kelim (kx_oracle 1) 0 4 kex_t) = {| k_lp := 7; k_mir := 5 |}.
Proof. vm_compute. split; reflexivity. Qed.
Lemma kex_shape : kshape 4 kex_t.
Proof. apply kshapeb_sound. reflexivity. Qed.
Lemma kex_marks x : kmarks_kids x [] kex_t.
Proof. cbn. repeat split; discriminate. Qed.

Lemma kex_c03 :
  (forall x, length x = 1%nat -> osound (kx_oracle 1) x) /\ kshape 4 kex_t /\ (forall x, kmarks_kids x [] kex_t) /\
  ktree_eqb (fst (kelim (kx_oracle 1) 0 4 kex_t)) kex_r = true /\
  (forall x, length x = 1%nat ->
     kev (fst (kelim (kx_oracle 1) 0 4 kex_t)) x = kev kex_t x /\
     kterm (fst (kelim (kx_oracle 1) 0 4 kex_t)) x = kterm kex_t x).
Proof.
  split; [intros x Hx; apply kx_oracle_sound; exact Hx|].
  split; [apply kex_shape|]. split; [apply kex_marks|]. split; [apply kex_run|].
  intros x Hx. split; [apply kelim_kev | apply kelim_kterm]; auto using kx_oracle_sound, kex_shape, kex_marks.
Qed.

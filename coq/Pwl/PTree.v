(* Pwl/PTree.v -- piece-wise linear trees as an inductive type (U = missing child), evaluation,
   the generic lifting schema (generic_composition_inplace without pruning), composition, apply_func. *)
From AT Require Import Num Vec Aff.

Inductive ptree := U | T (f : aff) | D (p : aff) (ch : list ptree).

Fixpoint ptree_ind' (P : ptree -> Prop) (HU : P U) (HT : forall f, P (T f))
    (HD : forall p ch, Forall P ch -> P (D p ch)) (t : ptree) : P t :=
  match t with
  | U => HU | T f => HT f
  | D p ch => HD p ch ((fix go (l : list ptree) : Forall P l :=
                 match l with [] => Forall_nil _ | c :: l' => Forall_cons _ (ptree_ind' P HU HT HD c) (go l') end) ch)
  end.

(* decision label: sum_i 2^i * [row_i . x <= b_i]   (AffTree::evaluate_decision / index_from_label) *)
Fixpoint label_of (bits : list bool) : nat :=
  match bits with [] => 0 | b :: bs => (if b then 1 else 0) + 2 * label_of bs end.
Fixpoint bits (A : mat) (b : vec) (x : vec) : list bool :=
  match A, b with r :: A', b0 :: b' => qleb (dot r x) b0 :: bits A' b' x | _, _ => [] end.
Definition decide (p : aff) (x : vec) : nat := label_of (bits (a_mat p) (a_bias p) x).

Definition obind {A B} (o : option A) (f : A -> option B) : option B :=
  match o with Some a => f a | None => None end.

(* the terminal function reached by x (find_terminal), and evaluation *)
Fixpoint term (t : ptree) (x : vec) : option aff :=
  match t with
  | U => None
  | T f => Some f
  | D p ch => nth (decide p x) (map (fun c => term c x) ch) None
  end.
Fixpoint eval (t : ptree) (x : vec) : option vec :=
  match t with
  | U => None
  | T f => Some (apply f x)
  | D p ch => nth (decide p x) (map (fun c => eval c x) ch) None
  end.
(* label sequence taken by x (second component of find_terminal) *)
Fixpoint route (t : ptree) (x : vec) : option (list nat) :=
  match t with
  | U => None
  | T f => Some []
  | D p ch => option_map (cons (decide p x)) (nth (decide p x) (map (fun c => route c x) ch) None)
  end.

Lemma nth_map_gen {A B} (f : A -> B) (l : list A) k (d : B) (P : B -> B -> Prop) (g : A -> B) :
  P d d -> Forall (fun a => P (f a) (g a)) l -> P (nth k (map f l) d) (nth k (map g l) d).
Proof.
  intros Hd H. revert k; induction l as [|a l IH]; intros [|k]; simpl; auto.
  - apply Forall_cons_iff in H as [H _]; auto.
  - apply Forall_cons_iff in H as [_ H]; auto.
Qed.

Lemma eval_term t x : eval t x = option_map (fun f => apply f x) (term t x).
Proof.
  induction t as [| f | p ch IH] using ptree_ind'; simpl; auto.
  generalize (decide p x). intros k. revert k. induction ch as [|c ch IHch]; intros [|k]; simpl; auto.
  - apply Forall_cons_iff in IH as [H _]; auto.
  - apply Forall_cons_iff in IH as [_ H]; auto.
Qed.

(* ---- generic lifting schema ---- *)
Record schema := { s_dec : aff -> aff -> aff; s_term : aff -> aff -> aff }.
(* first argument: node of the right operand ("original"), second: terminal of the left operand ("context") *)

Fixpoint graft (s : schema) (g : ptree) (t : aff) : ptree :=
  match g with
  | U => U
  | T f => T (s_term s f t)
  | D p ch => D (s_dec s p t) (map (fun c => graft s c t) ch)
  end.
Fixpoint lift (s : schema) (f g : ptree) : ptree :=
  match f with
  | U => U
  | T t => graft s g t
  | D p ch => D p (map (fun c => lift s c g) ch)
  end.

Lemma term_lift s f g x : term (lift s f g) x = obind (term f x) (fun t => term (graft s g t) x).
Proof.
  induction f as [| t | p ch IH] using ptree_ind'; simpl; auto.
  rewrite map_map. generalize (decide p x). intros k. revert k.
  induction ch as [|c ch IHch]; intros [|k]; simpl; auto.
  - apply Forall_cons_iff in IH as [H _]; auto.
  - apply Forall_cons_iff in IH as [_ H]; auto.
Qed.

(* ---- composition ---- *)
Definition upd_dec (p t : aff) : aff :=
  {| a_in := a_in t; a_mat := matmul (a_in t) (a_mat p) (a_mat t);
     a_bias := vadd (vopp (matvec (a_mat p) (a_bias t))) (a_bias p) |}.
Definition comp_schema : schema := {| s_dec := upd_dec; s_term := acompose |}.
Definition compose (f g : ptree) : ptree := lift comp_schema f g.
Fixpoint apply_func (a : aff) (t : ptree) : ptree :=
  match t with
  | U => U
  | T f => T (acompose a f)
  | D p ch => D p (map (apply_func a) ch)
  end.

(* well-formedness: every node function is a well-shaped map on R^n *)
Inductive wf (n : nat) : ptree -> Prop :=
| wf_U : wf n U
| wf_T f : wf_aff f -> a_in f = n -> wf n (T f)
| wf_D p ch : wf_aff p -> a_in p = n -> Forall (wf n) ch -> wf n (D p ch).
(* every terminal has output dimension m *)
Inductive outs (m : nat) : ptree -> Prop :=
| o_U : outs m U
| o_T f : outdim f = m -> outs m (T f)
| o_D p ch : Forall (outs m) ch -> outs m (D p ch).

Fixpoint wfb (n : nat) (t : ptree) : bool :=
  match t with
  | U => true
  | T f => wf_affb f && Nat.eqb (a_in f) n
  | D p ch => wf_affb p && Nat.eqb (a_in p) n && forallb (wfb n) ch
  end.
Fixpoint outsb (m : nat) (t : ptree) : bool :=
  match t with
  | U => true
  | T f => Nat.eqb (outdim f) m
  | D p ch => forallb (outsb m) ch
  end.
Lemma wfb_spec n t : wfb n t = true <-> wf n t.
Proof.
  induction t as [| f | p ch IH] using ptree_ind'; simpl.
  - split; auto. constructor.
  - rewrite andb_true_iff, wf_affb_spec, Nat.eqb_eq. split; [intros [H1 H2]; constructor; auto | intros H; inversion H; auto].
  - rewrite !andb_true_iff, wf_affb_spec, Nat.eqb_eq, forallb_forall. split.
    + intros [[H1 H2] H3]. constructor; auto. apply Forall_forall. intros c Hc. rewrite Forall_forall in IH. apply IH; auto.
    + intros H. inversion H as [| | p' ch' Hp Hin Hch]; subst. split; [split; auto|]. intros c Hc.
      rewrite Forall_forall in IH, Hch. apply IH; auto.
Qed.
Lemma outsb_spec m t : outsb m t = true <-> outs m t.
Proof.
  induction t as [| f | p ch IH] using ptree_ind'; simpl.
  - split; auto. constructor.
  - rewrite Nat.eqb_eq. split; [intros; constructor; auto | intros H; inversion H; auto].
  - rewrite forallb_forall. split.
    + intros H3. constructor. apply Forall_forall. intros c Hc. rewrite Forall_forall in IH. apply IH; auto.
    + intros H. inversion H as [| | p' ch' Hch]; subst. intros c Hc.
      rewrite Forall_forall in IH, Hch. apply IH; auto.
Qed.

Lemma bits_upd A b M c n x : cols n M -> length M = length c ->
  bits (matmul n A M) (vadd (vopp (matvec A c)) b) x = bits A b (vadd (matvec M x) c).
Proof.
  intros HM Hl. revert b; induction A as [|r A IH]; intros [|b0 b]; simpl; auto.
  unfold vadd in *. simpl. rewrite IH. f_equal.
  rewrite dot_vecmat by auto.
  change (vzip Qcplus (matvec M x) c) with (vadd (matvec M x) c).
  rewrite dot_vadd_r by (rewrite length_matvec; auto).
  destruct (qleb (dot r (matvec M x)) (- dot r c + b0)) eqn:E1; destruct (qleb (dot r (matvec M x) + dot r c) b0) eqn:E2; auto.
  - apply qleb_spec in E1. apply qleb_false in E2. exfalso. qlra.
  - apply qleb_spec in E2. apply qleb_false in E1. exfalso. qlra.
Qed.

Lemma decide_upd p t x : wf_aff t -> decide (upd_dec p t) x = decide p (apply t x).
Proof.
  intros [Ht1 Ht2]. unfold decide, upd_dec, apply; simpl. f_equal. apply bits_upd; auto.
Qed.

Lemma term_graft_comp g t x : wf_aff t ->
  term (graft comp_schema g t) x = option_map (fun f => acompose f t) (term g (apply t x)).
Proof.
  intros Ht. induction g as [| f | p ch IH] using ptree_ind'; simpl; auto.
  rewrite decide_upd by auto. rewrite map_map.
  generalize (decide p (apply t x)). intros k. revert k.
  induction ch as [|c ch IHch]; intros [|k]; simpl; auto.
  - apply Forall_cons_iff in IH as [H _]; auto.
  - apply Forall_cons_iff in IH as [_ H]; auto.
Qed.

Lemma term_wf n t x f : wf n t -> term t x = Some f -> wf_aff f /\ a_in f = n.
Proof.
  induction t as [| g | p ch IH] using ptree_ind'; simpl; intros Hw H; try discriminate.
  - inversion H; subst. inversion Hw; auto.
  - inversion Hw as [| | p' ch' Hp Hin Hch]; subst. revert H. generalize (decide p x). intros k. revert k.
    induction ch as [|c ch IHch]; intros [|k] H; simpl in *; try discriminate.
    + apply Forall_cons_iff in IH as [H0 _]. apply Forall_cons_iff in Hch as [Hc _]. auto.
    + apply Forall_cons_iff in IH as [_ H1]. apply Forall_cons_iff in Hch as [_ Hch']. eapply IHch; eauto.
      constructor; auto.
Qed.
Lemma term_outs m t x f : outs m t -> term t x = Some f -> outdim f = m.
Proof.
  induction t as [| g | p ch IH] using ptree_ind'; simpl; intros Hw H; try discriminate.
  - inversion H; subst. inversion Hw; auto.
  - inversion Hw as [| | p' ch' Hch]; subst. revert H. generalize (decide p x). intros k. revert k.
    induction ch as [|c ch IHch]; intros [|k] H; simpl in *; try discriminate.
    + apply Forall_cons_iff in IH as [H0 _]. apply Forall_cons_iff in Hch as [Hc _]. auto.
    + apply Forall_cons_iff in IH as [_ H1]. apply Forall_cons_iff in Hch as [_ Hch']. eapply IHch; eauto.
      constructor; auto.
Qed.

(* C02: the composition law, for every branching factor, partial operands and boundary inputs *)
Theorem compose_eval n m f g x :
  wf n f -> outs m f -> wf m g ->
  eval (compose f g) x = obind (eval f x) (eval g).
Proof.
  intros Hf Ho Hg. unfold compose. rewrite !eval_term, term_lift.
  destruct (term f x) as [t|] eqn:E; simpl; auto.
  destruct (term_wf _ _ _ _ Hf E) as [Ht Hin]. pose proof (term_outs _ _ _ _ Ho E) as Hout.
  rewrite term_graft_comp by auto. rewrite eval_term.
  destruct (term g (apply t x)) as [h|] eqn:E2; simpl; auto.
  destruct (term_wf _ _ _ _ Hg E2) as [Hh Hhin].
  rewrite apply_acompose; auto. congruence.
Qed.

Theorem apply_func_eval n m a t x :
  wf n t -> outs m t -> wf_aff a -> a_in a = m ->
  eval (apply_func a t) x = option_map (apply a) (eval t x).
Proof.
  intros Hw Ho Ha Hin. induction t as [| f | p ch IH] using ptree_ind'; simpl; auto.
  - inversion Hw; inversion Ho; subst. rewrite apply_acompose; auto.
  - inversion Hw as [| | p' ch' Hp Hpin Hch]; inversion Ho as [| | p'' ch'' Hoch]; subst.
    rewrite map_map. generalize (decide p x). intros k. revert k.
    induction ch as [|c ch IHch]; intros [|k]; simpl; auto.
    + apply Forall_cons_iff in IH as [H _]. apply Forall_cons_iff in Hch as [Hc _]. apply Forall_cons_iff in Hoch as [Hoc _]. auto.
    + apply Forall_cons_iff in IH as [_ H]. apply Forall_cons_iff in Hch as [_ Hch']. apply Forall_cons_iff in Hoch as [_ Hoch'].
      apply IHch; auto; constructor; auto.
Qed.

Lemma apply_func_as_compose a t : apply_func a t = compose t (T a).
Proof.
  unfold compose. induction t as [| f | p ch IH] using ptree_ind'; simpl; auto.
  f_equal. apply map_ext_Forall. exact IH.
Qed.

(* shape preservation *)
Lemma wf_upd_dec p t : wf_aff p -> wf_aff t -> a_in p = outdim t -> wf_aff (upd_dec p t).
Proof.
  intros [Hp1 Hp2] [Ht1 Ht2] Hd. unfold upd_dec, wf_aff; simpl. split.
  - apply cols_matmul; auto.
  - rewrite length_matmul, length_vadd; rewrite length_vopp, length_matvec; auto.
Qed.
Lemma wf_graft_comp g t : wf (outdim t) g -> wf_aff t -> wf (a_in t) (graft comp_schema g t).
Proof.
  intros Hg Ht. induction g as [| f | p ch IH] using ptree_ind'; simpl; try constructor.
  - inversion Hg; subst. apply wf_acompose; auto.
  - reflexivity.
  - inversion Hg; subst. apply wf_upd_dec; auto.
  - reflexivity.
  - inversion Hg as [| | p' ch' Hp Hin Hch]; subst. apply Forall_forall. intros c Hc.
    apply in_map_iff in Hc as [c' [<- Hc']]. rewrite Forall_forall in IH, Hch. apply IH; auto.
Qed.
Lemma wf_compose n m f g : wf n f -> outs m f -> wf m g -> wf n (compose f g).
Proof.
  intros Hf Ho Hg. unfold compose. induction f as [| t | p ch IH] using ptree_ind'; simpl; try constructor.
  - inversion Hf; inversion Ho; subst. apply wf_graft_comp; auto.
  - inversion Hf; auto.
  - inversion Hf; auto.
  - inversion Hf as [| | p' ch' Hp Hin Hch]; inversion Ho as [| | p'' ch'' Hoch]; subst.
    apply Forall_forall. intros c Hc. apply in_map_iff in Hc as [c' [<- Hc']].
    rewrite Forall_forall in IH, Hch, Hoch. apply IH; auto.
Qed.
Lemma outs_graft_comp k g t : outs k g -> outs k (graft comp_schema g t).
Proof.
  intros Hg. induction g as [| f | p ch IH] using ptree_ind'; simpl; try constructor.
  - inversion Hg; subst. apply outdim_acompose.
  - inversion Hg as [| | p' ch' Hch]; subst. apply Forall_forall. intros c Hc.
    apply in_map_iff in Hc as [c' [<- Hc']]. rewrite Forall_forall in IH, Hch. apply IH; auto.
Qed.
Lemma outs_compose k f g : outs k g -> outs k (compose f g).
Proof.
  intros Hg. unfold compose. induction f as [| t | p ch IH] using ptree_ind'; simpl; try constructor.
  - apply outs_graft_comp; auto.
  - apply Forall_forall. intros c Hc. apply in_map_iff in Hc as [c' [<- Hc']].
    rewrite Forall_forall in IH. apply IH; auto.
Qed.

(* sizes *)
Fixpoint size (t : ptree) : nat :=
  match t with U => 0%nat | T _ => 1%nat | D _ ch => S (fold_right (fun c acc => (size c + acc)%nat) 0%nat ch) end.
Fixpoint nterms (t : ptree) : nat :=
  match t with U => 0%nat | T _ => 1%nat | D _ ch => fold_right (fun c acc => (nterms c + acc)%nat) 0%nat ch end.

(* Pwl/CPruneWf.v -- C04/C11: generic_composition_inplace with pruning keeps a tree well-formed, for EVERY oracle:
   the last edge of a grafted decision is kept when none was kept before it, and a decision that keeps exactly one
   of two edges is replaced by that child.  Stated once for an arbitrary schema whose update functions produce
   the right shapes, then instantiated for composition (comp_schema) and the lifted operators (op_schema fo, any fo:
   + and - and, at the level of shapes, * and /). *)
From AT Require Import Num Vec Aff PTree Ops Cells Abs Cache Reduce Elim CPrune WfC.

(* what a schema has to guarantee for the terminal function tf that is being replaced: nodes of the grafted
   operand (functions on R^kk, terminals with mL rows) become nodes on R^n, terminals with m rows *)
Definition schema_ok (s : schema) (tf : aff) (kk mL n m : nat) : Prop :=
  (forall p, wf_aff p -> a_in p = kk -> outdim p = 1%nat ->
     wf_aff (s_dec s p tf) /\ a_in (s_dec s p tf) = n /\ outdim (s_dec s p tf) = 1%nat) /\
  (forall f, wf_aff f -> a_in f = kk -> outdim f = mL ->
     wf_aff (s_term s f tf) /\ a_in (s_term s f tf) = n /\ outdim (s_term s f tf) = m).

Theorem graftp_cwf o tol s tf kk mL n m : schema_ok s tf kk mL n m ->
  forall L top st i q k, pwf kk mL L ->
    cwf n m (fst (graftp o tol s tf L top st i q k)) /\
    c_exists (fst (graftp o tol s tf L top st i q k)) = pexists L.
Proof.
  intros [Hdec Hterm]. induction L as [| f | p ch IH] using ptree_ind'; intros top st i q k HL.
  - cbn [graftp fst]. split; [constructor | reflexivity].
  - cbn [graftp fst]. apply pwf_T in HL as [Hw [Hi Ho]]. destruct (Hterm f Hw Hi Ho) as [A [B C]].
    split; [constructor; auto | reflexivity].
  - destruct HL as [HLw [HLo [HLb HLs]]].
    inversion HLs as [| | p' l0 l1 He Hs0 Hs1]; subst p' ch.
    assert (HL : pwf kk mL (D p [l0; l1])) by (repeat split; auto).
    apply pwf_D in HL as [Hp [Hi [Ho [_ [P0 P1]]]]].
    apply Forall_cons_iff in IH as [IH0 IH]. apply Forall_cons_iff in IH as [IH1 _].
    destruct (Hdec p Hp Hi Ho) as [A [B C]].
    cbn [graftp].
    set (p' := s_dec s p tf) in *.
    set (R0 := if pexists l0 then _ else _). destruct R0 as [keep0 k1] eqn:E0.
    set (R1 := if pexists l1 then _ else _). destruct R1 as [keep1 k2] eqn:E1.
    (* a kept edge belongs to an existing child; at least one edge is kept *)
    assert (K0 : keep0 = true -> pexists l0 = true).
    { subst R0. destruct (pexists l0); auto. inversion E0; auto. }
    assert (K1 : keep1 = true -> pexists l1 = true).
    { subst R1. destruct (pexists l1); auto. inversion E1; auto. }
    assert (KK : keep0 || keep1 = true).
    { subst R0 R1. clear K0 K1. destruct (pexists l0) eqn:X0, (pexists l1) eqn:X1; try discriminate.
      - destruct (explore o tol top st (q ++ [row0 p']) k) as [b0 kk0]. inversion E0; subst keep0 k1.
        destruct (explore o tol top st (q ++ [row1 p']) kk0) as [b1 kk1]. inversion E1; subst keep1 k2.
        destruct b0, b1; reflexivity.
      - destruct (explore o tol top st (q ++ [row0 p']) k) as [b0 kk0]. inversion E0; subst keep0 k1.
        rewrite orb_true_r. reflexivity.
      - inversion E0; subst keep0 k1. destruct (explore o tol top st (q ++ [row1 p']) k) as [b1 kk1].
        inversion E1; subst keep1 k2. rewrite orb_true_r. reflexivity. }
    clear E0 E1 R0 R1.
    destruct (pexists l0 && pexists l1 && xorb keep0 keep1) eqn:F.
    + (* the kept child takes this node's place *)
      apply andb_true_iff in F as [F _]. apply andb_true_iff in F as [F0 F1].
      destruct keep1.
      * destruct (IH1 false Indet new_idx q k2 P1) as [W X]. split; [exact W | rewrite X; cbn [pexists]; exact F1].
      * destruct (IH0 false Indet new_idx q k2 P0) as [W X]. split; [exact W | rewrite X; cbn [pexists]; exact F0].
    + set (R1 := if keep1 then _ else _).
      assert (S1 : cwf n m (fst R1) /\ c_exists (fst R1) = keep1).
      { subst R1. destruct keep1; cbn [fst].
        - destruct (IH1 false Indet new_idx (q ++ [row1 p']) k2 P1) as [W X]. rewrite X, K1; auto.
        - split; [constructor | reflexivity]. }
      destruct R1 as [c1 k3]. cbn [fst] in S1. destruct S1 as [W1 X1].
      set (R0 := if keep0 then _ else _).
      assert (S0 : cwf n m (fst R0) /\ c_exists (fst R0) = keep0).
      { subst R0. destruct keep0; cbn [fst].
        - destruct (IH0 false Indet new_idx (q ++ [row0 p']) k3 P0) as [W X]. rewrite X, K0; auto.
        - split; [constructor | reflexivity]. }
      destruct R0 as [c0 k4]. cbn [fst] in S0. destruct S0 as [W0 X0].
      cbn [fst]. split; [ | reflexivity]. constructor; auto. rewrite X0, X1. exact KK.
Qed.

(* all terminals of the tree that is modified in place *)
Theorem cprune_cwf o tol s L kk mL n m m' :
  (forall tf, wf_aff tf -> a_in tf = n -> outdim tf = m -> schema_ok s tf kk mL n m') ->
  pwf kk mL L -> pexists L = true ->
  forall t q k, cwf n m t ->
    cwf n m' (fst (cprune o tol s L t q k)) /\ c_exists (fst (cprune o tol s L t q k)) = c_exists t.
Proof.
  intros Hs HL HeL. induction t as [|i leaf f st c0 IH0 c1 IH1]; intros q k Hw; cbn [cprune].
  - cbn [fst]. split; [constructor | reflexivity].
  - destruct leaf.
    + inversion Hw as [| i' f' st' Hf Hi Ho | ]; subst i' f' st'.
      destruct (graftp_cwf o tol s f kk mL n m' (Hs f Hf Hi Ho) L (Nat.eqb i 0) st i q k HL) as [W X].
      split; [exact W | rewrite X; exact HeL].
    + inversion Hw as [| | i' p' st' a b Hp Hi Ho He H0 H1]; subst i' p' st' a b.
      destruct (IH0 (q ++ [row0 f]) k H0) as [W0 X0].
      destruct (cprune o tol s L c0 (q ++ [row0 f]) k) as [c0' k1]. cbn [fst] in *.
      destruct (IH1 (q ++ [row1 f]) k1 H1) as [W1 X1].
      destruct (cprune o tol s L c1 (q ++ [row1 f]) k1) as [c1' k2]. cbn [fst] in *.
      split; [ | reflexivity]. constructor; auto. rewrite X0, X1. exact He.
Qed.

(* ---- composition ---- *)
Lemma comp_schema_ok tf m' : wf_aff tf -> schema_ok comp_schema tf (outdim tf) m' (a_in tf) m'.
Proof.
  intros Ht. split.
  - intros p Hp Hi Ho. cbn [comp_schema s_dec]. split; [apply wf_upd_dec; auto | split; [reflexivity|]].
    unfold outdim, upd_dec in *. cbn [a_mat]. rewrite length_matmul. exact Ho.
  - intros f Hf Hi Ho. cbn [comp_schema s_term]. split; [apply wf_acompose; auto | split; [reflexivity|]].
    rewrite outdim_acompose. exact Ho.
Qed.
Theorem compose_prune_cwft o tol n m m' t L :
  cwft n m t -> pwf m m' L -> pexists L = true -> cwft n m' (fst (compose_prune o tol t L)).
Proof.
  intros [He Hw] HL HeL. unfold compose_prune.
  destruct (cprune_cwf o tol comp_schema L m m' n m m') with (t := t) (q := @nil (vec * Qc)) (k := k0) as [W X]; auto.
  - intros tf Hf Hi Ho. subst n m. apply comp_schema_ok; auto.
  - split; [rewrite X; exact He | exact W].
Qed.

(* ---- lifted operators: any coefficient-wise operator fo ---- *)
Lemma op_schema_ok fo tf : wf_aff tf -> schema_ok (op_schema fo) tf (a_in tf) (outdim tf) (a_in tf) (outdim tf).
Proof.
  intros Ht. split.
  - intros p Hp Hi Ho. cbn [op_schema s_dec]. auto.
  - intros f Hf Hi Ho. cbn [op_schema s_term]. split; [apply wf_aop; auto; split; congruence | split; [reflexivity|]].
    unfold outdim, aop in *. cbn [a_mat]. rewrite mzip_length. lia.
Qed.
Theorem op_prune_cwft fo o tol n m t L :
  cwft n m t -> pwf n m L -> pexists L = true -> cwft n m (fst (cprune o tol (op_schema fo) L t [] k0)).
Proof.
  intros [He Hw] HL HeL.
  destruct (cprune_cwf o tol (op_schema fo) L n m n m m) with (t := t) (q := @nil (vec * Qc)) (k := k0) as [W X]; auto.
  - intros tf Hf Hi Ho. subst n m. apply op_schema_ok; auto.
  - split; [rewrite X; exact He | exact W].
Qed.

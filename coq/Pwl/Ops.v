(* Pwl/Ops.v -- tree arithmetic as lifting (impl_ops.rs): tree (+,-,*,/) tree through the generic schema,
   tree/affine mixed forms and negation as a map over terminals. *)
From AT Require Import Num Vec Aff PTree.

(* update_decision keeps the predicate of the right operand; update_terminal = context.op(original) *)
Definition op_schema (fo : Qc -> Qc -> Qc) : schema :=
  {| s_dec := fun p _ => p; s_term := fun f t => aop fo t f |}.
Definition top (fo : Qc -> Qc -> Qc) (a b : ptree) : ptree := lift (op_schema fo) a b.

Fixpoint map_terms (h : aff -> aff) (t : ptree) : ptree :=
  match t with
  | U => U
  | T f => T (h f)
  | D p ch => D p (map (map_terms h) ch)
  end.
Definition tneg (a : ptree) : ptree := map_terms aneg a.
(* tree (op) aff  and  aff (op) tree *)
Definition top_r (fo : Qc -> Qc -> Qc) (a : ptree) (g : aff) : ptree := map_terms (fun f => aop fo f g) a.
Definition top_l (fo : Qc -> Qc -> Qc) (g : aff) (a : ptree) : ptree := map_terms (fun f => aop fo g f) a.

Lemma term_graft_op fo g t x :
  term (graft (op_schema fo) g t) x = option_map (fun f => aop fo t f) (term g x).
Proof.
  induction g as [| f | p ch IH] using ptree_ind'; simpl; auto.
  rewrite map_map. generalize (decide p x). intros k. revert k.
  induction ch as [|c ch IHch]; intros [|k]; simpl; auto.
  - apply Forall_cons_iff in IH as [H _]; auto.
  - apply Forall_cons_iff in IH as [_ H]; auto.
Qed.

(* the terminal reached in a (op) b is the coefficient-wise operator applied to the terminals reached in a and b *)
Theorem term_top fo a b x :
  term (top fo a b) x =
  match term a x, term b x with
  | Some f, Some g => Some (aop fo f g)
  | _, _ => None
  end.
Proof.
  unfold top. rewrite term_lift. destruct (term a x) as [f|]; simpl; auto.
  rewrite term_graft_op. destruct (term b x); auto.
Qed.

Lemma term_map_terms h t x : term (map_terms h t) x = option_map h (term t x).
Proof.
  induction t as [| f | p ch IH] using ptree_ind'; simpl; auto.
  rewrite map_map. generalize (decide p x). intros k. revert k.
  induction ch as [|c ch IHch]; intros [|k]; simpl; auto.
  - apply Forall_cons_iff in IH as [H _]; auto.
  - apply Forall_cons_iff in IH as [_ H]; auto.
Qed.

(* evaluation corollaries *)
Theorem eval_top fo a b x :
  eval (top fo a b) x =
  match term a x, term b x with
  | Some f, Some g => Some (apply (aop fo f g) x)
  | _, _ => None
  end.
Proof. rewrite eval_term, term_top. destruct (term a x), (term b x); auto. Qed.

Definition olift2 (h : vec -> vec -> vec) (u v : option vec) : option vec :=
  match u, v with Some a, Some b => Some (h a b) | _, _ => None end.

Theorem eval_tadd n m a b x : wf n a -> wf n b -> outs m a -> outs m b -> length x = n ->
  eval (top Qcplus a b) x = olift2 vadd (eval a x) (eval b x).
Proof.
  intros Ha Hb Hoa Hob Hx. rewrite eval_top, !eval_term.
  destruct (term a x) as [f|] eqn:Ea; destruct (term b x) as [g|] eqn:Eb; simpl; auto.
  destruct (term_wf _ _ _ _ Ha Ea) as [Hf Hfi]. destruct (term_wf _ _ _ _ Hb Eb) as [Hg Hgi].
  pose proof (term_outs _ _ _ _ Hoa Ea). pose proof (term_outs _ _ _ _ Hob Eb).
  f_equal. apply apply_aadd; auto; try congruence. split; congruence.
Qed.
Theorem eval_tsub n m a b x : wf n a -> wf n b -> outs m a -> outs m b -> length x = n ->
  eval (top Qcminus a b) x = olift2 vsub (eval a x) (eval b x).
Proof.
  intros Ha Hb Hoa Hob Hx. rewrite eval_top, !eval_term.
  destruct (term a x) as [f|] eqn:Ea; destruct (term b x) as [g|] eqn:Eb; simpl; auto.
  destruct (term_wf _ _ _ _ Ha Ea) as [Hf Hfi]. destruct (term_wf _ _ _ _ Hb Eb) as [Hg Hgi].
  pose proof (term_outs _ _ _ _ Hoa Ea). pose proof (term_outs _ _ _ _ Hob Eb).
  f_equal. apply apply_asub; auto; try congruence. split; congruence.
Qed.
Theorem eval_tneg n a x : wf n a -> eval (tneg a) x = option_map vopp (eval a x).
Proof.
  intros Ha. unfold tneg. rewrite !eval_term, term_map_terms.
  destruct (term a x) as [f|] eqn:Ea; simpl; auto.
  destruct (term_wf _ _ _ _ Ha Ea) as [Hf _]. f_equal. apply apply_aneg; auto.
Qed.

Theorem eval_top_r fo a g x :
  eval (top_r fo a g) x = option_map (fun f => apply (aop fo f g) x) (term a x).
Proof. unfold top_r. rewrite eval_term, term_map_terms. destruct (term a x); auto. Qed.
Theorem eval_top_l fo g a x :
  eval (top_l fo g a) x = option_map (fun f => apply (aop fo g f) x) (term a x).
Proof. unfold top_l. rewrite eval_term, term_map_terms. destruct (term a x); auto. Qed.

Theorem eval_tadd_r n a g x : wf n a -> wf_aff g -> a_in g = n -> outs (outdim g) a -> length x = n ->
  eval (top_r Qcplus a g) x = option_map (fun v => vadd v (apply g x)) (eval a x).
Proof.
  intros Ha Hg Hgi Ho Hx. rewrite eval_top_r, eval_term. destruct (term a x) as [f|] eqn:Ea; simpl; auto.
  destruct (term_wf _ _ _ _ Ha Ea) as [Hf Hfi]. pose proof (term_outs _ _ _ _ Ho Ea).
  f_equal. apply apply_aadd; auto; try congruence. split; congruence.
Qed.
Theorem eval_tsub_r n a g x : wf n a -> wf_aff g -> a_in g = n -> outs (outdim g) a -> length x = n ->
  eval (top_r Qcminus a g) x = option_map (fun v => vsub v (apply g x)) (eval a x).
Proof.
  intros Ha Hg Hgi Ho Hx. rewrite eval_top_r, eval_term. destruct (term a x) as [f|] eqn:Ea; simpl; auto.
  destruct (term_wf _ _ _ _ Ha Ea) as [Hf Hfi]. pose proof (term_outs _ _ _ _ Ho Ea).
  f_equal. apply apply_asub; auto; try congruence. split; congruence.
Qed.
(* operand order: f - t is f(x) - t(x) *)
Theorem eval_tsub_l n a g x : wf n a -> wf_aff g -> a_in g = n -> outs (outdim g) a -> length x = n ->
  eval (top_l Qcminus g a) x = option_map (fun v => vsub (apply g x) v) (eval a x).
Proof.
  intros Ha Hg Hgi Ho Hx. rewrite eval_top_l, eval_term. destruct (term a x) as [f|] eqn:Ea; simpl; auto.
  destruct (term_wf _ _ _ _ Ha Ea) as [Hf Hfi]. pose proof (term_outs _ _ _ _ Ho Ea).
  f_equal. apply apply_asub; auto; try congruence. split; congruence.
Qed.

(* shape preservation of the lifted operators *)
Lemma wf_graft_op fo n m g t : wf n g -> outs m g -> wf_aff t -> a_in t = n -> outdim t = m ->
  wf n (graft (op_schema fo) g t) /\ outs m (graft (op_schema fo) g t).
Proof.
  intros Hg Ho Ht Hti Hto. induction g as [| f | p ch IH] using ptree_ind'; simpl.
  - split; constructor.
  - inversion Hg; inversion Ho; subst. split; constructor.
    + apply wf_aop; auto. split; congruence.
    + reflexivity.
    + unfold outdim, aop in *; simpl. rewrite mzip_length. lia.
  - inversion Hg as [| | p' ch' Hp Hin Hch]; inversion Ho as [| | p'' ch'' Hoch]; subst. split; constructor; auto.
    + apply Forall_forall. intros c Hc. apply in_map_iff in Hc as [c' [<- Hc']].
      rewrite Forall_forall in IH, Hch, Hoch. apply IH; auto.
    + apply Forall_forall. intros c Hc. apply in_map_iff in Hc as [c' [<- Hc']].
      rewrite Forall_forall in IH, Hch, Hoch. apply IH; auto.
Qed.
Lemma wf_top fo n m a b : wf n a -> outs m a -> wf n b -> outs m b ->
  wf n (top fo a b) /\ outs m (top fo a b).
Proof.
  intros Ha Hoa Hb Hob. unfold top. induction a as [| t | p ch IH] using ptree_ind'; simpl.
  - split; constructor.
  - inversion Ha; inversion Hoa; subst. apply wf_graft_op; auto.
  - inversion Ha as [| | p' ch' Hp Hin Hch]; inversion Hoa as [| | p'' ch'' Hoch]; subst. split; constructor; auto.
    + apply Forall_forall. intros c Hc. apply in_map_iff in Hc as [c' [<- Hc']].
      rewrite Forall_forall in IH, Hch, Hoch. apply IH; auto.
    + apply Forall_forall. intros c Hc. apply in_map_iff in Hc as [c' [<- Hc']].
      rewrite Forall_forall in IH, Hch, Hoch. apply IH; auto.
Qed.

(* Pwl/ACPruneOps.v -- the arena operations of Pwl/ACPrune.v spelled out cell by cell (through aget), the spine of a
   node (the cells on the way from the root, as the parent pointers give them), and: is_edge_feasible computed from
   the arena through the parent pointers = CPrune.explore on the rows of the spine followed by the new edge. *)
From AT Require Import Num Vec Aff PTree Cells Abs Cache Elim CPrune Tree TreeLemmas ArenaCompose ArenaComposeAbs ACPrune.

Lemma aget_aset_eq {V} (a : arena V) i j c : aget (aset a i c) j = if Nat.eqb i j then c else aget a j.
Proof. destruct (Nat.eqb_spec i j) as [->|H]; [apply aget_aset_same | apply aget_aset_other; auto]. Qed.

Definition leafcell (v : aff) (st : nstate) (par : option nat) : cell acont := mkcell (mkcont v st) par [None; None] true.

(* ---------------------------------------------------------------- add_child with K = 2 *)
Lemma add_child2_spec a p l v key pc : aget a key = None -> aget a p = Some pc -> nth_error (c_children pc) l = Some None ->
  exists a', add_child 2 a p l v key = Some a' /\
    aget a' key = Some (mkcell v (Some p) [None; None] true) /\
    aget a' p = Some (mkcell (c_val pc) (c_parent pc) (set_nth (c_children pc) l (Some key)) false) /\
    (forall j, j <> key -> j <> p -> aget a' j = aget a j).
Proof.
  intros Hk Hp Hl. destruct (add_child 2 a p l v key) as [a'|] eqn:E.
  - destruct (add_child_spec 2 a p l v key a' pc Hk Hp E) as [_ [H1 [H2 H3]]]. exists a'. auto.
  - unfold add_child in E. rewrite Hp, Hl in E. discriminate.
Qed.

(* ---------------------------------------------------------------- remove_child of a child without children *)
Lemma a_remove_child_spec a p l pc c cc : aget a p = Some pc -> nth_error (c_children pc) l = Some (Some c) ->
  aget a c = Some cc -> somes (c_children cc) = [] -> c <> p ->
  exists a', a_remove_child a p l = Some a' /\ aget a' c = None /\
    aget a' p = Some (mkcell (c_val pc) (c_parent pc) (set_nth (c_children pc) l None)
                             (if all_none (set_nth (c_children pc) l None) then true else c_leaf pc)) /\
    (forall j, j <> c -> j <> p -> aget a' j = aget a j).
Proof.
  intros Hp Hl Hc Hs Hcp. unfold a_remove_child, a_child. rewrite Hp, Hl, Hc. cbn [obnd].
  unfold a_remove_desc. rewrite Hc, Hs. cbn [forallb rev arad_loop app obnd]. rewrite Hc. cbn [obnd].
  rewrite aget_aset_other by exact Hcp. rewrite Hp, Hl.
  rewrite aget_aset_other by congruence. rewrite aget_aset_same.
  eexists. split; [reflexivity|]. split; [apply aget_aset_same|]. split.
  - rewrite aget_aset_other by congruence. apply aget_aset_same.
  - intros j Hjc Hjp. rewrite !aget_aset_other by congruence. reflexivity.
Qed.

(* ---------------------------------------------------------------- merge_child_with_parent *)
Lemma a_merge_spec root a p l pc c cc g gc gl : aget a p = Some pc -> count_some (c_children pc) = 1%nat -> root <> p ->
  nth_error (c_children pc) l = Some (Some c) -> aget a c = Some cc -> c_parent pc = Some g -> aget a g = Some gc ->
  find_label (c_children gc) p = Some gl -> g <> c -> g <> p -> c <> p ->
  exists a', a_merge root a p l = Some a' /\ aget a' p = None /\
    aget a' g = Some (mkcell (c_val gc) (c_parent gc) (set_nth (c_children gc) gl (Some c)) (c_leaf gc)) /\
    aget a' c = Some (mkcell (c_val cc) (Some g) (c_children cc) (c_leaf cc)) /\
    (forall j, j <> p -> j <> g -> j <> c -> aget a' j = aget a j).
Proof.
  intros Hp Hcnt Hr Hl Hc Hpar Hg Hgl Hgc Hgp Hcp. unfold a_merge. rewrite Hp, Hcnt. cbn [Nat.eqb negb].
  destruct (Nat.eqb_spec root p) as [E|_]; [contradiction|].
  unfold a_child. rewrite Hp, Hl, Hc. cbn [obnd]. unfold a_parent. rewrite Hp, Hpar, Hg, Hgl. rewrite Hg.
  rewrite aget_aset_other by exact Hgc. rewrite Hc.
  rewrite aget_aset_other by exact Hcp. rewrite aget_aset_other by exact Hgp. rewrite Hp.
  eexists. split; [reflexivity|]. split; [apply aget_aset_same|]. split; [|split].
  - rewrite aget_aset_other by congruence. rewrite aget_aset_other by congruence. apply aget_aset_same.
  - rewrite aget_aset_other by congruence. apply aget_aset_same.
  - intros j H1 H2 H3. rewrite !aget_aset_other by congruence. reflexivity.
Qed.

(* ---------------------------------------------------------------- the spine of a node *)
(* one cell on the way from the root: index, predicate, cached state, the label under which the way continues
   (true = label 1), the other child slot *)
Record zframe := mkZ { zf_idx : nat; zf_f : aff; zf_st : nstate; zf_dir : bool; zf_sib : option nat }.
Definition zkids (dir : bool) (h : nat) (sib : option nat) : list (option nat) := if dir then [sib; Some h] else [Some h; sib].
Definition zlab (dir : bool) : nat := if dir then 1%nat else 0%nat.
(* head = the parent of the node, last = the root *)
Definition zpar (z : list zframe) : option nat := match z with [] => None | fr :: _ => Some (zf_idx fr) end.
Fixpoint zrep (a : arena acont) (z : list zframe) (h : nat) : Prop :=
  match z with
  | [] => True
  | fr :: z' =>
      aget a (zf_idx fr) = Some (mkcell (mkcont (zf_f fr) (zf_st fr)) (zpar z') (zkids (zf_dir fr) h (zf_sib fr)) false) /\
      zf_sib fr <> Some h /\ zrep a z' (zf_idx fr)
  end.
Definition zrow (fr : zframe) : vec * Qc := if zf_dir fr then row1 (zf_f fr) else row0 (zf_f fr).
Fixpoint zrows (z : list zframe) : rows := match z with [] => [] | fr :: z' => zrows z' ++ [zrow fr] end.
Fixpoint zpath (z : list zframe) : list (nat * nat) :=
  match z with [] => [] | fr :: z' => zpath z' ++ [(zf_idx fr, zlab (zf_dir fr))] end.

Lemma find_label_zkids dir h sib : sib <> Some h -> find_label (zkids dir h sib) h = Some (zlab dir).
Proof.
  intros Hs. destruct dir; cbn [zkids zlab find_label].
  - destruct sib as [j|].
    + destruct (Nat.eqb_spec j h) as [->|_]; [congruence|]. rewrite Nat.eqb_refl. reflexivity.
    + rewrite Nat.eqb_refl. reflexivity.
  - rewrite Nat.eqb_refl. reflexivity.
Qed.

(* only the cells of the spine are read *)
Lemma zrep_stable a a' : forall z h, zrep a z h -> (forall fr, In fr z -> aget a' (zf_idx fr) = aget a (zf_idx fr)) -> zrep a' z h.
Proof.
  induction z as [|fr z IH]; intros h H Hs; cbn [zrep] in *; auto.
  destruct H as [H1 [H2 H3]]. split; [rewrite Hs by (left; reflexivity); exact H1|]. split; [exact H2|].
  apply IH; auto. intros fr' Hin. apply Hs. right; exact Hin.
Qed.
(* the cells of the spine are decisions *)
Lemma zrep_frames a : forall z h fr, zrep a z h -> In fr z -> exists c, aget a (zf_idx fr) = Some c /\ c_leaf c = false.
Proof.
  induction z as [|fr0 z IH]; intros h fr H Hin; [contradiction|]. cbn [zrep] in H. destruct H as [H1 [_ H3]].
  destruct Hin as [<-|Hin]; [eexists; split; [exact H1 | reflexivity] | eapply IH; eauto].
Qed.
(* the node hangs where the spine says: another node can take its place *)
Lemma zrep_rehang a a' z h h' : zrep a z h ->
  match z with
  | [] => True
  | fr :: z' => aget a' (zf_idx fr) = Some (mkcell (mkcont (zf_f fr) (zf_st fr)) (zpar z') (zkids (zf_dir fr) h' (zf_sib fr)) false) /\
                zf_sib fr <> Some h' /\ (forall fr', In fr' z' -> aget a' (zf_idx fr') = aget a (zf_idx fr'))
  end -> zrep a' z h'.
Proof.
  destruct z as [|fr z']; cbn [zrep]; auto. intros [_ [_ H3]] [G1 [G2 G3]]. split; [exact G1|]. split; [exact G2|].
  eapply zrep_stable; eauto.
Qed.

(* ---------------------------------------------------------------- path_to_node walks the spine *)
Lemma path_up_spine a : forall z h c acc pf, zrep a z h -> aget a h = Some c -> c_parent c = zpar z -> (length z < pf)%nat ->
  path_up pf a h acc = Some (zpath z ++ acc).
Proof.
  induction z as [|fr z IH]; intros h c acc pf Hz Hc Hp Hlt; (destruct pf as [|pf]; [cbn [length] in Hlt; lia|]).
  - cbn [path_up zpath app]. unfold a_parent. rewrite Hc, Hp. reflexivity.
  - cbn [zrep] in Hz. destruct Hz as [H1 [H2 H3]]. cbn [path_up]. unfold a_parent. rewrite Hc, Hp. cbn [zpar].
    rewrite H1. cbn [c_children]. rewrite (find_label_zkids _ _ _ H2).
    rewrite (IH (zf_idx fr) _ ((zf_idx fr, zlab (zf_dir fr)) :: acc) pf H3 H1 eq_refl) by (cbn [length] in Hlt; lia).
    cbn [zpath]. rewrite <- app_assoc. reflexivity.
Qed.
Lemma path_to_node_spine a z h c pf : zrep a z h -> aget a h = Some c -> c_parent c = zpar z -> (length z < pf)%nat ->
  path_to_node pf a h = Some (zpath z).
Proof.
  intros Hz Hc Hp Hlt. unfold path_to_node, acontains. rewrite Hc.
  rewrite (path_up_spine a z h c [] pf Hz Hc Hp Hlt). rewrite app_nil_r. reflexivity.
Qed.

Lemma opt_all_app {A} (l1 l2 : list (option A)) r1 r2 : opt_all l1 = Some r1 -> opt_all l2 = Some r2 -> opt_all (l1 ++ l2) = Some (r1 ++ r2).
Proof.
  revert r1. induction l1 as [|[x|] l1 IH]; intros r1 H1 H2; cbn [opt_all app] in *; try discriminate.
  - inversion H1; subst. exact H2.
  - destruct (opt_all l1) as [r|]; [|discriminate]. inversion H1; subst. rewrite (IH r eq_refl H2). reflexivity.
Qed.
Lemma path_rows_app a p1 p2 r1 r2 : path_rows a p1 = Some r1 -> path_rows a p2 = Some r2 -> path_rows a (p1 ++ p2) = Some (r1 ++ r2).
Proof. unfold path_rows. intros H1 H2. rewrite map_app. apply opt_all_app; auto. Qed.

Lemma edge_row_dec a i v st par chs dir : aget a i = Some (mkcell (mkcont v st) par chs false) ->
  edge_row a (i, zlab dir) = Some (if dir then row1 v else row0 v).
Proof. intros H. unfold edge_row. cbn [fst snd]. rewrite H. cbn [c_leaf c_val ac_aff]. destruct dir; reflexivity. Qed.

Lemma path_rows_spine a : forall z h, zrep a z h -> path_rows a (zpath z) = Some (zrows z).
Proof.
  induction z as [|fr z IH]; intros h Hz; [reflexivity|]. cbn [zrep] in Hz. destruct Hz as [H1 [_ H3]].
  cbn [zpath zrows]. apply path_rows_app; [eapply IH; eauto|].
  unfold path_rows. cbn [map opt_all]. rewrite (edge_row_dec _ _ _ _ _ _ _ H1). reflexivity.
Qed.

(* ---------------------------------------------------------------- is_edge_feasible = explore *)
Theorem is_edge_feasible_explore o tol pf a z p node v st chs dir nv nchs nlf k :
  zrep a z p -> (length z < pf)%nat ->
  aget a p = Some (mkcell (mkcont v st) (zpar z) chs false) ->
  aget a node = Some (mkcell (mkcont nv Indet) (Some p) nchs nlf) ->
  find_label chs node = Some (zlab dir) ->
  is_edge_feasible o tol pf a p node k =
  Some (explore o tol (Nat.eqb p 0) st (zrows z ++ [if dir then row1 v else row0 v]) k).
Proof.
  intros Hz Hlt Hp Hn Hl. unfold is_edge_feasible, explore. destruct (Nat.eqb p 0); [reflexivity|].
  rewrite Hn. cbn [c_val ac_state mkcont].
  rewrite (path_to_node_spine a z p _ pf Hz Hp eq_refl Hlt). cbn [obnd].
  unfold a_parent. rewrite Hn. cbn [c_parent]. rewrite Hp. cbn [c_children]. rewrite Hl.
  rewrite (path_rows_app a (zpath z) [(p, zlab dir)] (zrows z) [if dir then row1 v else row0 v]).
  - cbn [obnd c_val ac_state mkcont]. unfold lp_edge. destruct st as [| | |ws]; try reflexivity.
    destruct (existsb (contains_tol tol (zrows z ++ [if dir then row1 v else row0 v])) ws); reflexivity.
  - eapply path_rows_spine; eauto.
  - unfold path_rows. cbn [map opt_all]. rewrite (edge_row_dec _ _ _ _ _ _ _ Hp). reflexivity.
Qed.

(* Pwl/ElimEval.v -- infeasible_elimination (Elim.elim) never changes the represented partial function.

   For a fixed input x the only assumptions are the ones the property grants:
     [osound o x]      the LP oracle never answers Infeasible for a query polytope that contains x
     [marks_kids x..]  no node below the root that carries a cached Infeasible mark has x in its closed path polytope
   Nothing is assumed about Error / Unbounded / Optimal answers nor about the mirror oracle (so the theorem covers
   every fault plan of C11), and the two assumptions are per input: for an oracle that is sound only up to
   thinness, the conclusion holds for every x outside the (thin) polytopes it declared infeasible. *)
From AT Require Import Num Vec Aff PTree Cells Abs Cache Elim.

Definition osound (o : oracle) (x : vec) : Prop := forall k q, o_lp o k q = LInf -> ~ in_rows q x.

Fixpoint marks_ok (x : vec) (q : rows) (t : ctree) : Prop :=
  match t with
  | CU => True
  | CN _ _ p st c0 c1 =>
      (st = Infeas -> ~ in_rows q x) /\ marks_ok x (q ++ [row0 p]) c0 /\ marks_ok x (q ++ [row1 p]) c1
  end.
Definition marks_kids (x : vec) (q : rows) (t : ctree) : Prop :=
  match t with
  | CU => True
  | CN _ _ p _ c0 c1 => marks_ok x (q ++ [row0 p]) c0 /\ marks_ok x (q ++ [row1 p]) c1
  end.

(* ---------- small facts ---------- *)
Lemma is_infeas_eq s : is_infeas s = true <-> s = Infeas.
Proof. destruct s; simpl; split; intros H; try discriminate; auto. Qed.
Lemma feas_not_infeas s : is_feas s = true -> is_infeas s = false.
Proof. destruct s; simpl; auto; discriminate. Qed.

Lemma in_rows_app q r x : in_rows (q ++ [r]) x <-> in_rows q x /\ dot (fst r) x <= snd r.
Proof.
  unfold in_rows. rewrite Forall_app. split; intros [H1 H2]; split; auto.
  apply Forall_cons_iff in H2 as [H2 _]. exact H2.
Qed.
(* routing: the branch taken by x lies in the closed half-space added to the path *)
Lemma route1 p x q : in_rows q x -> qleb (dot (fst (prow p)) x) (snd (prow p)) = true -> in_rows (q ++ [row1 p]) x.
Proof. intros Hq Hb. apply in_rows_app. split; auto. apply qleb_spec in Hb. exact Hb. Qed.
Lemma route0 p x q : in_rows q x -> qleb (dot (fst (prow p)) x) (snd (prow p)) = false -> in_rows (q ++ [row0 p]) x.
Proof.
  intros Hq Hb. apply in_rows_app. split; auto. apply qleb_false in Hb.
  unfold row0; cbn [fst snd]. rewrite dot_vopp. qlra.
Qed.

Lemma cev_set_st s t x : cev (set_st s t) x = cev t x.
Proof. destruct t; reflexivity. Qed.
Lemma c_exists_set_st s t : c_exists (set_st s t) = c_exists t.
Proof. destruct t; reflexivity. Qed.
Lemma c_state_set_st s t : c_exists t = true -> c_state (set_st s t) = s.
Proof. destruct t; simpl; auto; discriminate. Qed.

(* ---------- where Infeasible verdicts come from ---------- *)
Lemma phase_two_infeas o tol q k s k' :
  phase_two o tol q k = (s, k') -> is_infeas s = true -> exists j, o_lp o j q = LInf.
Proof.
  unfold phase_two. intros H Hs. destruct (o_lp o (k_lp k) q) eqn:E.
  - exists (k_lp k); exact E.
  - inversion H; subst; discriminate.
  - destruct (contains_tol tol q w).
    + inversion H; subst; discriminate.
    + destruct (o_mir o (k_mir k) q [w]) as [[|pt l]|]; try (inversion H; subst; discriminate).
      destruct (contains_tol tol q pt); inversion H; subst; discriminate.
  - inversion H; subst; discriminate.
Qed.
Lemma classify_infeas o tol stP q h k s k' :
  classify o tol stP q h k = (s, k') -> is_infeas s = true -> exists j, o_lp o j q = LInf.
Proof.
  unfold classify. intros H Hs. destruct stP as [| | |ws]; try (eapply phase_two_infeas; eauto; fail).
  destruct (filter (fun w => contains_tol tol [h] w) ws).
  - destruct (o_mir o (k_mir k) q ws).
    + inversion H; subst; discriminate.
    + eapply phase_two_infeas; eauto.
  - inversion H; subst; discriminate.
Qed.
Lemma visit_infeas o tol stP q h c k s k' fr sk x :
  visit o tol stP q h c k = (s, k', fr, sk) -> osound o x -> (c_state c = Infeas -> ~ in_rows q x) ->
  is_infeas s = true -> ~ in_rows q x.
Proof.
  unfold visit. intros H Ho Hm Hs. destruct (c_state c) eqn:Ec.
  - destruct (classify o tol stP q h k) as [s' k''] eqn:Ecl. inversion H; subst.
    destruct (classify_infeas _ _ _ _ _ _ _ _ Ecl Hs) as [j Hj]. exact (Ho _ _ Hj).
  - auto.
  - inversion H; subst; discriminate.
  - inversion H; subst; discriminate.
Qed.
Lemma visit_skip o tol stP q h c k s k' fr sk :
  visit o tol stP q h c k = (s, k', fr, sk) -> sk = is_infeas s.
Proof.
  unfold visit. intros H. destruct (c_state c).
  - destruct (classify o tol stP q h k). inversion H; subst; reflexivity.
  - inversion H; subst; reflexivity.
  - inversion H; subst; reflexivity.
  - inversion H; subst; reflexivity.
Qed.

(* ---------- shape of the result: a stored node stays a stored node; its state is st or a feasible one ---------- *)
Lemma elim_sub_exists o tol : forall t isroot q st k,
  c_exists t = true -> c_exists (fst (elim_sub o tol isroot q st t k)) = true.
Proof.
  induction t as [|i leaf p s0 c0 IH0 c1 IH1]; intros isroot q st k He; [discriminate|].
  cbn [elim_sub]. destruct leaf; [reflexivity|].
  destruct (match c0 with
            | CU => (CU, k, false)
            | CN _ _ _ _ _ _ =>
                let '(s0', k1, fr0, skip0) := visit o tol st (q ++ [row0 p]) (row0 p) c0 k in
                if skip0 then (set_st s0' c0, k1, fr0)
                else let '(r0, k2) := elim_sub o tol false (q ++ [row0 p]) s0' c0 k1 in (r0, k2, fr0)
            end) as [[sub0 k2] fresh0] eqn:E0.
  destruct c1 as [|i1 l1 p1 s1' c10 c11]; [reflexivity|].
  destruct (visit o tol st (q ++ [row1 p]) (row1 p) (CN i1 l1 p1 s1' c10 c11) k2) as [[[s1 k3] fr1] skip1] eqn:Ev1.
  destruct (fr1 && c_exists sub0 && (is_feas (c_state sub0) && is_infeas s1 || is_infeas (c_state sub0) && is_feas s1)) eqn:Ef.
  - destruct (is_feas s1).
    + destruct (elim_sub o tol false (q ++ [row1 p]) s1 (CN i1 l1 p1 s1' c10 c11) k3) as [r1 k4] eqn:E1.
      destruct isroot; [reflexivity|]. cbn [fst].
      specialize (IH1 false (q ++ [row1 p]) s1 k3 eq_refl). rewrite E1 in IH1. exact IH1.
    + destruct isroot; [reflexivity|]. cbn [fst].
      apply andb_true_iff in Ef as [Ef _]. apply andb_true_iff in Ef as [_ Ef]. exact Ef.
  - destruct (if skip1 then (set_st s1 (CN i1 l1 p1 s1' c10 c11), k3)
              else elim_sub o tol false (q ++ [row1 p]) s1 (CN i1 l1 p1 s1' c10 c11) k3) as [sub1 k4].
    reflexivity.
Qed.

Lemma elim_sub_state o tol : forall t isroot q st k,
  c_exists t = true ->
  c_state (fst (elim_sub o tol isroot q st t k)) = st \/ is_feas (c_state (fst (elim_sub o tol isroot q st t k))) = true.
Proof.
  induction t as [|i leaf p s0 c0 IH0 c1 IH1]; intros isroot q st k He; [discriminate|].
  cbn [elim_sub]. destruct leaf; [left; reflexivity|].
  destruct (match c0 with
            | CU => (CU, k, false)
            | CN _ _ _ _ _ _ =>
                let '(s0', k1, fr0, skip0) := visit o tol st (q ++ [row0 p]) (row0 p) c0 k in
                if skip0 then (set_st s0' c0, k1, fr0)
                else let '(r0, k2) := elim_sub o tol false (q ++ [row0 p]) s0' c0 k1 in (r0, k2, fr0)
            end) as [[sub0 k2] fresh0] eqn:E0.
  destruct c1 as [|i1 l1 p1 s1' c10 c11]; [left; reflexivity|].
  destruct (visit o tol st (q ++ [row1 p]) (row1 p) (CN i1 l1 p1 s1' c10 c11) k2) as [[[s1 k3] fr1] skip1] eqn:Ev1.
  destruct (fr1 && c_exists sub0 && (is_feas (c_state sub0) && is_infeas s1 || is_infeas (c_state sub0) && is_feas s1)) eqn:Ef.
  - destruct (is_feas s1) eqn:Ef1.
    + destruct (elim_sub o tol false (q ++ [row1 p]) s1 (CN i1 l1 p1 s1' c10 c11) k3) as [r1 k4] eqn:E1.
      destruct isroot; [left; reflexivity|]. cbn [fst]. right.
      destruct (IH1 false (q ++ [row1 p]) s1 k3 eq_refl) as [H|H]; rewrite E1 in H; cbn [fst] in H.
      * rewrite H. exact Ef1.
      * exact H.
    + destruct isroot; [left; reflexivity|]. cbn [fst]. right.
      apply andb_true_iff in Ef as [_ Ef]. apply orb_true_iff in Ef as [Ef|Ef]; apply andb_true_iff in Ef as [Ea Eb].
      * exact Ea.
      * discriminate.
  - destruct (if skip1 then (set_st s1 (CN i1 l1 p1 s1' c10 c11), k3)
              else elim_sub o tol false (q ++ [row1 p]) s1 (CN i1 l1 p1 s1' c10 c11) k3) as [sub1 k4].
    left; reflexivity.
Qed.

(* ---------- the main invariant ---------- *)
Theorem elim_sub_cev o tol x : osound o x ->
  forall t isroot q st k, marks_kids x q t -> in_rows q x ->
  cev (fst (elim_sub o tol isroot q st t k)) x = cev t x.
Proof.
  intros Ho. induction t as [|i leaf p s0 c0 IH0 c1 IH1]; intros isroot q st k Hm Hq; [reflexivity|].
  cbn [elim_sub]. destruct leaf; [reflexivity|].
  destruct Hm as [Hm0 Hm1].
  set (q0 := q ++ [row0 p]) in *. set (q1 := q ++ [row1 p]) in *.
  (* child 0 *)
  destruct (match c0 with
            | CU => (CU, k, false)
            | CN _ _ _ _ _ _ =>
                let '(s0', k1, fr0, skip0) := visit o tol st q0 (row0 p) c0 k in
                if skip0 then (set_st s0' c0, k1, fr0)
                else let '(r0, k2) := elim_sub o tol false q0 s0' c0 k1 in (r0, k2, fr0)
            end) as [[sub0 k2] fresh0] eqn:E0.
  assert (F0 : in_rows q0 x -> cev sub0 x = cev c0 x).
  { intros Hq0. destruct c0 as [|i0 l0 p0 s0' c00 c01]; [inversion E0; reflexivity|].
    destruct (visit o tol st q0 (row0 p) (CN i0 l0 p0 s0' c00 c01) k) as [[[s0n k1] fr0] skip0] eqn:Ev0.
    destruct skip0.
    - inversion E0; subst. reflexivity.
    - destruct (elim_sub o tol false q0 s0n (CN i0 l0 p0 s0' c00 c01) k1) as [r0 k2'] eqn:Er0.
      inversion E0; subst. specialize (IH0 false q0 s0n k1). rewrite Er0 in IH0. apply IH0; auto.
      destruct Hm0 as [_ Hm0]. exact Hm0. }
  assert (G0 : is_infeas (c_state sub0) = true -> ~ in_rows q0 x).
  { intros Hi. destruct c0 as [|i0 l0 p0 s0' c00 c01]; [inversion E0; subst; discriminate|].
    destruct (visit o tol st q0 (row0 p) (CN i0 l0 p0 s0' c00 c01) k) as [[[s0n k1] fr0] skip0] eqn:Ev0.
    assert (Hv : is_infeas s0n = true -> ~ in_rows q0 x).
    { eapply visit_infeas; eauto. destruct Hm0 as [Hm0 _]. exact Hm0. }
    pose proof (visit_skip _ _ _ _ _ _ _ _ _ _ _ Ev0) as Hsk.
    destruct skip0.
    - inversion E0; subst. apply Hv. symmetry; exact Hsk.
    - destruct (elim_sub o tol false q0 s0n (CN i0 l0 p0 s0' c00 c01) k1) as [r0 k2'] eqn:Er0.
      inversion E0; subst.
      destruct (elim_sub_state o tol (CN i0 l0 p0 s0' c00 c01) false q0 s0n k1 eq_refl) as [H|H];
        rewrite Er0 in H; cbn [fst] in H.
      + rewrite H in Hi. rewrite Hi in Hsk. discriminate.
      + rewrite (feas_not_infeas _ H) in Hi. discriminate. }
  cbn [cev].
  destruct (qleb (dot (fst (prow p)) x) (snd (prow p))) eqn:Eb.
  - (* x takes branch 1 *)
    pose proof (route1 p x q Hq Eb) as Hq1. fold q1 in Hq1.
    destruct c1 as [|i1 l1 p1 s1' c10 c11].
    { cbn [fst cev]. rewrite Eb. reflexivity. }
    destruct (visit o tol st q1 (row1 p) (CN i1 l1 p1 s1' c10 c11) k2) as [[[s1 k3] fr1] skip1] eqn:Ev1.
    assert (Hv1 : is_infeas s1 = true -> ~ in_rows q1 x).
    { eapply visit_infeas; eauto. destruct Hm1 as [Hm1 _]. exact Hm1. }
    assert (Hn1 : is_infeas s1 = false) by (destruct (is_infeas s1); auto; exfalso; apply Hv1; auto).
    pose proof (visit_skip _ _ _ _ _ _ _ _ _ _ _ Ev1) as Hsk1. rewrite Hn1 in Hsk1. subst skip1.
    assert (IH1' : forall k', cev (fst (elim_sub o tol false q1 s1 (CN i1 l1 p1 s1' c10 c11) k')) x
                              = cev (CN i1 l1 p1 s1' c10 c11) x).
    { intros k'. apply IH1; auto. destruct Hm1 as [_ Hm1]. exact Hm1. }
    destruct (fr1 && c_exists sub0 && (is_feas (c_state sub0) && is_infeas s1 || is_infeas (c_state sub0) && is_feas s1)) eqn:Ef.
    + rewrite Hn1 in Ef. rewrite andb_false_r in Ef. cbn [orb] in Ef.
      apply andb_true_iff in Ef as [_ Ef]. apply andb_true_iff in Ef as [_ Ef1]. rewrite Ef1.
      specialize (IH1' k3).
      destruct (elim_sub o tol false q1 s1 (CN i1 l1 p1 s1' c10 c11) k3) as [r1 k4].
      cbn [fst] in IH1'. destruct isroot; cbn [fst cev]; rewrite ?Eb; exact IH1'.
    + specialize (IH1' k3).
      destruct (elim_sub o tol false q1 s1 (CN i1 l1 p1 s1' c10 c11) k3) as [sub1 k4].
      cbn [fst] in IH1'. cbn [fst cev]. rewrite Eb. rewrite Hn1. rewrite andb_false_r. cbn [andb]. exact IH1'.
  - (* x takes branch 0 *)
    pose proof (route0 p x q Hq Eb) as Hq0. fold q0 in Hq0.
    specialize (F0 Hq0).
    assert (Hn0 : is_infeas (c_state sub0) = false) by (destruct (is_infeas (c_state sub0)); auto; exfalso; apply G0; auto).
    destruct c1 as [|i1 l1 p1 s1' c10 c11].
    { cbn [fst cev]. rewrite Eb. exact F0. }
    destruct (visit o tol st q1 (row1 p) (CN i1 l1 p1 s1' c10 c11) k2) as [[[s1 k3] fr1] skip1] eqn:Ev1.
    destruct (fr1 && c_exists sub0 && (is_feas (c_state sub0) && is_infeas s1 || is_infeas (c_state sub0) && is_feas s1)) eqn:Ef.
    + rewrite Hn0 in Ef. cbn [andb] in Ef. rewrite orb_false_r in Ef.
      apply andb_true_iff in Ef as [_ Ef]. apply andb_true_iff in Ef as [_ Ei1].
      rewrite (proj1 (is_infeas_eq s1) Ei1). cbn [is_feas].
      destruct isroot; cbn [fst cev]; rewrite ?Eb; exact F0.
    + destruct (if skip1 then (set_st s1 (CN i1 l1 p1 s1' c10 c11), k3)
                else elim_sub o tol false q1 s1 (CN i1 l1 p1 s1' c10 c11) k3) as [sub1 k4].
      cbn [fst cev]. rewrite Eb. rewrite Hn0. rewrite andb_false_r. cbn [andb]. exact F0.
Qed.

Theorem elim_cev o tol t x : osound o x -> marks_kids x [] t ->
  cev (fst (elim o tol t)) x = cev t x.
Proof. intros Ho Hm. unfold elim. apply elim_sub_cev; auto. constructor. Qed.

(* ---------- link to the inductive ptree view (what the runner compares with tree_equiv) ---------- *)
Fixpoint cbin (t : ctree) : Prop :=
  match t with
  | CU => True
  | CN _ leaf p _ c0 c1 => (leaf = false -> length (a_mat p) = 1%nat /\ length (a_bias p) = 1%nat) /\ cbin c0 /\ cbin c1
  end.
Lemma decide_one_row p x : length (a_mat p) = 1%nat -> length (a_bias p) = 1%nat ->
  decide p x = if qleb (dot (fst (prow p)) x) (snd (prow p)) then 1%nat else 0%nat.
Proof.
  unfold decide, prow. destruct (a_mat p) as [|r [|r' A]]; try discriminate.
  destruct (a_bias p) as [|b [|b' B]]; try discriminate. intros _ _. cbn [bits label_of hd fst snd].
  destruct (qleb (dot r x) b); reflexivity.
Qed.
Lemma cev_erase t x : cbin t -> cev t x = eval (erase t) x.
Proof.
  induction t as [|i leaf p s c0 IH0 c1 IH1]; intros Hb; [reflexivity|].
  destruct Hb as [Hp [Hb0 Hb1]]. cbn [cev erase]. destruct leaf; [reflexivity|].
  destruct (Hp eq_refl) as [H1 H2]. cbn [eval]. rewrite (decide_one_row p x H1 H2).
  destruct (qleb (dot (fst (prow p)) x) (snd (prow p))); cbn [map nth]; auto.
Qed.

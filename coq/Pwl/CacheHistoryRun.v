(* Pwl/CacheHistoryRun.v -- the cache invariant [hinv] (CacheHistory.v) is kept by every transformation of
   History.step, hence along every history (History.run): C05 for "all operation histories", and the hypothesis
   of the C03 theorems (no cached Infeasible mark on a region that contains x) for every tree a history produces. *)
From AT Require Import Num Vec Aff PTree Cells Abs Cache Elim ElimEval ElimCache CPrune CPruneEval CPruneCache Ops WfC OpsWf
  Reduce Schema ElimWf CPruneWf History CacheHistory.

Lemma marks_ok_split x q t : marks_ok x q t <-> (c_state t = Infeas -> ~ in_rows q x) /\ marks_kids x q t.
Proof. destruct t; simpl; [|tauto]. split; auto. intros _. split; auto. discriminate. Qed.

Lemma cwf_cleafok n m t : cwf n m t -> cleafok t.
Proof. intros H. apply cwf_erase in H. tauto. Qed.

(* one transformation; only elimination consults the oracles *)
Theorem step_inv tol x o op t t' :
  cleafok t -> osound o x -> mir_sound o tol -> hinv x tol t -> step tol o op t = HOk t' -> hinv x tol t'.
Proof.
  intros Hl Ho Hm [Hk [Hw Hs]] E. destruct op as [a|pr g| | |b g| |b g|b g]; cbn [step] in E.
  - destruct (terms_all _ t); [|discriminate]. inversion E; subst t'. unfold capply_func.
    split; [apply cmap_marks; auto|]. split; [apply cmap_wit; auto | apply cmap_solo; auto].
  - destruct (negb (pshapeb g && binb g)); [discriminate|].
    destruct (terms_all _ t); [|discriminate]. inversion E; subst t'. destruct pr.
    + unfold compose_prune. split; [apply cprune_marks; auto|]. split; [apply cprune_wit; auto|].
      apply (cprune_solo o tol comp_schema g t [] k0 Hs).
    + unfold ccompose. split; [apply clift_marks; auto|]. split; [apply clift_wit; auto|].
      apply (clift_solo comp_schema g t Hs).
  - inversion E; subst t'. split; [|split].
    + apply marks_ok_split. split.
      * rewrite elim_root_state. apply marks_ok_split in Hk. tauto.
      * apply elim_marks; auto. apply marks_ok_split in Hk. tauto.
    + apply elim_wit; auto.
    + apply elim_solo; auto.
  - inversion E; subst t'. destruct (creduce_inv x tol t Hs Hk Hw) as [A [B C]]. split; [exact B|]. split; [exact C|exact A].
  - destruct (negb (pshapeb g && binb g)); [discriminate|].
    destruct (terms_all _ t); [|discriminate]. inversion E; subst t'.
    split; [apply cprune_marks; auto|]. split; [apply cprune_wit; auto|].
    apply (cprune_solo o tol (op_schema (bop_fun b)) g t [] k0 Hs).
  - inversion E; subst t'. unfold cneg.
    split; [apply cmap_marks; auto|]. split; [apply cmap_wit; auto | apply cmap_solo; auto].
  - destruct (terms_all _ t); [|discriminate]. inversion E; subst t'. unfold cop_r.
    split; [apply cmap_marks; auto|]. split; [apply cmap_wit; auto | apply cmap_solo; auto].
  - destruct (terms_all _ t); [|discriminate]. inversion E; subst t'. unfold cop_l.
    split; [apply cmap_marks; auto|]. split; [apply cmap_wit; auto | apply cmap_solo; auto].
Qed.

Lemma run_cons tol init ox rest :
  run tol init (ox :: rest) =
  match step tol (fst ox) (snd ox) init with HOk t1 => run tol t1 rest | HPanic => HPanic end.
Proof.
  unfold run. cbn [fold_left]. destruct (step tol (fst ox) (snd ox) init) as [t1|]; [reflexivity|].
  induction rest as [|oy rest IH]; [reflexivity|]. cbn [fold_left]. exact IH.
Qed.

(* every history over a well-formed tree, every step with its own oracle that is sound for x *)
Theorem history_inv tol x : forall ops n m init t,
  cwft n m init -> compat_hist (n, m) ops = true ->
  (forall ox, In ox ops -> osound (fst ox) x /\ mir_sound (fst ox) tol) ->
  hinv x tol init -> run tol init ops = HOk t -> hinv x tol t.
Proof.
  induction ops as [|[o op] rest IH]; intros n m init t Hw Hc Ho Hi Er.
  - unfold run in Er. cbn [fold_left] in Er. inversion Er; subst. exact Hi.
  - rewrite run_cons in Er. cbn [fst snd] in Er. cbn [compat_hist fst snd] in Hc.
    apply andb_true_iff in Hc as [Hc Hr].
    destruct (step_ok tol o op n m init Hw Hc) as [t1 [Es Ht1]]. rewrite Es in Er.
    destruct (next_dims op (n, m)) as [n' m'] eqn:Ed. cbn [fst snd] in *.
    destruct (Ho (o, op) (or_introl eq_refl)) as [Hos Hms]. cbn [fst] in Hos, Hms.
    apply (IH n' m' t1 t Ht1 Hr).
    + intros ox Hin. apply Ho. right. exact Hin.
    + eapply step_inv; eauto. destruct Hw as [_ Hw]. eapply cwf_cleafok; eauto.
    + exact Er.
Qed.

(* from a freshly constructed tree (all states Indeterminate) *)
Corollary history_inv_fresh tol x ops n m init t :
  cwft n m init -> compat_hist (n, m) ops = true -> fresh init ->
  (forall ox, In ox ops -> osound (fst ox) x /\ mir_sound (fst ox) tol) ->
  run tol init ops = HOk t -> hinv x tol t.
Proof. intros Hw Hc Hf Ho Er. eapply history_inv; eauto. apply fresh_inv. exact Hf. Qed.

(* consequence for C03: after any history, one more elimination does not change the value at x *)
Corollary history_then_elim tol x ops n m init t o :
  cwft n m init -> compat_hist (n, m) ops = true -> fresh init ->
  (forall ox, In ox ops -> osound (fst ox) x /\ mir_sound (fst ox) tol) ->
  run tol init ops = HOk t -> osound o x ->
  cev (fst (elim o tol t)) x = cev t x.
Proof.
  intros Hw Hc Hf Ho Er Hox. destruct (history_inv_fresh tol x ops n m init t Hw Hc Hf Ho Er) as [Hk _].
  apply elim_cev; auto. apply marks_ok_split in Hk. tauto.
Qed.

(* non-vacuity: a history on the tree of ElimExample.v whose first step really prunes and forwards *)
From AT Require Import ElimEff ElimExample.
Definition hx_hist : list (oracle * op) := [(ex_o, OElim); (ex_o, OReduce); (ex_o, OApply (ex_f (1 + 1) 1)); (ex_o, OElim)].
Definition hx_res : ctree :=
  CN 0 false (ex_p 1 0) Indet
     (CN 1 true (ex_f (1 + 1 + 1 + 1) 1) Feas CU CU)
     (CN 3 true (ex_f (1 + 1) 1) Feas CU CU).
Lemma hx_example :
  cwft 1 1 ex_t /\ compat_hist (1%nat, 1%nat) hx_hist = true /\ fresh ex_t /\
  (forall x ox, In ox hx_hist -> osound (fst ox) x /\ mir_sound (fst ox) 0) /\
  run 0 ex_t hx_hist = HOk hx_res /\ (forall x, hinv x 0 hx_res).
Proof.
  assert (Hw : cwft 1 1 ex_t) by (apply cwftb_spec; vm_compute; reflexivity).
  assert (Hc : compat_hist (1%nat, 1%nat) hx_hist = true) by (vm_compute; reflexivity).
  assert (Hf : fresh ex_t) by (cbn; repeat split; reflexivity).
  assert (Ho : forall x ox, In ox hx_hist -> osound (fst ox) x /\ mir_sound (fst ox) 0).
  { intros x ox Hin. cbn [hx_hist In] in Hin.
    repeat match goal with H : _ \/ _ |- _ => destruct H as [H|H] end; try contradiction; subst ox; cbn [fst];
      (split; [apply ex_osound | apply ex_mir]). }
  assert (Er : run 0 ex_t hx_hist = HOk hx_res) by (vm_compute; reflexivity).
  split; [exact Hw|]. split; [exact Hc|]. split; [exact Hf|]. split; [exact Ho|]. split; [exact Er|].
  intros x. apply (history_inv_fresh 0 x hx_hist 1 1 ex_t hx_res Hw Hc Hf (Ho x) Er).
Qed.

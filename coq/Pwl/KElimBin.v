(* Pwl/KElimBin.v -- the K = 2 instance of Pwl/KElim.v IS Pwl/Elim.v: on the embedding of a binary ctree with one-row
   decisions, kelim_sub computes the embedding of elim_sub's result with the same oracle-call counters. *)
From AT Require Import Num Vec Aff PTree Cells Abs Cache Elim ElimEval CPrune Ops CPruneEval EdgeRegion KPrune KPruneBin KElim.

Lemma k_state_fst_kemb (r : ctree * cnt) : k_state (kemb (fst r)) = c_state (fst r).
Proof. apply k_state_kemb. Qed.

(* one step of the symbolic run of both models on a node with two child slots *)
Ltac kb_step IH0 IH1 Hb0 Hb1 :=
  first
  [ rewrite kvisit_one
  | rewrite (IH0 false _ _ _ Hb0)
  | rewrite (IH1 false _ _ _ Hb1)
  | match goal with |- context [visit ?o ?tol ?st ?q ?h ?c ?k] =>
      is_var k;
      let E := fresh "Ev" in
      destruct (visit o tol st q h c k) as [[[[| | |?] ?] [|]] ?] eqn:E; apply visit_skip in E; cbn [is_infeas] in E;
      match type of E with ?x = _ => subst x end
    end
  | match goal with |- context [elim_sub ?o ?tol false (?q ++ [row0 ?p0]) ?s (CN ?i ?l ?p ?s' ?a ?b) ?k] =>
      let H := fresh "Hx" in
      pose proof (elim_sub_exists o tol (CN i l p s' a b) false (q ++ [row0 p0]) s k eq_refl) as H;
      destruct (elim_sub o tol false (q ++ [row0 p0]) s (CN i l p s' a b) k) as [[|? ? ? [| | |?] ? ?] ?];
      cbn [fst c_exists] in H; [discriminate H|..]; clear H
    end
  | match goal with |- context [elim_sub ?o ?tol false (?q ++ [row1 ?p0]) ?s (CN ?i ?l ?p ?s' ?a ?b) ?k] =>
      let H := fresh "Hx" in
      pose proof (elim_sub_exists o tol (CN i l p s' a b) false (q ++ [row1 p0]) s k eq_refl) as H;
      destruct (elim_sub o tol false (q ++ [row1 p0]) s (CN i l p s' a b) k) as [[|? ? ? ? ? ?] ?];
      cbn [fst c_exists] in H; [discriminate H|]; clear H
    end ];
  cbn [fst snd is_infeas]; rewrite ?kset_st_kemb.

Theorem kelim_sub_binary o tol : forall t isroot q st k, cbin t ->
  kelim_sub o tol 2 isroot q st (kemb t) k =
  (kemb (fst (elim_sub o tol isroot q st t k)), snd (elim_sub o tol isroot q st t k)).
Proof.
  induction t as [|i leaf p s0 c0 IH0 c1 IH1]; intros isroot q st k Hb; [reflexivity|].
  destruct Hb as [Hp [Hb0 Hb1]].
  cbn [kemb kelim_sub elim_sub]. destruct leaf; [reflexivity|].
  destruct (one_row_label_rows p (Hp eq_refl)) as [R0 R1].
  cbn [kkids]. rewrite R0, R1. rewrite !kvisit_one. clear R0 R1 Hp.
  cbn [existsb]. rewrite !k_exists_kemb.
  destruct c0 as [|i0 l0 p0 s0' c00 c01]; destruct c1 as [|i1 l1 p1 s1' c10 c11];
    cbn [c_exists orb];
    repeat kb_step IH0 IH1 Hb0 Hb1;
    destruct isroot; reflexivity.
Qed.

Theorem kelim_binary o tol t : cbin t ->
  kelim o tol 2 (kemb t) = (kemb (fst (elim o tol t)), snd (elim o tol t)).
Proof. intros Hb. unfold kelim, elim. rewrite k_state_kemb. apply kelim_sub_binary. exact Hb. Qed.

(* Pwl/Paths.v -- routing versus path polytopes (binary trees): find_terminal's label sequence,
   closed path conditions as reported by polyhedra(), strict interiors, disjointness, totality. *)
From AT Require Import Num Vec Aff Farkas PTree Reduce.

(* subtree reached by a label sequence *)
Fixpoint follow (t : ptree) (ls : list nat) : option ptree :=
  match ls with
  | [] => Some t
  | l :: ls' => match t with D p ch => follow (nth l ch U) ls' | _ => None end
  end.
(* predicates met along a label sequence, with the label taken: the path of the node follow t ls *)
Fixpoint path_preds (t : ptree) (ls : list nat) : list (aff * nat) :=
  match ls with
  | [] => []
  | l :: ls' => match t with D p ch => (p, l) :: path_preds (nth l ch U) ls' | _ => [] end
  end.

(* the closed half-space polyhedra() reports for an edge with label l below predicate p (one row):
   label 1: a.x <= b ; label 0: -a.x <= -b *)
Definition edge_row (p : aff) (l : nat) : vec * Qc :=
  let a := hd [] (a_mat p) in let b := hd 0 (a_bias p) in
  if Nat.eqb l 1 then (a, b) else (vopp a, - b).
Definition in_closed (pl : aff * nat) (x : vec) : Prop :=
  let '(a, b) := edge_row (fst pl) (snd pl) in dot a x <= b.
Definition in_open (pl : aff * nat) (x : vec) : Prop :=
  let '(a, b) := edge_row (fst pl) (snd pl) in dot a x < b.
Definition in_closedb (pl : aff * nat) (x : vec) : bool :=
  let '(a, b) := edge_row (fst pl) (snd pl) in qleb (dot a x) b.

Lemma decide_one p x : length (a_mat p) = 1%nat -> length (a_bias p) = 1%nat ->
  decide p x = if qleb (dot (hd [] (a_mat p)) x) (hd 0 (a_bias p)) then 1%nat else 0%nat.
Proof.
  unfold decide. destruct (a_mat p) as [|r [|r' A]]; simpl; try discriminate.
  destruct (a_bias p) as [|b [|b' B]]; simpl; try discriminate. intros _ _.
  destruct (qleb (dot r x) b); reflexivity.
Qed.

Lemma nth_route ch k x : nth k (map (fun c => route c x) ch) None = route (nth k ch U) x.
Proof. revert k; induction ch as [|a ch IH]; intros [|k]; simpl; auto. Qed.
Lemma nth_term' ch k x : nth k (map (fun c => term c x) ch) None = term (nth k ch U) x.
Proof. revert k; induction ch as [|a ch IH]; intros [|k]; simpl; auto. Qed.
Lemma nth_Forall' {A} (P : A -> Prop) l k d : Forall P l -> P d -> P (nth k l d).
Proof. intros H Hd. revert k; induction H; intros [|k]; simpl; auto. Qed.

(* (a) the label sequence is the path of the terminal that is returned *)
Theorem route_follow t x ls : route t x = Some ls ->
  exists f, follow t ls = Some (T f) /\ term t x = Some f.
Proof.
  revert ls. induction t as [| f | p ch IH] using ptree_ind'; simpl; intros ls H; try discriminate.
  - inversion H; subst. exists f. auto.
  - rewrite nth_route in H. rewrite nth_term'.
    destruct (route (nth (decide p x) ch U) x) as [ls'|] eqn:E; try discriminate. inversion H; subst. simpl.
    apply (nth_Forall' (fun t => forall ls, route t x = Some ls -> exists f, follow t ls = Some (T f) /\ term t x = Some f)); auto.
    intros ls0 H0. discriminate.
Qed.
Theorem route_iff_term t x : (exists ls, route t x = Some ls) <-> (exists f, term t x = Some f).
Proof.
  induction t as [| f | p ch IH] using ptree_ind'; simpl.
  - split; intros [? ?]; discriminate.
  - split; intros _; eauto.
  - rewrite nth_route, nth_term'.
    assert (H : (exists ls, route (nth (decide p x) ch U) x = Some ls) <-> (exists f, term (nth (decide p x) ch U) x = Some f)).
    { apply (nth_Forall' (fun t => (exists ls, route t x = Some ls) <-> (exists f, term t x = Some f))); auto.
      simpl. split; intros [? ?]; discriminate. }
    rewrite <- H. split.
    + intros [ls Hl]. destruct (route _ x) as [ls'|]; try discriminate. eauto.
    + intros [ls Hl]. rewrite Hl. simpl. eauto.
Qed.

(* (b) x satisfies the closed path conditions of every node on its route *)
Theorem route_in_closed t x ls : bin t -> route t x = Some ls ->
  forall k, Forall (fun pl => in_closed pl x) (path_preds t (firstn k ls)).
Proof.
  revert ls. induction t as [| f | p ch IH] using ptree_ind'; simpl; intros ls Hb H k; try discriminate.
  - inversion H; subst. destruct k; simpl; constructor.
  - inversion Hb as [| | p' ch' H1 H2 Hch]; subst.
    rewrite nth_route in H.
    destruct (route (nth (decide p x) ch U) x) as [ls'|] eqn:E; try discriminate. inversion H; subst.
    destruct k as [|k]; simpl; constructor.
    + unfold in_closed, edge_row; simpl. rewrite decide_one by auto.
      destruct (qleb (dot (hd [] (a_mat p)) x) (hd 0 (a_bias p))) eqn:EL; simpl.
      * apply qleb_spec; auto.
      * apply qleb_false in EL. rewrite dot_vopp. qlra.
    + revert E. apply (nth_Forall' (fun t => route t x = Some ls' -> Forall (fun pl => in_closed pl x) (path_preds t (firstn k ls')))); auto.
      * rewrite Forall_forall in IH, Hch. apply Forall_forall. intros c Hc E. apply IH; auto.
      * intros E. discriminate.
Qed.

(* passes t x ls : x takes the labels ls from the root of t *)
Fixpoint passes (t : ptree) (x : vec) (ls : list nat) : Prop :=
  match ls with
  | [] => True
  | l :: ls' => match t with D p ch => decide p x = l /\ passes (nth l ch U) x ls' | _ => False end
  end.

(* (c) a point strictly inside the reported path polytope of a node is routed through that node *)
Theorem open_passes t x ls : bin t -> Forall (fun l => (l < 2)%nat) ls ->
  (exists s, follow t ls = Some s) ->
  Forall (fun pl => in_open pl x) (path_preds t ls) -> passes t x ls.
Proof.
  revert t. induction ls as [|l ls IH]; intros t Hb Hl [s Hs] H; simpl; auto.
  destruct t as [| f | p ch]; simpl in *; try discriminate.
  inversion Hb as [| | p' ch' Hm1 Hm2 Hch]; subst.
  apply Forall_cons_iff in H as [H0 H]. apply Forall_cons_iff in Hl as [Hl0 Hl].
  split.
  - unfold in_open, edge_row in H0; simpl in H0. rewrite decide_one by auto.
    destruct l as [|[|l]]; simpl in H0; try lia.
    + rewrite dot_vopp in H0. destruct (qleb _ _) eqn:EL; auto. apply qleb_spec in EL. exfalso. qlra.
    + destruct (qleb _ _) eqn:EL; auto. apply qleb_false in EL. exfalso. qlra.
  - apply IH; eauto. apply nth_Forall'; auto. constructor.
Qed.

Lemma passes_route t x ls f : passes t x ls -> follow t ls = Some (T f) -> route t x = Some ls.
Proof.
  revert t. induction ls as [|l ls IH]; intros t Hp Hf; simpl in *.
  - inversion Hf; subst. reflexivity.
  - destruct t as [| g | p ch]; try contradiction. destruct Hp as [Hd Hp]. subst l. simpl.
    rewrite nth_route. rewrite (IH _ Hp Hf). reflexivity.
Qed.

(* (d) interiors of the regions of distinct terminals are disjoint *)
Theorem interiors_disjoint t x ls1 ls2 f1 f2 : bin t ->
  Forall (fun l => (l < 2)%nat) ls1 -> Forall (fun l => (l < 2)%nat) ls2 ->
  follow t ls1 = Some (T f1) -> follow t ls2 = Some (T f2) ->
  Forall (fun pl => in_open pl x) (path_preds t ls1) ->
  Forall (fun pl => in_open pl x) (path_preds t ls2) -> ls1 = ls2.
Proof.
  intros Hb Hl1 Hl2 F1 F2 O1 O2.
  assert (P1 : passes t x ls1) by (apply open_passes; eauto).
  assert (P2 : passes t x ls2) by (apply open_passes; eauto).
  pose proof (passes_route _ _ _ _ P1 F1) as R1. pose proof (passes_route _ _ _ _ P2 F2) as R2. congruence.
Qed.

(* (e) trees without missing branches are total *)
Inductive full : ptree -> Prop :=
| full_T f : full (T f)
| full_D p ch : length ch = 2%nat -> Forall full ch -> full (D p ch).
Fixpoint fullb (t : ptree) : bool :=
  match t with U => false | T _ => true | D p ch => Nat.eqb (length ch) 2 && forallb fullb ch end.
Theorem full_total t x : bin t -> full t -> exists f, term t x = Some f.
Proof.
  induction t as [| f | p ch IH] using ptree_ind'; intros Hb Hf; inversion Hf as [|p0 ch0 Hlen HFull]; subst; simpl; eauto.
  inversion Hb as [| | p' ch' Hm1 Hm2 Hch]; subst.
  pose proof (decide_bin p x Hm1 Hm2) as Hk.
  destruct ch as [|c0 [|c1 [|c2 ch]]]; simpl in *; try discriminate.
  apply Forall_cons_iff in IH as [IH0 IH]. apply Forall_cons_iff in IH as [IH1 _].
  apply Forall_cons_iff in Hch as [B0 Hch]. apply Forall_cons_iff in Hch as [B1 _].
  apply Forall_cons_iff in HFull as [F0 HFull]. apply Forall_cons_iff in HFull as [F1 _].
  destruct (decide p x) as [|[|k]]; simpl; auto. lia.
Qed.
Theorem cover_closed t x : bin t -> full t ->
  exists ls f, follow t ls = Some (T f) /\ Forall (fun pl => in_closed pl x) (path_preds t ls).
Proof.
  intros Hb Hf. destruct (full_total t x Hb Hf) as [f Hterm].
  destruct (proj2 (route_iff_term t x) (ex_intro _ f Hterm)) as [ls Hr].
  destruct (route_follow _ _ _ Hr) as [f' [Hfo _]].
  exists ls, f'. split; auto.
  pose proof (route_in_closed t x ls Hb Hr (length ls)) as H. rewrite firstn_all in H. exact H.
Qed.

(* Pwl/KPrune.v -- generic_composition_inplace WITH pruning (pwl/impl_composition.rs:231-327, schema
   FunctionCompositionInfeasible and the pruning operator schemas of pwl/impl_ops.rs) for EVERY branching factor K.

   Pwl/CPrune.v is the binary instance (one-row predicates, two child slots).  Since the repair of D20 (/repo 96041ed)
   the path condition of an edge is computed per row of the predicate (pwl::iter::halfspaces_of_label = label_rows of
   Pwl/EdgeRegion.v), so tree (op) tree and compose::<true,_> also run for AffTree<4>.  This file is the model for any K:

   rhs (modified in place; here [t : ktree], arena-shaped with cached states and a LIST of child slots per node) gets a
   copy of lhs ([L : ptree], child U = empty slot) grafted below each of its terminals.  Per popped pair
   (lhs decision D p ch, rhs node) -- impl_composition.rs:275-327 --
     - `lhs.tree.children(parent0)` yields the EXISTING children in ascending label order (children_iter filters the
       empty slots); pos / n_edges count existing edges only
     - for each: add_child_node, then `C::explore(..) || keep_last`: is_edge_feasible is evaluated first (CPrune.explore:
       edges below arena index 0 are kept; the new child is Indeterminate; parent state Infeasible -> dropped;
       FeasibleWitness -> kept if a witness lies in the path polytope; otherwise ONE LP call, only Infeasible drops);
       the path polytope is  rows of the path to the rhs node ++ label_rows p' label  with p' = update_decision(p, tf)
     - keep_last = (created_children == 0 && pos + 1 == n_edges): the last EXISTING edge is kept when nothing was kept
       before it
     - a dropped edge: skipped_children += 1, remove_child
     - after the loop: `created_children == 1 && created_children + skipped_children == K` -> merge_child_with_parent:
       the single kept child takes the node's place (its own fresh index, state Indeterminate; the path of deeper
       edges no longer contains p').  created + skipped = number of EXISTING lhs children: a node of lhs with an empty
       slot is never forwarded -- an empty slot must stay undefined.
     - kept children were pushed in ascending order on a LIFO stack: the LAST kept child is processed first, completely
       (its own descendants are pushed on top), then the one before it, ...
   A decision of lhs is a node whose isleaf flag is clear (abs_at); a decision WITHOUT any child is outside the model as
   in CPrune.v / ArenaComposeAbs.karity (the code leaves a terminal holding the predicate, the model a childless
   decision).

   The LP solver is an oracle indexed by call number and query; the counter is threaded in the order of the code within
   one terminal of rhs; across terminals the model goes through the child slots in ascending label order, depth first
   (as CPrune.cprune; the code goes by ascending arena index -- the theorems quantify over every oracle and the replay
   oracle is keyed by the query polytope). *)
From AT Require Import Num Vec Aff PTree Cells Abs Cache Elim CPrune EdgeRegion.

Inductive ktree :=
| KU
| KN (idx : nat) (leaf : bool) (f : aff) (st : nstate) (ch : list ktree).

Fixpoint ktree_ind' (P : ktree -> Prop) (HU : P KU)
    (HN : forall i leaf f st ch, Forall P ch -> P (KN i leaf f st ch)) (t : ktree) : P t :=
  match t with
  | KU => HU
  | KN i leaf f st ch =>
      HN i leaf f st ch ((fix go (l : list ktree) : Forall P l :=
                            match l with [] => Forall_nil _ | c :: l' => Forall_cons _ (ktree_ind' P HU HN c) (go l') end) ch)
  end.

(* evaluation routes like AffTree::evaluate / PTree.eval: child slot number [decide p x] *)
Fixpoint kev (t : ktree) (x : vec) : option vec :=
  match t with
  | KU => None
  | KN _ leaf f _ ch => if leaf then Some (apply f x) else nth (decide f x) (map (fun c => kev c x) ch) None
  end.
Fixpoint kterm (t : ktree) (x : vec) : option aff :=
  match t with
  | KU => None
  | KN _ leaf f _ ch => if leaf then Some f else nth (decide f x) (map (fun c => kterm c x) ch) None
  end.
Fixpoint kerase (t : ktree) : ptree :=
  match t with
  | KU => U
  | KN _ leaf f _ ch => if leaf then T f else D f (map kerase ch)
  end.

(* from the arena: isleaf flag as stored, every child slot *)
Fixpoint kabs (fuel : nat) (a : arena acont) (i : nat) : option ktree :=
  match fuel with
  | O => None
  | S fuel' =>
      match aget a i with
      | None => None
      | Some c =>
          match opt_all (map (fun oc => match oc with None => Some KU | Some j => kabs fuel' a j end) (c_children c)) with
          | Some ch => Some (KN i (c_leaf c) (ac_aff (c_val c)) (ac_state (c_val c)) ch)
          | None => None
          end
      end
  end.

(* ---------- the loop over the existing edges of one lhs decision ---------- *)
(* ch: the child slots from label l on; created: created_children so far; result: kept? per slot *)
Fixpoint kedges (o : oracle) (tol : Qc) (top : bool) (st : nstate) (q : rows) (p' : aff)
                (ch : list ptree) (l created : nat) (k : cnt) {struct ch} : list bool * cnt :=
  match ch with
  | [] => ([], k)
  | c :: rest =>
      if pexists c then
        let '(b, k1) := explore o tol top st (q ++ label_rows p' l) k in
        (* keep_last: nothing created so far and no existing edge after this one *)
        let keep := b || (Nat.eqb created 0 && negb (existsb pexists rest)) in
        let '(ks, k2) := kedges o tol top st q p' rest (S l) (if keep then S created else created) k1 in
        (keep :: ks, k2)
      else
        let '(ks, k2) := kedges o tol top st q p' rest (S l) created k in
        (false :: ks, k2)
  end.

Definition count_true (bs : list bool) : nat := length (filter (fun b => b) bs).
Definition n_exist (ch : list ptree) : nat := length (filter pexists ch).

(* the kept children, LAST one first (LIFO stack), each completely before the next; g = what happens below one slot *)
Definition kdesc (g : ptree -> nat -> cnt -> ktree * cnt) : list ptree -> list bool -> nat -> cnt -> list ktree * cnt :=
  fix go (cs : list ptree) (ks : list bool) (l : nat) (k : cnt) {struct cs} : list ktree * cnt :=
    match cs with
    | [] => ([], k)
    | c :: cs' =>
        let '(rs, k1) := go cs' (tl ks) (S l) k in
        let '(r, k2) := if hd false ks then g c l k1 else (KU, k1) in
        (r :: rs, k2)
    end.
(* the (single) kept child *)
Definition kpick (g : ptree -> ktree * cnt) (dflt : ktree * cnt) : list ptree -> list bool -> ktree * cnt :=
  fix go (cs : list ptree) (ks : list bool) {struct cs} : ktree * cnt :=
    match cs, ks with
    | c :: cs', b :: ks' => if b then g c else go cs' ks'
    | _, _ => dflt
    end.
(* child slots in ascending order, counter threaded *)
Definition kasc (g : ktree -> nat -> cnt -> ktree * cnt) : list ktree -> nat -> cnt -> list ktree * cnt :=
  fix go (cs : list ktree) (l : nat) (k : cnt) {struct cs} : list ktree * cnt :=
    match cs with
    | [] => ([], k)
    | c :: cs' =>
        let '(r, k1) := g c l k in
        let '(rs, k2) := go cs' (S l) k1 in
        (r :: rs, k2)
    end.

(* what ends up at a position with path rows q: built from the lhs subtree L and the rhs terminal function tf;
   (top, st, i) describe the rhs node that receives the root of L: arena index 0?, cached state, arena index *)
Fixpoint kgraft (o : oracle) (tol : Qc) (s : schema) (K : nat) (tf : aff) (L : ptree) (top : bool) (st : nstate)
                (i : nat) (q : rows) (k : cnt) {struct L} : ktree * cnt :=
  match L with
  | U => (KU, k)
  | T f => (KN i true (s_term s f tf) st (repeat KU K), k)
  | D p ch =>
      let p' := s_dec s p tf in
      let '(keeps, k1) := kedges o tol top st q p' ch 0 0 k in
      if Nat.eqb (count_true keeps) 1 && Nat.eqb (n_exist ch) K then
        (* created == 1 && created + skipped == K: the kept child takes this node's place *)
        kpick (fun c => kgraft o tol s K tf c false Indet new_idx q k1) (KU, k1) ch keeps
      else
        let '(cs, k2) :=
          kdesc (fun c l k' => kgraft o tol s K tf c false Indet new_idx (q ++ label_rows p' l) k') ch keeps 0 k1 in
        (KN i false p' st cs, k2)
  end.

(* all terminals of rhs *)
Fixpoint kprune (o : oracle) (tol : Qc) (s : schema) (K : nat) (L : ptree) (t : ktree) (q : rows) (k : cnt) {struct t}
  : ktree * cnt :=
  match t with
  | KU => (KU, k)
  | KN i leaf f st ch =>
      if leaf then kgraft o tol s K f L (Nat.eqb i 0) st i q k
      else
        let '(cs, k1) := kasc (fun c l k' => kprune o tol s K L c (q ++ label_rows f l) k') ch 0 k in
        (KN i leaf f st cs, k1)
  end.

Definition kcompose_prune (o : oracle) (tol : Qc) (K : nat) (t : ktree) (L : ptree) : ktree * cnt :=
  kprune o tol comp_schema K L t [] k0.

(* comparison up to the arena indices of nodes *)
Fixpoint ktree_eqb_shape (a b : ktree) : bool :=
  match a, b with
  | KU, KU => true
  | KN _ l f s ca, KN _ m g r cb =>
      Bool.eqb l m && aff_eqb f g && st_eqb s r &&
      (fix go (xs ys : list ktree) : bool :=
         match xs, ys with
         | [], [] => true
         | x :: xs', y :: ys' => ktree_eqb_shape x y && go xs' ys'
         | _, _ => false
         end) ca cb
  | _, _ => false
  end.

(* ---------- the binary trees of Pwl/Elim.v as 2-ary ktrees ---------- *)
Fixpoint kemb (t : ctree) : ktree :=
  match t with
  | CU => KU
  | CN i leaf f st c0 c1 => KN i leaf f st [kemb c0; kemb c1]
  end.

(* Pwl/ElimExample.v -- a concrete tree, oracle and run on which every hypothesis of the pruning theorems holds
   (non-vacuity), and on which elimination really removes a path and forwards a decision. *)
From AT Require Import Num Vec Aff PTree Cells Abs Cache Elim ElimEval ElimCache ElimEff CPrune CPruneEval.

Definition ex_p (a b : Qc) : aff := {| a_in := 1; a_mat := [[a]]; a_bias := [b] |}.
Definition ex_f (a b : Qc) : aff := {| a_in := 1; a_mat := [[a]]; a_bias := [b] |}.
(* root: x <= 0 ?   label 1 -> (x >= 1 ? label 1 -> 5 | label 0 -> x)   label 0 -> 2x *)
Definition ex_t : ctree :=
  CN 0 false (ex_p 1 0) Indet
     (CN 1 true (ex_f (1 + 1) 0) Indet CU CU)
     (CN 2 false (ex_p (- (1)) (- (1))) Indet
         (CN 3 true (ex_f 1 0) Indet CU CU)
         (CN 4 true (ex_f 0 (1 + 1 + 1 + 1 + 1)) Indet CU CU)).
Definition ex_bad : rows := [([1], 0); ([- (1)], - (1))].
Definition ex_o : oracle :=
  {| o_lp := fun _ q => if rows_eqb q ex_bad then LInf else LUnb; o_mir := fun _ _ _ => None |}.

Lemma rows_eqb_eq : forall a b, rows_eqb a b = true -> a = b.
Proof.
  unfold rows_eqb. induction a as [|[r1 b1] a IH]; intros [|[r2 b2] b] H; try discriminate; auto.
  apply andb_true_iff in H as [Hl Hf]. cbn [length] in Hl. cbn [combine forallb fst snd] in Hf.
  apply andb_true_iff in Hf as [Hh Hf]. apply andb_true_iff in Hh as [Hv Hq].
  apply veqb_spec in Hv. apply qeqb_spec in Hq. subst. f_equal. apply IH.
  apply andb_true_iff. split; auto.
Qed.
Lemma ex_bad_empty x : ~ in_rows ex_bad x.
Proof.
  unfold ex_bad, in_rows. intros H. apply Forall_cons_iff in H as [H1 H]. apply Forall_cons_iff in H as [H2 _].
  cbn [fst snd] in *. destruct x as [|x0 x]; cbn [dot] in *; qlra.
Qed.
Lemma ex_osound x : osound ex_o x.
Proof.
  intros k q H. cbn [ex_o o_lp] in H. destruct (rows_eqb q ex_bad) eqn:E; [|discriminate].
  apply rows_eqb_eq in E.
  subst q. apply ex_bad_empty.
Qed.
Lemma ex_mir tol : mir_sound ex_o tol.
Proof. intros k q ws pts H. discriminate. Qed.

(* the run: the infeasible terminal 4 disappears and decision 2 is replaced by its feasible branch 3 *)
Definition ex_r : ctree :=
  CN 0 false (ex_p 1 0) Indet
     (CN 1 true (ex_f (1 + 1) 0) Feas CU CU)
     (CN 3 true (ex_f 1 0) Feas CU CU).
Lemma ex_run : elim ex_o 0 ex_t = (ex_r, {| k_lp := 4; k_mir := 0 |}).
Proof. vm_compute. reflexivity. Qed.

Lemma ex_marks x : marks_kids x [] ex_t.
Proof. cbn. repeat split; discriminate. Qed.
Lemma ex_wit tol : wit_ok tol [] ex_t.
Proof. cbn. repeat split; exact I. Qed.

Lemma ne_of (q : rows) (x : vec) : in_rowsb q x = true -> ne q.
Proof. intros H. exists x. apply in_rowsb_spec. exact H. Qed.
Lemma ex_exact : forall r, is_path [] ex_t r -> oexact_at ex_o r.
Proof.
  intros r H k. cbn [is_path ex_t app] in H.
  repeat match goal with H : _ \/ _ |- _ => destruct H as [H|H] end; try contradiction; subst r; cbn [ex_o o_lp].
  - apply (ne_of _ [0]). vm_compute. reflexivity.
  - change (rows_eqb _ ex_bad) with false. cbv iota. apply (ne_of _ [1]). vm_compute. reflexivity.
  - change (rows_eqb _ ex_bad) with false. cbv iota. apply (ne_of _ [0]). vm_compute. reflexivity.
  - change (rows_eqb _ ex_bad) with false. cbv iota. apply (ne_of _ [0]). vm_compute. reflexivity.
  - change (rows_eqb _ ex_bad) with true. cbv iota. intros [x Hx]. exact (ex_bad_empty x Hx).
Qed.
Lemma ex_okc : okc_kids 0 [] ex_t.
Proof.
  cbn. intros _. repeat split; auto; try (left; reflexivity); intros; try discriminate.
Qed.
Example ex_effective : eff_root 0 [] (fst (elim ex_o 0 ex_t)).
Proof. apply elim_eff; [apply Qcle_refl | exact ex_exact | apply ex_mir | reflexivity | exact ex_okc | exact I]. Qed.

Lemma ex_c06 :
  eff_root 0 [] (fst (elim ex_o 0 ex_t)) /\
  elim ex_o 0 ex_t = (ex_r, {| k_lp := 4; k_mir := 0 |}) /\
  elim ex_o 0 ex_r = (ex_r, k0).
Proof.
  split; [exact ex_effective|]. split; [exact ex_run|].
  pose proof (elim_idem ex_o 0 ex_o 0 ex_t ex_effective) as H. rewrite ex_run in H. exact H.
Qed.
Lemma ex_c03 :
  (forall x, osound ex_o x /\ marks_kids x [] ex_t) /\
  elim ex_o 0 ex_t = (ex_r, {| k_lp := 4; k_mir := 0 |}) /\
  (forall x, cev ex_r x = cev ex_t x).
Proof.
  split; [|split].
  - intros x. split; [apply ex_osound | apply ex_marks].
  - exact ex_run.
  - intros x. pose proof (elim_cev ex_o 0 ex_t x (ex_osound x) (ex_marks x)) as H. rewrite ex_run in H. exact H.
Qed.
Lemma ex_c05 :
  mir_sound ex_o 0 /\ wit_ok 0 [] ex_t /\ wit_ok 0 [] (fst (elim ex_o 0 ex_t)) /\
  (forall x, marks_kids x [] (fst (elim ex_o 0 ex_t))).
Proof.
  split; [apply ex_mir|]. split; [apply ex_wit|]. split.
  - apply elim_wit; [apply ex_mir | apply ex_wit].
  - intros x. apply elim_marks; [apply ex_osound | apply ex_marks].
Qed.

(* Pwl/CPruneCache.v -- pruned generic composition keeps the feasibility caches sound (C05): the nodes of rhs keep
   their states and their paths (a terminal that becomes a decision keeps its path), every new node is
   Indeterminate, and a forwarded child (new, Indeterminate) takes the place of a terminal.  No assumption on the
   oracle is needed. *)
From AT Require Import Num Vec Aff PTree Cells Abs Cache Elim ElimEval ElimCache CPrune.

Lemma graftp_wit o tol s tf : forall L top st i q k, st_wit tol q st ->
  wit_ok tol q (fst (graftp o tol s tf L top st i q k)).
Proof.
  induction L as [|f|p ch IH] using ptree_ind'; intros top st i q k Hst.
  - exact I.
  - cbn [graftp fst]. repeat split; auto.
  - destruct ch as [|l0 [|l1 [|l2 ch]]]; try exact I.
    apply Forall_cons_iff in IH as [IH0 IH]. apply Forall_cons_iff in IH as [IH1 _].
    cbn [graftp].
    destruct (if pexists l0
              then let '(b, k') := explore o tol top st (q ++ [row0 (s_dec s p tf)]) k in (b || negb (pexists l1), k')
              else (false, k)) as [keep0 k1].
    destruct (if pexists l1
              then let '(b, k') := explore o tol top st (q ++ [row1 (s_dec s p tf)]) k1 in (b || negb keep0, k')
              else (false, k1)) as [keep1 k2].
    destruct (pexists l0 && pexists l1 && xorb keep0 keep1).
    + destruct keep1; [apply IH1 | apply IH0]; exact I.
    + assert (W1 : wit_ok tol (q ++ [row1 (s_dec s p tf)])
                     (fst (if keep1 then graftp o tol s tf l1 false Indet new_idx (q ++ [row1 (s_dec s p tf)]) k2 else (CU, k2)))).
      { destruct keep1; [apply IH1; exact I | exact I]. }
      destruct (if keep1 then graftp o tol s tf l1 false Indet new_idx (q ++ [row1 (s_dec s p tf)]) k2 else (CU, k2)) as [c1 k3].
      assert (W0 : wit_ok tol (q ++ [row0 (s_dec s p tf)])
                     (fst (if keep0 then graftp o tol s tf l0 false Indet new_idx (q ++ [row0 (s_dec s p tf)]) k3 else (CU, k3)))).
      { destruct keep0; [apply IH0; exact I | exact I]. }
      destruct (if keep0 then graftp o tol s tf l0 false Indet new_idx (q ++ [row0 (s_dec s p tf)]) k3 else (CU, k3)) as [c0 k4].
      cbn [fst] in *. repeat split; auto.
Qed.

Theorem cprune_wit o tol s L : forall t q k, wit_ok tol q t -> wit_ok tol q (fst (cprune o tol s L t q k)).
Proof.
  induction t as [|i leaf f st c0 IH0 c1 IH1]; intros q k H; [exact I|].
  destruct H as [Hs [H0 H1]]. cbn [cprune]. destruct leaf.
  - apply graftp_wit; auto.
  - specialize (IH0 (q ++ [row0 f]) k H0).
    destruct (cprune o tol s L c0 (q ++ [row0 f]) k) as [c0' k1].
    specialize (IH1 (q ++ [row1 f]) k1 H1).
    destruct (cprune o tol s L c1 (q ++ [row1 f]) k1) as [c1' k2].
    cbn [fst] in *. repeat split; auto.
Qed.

Lemma graftp_marks o tol s tf x : forall L top st i q k, (st = Infeas -> ~ in_rows q x) ->
  marks_ok x q (fst (graftp o tol s tf L top st i q k)).
Proof.
  induction L as [|f|p ch IH] using ptree_ind'; intros top st i q k Hst.
  - exact I.
  - cbn [graftp fst]. repeat split; auto.
  - destruct ch as [|l0 [|l1 [|l2 ch]]]; try exact I.
    apply Forall_cons_iff in IH as [IH0 IH]. apply Forall_cons_iff in IH as [IH1 _].
    cbn [graftp].
    destruct (if pexists l0
              then let '(b, k') := explore o tol top st (q ++ [row0 (s_dec s p tf)]) k in (b || negb (pexists l1), k')
              else (false, k)) as [keep0 k1].
    destruct (if pexists l1
              then let '(b, k') := explore o tol top st (q ++ [row1 (s_dec s p tf)]) k1 in (b || negb keep0, k')
              else (false, k1)) as [keep1 k2].
    destruct (pexists l0 && pexists l1 && xorb keep0 keep1).
    + destruct keep1; [apply IH1 | apply IH0]; discriminate.
    + assert (W1 : marks_ok x (q ++ [row1 (s_dec s p tf)])
                     (fst (if keep1 then graftp o tol s tf l1 false Indet new_idx (q ++ [row1 (s_dec s p tf)]) k2 else (CU, k2)))).
      { destruct keep1; [apply IH1; discriminate | exact I]. }
      destruct (if keep1 then graftp o tol s tf l1 false Indet new_idx (q ++ [row1 (s_dec s p tf)]) k2 else (CU, k2)) as [c1 k3].
      assert (W0 : marks_ok x (q ++ [row0 (s_dec s p tf)])
                     (fst (if keep0 then graftp o tol s tf l0 false Indet new_idx (q ++ [row0 (s_dec s p tf)]) k3 else (CU, k3)))).
      { destruct keep0; [apply IH0; discriminate | exact I]. }
      destruct (if keep0 then graftp o tol s tf l0 false Indet new_idx (q ++ [row0 (s_dec s p tf)]) k3 else (CU, k3)) as [c0 k4].
      cbn [fst] in *. repeat split; auto.
Qed.

Theorem cprune_marks o tol s L x : forall t q k, marks_ok x q t -> marks_ok x q (fst (cprune o tol s L t q k)).
Proof.
  induction t as [|i leaf f st c0 IH0 c1 IH1]; intros q k H; [exact I|].
  destruct H as [Hs [H0 H1]]. cbn [cprune]. destruct leaf.
  - apply graftp_marks; auto.
  - specialize (IH0 (q ++ [row0 f]) k H0).
    destruct (cprune o tol s L c0 (q ++ [row0 f]) k) as [c0' k1].
    specialize (IH1 (q ++ [row1 f]) k1 H1).
    destruct (cprune o tol s L c1 (q ++ [row1 f]) k1) as [c1' k2].
    cbn [fst] in *. repeat split; auto.
Qed.

(* Pwl/KElimCache.v -- infeasible_elimination for ANY branching factor (KElim.kelim) keeps the feasibility caches sound
   (the K-ary form of Pwl/ElimCache.v):
   * witnesses ([kwit_ok]): every FeasibleWitness list is non-empty and each point lies in the closed path polytope of
     its node within the containment tolerance -- for every LP oracle; the mirror oracle is only assumed to return
     points that pass the containment test of the queried polytope (ElimCache.mir_sound);
   * Infeasible marks ([kmarks], per input x): no node marked Infeasible has x in its closed path polytope, provided the
     oracle's Infeasible answers exclude x and the tree is an AffTree<K> (kshape).
   Both are stated for the paths of the RESULT tree (a forwarded node has a shorter path: a witness of the longer path
   is one of the shorter; for a mark, x takes the forwarded edge whenever it reaches the removed decision). *)
From AT Require Import Num Vec Aff PTree Cells Abs Cache Elim ElimEval ElimCache EdgeRegion KPrune KPruneEval KElim KElimEval.

(* ---------- forall_lab ---------- *)
Lemma forall_lab_intro {A} (P : nat -> A -> Prop) d : forall cs l,
  (forall j, (j < length cs)%nat -> P (l + j)%nat (nth j cs d)) -> forall_lab P cs l.
Proof.
  induction cs as [|c cs IH]; intros l H; [exact I|]. split.
  - specialize (H 0%nat ltac:(cbn [length]; lia)). rewrite Nat.add_0_r in H. exact H.
  - apply IH. intros j Hj. specialize (H (S j) ltac:(cbn [length]; lia)). cbn [nth] in H.
    replace (S l + j)%nat with (l + S j)%nat by lia. exact H.
Qed.
Lemma forall_lab_impl {A} (P Q : nat -> A -> Prop) : forall cs l,
  Forall (fun c => forall l', P l' c -> Q l' c) cs -> forall_lab P cs l -> forall_lab Q cs l.
Proof.
  induction cs as [|c cs IH]; intros l HF H; [exact I|]. apply Forall_cons_iff in HF as [Hc HF].
  destruct H as [H0 H]. split; [apply Hc; exact H0 | apply IH; auto].
Qed.

(* ================= witnesses ================= *)
Fixpoint kwit_ok (tol : Qc) (q : rows) (t : ktree) {struct t} : Prop :=
  match t with
  | KU => True
  | KN _ _ p st ch => st_wit tol q st /\ forall_lab (fun l c => kwit_ok tol (q ++ label_rows p l) c) ch 0
  end.
Definition kwit_kids (tol : Qc) (q : rows) (t : ktree) : Prop :=
  match t with
  | KU => True
  | KN _ _ p _ ch => forall_lab (fun l c => kwit_ok tol (q ++ label_rows p l) c) ch 0
  end.
Lemma kwit_ok_kids tol q t : kwit_ok tol q t -> kwit_kids tol q t.
Proof. destruct t; cbn [kwit_ok kwit_kids]; tauto. Qed.
Lemma kwit_ok_state tol q t : kwit_ok tol q t -> st_wit tol q (k_state t).
Proof. destruct t; cbn [kwit_ok k_state]; [intros _; exact I | tauto]. Qed.
Lemma kwit_ok_kset_st tol q s t : st_wit tol q s -> kwit_kids tol q t -> kwit_ok tol q (kset_st s t).
Proof. destruct t; cbn [kwit_ok kwit_kids kset_st]; tauto. Qed.

Lemma incl_app_rows {A} (q q' h : list A) : (forall a, In a q' -> In a q) -> forall a, In a (q' ++ h) -> In a (q ++ h).
Proof. intros H a Ha. apply in_app_or in Ha as [Ha|Ha]; apply in_or_app; auto. Qed.
Lemma kwit_ok_incl tol : forall t q q', (forall r, In r q' -> In r q) -> kwit_ok tol q t -> kwit_ok tol q' t.
Proof.
  induction t as [|i leaf p s ch IH] using ktree_ind'; intros q q' Hi H; [exact I|].
  destruct H as [Hs Hk]. split; [eapply st_wit_incl; eauto|].
  revert Hk. generalize 0%nat. induction ch as [|c ch IHch]; intros l Hk; [exact I|].
  apply Forall_cons_iff in IH as [IHc IH]. destruct Hk as [H0 Hk]. split.
  - eapply IHc; [|exact H0]. apply incl_app_rows; exact Hi.
  - apply IHch; auto.
Qed.

(* classification only stores points that passed the containment test *)
Lemma kclassify_wit o tol stP qP h k s k' : mir_sound o tol -> st_wit tol qP stP ->
  kclassify o tol stP (qP ++ h) h k = (s, k') -> st_wit tol (qP ++ h) s.
Proof.
  unfold kclassify. intros Hm HP H. destruct stP as [| | |ws]; try (eapply phase_two_wit; eauto; fail).
  destruct (filter (fun w => contains_tol tol h w) ws) as [|w0 inh] eqn:Ef.
  - destruct (o_mir o (k_mir k) (qP ++ h) ws) as [pts|] eqn:Em.
    + inversion H; subst. exact (Hm _ _ _ _ Em).
    + eapply phase_two_wit; eauto.
  - inversion H; subst. split; [discriminate|]. destruct HP as [_ HP].
    rewrite <- Ef. apply Forall_forall. intros w Hw. apply filter_In in Hw as [Hw1 Hw2].
    rewrite contains_tol_app. rewrite Hw2. rewrite Forall_forall in HP. rewrite (HP w Hw1). reflexivity.
Qed.
Lemma kvisit_wit o tol stP qP h c k s k' fr sk : mir_sound o tol -> st_wit tol qP stP ->
  st_wit tol (qP ++ h) (k_state c) ->
  kvisit o tol stP (qP ++ h) h c k = (s, k', fr, sk) -> st_wit tol (qP ++ h) s.
Proof.
  unfold kvisit. intros Hm HP Hc H. destruct (k_state c) eqn:Ec.
  - destruct (kclassify o tol stP (qP ++ h) h k) as [s' k''] eqn:Ecl. inversion H; subst.
    eapply kclassify_wit; eauto.
  - inversion H; subst; exact I.
  - inversion H; subst; exact I.
  - inversion H; subst. exact Hc.
Qed.

Lemma kkids_wit o tol K stP q p : mir_sound o tol -> st_wit tol q stP ->
  forall cs,
  Forall (fun c => forall isroot q' st k, kwit_kids tol q' c -> st_wit tol q' st ->
                   kwit_ok tol q' (fst (kelim_sub o tol K isroot q' st c k))) cs ->
  forall l k es k',
  kkids (fun l c k' => kvisit o tol stP (q ++ label_rows p l) (label_rows p l) c k')
        (fun c l s k' => kelim_sub o tol K false (q ++ label_rows p l) s c k') cs l k = (es, k') ->
  forall_lab (fun l c => kwit_ok tol (q ++ label_rows p l) c) cs l ->
  length es = length cs /\
  forall j, (j < length cs)%nat -> kwit_ok tol (q ++ label_rows p (l + j)) (e_sub (nth j es entry0)).
Proof.
  intros Hmir HP. induction cs as [|c cs IH]; intros Hg l k es k' H Hw.
  - cbn [kkids] in H. inversion H; subst. split; [reflexivity | intros j Hj; cbn [length] in Hj; lia].
  - apply Forall_cons_iff in Hg as [Hgc Hg]. destruct Hw as [Hwc Hw]. cbn [kkids] in H.
    destruct (k_exists c) eqn:Ec.
    + destruct (kvisit o tol stP (q ++ label_rows p l) (label_rows p l) c k) as [[[s k1] fr] skip] eqn:Ev.
      destruct (if skip then (kset_st s c, k1) else kelim_sub o tol K false (q ++ label_rows p l) s c k1) as [r k2] eqn:Er.
      match type of H with (let '(es0, k3) := ?X in _) = _ => destruct X as [es' k3] eqn:Ek end.
      inversion H; subst es k'. clear H.
      destruct (IH Hg _ _ _ _ Ek Hw) as [IL IN].
      split; [cbn [length]; lia|]. intros [|j] Hj; cbn [nth length] in *.
      * rewrite Nat.add_0_r. unfold e_sub; cbn [fst].
        assert (Hs : st_wit tol (q ++ label_rows p l) s).
        { eapply kvisit_wit; eauto. apply kwit_ok_state. exact Hwc. }
        destruct skip.
        -- inversion Er; subst r k2. apply kwit_ok_kset_st; [exact Hs | apply kwit_ok_kids; exact Hwc].
        -- pose proof (Hgc false (q ++ label_rows p l) s k1 (kwit_ok_kids _ _ _ Hwc) Hs) as E. rewrite Er in E. exact E.
      * replace (l + S j)%nat with (S l + j)%nat by lia. apply IN. lia.
    + match type of H with (let '(es0, k3) := ?X in _) = _ => destruct X as [es' k3] eqn:Ek end.
      inversion H; subst es k'. clear H.
      destruct (IH Hg _ _ _ _ Ek Hw) as [IL IN].
      split; [cbn [length]; lia|]. intros [|j] Hj; cbn [nth length] in *.
      * exact I.
      * replace (l + S j)%nat with (S l + j)%nat by lia. apply IN. lia.
Qed.

Theorem kelim_sub_wit o tol K : mir_sound o tol ->
  forall t isroot q st k, kwit_kids tol q t -> st_wit tol q st ->
  kwit_ok tol q (fst (kelim_sub o tol K isroot q st t k)).
Proof.
  intros Hm. induction t as [|i leaf p s' ch IH] using ktree_ind'; intros isroot q st k Hk Hst; [exact I|].
  cbn [kelim_sub]. destruct leaf; [cbn [fst kwit_ok]; split; [exact Hst | exact Hk]|].
  destruct (kkids (fun l c k' => kvisit o tol st (q ++ label_rows p l) (label_rows p l) c k')
                  (fun c l s k' => kelim_sub o tol K false (q ++ label_rows p l) s c k') ch 0 k) as [es k1] eqn:Ek.
  destruct (kkids_wit o tol K st q p Hm Hst ch IH 0%nat k es k1 Ek Hk) as [HL HN]. cbn [Nat.add] in HN.
  destruct (kfwd K es) eqn:Ef.
  - destruct isroot; cbn [fst].
    + split; [exact Hst|]. apply (forall_lab_intro _ KU). unfold kfeas_only. rewrite map_length. intros j Hj.
      change KU with ((fun e : kentry => if is_feas (e_st e) then e_sub e else KU) entry0). rewrite map_nth. cbn beta.
      destruct (is_feas (e_st (nth j es entry0))); [apply HN; lia | exact I].
    + unfold kfwd in Ef. apply andb_true_iff in Ef as [Ef _]. apply andb_true_iff in Ef as [_ Ec]. apply Nat.eqb_eq in Ec.
      destruct (kfeas_pick_some es ltac:(lia)) as [d [Hd [_ Hp]]]. rewrite Hp.
      apply (kwit_ok_incl tol _ (q ++ label_rows p d) q); [intros r Hr; apply in_or_app; left; exact Hr|].
      apply HN. lia.
  - cbn [fst]. split; [exact Hst|]. apply (forall_lab_intro _ KU). rewrite kremove_length. intros j Hj.
    destruct (kremove_nth es (n_kids es) j Hj) as [E|[E _]]; rewrite E; [apply HN; lia | exact I].
Qed.

Theorem kelim_wit o tol K t : mir_sound o tol -> kwit_ok tol [] t -> kwit_ok tol [] (fst (kelim o tol K t)).
Proof.
  intros Hm H. unfold kelim. apply kelim_sub_wit; auto; [apply kwit_ok_kids | apply kwit_ok_state]; exact H.
Qed.

(* ================= Infeasible marks ================= *)
Lemma kmarks_mono x : forall t qa qb, (in_rows qb x -> in_rows qa x) -> kmarks x qa t -> kmarks x qb t.
Proof.
  induction t as [|i leaf p s ch IH] using ktree_ind'; intros qa qb Hi H; [exact I|].
  destruct H as [Hs Hk]. split; [intros E C; apply (Hs E); auto|].
  revert Hk. generalize 0%nat. induction ch as [|c ch IHch]; intros l Hk; [exact I|].
  apply Forall_cons_iff in IH as [IHc IH]. destruct Hk as [H0 Hk]. split.
  - eapply IHc; [|exact H0]. unfold in_rows in *. rewrite !Forall_app. intros [C1 C2]. split; auto.
  - apply IHch; auto.
Qed.
Lemma kmarks_kset_st x q s t : (s = Infeas -> ~ in_rows q x) -> kmarks_kids x q t -> kmarks x q (kset_st s t).
Proof. destruct t; cbn [kmarks kmarks_kids kset_st]; tauto. Qed.
Lemma kmarks_join x q t : (k_state t = Infeas -> ~ in_rows q x) -> kmarks_kids x q t -> kmarks x q t.
Proof. destruct t; cbn [kmarks kmarks_kids k_state]; tauto. Qed.

Lemma count_st_one_unique f : forall es a b, count_st f es = 1%nat -> (a < length es)%nat -> (b < length es)%nat ->
  f (e_st (nth a es entry0)) = true -> f (e_st (nth b es entry0)) = true -> a = b.
Proof.
  induction es as [|e es IH]; intros a b H Ha Hb Fa Fb; cbn [length] in Ha, Hb; [lia|].
  unfold count_st in H. cbn [filter] in H.
  destruct (f (e_st e)) eqn:Ee.
  - cbn [length] in H. assert (H0 : count_st f es = 0%nat) by (unfold count_st; lia).
    destruct a as [|a]; destruct b as [|b]; cbn [nth] in *; [reflexivity | | |].
    + exfalso. apply (count_st_zero f es b H0 Fb). lia.
    + exfalso. apply (count_st_zero f es a H0 Fa). lia.
    + exfalso. apply (count_st_zero f es a H0 Fa). lia.
  - destruct a as [|a]; destruct b as [|b]; cbn [nth] in *; try congruence.
    f_equal. apply IH; auto; lia.
Qed.

Lemma kkids_marks o tol K x stP q p : osound o x ->
  forall cs,
  Forall (fun c => forall isroot q' st k, kmarks_kids x q' c -> kmarks_kids x q' (fst (kelim_sub o tol K isroot q' st c k))) cs ->
  forall l k es k',
  kkids (fun l c k' => kvisit o tol stP (q ++ label_rows p l) (label_rows p l) c k')
        (fun c l s k' => kelim_sub o tol K false (q ++ label_rows p l) s c k') cs l k = (es, k') ->
  forall_lab (fun l c => kmarks x (q ++ label_rows p l) c) cs l ->
  forall j, (j < length cs)%nat -> kmarks x (q ++ label_rows p (l + j)) (e_sub (nth j es entry0)).
Proof.
  intros Ho. induction cs as [|c cs IH]; intros Hg l k es k' H Hm j Hj; cbn [length] in Hj; [lia|].
  apply Forall_cons_iff in Hg as [Hgc Hg]. destruct Hm as [Hmc Hm]. cbn [kkids] in H.
  destruct (k_exists c) eqn:Ec.
  - destruct (kvisit o tol stP (q ++ label_rows p l) (label_rows p l) c k) as [[[s k1] fr] skip] eqn:Ev.
    pose proof (kvisit_skip _ _ _ _ _ _ _ _ _ _ _ Ev) as Hsk.
    destruct (if skip then (kset_st s c, k1) else kelim_sub o tol K false (q ++ label_rows p l) s c k1) as [r k2] eqn:Er.
    match type of H with (let '(es0, k3) := ?X in _) = _ => destruct X as [es' k3] eqn:Ek end.
    inversion H; subst es k'. clear H.
    destruct j as [|j]; cbn [nth].
    + rewrite Nat.add_0_r. unfold e_sub; cbn [fst].
      destruct (kmarks_split x _ c Hmc) as [Hst Hkids].
      assert (Hv : is_infeas s = true -> ~ in_rows (q ++ label_rows p l) x) by (eapply kvisit_infeas; eauto).
      destruct skip.
      * inversion Er; subst r k2. apply kmarks_kset_st; [|exact Hkids]. intros Es. apply Hv. rewrite Es. reflexivity.
      * pose proof (Hgc false (q ++ label_rows p l) s k1 Hkids) as E. rewrite Er in E. cbn [fst] in E.
        apply kmarks_join; [|exact E]. intros Ei.
        pose proof (kelim_sub_state o tol K c false (q ++ label_rows p l) s k1 Ec) as Hs. rewrite Er in Hs. cbn [fst] in Hs.
        destruct Hs as [Hs|Hs]; [|rewrite Ei in Hs; discriminate Hs].
        exfalso. rewrite Ei in Hs. subst s. discriminate Hsk.
    + replace (l + S j)%nat with (S l + j)%nat by lia. eapply IH; eauto. lia.
  - match type of H with (let '(es0, k3) := ?X in _) = _ => destruct X as [es' k3] eqn:Ek end.
    inversion H; subst es k'. clear H.
    destruct j as [|j]; cbn [nth]; [exact I|].
    replace (l + S j)%nat with (S l + j)%nat by lia. eapply IH; eauto. lia.
Qed.

(* the marks of the nodes below the result's root (nothing is assumed about the state handed to the root) *)
Theorem kelim_sub_marks_kids o tol K x : osound o x ->
  forall t, kshape K t -> forall isroot q st k, kmarks_kids x q t ->
  kmarks_kids x q (fst (kelim_sub o tol K isroot q st t k)).
Proof.
  intros Ho. induction t as [|i leaf p s0 ch IH] using ktree_ind'; intros Hsh isroot q st k Hm; [exact I|].
  cbn [kelim_sub]. destruct leaf; [exact Hm|].
  inversion Hsh as [| |i0 p0 st0 ch0 r Hr Hpow Hlen Hch]; subst i0 p0 st0 ch0.
  destruct (kkids (fun l c k' => kvisit o tol st (q ++ label_rows p l) (label_rows p l) c k')
                  (fun c l s k' => kelim_sub o tol K false (q ++ label_rows p l) s c k') ch 0 k) as [es k1] eqn:Ek.
  assert (Hes : Forall2 entry_shape ch es).
  { eapply kkids_shape; [| |exact Ek].
    - intros l c k' s k'' fr sk Hv. cbn beta in Hv. eapply kvisit_skip; exact Hv.
    - rewrite Forall_forall. intros c Hc l s k' Hx. apply kelim_sub_shape; auto. }
  destruct (Forall2_nth_dflt entry_shape KU entry0 ch es Hes) as [HL _].
  assert (HM : forall j, (j < length ch)%nat -> kmarks x (q ++ label_rows p j) (e_sub (nth j es entry0))).
  { intros j Hj. apply (kkids_marks o tol K x st q p Ho ch) with (l := 0%nat) (k := k) (k' := k1); auto.
    rewrite Forall_forall in *. intros c Hc isroot' q' st' k' Hm'. apply IH; auto. }
  assert (HG : forall j, (j < length ch)%nat -> is_infeas (e_st (nth j es entry0)) = true -> ~ in_rows (q ++ label_rows p j) x).
  { intros j Hj. apply (kkids_sem o tol K x st q p Ho ch) with (l := 0%nat) (k := k) (k' := k1); auto.
    rewrite Forall_forall in *. intros c Hc isroot' q' st' k' Hm' Hq'. apply kelim_sub_kterm; auto. }
  destruct (kfwd K es) eqn:Ef.
  - destruct isroot; cbn [fst kmarks_kids].
    + apply (forall_lab_intro _ KU). unfold kfeas_only. rewrite map_length. intros j Hj.
      change KU with ((fun e : kentry => if is_feas (e_st e) then e_sub e else KU) entry0). rewrite map_nth. cbn beta.
      destruct (is_feas (e_st (nth j es entry0))); [apply HM; lia | exact I].
    + unfold kfwd in Ef. apply andb_true_iff in Ef as [Ef Ei]. apply andb_true_iff in Ef as [_ Ec].
      apply Nat.eqb_eq in Ec, Ei.
      destruct (kfeas_pick_some es ltac:(lia)) as [j [Hj [Fj Hp]]]. rewrite Hp.
      apply kmarks_kids_of. apply (kmarks_mono x _ (q ++ label_rows p j) q); [|apply HM; lia].
      (* whenever x reaches the removed decision it takes the edge of the child that moved up *)
      intros Hq. set (d := decide p x).
      assert (Hd : (d < length ch)%nat) by (pose proof (decide_lt p x r Hr); unfold d; lia).
      pose proof (in_rows_edge p x q r Hr Hq) as Hreg. fold d in Hreg.
      assert (Gd : is_infeas (e_st (nth d es entry0)) = false).
      { destruct (is_infeas (e_st (nth d es entry0))) eqn:E; [|reflexivity]. exfalso. apply (HG d Hd E). exact Hreg. }
      assert (Fd : is_feas (e_st (nth d es entry0)) = true).
      { destruct (is_feas (e_st (nth d es entry0))) eqn:E; [reflexivity|]. exfalso.
        pose proof (count_two_miss is_feas is_infeas feas_not_infeas es d ltac:(lia) E Gd) as Hlt. lia. }
      rewrite (count_st_one_unique is_feas es j d Ec Hj ltac:(lia) Fj Fd). exact Hreg.
  - cbn [fst kmarks_kids]. apply (forall_lab_intro _ KU). rewrite kremove_length. intros j Hj.
    destruct (kremove_nth es (n_kids es) j Hj) as [E|[E _]]; rewrite E; [apply HM; lia | exact I].
Qed.

(* with a sound mark on the node itself *)
Theorem kelim_sub_marks o tol K x : osound o x ->
  forall t, kshape K t -> forall isroot q st k, kmarks_kids x q t -> (st = Infeas -> ~ in_rows q x) ->
  kmarks x q (fst (kelim_sub o tol K isroot q st t k)).
Proof.
  intros Ho t Hsh isroot q st k Hm Hst. destruct t as [|i leaf p s0 ch]; [exact I|].
  apply kmarks_join; [|apply kelim_sub_marks_kids; auto].
  intros Ei. destruct (kelim_sub_state o tol K (KN i leaf p s0 ch) isroot q st k eq_refl) as [Hs|Hs].
  - apply Hst. congruence.
  - rewrite Ei in Hs. discriminate Hs.
Qed.

(* the root's own state is never consulted: the statement is about the nodes below the root *)
Theorem kelim_marks o tol K t x : osound o x -> kshape K t -> kmarks_kids x [] t ->
  kmarks_kids x [] (fst (kelim o tol K t)).
Proof. intros Ho Hs Hm. unfold kelim. apply kelim_sub_marks_kids; auto. Qed.


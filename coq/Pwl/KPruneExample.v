(* Pwl/KPruneExample.v -- non-vacuity of the K-ary pruning theorems: a K = 4 run (two-row predicate, labels 0..3) with an
   exact oracle in which edges are pruned and a node is forwarded, on which every hypothesis of kcompose_prune_kev holds. *)
From AT Require Import Num Vec Aff Farkas FM Equiv PTree Cells Abs Cache Elim ElimEval CPrune Ops CPruneEval EdgeRegion.
From AT Require Import KPrune KPruneEval.

(* an oracle that never lies: Infeasible only with a checked Farkas certificate (as Distill/NetExample.solver_oracle) *)
Definition kx_oracle (n : nat) : oracle :=
  {| o_lp := fun _ q => match solve n (constrs_of q) with Unsat _ => LInf | Sat w => LOpt w | Unknown => LErr end;
     o_mir := fun _ _ _ => None |}.
Lemma kx_oracle_sound n x : length x = n -> osound (kx_oracle n) x.
Proof.
  intros Hx k q H. cbn [kx_oracle o_lp] in H. destruct (solve n (constrs_of q)) as [w|l|] eqn:E; try discriminate.
  intros Hin. apply (solve_unsat n (constrs_of q) l E x Hx). apply all_hold_constrs_of. exact Hin.
Qed.

Definition kx_aff (a b : Qc) : aff := {| a_in := 1; a_mat := [[a]]; a_bias := [b] |}.
Definition kx_id : aff := kx_aff 1 0.
(* receiver (AffTree<4>, one-row root, slots 2 and 3 empty):  x <= -2 ?  label 1 -> id   label 0 -> id *)
Definition kx_t : ktree :=
  KN 0 false (kx_aff 1 (- (1 + 1))) Indet
     [KN 1 true kx_id Indet [KU; KU; KU; KU]; KN 2 true kx_id Indet [KU; KU; KU; KU]; KU; KU].
(* argument: two rows  y <= 1 , -y <= 1 ; label 0 (y > 1 and y < -1) is empty, 1: y <= -1, 2: y >= 1, 3: -1 <= y <= 1 *)
Definition kx_p : aff := {| a_in := 1; a_mat := [[1]; [- (1)]]; a_bias := [1; 1] |}.
Definition kx_L : ptree := D kx_p [T (kx_aff 0 0); T (kx_aff 1 1); T (kx_aff (1 + 1) 0); T (kx_aff 0 (1 + 1 + 1))].
(* the same argument with the slot of label 3 empty: nothing is forwarded over it *)
Definition kx_Lp : ptree := D kx_p [T (kx_aff 0 0); T (kx_aff 1 1); T (kx_aff (1 + 1) 0); U].

(* below terminal 2 (x <= -2) the edges 0, 2, 3 are infeasible: the decision is forwarded, terminal y + 1 takes its place;
   below terminal 1 (x >= -2) only edge 0 is infeasible: it is removed, the decision stays *)
Definition kx_r : ktree :=
  KN 0 false (kx_aff 1 (- (1 + 1))) Indet
     [KN 1 false kx_p Indet
         [KU; KN 1 true (kx_aff 1 1) Indet [KU; KU; KU; KU]; KN 1 true (kx_aff (1 + 1) 0) Indet [KU; KU; KU; KU];
          KN 1 true (kx_aff 0 (1 + 1 + 1)) Indet [KU; KU; KU; KU]];
      KN 1 true (kx_aff 1 1) Indet [KU; KU; KU; KU]; KU; KU].
(* with the partial argument: below terminal 2 only ONE edge survives again, but the lhs node has an empty slot
   (created + skipped = 3 < 4): the decision stays, slot 3 stays empty *)
Definition kx_rp : ktree :=
  KN 0 false (kx_aff 1 (- (1 + 1))) Indet
     [KN 1 false kx_p Indet
         [KU; KN 1 true (kx_aff 1 1) Indet [KU; KU; KU; KU]; KN 1 true (kx_aff (1 + 1) 0) Indet [KU; KU; KU; KU]; KU];
      KN 2 false kx_p Indet [KU; KN 1 true (kx_aff 1 1) Indet [KU; KU; KU; KU]; KU; KU]; KU; KU].

Lemma kx_run : ktree_eqb_shape (fst (kcompose_prune (kx_oracle 1) 0 4 kx_t kx_L)) kx_r = true /\
               k_lp (snd (kcompose_prune (kx_oracle 1) 0 4 kx_t kx_L)) = 8%nat.
Proof. vm_compute. split; reflexivity. Qed.
Lemma kx_run_partial : ktree_eqb_shape (fst (kcompose_prune (kx_oracle 1) 0 4 kx_t kx_Lp)) kx_rp = true /\
               k_lp (snd (kcompose_prune (kx_oracle 1) 0 4 kx_t kx_Lp)) = 6%nat.
Proof. vm_compute. split; reflexivity. Qed.

Lemma kx_kary : kary 4 kx_L /\ kary 4 kx_Lp.
Proof. split; apply karyb_sound; reflexivity. Qed.
Lemma kx_kok : kok comp_schema kx_t.
Proof.
  assert (HT : forall i, kok comp_schema (KN i true kx_id Indet [KU; KU; KU; KU])).
  { intros i. constructor; [discriminate | intros _; apply keeps_nrows_comp; reflexivity | repeat constructor]. }
  constructor; [intros _; reflexivity | discriminate |]. repeat first [apply HT | constructor].
Qed.
Lemma kx_marks x : kmarks x [] kx_t.
Proof. cbn. repeat split; discriminate. Qed.

Lemma kx_c03 :
  (forall x, length x = 1%nat -> osound (kx_oracle 1) x) /\ kary 4 kx_L /\ kary 4 kx_Lp /\ kok comp_schema kx_t /\
  (forall x, kmarks x [] kx_t) /\
  ktree_eqb_shape (fst (kcompose_prune (kx_oracle 1) 0 4 kx_t kx_L)) kx_r = true /\
  ktree_eqb_shape (fst (kcompose_prune (kx_oracle 1) 0 4 kx_t kx_Lp)) kx_rp = true /\
  (forall x, length x = 1%nat ->
     kev (fst (kcompose_prune (kx_oracle 1) 0 4 kx_t kx_L)) x = eval (compose (kerase kx_t) kx_L) x /\
     kev (fst (kcompose_prune (kx_oracle 1) 0 4 kx_t kx_Lp)) x = eval (compose (kerase kx_t) kx_Lp) x).
Proof.
  split; [intros x Hx; apply kx_oracle_sound; exact Hx|].
  split; [apply kx_kary|]. split; [apply kx_kary|]. split; [apply kx_kok|]. split; [apply kx_marks|].
  split; [apply kx_run|]. split; [apply kx_run_partial|].
  intros x Hx. split; apply kcompose_prune_kev; auto using kx_oracle_sound, kx_kok, kx_marks; apply kx_kary.
Qed.

(* Pwl/ElimWf.v -- C04/C11: infeasible_elimination keeps a tree well-formed, for EVERY oracle
   (no hypothesis on the LP / mirror answers): forwarding is refused at the root, the last remaining
   child of a decision is never removed. *)
From AT Require Import Num Vec Aff PTree Cells Abs Cache Reduce Elim CPrune WfC.

Lemma cwf_set_st n m s t : cwf n m t -> cwf n m (set_st s t).
Proof. destruct 1; cbn [set_st]; constructor; auto. Qed.
Lemma c_exists_set_st s t : c_exists (set_st s t) = c_exists t.
Proof. destruct t; reflexivity. Qed.

Lemma ctree_case {A} (c : ctree) (a b : A) :
  match c with CU => a | CN _ _ _ _ _ _ => b end = if c_exists c then b else a.
Proof. destruct c; reflexivity. Qed.

(* what ends up in a slot exists exactly when the slot was occupied *)
Lemma elim_sub_exists o tol : forall t isroot q st k,
  c_exists (fst (elim_sub o tol isroot q st t k)) = c_exists t.
Proof.
  induction t as [|i leaf p s c0 IH0 c1 IH1]; intros isroot q st k; cbn [elim_sub]; auto.
  destruct leaf; auto.
  rewrite ctree_case.
  destruct (if c_exists c0 then _ else _) as [[sub0 k2] fresh0].
  rewrite ctree_case. destruct (c_exists c1) eqn:X1; auto.
  destruct (visit o tol st (q ++ [row1 p]) (row1 p) c1 k2) as [[[s1' k3] fr1] skip1].
  match goal with |- context [if ?b then _ else _] => destruct b eqn:F end.
  - destruct (is_feas s1').
    + specialize (IH1 false (q ++ [row1 p]) s1' k3).
      destruct (elim_sub o tol false (q ++ [row1 p]) s1' c1 k3) as [r1 k4]. cbn [fst] in *.
      destruct isroot; cbn [fst c_exists]; auto; congruence.
    + apply andb_true_iff in F as [F _]. apply andb_true_iff in F as [_ F]. destruct isroot; cbn [fst c_exists]; auto.
  - destruct (if skip1 then _ else _) as [sub1 k4]. reflexivity.
Qed.

Theorem elim_sub_cwf o tol n m : forall t isroot q st k,
  cwf n m t -> cwf n m (fst (elim_sub o tol isroot q st t k)).
Proof.
  induction t as [|i leaf p s c0 IH0 c1 IH1]; intros isroot q st k Hw; cbn [elim_sub]; auto.
  destruct leaf.
  - cbn [fst]. inversion Hw as [| i' f' st' Hf Hi Ho | ]; subst i' f' st'. constructor; auto.
  - inversion Hw as [| | i' p' st' a b Hp Hi Ho He H0 H1]; subst i' p' st' a b.
    rewrite ctree_case.
    (* the slot-0 part: well-formed, exists iff c0 exists *)
    set (R0 := if c_exists c0 then _ else _).
    assert (S0 : cwf n m (fst (fst R0)) /\ c_exists (fst (fst R0)) = c_exists c0).
    { subst R0. destruct (c_exists c0) eqn:X0.
      - destruct (visit o tol st (q ++ [row0 p]) (row0 p) c0 k) as [[[s0 k1] fr0] skip0]. destruct skip0; cbn [fst].
        + split; [apply cwf_set_st; auto | rewrite c_exists_set_st; auto].
        + pose proof (IH0 false (q ++ [row0 p]) s0 k1 H0) as W. pose proof (elim_sub_exists o tol c0 false (q ++ [row0 p]) s0 k1) as X.
          destruct (elim_sub o tol false (q ++ [row0 p]) s0 c0 k1) as [r0 k2]. cbn [fst] in *. split; congruence.
      - cbn [fst]. split; [constructor | reflexivity]. }
    destruct R0 as [[sub0 k2] fresh0].
    cbn [fst] in S0. destruct S0 as [W0 X0].
    rewrite ctree_case. destruct (c_exists c1) eqn:X1.
    2:{ cbn [fst]. constructor; auto; [ | destruct c1; [constructor | discriminate] ].
        rewrite X0. cbn [c_exists]. exact He. }
    destruct (visit o tol st (q ++ [row1 p]) (row1 p) c1 k2) as [[[s1' k3] fr1] skip1].
    pose proof (IH1 false (q ++ [row1 p]) s1' k3 H1) as W1.
    pose proof (elim_sub_exists o tol c1 false (q ++ [row1 p]) s1' k3) as E1.
    match goal with |- context [if ?b then _ else _] => destruct b eqn:F end.
    + apply andb_true_iff in F as [F _]. apply andb_true_iff in F as [_ F].
      destruct (is_feas s1').
      * destruct (elim_sub o tol false (q ++ [row1 p]) s1' c1 k3) as [r1 k4]. cbn [fst] in *.
        destruct isroot; cbn [fst]; auto. constructor; auto; [ | constructor ]. cbn [c_exists orb]. congruence.
      * destruct isroot; cbn [fst]; auto. constructor; auto; [ | constructor ]. rewrite F. reflexivity.
    + assert (S1 : forall x : ctree * cnt, x = (if skip1 then (set_st s1' c1, k3) else elim_sub o tol false (q ++ [row1 p]) s1' c1 k3) ->
                   cwf n m (fst x) /\ c_exists (fst x) = true).
      { intros x ->. destruct skip1; cbn [fst].
        - split; [apply cwf_set_st; auto | rewrite c_exists_set_st; auto].
        - split; congruence. }
      specialize (S1 _ eq_refl). destruct (if skip1 then _ else _) as [sub1 k4].
      cbn [fst] in *. destruct S1 as [W1' X1'].
      constructor; auto.
      * destruct (fresh0 && is_infeas (c_state sub0) && c_exists sub0) eqn:M0; cbn [c_exists].
        -- rewrite andb_false_r. cbn [orb]. exact X1'.
        -- destruct (c_exists sub0) eqn:Xs; [reflexivity|]. rewrite andb_false_r. cbn [orb]. exact X1'.
      * destruct (fresh0 && is_infeas (c_state sub0) && c_exists sub0); [constructor | exact W0].
      * match goal with |- cwf n m (if ?b then _ else _) => destruct b end; [constructor | exact W1'].
Qed.

(* the property at the level of the whole operation *)
Theorem elim_cwft o tol n m t : cwft n m t -> cwft n m (fst (elim o tol t)).
Proof.
  intros [He Hw]. unfold elim. split; [rewrite elim_sub_exists; exact He | apply elim_sub_cwf; exact Hw].
Qed.

(* Pwl/ArenaFrameCheck.v -- executable check of the frame relation [extends] (ArenaCompose.v) on two dumped arenas, and its
   soundness: what the runner decides about "the nodes of the receiver keep index, parent, children, state, and
   decisions their value" on the implementation's dumps is exactly the relation C02_frame is stated with. *)
From AT Require Import Num Vec Aff PTree Cells Abs Tree TreeLemmas ArenaCompose Elim.

Definition onat_eqb (a b : option nat) : bool :=
  match a, b with None, None => true | Some x, Some y => Nat.eqb x y | _, _ => false end.
Lemma onat_eqb_spec a b : onat_eqb a b = true <-> a = b.
Proof.
  destruct a as [x|], b as [y|]; cbn; split; intros H; try discriminate; auto.
  - apply Nat.eqb_eq in H. congruence.
  - inversion H. apply Nat.eqb_refl.
Qed.
(* children: same length, every old Some entry kept *)
Fixpoint kids_kept (old new : list (option nat)) : bool :=
  match old, new with
  | [], [] => true
  | o :: old', n :: new' => (match o with None => true | Some _ => onat_eqb o n end) && kids_kept old' new'
  | _, _ => false
  end.
Lemma kids_kept_spec : forall old new, kids_kept old new = true ->
  length new = length old /\ (forall l j, nth_error old l = Some (Some j) -> nth_error new l = Some (Some j)).
Proof.
  induction old as [|o old IH]; intros [|n new] H; cbn [kids_kept] in H; try discriminate.
  - split; [reflexivity|]. intros [|l] j E; discriminate.
  - apply andb_true_iff in H as [H1 H2]. destruct (IH new H2) as [Hl Hk]. split; [cbn; congruence|].
    intros [|l] j E; cbn [nth_error] in *.
    + inversion E; subst o. apply onat_eqb_spec in H1. congruence.
    + apply Hk; exact E.
Qed.
Definition acont_eqb (x y : acont) : bool := aff_eqb (ac_aff x) (ac_aff y) && st_eqb (ac_state x) (ac_state y).

Definition cell_kept (c c' : cell acont) : bool :=
  onat_eqb (c_parent c') (c_parent c) && kids_kept (c_children c) (c_children c') &&
  st_eqb (ac_state (c_val c')) (ac_state (c_val c)) &&
  (c_leaf c || (aff_eqb (ac_aff (c_val c')) (ac_aff (c_val c)) && negb (c_leaf c'))).
Definition extendsb (a a' : arena acont) : bool :=
  forallb (fun i => match aget a i, aget a' i with
                    | Some c, Some c' => cell_kept c c'
                    | Some _, None => false
                    | None, _ => true
                    end) (seq 0 (length a)).

Lemma st_eqb_eq : forall s r, st_eqb s r = true -> s = r.
Proof.
  intros [| | |u] [| | |v] H; cbn [st_eqb] in H; try discriminate; auto.
  apply andb_true_iff in H as [Hl Hf]. apply Nat.eqb_eq in Hl. f_equal.
  revert v Hl Hf. induction u as [|x u IH]; intros [|y v] Hl Hf; cbn [length] in Hl; try discriminate; auto.
  cbn [combine forallb fst snd] in Hf. apply andb_true_iff in Hf as [H1 H2]. apply veqb_spec in H1. subst y.
  f_equal. apply IH; auto.
Qed.

(* extends, with "value" read as the affine function (bit patterns of equal rationals, e.g. -0 and 0, are not
   distinguished) *)
Definition extends_f (a a' : arena acont) : Prop :=
  forall i c, aget a i = Some c ->
    exists c', aget a' i = Some c' /\
      c_parent c' = c_parent c /\ length (c_children c') = length (c_children c) /\
      (forall l j, nth_error (c_children c) l = Some (Some j) -> nth_error (c_children c') l = Some (Some j)) /\
      ac_state (c_val c') = ac_state (c_val c) /\
      (c_leaf c = false -> aff_eqb (ac_aff (c_val c')) (ac_aff (c_val c)) = true /\ c_leaf c' = false).

Theorem extendsb_sound a a' : extendsb a a' = true -> extends_f a a'.
Proof.
  unfold extendsb. rewrite forallb_forall. intros H i c Hc.
  assert (Hi : In i (seq 0 (length a))).
  { apply in_seq. split; [lia|]. cbn. unfold aget in Hc. destruct (nth_error a i) eqn:E; [|discriminate].
    apply nth_error_Some. congruence. }
  specialize (H i Hi). rewrite Hc in H. destruct (aget a' i) as [c'|]; [|discriminate]. exists c'. split; [reflexivity|].
  unfold cell_kept in H. apply andb_true_iff in H as [H Hd]. apply andb_true_iff in H as [H Hs].
  apply andb_true_iff in H as [Hp Hk]. apply onat_eqb_spec in Hp. destruct (kids_kept_spec _ _ Hk) as [Hl Hkk].
  apply st_eqb_eq in Hs. split; [exact Hp|]. split; [exact Hl|]. split; [exact Hkk|]. split; [exact Hs|].
  intros Hlf. rewrite Hlf in Hd. cbn [orb] in Hd. apply andb_true_iff in Hd as [Hd1 Hd2].
  apply negb_true_iff in Hd2. split; assumption.
Qed.
(* the relation of the theorem implies the checked one *)
Lemma aff_eqb_refl f : aff_eqb f f = true.
Proof.
  unfold aff_eqb. rewrite Nat.eqb_refl. assert (Hm : meqb (a_mat f) (a_mat f) = true) by (apply meqb_spec; auto).
  assert (Hv : veqb (a_bias f) (a_bias f) = true) by (apply veqb_spec; auto). rewrite Hm, Hv. reflexivity.
Qed.
Theorem extends_extends_f a a' : extends a a' -> extends_f a a'.
Proof.
  intros H i c Hc. destruct (H i c Hc) as [c' [H1 [H2 [H3 [H4 [H5 H6]]]]]]. exists c'.
  split; [exact H1|]. split; [exact H2|]. split; [exact H3|]. split; [exact H4|]. split; [exact H5|].
  intros Hl. destruct (H6 Hl) as [E1 E2]. split; [rewrite E1; apply aff_eqb_refl | exact E2].
Qed.

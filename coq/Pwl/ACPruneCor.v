(* Pwl/ACPruneCor.v -- the arena-level pruned composition denotes the composed function (ACPruneAll + CPruneEval), and a
   concrete run that meets every assumption of the refinement theorem (non-vacuity), with a merge_child_with_parent. *)
From AT Require Import Num Vec Aff PTree Cells Abs Cache Elim ElimEval CPrune CPruneEval Tree TreeLemmas ArenaCompose ArenaComposeAbs
  ACPrune ACPruneOps ACPruneRefine ACPruneAll.

Theorem acompose_prune_cev alloc o tol pf L a t fa x :
  fresh_alloc alloc -> lp_index_free o -> karity 2 L -> L <> U ->
  cabs fa a 0%nat = Some t -> cparents a None t -> NoDup (cidx t) -> cwf t ->
  (forall j, In j (terminal_keys a) <-> In j (cleaves t)) ->
  (cdepth t + pdepth L < pf)%nat ->
  osound o x -> bin2 L -> cbin t -> terms_ok comp_schema t -> marks_ok x [] t ->
  exists a' t' k',
    (forall fuel, (size L < fuel)%nat -> acompose_prune alloc o tol pf 0 fuel L a = Some (a', k')) /\
    (forall F, (cheight t' <= F)%nat -> cabs F a' 0%nat = Some t') /\
    cev t' x = eval (compose (erase t) L) x.
Proof.
  intros Hf Ho HL HnU Ha Hp Hnd Hw Hts Hpf Hos Hb Hcb Hto Hm.
  destruct (acompose_prune_refines_index_free_oracle alloc o tol pf L a t fa Hf Ho HL HnU Ha Hp Hnd Hw Hts Hpf)
    as [a' [t' [Hrun [Habs [_ [_ [Hsh _]]]]]]].
  exists a', t', (snd (compose_prune o tol t L)). split; [exact Hrun|]. split; [exact Habs|].
  rewrite (cshape_cev _ _ x Hsh). apply compose_prune_eval; assumption.
Qed.

(* ---------------------------------------------------------------- a run *)
(* receiver: x <= 0 ? (x <= 0 ? x+2 : x+1) : 2x  -- arena of ACPrune.exp_arena; lhs: y <= 1 ? 0 : 1.
   The LP oracle answers by the query rows: Infeasible for the second query below terminal 3, so the decision grafted
   there is merged away (merge_child_with_parent); everything else is kept. *)
Definition acx_drop : rows := [row0 (exa_f 1 0); row0 (exa_f 1 0); row1 (upd_dec (exa_f 1 1) (exa_f 1 1))].
Definition acx_oracle : oracle := oracle_by_rows [(acx_drop, LInf)].
Definition acx_t : ctree :=
  CN 0 false (exa_f 1 0) Indet
     (CN 1 false (exa_f 1 0) Indet (CN 3 true (exa_f 1 1) Indet CU CU) (CN 4 true (exa_f 1 (1 + 1)) Indet CU CU))
     (CN 2 true (exa_f (1 + 1) 0) Feas CU CU).
Example acx_run :
  cabs 5 exp_arena 0%nat = Some acx_t /\ cparents exp_arena None acx_t /\ NoDup (cidx acx_t) /\ cwf acx_t /\
  (forall j, In j (terminal_keys exp_arena) <-> In j (cleaves acx_t)) /\
  fresh_alloc next_key /\ lp_index_free acx_oracle /\ karity 2 exp_L /\
  exists a' k',
    acompose_prune next_key acx_oracle 0 4 0 4 exp_L exp_arena = Some (a', k') /\ k' = snd (compose_prune acx_oracle 0 acx_t exp_L) /\
    k_lp k' = 6%nat /\
    option_map (fun t' => ctree_eqb_shape t' (fst (compose_prune acx_oracle 0 acx_t exp_L))) (cabs 6 a' 0%nat) = Some true /\
    aget a' 3%nat = None.
Proof.
  split; [vm_compute; reflexivity|]. split.
  { cbn [cparents acx_t]. repeat split; eexists; (split; [vm_compute; reflexivity | split; reflexivity]). }
  split. { cbn [cidx acx_t app]. repeat constructor; cbn [In]; intros H; repeat (destruct H as [H|H]; [discriminate H|]); exact H. }
  split. { cbn [cwf acx_t]. repeat split. }
  split. { intros j. change (terminal_keys exp_arena) with [2%nat; 3%nat; 4%nat]. cbn [cleaves acx_t app In]. tauto. }
  split; [exact next_key_fresh|]. split; [apply oracle_by_rows_index_free|]. split.
  { constructor; [reflexivity | exists (T (exa_f 0 1)); split; [left; reflexivity | discriminate] | repeat constructor]. }
  eexists _, _. split; [vm_compute; reflexivity|]. split; [vm_compute; reflexivity|].
  split; [reflexivity|]. split; vm_compute; reflexivity.
Qed.

(* ---------------------------------------------------------------- cshape is what the runner's comparison ctree_eqb_shape decides *)
Lemma st_eqb_refl s : st_eqb s s = true.
Proof.
  destruct s as [| | |ws]; try reflexivity. cbn [st_eqb]. rewrite Nat.eqb_refl. cbn [andb].
  induction ws as [|w ws IH]; [reflexivity|]. cbn [combine forallb fst snd]. rewrite IH.
  rewrite (proj2 (veqb_spec w w) eq_refl). reflexivity.
Qed.
Lemma cshape_eqb x : forall y, cshape x y -> ctree_eqb_shape x y = true.
Proof.
  induction x as [|i l f s x0 IH0 x1 IH1]; intros [|j m g r y0 y1]; cbn [cshape ctree_eqb_shape]; try tauto.
  intros [-> [-> [-> [H0 H1]]]]. rewrite (IH0 _ H0), (IH1 _ H1), st_eqb_refl, (proj2 (aff_eqb_spec g g) eq_refl).
  destruct m; reflexivity.
Qed.

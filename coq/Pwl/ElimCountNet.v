(* Pwl/ElimCountNet.v -- the counting sentence of C06 for a whole distilled network (a PIPELINE of EffHistory.v:
   apply_func / un-pruned composition with a total tree / infeasible_elimination, each elimination with its own oracle).
   The activation regions of the network are the terminal regions of the UN-PRUNED reference tree U: the same pipeline
   with every elimination dropped (strip).  Proved here:
     * net_mask: the terminals of the pipeline result R are those of U selected by a mask (never reordered, duplicated
       or altered), and every activation region of U that is non-empty is selected -- for every tol >= 0;
       hence #full-dimensional regions <= #terminals (net_lower_bound);
     * net_exact_tol0: if the pipeline ends with an elimination and tol = 0, a selected region is non-empty, so the
       number of terminals IS the number of non-empty closed activation regions of the network;
     * net_upper_tol: for tol > 0 a terminal of a pipeline that ends with an elimination is only known to be non-empty
       within tol with respect to the rows that are still on its path in R (the rows of forwarded decisions are gone):
       every terminal region of R itself is ne_tol tol.
   Invariant between the steps (srel): the terminals (region, function) of the pruned tree are a sub-sequence of those
   of the un-pruned one; a removed terminal has an empty region in U; a kept one has the SAME POINT SET in both trees
   (the pruned tree has lost the rows of forwarded decisions, whose other branch was empty: rows_cover). *)
From AT Require Import Num Vec Aff PTree Cells Abs Cache Reduce Elim ElimEval ElimCache ElimEff CPrune Ops Schema WfC OpsWf
  ElimWf CPruneWf History CacheHistory CacheHistoryRun EffHistory ElimCount.

(* ---------- terminals with their regions, depth-first (child 0 before child 1) ---------- *)
Fixpoint leaves (q : rows) (t : ctree) : list (rows * aff) :=
  match t with
  | CU => []
  | CN _ leaf f _ c0 c1 => if leaf then [(q, f)] else leaves (q ++ [row0 f]) c0 ++ leaves (q ++ [row1 f]) c1
  end.
Lemma leaves_regions : forall t q, map fst (leaves q t) = leaf_regions q t.
Proof.
  induction t as [|i leaf p s c0 IH0 c1 IH1]; intros q; [reflexivity|].
  cbn [leaves leaf_regions]. destruct leaf; [reflexivity|]. rewrite map_app, IH0, IH1. reflexivity.
Qed.
Lemma leaves_funcs : forall t q, map snd (leaves q t) = leaf_funcs t.
Proof.
  induction t as [|i leaf p s c0 IH0 c1 IH1]; intros q; [reflexivity|].
  cbn [leaves leaf_funcs]. destruct leaf; [reflexivity|]. rewrite map_app, IH0, IH1. reflexivity.
Qed.

(* same point set *)
Definition req (A B : rows) : Prop := forall x, in_rows A x <-> in_rows B x.
Lemma req_refl A : req A A.
Proof. intros x. tauto. Qed.
Lemma req_trans A B C : req A B -> req B C -> req A C.
Proof. intros H1 H2 x. rewrite (H1 x). apply H2. Qed.
Lemma in_rows_app A B x : in_rows (A ++ B) x <-> in_rows A x /\ in_rows B x.
Proof. unfold in_rows. apply Forall_app. Qed.
Lemma req_app A B e : req A B -> req (A ++ e) (B ++ e).
Proof. intros H x. rewrite !in_rows_app, (H x). tauto. Qed.
Lemma req_ne A B : req A B -> ne A -> ne B.
Proof. intros H [x Hx]. exists x. apply H. exact Hx. Qed.
Lemma ne_app_l A e : ne (A ++ e) -> ne A.
Proof. intros [x Hx]. exists x. apply in_rows_app in Hx. tauto. Qed.
(* a decision whose branch 0 (1) is empty does not cut the region *)
Lemma req_drop0 p q : ~ ne (q ++ [row0 p]) -> req q (q ++ [row1 p]).
Proof.
  intros Hn x. split.
  - intros Hx. destruct (rows_cover p x q Hx) as [C|C]; [|exact C]. exfalso. apply Hn. exists x. exact C.
  - intros Hx. apply in_rows_app in Hx. tauto.
Qed.
Lemma req_drop1 p q : ~ ne (q ++ [row1 p]) -> req q (q ++ [row0 p]).
Proof.
  intros Hn x. split.
  - intros Hx. destruct (rows_cover p x q Hx) as [C|C]; [exact C|]. exfalso. apply Hn. exists x. exact C.
  - intros Hx. apply in_rows_app in Hx. tauto.
Qed.

(* ---------- the relation between the terminals of a pruned tree (left) and of its reference tree (right) ---------- *)
Inductive srel (K : rows -> Prop) : list (rows * aff) -> list (rows * aff) -> Prop :=
| s_nil : srel K [] []
| s_keep RR RU f lR lU : req RR RU -> K RU -> srel K lR lU -> srel K ((RR, f) :: lR) ((RU, f) :: lU)
| s_drop RU f lR lU : ~ ne RU -> srel K lR lU -> srel K lR ((RU, f) :: lU).
Definition KT (_ : rows) : Prop := True.

Lemma srel_impl (K K' : rows -> Prop) : (forall R, K R -> K' R) -> forall a b, srel K a b -> srel K' a b.
Proof. intros HK a b H. induction H; constructor; auto. Qed.
Lemma srel_refl (K : rows -> Prop) : (forall R, K R) -> forall l, srel K l l.
Proof. intros HK. induction l as [|[R f] l IH]; constructor; auto. apply req_refl. Qed.
Lemma srel_app (K : rows -> Prop) : forall a b c d, srel K a b -> srel K c d -> srel K (a ++ c) (b ++ d).
Proof. intros a b c d H H'. induction H; cbn [app]; [exact H'| |]; constructor; auto. Qed.
Lemma srel_dropall (K : rows -> Prop) : forall l a b, (forall e, In e l -> ~ ne (fst e)) -> srel K a b -> srel K a (l ++ b).
Proof.
  induction l as [|[R f] l IH]; intros a b Hl H; [exact H|]. cbn [app]. constructor.
  - exact (Hl (R, f) (or_introl eq_refl)).
  - apply IH; auto. intros e He. apply Hl. right. exact He.
Qed.
(* the regions on the left may be replaced by ones with the same point sets *)
Definition esame (a b : rows * aff) : Prop := req (fst a) (fst b) /\ snd a = snd b.
Lemma srel_left (K : rows -> Prop) : forall lR lU, srel K lR lU -> forall lR', Forall2 esame lR' lR -> srel K lR' lU.
Proof.
  intros lR lU H. induction H as [|RR RU f lR lU Hr HK H IH|RU f lR lU Hn H IH]; intros lR' HF.
  - inversion HF; subst. constructor.
  - inversion HF as [|[R' f'] e' l1 l2 [He1 He2] HF']; subst. cbn [fst snd] in He1, He2. subst f'.
    constructor; auto. eapply req_trans; eauto.
  - constructor; auto.
Qed.
(* composition: pruned again (left) of pruned (middle) of reference (right) *)
Lemma srel_trans (K1 K2 K3 : rows -> Prop) :
  (forall RT RU, req RT RU -> K1 RT -> K2 RU -> K3 RU) ->
  forall lT lU, srel K2 lT lU -> forall lR, srel K1 lR lT -> srel K3 lR lU.
Proof.
  intros HK lT lU H. induction H as [|RT RU f lT lU Hr HK2 H IH|RU f lT lU Hn H IH]; intros lR H1.
  - inversion H1; subst. constructor.
  - inversion H1 as [|RR RT' f' lR' lT' Hr' HK1 H1'|RT' f' lR' lT' Hn' H1']; subst.
    + constructor; [eapply req_trans; eauto | eapply HK; eauto | apply IH; exact H1'].
    + apply s_drop; [|apply IH; exact H1']. intros C. apply Hn'. eapply req_ne; [|exact C].
      intros x. symmetry. apply Hr.
  - apply s_drop; auto.
Qed.
(* the mask *)
Lemma srel_mask (K : rows -> Prop) : forall lR lU, srel K lR lU ->
  exists m : list bool, length m = length lU /\ map snd lR = select m (map snd lU) /\
    Forall2 (fun (b : bool) (R : rows) => (b = true -> K R) /\ (ne R -> b = true)) m (map fst lU).
Proof.
  intros lR lU H. induction H as [|RR RU f lR lU Hr HK H [m [Hl [Hs HF]]]|RU f lR lU Hn H [m [Hl [Hs HF]]]].
  - exists []. repeat split; constructor.
  - exists (true :: m). cbn [length map select fst snd]. split; [congruence|]. split; [congruence|].
    constructor; [|exact HF]. split; auto.
  - exists (false :: m). cbn [length map select fst snd]. split; [congruence|]. split; [exact Hs|].
    constructor; [|exact HF]. split; [discriminate|]. intros C. exfalso. exact (Hn C).
Qed.

(* ---------- regions under a longer / an equivalent prefix ---------- *)
Definition pre (q : rows) (e : rows * aff) : rows * aff := (q ++ fst e, snd e).
Lemma leaves_pre : forall t q e, leaves (q ++ e) t = map (pre q) (leaves e t).
Proof.
  induction t as [|i leaf p s c0 IH0 c1 IH1]; intros q e; [reflexivity|].
  cbn [leaves]. destruct leaf; [reflexivity|]. rewrite map_app, <- !app_assoc, IH0, IH1. reflexivity.
Qed.
Lemma leaves_shift t q : leaves q t = map (pre q) (leaves [] t).
Proof. rewrite <- (leaves_pre t q []). rewrite app_nil_r. reflexivity. Qed.
Lemma leaves_req : forall t q q', req q q' -> Forall2 esame (leaves q t) (leaves q' t).
Proof.
  induction t as [|i leaf p s c0 IH0 c1 IH1]; intros q q' H; [constructor|].
  cbn [leaves]. destruct leaf.
  - constructor; [|constructor]. split; [exact H|reflexivity].
  - apply Forall2_app; [apply IH0 | apply IH1]; apply req_app; exact H.
Qed.
Lemma leaves_empty q t : ~ ne q -> forall e, In e (leaves q t) -> ~ ne (fst e).
Proof.
  intros Hn e He. apply (leaf_regions_empty q t Hn). rewrite <- leaves_regions. apply in_map. exact He.
Qed.

(* ================================================================ one elimination *)
(* r is t with some terminals removed: the removed ones have an empty region in t, the kept ones keep their function
   and their point set and are non-empty within tol (region of t) *)
Definition cnt2 (tol : Qc) (q : rows) (t r : ctree) : Prop := srel (ne_tol tol) (leaves q r) (leaves q t).

Lemma cnt2_both tol q i p s' C0 C1 r0 r1 r :
  cnt2 tol (q ++ [row0 p]) C0 r0 -> cnt2 tol (q ++ [row1 p]) C1 r1 ->
  leaves q r = leaves (q ++ [row0 p]) r0 ++ leaves (q ++ [row1 p]) r1 ->
  cnt2 tol q (CN i false p s' C0 C1) r.
Proof. intros H0 H1 E. unfold cnt2. rewrite E. cbn [leaves]. apply srel_app; assumption. Qed.
Lemma cnt2_only1 tol q i p s' C0 C1 r1 r :
  ~ ne (q ++ [row0 p]) -> cnt2 tol (q ++ [row1 p]) C1 r1 ->
  (leaves q r = leaves (q ++ [row1 p]) r1 \/ r = r1) ->
  cnt2 tol q (CN i false p s' C0 C1) r.
Proof.
  intros Hn H1 E. unfold cnt2. cbn [leaves]. apply srel_dropall; [apply leaves_empty; exact Hn|].
  destruct E as [E|E]; [rewrite E; exact H1|]. subst r.
  eapply srel_left; [exact H1|]. apply leaves_req. apply req_drop0. exact Hn.
Qed.
Lemma cnt2_only0 tol q i p s' C0 C1 r0 r :
  ~ ne (q ++ [row1 p]) -> cnt2 tol (q ++ [row0 p]) C0 r0 ->
  (leaves q r = leaves (q ++ [row0 p]) r0 \/ r = r0) ->
  cnt2 tol q (CN i false p s' C0 C1) r.
Proof.
  intros Hn H0 E. unfold cnt2. cbn [leaves].
  rewrite <- (app_nil_r (leaves q r)). apply srel_app.
  - destruct E as [E|E]; [rewrite E; exact H0|]. subst r.
    eapply srel_left; [exact H0|]. apply leaves_req. apply req_drop1. exact Hn.
  - rewrite <- (app_nil_r (leaves (q ++ [row1 p]) C1)). apply srel_dropall; [apply leaves_empty; exact Hn|constructor].
Qed.

(* same case analysis as ElimCount.elim_sub_count / ElimEff.elim_sub_eff *)
Theorem elim_sub_rel o tol : 0 <= tol -> mir_sound o tol ->
  forall t isroot q st k, (forall r, is_path q t r -> oexact_at o r) ->
  c_exists t = true -> okc_kids tol q t -> par_ok tol q st -> st_wit tol q st ->
  (isroot = false -> is_feas st = true /\ gst tol q st) ->
  cnt2 tol q t (fst (elim_sub o tol isroot q st t k)).
Proof.
  intros Ht Hm. induction t as [|i leaf p s' c0 IH0 c1 IH1]; intros isroot q st k Ho He Hk Hpar Hw Hst; [discriminate|].
  destruct leaf.
  { cbn [elim_sub fst]. unfold cnt2. cbn [leaves]. constructor; [apply req_refl| |constructor].
    eapply par_ok_ne_tol; eauto. }
  destruct (Hk eq_refl) as [Ex0 [Ex1 [Huni [Hk0 Hk1]]]].
  assert (STEP : forall c h kk, oexact_at o (q ++ [h]) -> c_exists c = true -> okc tol (q ++ [h]) c ->
            (forall st' k', is_feas st' = true -> gst tol (q ++ [h]) st' ->
                eff tol (q ++ [h]) (fst (elim_sub o tol false (q ++ [h]) st' c k')) /\
                cnt2 tol (q ++ [h]) c (fst (elim_sub o tol false (q ++ [h]) st' c k'))) ->
            forall s k1 fr sk, visit o tol st (q ++ [h]) h c kk = (s, k1, fr, sk) ->
            fr = is_indet (c_state c) /\ sk = is_infeas s /\
            (forall ws w, st = FeasW ws -> In w ws -> contains_tol tol [h] w = true -> is_infeas s = false) /\
            ((is_infeas s = true /\ ~ ne (q ++ [h]) /\ fr = true) \/
             (is_infeas s = false /\ is_feas s = true /\ gst tol (q ++ [h]) s /\
              forall k', eff tol (q ++ [h]) (fst (elim_sub o tol false (q ++ [h]) s c k')) /\
                         cnt2 tol (q ++ [h]) c (fst (elim_sub o tol false (q ++ [h]) s c k'))))).
  { intros c h kk Hoc Hex Hok IH s k1 fr sk Ev.
    destruct (visit_exact o tol st q h c kk s k1 fr sk Ht Hoc Hm Hw (okc_state _ _ _ Hex Hok) Ev) as [Hg [Hfr [Hsk Hif]]].
    split; [exact Hfr|]. split; [exact Hsk|]. split.
    { intros ws w E Hin Hcw. subst st. eapply visit_inherits; eauto. eapply okc_state; eauto. }
    destruct (gst_cases _ _ _ Hg) as [[Hi Hn]|[Hf Hi]].
    - left. repeat split; auto.
    - right. repeat split; auto; apply IH; auto. }
  assert (NOTBOTH : forall s0 s1,
            (is_infeas s0 = true -> ~ ne (q ++ [row0 p])) -> (is_infeas s1 = true -> ~ ne (q ++ [row1 p])) ->
            (forall ws w, st = FeasW ws -> In w ws -> contains_tol tol [row0 p] w = true -> is_infeas s0 = false) ->
            (forall ws w, st = FeasW ws -> In w ws -> contains_tol tol [row1 p] w = true -> is_infeas s1 = false) ->
            is_infeas s0 = true -> is_infeas s1 = true -> False).
  { intros s0 s1 E0 E1 N0 N1 I0 I1. destruct Hpar as [Hne|[ws [Est Hws]]].
    - destruct (ne_cover p q Hne) as [C|C]; [exact (E0 I0 C) | exact (E1 I1 C)].
    - subst st. destruct Hws as [Hnn Hall]. destruct ws as [|w ws]; [congruence|].
      destruct (halfspace_dichotomy tol p w Ht) as [C|C].
      + rewrite (N0 (w :: ws) w eq_refl (or_introl eq_refl) C) in I0. discriminate.
      + rewrite (N1 (w :: ws) w eq_refl (or_introl eq_refl) C) in I1. discriminate. }
  rewrite elim_sub_unfold. cbv zeta.
  destruct c0 as [|i0 l0 p0 s0' c00 c01]; [discriminate|].
  destruct c1 as [|i1 l1 p1 s1' c10 c11]; [discriminate|].
  set (C0 := CN i0 l0 p0 s0' c00 c01) in *. set (C1 := CN i1 l1 p1 s1' c10 c11) in *.
  assert (IHC0 : forall st' k', is_feas st' = true -> gst tol (q ++ [row0 p]) st' ->
             eff tol (q ++ [row0 p]) (fst (elim_sub o tol false (q ++ [row0 p]) st' C0 k')) /\
             cnt2 tol (q ++ [row0 p]) C0 (fst (elim_sub o tol false (q ++ [row0 p]) st' C0 k'))).
  { intros st' k' Hf Hg. split.
    - apply (elim_sub_eff o tol Ht Hm C0 false (q ++ [row0 p]) st' k'); auto.
      + intros r Hr. apply Ho. right. left. exact Hr.
      + apply okc_kids_of; auto.
      + apply par_ok_of_gst; auto.
      + apply gst_wit; auto.
    - apply (IH0 false (q ++ [row0 p]) st' k'); auto.
      + intros r Hr. apply Ho. right. left. exact Hr.
      + apply okc_kids_of; auto.
      + apply par_ok_of_gst; auto.
      + apply gst_wit; auto. }
  assert (IHC1 : forall st' k', is_feas st' = true -> gst tol (q ++ [row1 p]) st' ->
             eff tol (q ++ [row1 p]) (fst (elim_sub o tol false (q ++ [row1 p]) st' C1 k')) /\
             cnt2 tol (q ++ [row1 p]) C1 (fst (elim_sub o tol false (q ++ [row1 p]) st' C1 k'))).
  { intros st' k' Hf Hg. split.
    - apply (elim_sub_eff o tol Ht Hm C1 false (q ++ [row1 p]) st' k'); auto.
      + intros r Hr. apply Ho. right. right. exact Hr.
      + apply okc_kids_of; auto.
      + apply par_ok_of_gst; auto.
      + apply gst_wit; auto.
    - apply (IH1 false (q ++ [row1 p]) st' k'); auto.
      + intros r Hr. apply Ho. right. right. exact Hr.
      + apply okc_kids_of; auto.
      + apply par_ok_of_gst; auto.
      + apply gst_wit; auto. }
  assert (Ho0 : oexact_at o (q ++ [row0 p])) by (apply Ho; right; left; left; reflexivity).
  assert (Ho1 : oexact_at o (q ++ [row1 p])) by (apply Ho; right; right; left; reflexivity).
  unfold do_child0. fold C0.
  change (match C0 with CU => (CU, k, false) | CN _ _ _ _ _ _ =>
            let '(s0, k1, fr0, skip0) := visit o tol st (q ++ [row0 p]) (row0 p) C0 k in
            if skip0 then (set_st s0 C0, k1, fr0)
            else let '(r0, k2) := elim_sub o tol false (q ++ [row0 p]) s0 C0 k1 in (r0, k2, fr0) end)
    with (let '(s0, k1, fr0, skip0) := visit o tol st (q ++ [row0 p]) (row0 p) C0 k in
          if skip0 then (set_st s0 C0, k1, fr0)
          else let '(r0, k2) := elim_sub o tol false (q ++ [row0 p]) s0 C0 k1 in (r0, k2, fr0)).
  destruct (visit o tol st (q ++ [row0 p]) (row0 p) C0 k) as [[[s0 k1] fr0] skip0] eqn:Ev0.
  destruct (STEP C0 (row0 p) k Ho0 eq_refl Hk0 IHC0 s0 k1 fr0 skip0 Ev0) as [Hfr0 [Hsk0 [N0 Hc0]]].
  destruct Hc0 as [[Hi0 [Hn0 Hfresh0]]|[Hi0 [Hf0 [Hg0 He0]]]].
  - (* branch 0 empty: branch 1 is not, and moves up; all terminals of branch 0 disappear *)
    rewrite Hi0 in Hsk0. subst skip0.
    change (c_state (set_st s0 C0)) with s0. change (c_exists (set_st s0 C0)) with true.
    destruct (visit o tol st (q ++ [row1 p]) (row1 p) C1 k1) as [[[s1 k3] fr1] skip1] eqn:Ev1.
    destruct (STEP C1 (row1 p) k1 Ho1 eq_refl Hk1 IHC1 s1 k3 fr1 skip1 Ev1) as [Hfr1 [Hsk1 [N1 Hc1]]].
    destruct Hc1 as [[Hi1 [Hn1 _]]|[Hi1 [Hf1 [Hg1 He1]]]].
    { exfalso. apply (NOTBOTH s0 s1); auto. }
    assert (Efr1 : fr1 = true).
    { rewrite Hfr1. rewrite <- Huni. rewrite <- Hfr0. exact Hfresh0. }
    rewrite Efr1, Hi0, Hi1, Hf1. rewrite (proj1 (is_infeas_eq s0) Hi0). cbn [is_feas andb orb].
    destruct (He1 k3) as [_ Hc1]. destruct (elim_sub o tol false (q ++ [row1 p]) s1 C1 k3) as [r1 k4] eqn:Er1.
    cbn [fst] in Hc1.
    apply (cnt2_only1 tol q i p s' C0 C1 r1); auto.
    destruct isroot; [left|right]; reflexivity.
  - (* branch 0 kept *)
    rewrite Hi0 in Hsk0. subst skip0.
    destruct (He0 k1) as [He0' Hc0]. destruct (elim_sub o tol false (q ++ [row0 p]) s0 C0 k1) as [sub0 k2] eqn:Er0.
    cbn [fst] in He0', Hc0.
    assert (X0 : c_exists sub0 = true).
    { pose proof (ElimEval.elim_sub_exists o tol C0 false (q ++ [row0 p]) s0 k1 eq_refl) as X. rewrite Er0 in X. exact X. }
    pose proof (eff_state _ _ _ X0 He0') as Fs0.
    destruct (visit o tol st (q ++ [row1 p]) (row1 p) C1 k2) as [[[s1 k3] fr1] skip1] eqn:Ev1.
    destruct (STEP C1 (row1 p) k2 Ho1 eq_refl Hk1 IHC1 s1 k3 fr1 skip1 Ev1) as [Hfr1 [Hsk1 [N1 Hc1]]].
    destruct Hc1 as [[Hi1 [Hn1 Hfresh1]]|[Hi1 [Hf1 [Hg1 He1]]]].
    + (* branch 1 empty: branch 0 moves up; all terminals of branch 1 disappear *)
      rewrite Hfresh1, X0, Fs0, Hi1. rewrite (proj1 (is_infeas_eq s1) Hi1). cbn [is_feas andb orb].
      apply (cnt2_only0 tol q i p s' C0 C1 sub0); auto.
      destruct isroot; cbn [fst]; [left; cbn [leaves]; rewrite app_nil_r|right]; reflexivity.
    + (* both kept *)
      rewrite Hi1 in Hsk1. subst skip1.
      rewrite Hi1, (feas_not_infeas _ Fs0). rewrite !andb_false_r. cbn [orb andb].
      destruct (He1 k3) as [_ Hc1]. destruct (elim_sub o tol false (q ++ [row1 p]) s1 C1 k3) as [sub1 k4] eqn:Er1.
      cbn [fst] in Hc1.
      rewrite ?andb_false_r. cbn [fst].
      apply (cnt2_both tol q i p s' C0 C1 sub0 sub1); auto.
Qed.

(* every legal input of a pipeline (the root may have lost a branch in an earlier round) *)
Theorem elim_rel_pinv o tol t : 0 <= tol -> (forall r, is_path [] t r -> oexact_at o r) -> mir_sound o tol ->
  pinv tol t -> srel (ne_tol tol) (leaves [] (fst (elim o tol t))) (leaves [] t).
Proof.
  intros Ht Hex Hm [He [Hk Hw]].
  assert (BOTH : okc_kids tol [] t -> srel (ne_tol tol) (leaves [] (fst (elim o tol t))) (leaves [] t)).
  { intros Hb. unfold elim. apply (elim_sub_rel o tol Ht Hm t true [] (c_state t) k0); auto.
    - left. apply ne_nil.
    - discriminate. }
  destruct t as [|i leaf p s' c0 c1]; [discriminate|].
  destruct leaf.
  { apply BOTH. cbn [okc_kids]. discriminate. }
  destruct (Hk eq_refl) as [Hb|Hs].
  { apply BOTH. intros _. exact Hb. }
  clear BOTH.
  destruct Hs as [[-> [Ex1 [Hf1 Hk1]]]|[-> [Ex0 [Hf0 Hk0]]]].
  - unfold elim. rewrite elim_sub_unfold. cbv zeta. cbn [do_child0].
    destruct c1 as [|i1 l1 p1 s1' c10 c11]; [discriminate|]. set (C1 := CN i1 l1 p1 s1' c10 c11) in *.
    rewrite (visit_feas o tol _ ([] ++ [row1 p]) (row1 p) C1 k0 Hf1). cbn [andb c_exists].
    pose proof (elim_sub_rel o tol Ht Hm C1 false ([] ++ [row1 p]) (c_state C1) k0) as EE.
    destruct (elim_sub o tol false ([] ++ [row1 p]) (c_state C1) C1 k0) as [sub1 k4] eqn:Er.
    cbn [fst] in *.
    pose proof (okc_feas_gst _ _ _ Ex1 Hk1 Hf1) as Hg.
    assert (E : cnt2 tol ([] ++ [row1 p]) C1 sub1).
    { apply EE; [intros r Hr; apply Hex; right; right; exact Hr | reflexivity | apply okc_kids_of; exact Hk1
                | apply par_ok_of_gst; auto | apply gst_wit; exact Hg | intros _; split; auto]. }
    cbn [leaves]. exact E.
  - unfold elim. rewrite elim_sub_unfold. cbv zeta.
    destruct c0 as [|i0 l0 p0 s0' c00 c01]; [discriminate|]. set (C0 := CN i0 l0 p0 s0' c00 c01) in *.
    unfold do_child0. fold C0.
    change (match C0 with CU => (CU, k0, false) | CN _ _ _ _ _ _ =>
              let '(s0, k1, fr0, skip0) := visit o tol (c_state (CN i false p s' C0 CU)) ([] ++ [row0 p]) (row0 p) C0 k0 in
              if skip0 then (set_st s0 C0, k1, fr0)
              else let '(r0, k2) := elim_sub o tol false ([] ++ [row0 p]) s0 C0 k1 in (r0, k2, fr0) end)
      with (let '(s0, k1, fr0, skip0) := visit o tol (c_state (CN i false p s' C0 CU)) ([] ++ [row0 p]) (row0 p) C0 k0 in
            if skip0 then (set_st s0 C0, k1, fr0)
            else let '(r0, k2) := elim_sub o tol false ([] ++ [row0 p]) s0 C0 k1 in (r0, k2, fr0)).
    rewrite (visit_feas o tol _ ([] ++ [row0 p]) (row0 p) C0 k0 Hf0).
    pose proof (elim_sub_rel o tol Ht Hm C0 false ([] ++ [row0 p]) (c_state C0) k0) as EE.
    destruct (elim_sub o tol false ([] ++ [row0 p]) (c_state C0) C0 k0) as [sub0 k2] eqn:Er.
    cbn [fst] in *.
    pose proof (okc_feas_gst _ _ _ Ex0 Hk0 Hf0) as Hg.
    assert (E : cnt2 tol ([] ++ [row0 p]) C0 sub0).
    { apply EE; [intros r Hr; apply Hex; right; left; exact Hr | reflexivity | apply okc_kids_of; exact Hk0
                | apply par_ok_of_gst; auto | apply gst_wit; exact Hg | intros _; split; auto]. }
    cbn [leaves]. rewrite !app_nil_r. exact E.
Qed.

(* ================================================================ apply_func and un-pruned composition *)
Definition mf (h : aff -> aff) (e : rows * aff) : rows * aff := (fst e, h (snd e)).
Lemma leaves_cmap h : forall t q, leaves q (cmap_terms h t) = map (mf h) (leaves q t).
Proof.
  induction t as [|i leaf f st c0 IH0 c1 IH1]; intros q; [reflexivity|].
  cbn [cmap_terms]. destruct leaf; cbn [leaves]; [reflexivity|]. rewrite map_app, IH0, IH1. reflexivity.
Qed.
Lemma srel_mf (K : rows -> Prop) h : forall a b, srel K a b -> srel K (map (mf h) a) (map (mf h) b).
Proof. intros a b H. induction H; cbn [map mf fst snd]; constructor; auto. Qed.

(* the terminals of the graft of L below a terminal with function tf (regions relative to that terminal) *)
Definition gl (s : schema) (tf : aff) (L : ptree) : list (rows * aff) := leaves [] (cgraft s tf L Indet 0).
Lemma leaves_cgraft s tf L st i q : leaves q (cgraft s tf L st i) = map (pre q) (gl s tf L).
Proof.
  rewrite leaves_shift. unfold gl. f_equal.
  destruct L as [|f|p [|l0 [|l1 [|l2 ch]]]]; reflexivity.
Qed.
Definition gexp (s : schema) (L : ptree) (e : rows * aff) : list (rows * aff) := map (pre (fst e)) (gl s (snd e) L).
Lemma leaves_clift s L : forall t q, leaves q (clift s L t) = flat_map (gexp s L) (leaves q t).
Proof.
  induction t as [|i leaf f st c0 IH0 c1 IH1]; intros q; [reflexivity|].
  cbn [clift]. destruct leaf; cbn [leaves].
  - rewrite leaves_cgraft. cbn [flat_map]. rewrite app_nil_r. reflexivity.
  - rewrite flat_map_app, IH0, IH1. reflexivity.
Qed.
Lemma srel_gexp (K : rows -> Prop) s L : forall a b, srel K a b -> srel KT (flat_map (gexp s L) a) (flat_map (gexp s L) b).
Proof.
  intros a b H. induction H as [|RR RU f lR lU Hr HK H IH|RU f lR lU Hn H IH]; cbn [flat_map].
  - constructor.
  - apply srel_app; [|exact IH]. unfold gexp. cbn [fst snd].
    induction (gl s f L) as [|[e g] X IHX]; cbn [map pre fst snd]; constructor; auto.
    + apply req_app. exact Hr.
    + exact I.
  - apply srel_dropall; [|exact IH]. intros e He. unfold gexp in He. cbn [fst snd] in He.
    apply in_map_iff in He as [e' [<- _]]. cbn [pre fst]. intros C. apply Hn. eapply ne_app_l. exact C.
Qed.

(* ================================================================ the pipeline *)
Definition keep_op (ox : oracle * History.op) : bool := match snd ox with OElim => false | _ => true end.
(* the un-pruned reference pipeline: every elimination dropped *)
Definition strip (ops : list (oracle * History.op)) : list (oracle * History.op) := filter keep_op ops.

Lemma run_nil tol t : run tol t [] = HOk t.
Proof. reflexivity. Qed.

Theorem net_rel tol : 0 <= tol -> forall ops Rt Ut R U,
  (forall ox, In ox ops -> eff_op (snd ox)) -> exact_hist tol Rt ops -> pinv tol Rt ->
  srel KT (leaves [] Rt) (leaves [] Ut) ->
  run tol Rt ops = HOk R -> run tol Ut (strip ops) = HOk U ->
  srel KT (leaves [] R) (leaves [] U).
Proof.
  intros Ht. induction ops as [|[o op] rest IH]; intros Rt Ut R U Hop Hex Hp Hrel ER EU.
  - cbn [strip filter] in EU. rewrite run_nil in ER, EU. inversion ER; inversion EU; subst. exact Hrel.
  - rewrite run_cons in ER. cbn [fst snd] in ER. destruct Hex as [Hor Hnext]. cbn [fst snd] in Hor, Hnext.
    destruct (step tol o op Rt) as [Rt1|] eqn:Es; [|discriminate].
    pose proof (Hop (o, op) (or_introl eq_refl)) as Hop1. cbn [snd] in Hop1.
    destruct (step_pinv tol o op Rt Rt1 Ht Hop1 Hor Hp Es) as [Hp1 _].
    assert (Hop' : forall ox, In ox rest -> eff_op (snd ox)) by (intros ox Hin; apply Hop; right; exact Hin).
    specialize (Hnext Rt1 eq_refl).
    destruct op as [a|pr g| | |b g| |b g|b g]; cbn [eff_op] in Hop1; try contradiction.
    + (* apply_func: no region changes *)
      unfold strip in EU. cbn [filter keep_op snd] in EU. fold (strip rest) in EU.
      rewrite run_cons in EU. cbn [fst snd] in EU.
      destruct (step tol o (OApply a) Ut) as [Ut1|] eqn:Eu; [|discriminate].
      cbn [step] in Es, Eu.
      destruct (terms_all _ Rt); [|discriminate]. destruct (terms_all _ Ut); [|discriminate].
      inversion Es; inversion Eu; subst Rt1 Ut1.
      apply (IH (capply_func a Rt) (capply_func a Ut) R U); auto.
      unfold capply_func. rewrite !leaves_cmap. apply srel_mf. exact Hrel.
    + (* composition: every terminal replaced by the terminals of the graft, the same rows appended on both sides *)
      destruct pr; [contradiction|].
      unfold strip in EU. cbn [filter keep_op snd] in EU. fold (strip rest) in EU.
      rewrite run_cons in EU. cbn [fst snd] in EU.
      destruct (step tol o (OCompose false g) Ut) as [Ut1|] eqn:Eu; [|discriminate].
      cbn [step] in Es, Eu.
      destruct (negb (pshapeb g && binb g)); [discriminate|].
      destruct (terms_all _ Rt); [|discriminate]. destruct (terms_all _ Ut); [|discriminate].
      inversion Es; inversion Eu; subst Rt1 Ut1.
      apply (IH (ccompose Rt g) (ccompose Ut g) R U); auto.
      unfold ccompose. rewrite !leaves_clift. eapply srel_gexp. exact Hrel.
    + (* elimination: only on the pruned side *)
      unfold strip in EU. cbn [filter keep_op snd] in EU. fold (strip rest) in EU.
      cbn [step] in Es. inversion Es; subst Rt1.
      destruct (Hor eq_refl) as [Hexa Hmir].
      apply (IH (fst (elim o tol Rt)) Ut R U); auto.
      apply (srel_trans (ne_tol tol) KT KT) with (lT := leaves [] Rt); [intros; exact I | exact Hrel|].
      apply elim_rel_pinv; auto.
Qed.

Lemma net_srel tol ops t0 R U : 0 <= tol ->
  (forall ox, In ox ops -> eff_op (snd ox)) -> exact_hist tol t0 ops -> pinv tol t0 ->
  run tol t0 ops = HOk R -> run tol t0 (strip ops) = HOk U ->
  srel KT (leaves [] R) (leaves [] U).
Proof.
  intros Htol Hops Hexact Hstart HR HU.
  apply (net_rel tol Htol ops t0 t0 R U); auto. apply srel_refl. intros; exact I.
Qed.

(* 1. the terminals of the distilled tree are the activation regions of the network selected by a mask that selects
      every non-empty region *)
Theorem net_mask tol ops t0 R U : 0 <= tol ->
  (forall ox, In ox ops -> eff_op (snd ox)) -> exact_hist tol t0 ops -> pinv tol t0 ->
  run tol t0 ops = HOk R -> run tol t0 (strip ops) = HOk U ->
  exists m : list bool,
    length m = length (leaf_regions [] U) /\
    leaf_funcs R = select m (leaf_funcs U) /\
    Forall2 (fun (b : bool) (Rg : rows) => ne Rg -> b = true) m (leaf_regions [] U).
Proof.
  intros Htol Hops Hexact Hstart HR HU.
  destruct (srel_mask KT _ _ (net_srel tol ops t0 R U Htol Hops Hexact Hstart HR HU)) as [m [Hl [Hs HF]]].
  rewrite !leaves_funcs in Hs. rewrite leaves_regions in HF. exists m.
  split; [rewrite Hl, <- leaves_regions, map_length; reflexivity|]. split; [exact Hs|].
  eapply F2_impl; [|exact HF]. cbv beta. intros b Rg [_ H]. exact H.
Qed.
Theorem net_lower_bound tol ops t0 R U (full : list bool) : 0 <= tol ->
  (forall ox, In ox ops -> eff_op (snd ox)) -> exact_hist tol t0 ops -> pinv tol t0 ->
  run tol t0 ops = HOk R -> run tol t0 (strip ops) = HOk U ->
  Forall2 (fun (b : bool) (Rg : rows) => b = true -> ne Rg) full (leaf_regions [] U) ->
  (count full <= nleaves R)%nat.
Proof.
  intros Htol Hops Hexact Hstart HR HU Hfull.
  destruct (net_mask tol ops t0 R U Htol Hops Hexact Hstart HR HU) as [m [Hl [Hs HF]]].
  unfold nleaves. rewrite Hs, select_length by (rewrite Hl; apply leaf_len).
  apply count_mono. eapply Forall2_join; [|exact Hfull|exact HF]. cbv beta. intros a b Rg Ha Hb E. apply Hb. apply Ha. exact E.
Qed.
(* in particular for the full-dimensional regions (a strictly interior point) *)
Corollary net_lower_bound_interior tol ops t0 R U (full : list bool) : 0 <= tol ->
  (forall ox, In ox ops -> eff_op (snd ox)) -> exact_hist tol t0 ops -> pinv tol t0 ->
  run tol t0 ops = HOk R -> run tol t0 (strip ops) = HOk U ->
  Forall2 (fun (b : bool) (Rg : rows) => b = true -> interior Rg) full (leaf_regions [] U) ->
  (count full <= nleaves R)%nat.
Proof.
  intros Htol Hops Hexact Hstart HR HU Hfull. apply (net_lower_bound tol ops t0 R U full); auto.
  eapply F2_impl; [|exact Hfull]. cbv beta. intros b Rg H E. apply interior_ne. apply H. exact E.
Qed.

(* 2. the pipeline ends with an elimination (oracle o, exact on the path polytopes of the tree T it is applied to) *)
(* a kept terminal: its activation region (in U) has the same point set as its region in T, which is non-empty within
   tol as a row system of T; a non-empty activation region is kept *)
Definition KE (tol : Qc) (Rg : rows) : Prop := exists RT, req RT Rg /\ ne_tol tol RT.
Lemma net_elim_srel tol ops t0 T U o : 0 <= tol ->
  (forall ox, In ox ops -> eff_op (snd ox)) -> exact_hist tol t0 ops -> pinv tol t0 ->
  run tol t0 ops = HOk T -> run tol t0 (strip ops) = HOk U ->
  (forall r, is_path [] T r -> oexact_at o r) -> mir_sound o tol ->
  srel (KE tol) (leaves [] (fst (elim o tol T))) (leaves [] U).
Proof.
  intros Htol Hops Hexact Hstart HT HU Ho Hm.
  apply (srel_trans (ne_tol tol) KT (KE tol)) with (lT := leaves [] T).
  - intros RT RU Hr H1 _. exists RT. auto.
  - exact (net_srel tol ops t0 T U Htol Hops Hexact Hstart HT HU).
  - apply elim_rel_pinv; auto. exact (pipeline_inv tol Htol ops t0 T Hops Hexact Hstart HT).
Qed.
Theorem net_elim_mask tol ops t0 T U o : 0 <= tol ->
  (forall ox, In ox ops -> eff_op (snd ox)) -> exact_hist tol t0 ops -> pinv tol t0 ->
  run tol t0 ops = HOk T -> run tol t0 (strip ops) = HOk U ->
  (forall r, is_path [] T r -> oexact_at o r) -> mir_sound o tol ->
  exists m : list bool,
    length m = length (leaf_regions [] U) /\
    leaf_funcs (fst (elim o tol T)) = select m (leaf_funcs U) /\
    Forall2 (fun (b : bool) (Rg : rows) => (b = true -> KE tol Rg) /\ (ne Rg -> b = true)) m (leaf_regions [] U).
Proof.
  intros Htol Hops Hexact Hstart HT HU Ho Hm.
  destruct (srel_mask (KE tol) _ _ (net_elim_srel tol ops t0 T U o Htol Hops Hexact Hstart HT HU Ho Hm)) as [m [Hl [Hs HF]]].
  rewrite !leaves_funcs in Hs. rewrite leaves_regions in HF. exists m.
  split; [rewrite Hl, <- leaves_regions, map_length; reflexivity|]. split; [exact Hs|exact HF].
Qed.
(* tol > 0: a kept terminal is only known to be non-empty within tol as a row system of the tree the elimination
   ran on (KE above), and -- as a statement about the result alone -- within tol of ITS OWN region in R, i.e. with
   respect to the rows that are still on its path (the rows of forwarded decisions are gone): every terminal region of
   R is ne_tol tol, so #terminals of R = #regions of R that are non-empty within tol.  ne_tol is a property of the row
   system, not of the point set, hence it does not transfer to the longer row system of U when tol > 0. *)
Theorem net_upper_tol tol ops t0 T o : 0 <= tol ->
  (forall ox, In ox ops -> eff_op (snd ox)) -> exact_hist tol t0 ops -> pinv tol t0 ->
  run tol t0 ops = HOk T ->
  (forall r, is_path [] T r -> oexact_at o r) -> mir_sound o tol ->
  Forall (ne_tol tol) (leaf_regions [] (fst (elim o tol T))).
Proof.
  intros Htol Hops Hexact Hstart HT Ho Hm.
  pose proof (pipeline_inv tol Htol ops t0 T Hops Hexact Hstart HT) as HpT.
  destruct (step_pinv tol o OElim T (fst (elim o tol T)) Htol I (fun _ => conj Ho Hm) HpT eq_refl) as [_ Hr].
  specialize (Hr eq_refl). revert Hr. generalize (fst (elim o tol T)). intros r Hr.
  assert (EFF : forall t q, eff tol q t -> Forall (ne_tol tol) (leaf_regions q t)).
  { induction t as [|i leaf p s c0 IH0 c1 IH1]; intros q He; [constructor|].
    cbn [leaf_regions]. destruct He as [Hf [Hg Hk]]. destruct leaf.
    - constructor; [|constructor]. eapply gst_feas_ne; eauto.
    - destruct (Hk eq_refl) as [_ [_ [H0 H1]]]. apply Forall_app. split; [apply IH0|apply IH1]; assumption. }
  destruct r as [|i leaf p s c0 c1]; [constructor|]. cbn [leaf_regions]. destruct leaf.
  - constructor; [|constructor]. apply ne_ne_tol; [exact Htol|apply ne_nil].
  - destruct (Hr eq_refl) as [_ [H0 H1]]. apply Forall_app. split; apply EFF; assumption.
Qed.

(* the pruned pipeline completes whenever the un-pruned reference pipeline does (its terminals are a sub-sequence, so
   every dimension assert that holds for all terminals of the reference tree holds for those of the pruned tree) *)
Lemma terms_all_leaves P : forall t q, terms_all P t = forallb (fun e : rows * aff => P (snd e)) (leaves q t).
Proof.
  induction t as [|i leaf f st c0 IH0 c1 IH1]; intros q; [reflexivity|].
  cbn [terms_all leaves]. destruct leaf.
  - cbn [forallb snd]. rewrite andb_true_r. reflexivity.
  - rewrite forallb_app, <- IH0, <- IH1. reflexivity.
Qed.
Lemma srel_forallb (K : rows -> Prop) (P : aff -> bool) : forall a b, srel K a b ->
  forallb (fun e : rows * aff => P (snd e)) b = true -> forallb (fun e : rows * aff => P (snd e)) a = true.
Proof.
  intros a b H. induction H as [|RR RU f lR lU Hr HK H IH|RU f lR lU Hn H IH]; cbn [forallb snd]; intros E; auto.
  - apply andb_true_iff in E as [E1 E2]. rewrite E1, (IH E2). reflexivity.
  - apply andb_true_iff in E as [_ E2]. exact (IH E2).
Qed.
Lemma srel_terms_all (P : aff -> bool) Rt Ut : srel KT (leaves [] Rt) (leaves [] Ut) ->
  terms_all P Ut = true -> terms_all P Rt = true.
Proof. intros H. rewrite (terms_all_leaves P Ut []), (terms_all_leaves P Rt []). apply srel_forallb with (K := KT). exact H. Qed.

Theorem net_run_ok tol : 0 <= tol -> forall ops Rt Ut U,
  (forall ox, In ox ops -> eff_op (snd ox)) -> exact_hist tol Rt ops -> pinv tol Rt ->
  srel KT (leaves [] Rt) (leaves [] Ut) ->
  run tol Ut (strip ops) = HOk U -> exists R, run tol Rt ops = HOk R.
Proof.
  intros Ht. induction ops as [|[o op] rest IH]; intros Rt Ut U Hop Hex Hp Hrel EU.
  - exists Rt. reflexivity.
  - destruct Hex as [Hor Hnext]. cbn [fst snd] in Hor, Hnext.
    pose proof (Hop (o, op) (or_introl eq_refl)) as Hop1. cbn [snd] in Hop1.
    assert (Hop' : forall ox, In ox rest -> eff_op (snd ox)) by (intros ox Hin; apply Hop; right; exact Hin).
    assert (NEXT : forall Rt1 Ut1, step tol o op Rt = HOk Rt1 -> srel KT (leaves [] Rt1) (leaves [] Ut1) ->
               run tol Ut1 (strip rest) = HOk U -> exists R, run tol Rt ((o, op) :: rest) = HOk R).
    { intros Rt1 Ut1 Es Hrel1 EU1. rewrite run_cons. cbn [fst snd]. rewrite Es.
      destruct (step_pinv tol o op Rt Rt1 Ht Hop1 Hor Hp Es) as [Hp1 _].
      apply (IH Rt1 Ut1 U); auto. }
    destruct op as [a|pr g| | |b g| |b g|b g]; cbn [eff_op] in Hop1; try contradiction.
    + unfold strip in EU. cbn [filter keep_op snd] in EU. fold (strip rest) in EU.
      rewrite run_cons in EU. cbn [fst snd step] in EU.
      destruct (terms_all (fun f => Nat.eqb (outdim f) (a_in a)) Ut) eqn:TU; [|discriminate].
      apply (NEXT (capply_func a Rt) (capply_func a Ut)); auto.
      * cbn [step]. rewrite (srel_terms_all _ Rt Ut Hrel TU). reflexivity.
      * unfold capply_func. rewrite !leaves_cmap. apply srel_mf. exact Hrel.
    + destruct pr; [contradiction|].
      unfold strip in EU. cbn [filter keep_op snd] in EU. fold (strip rest) in EU.
      rewrite run_cons in EU. cbn [fst snd step] in EU.
      destruct (negb (pshapeb g && binb g)) eqn:Eg; [discriminate|].
      destruct (terms_all (fun f => Nat.eqb (outdim f) (pin g)) Ut) eqn:TU; [|discriminate].
      apply (NEXT (ccompose Rt g) (ccompose Ut g)); auto.
      * cbn [step]. rewrite Eg, (srel_terms_all _ Rt Ut Hrel TU). reflexivity.
      * unfold ccompose. rewrite !leaves_clift. eapply srel_gexp. exact Hrel.
    + unfold strip in EU. cbn [filter keep_op snd] in EU. fold (strip rest) in EU.
      destruct (Hor eq_refl) as [Hexa Hmir].
      apply (NEXT (fst (elim o tol Rt)) Ut); auto.
      apply (srel_trans (ne_tol tol) KT KT) with (lT := leaves [] Rt); [intros; exact I | exact Hrel|].
      apply elim_rel_pinv; auto.
Qed.
Corollary net_completes tol ops t0 U : 0 <= tol ->
  (forall ox, In ox ops -> eff_op (snd ox)) -> exact_hist tol t0 ops -> pinv tol t0 ->
  run tol t0 (strip ops) = HOk U -> exists R, run tol t0 ops = HOk R.
Proof.
  intros Htol Hops Hexact Hstart HU. apply (net_run_ok tol Htol ops t0 t0 U); auto. apply srel_refl. intros; exact I.
Qed.

(* tol = 0: the distilled tree has exactly as many terminals as the network has non-empty closed activation regions *)
Theorem net_exact_tol0 ops t0 T U o (closed : list bool) :
  (forall ox, In ox ops -> eff_op (snd ox)) -> exact_hist 0 t0 ops -> pinv 0 t0 ->
  run 0 t0 ops = HOk T -> run 0 t0 (strip ops) = HOk U ->
  (forall r, is_path [] T r -> oexact_at o r) -> mir_sound o 0 ->
  Forall2 (fun (b : bool) (Rg : rows) => b = true <-> ne Rg) closed (leaf_regions [] U) ->
  nleaves (fst (elim o 0 T)) = count closed.
Proof.
  intros Hops Hex Hst HT HU Ho Hm Hc.
  assert (Ht : 0 <= 0) by apply Qcle_refl.
  destruct (net_elim_mask 0 ops t0 T U o Ht Hops Hex Hst HT HU Ho Hm) as [m [Hl [Hs HF]]].
  unfold nleaves. rewrite Hs, select_length by (rewrite Hl; apply leaf_len).
  apply Nat.le_antisymm; apply count_mono.
  - eapply Forall2_join; [|exact HF|exact Hc]. cbv beta. intros a b Rg [Ha _] Hb E. apply Hb.
    destruct (Ha E) as [RT [Hr Hn]]. eapply req_ne; [exact Hr|]. apply ne_tol_0. exact Hn.
  - eapply Forall2_join; [|exact Hc|exact HF]. cbv beta. intros a b Rg Ha [_ Hb] E. apply Hb. apply Ha. exact E.
Qed.

(* the same with the final elimination as the last operation of the pipeline itself *)
Lemma run_app tol : forall ops1 init ops2,
  run tol init (ops1 ++ ops2) = match run tol init ops1 with HOk t => run tol t ops2 | HPanic => HPanic end.
Proof.
  induction ops1 as [|ox ops1 IH]; intros init ops2; [reflexivity|].
  cbn [app]. rewrite !run_cons. destruct (step tol (fst ox) (snd ox) init) as [t1|]; [apply IH|reflexivity].
Qed.
Lemma exact_hist_app tol : forall ops1 init ops2 T, exact_hist tol init (ops1 ++ ops2) -> run tol init ops1 = HOk T ->
  exact_hist tol init ops1 /\ exact_hist tol T ops2.
Proof.
  induction ops1 as [|ox ops1 IH]; intros init ops2 T Hex Er.
  - rewrite run_nil in Er. inversion Er; subst. split; [exact I|exact Hex].
  - cbn [app] in Hex. destruct Hex as [Hor Hnext]. rewrite run_cons in Er.
    destruct (step tol (fst ox) (snd ox) init) as [t1|] eqn:Es; [|discriminate].
    destruct (IH t1 ops2 T (Hnext t1 eq_refl) Er) as [A B]. split; [|exact B].
    split; [exact Hor|]. intros t1' E. rewrite Es in E. inversion E; subst. exact A.
Qed.
Lemma strip_snoc_elim ops o : strip (ops ++ [(o, OElim)]) = strip ops.
Proof. unfold strip. rewrite filter_app. cbn [filter keep_op snd]. apply app_nil_r. Qed.

Theorem net_exact_tol0_last ops t0 R U o (closed : list bool) :
  (forall ox, In ox ops -> eff_op (snd ox)) -> exact_hist 0 t0 (ops ++ [(o, OElim)]) -> pinv 0 t0 ->
  run 0 t0 (ops ++ [(o, OElim)]) = HOk R -> run 0 t0 (strip (ops ++ [(o, OElim)])) = HOk U ->
  Forall2 (fun (b : bool) (Rg : rows) => b = true <-> ne Rg) closed (leaf_regions [] U) ->
  nleaves R = count closed.
Proof.
  intros Hops Hex Hst HR HU Hc. rewrite strip_snoc_elim in HU. rewrite run_app in HR.
  destruct (run 0 t0 ops) as [T|] eqn:ET; [|discriminate].
  destruct (exact_hist_app 0 ops t0 [(o, OElim)] T Hex ET) as [Hex1 [Hlast _]]. cbn [fst snd] in Hlast.
  destruct (Hlast eq_refl) as [Ho Hm].
  rewrite run_cons in HR. cbn [fst snd step] in HR. rewrite run_nil in HR. inversion HR; subst R.
  apply (net_exact_tol0 ops t0 T U o closed); auto.
Qed.
